(** C13 — property theorems only; each closed by [exact] of a lemma proved elsewhere. *)
From Coq Require Import List NArith Permutation.
From VB Require Import Mempool.VsmDefs Mempool.VsmProofs Mempool.PoolDefs Mempool.PoolProofs.
Import ListNotations.
Local Open Scope N_scope.

(** ValueSortedMap as coded now: after ANY operation sequence (any comparator "height a < height b") no assertion
    fires, set and map hold the same values, the set is sorted, sizes agree, keys are unique *)
Theorem C13_vsm_refines_map :
  forall (height : N -> N) ops, exists s,
    run height empty ops = Ok s /\
    Permutation (vset s) (map snd (vmap s)) /\
    sorted height (vset s) = true /\
    length (vset s) = length (vmap s) /\
    NoDup (map fst (vmap s)).
Proof. exact vsm_refines_map_lemma. Qed.
Print Assumptions C13_vsm_refines_map.

(** documentation: the erase of the code before commit 913f84f9 ("first equivalent element") breaks it *)
Theorem C13_vsm_v0_refuted :
  exists ops s, run_v0 h10 empty ops = Ok s /\ ~ Permutation (vset s) (map snd (vmap s)).
Proof. exact vsm_v0_refuted_lemma. Qed.
Print Assumptions C13_vsm_v0_refuted.

(** every history respecting the caller contract (submit only payloads that are not connected) runs without a
    failing assertion; every known payload is connected XOR in flight *)
Theorem C13_partition :
  forall (ht par blk : N -> N) ops,
    contract ht par blk pempty ops ->
    exists s, prun ht par blk pempty ops = POk s /\
      NoDup (conn s) /\
      (forall p, ~ (connected s p = true /\ inflight s p = true)) /\
      (forall p, known s p = true <-> (connected s p = true \/ inflight s p = true)).
Proof. exact partition_lemma. Qed.
Print Assumptions C13_partition.

(** the height-sorted in-flight view holds exactly the in-flight payloads, once each, sorted by height *)
Theorem C13_views_agree :
  forall (ht par blk : N -> N) ops,
    contract ht par blk pempty ops ->
    exists s, prun ht par blk pempty ops = POk s /\
      Permutation (vset (infl s)) (map fst (vmap (infl s))) /\
      sorted ht (vset (infl s)) = true /\
      NoDup (vset (infl s)) /\
      (forall p, inflight s p = true <-> In p (vset (infl s))).
Proof. exact views_agree_lemma. Qed.
Print Assumptions C13_views_agree.

(** no operation other than a submit of p makes an unknown payload p known *)
Theorem C13_removed_stay_removed :
  forall (ht par blk : N -> N) s o s' p,
    PInv ht s ->
    (match o with Submit _ _ q => connected s q = false | _ => True end) ->
    ~ targets o p -> known s p = false -> pstep ht par blk s o = POk s' -> known s' p = false.
Proof. exact removed_stay_removed_lemma. Qed.
Print Assumptions C13_removed_stay_removed.

(** never lost: an accepted submit makes the payload known and a connect pass keeps every known payload known *)
Theorem C13_never_lost :
  forall (ht par blk : N -> N),
    (forall base v p s s', PInv ht s -> connected s p = false -> v <> Stateless ->
       submit ht par blk base v p s = POk s' -> known s' p = true) /\
    (forall base stale s s', PInv ht s -> tryConnect ht par blk base stale s = POk s' ->
       forall q, known s q = true -> known s' q = true).
Proof. exact never_lost_lemma. Qed.
Print Assumptions C13_never_lost.

(** [blk p] is the VBK block a payload carries, [par p] the parent of that block, [hb] the height of blocks.
    One tryConnectPayloads pass: whatever is still in flight afterwards either fails the contextual check or its
    context block is absent (not in the trees, not among the connected payloads) - for every submission order *)
Theorem C13_inflight_eventually_connected :
  forall (ht par blk hb : N -> N) base stale s s',
    (forall q, hb (blk q) = ht q) -> (forall q, hb (par q) < ht q) ->
    PInv ht s -> tryConnect ht par blk base stale s = POk s' ->
    forall p, inflight s' p = true -> mem p stale = false ->
      present blk base (conn s') (par p) = false.
Proof. exact inflight_eventually_connected_lemma. Qed.
Print Assumptions C13_inflight_eventually_connected.

(** the sort key of the in-flight view is the parameter [ht]; the theorem above needs it to be the height of the
    carried block (as coded). For another key (here: heights of the endorsed blocks, in reverse order of the
    containing blocks) one pass leaves a payload in flight whose context block is present *)
Theorem C13_inflight_other_key_refuted :
  (forall q, wk_par q < wk_blk q) /\
  contract wk_key wk_par wk_blk pempty wk_ops /\
  exists s s',
    prun wk_key wk_par wk_blk pempty wk_ops = POk s /\
    tryConnect wk_key wk_par wk_blk [10] [] s = POk s' /\
    inflight s' 1 = true /\ mem 1 [] = false /\
    present wk_blk [10] (conn s') (wk_par 1) = true.
Proof. exact inflight_other_key_refuted_lemma. Qed.
Print Assumptions C13_inflight_other_key_refuted.

(** erase-while-iterating as coded now never reads an erased node; the loop before 93a5aff7 always did *)
Theorem C13_erase_while_iterating_safe :
  (forall atvs stored, cleanup_tooold atvs stored =
                       Done (filter (fun x => negb (existsb (N.eqb x) atvs)) stored)) /\
  (forall valid nodes, cleanup_stale valid nodes = Done (filter valid nodes)).
Proof. exact erase_while_iterating_safe_lemma. Qed.
Print Assumptions C13_erase_while_iterating_safe.

Theorem C13_cleanup_v0_uaf_refuted :
  forall a atvs stored, cleanup_tooold_v0 (a :: atvs) stored = Uaf.
Proof. exact cleanup_v0_uaf_refuted_lemma. Qed.
Print Assumptions C13_cleanup_v0_uaf_refuted.

(** ** the relations structure (three payload types): relations_, vbkblocks_, stored_vtbs_/stored_atvs_ and the three
    in-flight maps; every tree verdict is an input of the step (RelDefs) *)
From VB Require Import Mempool.RelDefs Mempool.RelProofs Mempool.RelMore.

(** EVERY operation sequence (no caller contract): the relations_.size() == vbkblocks_.size() assertion of cleanUp
    never fires; one relation per connected VBK block and vice versa; a VTB / ATV is in the connected map iff a
    relation lists it, and it is listed by the relation of its containing block / block of proof; no key twice *)
Theorem C13_relations_consistent :
  forall (bop cont : N -> N) ops,
    exists s, rrun bop cont mp0 ops = ROk s /\
      NoDup (map hdr (rels s)) /\ NoDup (vbks s) /\ NoDup (svtbs s) /\ NoDup (satvs s) /\
      NoDup (fb s) /\ NoDup (fv s) /\ NoDup (fa s) /\
      (forall b, In b (vbks s) <-> exists r, In r (rels s) /\ hdr r = b) /\
      (forall t, In t (svtbs s) <-> exists r, In r (rels s) /\ In t (rvtbs r)) /\
      (forall a, In a (satvs s) <-> exists r, In r (rels s) /\ In a (ratvs r)) /\
      (forall r t, In r (rels s) -> In t (rvtbs r) -> cont t = hdr r) /\
      (forall r a, In r (rels s) -> In a (ratvs r) -> bop a = hdr r).
Proof. exact relations_consistent_lemma. Qed.
Print Assumptions C13_relations_consistent.

(** under the caller contract (an ATV / VTB is submitted from outside only while it is not connected; the
    resubmissions of tryConnectPayloads are shown to respect it): connected and in flight are disjoint, no relation
    lists an id twice, no id is listed by two relations *)
Theorem C13_relations_disjoint :
  forall (bop cont : N -> N) ops,
    rcontract bop cont mp0 ops ->
    exists s, rrun bop cont mp0 ops = ROk s /\
      (forall a, ~ (In a (satvs s) /\ In a (fa s))) /\
      (forall t, ~ (In t (svtbs s) /\ In t (fv s))) /\
      (forall r, In r (rels s) -> NoDup (rvtbs r) /\ NoDup (ratvs r)) /\
      (forall r1 r2 x, In r1 (rels s) -> In r2 (rels s) ->
         (In x (rvtbs r1) /\ In x (rvtbs r2)) \/ (In x (ratvs r1) /\ In x (ratvs r2)) -> r1 = r2).
Proof. exact relations_disjoint_lemma. Qed.
Print Assumptions C13_relations_disjoint.

(** cleanUp removes exactly what the tree marks: contextually invalid VTBs; contextually invalid ATVs and every ATV of
    a too old block of proof; contextually invalid in-flight payloads; the relations (and VBK blocks) [cl_rel] erases
    (too old without VTBs, or in the stable tree and empty after the sweep). Everything else stays, in place *)
Theorem C13_cleanUp_exact :
  forall (bop cont : N -> N) o s,
    RInv bop cont s ->
    exists s', cleanUp o s = ROk s' /\
      svtbs s' = filter (validV o) (svtbs s) /\
      satvs s' = filter (fun a => andb (validA o a) (negb (tooOld o (bop a)))) (satvs s) /\
      fb s' = filter (validB o) (fb s) /\ fv s' = filter (validV o) (fv s) /\ fa s' = filter (validA o) (fa s) /\
      (forall b, In b (vbks s') <-> exists r, In r (rels s) /\ hdr r = b /\ cl_rel o r <> None) /\
      (forall r', In r' (rels s') <-> exists r, In r (rels s) /\ cl_rel o r = Some r').
Proof. exact cleanUp_exact_lemma. Qed.
Print Assumptions C13_cleanUp_exact.

(** removeAll(PopData) as coded takes nothing out of the in-flight maps: afterwards an ATV / VTB of the PopData is
    known only if it was in flight before AND passes the contextual check of the cleanUp inside removeAll (once the
    block carrying the PopData is on the active chain that check answers "duplicate"); a context block of the PopData
    survives the first loop only with a relation that still lists payloads *)
Theorem C13_removeAll_forgets :
  forall (bop cont : N -> N) pb pv pa o c s,
    RInv bop cont s -> DInv s ->
    exists s', removeAll bop cont pb pv pa o c s = ROk s' /\
      (forall a, In a pa -> KA s' a -> In a (fa s) /\ validA o a = true) /\
      (forall t, In t pv -> KV s' t -> In t (fv s) /\ validV o t = true) /\
      (forall b, In b pb -> In b (vbks (dropPop pb pv pa s)) ->
         exists r, In r (rels (dropPop pb pv pa s)) /\ hdr r = b /\ (rvtbs r <> [] \/ ratvs r <> [])).
Proof. exact removeAll_forgets_lemma. Qed.
Print Assumptions C13_removeAll_forgets.

(** nothing reappears without a submit (three-typed version of C13_removed_stay_removed): an ATV / VTB known after an
    operation was known before it or is the payload that operation submits - clear, cleanUp, removeAll and
    generatePopData included; after clear every container is empty *)
Theorem C13_no_resurrection :
  forall (bop cont : N -> N) s op s',
    RInv bop cont s -> DInv s -> rstep bop cont s op = ROk s' ->
    (forall a, KA s' a -> KA s a \/ exists v, op = SubA v a) /\
    (forall t, KV s' t -> KV s t \/ exists v, op = SubV v t) /\
    (op = Clr -> s' = mp0).
Proof. exact no_resurrection_lemma. Qed.
Print Assumptions C13_no_resurrection.

(** the "never both" of the property does NOT hold for VBK blocks, contract or not: getOrPutVbkRelation ignores the
    in-flight blocks, so a block waiting in flight becomes a relation header when an ATV carrying it connects
    (connected and in flight at once); the next connect pass erases the in-flight entry *)
Theorem C13_vbk_header_both_refuted :
  let ops := [SubB Stateful false 7; SubA Fine 1] in
  rcontract ex_bop ex_cont mp0 ops /\
  (exists s, rrun ex_bop ex_cont mp0 ops = ROk s /\ In 7 (vbks s) /\ In 7 (fb s)) /\
  (exists s, rrun ex_bop ex_cont mp0 (ops ++ [Gen all_fine all_valid]) = ROk s /\ In 7 (vbks s) /\ fb s = []).
Proof. exact vbk_header_both_example. Qed.
Print Assumptions C13_vbk_header_both_refuted.

(** the caller contract is needed for C13_relations_disjoint: a connected ATV submitted again is listed twice by its
    relation (the std::set falls back on the shared_ptr address), and connected AND in flight when the second submit
    fails statefully *)
Theorem C13_resubmit_connected_refuted :
  (exists s, rrun ex_bop ex_cont mp0 [SubA Fine 1; SubA Fine 1] = ROk s /\ rels s = [mkr 7 [] [1; 1]]) /\
  (exists s, rrun ex_bop ex_cont mp0 [SubA Fine 1; SubA Stateful 1] = ROk s /\ In 1 (satvs s) /\ In 1 (fa s)).
Proof. exact resubmit_example. Qed.
Print Assumptions C13_resubmit_connected_refuted.

(** ... and it is transient: a VBK block the tree accepts is not in flight after a connect pass (generatePopData,
    removeAll), whatever else the pass does *)
Theorem C13_inflight_block_resolved :
  forall (bop cont : N -> N) c s b,
    (forall s', vB c s' b = Fine) -> ~ In b (fb (tryConnect bop cont c s)).
Proof. exact inflight_block_resolved_lemma. Qed.
Print Assumptions C13_inflight_block_resolved.
