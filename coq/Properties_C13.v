(** C13 — property theorems only; each closed by [exact] of a lemma proved elsewhere. *)
From Coq Require Import List NArith Permutation.
From VB Require Import Mempool.VsmDefs Mempool.VsmProofs Mempool.PoolDefs Mempool.PoolProofs.
Import ListNotations.
Local Open Scope N_scope.

(** ValueSortedMap as coded now: after ANY operation sequence (any comparator "height a < height b") no assertion
    fires, set and map hold the same values, the set is sorted, sizes agree, keys are unique *)
Theorem C13_vsm_refines_map :
  forall (height : N -> N) ops, exists s,
    run height empty ops = Ok s /\
    Permutation (vset s) (map snd (vmap s)) /\
    sorted height (vset s) = true /\
    length (vset s) = length (vmap s) /\
    NoDup (map fst (vmap s)).
Proof. exact vsm_refines_map_lemma. Qed.
Print Assumptions C13_vsm_refines_map.

(** documentation: the erase of the code before commit 913f84f9 ("first equivalent element") breaks it *)
Theorem C13_vsm_v0_refuted :
  exists ops s, run_v0 h10 empty ops = Ok s /\ ~ Permutation (vset s) (map snd (vmap s)).
Proof. exact vsm_v0_refuted_lemma. Qed.
Print Assumptions C13_vsm_v0_refuted.

(** every history respecting the caller contract (submit only payloads that are not connected) runs without a
    failing assertion; every known payload is connected XOR in flight *)
Theorem C13_partition :
  forall (ht par blk : N -> N) ops,
    contract ht par blk pempty ops ->
    exists s, prun ht par blk pempty ops = POk s /\
      NoDup (conn s) /\
      (forall p, ~ (connected s p = true /\ inflight s p = true)) /\
      (forall p, known s p = true <-> (connected s p = true \/ inflight s p = true)).
Proof. exact partition_lemma. Qed.
Print Assumptions C13_partition.

(** the height-sorted in-flight view holds exactly the in-flight payloads, once each, sorted by height *)
Theorem C13_views_agree :
  forall (ht par blk : N -> N) ops,
    contract ht par blk pempty ops ->
    exists s, prun ht par blk pempty ops = POk s /\
      Permutation (vset (infl s)) (map fst (vmap (infl s))) /\
      sorted ht (vset (infl s)) = true /\
      NoDup (vset (infl s)) /\
      (forall p, inflight s p = true <-> In p (vset (infl s))).
Proof. exact views_agree_lemma. Qed.
Print Assumptions C13_views_agree.

(** no operation other than a submit of p makes an unknown payload p known *)
Theorem C13_removed_stay_removed :
  forall (ht par blk : N -> N) s o s' p,
    PInv ht s ->
    (match o with Submit _ _ q => connected s q = false | _ => True end) ->
    ~ targets o p -> known s p = false -> pstep ht par blk s o = POk s' -> known s' p = false.
Proof. exact removed_stay_removed_lemma. Qed.
Print Assumptions C13_removed_stay_removed.

(** never lost: an accepted submit makes the payload known and a connect pass keeps every known payload known *)
Theorem C13_never_lost :
  forall (ht par blk : N -> N),
    (forall base v p s s', PInv ht s -> connected s p = false -> v <> Stateless ->
       submit ht par blk base v p s = POk s' -> known s' p = true) /\
    (forall base stale s s', PInv ht s -> tryConnect ht par blk base stale s = POk s' ->
       forall q, known s q = true -> known s' q = true).
Proof. exact never_lost_lemma. Qed.
Print Assumptions C13_never_lost.

(** [blk p] is the VBK block a payload carries, [par p] the parent of that block, [hb] the height of blocks.
    One tryConnectPayloads pass: whatever is still in flight afterwards either fails the contextual check or its
    context block is absent (not in the trees, not among the connected payloads) - for every submission order *)
Theorem C13_inflight_eventually_connected :
  forall (ht par blk hb : N -> N) base stale s s',
    (forall q, hb (blk q) = ht q) -> (forall q, hb (par q) < ht q) ->
    PInv ht s -> tryConnect ht par blk base stale s = POk s' ->
    forall p, inflight s' p = true -> mem p stale = false ->
      present blk base (conn s') (par p) = false.
Proof. exact inflight_eventually_connected_lemma. Qed.
Print Assumptions C13_inflight_eventually_connected.

(** the sort key of the in-flight view is the parameter [ht]; the theorem above needs it to be the height of the
    carried block (as coded). For another key (here: heights of the endorsed blocks, in reverse order of the
    containing blocks) one pass leaves a payload in flight whose context block is present *)
Theorem C13_inflight_other_key_refuted :
  (forall q, wk_par q < wk_blk q) /\
  contract wk_key wk_par wk_blk pempty wk_ops /\
  exists s s',
    prun wk_key wk_par wk_blk pempty wk_ops = POk s /\
    tryConnect wk_key wk_par wk_blk [10] [] s = POk s' /\
    inflight s' 1 = true /\ mem 1 [] = false /\
    present wk_blk [10] (conn s') (wk_par 1) = true.
Proof. exact inflight_other_key_refuted_lemma. Qed.
Print Assumptions C13_inflight_other_key_refuted.

(** erase-while-iterating as coded now never reads an erased node; the loop before 93a5aff7 always did *)
Theorem C13_erase_while_iterating_safe :
  (forall atvs stored, cleanup_tooold atvs stored =
                       Done (filter (fun x => negb (existsb (N.eqb x) atvs)) stored)) /\
  (forall valid nodes, cleanup_stale valid nodes = Done (filter valid nodes)).
Proof. exact erase_while_iterating_safe_lemma. Qed.
Print Assumptions C13_erase_while_iterating_safe.

Theorem C13_cleanup_v0_uaf_refuted :
  forall a atvs stored, cleanup_tooold_v0 (a :: atvs) stored = Uaf.
Proof. exact cleanup_v0_uaf_refuted_lemma. Qed.
Print Assumptions C13_cleanup_v0_uaf_refuted.
