Require Extraction.
Require Import ExtrOcamlBasic.
From Coq Require Import ZArith NArith.
From VB Require Import Rewards.BigDecDefs Rewards.CalcDefs Rewards.SpecDefs Rewards.BoundsDefs Rewards.WindowDefs.
Extraction "Rewards_model.ml" Nat.pred N.succ Z.succ
  wrap256 bd_add bd_sub bd_mul bd_div bd_of_u64 low64 bd_integer_fraction bd_decimal_fraction
  round_for_block score_multiplier
  block_reward256 miner_reward256 score256 difficulty256 payouts_inner256 calc_payouts256 get_pop_payout256
  spec_block_reward spec_score spec_difficulty spec_paid spec_payees spec_endorsed spec_cap spec_round
  default_params params_okb chain_okb block_okb
  window pay_window difficulty_win256 calc_payouts_win256 get_pop_payout_win256.
