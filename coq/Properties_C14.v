(** C14 — property theorems only; each closed by [exact] of a lemma proved elsewhere. *)
From Coq Require Import ZArith List.
From VB Require Import Rewards.BigDecDefs Rewards.CalcDefs Rewards.SpecDefs Rewards.StructProofs.
Import ListNotations.
Local Open Scope Z_scope.

(** endorsements whose block of proof is not on the best VBK chain change nothing
    (any wrap function, any parameter set, any chain) *)
Theorem C14_only_best_chain_endorsements :
  forall w p chain, get_pop_payout w p (map strip_block chain) = get_pop_payout w p chain.
Proof. exact get_pop_payout_strip. Qed.
Print Assumptions C14_only_best_chain_endorsements.

(** a block none of whose endorsements has its block of proof on the best VBK chain pays nothing *)
Theorem C14_no_endorsement_no_pay :
  forall w p chain m,
    (forall e b, nth_error chain (Z.to_nat (p_delay p - 1)) = Some b -> In e (b_ends b) -> e_bop e = None) ->
    get_pop_payout w p chain = Ok m -> m = [].
Proof. exact get_pop_payout_none. Qed.
Print Assumptions C14_no_endorsement_no_pay.
