(** C14 — property theorems only; each closed by [exact] of a lemma proved elsewhere.
    [w] = the wrap function of ArithUint256 ([wrap256] in the library); side
    conditions are the decidable predicates of Rewards/BoundsDefs.v. *)
From Coq Require Import ZArith List Permutation Floats.
From VB Require Import Gen.RewardParams.
From VB Require Import Rewards.BigDecDefs Rewards.CalcDefs Rewards.SpecDefs Rewards.BoundsDefs
     Rewards.StructProofs Rewards.MapProofs Rewards.FinalProofs
     Rewards.WindowDefs Rewards.WindowProofs Rewards.ConvDefs Rewards.ConvProofs.
Import ListNotations.
Local Open Scope Z_scope.

(** no 256-bit wrap under the stated bounds: the library's arithmetic and exact
    integer arithmetic compute the same payouts / block reward *)
Theorem C14_u256_refines_Z :
  forall p b prevs, params_okb p = true -> block_okb b = true -> chain_okb prevs = true ->
    calc_payouts wrap256 p b prevs = calc_payouts (fun z => z) p b prevs.
Proof. exact u256_refines_Z. Qed.
Print Assumptions C14_u256_refines_Z.

Theorem C14_u256_refines_Z_block_reward :
  forall p h s d, params_okb p = true -> 0 <= h < 2 ^ 31 -> 0 <= s < 2 ^ 128 -> 0 <= d ->
    block_reward wrap256 p h s d = block_reward (fun z => z) p h s d.
Proof. exact u256_refines_Z_block_reward. Qed.
Print Assumptions C14_u256_refines_Z_block_reward.

(** calculateBlockReward equals the by-regime specification *)
Theorem C14_block_reward_eq_spec :
  forall p h s d, params_okb p = true -> 0 <= h < 2 ^ 31 -> 0 <= s < 2 ^ 128 -> 0 <= d ->
    block_reward wrap256 p h s d = Ok (spec_block_reward p h s d).
Proof. exact block_reward_eq_spec. Qed.
Print Assumptions C14_block_reward_eq_spec.

(** getPopPayout pays exactly the specification amounts to exactly the payout
    infos with an endorsement on the best VBK chain, for the block delay-1 behind
    the tip; nothing when the chain is too short *)
Theorem C14_reward_eq_spec :
  forall p tip rest,
    params_okb p = true -> chain_okb (tip :: rest) = true ->
    Z.of_nat (length (tip :: rest)) <= b_height tip + 1 -> 1 <= p_settle p ->
    match spec_endorsed p (tip :: rest) with
    | None => get_pop_payout wrap256 p (tip :: rest) = Ok []
    | Some (e, prevs) =>
      b_height e + p_settle p - 1 <= b_height tip ->
      exists m, get_pop_payout wrap256 p (tip :: rest) = Ok m /\
        forall pid, map_get pid m = match on_pid pid e with [] => None | _ => Some (spec_paid p e prevs pid) end
    end.
Proof. exact reward_eq_spec. Qed.
Print Assumptions C14_reward_eq_spec.

(** amounts of equal payout infos are summed (entry = sum of the shares of all
    counted endorsements with that payout info; no entry otherwise) *)
Theorem C14_same_payout_info_summed :
  forall p b prevs, params_okb p = true -> block_okb b = true -> chain_okb prevs = true ->
    exists m, calc_payouts wrap256 p b prevs = Ok m /\
      forall pid, map_get pid m = match on_pid pid b with [] => None | _ => Some (spec_paid p b prevs pid) end.
Proof. exact calc_payouts_eq_spec. Qed.
Print Assumptions C14_same_payout_info_summed.

(** ... independently of the order of the endorsements *)
Theorem C14_payout_order_independent :
  forall p b b' prevs,
    params_okb p = true -> block_okb b = true -> block_okb b' = true -> chain_okb prevs = true ->
    b_height b = b_height b' -> Permutation (b_ends b) (b_ends b') ->
    calc_payouts wrap256 p b prevs = calc_payouts wrap256 p b' prevs.
Proof. exact payout_order_independent. Qed.
Print Assumptions C14_payout_order_independent.

(** total paid <= block reward <= capped block reward of the round (< 2^64).
    The first inequality is what is true: every share is rounded down twice, so
    the total may be smaller than the block reward, never larger. *)
Theorem C14_sum_le_block_reward :
  forall p b prevs m, params_okb p = true -> block_okb b = true -> chain_okb prevs = true ->
    calc_payouts wrap256 p b prevs = Ok m ->
    exists s d br, score_from_endorsements wrap256 p (b_ends b) = Ok s /\ calc_difficulty wrap256 p prevs = Ok d /\
      block_reward wrap256 p (b_height b) s d = Ok br /\
      total m <= br /\ br <= spec_cap p (spec_round p (b_height b)).
Proof. exact sum_le_block_reward. Qed.
Print Assumptions C14_sum_le_block_reward.

Theorem C14_block_reward_le_cap :
  forall p h s d br, params_okb p = true -> 0 <= h < 2 ^ 31 -> 0 <= s < 2 ^ 128 -> 0 <= d ->
    block_reward wrap256 p h s d = Ok br ->
    0 <= br <= spec_cap p (spec_round p h) /\ spec_cap p (spec_round p h) < 2 ^ 64.
Proof. exact block_reward_le_cap. Qed.
Print Assumptions C14_block_reward_le_cap.

(** endorsements whose block of proof is not on the best VBK chain change nothing
    (any wrap function, any parameter set, any chain) *)
Theorem C14_only_best_chain_endorsements :
  forall w p chain, get_pop_payout w p (map strip_block chain) = get_pop_payout w p chain.
Proof. exact get_pop_payout_strip. Qed.
Print Assumptions C14_only_best_chain_endorsements.

(** a block none of whose endorsements has its block of proof on the best VBK chain pays nothing *)
Theorem C14_no_endorsement_no_pay :
  forall w p chain m,
    (forall e b, nth_error chain (Z.to_nat (p_delay p - 1)) = Some b -> In e (b_ends b) -> e_bop e = None) ->
    get_pop_payout w p chain = Ok m -> m = [].
Proof. exact get_pop_payout_none. Qed.
Print Assumptions C14_no_endorsement_no_pay.

(** the side conditions hold for the library's default parameters (regenerated from the source) *)
Theorem C14_default_params_ok : params_okb default_params = true.
Proof. exact default_params_ok. Qed.
Print Assumptions C14_default_params_ok.

(** locality (any wrap function, any parameter set, any chain): the difficulty is a
    function of the [difficultyAveragingInterval] blocks preceding the endorsed block only ... *)
Theorem C14_difficulty_only_window :
  forall w p prevs prevs', window p prevs = window p prevs' -> calc_difficulty w p prevs = calc_difficulty w p prevs'.
Proof. exact difficulty_only_window. Qed.
Print Assumptions C14_difficulty_only_window.

(** ... so are the payouts of an endorsed block ... *)
Theorem C14_payouts_only_window :
  forall w p b prevs prevs', window p prevs = window p prevs' -> calc_payouts w p b prevs = calc_payouts w p b prevs'.
Proof. exact calc_payouts_only_window. Qed.
Print Assumptions C14_payouts_only_window.

(** ... and getPopPayout(tip) is a function of the delay + interval blocks below the tip:
    two chains that agree there pay the same, whatever lies deeper *)
Theorem C14_get_pop_payout_only_window :
  forall w p chain chain', pay_window p chain = pay_window p chain' -> get_pop_payout w p chain = get_pop_payout w p chain'.
Proof. exact get_pop_payout_only_window. Qed.
Print Assumptions C14_get_pop_payout_only_window.

(** the executable truncated evaluation (what the correspondence run compares with the real
    calculator on the full tree) equals the model on the full chain *)
Theorem C14_get_pop_payout_window :
  forall p chain, get_pop_payout_win256 p chain = get_pop_payout wrap256 p chain.
Proof. exact (get_pop_payout_window wrap256). Qed.
Print Assumptions C14_get_pop_payout_window.

Theorem C14_difficulty_window :
  forall p prevs, difficulty_win256 p prevs = calc_difficulty wrap256 p prevs.
Proof. exact (difficulty_window wrap256). Qed.
Print Assumptions C14_difficulty_window.

(** monotonicity of the specification: a larger table weight / block reward never lowers a share *)
Theorem C14_share_monotone_weight :
  forall br s w1 w2, 0 <= br -> 0 <= s -> 0 <= w1 <= w2 -> spec_share br s w1 <= spec_share br s w2.
Proof. exact share_mono_weight. Qed.
Print Assumptions C14_share_monotone_weight.

Theorem C14_share_monotone_reward :
  forall br br' s wg, 0 <= br <= br' -> 0 <= s -> 0 <= wg -> spec_share br s wg <= spec_share br' s wg.
Proof. exact share_mono_reward. Qed.
Print Assumptions C14_share_monotone_reward.

(** up to the start of the slope the block reward falls with the difficulty and grows with the score *)
Theorem C14_block_reward_antitone_difficulty :
  forall p h s d d', params_okb p = true -> 0 <= s -> d <= d' -> fx_div s (Z.max ONE d) <= p_start p ->
    spec_block_reward p h s d' <= spec_block_reward p h s d.
Proof. exact block_reward_antitone_difficulty. Qed.
Print Assumptions C14_block_reward_antitone_difficulty.

Theorem C14_block_reward_monotone_score :
  forall p h s s' d, params_okb p = true -> 0 < s <= s' -> fx_div s' (Z.max ONE d) <= p_start p ->
    spec_block_reward p h s d <= spec_block_reward p h s' d.
Proof. exact block_reward_monotone_score. Qed.
Print Assumptions C14_block_reward_monotone_score.

(** beyond the start of the slope the reward curve is NOT monotone in the relative score for every
    admissible parameter set (slope 1.0: the penalty reaches 1 at relative score 2) *)
Theorem C14_curve_monotone_refuted :
  exists p r x x', params_okb p = true /\ 0 <= x <= x' /\ spec_curve p r x' < spec_curve p r x.
Proof. exact curve_monotone_refuted. Qed.
Print Assumptions C14_curve_monotone_refuted.

(** PopRewardsBigDecimal(double) in primitive binary64 floats: a defined conversion yields a uint64_t
    (the in_u64 side conditions of params_okb hold for every converted double) *)
Theorem C14_conv_double_u64 : forall d z, conv_double d = Some z -> in_u64 z = true.
Proof. exact conv_double_u64. Qed.
Print Assumptions C14_conv_double_u64.

(** the converted default parameters are what the float model computes from the source's decimal literals *)
Theorem C14_default_conversion :
  conv_lit gen_startOfSlope_lit_num gen_startOfSlope_lit_den = Some (p_start default_params) /\
  conv_lit gen_slopeNormal_lit_num gen_slopeNormal_lit_den = Some (p_slopeN default_params) /\
  conv_lit gen_slopeKeystone_lit_num gen_slopeKeystone_lit_den = Some (p_slopeK default_params) /\
  conv_lit gen_maxScoreThresholdNormal_lit_num gen_maxScoreThresholdNormal_lit_den = Some (p_thrN default_params) /\
  conv_lit gen_maxScoreThresholdKeystone_lit_num gen_maxScoreThresholdKeystone_lit_den = Some (p_thrK default_params) /\
  conv_lits gen_roundRatios_lit_num gen_roundRatios_lit_den = map Some (p_ratios default_params) /\
  conv_lits gen_lookupTable_lit_num gen_lookupTable_lit_den = map Some (p_table default_params).
Proof. exact default_conversion. Qed.
Print Assumptions C14_default_conversion.

(** the conversion does not return literal * 1e8 for every entry of the default table (0.06766428 -> 6766427) *)
Theorem C14_conversion_exact_refuted :
  exists num den z, In (num, den) (combine gen_lookupTable_lit_num gen_lookupTable_lit_den) /\
    conv_lit num den = Some z /\ z * den < num.
Proof. exact conversion_exact_refuted. Qed.
Print Assumptions C14_conversion_exact_refuted.
