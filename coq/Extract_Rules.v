Require Extraction.
Require Import ExtrOcamlBasic.
From Coq Require Import ZArith NArith List.
From VB Require Import Rules.RulesDefs Rules.C19HonestDefs.
Extraction "Rules_model.ml" Nat.pred N.succ Z.succ
  mkBlk mkWorld mkParams default_params mkAtv mkVtb mkBody honest_atv atv_ctx create_from_previous
  st0 exec_block apply_chain err_code ancestor_at anc_or_eq hdr_ok vtime bhdr_ok btime
  known_after height_of mkVtbSpec honest_btc_context honest_vtb honest_vtbs.
