(** C15 — property theorems only; each closed by [exact] of a lemma proved elsewhere.
    (_refuted theorems concern the kept pre-fix definitions *_v0: documentation of the repaired defects F6 / F7.) *)
From Coq Require Import ZArith List.
From VB Require Import Arith.CompactDefs Pow.PowBase Pow.BtcDefs Pow.BtcSpec Pow.VbkDefs Pow.VbkFloat
     Pow.BestChainDefs Pow.AcceptDefs Pow.MedianProofs Pow.BtcProofs Pow.VbkProofs Pow.BestChainProofs
     Pow.AcceptProofs Pow.WorkProofs Gen.ChainParams.
Import ListNotations.
Local Open Scope Z_scope.

(** coded BTC getNextWorkRequired = Bitcoin's rule over Z, for all chains / parameters within the no-wrap bounds *)
Theorem C15_btc_next_work_spec : forall p h chain btime,
  btc_params_ok p -> chain <> [] -> chain_times_ok chain ->
  0 <= h - zlen chain + 1 -> h + 1 < 2 ^ 31 -> 0 <= btime < 2 ^ 32 ->
  (forall b, In b chain -> 0 <= target_of (x_bits b) <= bp_pow_limit p) ->
  (match chain with prev :: _ => x_time prev + 2 * bp_spacing p < 2 ^ 32 | [] => True end) ->
  btc_next_work p h chain btime =
  match spec_next_bits p h chain btime with Some b => Ok b | None => Abort end.
Proof. exact btc_next_work_spec. Qed.
Print Assumptions C15_btc_next_work_spec.

(** the bounds (incl. no 256-bit overflow: limit * 4 * timespan < 2^256) hold for the mainnet / testnet
    constants regenerated from btc_chain_params.hpp *)
Theorem C15_btc_real_params_within_bounds : btc_params_ok btc_main /\ btc_params_ok btc_test.
Proof. exact (conj btc_main_params_ok btc_test_params_ok). Qed.
Print Assumptions C15_btc_real_params_within_bounds.

(** pre-fix uint32 timespan (F7): not Bitcoin's rule *)
Theorem C15_btc_timespan_v0_refuted : exists p tipTime tipBits firstTime,
  btc_params_ok p /\ bp_no_retarget p = false /\
  0 <= tipTime < 2 ^ 32 /\ 0 <= firstTime < 2 ^ 32 /\
  0 <= target_of tipBits <= bp_pow_limit p /\
  btc_calc_v0 p tipTime tipBits firstTime <>
  Ok (toBits (spec_calc (bp_pow_limit p) (bp_timespan p) tipTime firstTime (target_of tipBits)) false).
Proof. exact btc_timespan_v0_refuted. Qed.
Print Assumptions C15_btc_timespan_v0_refuted.

(** BTC median time past = upper median of the last <= medianTimeSpan timestamps *)
Theorem C15_mtp_spec : forall chain, chain <> [] ->
  let ts := map x_time (firstn (Z.to_nat btc_median_time_span) chain) in
  kth_smallest (zlen ts / 2) ts (btc_mtp chain).
Proof. exact mtp_spec. Qed.
Print Assumptions C15_mtp_spec.

(** VBK calculateMinimumTimestamp = lower median of the last <= 20 timestamps; never asserts on a non-empty chain *)
Theorem C15_vbk_min_timestamp : forall chain, chain <> [] ->
  let ts := map x_time (firstn (Z.to_nat vbk_history_for_timestamp_average) chain) in
  exists m, vbk_min_timestamp chain = Ok m /\ kth_smallest ((zlen ts - 1) / 2) ts m.
Proof. exact vbk_min_timestamp_spec. Qed.
Print Assumptions C15_vbk_min_timestamp.

(** the order statistic is unique: the two median theorems determine the values *)
Theorem C15_median_unique : forall k l m1 m2, kth_smallest k l m1 -> kth_smallest k l m2 -> m1 = m2.
Proof. exact kth_smallest_unique. Qed.
Print Assumptions C15_median_unique.

(** validateKeystones = keystone arithmetic *)
Theorem C15_keystones_spec : forall p h chain ks1 ks2,
  0 < vp_ks p < 2 ^ 29 -> 0 <= h < 2 ^ 31 ->
  vbk_validate_keystones p h chain ks1 ks2 = Ok (spec_keystones (vp_ks p) h chain ks1 ks2).
Proof. exact keystones_spec. Qed.
Print Assumptions C15_keystones_spec.

(** VBK next work (current code): independent of any earlier call *)
Theorem C15_vbk_next_work_history_independent :
  forall coef (earlier : option Z) p h chain,
    vbk_next_work coef p h chain = vbk_next_work_K coef (vbk_K p) p h chain /\
    fst (vbk_next_work_v0 coef None p h chain) = vbk_next_work coef p h chain /\
    (earlier = Some (vbk_K p) -> fst (vbk_next_work_v0 coef earlier p h chain) = vbk_next_work coef p h chain).
Proof. exact vbk_next_work_history_independent. Qed.
Print Assumptions C15_vbk_next_work_history_independent.

(** VBK next work: a retarget never prescribes less than the minimum difficulty *)
Theorem C15_vbk_next_work_bounds : forall coef p h chain r,
  0 <= vp_min_diff p -> vp_min_diff p + 500000 < two256 ->
  vp_no_retarget p = false -> vp_N p <= u32 h ->
  vbk_next_work coef p h chain = Ok r ->
  exists x, r = toBits x false /\ vp_min_diff p <= x.
Proof. exact vbk_next_work_bounds. Qed.
Print Assumptions C15_vbk_next_work_bounds.

(** pre-fix static K (F6): the second parameter set used in a process gets the first one's K *)
Theorem C15_vbk_static_K_v0_refuted : exists p1 h1 c1 p2 h2 c2,
  let s := snd (vbk_next_work_v0_f None p1 h1 c1) in
  fst (vbk_next_work_v0_f s p2 h2 c2) <> vbk_next_work_f p2 h2 c2.
Proof. exact vbk_static_K_v0_refuted. Qed.
Print Assumptions C15_vbk_static_K_v0_refuted.

(** acceptBlockHeader returns true exactly when every rule holds *)
Theorem C15_btc_accept_iff_rules : forall p st hd, snd (btc_accept p st hd) = COk <-> btc_rules p st hd.
Proof. exact btc_accept_iff_rules. Qed.
Print Assumptions C15_btc_accept_iff_rules.

Theorem C15_vbk_accept_iff_rules : forall coef p st hd, snd (vbk_accept coef p st hd) = COk <-> vbk_rules coef p st hd.
Proof. exact vbk_accept_iff_rules. Qed.
Print Assumptions C15_vbk_accept_iff_rules.

(** work of one block: Bitcoin's floor(2^256 / (target + 1)) (BTC), the difficulty itself (VBK) *)
Theorem C15_btc_block_proof_spec : forall bits t,
  fromBits bits = (t, false, false) -> 1 <= t < two256 - 1 -> btc_block_proof bits = two256 / (t + 1).
Proof. exact btc_block_proof_spec. Qed.
Print Assumptions C15_btc_block_proof_spec.

Theorem C15_vbk_block_proof_spec : forall bits t,
  fromBits bits = (t, false, false) -> t <> 0 -> vbk_block_proof bits = t.
Proof. exact vbk_block_proof_spec. Qed.
Print Assumptions C15_vbk_block_proof_spec.

(** the real VBK parameter sets (regenerated constants) have K >= 10: the divisor of the double step is positive *)
Theorem C15_vbk_real_K : vbk_K vbk_main = 148500 /\ vbk_K vbk_test = 148500 /\ 10 <= vbk_K vbk_regtest.
Proof. exact vbk_real_K. Qed.
Print Assumptions C15_vbk_real_K.

(** chain work = sum of the block proofs along the ancestor chain (mod 2^256), after any operation sequence *)
Theorem C15_chainwork_sum_btc : forall p ops gid gtime gbits,
  work_sum_ok btc_block_proof (run (btc_accept p) (genesis_tree btc_block_proof gid gtime gbits) ops).
Proof. exact chainwork_sum_btc. Qed.
Print Assumptions C15_chainwork_sum_btc.

Theorem C15_chainwork_sum_vbk : forall coef p ops gid gtime gbits,
  work_sum_ok vbk_block_proof (run (vbk_accept coef p) (genesis_tree vbk_block_proof gid gtime gbits) ops).
Proof. exact chainwork_sum_vbk. Qed.
Print Assumptions C15_chainwork_sum_vbk.

(** after ANY sequence of header acceptances / fork invalidations the tip is a valid block of maximal
    chain work and every valid block inserted earlier has strictly less work (earliest seen wins ties) *)
Theorem C15_pow_best_chain_btc : forall p ops gid gtime gbits,
  best_tip_ok (run (btc_accept p) (genesis_tree btc_block_proof gid gtime gbits) ops).
Proof. exact pow_best_chain_btc. Qed.
Print Assumptions C15_pow_best_chain_btc.

Theorem C15_pow_best_chain_vbk : forall coef p ops gid gtime gbits,
  best_tip_ok (run (vbk_accept coef p) (genesis_tree vbk_block_proof gid gtime gbits) ops).
Proof. exact pow_best_chain_vbk. Qed.
Print Assumptions C15_pow_best_chain_vbk.
