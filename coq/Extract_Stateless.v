Require Extraction.
Require Import ExtrOcamlBasic.
From Coq Require Import ZArith NArith List.
From VB Require Import Stateless.EmbedDefs Stateless.MerkleDefs Stateless.CheckDefs Stateless.PowDefs.
Extraction "Stateless_model.ml" Nat.pred N.succ Z.succ
  contiguous_search contiguous_search_v0 containsSplit containsSplit_v0 check_embedding verdict_code
  check_merkle_btc check_merkle_vbk btc_merkle_root vbk_merkle_root
  check_btc_blocks check_vbk_block check_vbk_blocks check_vbk_tx check_vbk_pop_tx
  full_check_atv full_check_vtb check_atv check_vtb check_pop_data memo_step
  pow_btc pow_vbk vbk_plausibility vbk_max_difficulty.
