Require Extraction.
Require Import ExtrOcamlBasic.
From Coq Require Import ZArith NArith List.
From VB Require Import Stateless.EmbedDefs Stateless.MerkleDefs.
Extraction "Stateless_model.ml" Nat.pred N.succ Z.succ
  contiguous_search contiguous_search_v0 containsSplit containsSplit_v0 check_embedding verdict_code
  check_merkle_btc check_merkle_vbk btc_merkle_root vbk_merkle_root.
