(** internal::getKeystoneContext (fork_resolution.hpp:84-134) AS CODED: from the
    blocks of proof of a keystone's endorsements (already restricted by
    getProtoKeystoneContext to endorsements of the keystone's window, contained in
    the same chain, block of proof on the best SP chain) to the keystone's
    firstBlockPublicationHeight, including the optional TIME ADJUSTMENT:
    an endorsement whose block of proof is not strictly later (timestamp) than
    the keystone is moved forward to the first later block of the best SP chain
    whose timestamp is greater than the keystone's; if there is none it does
    not count.  Executable definitions only; no proofs in this file.

    [chain]  timestamps of the best SP chain by height (index 0 = height 0)
    [T]      timestamp of the keystone block (pkc.timestampOfEndorsedBlock)
    [hs]     heights of the blocks of proof, in the (arbitrary, pointer) order of
             the std::set the C++ iterates
    The result is [None] for NO_ENDORSEMENT. *)
From Coq Require Import ZArith List Bool Arith.
Import ListNotations.
Local Open Scope Z_scope.

(** first height j >= [j0] of [l] (= timestamps from height j0 on) with T < timestamp *)
Fixpoint first_later (T : Z) (l : list Z) (j0 : nat) : option nat :=
  match l with
  | [] => None
  | t :: r => if T <? t then Some j0 else first_later T r (S j0)
  end.

(** where one endorsement with block of proof at height [h] counts *)
Definition adjust (ta : bool) (chain : list Z) (T : Z) (h : nat) : option nat :=
  if negb ta || (T <? nth h chain 0) then Some h
  else first_later T (skipn (S h) chain) (S h).

(** the loop body: [earliest] is earliestEndorsementIndex ([None] = NO_ENDORSEMENT) *)
Definition ktx_step (ta : bool) (chain : list Z) (T : Z) (earliest : option nat) (h : nat) : option nat :=
  (* if (endorsementIndex >= earliestEndorsementIndex) continue; *)
  if match earliest with Some e => (e <=? h)%nat | None => false end then earliest
  else if negb ta || (T <? nth h chain 0) then Some h         (* earliestEndorsementIndex = endorsementIndex *)
  else
    (* for (adj = h + 1; adj <= best.chainHeight(); adj++) if (T < best[adj]->getTimestamp()) { ...; break; } *)
    match first_later T (skipn (S h) chain) (S h) with
    | Some j =>
        match earliest with
        | Some e => if (j <? e)%nat then Some j else earliest
        | None => Some j
        end
    | None => earliest
    end.

Definition ktx (ta : bool) (chain : list Z) (T : Z) (hs : list nat) : option nat :=
  fold_left (ktx_step ta chain T) hs None.

(** specification: the minimum of the adjusted heights *)
Definition omin (a b : option nat) : option nat :=
  match a, b with
  | None, x => x
  | x, None => x
  | Some x, Some y => Some (Nat.min x y)
  end.

Definition ktx_spec (ta : bool) (chain : list Z) (T : Z) (hs : list nat) : option nat :=
  fold_left omin (map (adjust ta chain T) hs) None.
