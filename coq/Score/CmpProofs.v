(** comparePopScoreImpl as coded ([impl]) refines the protocol scorer ([spec]):
    same sign of the verdict for ALL views with any number of keystones
    (induction over the keystone list), under explicit range hypotheses. *)
From Coq Require Import ZArith Lia Bool List.
From VB Require Import Score.CInt Score.CmpDefs Gen.ScoreParams.
Import ListNotations.
Local Open Scope Z_scope.
Ltac Zify.zify_post_hook ::= Z.div_mod_to_equations.

(** ** Hypotheses *)

Definition tmax (t : list Z) : Z := fold_right Z.max 0 t.

(** the lookup table is non-empty and its (uint32) entries are >= 0 *)
Definition table_ok (c : config) : Prop := table c <> [] /\ Forall (fun t => 0 <= t) (table c).
Definition fd_ok (c : config) : Prop := 0 <= fd c.

(** publication heights: non-negative and far enough below INT32_MAX that the
    NO_ENDORSEMENT sentinel is "infinitely late" for the finality delay and the table *)
Definition slot_ok (c : config) (o : option xheight) : Prop :=
  match o with
  | Some (Fin h) => 0 <= h /\ h + fd c < NO_ENDORSEMENT /\ h + Z.of_nat (length (table c)) <= NO_ENDORSEMENT
  | _ => True
  end.
Definition profile_ok (c : config) (l : list (option xheight)) : Prop := Forall (slot_ok c) l.

(** no [int] score can overflow: number of keystone positions * largest table entry <= INT32_MAX *)
Definition budget_ok (c : config) (n : nat) : Prop := Z.of_nat n * tmax (table c) <= int32_max.

(** ** Basic facts *)

Lemma to_u32_id z : 0 <= z < 4294967296 -> to_u32 z = z.
Proof. intros. unfold to_u32, two32. apply Z.mod_small. lia. Qed.

Lemma to_i32_id z : -2147483648 <= z <= 2147483647 -> to_i32 z = z.
Proof. intros. unfold to_i32, two32. rewrite Z.mod_small by lia. lia. Qed.

Lemma ovf_false z : -2147483648 <= z <= 2147483647 -> ovf z = false.
Proof.
  intros. unfold ovf, in_i32, int32_min, int32_max.
  destruct (Z.leb_spec (-2147483648) z), (Z.leb_spec z 2147483647); try lia; reflexivity.
Qed.

Lemma tmax_nonneg t : 0 <= tmax t.
Proof. unfold tmax. induction t; cbn [fold_right]; lia. Qed.

Lemma nth_bounds t : Forall (fun x => 0 <= x) t -> forall n, 0 <= nth n t 0 <= tmax t.
Proof.
  induction 1 as [|x t Hx Ht IH]; intros n.
  - destruct n; cbn [nth tmax fold_right]; lia.
  - unfold tmax in *. destruct n; cbn [nth fold_right]; fold (tmax t) in *.
    + pose proof (tmax_nonneg t). lia.
    + specialize (IH n). lia.
Qed.

Lemma tbl_bounds c r : table_ok c -> 0 <= tbl c r <= tmax (table c).
Proof.
  intros [_ Hf]. unfold tbl.
  destruct ((r <? 0) || (Z.of_nat (length (table c)) <=? r)).
  - pose proof (tmax_nonneg (table c)). lia.
  - apply nth_bounds. exact Hf.
Qed.

Lemma score_eq_tbl c r : table_ok c -> tmax (table c) <= int32_max -> score c r = tbl c r.
Proof.
  intros Ht Hm. unfold score, tbl.
  destruct ((r <? 0) || (Z.of_nat (length (table c)) <=? r)); [reflexivity|].
  destruct Ht as [_ Hf]. pose proof (nth_bounds _ Hf (Z.to_nat r)).
  unfold int32_max in Hm. apply to_i32_id. lia.
Qed.

Lemma tbl0 c : table_ok c -> exists t0 r, table c = t0 :: r /\ tbl c 0 = t0.
Proof.
  intros [Hne _]. destruct (table c) as [|t0 r] eqn:E; [congruence|].
  exists t0, r. split; [reflexivity|]. unfold tbl. rewrite E. cbn [length].
  destruct (Z.ltb_spec 0 0); [lia|].
  destruct (Z.leb_spec (Z.of_nat (S (length r))) 0); [lia|]. reflexivity.
Qed.

Lemma tbl_out c r : Z.of_nat (length (table c)) <= r -> tbl c r = 0.
Proof.
  intros. unfold tbl. destruct (Z.leb_spec (Z.of_nat (length (table c))) r); [|lia].
  rewrite orb_true_r. reflexivity.
Qed.

(** ** impl's sentinel arithmetic = the specification's extended heights *)

Definition encp (o : option xheight) : Z := match o with None => NO_ENDORSEMENT | Some x => enc_x x end.
Definition or_inf (o : option xheight) : xheight := match o with Some x => x | None => Inf end.

Lemma encp_or_inf o : encp o = enc_x (or_inf o).
Proof. destruct o; reflexivity. Qed.

Lemma late_enc c x y :
  fd_ok c -> slot_ok c (Some x) -> slot_ok c (Some y) ->
  violates c (enc_x x) (enc_x y) = late c x y /\ ovf (enc_x x - enc_x y) = false.
Proof.
  unfold fd_ok, slot_ok, violates, late, NO_ENDORSEMENT. intros Hfd Hx Hy.
  destruct x as [a|], y as [b|]; cbn [enc_x]; unfold NO_ENDORSEMENT.
  - split; [reflexivity | apply ovf_false; lia].
  - split; [apply Z.ltb_ge; lia | apply ovf_false; lia].
  - split; [apply Z.ltb_lt; lia | apply ovf_false; lia].
  - split; [apply Z.ltb_ge; lia | apply ovf_false; lia].
Qed.

Lemma pts_enc c x y :
  table_ok c -> tmax (table c) <= int32_max -> slot_ok c (Some x) -> slot_ok c (Some y) ->
  score c (enc_x x - Z.min (enc_x x) (enc_x y)) = pts c x y /\
  ovf (enc_x x - Z.min (enc_x x) (enc_x y)) = false.
Proof.
  intros Ht Hm Hx Hy. rewrite score_eq_tbl by assumption.
  unfold slot_ok, pts, NO_ENDORSEMENT in *.
  destruct x as [a|], y as [b|]; cbn [enc_x]; unfold NO_ENDORSEMENT.
  - split; [reflexivity | apply ovf_false; lia].
  - split; [f_equal; lia | apply ovf_false; lia].
  - split; [apply tbl_out; lia | apply ovf_false; lia].
  - split; [f_equal; lia | apply ovf_false; lia].
Qed.

Lemma gap_enc c h prev :
  fd_ok c -> slot_ok c h -> slot_ok c prev ->
  gap_hit c (enc h) (encp prev) = gap c h prev /\ gap_ub (enc h) (encp prev) = false.
Proof.
  intros Hfd Hh Hp. destruct h as [x|]; cbn [enc option_map gap_hit gap_ub gap]; [|split; reflexivity].
  rewrite encp_or_inf.
  assert (Hp' : slot_ok c (Some (or_inf prev))) by (destruct prev as [[?|]|]; cbn; auto).
  destruct (late_enc c x (or_inf prev) Hfd Hh Hp') as [E1 E2]. rewrite E1, E2. split; [|reflexivity].
  destruct prev as [y|]; cbn [or_inf]; [reflexivity|]. destruct x; reflexivity.
Qed.

Lemma ctx_enc alive x : ctx_of (negb alive) (enc x) = enc (if alive then x else None).
Proof. destruct alive; reflexivity. Qed.

Lemma pub_enc h : pub_of (enc h) = encp h.
Proof. destruct h; reflexivity. Qed.

Lemma enc_if (b : bool) h : (if b then None else enc h) = enc (if b then None else h).
Proof. destruct b; reflexivity. Qed.

Lemma out_alive a g : negb a || g = negb (a && negb g).
Proof. destruct a, g; reflexivity. Qed.

Lemma if_some {A} (g : bool) (h : option A) x : (if g then None else h) = Some x -> g = false /\ h = Some x.
Proof. destruct g; [discriminate|auto]. Qed.

(** ** The refinement relation between the two loop states *)

Definition R (c : config) (K : Z) (i : ist) (s : sst) : Prop :=
  aOut i = negb (aliveA s) /\ bOut i = negb (aliveB s) /\
  pA i = encp (prevA s) /\ pB i = encp (prevB s) /\
  sA i = scA s /\ sB i = scB s /\ ub i = false /\
  0 <= scA s <= K /\ 0 <= scB s <= K /\
  slot_ok c (prevA s) /\ slot_ok c (prevB s).

(** what a [break] of the implementation guarantees about the specification's state *)
Definition Rbreak (K : Z) (i : ist) (s : sst) : Prop :=
  sA i = scA s /\ sB i = scB s /\ ub i = false /\ 0 <= scA s <= K /\ 0 <= scB s <= K /\
  ((aliveA s = false /\ aliveB s = false) \/
   (aliveA s = false /\ scA s < scB s) \/
   (aliveB s = false /\ scB s < scA s)).

Lemma add_t0 s t0 : 0 <= s -> 0 <= t0 -> s + t0 <= 2147483647 ->
  to_i32 (u32_add (to_u32 s) t0) = s + t0.
Proof.
  intros. rewrite (to_u32_id s) by lia. unfold u32_add. rewrite to_u32_id by lia. apply to_i32_id. lia.
Qed.

Lemma step_refines c K i s xa xb :
  table_ok c -> fd_ok c -> R c K i s -> slot_ok c xa -> slot_ok c xb ->
  K + tmax (table c) <= int32_max ->
  match step c i (enc xa) (enc xb) with
  | Cont i' => R c (K + tmax (table c)) i' (spec_step c s xa xb)
  | Break i' => Rbreak (K + tmax (table c)) i' (spec_step c s xa xb)
  end.
Proof.
  intros Ht Hfd HR Hxa Hxb HK.
  destruct i as [ao bo sa sb pa pb u], s as [alA alB prA prB cA cB].
  unfold R in HR. cbn [aOut bOut sA sB pA pB ub aliveA aliveB prevA prevB scA scB] in HR.
  destruct HR as (-> & -> & -> & -> & -> & -> & -> & HbA & HbB & HpA & HpB).
  assert (HM : tmax (table c) <= int32_max) by (pose proof (tmax_nonneg (table c)); lia).
  pose proof (tbl_bounds c 0 Ht) as Ht0.
  unfold step, spec_step.
  cbn [aOut bOut sA sB pA pB ub aliveA aliveB prevA prevB scA scB]. cbv zeta.
  rewrite !ctx_enc, !pub_enc.
  set (ha := if alA then xa else None). set (hb := if alB then xb else None).
  assert (Hha : slot_ok c ha) by (subst ha; destruct alA; [assumption|exact I]).
  assert (Hhb : slot_ok c hb) by (subst hb; destruct alB; [assumption|exact I]).
  destruct (gap_enc c ha prA Hfd Hha HpA) as [GA1 GA2].
  destruct (gap_enc c hb prB Hfd Hhb HpB) as [GB1 GB2].
  rewrite GA1, GA2, GB1, GB2. cbn [orb]. rewrite !enc_if, !out_alive.
  set (gA := gap c ha prA). set (gB := gap c hb prB).
  destruct (if gA then None else ha) as [x|] eqn:Ea; destruct (if gB then None else hb) as [y|] eqn:Eb;
    cbn [enc option_map].
  - (* both chains have the keystone *)
    apply if_some in Ea. apply if_some in Eb. destruct Ea as [EgA Eha], Eb as [EgB Ehb].
    rewrite Eha, Ehb in *. cbn [encp].
    destruct (late_enc c x y Hfd Hha Hhb) as [L1 L2]. destruct (late_enc c y x Hfd Hhb Hha) as [L3 L4].
    destruct (pts_enc c x y Ht HM Hha Hhb) as [P1 P2]. destruct (pts_enc c y x Ht HM Hhb Hha) as [P3 P4].
    rewrite (Z.min_comm (enc_x y) (enc_x x)) in P3, P4.
    rewrite L1, L2, L3, L4, P1, P2, P3, P4.
    assert (B1 : 0 <= pts c x y <= tmax (table c)).
    { unfold pts. destruct x, y; try apply tbl_bounds; try assumption. pose proof (tmax_nonneg (table c)). lia. }
    assert (B2 : 0 <= pts c y x <= tmax (table c)).
    { unfold pts. destruct x, y; try apply tbl_bounds; try assumption. pose proof (tmax_nonneg (table c)). lia. }
    unfold int32_max in *.
    rewrite (ovf_false (cA + pts c x y)), (ovf_false (cB + pts c y x)) by lia. cbn [orb].
    unfold R. cbn [aOut bOut sA sB pA pB ub aliveA aliveB prevA prevB scA scB encp].
    rewrite EgA, EgB. cbn [negb]. rewrite !andb_true_r.
    repeat split; try assumption; try lia;
      try (destruct alA, (late c x y); reflexivity); try (destruct alB, (late c y x); reflexivity).
  - (* only A has it *)
    destruct (tbl0 c Ht) as (t0 & r & Etab & Et0). rewrite Et0 in *.
    set (M := tmax (table c)) in *. clearbody M. rewrite Etab.
    unfold int32_max in *.
    rewrite add_t0 by lia.
    destruct (Z.ltb_spec cB (cA + t0)).
    + unfold Rbreak. cbn [aOut bOut sA sB pA pB ub aliveA aliveB prevA prevB scA scB].
      repeat split; try lia; try (right; right; split; [reflexivity|lia]).
    + unfold R. cbn [aOut bOut sA sB pA pB ub aliveA aliveB prevA prevB scA scB].
      repeat split; try assumption; try lia.
  - (* only B has it *)
    destruct (tbl0 c Ht) as (t0 & r & Etab & Et0). rewrite Et0 in *.
    set (M := tmax (table c)) in *. clearbody M. rewrite Etab.
    unfold int32_max in *.
    rewrite add_t0 by lia.
    destruct (Z.ltb_spec cA (cB + t0)).
    + unfold Rbreak. cbn [aOut bOut sA sB pA pB ub aliveA aliveB prevA prevB scA scB].
      repeat split; try lia; try (right; left; split; [reflexivity|lia]).
    + unfold R. cbn [aOut bOut sA sB pA pB ub aliveA aliveB prevA prevB scA scB].
      repeat split; try assumption; try lia.
  - (* neither has it *)
    destruct (negb (alA && negb gA) && negb (alB && negb gB)) eqn:Eout.
    + unfold Rbreak. cbn [aOut bOut sA sB pA pB ub aliveA aliveB prevA prevB scA scB].
      apply andb_true_iff in Eout. destruct Eout as [E1 E2].
      apply negb_true_iff in E1. apply negb_true_iff in E2.
      pose proof (tmax_nonneg (table c)).
      repeat split; try lia; try (left; split; assumption).
    + unfold R. cbn [aOut bOut sA sB pA pB ub aliveA aliveB prevA prevB scA scB].
      pose proof (tmax_nonneg (table c)).
      repeat split; try assumption; try lia.
Qed.

(** ** Once out of finality, always out: the specification's scores freeze *)

Lemma spec_step_deadA c s xa xb :
  table_ok c -> aliveA s = false ->
  aliveA (spec_step c s xa xb) = false /\ scA (spec_step c s xa xb) = scA s /\
  scB s <= scB (spec_step c s xa xb).
Proof.
  intros Ht Hd. destruct s as [alA alB prA prB cA cB]. cbn in Hd. subst alA.
  pose proof (tbl_bounds c 0 Ht).
  unfold spec_step. cbn [aliveA aliveB prevA prevB scA scB gap]. cbv zeta.
  destruct (if gap c (if alB then xb else None) prB then None else if alB then xb else None);
    cbn [aliveA scA scB]; repeat split; lia.
Qed.

Lemma spec_step_deadB c s xa xb :
  table_ok c -> aliveB s = false ->
  aliveB (spec_step c s xa xb) = false /\ scB (spec_step c s xa xb) = scB s /\
  scA s <= scA (spec_step c s xa xb).
Proof.
  intros Ht Hd. destruct s as [alA alB prA prB cA cB]. cbn in Hd. subst alB.
  pose proof (tbl_bounds c 0 Ht).
  unfold spec_step. cbn [aliveA aliveB prevA prevB scA scB gap]. cbv zeta.
  destruct (if gap c (if alA then xa else None) prA then None else if alA then xa else None);
    cbn [aliveB scA scB gap]; repeat split; lia.
Qed.

Lemma spec_run_deadA c l : table_ok c -> forall s, aliveA s = false ->
  scA (spec_run c l s) = scA s /\ scB s <= scB (spec_run c l s).
Proof.
  intros Ht. induction l as [|[xa xb] r IH]; intros s Hd; cbn [spec_run fold_left fst snd]; [lia|].
  destruct (spec_step_deadA c s xa xb Ht Hd) as (D1 & D2 & D3).
  destruct (IH _ D1) as [I1 I2]. unfold spec_run in *. lia.
Qed.

Lemma spec_run_deadB c l : table_ok c -> forall s, aliveB s = false ->
  scB (spec_run c l s) = scB s /\ scA s <= scA (spec_run c l s).
Proof.
  intros Ht. induction l as [|[xa xb] r IH]; intros s Hd; cbn [spec_run fold_left fst snd]; [lia|].
  destruct (spec_step_deadB c s xa xb Ht Hd) as (D1 & D2 & D3).
  destruct (IH _ D1) as [I1 I2]. unfold spec_run in *. lia.
Qed.

(** ** The loops, by induction over the keystone positions *)

Definition enc_pair (p : option xheight * option xheight) : option Z * option Z := (enc (fst p), enc (snd p)).

Lemma loop_refines c : table_ok c -> fd_ok c ->
  forall l i s K,
    R c K i s ->
    Forall (fun p => slot_ok c (fst p) /\ slot_ok c (snd p)) l ->
    K + Z.of_nat (length l) * tmax (table c) <= int32_max ->
    let i' := loop c (map enc_pair l) i in
    let s' := spec_run c l s in
    ub i' = false /\ 0 <= sA i' <= int32_max /\ 0 <= sB i' <= int32_max /\
    Z.sgn (sA i' - sB i') = Z.sgn (scA s' - scB s').
Proof.
  intros Ht Hfd. pose proof (tmax_nonneg (table c)) as HM0.
  induction l as [|[xa xb] r IH]; intros i s K HR Hl HK; cbn zeta.
  - cbn [map loop spec_run fold_left length] in *.
    destruct HR as (_ & _ & _ & _ & E1 & E2 & E3 & B1 & B2 & _). rewrite E1, E2. repeat split; try lia. exact E3.
  - inversion Hl as [|p r' [Hxa Hxb] Hr]; subst. cbn [fst snd] in Hxa, Hxb.
    cbn [length] in HK. rewrite Nat2Z.inj_succ in HK.
    assert (HK1 : K + tmax (table c) <= int32_max) by nia.
    pose proof (step_refines c K i s xa xb Ht Hfd HR Hxa Hxb HK1) as Hs.
    cbn [map loop enc_pair fst snd spec_run fold_left].
    destruct (step c i (enc xa) (enc xb)) as [i1|i1].
    + apply (IH i1 (spec_step c s xa xb) (K + tmax (table c))); [exact Hs | exact Hr | nia].
    + fold (spec_run c r (spec_step c s xa xb)).
      set (s1 := spec_step c s xa xb) in *.
      destruct Hs as (E1 & E2 & E3 & B1 & B2 & Hcase).
      rewrite E1, E2. split; [exact E3|]. split; [lia|]. split; [lia|].
      destruct Hcase as [[DA DB] | [[DA Hlt] | [DB Hlt]]].
      * destruct (spec_run_deadA c r Ht s1 DA) as [A1 _].
        destruct (spec_run_deadB c r Ht s1 DB) as [B1' _]. rewrite A1, B1'. reflexivity.
      * destruct (spec_run_deadA c r Ht s1 DA) as [A1 A2]. rewrite A1.
        rewrite !Z.sgn_neg by lia. reflexivity.
      * destruct (spec_run_deadB c r Ht s1 DB) as [B1' B2']. rewrite B1'.
        rewrite !Z.sgn_pos by lia. reflexivity.
Qed.

(** ** zip_pad commutes with the encoding *)

Lemma zip_pad_map {A B} (f : option A -> option B) (la lb : list (option A)) :
  f None = None ->
  zip_pad (map f la) (map f lb) = map (fun p => (f (fst p), f (snd p))) (zip_pad la lb).
Proof.
  intros Hf. revert lb. induction la as [|xa ra IH]; intros lb; cbn [zip_pad map].
  - rewrite !map_map. cbn [fst snd]. apply map_ext. intros. rewrite Hf. reflexivity.
  - destruct lb as [|xb rb]; cbn [map fst snd].
    + rewrite Hf. f_equal. rewrite !map_map. cbn [fst snd]. apply map_ext. intros. rewrite Hf. reflexivity.
    + f_equal. apply IH.
Qed.

Lemma zip_pad_length {A} (la lb : list (option A)) :
  length (zip_pad la lb) = Nat.max (length la) (length lb).
Proof.
  revert lb. induction la as [|xa ra IH]; intros lb; cbn [zip_pad length].
  - rewrite map_length. reflexivity.
  - destruct lb as [|xb rb]; cbn [length].
    + rewrite map_length. reflexivity.
    + rewrite IH. reflexivity.
Qed.

Lemma zip_pad_forall {A} (P : option A -> Prop) (la lb : list (option A)) :
  P None -> Forall P la -> Forall P lb ->
  Forall (fun p => P (fst p) /\ P (snd p)) (zip_pad la lb).
Proof.
  intros HN Ha. revert lb. induction Ha as [|xa ra Hxa Hra IH]; intros lb Hb; cbn [zip_pad].
  - apply Forall_map. eapply Forall_impl; [|exact Hb]. cbn. auto.
  - destruct Hb as [|xb rb Hxb Hrb].
    + constructor; [cbn; auto|]. apply Forall_map. eapply Forall_impl; [|exact Hra]. cbn. auto.
    + constructor; [cbn; auto|]. apply IH. exact Hrb.
Qed.

Lemma R_init c : R c 0 ist0 sst0.
Proof. unfold R, ist0, sst0. cbn. repeat split; lia. Qed.

(** ** Main theorem: same sign, and no undefined behaviour *)

Theorem impl_sign_eq_spec_gen c la lb :
  table_ok c -> fd_ok c -> profile_ok c la -> profile_ok c lb ->
  budget_ok c (Nat.max (length la) (length lb)) ->
  exists r, impl c (enc_view la) (enc_view lb) = Ok r /\ Z.sgn r = Z.sgn (spec c la lb).
Proof.
  intros Ht Hfd Ha Hb Hbud. unfold impl, spec, enc_view.
  destruct la as [|xa ra]; destruct lb as [|xb rb]; cbn [map].
  - exists 0. split; reflexivity.
  - exists (-1). split; reflexivity.
  - exists 1. split; reflexivity.
  - change (enc xa :: map enc ra) with (map enc (xa :: ra)).
    change (enc xb :: map enc rb) with (map enc (xb :: rb)).
    rewrite (zip_pad_map enc (xa :: ra) (xb :: rb) eq_refl).
    change (fun p : option xheight * option xheight => (enc (fst p), enc (snd p))) with enc_pair.
    pose proof (loop_refines c Ht Hfd (zip_pad (xa :: ra) (xb :: rb)) ist0 sst0 0 (R_init c)
                  (zip_pad_forall (slot_ok c) _ _ I Ha Hb)) as H.
    rewrite zip_pad_length in H. unfold budget_ok in Hbud.
    specialize (H ltac:(lia)). cbv zeta in H. destruct H as (U & BA & BB & Hs).
    set (st := loop c (map enc_pair (zip_pad (xa :: ra) (xb :: rb))) ist0) in *.
    rewrite U. unfold int32_max in *. rewrite ovf_false by lia. cbn [orb].
    eexists. split; [reflexivity|]. exact Hs.
Qed.

(** *** the two kinds of view *)

Definition heights_ok (c : config) (l : list (option Z)) : Prop :=
  Forall (fun o => match o with
                   | Some h => 0 <= h /\ h + fd c < NO_ENDORSEMENT /\ h + Z.of_nat (length (table c)) <= NO_ENDORSEMENT
                   | None => True end) l.

Lemma enc_pub_profile l : enc_view (pub_profile l) = holes_view l.
Proof.
  unfold enc_view, pub_profile, holes_view. rewrite map_map.
  rewrite <- (map_id l) at 2. apply map_ext. intros [h|]; reflexivity.
Qed.

Lemma enc_inf_profile l : enc_view (inf_profile l) = real_view l.
Proof.
  unfold enc_view, inf_profile, real_view. rewrite map_map. apply map_ext. intros [h|]; reflexivity.
Qed.

Lemma pub_profile_ok c l : heights_ok c l -> profile_ok c (pub_profile l).
Proof.
  unfold heights_ok, profile_ok, pub_profile. intros H. apply Forall_map.
  eapply Forall_impl; [|exact H]. intros [h|]; cbn; auto.
Qed.

Lemma inf_profile_ok c l : heights_ok c l -> profile_ok c (inf_profile l).
Proof.
  unfold heights_ok, profile_ok, inf_profile. intros H. apply Forall_map.
  eapply Forall_impl; [|exact H]. intros [h|]; cbn; auto.
Qed.

(** views with holes (getKeystone = nullptr where nothing was published): "missing keystone" reading *)
Theorem impl_sign_eq_spec c la lb :
  table_ok c -> fd_ok c -> heights_ok c la -> heights_ok c lb ->
  budget_ok c (Nat.max (length la) (length lb)) ->
  exists r, impl c (holes_view la) (holes_view lb) = Ok r /\
            Z.sgn r = Z.sgn (spec c (pub_profile la) (pub_profile lb)).
Proof.
  intros Ht Hfd Ha Hb Hbud. rewrite <- !enc_pub_profile.
  apply impl_sign_eq_spec_gen; try assumption; try (apply pub_profile_ok; assumption).
  unfold pub_profile. rewrite !map_length. exact Hbud.
Qed.

(** the real ReducedPublicationView (context with NO_ENDORSEMENT): "infinitely late" reading *)
Theorem impl_real_sign_eq_spec c la lb :
  table_ok c -> fd_ok c -> heights_ok c la -> heights_ok c lb ->
  budget_ok c (Nat.max (length la) (length lb)) ->
  exists r, impl c (real_view la) (real_view lb) = Ok r /\
            Z.sgn r = Z.sgn (spec c (inf_profile la) (inf_profile lb)).
Proof.
  intros Ht Hfd Ha Hb Hbud. rewrite <- !enc_inf_profile.
  apply impl_sign_eq_spec_gen; try assumption; try (apply inf_profile_ok; assumption).
  unfold inf_profile. rewrite !map_length. exact Hbud.
Qed.

(** ** The generated default parameters satisfy the hypotheses (re-checked when /repo changes) *)

Definition alt_cfg : config := {| fd := alt_finality_delay; table := alt_fr_table |}.
Definition vbk_cfg : config := {| fd := vbk_finality_delay; table := vbk_fr_table |}.

Definition table_okb (c : config) : bool :=
  match table c with [] => false | _ => forallb (fun t => 0 <=? t) (table c) end.

Lemma table_okb_sound c : table_okb c = true -> table_ok c.
Proof.
  unfold table_okb, table_ok. destruct (table c) as [|t r] eqn:E; [discriminate|].
  intros H. split; [discriminate|]. apply Forall_forall. intros x Hx.
  rewrite forallb_forall in H. apply Z.leb_le. apply H. exact Hx.
Qed.

Lemma default_params_ok :
  table_ok alt_cfg /\ fd_ok alt_cfg /\ table_ok vbk_cfg /\ fd_ok vbk_cfg /\
  (* up to a million keystones on either chain cannot overflow the int scores *)
  budget_ok alt_cfg 1000000 /\ budget_ok vbk_cfg 1000000.
Proof.
  repeat split; try (apply table_okb_sound; vm_compute; reflexivity);
    try (unfold fd_ok; vm_compute; discriminate);
    try (unfold budget_ok; vm_compute; discriminate).
Qed.

(** the hypotheses are satisfiable by a non-trivial value *)
Example hypotheses_inhabited :
  let la := [Some 98; Some 100; None; Some 110] in
  let lb := [Some 98; Some 100; None; None; Some 101] in
  heights_ok vbk_cfg la /\ heights_ok vbk_cfg lb /\ budget_ok vbk_cfg 5 /\
  impl vbk_cfg (holes_view la) (holes_view lb) = Ok 100.
Proof.
  cbv zeta. unfold heights_ok, budget_ok.
  repeat split; try (repeat constructor; vm_compute; try discriminate; try reflexivity; fail).
Qed.

(** ** REFUTED: on the real view the verdict is NOT the "missing keystone" reading.
    The repo's unit tests (test/pop/blockchain/pop/pop_fork_resolution_test.cpp, "Chain A and
    Chain B both have a gap, but Chain B's gap is larger ... chain A should be better") pin the
    [pub_profile] reading on a mock view with holes; the production ReducedPublicationView never
    returns nullptr for a keystone in range, it returns NO_ENDORSEMENT, and the same profiles tie. *)
Theorem real_view_pub_reading_refuted :
  exists c la lb r,
    table_ok c /\ fd_ok c /\ heights_ok c la /\ heights_ok c lb /\
    budget_ok c (Nat.max (length la) (length lb)) /\
    impl c (real_view la) (real_view lb) = Ok r /\
    Z.sgn r <> Z.sgn (spec c (pub_profile la) (pub_profile lb)).
Proof.
  exists vbk_cfg, [Some 98; Some 100; None; Some 110; Some 111; Some 112],
         [Some 98; Some 100; None; None; Some 101; Some 102], 0.
  destruct default_params_ok as (_ & _ & Ht & Hf & _).
  split; [exact Ht|]. split; [exact Hf|].
  split; [unfold heights_ok; repeat constructor; vm_compute; discriminate|].
  split; [unfold heights_ok; repeat constructor; vm_compute; discriminate|].
  split; [unfold budget_ok; vm_compute; discriminate|].
  split; [vm_compute; reflexivity|]. vm_compute. discriminate.
Qed.
