(** The functions generated from src/pop/keystone_util.cpp (Gen/KeystoneGen.v,
    C++ int32/uint32 semantics with explicit Abort/Ub outcomes) compute the
    mathematical keystone arithmetic of KeystoneDefs.v — for ALL arguments in
    the stated ranges, and with outcome [Ok], i.e. on these ranges no assert
    fires, no signed overflow and no division by zero occurs.

    Ranges: heights 0 <= h <= 2^31-1 (int32_t, the asserts demand h >= 0),
    keystone interval 0 < ki < 2^32 (uint32_t, the constructors assert ki > 0),
    plus, where the C++ adds the interval to a height, the sum must still be an
    int32_t (stated per lemma).  Outside: negative heights abort (lemmas
    [*_neg]), ki = 0 is undefined behaviour (lemmas [*_ki0]). *)
From Coq Require Import ZArith Lia Bool.
From VB Require Import Score.CInt Gen.KeystoneGen Score.KeystoneDefs.
Local Open Scope Z_scope.
Ltac Zify.zify_post_hook ::= Z.div_mod_to_equations.

Definition height_ok (h : Z) : Prop := 0 <= h <= 2147483647.
Definition ki_ok (ki : Z) : Prop := 0 < ki < 4294967296.

Lemma to_u32_id z : 0 <= z < 4294967296 -> to_u32 z = z.
Proof. intros. unfold to_u32, two32. apply Z.mod_small. lia. Qed.

Lemma to_i32_id z : -2147483648 <= z <= 2147483647 -> to_i32 z = z.
Proof. intros. unfold to_i32, two32. rewrite Z.mod_small by lia. lia. Qed.

Lemma to_i32_to_u32 z : -2147483648 <= z <= 2147483647 -> to_i32 (to_u32 z) = z.
Proof. intros. unfold to_i32, to_u32, two32. lia. Qed.

Lemma i32_chk_ok z : -2147483648 <= z <= 2147483647 -> i32_chk z = Ok z.
Proof.
  unfold i32_chk, in_i32, int32_min, int32_max. intros.
  destruct (Z.leb_spec (-2147483648) z), (Z.leb_spec z 2147483647); try lia; reflexivity.
Qed.

Lemma i32_add_ok a b : -2147483648 <= a + b <= 2147483647 -> i32_add a b = Ok (a + b).
Proof. apply i32_chk_ok. Qed.
Lemma i32_sub_ok a b : -2147483648 <= a - b <= 2147483647 -> i32_sub a b = Ok (a - b).
Proof. apply i32_chk_ok. Qed.

Lemma u32_rem_ok a b : 0 <= a -> 0 < b -> u32_rem a b = Ok (a mod b).
Proof.
  intros. unfold u32_rem. destruct (Z.eqb_spec b 0); [lia|].
  rewrite Z.rem_mod_nonneg by lia. reflexivity.
Qed.

Lemma u32_div_ok a b : 0 <= a -> 0 < b -> u32_div a b = Ok (a / b).
Proof.
  intros. unfold u32_div. destruct (Z.eqb_spec b 0); [lia|].
  rewrite Z.quot_div_nonneg by lia. reflexivity.
Qed.

Lemma u32_add_ok a b : 0 <= a + b < 4294967296 -> u32_add a b = a + b.
Proof. apply to_u32_id. Qed.
Lemma u32_mul_ok a b : 0 <= a * b < 4294967296 -> u32_mul a b = a * b.
Proof. apply to_u32_id. Qed.

Lemma geb0 h : 0 <= h -> Z.geb h 0 = true.
Proof. intros. rewrite Z.geb_leb. apply Z.leb_le. lia. Qed.
Lemma geb0_neg h : h < 0 -> Z.geb h 0 = false.
Proof. intros. rewrite Z.geb_leb. apply Z.leb_gt. lia. Qed.

Lemma mod_le_self h ki : 0 <= h -> 0 < ki -> 0 <= h mod ki <= h.
Proof.
  intros. split; [apply Z.mod_pos_bound; lia | apply Z.mod_le; lia].
Qed.
Lemma div_le_self h ki : 0 <= h -> 0 < ki -> 0 <= h / ki <= h.
Proof.
  intros. split; [apply Z.div_pos; lia|].
  apply Z.div_le_upper_bound; [lia|nia].
Qed.

(** ** highestKeystoneAtOrBefore, blockHeightToKeystoneNumber, isKeystone *)

Lemma gen_highestKeystoneAtOrBefore h ki :
  height_ok h -> ki_ok ki ->
  highestKeystoneAtOrBefore h ki = Ok (m_highestKeystoneAtOrBefore h ki).
Proof.
  unfold height_ok, ki_ok, highestKeystoneAtOrBefore, m_highestKeystoneAtOrBefore. intros Hh Hk.
  pose proof (mod_le_self h ki ltac:(lia) ltac:(lia)).
  rewrite geb0, to_u32_id, u32_rem_ok by lia. cbn [bind].
  rewrite to_i32_id, i32_sub_ok by lia. f_equal. lia.
Qed.

Lemma gen_highestKeystoneAtOrBefore_neg h ki : h < 0 -> highestKeystoneAtOrBefore h ki = Abort.
Proof. intros. unfold highestKeystoneAtOrBefore. rewrite geb0_neg by lia. reflexivity. Qed.

Lemma gen_highestKeystoneAtOrBefore_ki0 h : 0 <= h -> highestKeystoneAtOrBefore h 0 = Ub.
Proof. intros. unfold highestKeystoneAtOrBefore. rewrite geb0 by lia. reflexivity. Qed.

Lemma gen_blockHeightToKeystoneNumber h ki :
  height_ok h -> ki_ok ki ->
  blockHeightToKeystoneNumber h ki = Ok (m_keystoneNumber h ki).
Proof.
  unfold height_ok, ki_ok, blockHeightToKeystoneNumber, m_keystoneNumber. intros Hh Hk.
  pose proof (div_le_self h ki ltac:(lia) ltac:(lia)).
  rewrite to_u32_id, u32_div_ok by lia. cbn [bind]. rewrite to_i32_id by lia. reflexivity.
Qed.

Lemma gen_isKeystone h ki :
  height_ok h -> ki_ok ki -> isKeystone h ki = Ok (m_isKeystone h ki).
Proof.
  unfold height_ok, ki_ok, isKeystone, m_isKeystone. intros Hh Hk.
  rewrite geb0, to_u32_id, u32_rem_ok by lia. cbn [bind]. reflexivity.
Qed.

Lemma gen_isKeystone_neg h ki : h < 0 -> isKeystone h ki = Abort.
Proof. intros. unfold isKeystone. rewrite geb0_neg by lia. reflexivity. Qed.

(** ** firstKeystoneAfter: needs h + ki representable *)

Lemma gen_firstKeystoneAfter h ki :
  height_ok h -> ki_ok ki -> h + ki <= 2147483647 ->
  firstKeystoneAfter h ki = Ok (m_firstKeystoneAfter h ki).
Proof.
  intros Hh Hk Hs. unfold firstKeystoneAfter. rewrite gen_isKeystone by assumption.
  unfold height_ok, ki_ok, m_isKeystone, m_firstKeystoneAfter in *.
  pose proof (mod_le_self h ki ltac:(lia) ltac:(lia)).
  rewrite geb0 by lia. cbn [bind].
  destruct (Z.eqb_spec (h mod ki) 0) as [E|E].
  - rewrite to_u32_id, u32_add_ok, to_i32_id by lia. f_equal. lia.
  - rewrite to_u32_id, u32_rem_ok by lia. cbn [bind].
    rewrite (to_i32_id (h mod ki)) by lia.
    rewrite (to_u32_id (h mod ki)) by lia.
    unfold u32_sub. rewrite (to_u32_id (ki - h mod ki)) by lia.
    rewrite u32_add_ok, to_i32_id by lia. f_equal. lia.
Qed.

Lemma gen_firstKeystoneAfter_neg h ki : h < 0 -> firstKeystoneAfter h ki = Abort.
Proof. intros. unfold firstKeystoneAfter. rewrite geb0_neg by lia. reflexivity. Qed.

(** ** highestBlockWhichConnectsKeystoneToPrevious: k must be a keystone, k + ki + 1 representable *)

Lemma gen_highestConnecting k ki :
  height_ok k -> ki_ok ki -> k + ki + 1 <= 2147483647 -> m_isKeystone k ki = true ->
  highestBlockWhichConnectsKeystoneToPrevious k ki = Ok (m_highestConnecting k ki).
Proof.
  intros Hh Hk Hs Hks. unfold highestBlockWhichConnectsKeystoneToPrevious.
  rewrite gen_isKeystone, Hks by assumption. cbn [bind].
  unfold height_ok, ki_ok, m_highestConnecting in *.
  rewrite (to_u32_id k), (to_u32_id 1) by lia.
  rewrite (u32_add_ok k ki) by lia. rewrite u32_add_ok by lia. rewrite to_i32_id by lia. reflexivity.
Qed.

Lemma gen_highestConnecting_nonkeystone k ki :
  height_ok k -> ki_ok ki -> m_isKeystone k ki = false ->
  highestBlockWhichConnectsKeystoneToPrevious k ki = Abort.
Proof.
  intros Hh Hk Hks. unfold highestBlockWhichConnectsKeystoneToPrevious.
  rewrite gen_isKeystone, Hks by assumption. reflexivity.
Qed.

(** ** isCrossedKeystoneBoundary, areOnSameKeystoneInterval *)

Lemma gen_isCrossedKeystoneBoundary b t ki :
  height_ok b -> height_ok t -> ki_ok ki ->
  isCrossedKeystoneBoundary b t ki = Ok (m_crossed b t ki).
Proof.
  unfold height_ok, ki_ok, isCrossedKeystoneBoundary, m_crossed. intros Hb Ht Hk.
  pose proof (div_le_self b ki ltac:(lia) ltac:(lia)).
  pose proof (div_le_self t ki ltac:(lia) ltac:(lia)).
  rewrite !geb0, !to_u32_id, !u32_div_ok by lia. cbn [bind].
  rewrite !to_i32_id by lia. reflexivity.
Qed.

Lemma gen_isCrossedKeystoneBoundary_neg b t ki :
  b < 0 \/ t < 0 -> isCrossedKeystoneBoundary b t ki = Abort.
Proof.
  intros [H|H]; unfold isCrossedKeystoneBoundary.
  - rewrite geb0_neg by lia. reflexivity.
  - destruct (Z.geb b 0); [|reflexivity]. rewrite geb0_neg by lia. reflexivity.
Qed.

Lemma gen_areOnSameKeystoneInterval a b ki :
  height_ok a -> height_ok b -> ki_ok ki ->
  areOnSameKeystoneInterval a b ki = Ok (m_sameInterval a b ki).
Proof.
  unfold height_ok, ki_ok, areOnSameKeystoneInterval, m_sameInterval. intros Ha Hb Hk.
  rewrite !to_u32_id, !u32_div_ok by lia. reflexivity.
Qed.

(** ** getPreviousKeystoneHeight: additionally (n+1)*ki must be an int32_t *)

Lemma floor_pred_keystone h ki :
  2 <= h -> 0 < ki ->
  ki * ((if (h - 1) mod ki =? 0 then h - 2 else h - 1) / ki) = ki * ((h - 2) / ki).
Proof.
  intros Hh Hk. destruct (Z.eqb_spec ((h - 1) mod ki) 0) as [E|E]; [reflexivity|].
  f_equal.
  assert (Hq : (h - 1) / ki = (h - 2) / ki); [|exact Hq].
  pose proof (Z.div_mod (h - 1) ki ltac:(lia)) as D1.
  pose proof (Z.mod_pos_bound (h - 1) ki ltac:(lia)) as B1.
  apply (Z.div_unique (h - 2) ki ((h - 1) / ki) ((h - 1) mod ki - 1)); lia.
Qed.

Lemma gen_getPreviousKeystoneHeight h ki n :
  height_ok h -> ki_ok ki -> 0 <= n -> (n + 1) * ki <= 2147483647 ->
  getPreviousKeystoneHeight h ki n = Ok (m_previousKeystone h ki n).
Proof.
  unfold height_ok, ki_ok. intros Hh Hk Hn Hnk.
  assert (Hnk0 : 0 <= n * ki) by nia.
  unfold getPreviousKeystoneHeight, m_previousKeystone.
  rewrite (to_u32_id h), (to_u32_id 1), (u32_mul_ok n ki), u32_add_ok by lia.
  destruct (Z.leb_spec h (1 + n * ki)) as [Hle|Hgt]; [reflexivity|].
  assert (Hh2 : 2 <= h) by lia.
  rewrite (i32_sub_ok h 1) by lia. cbn [bind].
  rewrite gen_isKeystone by (unfold height_ok, ki_ok; lia). cbn [bind]. unfold m_isKeystone.
  set (x := if (h - 1) mod ki =? 0 then h - 2 else h - 1).
  assert (Hx : 0 <= x <= h - 1) by (subst x; destruct ((h - 1) mod ki =? 0); lia).
  assert (Hbr : (if (h - 1) mod ki =? 0 then i32_sub h 2 else Ok (h - 1)) = Ok x).
  { subst x. destruct ((h - 1) mod ki =? 0); [apply i32_sub_ok; lia | reflexivity]. }
  rewrite Hbr. cbn [bind].
  rewrite gen_highestKeystoneAtOrBefore by (unfold height_ok, ki_ok; lia). cbn [bind].
  unfold m_highestKeystoneAtOrBefore.
  assert (Hfl : ki * (x / ki) = ki * ((h - 2) / ki)) by (subst x; apply floor_pred_keystone; lia).
  rewrite Hfl.
  set (t := ki * ((h - 2) / ki)).
  assert (Ht : h - 2 - ki < t <= h - 2).
  { subst t. pose proof (Z.div_mod (h - 2) ki ltac:(lia)) as D2.
    pose proof (Z.mod_pos_bound (h - 2) ki ltac:(lia)) as B2.
    clear - D2 B2. generalize dependent ((h - 2) / ki). generalize dependent ((h - 2) mod ki). intros. lia. }
  assert (Ht0 : 0 <= t).
  { subst t. apply Z.mul_nonneg_nonneg; [lia|]. apply Z.div_pos; lia. }
  clearbody t. clear Hfl Hbr Hx x.
  assert (Hnk1 : n * ki + ki <= 2147483647) by lia.
  rewrite (to_u32_id t) by lia. unfold u32_sub. rewrite to_i32_to_u32 by lia.
  f_equal. destruct (Z.ltb_spec (t - n * ki) 0); lia.
Qed.

(** ** ReducedPublicationView::size() and the keystone-boundary short-cut agree *)

Lemma view_size_eq fork tip ki :
  0 < ki -> view_size fork tip ki = tip / ki - fork / ki.
Proof.
  intros Hk. unfold view_size, view_first, view_last, m_keystoneNumber,
    m_highestKeystoneAtOrBefore, m_firstKeystoneAfter.
  rewrite !(Z.mul_comm ki), !Z.div_mul by lia. lia.
Qed.

Lemma view_size_nonneg fork tip ki : 0 < ki -> fork <= tip -> 0 <= view_size fork tip ki.
Proof.
  intros Hk Hle. rewrite view_size_eq by assumption.
  pose proof (Z.div_le_mono fork tip ki ltac:(lia) Hle). lia.
Qed.

(** the view of [fork..tip] is empty exactly when the chain does not cross a keystone boundary *)
Lemma view_empty_iff_not_crossed fork tip ki :
  0 < ki -> fork <= tip ->
  (view_size fork tip ki = 0 <-> m_crossed fork tip ki = false).
Proof.
  intros Hk Hle. rewrite view_size_eq by assumption. unfold m_crossed.
  pose proof (Z.div_le_mono fork tip ki ltac:(lia) Hle).
  destruct (Z.ltb_spec (fork / ki) (tip / ki)); split; intros; try lia; discriminate.
Qed.

(** the hypotheses are satisfiable by non-trivial values *)
Example keystone_ranges_inhabited :
  height_ok 1234567 /\ ki_ok 20 /\ firstKeystoneAfter 1234567 20 = Ok 1234580 /\
  getPreviousKeystoneHeight 1234567 20 1 = Ok 1234540.
Proof. unfold height_ok, ki_ok. repeat split; try lia; reflexivity. Qed.
