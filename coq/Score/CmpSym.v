(** comparePopScoreImpl as coded: antisymmetry under role swap, verdict 0 without
    keystones; the outer comparePopScore short-cuts never favour an invalid
    candidate or one that forks off below a finalized block. *)
From Coq Require Import ZArith Lia Bool List.
From VB Require Import Score.CInt Score.CmpDefs Score.KeystoneDefs Score.KeystoneProofs.
Import ListNotations.
Local Open Scope Z_scope.

Definition swap_i (s : ist) : ist := mkI (bOut s) (aOut s) (sB s) (sA s) (pB s) (pA s) (ub s).
Definition swap_ctl (r : ctl) : ctl := match r with Cont s => Cont (swap_i s) | Break s => Break (swap_i s) end.
Definition swap_pair {A} (p : A * A) : A * A := (snd p, fst p).

Ltac crush_flags :=
  repeat match goal with
         | |- context [?u || (gap_ub ?a ?b || gap_ub ?c ?d)] => destruct (u || (gap_ub a b || gap_ub c d))
         | |- context [ovf ?z] => destruct (ovf z)
         end.

(** one loop iteration is symmetric: swapping the roles swaps the resulting state *)
Lemma step_swap c st xa xb : step c (swap_i st) xb xa = swap_ctl (step c st xa xb).
Proof.
  destruct st as [ao bo sa sb pa pb u]. unfold step, swap_i.
  cbn [aOut bOut sA sB pA pB ub]. cbv zeta.
  rewrite (orb_comm (gap_ub (ctx_of bo xb) pb) (gap_ub (ctx_of ao xa) pa)).
  rewrite (Z.min_comm (pub_of (ctx_of bo xb)) (pub_of (ctx_of ao xa))).
  destruct (if gap_hit c (ctx_of ao xa) pa then None else ctx_of ao xa) as [p|];
    destruct (if gap_hit c (ctx_of bo xb) pb then None else ctx_of bo xb) as [q|]; cbn [swap_ctl].
  - unfold swap_i. cbn [aOut bOut sA sB pA pB ub]. crush_flags; reflexivity.
  - destruct (table c) as [|t0 r]; [reflexivity|].
    destruct (sb <? to_i32 (u32_add (to_u32 sa) t0)); reflexivity.
  - destruct (table c) as [|t0 r]; [reflexivity|].
    destruct (sa <? to_i32 (u32_add (to_u32 sb) t0)); reflexivity.
  - rewrite (andb_comm (bo || gap_hit c (ctx_of bo xb) pb)).
    destruct ((ao || gap_hit c (ctx_of ao xa) pa) && (bo || gap_hit c (ctx_of bo xb) pb)); reflexivity.
Qed.

Lemma loop_swap c l : forall st,
  loop c (map swap_pair l) (swap_i st) = swap_i (loop c l st).
Proof.
  induction l as [|[xa xb] r IH]; intros st; cbn [map loop swap_pair fst snd]; [reflexivity|].
  rewrite step_swap. destruct (step c st xa xb) as [s|s]; cbn [swap_ctl]; [apply IH | reflexivity].
Qed.

Lemma zip_pad_swap {A} (la lb : list (option A)) : zip_pad lb la = map swap_pair (zip_pad la lb).
Proof.
  revert lb. induction la as [|xa ra IH]; intros lb.
  - destruct lb as [|xb rb]; cbn [zip_pad map]; [reflexivity|].
    cbn [swap_pair fst snd]. f_equal. rewrite map_map. apply map_ext. reflexivity.
  - destruct lb as [|xb rb]; cbn [zip_pad map swap_pair fst snd].
    + f_equal. rewrite map_map. apply map_ext. reflexivity.
    + f_equal. apply IH.
Qed.

Lemma ovf_false_inv z : ovf z = false -> -2147483648 <= z <= 2147483647.
Proof.
  unfold ovf, in_i32, int32_min, int32_max. intros H. apply negb_false_iff in H.
  apply andb_true_iff in H. destruct H as [H1 H2]. apply Z.leb_le in H1. apply Z.leb_le in H2. lia.
Qed.

Lemma ovf_false' z : -2147483648 <= z <= 2147483647 -> ovf z = false.
Proof.
  intros. unfold ovf, in_i32, int32_min, int32_max.
  destruct (Z.leb_spec (-2147483648) z), (Z.leb_spec z 2147483647); try lia; reflexivity.
Qed.

(** EXACT antisymmetry: comparePopScoreImpl(b, a) = - comparePopScoreImpl(a, b), for every
    config and all views, whenever the verdict is defined and is not INT32_MIN (whose
    negation is not an int; unreachable under the range hypotheses of the sign theorem). *)
Theorem impl_antisym c la lb r :
  impl c la lb = Ok r -> r <> int32_min -> impl c lb la = Ok (- r).
Proof.
  unfold impl. destruct la as [|xa ra], lb as [|xb rb]; intros H Hr.
  - inversion H. reflexivity.
  - inversion H. reflexivity.
  - inversion H. reflexivity.
  - rewrite (zip_pad_swap (xa :: ra) (xb :: rb)).
    pose proof (loop_swap c (zip_pad (xa :: ra) (xb :: rb)) ist0) as Hl.
    change (swap_i ist0) with ist0 in Hl. rewrite Hl. cbv zeta in *.
    set (st := loop c (zip_pad (xa :: ra) (xb :: rb)) ist0) in *.
    unfold swap_i. cbn [sA sB ub].
    destruct (ub st); [discriminate|]. cbn [orb] in *.
    destruct (ovf (sA st - sB st)) eqn:E; [discriminate|]. inversion H; subst r.
    apply ovf_false_inv in E. unfold int32_min in Hr.
    rewrite ovf_false' by lia. f_equal. lia.
Qed.

(** undefined behaviour is symmetric as well, up to the INT32_MIN corner *)
Theorem impl_antisym_ub c la lb :
  impl c la lb = Ub -> impl c lb la = Ub \/ impl c lb la = Ok int32_min.
Proof.
  unfold impl. destruct la as [|xa ra], lb as [|xb rb]; intros H; try discriminate.
  rewrite (zip_pad_swap (xa :: ra) (xb :: rb)).
  pose proof (loop_swap c (zip_pad (xa :: ra) (xb :: rb)) ist0) as Hl.
  change (swap_i ist0) with ist0 in Hl. rewrite Hl. cbv zeta in *.
  set (st := loop c (zip_pad (xa :: ra) (xb :: rb)) ist0) in *.
  unfold swap_i. cbn [sA sB ub].
  destruct (ub st); [left; reflexivity|]. cbn [orb] in *.
  destruct (ovf (sA st - sB st)) eqn:E; [|discriminate].
  destruct (ovf (sB st - sA st)) eqn:E2; [left; reflexivity|]. right.
  apply ovf_false_inv in E2.
  assert (sB st - sA st = -2147483648) as ->; [|reflexivity].
  destruct (Z.eq_dec (sB st - sA st) (-2147483648)) as [|Hne]; [assumption|].
  rewrite ovf_false' in E by lia. discriminate.
Qed.

(** no keystone on either chain: verdict 0.  The views of the chain slices
    [fork..tipA], [fork..tipB] are empty exactly when neither chain crosses a keystone
    boundary (KeystoneProofs.view_empty_iff_not_crossed), which is also the outer short-cut. *)
Theorem cmp_zero_no_keystone c fork tipA tipB ki la lb :
  0 < ki -> fork <= tipA -> fork <= tipB ->
  Z.of_nat (length la) = view_size fork tipA ki ->
  Z.of_nat (length lb) = view_size fork tipB ki ->
  m_crossed fork tipA ki = false -> m_crossed fork tipB ki = false ->
  impl c la lb = Ok 0.
Proof.
  intros Hk HA HB La Lb CA CB.
  apply (view_empty_iff_not_crossed fork tipA ki Hk HA) in CA.
  apply (view_empty_iff_not_crossed fork tipB ki Hk HB) in CB.
  destruct la; [|cbn [length] in La; lia]. destruct lb; [|cbn [length] in Lb; lia]. reflexivity.
Qed.

(** ** outer comparePopScore *)

(** the facts read off a block tree are related: a candidate on top of the tip
    forks at the tip; finalized blocks are on the active chain *)
Definition outer_wf (i : outer_in) : Prop :=
  (cand_above_tip i = true -> fork_h i = tip_h i) /\
  (forall f, fin_h i = Some f -> f <= tip_h i).

(** the candidate forks off below a finalized block of the active chain *)
Definition forks_below_final (i : outer_in) : Prop := exists f, fin_h i = Some f /\ fork_h i < f.

Theorem cmp_never_favours_finalized_or_invalid i :
  outer_wf i ->
  cand_valid i = false \/ apply_ok i = false \/ forks_below_final i ->
  0 <= fst (outer_cmp i).
Proof.
  intros [Hw1 Hw2] H. unfold outer_cmp, outer_cmp_gen, next_to_fork_final.
  destruct (cand_valid i) eqn:Ev; cbn [negb]; [|cbn; lia].
  destruct (cand_is_tip i); [cbn; lia|].
  destruct (finalized_at i (tip_h i) && (cand_h i <=? tip_h i)); [cbn; lia|].
  destruct (cand_on_active i); [cbn; lia|].
  destruct (cand_above_tip i) eqn:Eab.
  - destruct (apply_ok i) eqn:Eap; [|cbn; lia].
    destruct H as [H|[H|(f & Hf & Hlt)]]; try discriminate.
    specialize (Hw1 eq_refl). specialize (Hw2 f Hf). lia.
  - destruct ((fork_h i + 1 <=? tip_h i) && finalized_at i (fork_h i + 1)) eqn:Efin; [cbn; lia|].
    destruct (negb (fork_h i / o_ki i <? tip_h i / o_ki i) && negb (fork_h i / o_ki i <? cand_h i / o_ki i));
      [cbn; lia|].
    destruct (apply_ok i) eqn:Eap; cbn [negb]; [|cbn; lia].
    destruct H as [H|[H|(f & Hf & Hlt)]]; try discriminate.
    exfalso. specialize (Hw2 f Hf).
    unfold finalized_at in Efin. rewrite Hf in Efin.
    apply andb_false_iff in Efin. destruct Efin as [E|E]; apply Z.leb_gt in E; lia.
Qed.

(** a negative verdict (candidate wins) of the scoring core is only passed on when the
    candidate chain is valid on its own *)
Theorem outer_negative_only_if_valid i :
  fst (outer_cmp i) < 0 -> cand_valid i = true /\ apply_ok i = true /\
  (cand_above_tip i = true \/ (core i < 0 /\ b_valid_alone i = true)).
Proof.
  unfold outer_cmp, outer_cmp_gen, next_to_fork_final.
  destruct (cand_valid i); cbn [negb]; [|cbn; lia].
  destruct (cand_is_tip i); [cbn; lia|].
  destruct (finalized_at i (tip_h i) && (cand_h i <=? tip_h i)); [cbn; lia|].
  destruct (cand_on_active i); [cbn; lia|].
  destruct (cand_above_tip i).
  - destruct (apply_ok i); cbn; intros; [auto|lia].
  - destruct ((fork_h i + 1 <=? tip_h i) && finalized_at i (fork_h i + 1)); [cbn; lia|].
    destruct (negb (fork_h i / o_ki i <? tip_h i / o_ki i) && negb (fork_h i / o_ki i <? cand_h i / o_ki i));
      [cbn; lia|].
    destruct (apply_ok i); cbn [negb]; [|cbn; lia].
    destruct (Z.leb_spec 0 (core i)); [cbn; lia|].
    destruct (b_valid_alone i); cbn; intros; [auto|lia].
Qed.

(** a candidate below a finalized block is answered with exactly 1 (TIP_IS_FINAL), whatever its height and score *)
Theorem outer_below_final_is_one i :
  outer_wf i -> cand_valid i = true -> cand_is_tip i = false -> cand_on_active i = false ->
  forks_below_final i -> outer_cmp i = (1, TIP_IS_FINAL).
Proof.
  intros [Hw1 Hw2] Hv Ht Ha (f & Hf & Hlt). specialize (Hw2 f Hf).
  unfold outer_cmp, outer_cmp_gen, next_to_fork_final, finalized_at. rewrite Hv, Ht, Ha, Hf. cbn [negb].
  destruct ((tip_h i <=? f) && (cand_h i <=? tip_h i)); [reflexivity|].
  destruct (cand_above_tip i) eqn:Eab; [specialize (Hw1 eq_refl); lia|].
  destruct (Z.leb_spec (fork_h i + 1) (tip_h i)); [|lia].
  destruct (Z.leb_spec (fork_h i + 1) f); [|lia]. reflexivity.
Qed.

(** REFUTED variant: with the height condition of the neighbouring short-cut copied into the guard
    ([nextToFork->finalized && candidate.height <= tip.height]) a TALLER candidate that forks below a
    finalized block goes through keystone scoring and can win *)
Theorem outer_height_guard_refuted :
  exists i, outer_wf i /\ forks_below_final i /\ fst (outer_cmp_gen next_to_fork_final_height i) < 0.
Proof.
  exists (mkO true false 9 10 1 (Some 4) false false true 2 (-100) true).
  split; [split; cbn; [discriminate | intros f H; inversion H; lia]|].
  split; [exists 4; cbn; split; [reflexivity|lia]|]. vm_compute. reflexivity.
Qed.
