(** Keystone arithmetic, mathematical versions over unbounded Z (flooring
    division).  [ki] is the keystone interval (> 0), heights are >= 0.
    These are what the rest of the development and the protocol description
    use; Score/KeystoneProofs.v proves that the functions GENERATED from
    src/pop/keystone_util.cpp (Gen/KeystoneGen.v, C++ int32/uint32 semantics)
    compute exactly these on the stated ranges.  No proofs in this file. *)
From Coq Require Import ZArith Bool.
Local Open Scope Z_scope.

(** number of the keystone period a height lies in: floor(h / ki) *)
Definition m_keystoneNumber (h ki : Z) : Z := h / ki.

(** the keystone at or below [h]: ki * floor(h / ki) *)
Definition m_highestKeystoneAtOrBefore (h ki : Z) : Z := ki * (h / ki).

Definition m_isKeystone (h ki : Z) : bool := h mod ki =? 0.

(** the first keystone strictly above [h]: ki * (floor(h / ki) + 1) *)
Definition m_firstKeystoneAfter (h ki : Z) : Z := ki * (h / ki + 1).

(** endorsements of blocks [k .. k + ki + 1] count for keystone [k] *)
Definition m_highestConnecting (k ki : Z) : Z := k + ki + 1.

Definition m_crossed (bottom tip ki : Z) : bool := bottom / ki <? tip / ki.

Definition m_sameInterval (h1 h2 ki : Z) : bool := h1 / ki =? h2 / ki.

(** [n]-th previous keystone of the block at height [h] (n = 0: first previous),
    clamped at 0: the keystone at or below h-2, minus n periods *)
Definition m_previousKeystone (h ki n : Z) : Z :=
  if h <=? 1 + n * ki then 0 else Z.max 0 (ki * ((h - 2) / ki) - n * ki).

(** ReducedPublicationView (fork_resolution.hpp:210-297) of the chain slice
    [fork .. tip]: first/last keystone and number of keystones ([size()]) *)
Definition view_first (fork ki : Z) : Z := m_firstKeystoneAfter fork ki.
Definition view_last (tip ki : Z) : Z := m_highestKeystoneAtOrBefore tip ki.
Definition view_size (fork tip ki : Z) : Z :=
  m_keystoneNumber (view_last tip ki) ki - m_keystoneNumber (view_first fork ki) ki + 1.
