(** POP fork resolution, scoring core
      internal::comparePopScoreImpl            fork_resolution.hpp:299-453
      publicationViolatesFinality              fork_resolution.hpp:63-69
      getConsensusScoreFromRelativeBlockStartingAtZero            :71-80
    modelled AS CODED ([impl]) over an abstract publication view, the
    declarative protocol scorer ([spec]), and the short-cuts of the outer
    PopAwareForkResolutionComparator::comparePopScore (:553-714) as a decision
    function ([outer_cmp]).  Executable definitions only; no proofs here.

    A publication view is what the template accesses: [empty()],
    [getKeystone(k)] for k = firstKeystone, firstKeystone+ki, ... and the shared
    config.  Both views start at the same first keystone (VBK_ASSERT :326), so a
    view is the list of [getKeystone] results by keystone position:
        [None]    getKeystone returned nullptr (only views with holes do that,
                  e.g. MockReducedPublicationView of the repo's unit test)
        [Some p]  a KeystoneContext with firstBlockPublicationHeight = p (an int;
                  the real ReducedPublicationView returns NO_ENDORSEMENT =
                  INT32_MAX for a keystone nobody endorsed, never nullptr)
    Positions beyond the end of the list are the keystones above lastKeystone():
    getKeystone returns nullptr there. *)
From Coq Require Import ZArith List Bool.
From VB Require Import Score.CInt.
Import ListNotations.
Local Open Scope Z_scope.

(** config: getFinalityDelay() : uint32_t, getForkResolutionLookUpTable() : vector<uint32_t> *)
Record config : Type := { fd : Z; table : list Z }.

Definition NO_ENDORSEMENT : Z := 2147483647.

(** [ovf z]: the mathematical result z of an [int] operation is not representable (UB) *)
Definition ovf (z : Z) : bool := negb (in_i32 z).

(** publicationViolatesFinality: [int64_t diff = pubToCheck - base] is an [int]
    subtraction widened afterwards; [diff > getFinalityDelay()] compares int64 with uint32 *)
Definition violates (c : config) (p b : Z) : bool := fd c <? p - b.

(** getConsensusScoreFromRelativeBlockStartingAtZero; the uint32 entry is returned as [int] *)
Definition score (c : config) (rel : Z) : Z :=
  if (rel <? 0) || (Z.of_nat (length (table c)) <=? rel) then 0
  else to_i32 (nth (Z.to_nat rel) (table c) 0).

(** pad the shorter view with nullptr up to latestKeystone = max of both lastKeystone() *)
Fixpoint zip_pad {A : Type} (la lb : list (option A)) : list (option A * option A) :=
  match la with
  | [] => map (fun xb => (None, xb)) lb
  | xa :: ra =>
      match lb with
      | [] => (xa, None) :: map (fun x => (x, None)) ra
      | xb :: rb => (xa, xb) :: zip_pad ra rb
      end
  end.

(** ** comparePopScoreImpl as coded *)

(** loop state: aOutsideFinality, bOutsideFinality, chainAscore, chainBscore,
    previousPublicationA/B, and whether undefined behaviour has occurred *)
Record ist : Type := mkI { aOut : bool; bOut : bool; sA : Z; sB : Z; pA : Z; pB : Z; ub : bool }.

Inductive ctl : Type := Cont (s : ist) | Break (s : ist).

Definition ist0 : ist := mkI false false 0 0 NO_ENDORSEMENT NO_ENDORSEMENT false.

(** [auto* actx = aOutsideFinality ? nullptr : a.getKeystone(k)] *)
Definition ctx_of (out : bool) (x : option Z) : option Z := if out then None else x.
(** [actx == nullptr ? NO_ENDORSEMENT : actx->firstBlockPublicationHeight] *)
Definition pub_of (ctx : option Z) : Z := match ctx with None => NO_ENDORSEMENT | Some p => p end.
(** [actx != nullptr && publicationViolatesFinality(earliestPublicationA, previousPublicationA, config)] *)
Definition gap_hit (c : config) (ctx : option Z) (prev : Z) : bool :=
  match ctx with None => false | Some p => violates c p prev end.
Definition gap_ub (ctx : option Z) (prev : Z) : bool :=
  match ctx with None => false | Some p => ovf (p - prev) end.

(** one iteration of the for loop (:353-449) on the getKeystone results [xa], [xb] *)
Definition step (c : config) (st : ist) (xa xb : option Z) : ctl :=
  let actx0 := ctx_of (aOut st) xa in
  let bctx0 := ctx_of (bOut st) xb in
  let epA := pub_of actx0 in
  let epB := pub_of bctx0 in
  let gA := gap_hit c actx0 (pA st) in
  let gB := gap_hit c bctx0 (pB st) in
  let actx := if gA then None else actx0 in
  let bctx := if gB then None else bctx0 in
  let aOut1 := aOut st || gA in
  let bOut1 := bOut st || gB in
  let ub1 := ub st || (gap_ub actx0 (pA st) || gap_ub bctx0 (pB st)) in
  match actx, bctx with
  | None, None =>
      let s := mkI aOut1 bOut1 (sA st) (sB st) epA epB ub1 in
      if aOut1 && bOut1 then Break s else Cont s
  | None, Some _ =>
      match table c with
      | [] => Break (mkI true bOut1 (sA st) (sB st) epA epB true)      (* table[0] read out of range *)
      | t0 :: _ =>
          (* chainBscore += table[0]: int + uint32 is unsigned arithmetic, converted back to int *)
          let sB' := to_i32 (u32_add (to_u32 (sB st)) t0) in
          let s := mkI true bOut1 (sA st) sB' epA epB ub1 in
          if sA st <? sB' then Break s else Cont s
      end
  | Some _, None =>
      match table c with
      | [] => Break (mkI aOut1 true (sA st) (sB st) epA epB true)
      | t0 :: _ =>
          let sA' := to_i32 (u32_add (to_u32 (sA st)) t0) in
          let s := mkI aOut1 true sA' (sB st) epA epB ub1 in
          if sB st <? sA' then Break s else Cont s
      end
  | Some _, Some _ =>
      let m := Z.min epA epB in
      let ra := epA - m in
      let rb := epB - m in
      let sA' := sA st + score c ra in      (* int += int *)
      let sB' := sB st + score c rb in
      let ub2 := ub1 || ((ovf ra || ovf rb) || ((ovf sA' || ovf sB') || (ovf (epA - epB) || ovf (epB - epA)))) in
      Cont (mkI (aOut1 || violates c epA epB) (bOut1 || violates c epB epA) sA' sB' epA epB ub2)
  end.

Fixpoint loop (c : config) (l : list (option Z * option Z)) (st : ist) : ist :=
  match l with
  | [] => st
  | (xa, xb) :: r =>
      match step c st xa xb with
      | Break s => s
      | Cont s => loop c r s
      end
  end.

(** comparePopScoreImpl(a, b); [Ub] = signed overflow or table[0] of an empty table *)
Definition impl (c : config) (la lb : list (option Z)) : res Z :=
  match la, lb with
  | [], [] => Ok 0
  | [], _ :: _ => Ok (-1)
  | _ :: _, [] => Ok 1
  | _ :: _, _ :: _ =>
      let st := loop c (zip_pad la lb) ist0 in
      if ub st || ovf (sA st - sB st) then Ub else Ok (sA st - sB st)
  end.

(** ** The protocol scorer (specification)

    Heights are unbounded; a publication is [Fin h] (earliest publication of the
    keystone period at height h of the security-providing chain) or [Inf]
    ("infinitely late": never published).  Per keystone position a chain either
    has the keystone ([Some x]) or does not ([None]).  No sentinel values, no
    early exit; every keystone position is visited and the flags say whether a
    chain is still inside finality. *)
Inductive xheight : Type := Fin (h : Z) | Inf.

(** [late c x y]: x lies more than the finality delay after y *)
Definition late (c : config) (x y : xheight) : bool :=
  match x, y with
  | Fin a, Fin b => fd c <? a - b
  | Inf, Fin _ => true
  | _, Inf => false
  end.

(** lookup table as a total function of the lateness: 0 outside the table *)
Definition tbl (c : config) (r : Z) : Z :=
  if (r <? 0) || (Z.of_nat (length (table c)) <=? r) then 0 else nth (Z.to_nat r) (table c) 0.

(** points for publication [x] when the other chain published at [y]:
    table-weighted by the lateness relative to the earlier of the two *)
Definition pts (c : config) (x y : xheight) : Z :=
  match x, y with
  | Fin a, Fin b => tbl c (a - Z.min a b)
  | Fin _, Inf => tbl c 0
  | Inf, Fin _ => 0
  | Inf, Inf => tbl c 0
  end.

Record sst : Type := mkS { aliveA : bool; aliveB : bool; prevA : option xheight; prevB : option xheight;
                           scA : Z; scB : Z }.

Definition sst0 : sst := mkS true true None None 0 0.

(** gap rule: this keystone was published more than the finality delay after
    the chain's own publication of the previous keystone *)
Definition gap (c : config) (h : option xheight) (prev : option xheight) : bool :=
  match h, prev with
  | Some x, Some y => late c x y
  | _, _ => false
  end.

Definition spec_step (c : config) (st : sst) (xa xb : option xheight) : sst :=
  (* a chain outside finality has no keystones any more *)
  let ha := if aliveA st then xa else None in
  let hb := if aliveB st then xb else None in
  let gapA := gap c ha (prevA st) in
  let gapB := gap c hb (prevB st) in
  let ha' := if gapA then None else ha in
  let hb' := if gapB then None else hb in
  let aliveA1 := aliveA st && negb gapA in
  let aliveB1 := aliveB st && negb gapB in
  match ha', hb' with
  | None, None => mkS aliveA1 aliveB1 ha hb (scA st) (scB st)
  | None, Some _ => mkS false aliveB1 ha hb (scA st) (scB st + tbl c 0)
  | Some _, None => mkS aliveA1 false ha hb (scA st + tbl c 0) (scB st)
  | Some x, Some y =>
      mkS (aliveA1 && negb (late c x y)) (aliveB1 && negb (late c y x)) ha hb
          (scA st + pts c x y) (scB st + pts c y x)
  end.

Definition spec_run (c : config) (l : list (option xheight * option xheight)) (st : sst) : sst :=
  fold_left (fun s p => spec_step c s (fst p) (snd p)) l st.

(** verdict of the protocol: positive = A better, negative = B better.
    A chain that crosses no keystone boundary (no keystone at all) loses against
    one that does; two such chains are equal. *)
Definition spec (c : config) (la lb : list (option xheight)) : Z :=
  match la, lb with
  | [], [] => 0
  | [], _ :: _ => -1
  | _ :: _, [] => 1
  | _ :: _, _ :: _ => let st := spec_run c (zip_pad la lb) sst0 in scA st - scB st
  end.

(** *** how a view presents a chain's keystones to [comparePopScoreImpl]

    A profile is, per keystone the chain has, its earliest publication height
    if any.  Two readings of "no publication":
      - [pub_*]: the keystone is missing (a view with holes: getKeystone = nullptr);
      - [inf_*]: the keystone is there and infinitely late (the real
        ReducedPublicationView: a context holding NO_ENDORSEMENT = INT32_MAX). *)
Definition enc_x (x : xheight) : Z := match x with Fin h => h | Inf => NO_ENDORSEMENT end.
Definition enc (o : option xheight) : option Z := option_map enc_x o.
Definition enc_view (l : list (option xheight)) : list (option Z) := map enc l.

Definition pub_slot (o : option Z) : option xheight := option_map Fin o.
Definition inf_slot (o : option Z) : option xheight := Some (match o with Some h => Fin h | None => Inf end).
Definition pub_profile (l : list (option Z)) : list (option xheight) := map pub_slot l.
Definition inf_profile (l : list (option Z)) : list (option xheight) := map inf_slot l.

(** what getKeystone returns, position by position *)
Definition holes_view (l : list (option Z)) : list (option Z) := l.
Definition real_view (l : list (option Z)) : list (option Z) :=
  map (fun o => Some (match o with Some h => h | None => NO_ENDORSEMENT end)) l.

(** ** Outer comparePopScore: the short-cuts before/around the scoring core, as coded.
    Inputs are the facts the C++ reads off the tree; [fin_h] is the height of the
    highest finalized block of the active chain (finalized blocks are its ancestors). *)
Record outer_in : Type := mkO {
  cand_valid : bool;          (* candidate.isValid() *)
  cand_is_tip : bool;         (* bestTip == &candidate *)
  tip_h : Z; cand_h : Z; fork_h : Z;
  fin_h : option Z;           (* None: nothing finalized *)
  cand_on_active : bool;      (* currentBest.contains(&candidate) *)
  cand_above_tip : bool;      (* candidate.getAncestor(bestTip->getHeight()) == bestTip *)
  apply_ok : bool;            (* sm_.apply(...) of the candidate's payloads succeeded *)
  o_ki : Z;
  core : Z;                   (* result of comparePopScoreImpl on the two views *)
  b_valid_alone : bool        (* chain B re-applied without A's payloads is valid *)
}.

Inductive outcome : Type :=
| CANDIDATE_IS_TIP | CANDIDATE_INVALID_CHAIN | CANDIDATE_INVALID_PAYLOADS
| CANDIDATE_PART_OF_ACTIVE_CHAIN | CANDIDATE_IS_TIP_SUCCESSOR | TIP_IS_FINAL
| BOTH_DONT_CROSS_KEYSTONE_BOUNDARY | CANDIDATE_INVALID_INDEPENDENTLY | HIGHER_POP_SCORE.

Definition finalized_at (i : outer_in) (h : Z) : bool :=
  match fin_h i with Some f => h <=? f | None => false end.

(** guard of the short-cut "the block next to the fork point on the active chain is finalized":
    [nextToFork != nullptr && nextToFork->finalized] - as coded it has NO condition on the heights *)
Definition next_to_fork_final (i : outer_in) : bool :=
  (fork_h i + 1 <=? tip_h i) && finalized_at i (fork_h i + 1).

(** a plausible-looking but wrong variant (the height condition of the neighbouring short-cut copied over);
    Score/CmpSym.v refutes the property for it *)
Definition next_to_fork_final_height (i : outer_in) : bool :=
  next_to_fork_final i && (cand_h i <=? tip_h i).

Definition outer_cmp_gen (final_guard : outer_in -> bool) (i : outer_in) : Z * outcome :=
  if negb (cand_valid i) then (1, CANDIDATE_INVALID_CHAIN)
  else if cand_is_tip i then (1, CANDIDATE_IS_TIP)
  else if finalized_at i (tip_h i) && (cand_h i <=? tip_h i) then (1, TIP_IS_FINAL)
  else if cand_on_active i then (1, CANDIDATE_PART_OF_ACTIVE_CHAIN)
  else if cand_above_tip i then
    (if apply_ok i then (-1, CANDIDATE_IS_TIP_SUCCESSOR) else (1, CANDIDATE_INVALID_PAYLOADS))
  else if final_guard i then (1, TIP_IS_FINAL)
  else if negb (fork_h i / o_ki i <? tip_h i / o_ki i) && negb (fork_h i / o_ki i <? cand_h i / o_ki i)
    then (0, BOTH_DONT_CROSS_KEYSTONE_BOUNDARY)
  else if negb (apply_ok i) then (1, CANDIDATE_INVALID_PAYLOADS)
  else if 0 <=? core i then (core i, HIGHER_POP_SCORE)
  else if b_valid_alone i then (core i, HIGHER_POP_SCORE)
  else (1, CANDIDATE_INVALID_INDEPENDENTLY).

Definition outer_cmp : outer_in -> Z * outcome := outer_cmp_gen next_to_fork_final.
