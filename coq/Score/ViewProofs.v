(** getKeystoneContext as coded = minimum over the endorsements of the
    (time-)adjusted publication height; the adjustment never moves a publication
    backwards and is monotone; without time adjustment it is the identity.
    In particular the as-coded skip [endorsementIndex >= earliest -> continue] is
    sound, and the result does not depend on the iteration order of the set. *)
From Coq Require Import ZArith Lia List Bool Arith Permutation.
From VB Require Import Score.ViewDefs.
Import ListNotations.
Local Open Scope Z_scope.

Lemma nth_skipn {A} (l : list A) k i d : nth i (skipn k l) d = nth (k + i) l d.
Proof.
  revert l. induction k as [|k IH]; intros l; [reflexivity|].
  destruct l as [|x l]; cbn [skipn Nat.add nth]; [destruct i; reflexivity | apply IH].
Qed.

Lemma skipn_skipn' {A} (l : list A) a b : skipn a (skipn b l) = skipn (a + b) l.
Proof.
  revert l. induction b as [|b IH]; intros l.
  - rewrite Nat.add_0_r. reflexivity.
  - rewrite Nat.add_succ_r. destruct l as [|x l]; cbn [skipn]; [apply skipn_nil | apply IH].
Qed.

Lemma first_later_ge T l j0 j : first_later T l j0 = Some j -> (j0 <= j)%nat.
Proof.
  revert j0. induction l as [|t r IH]; intros j0 H; cbn [first_later] in H; [discriminate|].
  destruct (T <? t); [inversion H; lia|]. apply IH in H. lia.
Qed.

(** the found block is later than the keystone, and no block before it (from j0 on) is *)
Lemma first_later_spec T l j0 j :
  first_later T l j0 = Some j ->
  T < nth (j - j0) l 0 /\ forall i, (i < j - j0)%nat -> nth i l 0 <= T.
Proof.
  revert j0. induction l as [|t r IH]; intros j0 H; cbn [first_later] in H; [discriminate|].
  destruct (Z.ltb_spec T t) as [Hlt|Hge].
  - inversion H; subst. replace (j - j)%nat with 0%nat by lia. cbn [nth]. split; [exact Hlt|]. intros i Hi. lia.
  - pose proof (first_later_ge _ _ _ _ H) as Hge'. destruct (IH _ H) as [H1 H2].
    replace (j - j0)%nat with (S (j - S j0)) by lia. cbn [nth]. split; [exact H1|].
    intros [|i] Hi; cbn [nth]; [exact Hge|]. apply H2. lia.
Qed.

Lemma first_later_none T l j0 : first_later T l j0 = None -> forall i, (i < length l)%nat -> nth i l 0 <= T.
Proof.
  revert j0. induction l as [|t r IH]; intros j0 H i Hi; cbn [length] in Hi; [lia|].
  cbn [first_later] in H. destruct (Z.ltb_spec T t) as [Hlt|Hge]; [discriminate|].
  destruct i; cbn [nth]; [exact Hge|]. apply (IH _ H). lia.
Qed.

(** dropping a prefix of the chain can only move the first later block forward *)
Lemma first_later_suffix T l j0 : forall k r j1,
  first_later T (skipn k l) (j0 + k) = r ->
  first_later T l j0 = j1 ->
  match j1, r with
  | Some a, Some b => (a <= b)%nat
  | None, Some _ => False
  | _, None => True
  end.
Proof.
  revert j0. induction l as [|t l IH]; intros j0 k r j1 Hr H1.
  - rewrite skipn_nil in Hr. cbn in Hr, H1. subst. exact I.
  - destruct k as [|k].
    + cbn [skipn] in Hr. replace (j0 + 0)%nat with j0 in Hr by lia. rewrite Hr in H1. subst j1.
      destruct r; [lia|exact I].
    + cbn [skipn] in Hr. replace (j0 + S k)%nat with (S j0 + k)%nat in Hr by lia.
      cbn [first_later] in H1. destruct (T <? t).
      * subst j1. destruct r as [b|]; [|exact I]. subst. 
        match goal with H : first_later _ _ _ = Some b |- _ => apply first_later_ge in H; lia end.
      * exact (IH (S j0) k r j1 Hr H1).
Qed.

(** ** one endorsement *)

Lemma adjust_off chain T h : adjust false chain T h = Some h.
Proof. reflexivity. Qed.

Lemma adjust_ge ta chain T h j : adjust ta chain T h = Some j -> (h <= j)%nat.
Proof.
  unfold adjust. destruct (negb ta || (T <? nth h chain 0)); intros H.
  - inversion H. lia.
  - apply first_later_ge in H. lia.
Qed.

(** the adjusted block is strictly later than the keystone (when adjustment is on) *)
Lemma adjust_later chain T h j : adjust true chain T h = Some j -> T < nth j chain 0.
Proof.
  unfold adjust. cbn [negb orb]. destruct (Z.ltb_spec T (nth h chain 0)) as [Hlt|Hge]; intros H.
  - inversion H; subst. exact Hlt.
  - pose proof (first_later_ge _ _ _ _ H) as Hj. destruct (first_later_spec _ _ _ _ H) as [H1 _].
    rewrite nth_skipn in H1. replace (S h + (j - S h))%nat with j in H1 by lia. exact H1.
Qed.

(** monotone: a later block of proof never counts earlier, and if the earlier one does not count
    at all neither does the later one *)
Lemma adjust_mono ta chain T h1 h2 :
  (h1 <= h2)%nat -> (h2 < length chain)%nat ->
  match adjust ta chain T h1, adjust ta chain T h2 with
  | Some a, Some b => (a <= b)%nat
  | None, Some _ => False
  | _, None => True
  end.
Proof.
  intros Hle Hin. destruct (Nat.eq_dec h1 h2) as [->|Hne].
  { destruct (adjust ta chain T h2); [lia|exact I]. }
  assert (Hlt : (h1 < h2)%nat) by lia. clear Hle Hne.
  unfold adjust. destruct ta; cbn [negb orb]; [|lia].
  destruct (Z.ltb_spec T (nth h1 chain 0)) as [H1|H1].
  - (* h1 counts where it is *)
    destruct (T <? nth h2 chain 0); [lia|].
    destruct (first_later T (skipn (S h2) chain) (S h2)) as [b|] eqn:E; [|exact I].
    apply first_later_ge in E. lia.
  - (* h1 is moved forward *)
    set (r1 := first_later T (skipn (S h1) chain) (S h1)).
    destruct (Z.ltb_spec T (nth h2 chain 0)) as [H2|H2].
    + (* h2 counts where it is: h1 is moved at most to h2 *)
      destruct r1 as [a|] eqn:E; subst r1.
      * destruct (le_lt_dec a h2) as [|Hgt]; [assumption|]. exfalso.
        destruct (first_later_spec _ _ _ _ E) as [_ Hall].
        specialize (Hall (h2 - S h1)%nat ltac:(lia)). rewrite nth_skipn in Hall.
        replace (S h1 + (h2 - S h1))%nat with h2 in Hall by lia. lia.
      * pose proof (first_later_none _ _ _ E (h2 - S h1)%nat) as Hn.
        rewrite skipn_length in Hn. specialize (Hn ltac:(lia)). rewrite nth_skipn in Hn.
        replace (S h1 + (h2 - S h1))%nat with h2 in Hn by lia. lia.
    + (* both moved: h2 searches a suffix of what h1 searches *)
      pose proof (first_later_suffix T (skipn (S h1) chain) (S h1) (h2 - h1)%nat
                    (first_later T (skipn (S h2) chain) (S h2)) r1) as Hs.
      rewrite skipn_skipn' in Hs. replace (h2 - h1 + S h1)%nat with (S h2) in Hs by lia.
      replace (S h1 + (h2 - h1))%nat with (S h2) in Hs by lia.
      exact (Hs eq_refl eq_refl).
Qed.

(** ** the loop = minimum of the adjusted heights *)

Lemma ktx_step_omin ta chain T e h : ktx_step ta chain T e h = omin e (adjust ta chain T h).
Proof.
  unfold ktx_step. destruct e as [e|].
  - destruct (Nat.leb_spec e h) as [Hle|Hgt].
    + (* skipped: the adjusted height is >= h >= e anyway *)
      destruct (adjust ta chain T h) as [j|] eqn:E; cbn [omin]; [|reflexivity].
      apply adjust_ge in E. f_equal. lia.
    + unfold adjust. destruct (negb ta || (T <? nth h chain 0)); cbn [omin].
      * f_equal. lia.
      * destruct (first_later T (skipn (S h) chain) (S h)) as [j|]; cbn [omin]; [|reflexivity].
        destruct (Nat.ltb_spec j e); f_equal; lia.
  - unfold adjust. destruct (negb ta || (T <? nth h chain 0)); cbn [omin]; [reflexivity|].
    destruct (first_later T (skipn (S h) chain) (S h)); reflexivity.
Qed.

Theorem ktx_eq_spec ta chain T hs : ktx ta chain T hs = ktx_spec ta chain T hs.
Proof.
  unfold ktx, ktx_spec. generalize (@None nat) as e. induction hs as [|h r IH]; intros e; cbn [fold_left map]; [reflexivity|].
  rewrite ktx_step_omin. apply IH.
Qed.

Lemma omin_comm a b : omin a b = omin b a.
Proof. destruct a, b; cbn; try reflexivity. f_equal. lia. Qed.
Lemma omin_assoc a b c : omin (omin a b) c = omin a (omin b c).
Proof. destruct a, b, c; cbn; try reflexivity. f_equal. lia. Qed.

Lemma fold_omin_acc l : forall e, fold_left omin l e = omin e (fold_left omin l None).
Proof.
  induction l as [|x r IH]; intros e; cbn [fold_left].
  - destruct e; reflexivity.
  - rewrite IH. rewrite (IH (omin None x)). cbn [omin]. apply omin_assoc.
Qed.

(** the result does not depend on the order in which the std::set is iterated *)
Theorem ktx_order_independent ta chain T hs hs' :
  Permutation hs hs' -> ktx ta chain T hs = ktx ta chain T hs'.
Proof.
  rewrite !ktx_eq_spec. unfold ktx_spec. intros P.
  apply (Permutation_map (adjust ta chain T)) in P. revert P.
  generalize (map (adjust ta chain T) hs) (map (adjust ta chain T) hs'). intros l l' P.
  induction P as [|x l l' P IH|x y l|l l' l'' P1 IH1 P2 IH2]; cbn [fold_left].
  - reflexivity.
  - rewrite (fold_omin_acc l), (fold_omin_acc l'), IH. reflexivity.
  - rewrite (fold_omin_acc l (omin (omin None y) x)), (fold_omin_acc l (omin (omin None x) y)).
    f_equal. cbn [omin]. apply omin_comm.
  - congruence.
Qed.

(** lower bound and attainment: [ktx] is the minimum *)
Theorem ktx_is_min ta chain T hs :
  (forall h j, In h hs -> adjust ta chain T h = Some j ->
     exists m, ktx ta chain T hs = Some m /\ (m <= j)%nat) /\
  (forall m, ktx ta chain T hs = Some m -> exists h, In h hs /\ adjust ta chain T h = Some m) /\
  (ktx ta chain T hs = None <-> forall h, In h hs -> adjust ta chain T h = None).
Proof.
  rewrite ktx_eq_spec. unfold ktx_spec.
  induction hs as [|h r IH]; cbn [map fold_left].
  - repeat split; intros; try contradiction; try discriminate.
  - rewrite fold_omin_acc. cbn [omin]. destruct IH as (L & A & N).
    set (rest := fold_left omin (map (adjust ta chain T) r) None) in *.
    repeat split.
    + intros h' j [->|Hin] Hj.
      * rewrite Hj. destruct rest as [m|]; cbn [omin]; eexists; split; try reflexivity; lia.
      * destruct (L h' j Hin Hj) as (m & Hm & Hle). rewrite Hm.
        destruct (adjust ta chain T h) as [a|]; cbn [omin]; eexists; split; try reflexivity; lia.
    + intros m Hm. destruct (adjust ta chain T h) as [a|] eqn:Ea.
      * destruct rest as [b|] eqn:Eb; cbn [omin] in Hm; inversion Hm; subst.
        -- destruct (Nat.min_spec a b) as [[_ ->]|[_ ->]].
           ++ exists h. split; [left; reflexivity|exact Ea].
           ++ destruct (A b eq_refl) as (h' & Hin & Hh'). exists h'. split; [right; exact Hin|exact Hh'].
        -- exists h. split; [left; reflexivity|exact Ea].
      * cbn [omin] in Hm. destruct (A m Hm) as (h' & Hin & Hh'). exists h'. split; [right; exact Hin|exact Hh'].
    + intros Hn h' [->|Hin].
      * destruct (adjust ta chain T h'); [destruct rest; discriminate|reflexivity].
      * apply N; [|exact Hin]. destruct (adjust ta chain T h); destruct rest; try discriminate; reflexivity.
    + intros Hall. rewrite (Hall h (or_introl eq_refl)). cbn [omin]. apply N. intros h' Hin. apply Hall. right. exact Hin.
Qed.

(** without time adjustment: the plain minimum of the block-of-proof heights *)
Corollary ktx_off chain T hs : ktx false chain T hs = fold_left omin (map Some hs) None.
Proof. rewrite ktx_eq_spec. unfold ktx_spec. f_equal. Qed.

Example ktx_example :
  (* best SP chain timestamps by height; keystone time 105; blocks of proof at heights 2, 4, 1 *)
  ktx true [100; 101; 103; 105; 104; 108; 110] 105 [2; 4; 1]%nat = Some 5%nat /\
  ktx false [100; 101; 103; 105; 104; 108; 110] 105 [2; 4; 1]%nat = Some 1%nat /\
  ktx true [100; 101; 103] 105 [2; 1]%nat = None.
Proof. repeat split; reflexivity. Qed.
