(** C++ integer semantics used by the code generated from
    src/pop/keystone_util.cpp (tools/gen_keystone.py -> Gen/KeystoneGen.v) and
    by the hand model of comparePopScoreImpl (Score/CmpDefs.v).
    Executable definitions only; no proofs in this file.

    [int]/[int32_t] values are Z in [-2^31, 2^31), [unsigned]/[uint32_t] values
    are Z in [0, 2^32).  What C++ leaves undefined is an explicit outcome:
      - signed [+ - *] whose mathematical result is not representable  -> [Ub]
      - division / remainder by zero                                    -> [Ub]
      - VBK_ASSERT / VBK_ASSERT_MSG failing (std::terminate)            -> [Abort]
    Unsigned arithmetic wraps modulo 2^32 (defined behaviour); a conversion
    to a signed type of an out-of-range value is modular (implementation-defined
    before C++20, two's complement on every supported compiler). *)
From Coq Require Import ZArith Bool.
Local Open Scope Z_scope.

Inductive res (A : Type) : Type :=
| Ok (a : A)
| Abort        (* a VBK_ASSERT failed: std::terminate *)
| Ub.          (* undefined behaviour: signed overflow, division by zero, out-of-range read *)
Arguments Ok {A} a.
Arguments Abort {A}.
Arguments Ub {A}.

Definition bind {A B} (r : res A) (f : A -> res B) : res B :=
  match r with Ok a => f a | Abort => Abort | Ub => Ub end.

Definition int32_min : Z := -2147483648.
Definition int32_max : Z := 2147483647.
Definition two32 : Z := 4294967296.

Definition in_i32 (z : Z) : bool := (int32_min <=? z) && (z <=? int32_max).

(** conversions *)
Definition to_u32 (z : Z) : Z := z mod two32.
Definition to_i32 (z : Z) : Z := (z + 2147483648) mod two32 - 2147483648.

(** signed arithmetic: undefined on overflow *)
Definition i32_chk (z : Z) : res Z := if in_i32 z then Ok z else Ub.
Definition i32_add (a b : Z) : res Z := i32_chk (a + b).
Definition i32_sub (a b : Z) : res Z := i32_chk (a - b).
Definition i32_mul (a b : Z) : res Z := i32_chk (a * b).

(** unsigned arithmetic: modulo 2^32; division by zero undefined.
    Operands are in [0, 2^32), so truncating and flooring division agree;
    [Z.quot]/[Z.rem] are the C++ operators. *)
Definition u32_add (a b : Z) : Z := to_u32 (a + b).
Definition u32_sub (a b : Z) : Z := to_u32 (a - b).
Definition u32_mul (a b : Z) : Z := to_u32 (a * b).
Definition u32_div (a b : Z) : res Z := if b =? 0 then Ub else Ok (Z.quot a b).
Definition u32_rem (a b : Z) : res Z := if b =? 0 then Ub else Ok (Z.rem a b).
