Require Extraction.
Require Import ExtrOcamlBasic.
From Coq Require Import ZArith NArith List.
From VB Require Import Pop.SmDefs Pop.SmLaterDefs.
Extraction "Pop_model.ml" Nat.pred N.succ Z.succ c_init c_connect c_setState c_compare c_applyBlock c_unapplyBlock count_ref full_ids react_seq react.
