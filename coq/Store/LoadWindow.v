(** C10 — the endorsement-recovery window of load accepts exactly the endorsements the LIVE rule accepts
    (AddEndorsement: `containing.height - endorsed.height > settlementInterval` => expired); a window
    shortened by one rejects storage written by a valid instance. *)
From Coq Require Import NArith List Bool Lia.
From VB Require Import Store.SaveLoadDefs Store.SaveLoadProofs.
Import ListNotations.
Local Open Scope N_scope.

(* the live rule for the containing endorsements of a stored block *)
Definition live_rule (si : N) (m : store) (x : N * pers) : Prop :=
  forall e, In e (p_ce (snd x)) ->
  exists eb, lookup m (snd e) = Some eb /\ p_height (snd x) - p_height (b_pers eb) <= si.

Lemma recover_check_iff_live_rule si m x :
  recover_check (window_start si) m x = true <-> live_rule si m x.
Proof.
  unfold recover_check, live_rule, window_start. rewrite forallb_forall. split.
  - intros H e He. specialize (H e He). destruct (lookup m (snd e)) as [eb|]; [|discriminate].
    exists eb. split; [reflexivity|]. apply N.leb_le in H. lia.
  - intros H e He. destruct (H e He) as (eb & -> & Hle). apply N.leb_le. lia.
Qed.

(* with the check passed, the windowed load is the load the other theorems talk about *)
Lemma load_blocks_w_sound P w l : forall m m', load_blocks_w P w l m = Some m' -> load_blocks P l m = Some m'.
Proof.
  induction l as [|x r IH]; intros m m' H; cbn [load_blocks_w load_blocks] in *; [exact H|].
  destruct (load_block P m x) as [m1|]; [|discriminate].
  destruct (recover_check w m1 x); [|discriminate].
  destruct (recover_block m1 x) as [m2|]; [|discriminate]. exact (IH m2 m' H).
Qed.

Lemma load_blocks_w_complete P w l : forall m m',
  load_blocks P l m = Some m' ->
  (forall x m1, In x l -> recover_check w m1 x = true) ->
  load_blocks_w P w l m = Some m'.
Proof.
  induction l as [|x r IH]; intros m m' H Hc; cbn [load_blocks_w load_blocks] in *; [exact H|].
  destruct (load_block P m x) as [m1|]; [|discriminate].
  rewrite (Hc x m1 (or_introl eq_refl)).
  destruct (recover_block m1 x) as [m2|]; [|discriminate].
  apply IH; [exact H|]. intros y my Hy. apply Hc. now right.
Qed.

(* an endorsement exactly at the boundary (distance = si = 6) satisfies the live rule and passes the real window,
   but the window shortened by one rejects it: loadTrees would refuse storage written by a valid instance *)
Definition boundary_store : store :=
  [(4, mkBlock (mkPers None 4 (mkStatus 4 false false false false true true false) [] [] 0) false [] false)].
Definition boundary_block : N * pers :=
  (10, mkPers (Some 9) 10 (mkStatus 4 false false false false true true false) [7] [(100, 4)] 0).

Lemma recovery_window_short_refuted :
  live_rule 6 boundary_store boundary_block /\
  recover_check (window_start 6) boundary_store boundary_block = true /\
  recover_check (window_start_short 6) boundary_store boundary_block = false.
Proof.
  split; [|split; vm_compute; reflexivity].
  apply recover_check_iff_live_rule. vm_compute. reflexivity.
Qed.
