(** C09 — VBK finalization is bounded by the lowest VBK height that references the BTC tip. *)
From Coq Require Import NArith List Bool Lia.
From VB Require Import Store.FinalizeDefs.
Import ListNotations.
Local Open Scope N_scope.

Lemma fold_min_le r : forall x, fold_left N.min r x <= x /\ forall y, In y r -> fold_left N.min r x <= y.
Proof.
  induction r as [|a r IH]; intros x; cbn [fold_left]; [split; [lia|intros ? []]|].
  destruct (IH (N.min x a)) as [H1 H2]. split; [lia|]. intros y [<-|Hy]; [lia|exact (H2 y Hy)].
Qed.

(* min_or_default is a lower bound of every element - also for a single-element container and when the
   minimum is the first element *)
Lemma min_or_default_le l d y : In y l -> min_or_default l d <= y.
Proof.
  destruct l as [|x r]; [intros []|]. cbn [min_or_default]. destruct (fold_min_le r x) as [H1 H2].
  intros [<-|Hy]; [exact H1|exact (H2 y Hy)].
Qed.

(* if the block finalizeBlocks would request is at or above the bound, nothing is finalized or deallocated *)
Lemma finalizeBlocks_respects_bound fuel t maxReorg preserve maxFinH fi :
  (height_of t (tip_of t) <? maxReorg) = false ->
  chain_at t (N.max (height_of t (root_of t)) (height_of t (tip_of t) - maxReorg)) = Some fi ->
  maxFinH <= height_of t fi ->
  finalizeBlocks fuel t maxReorg preserve maxFinH = t.
Proof.
  intros H1 H2 H3. unfold finalizeBlocks. rewrite H1, H2.
  apply N.leb_le in H3. rewrite H3. reflexivity.
Qed.

(* hence: with ANY reference of the BTC tip at or below the requested VBK block, VBK finalization does nothing *)
Lemma vbk_finalization_bounded fuel t maxReorg preserve refs fi r :
  (height_of t (tip_of t) <? maxReorg) = false ->
  chain_at t (N.max (height_of t (root_of t)) (height_of t (tip_of t) - maxReorg)) = Some fi ->
  In r refs -> r <= height_of t fi ->
  vbk_finalizeBlocks fuel t maxReorg preserve refs = t.
Proof.
  intros H1 H2 Hr Hle. unfold vbk_finalizeBlocks.
  apply (finalizeBlocks_respects_bound fuel t maxReorg preserve _ fi H1 H2).
  pose proof (min_or_default_le refs 2147483647 r Hr). lia.
Qed.

(* the `it == c.begin()` variant loses the bound for every single-element container (the bootstrap BTC tip {0}) *)
Lemma min_or_default_first_bug_refuted :
  min_or_default [0] 2147483647 = 0 /\ min_or_default_first_bug [0] 2147483647 = 2147483647 /\
  min_or_default [5; 9] 2147483647 = 5 /\ min_or_default_first_bug [5; 9] 2147483647 = 2147483647.
Proof. vm_compute. auto. Qed.
