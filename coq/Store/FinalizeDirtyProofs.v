(** C10 — finalization never deallocates an unsaved block of the active chain, whatever the set of dirty blocks
    (in particular an old saved block that became dirty again below clean blocks); the walk that stops at the first
    clean block does. *)
From Coq Require Import NArith List Bool Lia.
From VB Require Import Store.FinalizeDefs Store.FinalizeProofs Store.FinalizeTheorems Store.FinalizeOutdated
  Store.FinalizeWindow Store.FinalizeTips Store.FinalizeVariantDefs.
Import ListNotations.
Local Open Scope N_scope.

Lemma is_dirty_lookup t id b : flookup (t_blocks t) id = Some b -> is_dirty t id = f_dirty b.
Proof. intros H. unfold is_dirty. rewrite H. reflexivity. Qed.

(* the result of the walk is the start accumulator or an ancestor-or-self of the start block *)
Lemma lowest_dirty_result t : wf_tree t -> forall fuel id acc bi,
  flookup (t_blocks t) id = Some bi ->
  lowest_dirty fuel t id acc = acc \/ anc t (lowest_dirty fuel t id acc) id.
Proof.
  intros Hwf. induction fuel as [|f IH]; intros id acc bi Hb; cbn [lowest_dirty].
  - destruct (is_dirty t id); [right; exact (anc_refl t id bi Hb)|now left].
  - unfold parent_of. rewrite Hb. destruct (f_parent bi) as [p|] eqn:Ep.
    + pose proof (Hwf id bi Hb) as Hw. rewrite Ep in Hw. destruct Hw as (pb & Hpb & _).
      destruct (is_dirty t id) eqn:Ed.
      * right. destruct (IH p id pb Hpb) as [->|Ha]; [exact (anc_refl t id bi Hb)|].
        exact (anc_step t _ id bi p Hb Ep Ha).
      * destruct (IH p acc pb Hpb) as [->|Ha]; [now left|right]. exact (anc_step t _ id bi p Hb Ep Ha).
    + destruct (is_dirty t id); [right; exact (anc_refl t id bi Hb)|now left].
Qed.

(* ... and it lies at or below every dirty ancestor-or-self [c] of the start block *)
Lemma lowest_dirty_below t : wf_tree t -> forall c id, anc t c id -> is_dirty t c = true ->
  forall fuel acc, (N.to_nat (height_of t id) <= N.to_nat (height_of t c) + fuel)%nat ->
  anc t (lowest_dirty fuel t id acc) c.
Proof.
  intros Hwf c id H. induction H as [b Hb|x bx p Hx Hp Ha IH]; intros Hd fuel acc Hf.
  - (* id = c *)
    destruct fuel as [|f]; cbn [lowest_dirty]; rewrite Hd.
    + exact (anc_refl t c b Hb).
    + unfold parent_of. rewrite Hb. destruct (f_parent b) as [p|] eqn:Ep; [|exact (anc_refl t c b Hb)].
      pose proof (Hwf c b Hb) as Hw. rewrite Ep in Hw. destruct Hw as (pb & Hpb & _).
      destruct (lowest_dirty_result t Hwf f p c pb Hpb) as [->|Hr]; [exact (anc_refl t c b Hb)|].
      exact (anc_step t _ c b p Hb Ep Hr).
  - pose proof (Hwf x bx Hx) as Hw. rewrite Hp in Hw. destruct Hw as (pb & Hpb & Hh).
    pose proof (anc_height t c p Hwf Ha) as Hle.
    assert (Hhx : height_of t x = f_height bx) by (unfold height_of; rewrite Hx; reflexivity).
    assert (Hhp : height_of t p = f_height pb) by (unfold height_of; rewrite Hpb; reflexivity).
    destruct fuel as [|f]; [lia|].
    cbn [lowest_dirty]. unfold parent_of. rewrite Hx, Hp. apply IH; [exact Hd|lia].
Qed.

(* the active chain: a path, closed under parents, with the root as its lowest block *)
Definition chain_closed (t : ftree) : Prop :=
  (forall x bx p, In x (t_chain t) -> flookup (t_blocks t) x = Some bx -> f_parent bx = Some p -> In p (t_chain t)) /\
  (forall x, In x (t_chain t) -> height_of t (root_of t) <= height_of t x).

Lemma anc_on_chain t : chain_closed t -> forall a x, anc t a x -> In x (t_chain t) -> In a (t_chain t).
Proof.
  intros [Hc _] a x H. induction H as [b Hb|x bx p Hx Hp Ha IH]; intros Hin; [exact Hin|].
  apply IH. exact (Hc x bx p Hin Hx Hp).
Qed.

Lemma finalize_keeps_dirty_chain_blocks fuel t idx preserve :
  wf_tree t -> chain_is_path t -> chain_closed t ->
  (forall id b, flookup (t_blocks t) id = Some b -> (N.to_nat (f_height b) <= fuel)%nat) ->
  In idx (t_chain t) -> flookup (t_blocks t) idx <> None ->
  no_dirty_outdated_forks fuel t (lowest_dirty fuel t idx idx) (t_tips t) ->
  forall c b, In c (t_chain t) -> flookup (t_blocks t) c = Some b -> f_dirty b = true ->
  exists b', flookup (t_blocks (finalizeBlockImpl fuel t idx preserve)) c = Some b' /\
             f_dirty b' = true /\ f_pl b' = f_pl b /\ f_height b' = f_height b.
Proof.
  intros Hwf Hpath Hcl Hfuel Hidx Hidxb Hforks c b Hc Hb Hd.
  destruct (idx =? root_of t) eqn:Hroot.
  - (* finalizing the root deallocates nothing *)
    unfold finalizeBlockImpl. rewrite Hroot. destruct (is_final t idx).
    + exists b. auto.
    + cbn [t_blocks]. rewrite flookup_mark_final, Hb. cbn [option_map].
      destruct (existsb (N.eqb c) [idx]); eexists; (split; [reflexivity|cbn [f_dirty f_pl f_height]; auto]).
  - destruct (flookup (t_blocks t) idx) as [bi|] eqn:Hbi; [|congruence].
    set (fin := lowest_dirty fuel t idx idx) in *.
    pose proof (erase_tips_clean fuel t fin (t_tips t) Hforks) as He.
    (* fin is idx or an ancestor of idx, hence on the chain and not above idx *)
    assert (Hfin : (fin = idx \/ anc t fin idx)) by (apply (lowest_dirty_result t Hwf fuel idx idx bi Hbi)).
    assert (Hfa : anc t fin idx) by (destruct Hfin as [->|H]; [exact (anc_refl t idx bi Hbi)|exact H]).
    assert (Hfc : In fin (t_chain t)) by (exact (anc_on_chain t Hcl fin idx Hfa Hidx)).
    assert (Hfle : height_of t fin <= height_of t c).
    { destruct (N.le_gt_cases (height_of t c) (height_of t idx)) as [Hle|Hgt].
      - apply (anc_height t fin c Hwf).
        apply (lowest_dirty_below t Hwf c idx (Hpath c idx Hc Hidx Hle)); [rewrite (is_dirty_lookup t c b Hb); exact Hd|].
        pose proof (Hfuel idx bi Hbi) as Hf. unfold height_of at 1. rewrite Hbi. lia.
      - pose proof (anc_height t fin idx Hwf Hfa). lia. }
    destruct (chain_at t (N.max (height_of t (root_of t)) (height_of t fin - preserve))) as [newRoot|] eqn:Hnr.
    + destruct (preserved_window fuel t idx preserve Hwf Hpath Hfuel Hroot _ fin newRoot He Hfc Hnr c b Hc Hb)
        as (b' & H1 & H2 & H3 & H4 & _).
      { pose proof (proj2 Hcl c Hc). lia. }
      exists b'. rewrite H4. auto.
    + (* VBK_ASSERT(newRoot) *)
      unfold finalizeBlockImpl. rewrite Hroot. fold fin. rewrite He, Hnr. exists b. auto.
Qed.

(* the hypotheses hold for the witness tree of the refutation below, and there the dirty block 2 survives *)
Example finalize_keeps_dirty_example :
  wf_tree late_dirty_tree /\ chain_closed late_dirty_tree /\
  no_dirty_outdated_forks 30 late_dirty_tree (lowest_dirty 30 late_dirty_tree 8 8) (t_tips late_dirty_tree) /\
  lowest_dirty 30 late_dirty_tree 8 8 = 2 /\
  is_dirty (finalizeBlockImpl 30 late_dirty_tree 8 2) 2 = true /\
  t_chain (finalizeBlockImpl 30 late_dirty_tree 8 2) = [0;1;2;3;4;5;6;7;8;9;10;11;12].
Proof.
  split; [apply wf_treeb_sound; vm_compute; reflexivity|].
  split.
  - split.
    + intros x bx p Hin. cbn in Hin.
      repeat (destruct Hin as [<-|Hin]; [vm_compute; intros H1 H2; injection H1 as <-; cbn in H2; first [discriminate|injection H2 as <-; cbn; tauto]|]).
      destruct Hin.
    + intros x Hin. cbn in Hin.
      repeat (destruct Hin as [<-|Hin]; [vm_compute; discriminate|]). destruct Hin.
  - split; [|vm_compute; repeat split].
    intros tp Hin. cbn in Hin. destruct Hin as [<-|[]]. vm_compute. discriminate.
Qed.

(* stop-at-first-clean: finalizing block 8 with preserve 2 (tip 12, maxReorg 4) on the chain whose only unsaved
   block is the old block 2: the walk stops at the clean block 8, the root moves to 6 and block 2 is deallocated
   together with its unsaved change *)
Lemma finalize_stop_at_first_clean_refuted :
  is_dirty late_dirty_tree 2 = true /\ on_chain late_dirty_tree 2 = true /\
  lowest_dirty_stop 30 late_dirty_tree 8 8 = 8 /\
  flookup (t_blocks (finalizeBlockImpl_stop 30 late_dirty_tree 8 2)) 2 = None /\
  t_chain (finalizeBlockImpl_stop 30 late_dirty_tree 8 2) = [6;7;8;9;10;11;12] /\
  flookup (t_blocks (finalizeBlockImpl 30 late_dirty_tree 8 2)) 2 <> None.
Proof. vm_compute. repeat split. discriminate. Qed.
