(** C10 — the memory-only accumulated proof of work (chainWork) of the SP trees (BTC, VBK) and its recovery at
    load.  NO proofs in this file.

    Sources modelled (read from /repo):
      include/veriblock/pop/blockchain/blocktree.hpp
         onBlockInserted (live):   chainWork = getBlockProof(header); if (!isRoot()) chainWork += pprev->chainWork
         loadBlockForward (load):  "recover chainwork": the same two statements for every loaded block
      src/pop/storage/util.cpp loadTree: blocks sorted by height, loadBlockForward in that order
      bootstrapWithChain: every block of the bootstrap chain carries BLOCK_BOOTSTRAP, only the first one is the root

    chainWork is not part of the stored index: PoW fork resolution (determineBestChain) after a restart depends on
    load recomputing, for EVERY block and whatever its flags, exactly the value the running instance holds.
    Blocks are the persisted projections [pers] of Store/SaveLoadDefs.v (parent, height, status word with the
    bootstrap bit).  [proof] stands for getBlockProof(header): a function of the header, i.e. of the block id. *)
From Coq Require Import NArith List Bool.
From VB Require Import Store.SaveLoadDefs.
Import ListNotations.
Local Open Scope N_scope.

Section ChainWork.
Variable proof : N -> N.

Definition work_map := list (N * N).
Definition work_of (w : work_map) (id : N) : N := match lookup w id with Some x => x | None => 0 end.

(* one block, given the work of the blocks processed before it.  [restart_at_bootstrap = false] is the code;
   [true] is the variant that treats every BLOCK_BOOTSTRAP block like the root (no `+= pprev->chainWork`) *)
Definition add_work (restart_at_bootstrap : bool) (w : work_map) (x : N * pers) : work_map :=
  let '(id, p) := x in
  match p_parent p with
  | None => w ++ [(id, proof id)]                                   (* isRoot() *)
  | Some par =>
    if restart_at_bootstrap && s_boot (p_status p) then w ++ [(id, proof id)]
    else w ++ [(id, proof id + work_of w par)]
  end.

(* the running instance: blocks in the order they were inserted (bootstrap chain first, then as they arrived) *)
Definition live_work (inserted : list (N * pers)) : work_map := fold_left (add_work false) inserted [].

(* a restarted instance: the stored blocks in the order of loadTree's height sort *)
Definition load_work (stored : list (N * pers)) : work_map := fold_left (add_work false) (sort_by_height stored) [].
Definition load_work_restart (stored : list (N * pers)) : work_map := fold_left (add_work true) (sort_by_height stored) [].

End ChainWork.

(* a stored SP block: parent, height, bootstrap bit; valid tree, no payloads *)
Definition sp_block (parent : option N) (height : N) (boot : bool) : pers :=
  mkPers parent height (mkStatus 1 boot false false false false false false) [] [] 1.

(* bootstrapWithChain with a 2-block chain g(0) - b1(1), then a regular block b2(2) *)
Definition boot2_chain : list (N * pers) :=
  [(0, sp_block None 0 true); (1, sp_block (Some 0) 1 true); (2, sp_block (Some 1) 2 false)].
