(** C09 — transparency of window-local reads: every block that is an ancestor (or self) of a descendant of the final
    block and lies at or above the new root is retained by finalizeBlockImpl with unchanged height, payload ids,
    dirty bit and (above the new root) pprev; hence getAncestor walks that end at or above the new root, the context
    info of CheckPublicationData and the whole ATV check answer the same before and after finalization as soon as
    the read set lies inside the retained window (Store/TransparentArith.v: preserve >= settle + 2*ki). *)
From Coq Require Import ZArith NArith List Bool Lia.
From VB Require Import Score.KeystoneDefs Store.FinalizeDefs Store.FinalizeProofs Store.FinalizeTheorems
  Store.FinalizeOutdated Store.FinalizeWindow Store.TransparentDefs Store.TransparentArith.
Import ListNotations.
Local Open Scope N_scope.

(* ------------------------------------------------------------------ the ancestor relation *)
Lemma anc_exists_l t a x : anc t a x -> exists ba, flookup (t_blocks t) a = Some ba.
Proof. induction 1 as [b Hb|x bx p Hx Hp Ha IH]; [exists b; exact Hb|exact IH]. Qed.

Lemma anc_exists_r t a x : anc t a x -> exists bx, flookup (t_blocks t) x = Some bx.
Proof. destruct 1 as [b Hb|x bx p Hx Hp Ha]; [exists b; exact Hb|exists bx; exact Hx]. Qed.

Lemma anc_trans t a b c : anc t a b -> anc t b c -> anc t a c.
Proof.
  intros Hab Hbc. induction Hbc as [bb Hb|x bx p Hx Hp Hbp IH]; [exact Hab|].
  exact (anc_step t a x bx p Hx Hp IH).
Qed.

(* the ancestors of a block are linearly ordered by height *)
Lemma anc_linear t a b x : wf_tree t -> anc t a x -> anc t b x -> height_of t a <= height_of t b -> anc t a b.
Proof.
  intros Hwf Ha Hb. induction Hb as [bb Hbb|x bx p Hx Hp Hbp IH]; intros Hle; [exact Ha|].
  inversion Ha as [ba Hba Heq|x' bx' p' Hx' Hp' Hap]; subst.
  - exfalso. pose proof (anc_height t b p Hwf Hbp) as Hh.
    pose proof (Hwf x bx Hx) as Hw. rewrite Hp in Hw. destruct Hw as (pb & Hpb & Hhx).
    unfold height_of in Hle, Hh. rewrite Hx in Hle. rewrite Hpb in Hh. lia.
  - rewrite Hx in Hx'. injection Hx' as <-. rewrite Hp in Hp'. injection Hp' as <-.
    exact (IH Hap Hle).
Qed.

Lemma ancestor_at_spec t : forall fuel x h y, ancestor_at fuel t x h = Some y -> anc t y x /\ height_of t y = h.
Proof.
  induction fuel as [|f IH]; intros x h y H; cbn [ancestor_at] in H;
    destruct (flookup (t_blocks t) x) as [b|] eqn:Hx; try discriminate;
    destruct (f_height b <? h) eqn:E1; try discriminate;
    destruct (f_height b =? h) eqn:E2.
  - injection H as <-. apply N.eqb_eq in E2. split; [exact (anc_refl t x b Hx)|]. unfold height_of. rewrite Hx. exact E2.
  - discriminate.
  - injection H as <-. apply N.eqb_eq in E2. split; [exact (anc_refl t x b Hx)|]. unfold height_of. rewrite Hx. exact E2.
  - destruct (f_parent b) as [p|] eqn:Hp; [|discriminate].
    destruct (IH p h y H) as [Ha Hh]. split; [exact (anc_step t y x b p Hx Hp Ha)|exact Hh].
Qed.

(* ------------------------------------------------------------------ decidable side conditions for concrete trees *)
Definition chain_is_pathb (fuel : nat) (t : ftree) : bool :=
  forallb (fun x => forallb (fun y => implb (height_of t x <=? height_of t y) (descends fuel t y x)) (t_chain t)) (t_chain t).

Lemma chain_is_pathb_sound fuel t : chain_is_pathb fuel t = true -> chain_is_path t.
Proof.
  intros H x y Hx Hy Hle. unfold chain_is_pathb in H.
  rewrite forallb_forall in H. specialize (H x Hx). rewrite forallb_forall in H. specialize (H y Hy).
  apply N.leb_le in Hle. rewrite Hle in H. cbn [implb] in H. unfold descends in H.
  destruct (ancestor_at fuel t y (height_of t x)) as [z|] eqn:E; cbn [opt_eqb] in H; [|discriminate].
  apply N.eqb_eq in H. subst z. exact (proj1 (ancestor_at_spec t fuel y _ x E)).
Qed.

Definition root_lowest (t : ftree) : Prop := forall x, In x (t_chain t) -> height_of t (root_of t) <= height_of t x.
Definition root_lowestb (t : ftree) : bool := forallb (fun x => height_of t (root_of t) <=? height_of t x) (t_chain t).
Lemma root_lowestb_sound t : root_lowestb t = true -> root_lowest t.
Proof. intros H x Hx. unfold root_lowestb in H. rewrite forallb_forall in H. apply N.leb_le. exact (H x Hx). Qed.

Definition fuel_ok (fuel : nat) (t : ftree) : Prop :=
  forall id b, flookup (t_blocks t) id = Some b -> (N.to_nat (f_height b) <= fuel)%nat.
Definition fuel_okb (fuel : nat) (t : ftree) : bool :=
  forallb (fun kb => (N.to_nat (f_height (snd kb)) <=? fuel)%nat) (t_blocks t).
Lemma fuel_okb_sound fuel t : fuel_okb fuel t = true -> fuel_ok fuel t.
Proof.
  intros H id b Hb. unfold fuel_okb in H. rewrite forallb_forall in H.
  specialize (H (id, b) (flookup_In _ _ _ Hb)). cbn [snd] in H. apply Nat.leb_le. exact H.
Qed.

(* ------------------------------------------------------------------ one finalization step *)
Section Step.
Variables (fuel : nat) (t : ftree) (idx preserve : N) (tips' : list N) (fin newRoot : N).
Hypothesis Hwf : wf_tree t.
Hypothesis Hpath : chain_is_path t.
Hypothesis Hlow : root_lowest t.
Hypothesis Hfuel : fuel_ok fuel t.
Hypothesis Hroot : (idx =? root_of t) = false.
Hypothesis He : erase_tips fuel t (t_tips t) (lowest_dirty fuel t idx idx) = (tips', fin).
Hypothesis Hfin : In fin (t_chain t).
Hypothesis Hc : chain_at t (N.max (height_of t (root_of t)) (height_of t fin - preserve)) = Some newRoot.

Let t' := finalizeBlockImpl fuel t idx preserve.

(* [x] is (an ancestor of) a block that descends from the final block, at or above the new root *)
Definition good (x : N) : Prop :=
  exists y, anc t fin y /\ anc t x y /\ height_of t newRoot <= height_of t x.

Lemma newRoot_facts :
  In newRoot (t_chain t) /\
  height_of t newRoot = N.max (height_of t (root_of t)) (height_of t fin - preserve) /\
  anc t newRoot fin.
Proof.
  destruct (chain_at_find t _ _ _ Hc) as [Hnr Hnh]. split; [exact Hnr|]. split; [exact Hnh|].
  apply (Hpath newRoot fin Hnr Hfin). pose proof (Hlow fin Hfin). lia.
Qed.

Lemma fuel_height x b : flookup (t_blocks t) x = Some b -> (N.to_nat (height_of t x) <= fuel)%nat.
Proof. intros Hb. unfold height_of. rewrite Hb. exact (Hfuel x b Hb). Qed.

Lemma good_kept x : good x ->
  descends fuel t x newRoot = true /\ (negb (newRoot =? root_of t) && under_sibling fuel t fin x) = false.
Proof.
  intros (y & Hfy & Hxy & Hh). destruct newRoot_facts as (Hnr & Hnh & Hnf).
  destruct (anc_exists_l t x y Hxy) as [b Hb]. pose proof (fuel_height x b Hb) as Hfx.
  destruct (N.le_gt_cases (height_of t fin) (height_of t x)) as [Hge|Hlt].
  - pose proof (anc_linear t fin x y Hwf Hfy Hxy Hge) as Hfx'.
    split.
    + unfold descends. rewrite (anc_ancestor_at t newRoot x Hwf (anc_trans t _ _ _ Hnf Hfx') fuel Hfx).
      cbn [opt_eqb]. apply N.eqb_refl.
    + unfold under_sibling. rewrite (anc_ancestor_at t fin x Hwf Hfx' fuel Hfx).
      unfold sibling_of. rewrite N.eqb_refl. cbn [negb andb]. apply andb_false_r.
  - pose proof (anc_linear t x fin y Hwf Hxy Hfy ltac:(lia)) as Hxf.
    pose proof (anc_linear t newRoot x fin Hwf Hnf Hxf Hh) as Hnx.
    split.
    + unfold descends. rewrite (anc_ancestor_at t newRoot x Hwf Hnx fuel Hfx). cbn [opt_eqb]. apply N.eqb_refl.
    + unfold under_sibling.
      assert (Ha : ancestor_at fuel t x (height_of t fin) = None).
      { assert (Hlt' : (f_height b <? height_of t fin) = true).
        { apply N.ltb_lt. unfold height_of in Hlt at 1. rewrite Hb in Hlt. exact Hlt. }
        destruct fuel; cbn [ancestor_at]; rewrite Hb, Hlt'; reflexivity. }
      rewrite Ha. apply andb_false_r.
Qed.

Lemma good_lookup x b : good x -> flookup (t_blocks t) x = Some b ->
  exists b', flookup (t_blocks t') x = Some b' /\ f_height b' = f_height b /\ f_pl b' = f_pl b /\
             f_dirty b' = f_dirty b /\ (x <> newRoot -> f_parent b' = f_parent b).
Proof.
  intros Hg Hb. destruct (good_kept x Hg) as [Hd Hs].
  exact (finalize_transparent_partial fuel t idx preserve Hroot tips' fin newRoot He Hc x b Hb Hd Hs).
Qed.

Lemma good_exists x : good x -> exists b, flookup (t_blocks t) x = Some b.
Proof. intros (y & _ & Hxy & _). exact (anc_exists_l t x y Hxy). Qed.

Lemma good_parent x b p : good x -> flookup (t_blocks t) x = Some b -> f_parent b = Some p ->
  height_of t newRoot < height_of t x -> good p.
Proof.
  intros (y & Hfy & Hxy & Hh) Hb Hp Hlt.
  pose proof (Hwf x b Hb) as Hw. rewrite Hp in Hw. destruct Hw as (pb & Hpb & Hhx).
  exists y. split; [exact Hfy|]. split.
  - exact (anc_trans t p x y (anc_step t p x b p Hb Hp (anc_refl t p pb Hpb)) Hxy).
  - unfold height_of in Hlt |- * . rewrite Hb in Hlt. rewrite Hpb. lia.
Qed.

(* getAncestor(h) for h at or above the new root *)
Lemma ancestor_at_transparent : forall f x h, good x -> height_of t newRoot <= h ->
  ancestor_at f t' x h = ancestor_at f t x h.
Proof.
  induction f as [|f IH]; intros x h Hg Hh; destruct (good_exists x Hg) as [b Hb];
    destruct (good_lookup x b Hg Hb) as (b' & Hb' & Hhe & _ & _ & Hpar);
    cbn [ancestor_at]; rewrite Hb, Hb', Hhe; [reflexivity|].
  destruct (f_height b <? h) eqn:E1; [reflexivity|]. destruct (f_height b =? h) eqn:E2; [reflexivity|].
  apply N.ltb_ge in E1. apply N.eqb_neq in E2.
  assert (Hlt : height_of t newRoot < height_of t x) by (unfold height_of at 2; rewrite Hb; lia).
  assert (Hne : x <> newRoot) by (intros ->; lia).
  rewrite (Hpar Hne). destruct (f_parent b) as [p|] eqn:Hp; [|reflexivity].
  apply IH; [exact (good_parent x b p Hg Hb Hp Hlt)|exact Hh].
Qed.

Lemma ancestor_at_good f x h y : good x -> height_of t newRoot <= h -> ancestor_at f t x h = Some y -> good y.
Proof.
  intros (z & Hfz & Hxz & _) Hh H. destruct (ancestor_at_spec t f x h y H) as [Ha Hy].
  exists z. split; [exact Hfz|]. split; [exact (anc_trans t y x z Ha Hxz)|lia].
Qed.

(* createFromPrevious(prev): both keystone targets at or above the new root *)
Lemma create_from_previous_transparent ki p pb :
  good p -> flookup (t_blocks t) p = Some pb ->
  height_of t newRoot <= prevks (f_height pb + 1) ki 0 ->
  height_of t newRoot <= prevks (f_height pb + 1) ki 1 ->
  f_create_from_previous fuel t' ki (Some p) = f_create_from_previous fuel t ki (Some p).
Proof.
  intros Hg Hb H0 H1. destruct (good_lookup p pb Hg Hb) as (pb' & Hb' & Hhe & _).
  unfold f_create_from_previous. rewrite Hb, Hb', Hhe.
  rewrite (ancestor_at_transparent fuel p _ Hg H0).
  destruct (ancestor_at fuel t p (prevks (f_height pb + 1) ki 0)) as [k|] eqn:Ek; [|reflexivity].
  rewrite (ancestor_at_transparent fuel k _ (ancestor_at_good fuel p _ k Hg H0 Ek) H1). reflexivity.
Qed.

(* the ATV check: endorsed block above the new root, both keystone targets at or above it *)
Lemma check_atv_transparent ki settle c e eb ctx :
  good c -> good e -> flookup (t_blocks t) e = Some eb ->
  height_of t newRoot < f_height eb ->
  height_of t newRoot <= prevks (f_height eb) ki 0 ->
  height_of t newRoot <= prevks (f_height eb) ki 1 ->
  f_check_atv fuel t' ki settle c e ctx = f_check_atv fuel t ki settle c e ctx.
Proof.
  intros Hgc Hge Heb Hlt H0 H1.
  destruct (good_lookup e eb Hge Heb) as (eb' & Heb' & Hhe & _ & _ & Hpar).
  assert (Hhe' : height_of t e = f_height eb) by (unfold height_of; rewrite Heb; reflexivity).
  assert (Hne : e <> newRoot) by (intros ->; lia).
  destruct (good_exists c Hgc) as [cb Hcb].
  destruct (good_lookup c cb Hgc Hcb) as (cb' & Hcb' & Hhc & _).
  unfold f_check_atv. rewrite Heb, Heb', Hcb, Hcb', Hhe, Hhc, (Hpar Hne).
  rewrite (ancestor_at_transparent fuel c (f_height eb) Hgc ltac:(lia)).
  assert (Hctx : f_create_from_previous fuel t' ki (f_parent eb) = f_create_from_previous fuel t ki (f_parent eb)).
  { destruct (f_parent eb) as [p|] eqn:Hp; [|reflexivity].
    pose proof (Hwf e eb Heb) as Hw. rewrite Hp in Hw. destruct Hw as (pb & Hpb & Hh).
    apply (create_from_previous_transparent ki p pb).
    - apply (good_parent e eb p Hge Heb Hp). lia.
    - exact Hpb.
    - rewrite <- Hh. exact H0.
    - rewrite <- Hh. exact H1. }
  rewrite Hctx. reflexivity.
Qed.

(* any reader of blocks that lie strictly above the new root (pprev included) *)
Lemma reads_only_transparent {A} (R : N -> Prop) (f : ftree -> A) :
  reads_only R f -> (forall id, R id -> good id /\ height_of t newRoot < height_of t id) -> f t' = f t.
Proof.
  intros Hro HR. apply Hro. intros id Hid. destruct (HR id Hid) as [Hg Hlt].
  destruct (good_exists id Hg) as [b Hb]. destruct (good_lookup id b Hg Hb) as (b' & Hb' & H1 & H2 & H3 & H4).
  rewrite Hb, Hb'. cbn [option_map]. unfold fcore.
  assert (Hne : id <> newRoot) by (intros ->; lia).
  rewrite H1, H2, H3, (H4 Hne). reflexivity.
Qed.

End Step.

(* ------------------------------------------------------------------ from the parameter relation to the tree *)
Lemma prevks_second ki he : prevks he ki 1 = Z.to_N (atv_second_keystone (Z.of_N ki) (Z.of_N he)).
Proof. reflexivity. Qed.
Lemma prevks_first ki he : prevks he ki 0 = Z.to_N (atv_first_keystone (Z.of_N ki) (Z.of_N he)).
Proof. reflexivity. Qed.

Lemma window_bridge (strict : bool) ki settle preserve rootH hf hc he :
  0 < ki -> he <= hc -> hc - he <= settle ->
  (if strict then hf < hc else hf <= hc) ->
  settle + 2 * ki + (if strict then 0 else 1) <= preserve ->
  rootH <= prevks he ki 1 -> rootH < he ->
  N.max rootH (hf - preserve) <= prevks he ki 1 /\
  N.max rootH (hf - preserve) <= prevks he ki 0 /\
  N.max rootH (hf - preserve) < he.
Proof.
  intros Hk Hec Hs Hf Hp Hr Hre. rewrite prevks_second in *. rewrite prevks_first.
  destruct (second_keystone_bounds (Z.of_N ki) (Z.of_N he) ltac:(lia) ltac:(lia)) as (S0 & S1 & S2).
  set (s := atv_second_keystone (Z.of_N ki) (Z.of_N he)) in *. clearbody s.
  set (f := atv_first_keystone (Z.of_N ki) (Z.of_N he)) in *. clearbody f.
  destruct strict; lia.
Qed.

(* the read set of the ATV check as block ids of the never-finalizing tree: the ancestors of the containing block
   down to the second previous keystone of the endorsed block *)
Definition atv_read_ids (t : ftree) (ki c e : N) (id : N) : Prop :=
  anc t id c /\ prevks (height_of t e) ki 1 <= height_of t id.

Section Main.
Variables (fuel : nat) (t : ftree) (idx preserve : N) (tips' : list N) (fin newRoot : N).
Hypothesis Hwf : wf_tree t.
Hypothesis Hpath : chain_is_path t.
Hypothesis Hlow : root_lowest t.
Hypothesis Hfuel : fuel_ok fuel t.
Hypothesis Hroot : (idx =? root_of t) = false.
Hypothesis He : erase_tips fuel t (t_tips t) (lowest_dirty fuel t idx idx) = (tips', fin).
Hypothesis Hfin : In fin (t_chain t).
Hypothesis Hc : chain_at t (N.max (height_of t (root_of t)) (height_of t fin - preserve)) = Some newRoot.

(* the ATV check as coded answers the same on the finalized and on the never-finalized tree *)
Lemma finalize_transparent_atv_check (strict : bool) ki settle c e ctx :
  0 < ki ->
  settle + 2 * ki + (if strict then 0 else 1) <= preserve ->
  anc t fin c ->                                                     (* the containing block is not outdated *)
  (if strict then height_of t fin < height_of t c else True) ->      (* ... and is not the final block itself *)
  anc t e c -> height_of t c - height_of t e <= settle ->            (* the settlement rule *)
  height_of t (root_of t) < height_of t e ->
  height_of t (root_of t) <= prevks (height_of t e) ki 1 ->          (* the keystones exist before finalization *)
  f_check_atv fuel (finalizeBlockImpl fuel t idx preserve) ki settle c e ctx = f_check_atv fuel t ki settle c e ctx.
Proof.
  intros Hk Hp Hfc Hst Hec Hs Hre Hrk.
  destruct (newRoot_facts t preserve fin newRoot Hpath Hlow Hfin Hc) as (Hnr & Hnh & Hnf).
  destruct (anc_exists_l t e c Hec) as [eb Heb].
  assert (Hhe : height_of t e = f_height eb) by (unfold height_of; rewrite Heb; reflexivity).
  pose proof (anc_height t e c Hwf Hec) as Hle. pose proof (anc_height t fin c Hwf Hfc) as Hfle.
  destruct (window_bridge strict ki settle preserve (height_of t (root_of t)) (height_of t fin) (height_of t c) (height_of t e))
    as (B1 & B0 & B2); try assumption.
  { destruct strict; assumption. }
  rewrite <- Hnh in B1, B0, B2.
  destruct (anc_exists_r t e c Hec) as [cb Hcb].
  apply (check_atv_transparent fuel t idx preserve tips' fin newRoot Hwf Hpath Hlow Hfuel Hroot He Hfin Hc ki settle c e eb ctx).
  - exists c. split; [exact Hfc|]. split; [exact (anc_refl t c cb Hcb)|lia].
  - exists c. split; [exact Hfc|]. split; [exact Hec|lia].
  - exact Heb.
  - rewrite <- Hhe. exact B2.
  - rewrite <- Hhe. exact B0.
  - rewrite <- Hhe. exact B1.
Qed.

(* ... and so does ANY function that looks at the tree only through the read set (height, pprev, dirty bit and
   payload ids of its blocks) - one more preserved block because such a reader may follow the pprev of the lowest
   block, which finalization cuts at the new root *)
Lemma finalize_transparent_reads {A} (f : ftree -> A) (strict : bool) ki settle c e :
  0 < ki ->
  settle + 2 * ki + (if strict then 1 else 2) <= preserve ->
  anc t fin c ->
  (if strict then height_of t fin < height_of t c else True) ->
  anc t e c -> height_of t c - height_of t e <= settle ->
  height_of t (root_of t) < prevks (height_of t e) ki 1 ->
  reads_only (atv_read_ids t ki c e) f ->
  f (finalizeBlockImpl fuel t idx preserve) = f t.
Proof.
  intros Hk Hp Hfc Hst Hec Hs Hrk Hro.
  destruct (newRoot_facts t preserve fin newRoot Hpath Hlow Hfin Hc) as (Hnr & Hnh & Hnf).
  pose proof (anc_height t e c Hwf Hec) as Hle. pose proof (anc_height t fin c Hwf Hfc) as Hfle.
  assert (Hlt : height_of t newRoot < prevks (height_of t e) ki 1).
  { rewrite Hnh. rewrite prevks_second in *.
    destruct (second_keystone_bounds (Z.of_N ki) (Z.of_N (height_of t e)) ltac:(lia) ltac:(lia)) as (S0 & S1 & _).
    set (s := atv_second_keystone (Z.of_N ki) (Z.of_N (height_of t e))) in *. clearbody s.
    destruct strict; lia. }
  apply (reads_only_transparent fuel t idx preserve tips' fin newRoot Hwf Hpath Hlow Hfuel Hroot He Hfin Hc (atv_read_ids t ki c e) f Hro).
  intros id [Ha Hh]. split; [|lia].
  exists c. split; [exact Hfc|]. split; [exact Ha|lia].
Qed.

End Main.
