(** C10 — reload equivalence, load half: loading the full dump of a well-formed state ([wf], ReloadEquiv) succeeds
    (no failure branch of load / load_blocks / load_block / recover_block is taken) and yields a state that is
    [equiv] to the dumped one, all of whose blocks are clean and not BLOCK_DELETED.

    Structure:
      - [load_blocks_matches]: loadBlockForward + recoverEndorsements over a parent-before-child list ([topo_ok]) build,
        for every listed block, exactly [bspec p (incoming l k)]: the stored projection, clean, finalized iff it has no
        parent, endorsedBy = the endorsement ids of the containing endorsements that point to it, in list order;
      - [activate_noop]: loadTip changes nothing when every ACTIVE block is fully valid and has an ACTIVE parent;
      - the live part of the full dump of a [wf] state is a [consistent_list], so its height sort is [topo_ok];
      - [inc] (ReloadEquiv) of the live map is [incoming] of the live stored list, up to the order of the list. *)
From Coq Require Import NArith List Bool Lia Permutation.
From VB Require Import Store.SaveLoadDefs Store.SaveLoadProofs Store.SaveLoadTheorems Store.LoadProofs Store.LoadSort Store.ReloadEquiv.
Import ListNotations.
Local Open Scope N_scope.

(* ------------------------------------------------------------------ association lists *)
Lemma sorted_NoDup {A} (l : list (N * A)) : sorted l -> NoDup (map fst l).
Proof.
  induction l as [|[k v] r IH]; intros Hs; cbn [map fst]; [constructor|].
  cbn [sorted] in Hs. destruct Hs as [Hh Hr]. constructor; [|exact (IH Hr)].
  apply lookup_None_notin. apply sorted_lookup_lt; [exact Hr|].
  destruct r as [|[k1 v1] r']; [exact I|exact Hh].
Qed.

Lemma NoDup_keys_filter {A} (f : N * A -> bool) (l : list (N * A)) :
  NoDup (map fst l) -> NoDup (map fst (filter f l)).
Proof.
  induction l as [|x r IH]; intros H; cbn [filter map]; [constructor|].
  cbn [map] in H. inversion H as [|? ? Hn Hr]; subst.
  destruct (f x); [|exact (IH Hr)]. cbn [map]. constructor; [|exact (IH Hr)].
  intros Hin. apply Hn. apply in_map_iff in Hin. destruct Hin as (y & Hy & Hin).
  apply in_map_iff. exists y. split; [exact Hy|]. apply filter_In in Hin. exact (proj1 Hin).
Qed.

Lemma lookup_In_pair {A} (m : list (N * A)) k v : lookup m k = Some v -> In (k, v) m.
Proof.
  induction m as [|[k' v'] r IH]; cbn [lookup]; [discriminate|].
  destruct (k' =? k) eqn:E; [|intros H; right; exact (IH H)].
  apply N.eqb_eq in E. subst k'. intros H. injection H as ->. now left.
Qed.

Lemma lookup_perm_keys {A} (l1 l2 : list (N * A)) : NoDup (map fst l1) -> Permutation l1 l2 ->
  forall k, lookup l1 k = lookup l2 k.
Proof.
  intros Hnd HP k.
  assert (Hnd2 : NoDup (map fst l2)).
  { apply (Permutation_NoDup (l := map fst l1)); [apply Permutation_map; exact HP|exact Hnd]. }
  destruct (lookup l1 k) as [v|] eqn:E1.
  - symmetry. apply (In_lookup l2 k v Hnd2). apply (Permutation_in _ HP). apply lookup_In_pair. exact E1.
  - destruct (lookup l2 k) as [v|] eqn:E2; [|reflexivity].
    apply lookup_In_pair in E2. apply (Permutation_in _ (Permutation_sym HP)) in E2.
    rewrite (In_lookup l1 k v Hnd E2) in E1. discriminate.
Qed.

Lemma upd_id m k f : (forall b, lookup m k = Some b -> f b = b) -> upd m k f = m.
Proof.
  induction m as [|[k' v] r IH]; intros H; cbn [upd]; [reflexivity|].
  cbn [lookup] in H. destruct (k' =? k) eqn:E.
  - rewrite (H v eq_refl). reflexivity.
  - rewrite (IH H). reflexivity.
Qed.

(* ------------------------------------------------------------------ what load builds *)
Definition fin_of (p : pers) : bool := match p_parent p with None => true | Some _ => false end.
(* the reloaded index of a stored projection [p] whose recovered endorsedBy list is [l] *)
Definition bspec (p : pers) (l : list N) : block := mkBlock p false l (fin_of p).

(* the endorsement ids, in list order, of the containing endorsements of [acc] that point to [k] *)
Definition incoming (acc : list (N * pers)) (k : N) : list N :=
  flat_map (fun x => map fst (filter (fun e => snd e =? k) (p_ce (snd x)))) acc.

Definition matches (m : store) (acc : list (N * pers)) : Prop :=
  forall k, lookup m k = match lookup acc k with Some p => Some (bspec p (incoming acc k)) | None => None end.

(* every containing endorsement of the list points into the list *)
Definition closed (acc : list (N * pers)) : Prop :=
  forall x e, In x acc -> In e (p_ce (snd x)) -> lookup acc (snd e) <> None.

Lemma incoming_app a1 a2 k : incoming (a1 ++ a2) k = incoming a1 k ++ incoming a2 k.
Proof. unfold incoming. apply flat_map_app. Qed.

Lemma incoming_one id p k : incoming [(id, p)] k = map fst (filter (fun e => snd e =? k) (p_ce p)).
Proof. unfold incoming. cbn [flat_map snd]. apply app_nil_r. Qed.

Lemma incoming_nil acc k :
  (forall x e, In x acc -> In e (p_ce (snd x)) -> snd e <> k) -> incoming acc k = [].
Proof.
  unfold incoming. induction acc as [|x r IH]; intros H; cbn [flat_map]; [reflexivity|].
  rewrite IH; [|intros y e Hy; apply H; now right]. rewrite app_nil_r.
  apply filter_snd_nil. intros e He. exact (H x e (or_introl eq_refl) He).
Qed.

Lemma raise1_block p f : lvl_ok p = true ->
  unsetDirty (raiseValidity 1 (mkBlock p true [] f)) = mkBlock p false [] f.
Proof.
  unfold lvl_ok, raiseValidity, bstatus. cbn [b_pers]. intros H.
  destruct (s_fpop (p_status p)); [reflexivity|]. cbn [orb] in H.
  apply N.leb_le in H. destruct (s_level (p_status p) <? 1) eqn:E; [apply N.ltb_lt in E; lia|reflexivity].
Qed.

Lemma load_block_matches m acc id p :
  matches m acc -> lookup acc id = None -> lvl_ok p = true ->
  match p_parent p with
  | None => True
  | Some par => exists pp, lookup acc par = Some pp /\ p_height p = p_height pp + 1
  end ->
  load_block prims_fixed m (id, p) = Some (m ++ [(id, bspec p [])]) /\ lookup m id = None.
Proof.
  intros Hm Hn Hl Hp.
  assert (Hmid : lookup m id = None) by (rewrite (Hm id), Hn; reflexivity).
  split; [|exact Hmid].
  unfold load_block, bspec, fin_of. cbn [p_raise prims_fixed]. destruct (p_parent p) as [par|].
  - destruct Hp as (pp & Hpp & Hh). rewrite (Hm par), Hpp. unfold bspec. cbn [b_pers].
    rewrite Hh, N.eqb_refl. cbn [negb]. rewrite (raise1_block p false Hl). reflexivity.
  - rewrite Hmid, (raise1_block p true Hl). reflexivity.
Qed.

Definition add_many (k : N) (ces : list endorsement) (b : block) : block :=
  mkBlock (b_pers b) (b_dirty b) (b_by b ++ map fst (filter (fun e => snd e =? k) ces)) (b_final b).

(* recoverEndorsements of one block: every endorsed block gets the endorsement ids appended in order *)
Lemma recover_fold_by (ces : list endorsement) : forall m,
  (forall e, In e ces -> lookup m (snd e) <> None) ->
  exists m', fold_left (fun acc e => match acc with
                                     | None => None
                                     | Some m => match lookup m (snd e) with
                                                 | None => None
                                                 | Some eb => Some (upd m (snd e) (fun b => mkBlock (b_pers b) (b_dirty b) (b_by b ++ [fst e]) (b_final b)))
                                                 end
                                     end) ces (Some m) = Some m' /\
             forall k, lookup m' k = option_map (add_many k ces) (lookup m k).
Proof.
  induction ces as [|e r IH]; intros m H; cbn [fold_left].
  - exists m. split; [reflexivity|]. intros k. destruct (lookup m k) as [b|]; cbn [option_map]; [|reflexivity].
    unfold add_many. cbn [filter map]. rewrite app_nil_r. destruct b; reflexivity.
  - pose proof (H e (or_introl eq_refl)) as He.
    destruct (lookup m (snd e)) as [eb|] eqn:Ee; [|congruence].
    set (m1 := upd m (snd e) _).
    assert (H1 : forall k, lookup m1 k = option_map (fun b => if snd e =? k then add_by (fst e) b else b) (lookup m k)).
    { intros k. unfold m1. apply lookup_upd. }
    destruct (IH m1) as (m' & Hf & Hk).
    { intros e' He'. rewrite H1. specialize (H e' (or_intror He')).
      destruct (lookup m (snd e')); [discriminate|congruence]. }
    exists m'. split; [exact Hf|]. intros k. rewrite Hk, H1.
    destruct (lookup m k) as [b|]; cbn [option_map]; [|reflexivity].
    unfold add_many. cbn [filter]. destruct (snd e =? k); cbn [map]; [|reflexivity].
    unfold add_by. cbn [b_pers b_dirty b_by b_final]. rewrite <- app_assoc. reflexivity.
Qed.

Lemma recover_block_by m x :
  (forall e, In e (p_ce (snd x)) -> lookup m (snd e) <> None) ->
  exists m', recover_block m x = Some m' /\ forall k, lookup m' k = option_map (add_many k (p_ce (snd x))) (lookup m k).
Proof. intros H. exact (recover_fold_by (p_ce (snd x)) m H). Qed.

(* loadBlockForward + recoverEndorsements over a parent-before-child list: persisted fields, dirty bit,
   finalized mark and endorsedBy of the result *)
Lemma load_blocks_matches l : forall m acc,
  matches m acc -> closed acc -> topo_ok acc l ->
  exists m', load_blocks prims_fixed l m = Some m' /\ matches m' (acc ++ l).
Proof.
  induction l as [|[id p] r IH]; intros m acc Hm Hc Ht; cbn [load_blocks].
  - exists m. split; [reflexivity|]. rewrite app_nil_r. exact Hm.
  - cbn [topo_ok] in Ht. destruct Ht as (Hn & Hl & Hp & Hce & Hr).
    destruct (load_block_matches m acc id p Hm Hn Hl Hp) as [Hlb Hmid]. rewrite Hlb.
    set (m1 := m ++ [(id, bspec p [])]).
    assert (Hm1 : forall k, lookup m1 k = if id =? k then Some (bspec p []) else lookup m k).
    { intros k. apply lookup_app_new. exact Hmid. }
    assert (Ha1 : forall k, lookup (acc ++ [(id, p)]) k = if id =? k then Some p else lookup acc k).
    { intros k. apply lookup_app_new. exact Hn. }
    destruct (recover_block_by m1 (id, p)) as (m2 & Hf & Hk2).
    { cbn [snd]. intros e He. specialize (Hce e He). rewrite Ha1 in Hce. rewrite Hm1. destruct (id =? snd e); [discriminate|].
      rewrite (Hm (snd e)). destruct (lookup acc (snd e)); [discriminate|congruence]. }
    cbn [snd] in Hk2. rewrite Hf.
    destruct (IH m2 (acc ++ [(id, p)])) as (m' & Hlb' & Hk').
    { intros k. rewrite Hk2, Hm1, Ha1, incoming_app, incoming_one.
      destruct (id =? k) eqn:E.
      - apply N.eqb_eq in E. subst k. cbn [option_map].
        rewrite (incoming_nil acc id).
        + reflexivity.
        + intros x e Hx He Heq. apply (Hc x e Hx He). rewrite Heq. exact Hn.
      - rewrite (Hm k). destruct (lookup acc k) as [q|]; cbn [option_map]; reflexivity. }
    { intros x e Hx He. apply in_app_or in Hx. destruct Hx as [Hx|[<-|[]]].
      - pose proof (Hc x e Hx He) as H. destruct (lookup acc (snd e)) as [q|] eqn:Eq; [|congruence].
        rewrite (lookup_app_l acc _ (snd e) q Eq). discriminate.
      - cbn [snd] in He. exact (Hce e He). }
    { exact Hr. }
    exists m'. split; [exact Hlb'|]. rewrite <- app_assoc in Hk'. exact Hk'.
Qed.

(* ------------------------------------------------------------------ loadTip *)
Definition act_closed (m : store) : Prop :=
  forall k b, lookup m k = Some b -> s_active (bstatus b) = true ->
    4 <= s_level (bstatus b) /\
    forall par pb, p_parent (b_pers b) = Some par -> lookup m par = Some pb -> s_active (bstatus pb) = true.

Lemma activate_noop fuel : forall m t,
  act_closed m -> (forall b, lookup m t = Some b -> s_active (bstatus b) = true) ->
  activate_chain prims_fixed fuel m t = m.
Proof.
  induction fuel as [|f IH]; intros m t Hc Ht; cbn [activate_chain]; [reflexivity|].
  destruct (lookup m t) as [b|] eqn:E; [|reflexivity].
  cbn [p_raise prims_fixed].
  assert (Hu : upd m t (fun b0 => raiseValidity 4 (setFlag FActive b0)) = m).
  { apply upd_id. intros b0 Hb0. rewrite E in Hb0. injection Hb0 as <-.
    pose proof (Ht b eq_refl) as Ha. destruct (Hc t b E Ha) as [H4 _].
    apply activate_keeps; [exact Ha|]. apply orb_true_iff. right. apply N.leb_le. exact H4. }
  rewrite Hu. destruct (p_parent (b_pers b)) as [par|] eqn:Ep; [|reflexivity].
  apply IH; [exact Hc|]. intros pb Hpb. destruct (Hc t b E (Ht b eq_refl)) as [_ Hp]. exact (Hp par pb Ep Hpb).
Qed.

(* ------------------------------------------------------------------ the full dump of a well-formed state *)
Definition livef (x : N * pers) : bool := negb (s_deleted (p_status (snd x))).
Definition dumpD (s : state) : list (N * pers) := st_blocks (full_dump s).
Definition dumpL (s : state) : list (N * pers) := filter livef (dumpD s).
Definition dumpS (s : state) : list (N * pers) := sort_by_height (dumpL s).
Definition proj (kb : N * block) : N * pers := (fst kb, b_pers (snd kb)).

Lemma load_unfold s :
  load prims_fixed (full_dump s) =
    match load_blocks prims_fixed (dumpS s) [] with
    | None => LoadFail 1
    | Some m => match lookup m (tip s) with
                | None => LoadFail 3
                | Some _ => Loaded (mkState (activate_chain prims_fixed (length m) m (tip s)) (tip s))
                end
    end.
Proof. reflexivity. Qed.

Lemma keys_proj (m : store) : map fst (map proj m) = map fst m.
Proof. rewrite map_map. apply map_ext. intros [k b]. reflexivity. Qed.

Lemma inc_incoming m k : inc m k = incoming (filter livef (map proj m)) k.
Proof.
  unfold inc, incoming. induction m as [|[k0 v] r IH]; cbn [map filter flat_map]; [reflexivity|].
  unfold contrib at 1. unfold livef at 1, proj at 1. cbn [fst snd].
  change (s_deleted (p_status (b_pers v))) with (deleted v).
  destruct (deleted v); cbn [negb flat_map snd]; rewrite IH; reflexivity.
Qed.

Section WF.
Variable s : state.
Hypothesis Hwf : wf s.

Lemma dumpD_lookup id : lookup (dumpD s) id = option_map b_pers (lookup (blocks s) id).
Proof.
  unfold dumpD, full_dump. cbn [st_blocks]. rewrite full_dump_lookup by exact (wf_nodup _ Hwf).
  destruct (lookup (blocks s) id); reflexivity.
Qed.

Lemma dumpD_nodup : NoDup (map fst (dumpD s)).
Proof. apply sorted_NoDup. unfold dumpD, full_dump. cbn [st_blocks]. apply full_dump_sorted. exact I. Qed.

Lemma dumpL_nodup : NoDup (map fst (dumpL s)).
Proof. apply NoDup_keys_filter. exact dumpD_nodup. Qed.

Lemma dumpL_In id p :
  In (id, p) (dumpL s) <-> exists b, lookup (blocks s) id = Some b /\ b_pers b = p /\ deleted b = false.
Proof.
  unfold dumpL. split.
  - intros H. apply filter_In in H. destruct H as [Hin Hf].
    apply (In_lookup _ _ _ dumpD_nodup) in Hin. rewrite dumpD_lookup in Hin.
    destruct (lookup (blocks s) id) as [b|]; [|discriminate]. cbn [option_map] in Hin. injection Hin as Hp.
    exists b. split; [reflexivity|]. split; [exact Hp|]. unfold livef in Hf. cbn [snd] in Hf. subst p.
    unfold deleted, bstatus. destruct (s_deleted (p_status (b_pers b))); [discriminate|reflexivity].
  - intros (b & Hl & Hp & Hd). apply filter_In. split.
    + apply lookup_In_pair. rewrite dumpD_lookup, Hl. cbn [option_map]. rewrite Hp. reflexivity.
    + unfold livef. cbn [snd]. subst p. unfold deleted, bstatus in Hd. rewrite Hd. reflexivity.
Qed.

Lemma dumpL_lookup k :
  lookup (dumpL s) k =
    match lookup (blocks s) k with Some b => if deleted b then None else Some (b_pers b) | None => None end.
Proof.
  destruct (lookup (dumpL s) k) as [p|] eqn:E.
  - apply lookup_In_pair in E. apply dumpL_In in E. destruct E as (b & Hl & Hp & Hd). rewrite Hl, Hd, Hp. reflexivity.
  - destruct (lookup (blocks s) k) as [b|] eqn:Hl; [|reflexivity]. destruct (deleted b) eqn:Hd; [reflexivity|].
    exfalso. assert (Hin : In (k, b_pers b) (dumpL s)) by (apply dumpL_In; exists b; auto).
    rewrite (In_lookup _ _ _ dumpL_nodup Hin) in E. discriminate.
Qed.

Lemma dumpL_consistent : consistent_list (dumpL s).
Proof.
  split; [exact dumpL_nodup|]. intros id p Hin. apply dumpL_In in Hin. destruct Hin as (b & Hl & Hp & Hd). subst p.
  destruct (wf_local _ Hwf id b Hl) as (_ & _ & Hlev & _). destruct (Hlev Hd) as [H1 _].
  split.
  { unfold lvl_ok. apply orb_true_iff. right. apply N.leb_le. exact H1. }
  split.
  { destruct (p_parent (b_pers b)) as [par|] eqn:Ep; [|exact I].
    destruct (wf_parent _ Hwf id b par Hl Ep) as (pb & Hpb & Hh & Hdd). destruct (Hdd Hd) as [Hpd _].
    exists (b_pers pb). split; [|exact Hh]. apply dumpL_In. exists pb. auto. }
  intros e He. right.
  destruct (wf_ce _ Hwf id b e (proj2 (vis_Some _ _ _) (conj Hl Hd)) He) as (eb & Hv & Hlt).
  apply vis_Some in Hv. destruct Hv as [Hle Hde]. exists (b_pers eb). split; [|exact Hlt].
  apply dumpL_In. exists eb. auto.
Qed.

Lemma dumpS_lookup k : lookup (dumpS s) k = lookup (dumpL s) k.
Proof. symmetry. apply lookup_perm_keys; [exact dumpL_nodup|apply Permutation_sym; apply sort_perm]. Qed.

Lemma dumpS_topo : topo_ok [] (dumpS s).
Proof. apply sort_is_topological. exact dumpL_consistent. Qed.

Lemma liveV_perm : Permutation (filter livef (map proj (blocks s))) (dumpL s).
Proof.
  apply NoDup_Permutation.
  - apply (NoDup_map_inv fst). apply NoDup_keys_filter. rewrite keys_proj. exact (wf_nodup _ Hwf).
  - apply (NoDup_map_inv fst). exact dumpL_nodup.
  - intros [id p]. split.
    + intros H. apply dumpL_In. apply filter_In in H. destruct H as [Hin Hf].
      apply in_map_iff in Hin. destruct Hin as ([k b] & Heq & Hin).
      unfold proj in Heq. cbn [fst snd] in Heq. injection Heq as -> <-.
      exists b. split; [apply In_lookup; [exact (wf_nodup _ Hwf)|exact Hin]|]. split; [reflexivity|].
      unfold livef in Hf. cbn [snd] in Hf. unfold deleted, bstatus.
      destruct (s_deleted (p_status (b_pers b))); [discriminate|reflexivity].
    + intros H. apply dumpL_In in H. destruct H as (b & Hl & Hp & Hd). apply filter_In. split.
      * apply in_map_iff. exists (id, b). split; [unfold proj; cbn [fst snd]; rewrite Hp; reflexivity|].
        apply lookup_In_pair. exact Hl.
      * unfold livef. cbn [snd]. subst p. unfold deleted, bstatus in Hd. rewrite Hd. reflexivity.
Qed.

(* the live endorsedBy list is the recovered one, up to order *)
Lemma by_perm id b : lookup (blocks s) id = Some b -> deleted b = false ->
  Permutation (b_by b) (incoming (dumpS s) id).
Proof.
  intros Hl Hd. apply (Permutation_trans (wf_by _ Hwf id b (proj2 (vis_Some _ _ _) (conj Hl Hd)))).
  rewrite inc_incoming. unfold incoming. apply Permutation_flat_map.
  apply (Permutation_trans liveV_perm). apply Permutation_sym. apply sort_perm.
Qed.

Section Loaded.
Variable m' : store.
Hypothesis Hmm : matches m' (dumpS s).

Lemma loaded_lookup k :
  lookup m' k =
    match lookup (blocks s) k with
    | Some b => if deleted b then None else Some (bspec (b_pers b) (incoming (dumpS s) k))
    | None => None
    end.
Proof.
  rewrite (Hmm k), dumpS_lookup, dumpL_lookup. destruct (lookup (blocks s) k) as [b|]; [|reflexivity].
  destruct (deleted b); reflexivity.
Qed.

Lemma loaded_act_closed : act_closed m'.
Proof.
  intros k b' Hl Ha. rewrite loaded_lookup in Hl.
  destruct (lookup (blocks s) k) as [b|] eqn:Hb; [|discriminate]. destruct (deleted b) eqn:Hd; [discriminate|].
  injection Hl as <-. change (s_active (bstatus b) = true) in Ha.
  destruct (wf_local _ Hwf k b Hb) as (_ & _ & Hlev & _). destruct (Hlev Hd) as [_ H4].
  split; [exact (H4 Ha)|]. intros par pb Hp Hpb. change (p_parent (b_pers b) = Some par) in Hp.
  destruct (wf_parent _ Hwf k b par Hb Hp) as (pb0 & Hpb0 & _ & Hdd). destruct (Hdd Hd) as [Hpd Hact].
  rewrite loaded_lookup, Hpb0, Hpd in Hpb. injection Hpb as <-. exact (Hact Ha).
Qed.

End Loaded.
End WF.

(* ------------------------------------------------------------------ main lemma *)
Lemma load_of_wf s : wf s ->
  exists s', load prims_fixed (full_dump s) = Loaded s' /\ equiv s s' /\
             (forall id b, lookup (blocks s') id = Some b -> b_dirty b = false /\ deleted b = false).
Proof.
  intros Hwf.
  destruct (load_blocks_matches (dumpS s) [] []) as (m' & Hlb & Hmm).
  { intros k. reflexivity. }
  { intros x e []. }
  { apply dumpS_topo. exact Hwf. }
  cbn [app] in Hmm.
  pose proof (loaded_lookup s Hwf m' Hmm) as HL.
  exists (mkState m' (tip s)).
  destruct (wf_tip _ Hwf) as (bt & Hvt & Hat). apply vis_Some in Hvt. destruct Hvt as [Hlt Hdt].
  split.
  { rewrite load_unfold, Hlb, (HL (tip s)), Hlt, Hdt.
    rewrite activate_noop; [reflexivity|exact (loaded_act_closed s Hwf m' Hmm)|].
    intros b Hb. rewrite (HL (tip s)), Hlt, Hdt in Hb. injection Hb as <-. exact Hat. }
  split.
  { split; [reflexivity|]. cbn [blocks]. split.
    - intros id b' Hb'. rewrite (HL id) in Hb'.
      destruct (lookup (blocks s) id) as [b|] eqn:Hb; [|discriminate].
      destruct (deleted b) eqn:Hd; [discriminate|]. injection Hb' as <-.
      exists b. split; [reflexivity|]. split; [reflexivity|]. split.
      + cbn [bspec b_final]. destruct (wf_local _ Hwf id b Hb) as (Hfin & _). exact Hfin.
      + cbn [bspec b_by]. exact (by_perm s Hwf id b Hb Hd).
    - intros id b Hv. apply vis_Some in Hv. destruct Hv as [Hl Hd]. rewrite (HL id), Hl, Hd. discriminate. }
  cbn [blocks]. intros id b' Hb'. rewrite (HL id) in Hb'.
  destruct (lookup (blocks s) id) as [b|] eqn:Hb; [|discriminate].
  destruct (deleted b) eqn:Hd; [discriminate|]. injection Hb' as <-.
  split; [reflexivity|exact Hd].
Qed.
