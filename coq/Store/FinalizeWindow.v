(** C09 — preserved window: finalizeBlockImpl retains every block of the active chain at or above the new root
    (= max(old root, final - preserve)), i.e. the final block, the `preserve` blocks below it and the whole chain
    above it, with unchanged height, payload ids, dirty bit and (except for the new root) parent. *)
From Coq Require Import NArith List Bool Lia.
From VB Require Import Store.FinalizeDefs Store.FinalizeProofs Store.FinalizeTheorems Store.FinalizeOutdated.
Import ListNotations.
Local Open Scope N_scope.

(* a is b or an ancestor of b along parent links *)
Inductive anc (t : ftree) (a : N) : N -> Prop :=
| anc_refl b : flookup (t_blocks t) a = Some b -> anc t a a
| anc_step x bx p : flookup (t_blocks t) x = Some bx -> f_parent bx = Some p -> anc t a p -> anc t a x.

Lemma anc_height t a x : wf_tree t -> anc t a x -> height_of t a <= height_of t x.
Proof.
  intros Hwf H. induction H as [b Hb|x bx p Hx Hp Ha IH]; [lia|].
  pose proof (Hwf x bx Hx) as Hw. rewrite Hp in Hw. destruct Hw as (pb & Hpb & Hh).
  unfold height_of in *. rewrite Hx. rewrite Hpb in IH. lia.
Qed.

Lemma anc_ancestor_at t a x : wf_tree t -> anc t a x ->
  forall fuel, (N.to_nat (height_of t x) <= fuel)%nat -> ancestor_at fuel t x (height_of t a) = Some a.
Proof.
  intros Hwf H. induction H as [b Hb|x bx p Hx Hp Ha IH]; intros fuel Hf.
  - apply (ancestor_at_self fuel t a b Hb).
  - pose proof (Hwf x bx Hx) as Hw. rewrite Hp in Hw. destruct Hw as (pb & Hpb & Hh).
    pose proof (anc_height t a p Hwf Ha) as Hle.
    assert (Hhx : height_of t x = f_height bx) by (unfold height_of; rewrite Hx; reflexivity).
    assert (Hhp : height_of t p = f_height pb) by (unfold height_of; rewrite Hpb; reflexivity).
    destruct fuel as [|f]; [rewrite Hhx in Hf; lia|].
    cbn [ancestor_at]. rewrite Hx.
    assert (E1 : (f_height bx <? height_of t a) = false) by (apply N.ltb_ge; lia).
    assert (E2 : (f_height bx =? height_of t a) = false) by (apply N.eqb_neq; lia).
    rewrite E1, E2, Hp. apply IH. rewrite Hhp. rewrite Hhx in Hf. lia.
Qed.

(* the active chain is a path: of two chain blocks the lower one is an ancestor of the higher one *)
Definition chain_is_path (t : ftree) : Prop :=
  forall x y, In x (t_chain t) -> In y (t_chain t) -> height_of t x <= height_of t y -> anc t x y.

Lemma preserved_window fuel t idx preserve :
  wf_tree t -> chain_is_path t ->
  (forall id b, flookup (t_blocks t) id = Some b -> (N.to_nat (f_height b) <= fuel)%nat) ->
  (idx =? root_of t) = false ->
  forall tips' fin newRoot,
  erase_tips fuel t (t_tips t) (lowest_dirty fuel t idx idx) = (tips', fin) ->
  In fin (t_chain t) ->
  chain_at t (N.max (height_of t (root_of t)) (height_of t fin - preserve)) = Some newRoot ->
  forall c b,
  In c (t_chain t) -> flookup (t_blocks t) c = Some b ->
  N.max (height_of t (root_of t)) (height_of t fin - preserve) <= height_of t c ->
  exists b', flookup (t_blocks (finalizeBlockImpl fuel t idx preserve)) c = Some b' /\
             f_height b' = f_height b /\ f_pl b' = f_pl b /\ f_dirty b' = f_dirty b /\
             (c <> newRoot -> f_parent b' = f_parent b) /\
             In c (t_chain (finalizeBlockImpl fuel t idx preserve)).
Proof.
  intros Hwf Hpath Hfuel Hroot tips' fin newRoot He Hfin Hc c b Hcin Hb Hle.
  destruct (chain_at_find t _ _ _ Hc) as [Hnr Hnh].
  assert (Hfc : (N.to_nat (height_of t c) <= fuel)%nat).
  { unfold height_of. rewrite Hb. exact (Hfuel c b Hb). }
  assert (Hd : descends fuel t c newRoot = true).
  { unfold descends. rewrite (anc_ancestor_at t newRoot c Hwf (Hpath newRoot c Hnr Hcin ltac:(lia)) fuel Hfc).
    cbn [opt_eqb]. apply N.eqb_refl. }
  assert (Hs : under_sibling fuel t fin c = false).
  { unfold under_sibling. destruct (N.le_gt_cases (height_of t fin) (height_of t c)) as [Hge|Hlt].
    - rewrite (anc_ancestor_at t fin c Hwf (Hpath fin c Hfin Hcin Hge) fuel Hfc).
      unfold sibling_of. rewrite N.eqb_refl. reflexivity.
    - assert (Ha : ancestor_at fuel t c (height_of t fin) = None).
      { assert (Hlt' : (f_height b <? height_of t fin) = true).
        { apply N.ltb_lt. unfold height_of in Hlt at 1. rewrite Hb in Hlt. exact Hlt. }
        destruct fuel; cbn [ancestor_at]; rewrite Hb, Hlt'; reflexivity. }
      rewrite Ha. reflexivity. }
  destruct (finalize_transparent_partial fuel t idx preserve Hroot tips' fin newRoot He Hc c b Hb Hd) as (b' & H1 & H2 & H3 & H4 & H5).
  { rewrite Hs, andb_false_r. reflexivity. }
  exists b'. repeat split; try assumption.
  destruct (finalize_block_view fuel t idx preserve Hroot tips' fin newRoot He Hc) as (_ & _ & Hch).
  rewrite Hch. apply filter_In. split; [exact Hcin|]. apply N.leb_le. exact Hle.
Qed.

(* The model keeps the REQUESTED block [idx] and the ACTUALLY finalized block [fin] (lowered to the lowest unsaved
   block / to the fork point of an unsaved outdated branch) apart, as the code does.  Of the blocks that descend
   from the new root, finalizeBlockImpl deallocates ONLY those under a sibling of the ACTUAL final block - never
   forks next to the requested block that live above the actual final block. *)
Lemma only_siblings_of_actual_final fuel t idx preserve :
  (idx =? root_of t) = false ->
  forall tips' fin newRoot,
  erase_tips fuel t (t_tips t) (lowest_dirty fuel t idx idx) = (tips', fin) ->
  chain_at t (N.max (height_of t (root_of t)) (height_of t fin - preserve)) = Some newRoot ->
  forall id b,
  flookup (t_blocks t) id = Some b ->
  descends fuel t id newRoot = true ->
  flookup (t_blocks (finalizeBlockImpl fuel t idx preserve)) id = None ->
  under_sibling fuel t fin id = true /\ (newRoot =? root_of t) = false.
Proof.
  intros Hroot tips' fin newRoot He Hc id b Hb Hd Hgone.
  destruct (negb (newRoot =? root_of t) && under_sibling fuel t fin id) eqn:E.
  - apply andb_true_iff in E. destruct E as [E1 E2]. split; [exact E2|]. apply negb_true_iff. exact E1.
  - destruct (finalize_transparent_partial fuel t idx preserve Hroot tips' fin newRoot He Hc id b Hb Hd E) as (b' & Hl & _).
    congruence.
Qed.
