(** C10 — reload equivalence: the invariant [wf] holds initially and is preserved (under the caller
    guarantees [pre]) by insertBlockHeader, setPayloads, connectBlock, invalidate / revalidate, removeAllPayloads,
    addRef / removeRef, setTip and saveTree.  (applyBlock / unapplyBlock / removeSubtree are in another file.) *)
From Coq Require Import NArith List Bool Lia Permutation.
From VB Require Import Store.SaveLoadDefs Store.SaveLoadProofs Store.SaveLoadTheorems Store.ReloadEquiv.
Import ListNotations.
Local Open Scope N_scope.

(* ------------------------------------------------------------------ tactics *)
Ltac unf :=
  unfold local_ok, final_ok, deleted_form, level_ok, ce_nodup, deleted, bstatus, setDirty, unsetDirty, rawStatus,
         with_pers, pers_status, put_flag, put_level, pers_pl, pers_ce, pers_ref in *;
  cbn [b_pers b_dirty b_by b_final p_parent p_height p_status p_pl p_ce p_ref
       s_level s_boot s_fblock s_fpop s_fchild s_haspl s_active s_deleted] in *.

Ltac fin := repeat (split; [reflexivity|]); intuition (try congruence; try lia).

(* ------------------------------------------------------------------ neutral changes of one block *)
(* [b'] differs from [b] only in fields the tree-shape part of [wf] does not look at *)
Definition nrel (b b' : block) : Prop :=
  p_parent (b_pers b') = p_parent (b_pers b) /\
  p_height (b_pers b') = p_height (b_pers b) /\
  p_ce (b_pers b') = p_ce (b_pers b) /\
  b_by b' = b_by b /\ b_final b' = b_final b /\
  deleted b' = deleted b /\
  s_active (bstatus b') = s_active (bstatus b) /\
  (local_ok b -> local_ok b').

Lemma nrel_refl b : nrel b b.
Proof. unfold nrel. repeat (split; [reflexivity|]). auto. Qed.

Lemma nrel_trans b1 b2 b3 : nrel b1 b2 -> nrel b2 b3 -> nrel b1 b3.
Proof.
  intros (A1 & A2 & A3 & A4 & A5 & A6 & A7 & A8) (B1 & B2 & B3 & B4 & B5 & B6 & B7 & B8).
  unfold nrel. rewrite B1, B2, B3, B4, B5, B6, B7. repeat (split; [assumption|]). auto.
Qed.

Lemma nrel_deleted b b' : nrel b b' -> deleted b' = deleted b.
Proof. intros (_ & _ & _ & _ & _ & H & _). exact H. Qed.

Lemma nrel_active b b' : nrel b b' -> s_active (bstatus b') = s_active (bstatus b).
Proof. intros (_ & _ & _ & _ & _ & _ & H & _). exact H. Qed.

(* pointwise related stores *)
Definition rel_store (m m' : store) : Prop :=
  forall id, match lookup m id, lookup m' id with
             | Some b, Some b' => nrel b b'
             | None, None => True
             | _, _ => False
             end.

Lemma rel_fwd m m' id b : rel_store m m' -> lookup m id = Some b -> exists b', lookup m' id = Some b' /\ nrel b b'.
Proof.
  intros R L. specialize (R id). rewrite L in R. destruct (lookup m' id) as [b'|]; [|destruct R].
  exists b'. split; [reflexivity|exact R].
Qed.

Lemma rel_bwd m m' id b' : rel_store m m' -> lookup m' id = Some b' -> exists b, lookup m id = Some b /\ nrel b b'.
Proof.
  intros R L. specialize (R id). rewrite L in R. destruct (lookup m id) as [b|]; [|destruct R].
  exists b. split; [reflexivity|exact R].
Qed.

Lemma rel_vis_fwd m m' id b : rel_store m m' -> vis m id = Some b -> exists b', vis m' id = Some b' /\ nrel b b'.
Proof.
  intros R V. apply vis_Some in V. destruct V as [L D]. destruct (rel_fwd _ _ _ _ R L) as (b' & L' & N).
  exists b'. split; [|exact N]. apply vis_Some. split; [exact L'|]. rewrite (nrel_deleted _ _ N). exact D.
Qed.

Lemma rel_vis_bwd m m' id b' : rel_store m m' -> vis m' id = Some b' -> exists b, vis m id = Some b /\ nrel b b'.
Proof.
  intros R V. apply vis_Some in V. destruct V as [L D]. destruct (rel_bwd _ _ _ _ R L) as (b & L' & N).
  exists b. split; [|exact N]. apply vis_Some. split; [exact L'|]. rewrite <- (nrel_deleted _ _ N). exact D.
Qed.

Lemma wf_rel m m' t :
  wf (mkState m t) -> map fst m' = map fst m -> rel_store m m' -> (forall k, inc m' k = inc m k) ->
  wf (mkState m' t).
Proof.
  intros W Hk R Hi. destruct W as [Wn Wl Wp Wc Wb Wt]. cbn [blocks tip] in *.
  constructor; cbn [blocks tip].
  - rewrite Hk. exact Wn.
  - intros id b' L'. destruct (rel_bwd _ _ _ _ R L') as (b & L & N).
    destruct N as (_ & _ & _ & _ & _ & _ & _ & Nl). apply Nl. exact (Wl id b L).
  - intros id b' par L' P'. destruct (rel_bwd _ _ _ _ R L') as (b & L & N).
    destruct N as (Np & Nh & Nc & Nb & Nf & Nd & Na & Nl). rewrite Np in P'.
    destruct (Wp id b par L P') as (pb & Lp & Hh & Hd).
    destruct (rel_fwd _ _ _ _ R Lp) as (pb' & Lp' & N2).
    destruct N2 as (Np2 & Nh2 & Nc2 & Nb2 & Nf2 & Nd2 & Na2 & Nl2).
    exists pb'. split; [exact Lp'|]. split.
    + rewrite Nh, Nh2. exact Hh.
    + rewrite Nd, Nd2, Na, Na2. exact Hd.
  - intros id b' e V' I'. destruct (rel_vis_bwd _ _ _ _ R V') as (b & V & N).
    destruct N as (Np & Nh & Nc & Nb & Nf & Nd & Na & Nl). rewrite Nc in I'.
    destruct (Wc id b e V I') as (eb & Ve & Hlt).
    destruct (rel_vis_fwd _ _ _ _ R Ve) as (eb' & Ve' & N2).
    destruct N2 as (Np2 & Nh2 & Nc2 & Nb2 & Nf2 & Nd2 & Na2 & Nl2).
    exists eb'. split; [exact Ve'|]. rewrite Nh, Nh2. exact Hlt.
  - intros id b' V'. destruct (rel_vis_bwd _ _ _ _ R V') as (b & V & N).
    destruct N as (Np & Nh & Nc & Nb & Nf & Nd & Na & Nl). rewrite Nb, Hi. exact (Wb id b V).
  - destruct Wt as (b & V & A). destruct (rel_vis_fwd _ _ _ _ R V) as (b' & V' & N).
    exists b'. split; [exact V'|]. rewrite (nrel_active _ _ N). exact A.
Qed.

Lemma rel_store_upd m k f : (forall b, lookup m k = Some b -> nrel b (f b)) -> rel_store m (upd m k f).
Proof.
  intros H id. rewrite lookup_upd. destruct (lookup m id) as [b|] eqn:L; cbn [option_map]; [|exact I].
  destruct (k =? id) eqn:E; [|apply nrel_refl]. apply N.eqb_eq in E. subst id. apply H. exact L.
Qed.

Lemma inc_upd_nrel m k f j : (forall b, lookup m k = Some b -> nrel b (f b)) -> inc (upd m k f) j = inc m j.
Proof.
  intros H. apply inc_upd_same. intros b L. destruct (H b L) as (_ & _ & Nc & _ & _ & Nd & _).
  unfold contrib. rewrite Nd, Nc. reflexivity.
Qed.

Lemma wf_upd m t k f :
  wf (mkState m t) -> (forall b, lookup m k = Some b -> nrel b (f b)) -> wf (mkState (upd m k f) t).
Proof.
  intros W H. apply (wf_rel m); [exact W|apply keys_upd|apply rel_store_upd; exact H|].
  intros j. apply inc_upd_nrel. exact H.
Qed.

Lemma wf_upd_many m t ks f :
  wf (mkState m t) -> (forall b, nrel b (f b)) -> wf (mkState (upd_many m ks f) t).
Proof.
  intros W H. unfold upd_many. revert m W. induction ks as [|k r IH]; intros m W; cbn [fold_left]; [exact W|].
  apply IH. apply wf_upd; [exact W|]. intros b _. apply H.
Qed.

(* ------------------------------------------------------------------ the neutral mutators *)
Lemma nrel_putflag_fchild v b : nrel b (setStatus (put_flag FFailedChild v (bstatus b)) b).
Proof.
  unfold setStatus. destruct (status_eqb _ _); [apply nrel_refl|].
  destruct b as [[par h [l a1 a2 a3 a4 a5 a6 a7] pl ce rf] d by_ fi]. unfold nrel. unf. fin.
Qed.

Lemma nrel_putflag f v b :
  deleted b = false -> (f = FFailedBlock \/ f = FFailedPop \/ f = FFailedChild \/ f = FHasPayloads) ->
  nrel b (setStatus (put_flag f v (bstatus b)) b).
Proof.
  intros D Hf. unfold setStatus. destruct (status_eqb _ _); [apply nrel_refl|].
  destruct b as [[par h [l a1 a2 a3 a4 a5 a6 a7] pl ce rf] d by_ fi]. unfold nrel.
  destruct Hf as [-> | [-> | [-> | ->]]]; unf; subst a7; fin.
Qed.

Lemma nrel_raise n b : deleted b = false -> nrel b (raiseValidity n b).
Proof.
  intros D. unfold raiseValidity. destruct (s_fpop (bstatus b)); [apply nrel_refl|].
  destruct (s_level (bstatus b) <? n) eqn:E; [|apply nrel_refl]. apply N.ltb_lt in E.
  destruct b as [[par h [l a1 a2 a3 a4 a5 a6 a7] pl ce rf] d by_ fi]. unfold nrel. unf. subst a7. fin.
Qed.

Lemma nrel_lower1 b : deleted b = false -> s_active (bstatus b) = false -> nrel b (lowerValidity 1 b).
Proof.
  intros D A. unfold lowerValidity. destruct (s_fpop (bstatus b)); [apply nrel_refl|].
  destruct (1 <? s_level (bstatus b)) eqn:E; [|apply nrel_refl]. apply N.ltb_lt in E.
  destruct b as [[par h [l a1 a2 a3 a4 a5 a6 a7] pl ce rf] d by_ fi]. unfold nrel. unf. subst a7 a6. fin.
Qed.

Lemma nrel_setPayloads pl0 b : deleted b = false -> nrel b (setPayloads pl0 b).
Proof.
  intros D. destruct b as [[par h [l a1 a2 a3 a4 a5 a6 a7] pl ce rf] d by_ fi]. unfold nrel, setPayloads. unf.
  subst a7. fin.
Qed.

Lemma nrel_clearPayloads b : deleted b = false -> nrel b (clearPayloads b).
Proof.
  intros D. destruct b as [[par h [l a1 a2 a3 a4 a5 a6 a7] pl ce rf] d by_ fi]. unfold nrel, clearPayloads. unf.
  subst a7. fin.
Qed.

Lemma nrel_addRef b : deleted b = false -> nrel b (addRef b).
Proof.
  intros D. destruct b as [[par h [l a1 a2 a3 a4 a5 a6 a7] pl ce rf] d by_ fi]. unfold nrel, addRef. unf.
  subst a7. fin.
Qed.

Lemma nrel_removeRef b : deleted b = false -> nrel b (removeRef b).
Proof.
  intros D. destruct b as [[par h [l a1 a2 a3 a4 a5 a6 a7] pl ce rf] d by_ fi]. unfold nrel, removeRef. unf.
  subst a7. fin.
Qed.

Lemma nrel_unsetDirty b : nrel b (unsetDirty b).
Proof.
  destruct b as [[par h [l a1 a2 a3 a4 a5 a6 a7] pl ce rf] d by_ fi]. unfold nrel. unf. fin.
Qed.

(* ------------------------------------------------------------------ init, setTip, save *)
Lemma wf_init : wf init.
Proof.
  unfold init. constructor; cbn [blocks tip].
  - cbn [map fst]. constructor; [intros []|constructor].
  - intros id b L. cbn [lookup] in L. destruct (0 =? id); [|discriminate]. injection L as <-.
    unfold root_block. unf. repeat split; try discriminate; try lia. constructor.
  - intros id b par L P. cbn [lookup] in L. destruct (0 =? id); [|discriminate]. injection L as <-.
    unfold root_block in P. cbn [b_pers p_parent] in P. discriminate.
  - intros id b e V I. apply vis_Some in V. destruct V as [L _]. cbn [lookup] in L.
    destruct (0 =? id); [|discriminate]. injection L as <-. unfold root_block in I. cbn [b_pers p_ce] in I. destruct I.
  - intros id b V. apply vis_Some in V. destruct V as [L _]. cbn [lookup] in L.
    destruct (0 =? id); [|discriminate]. injection L as <-. apply Permutation_refl.
  - exists root_block. split; reflexivity.
Qed.

Lemma step_wf_OSetTip s st s' st' id :
  wf s -> pre s (OSetTip id) -> step prims_fixed (OSetTip id) s st = Done s' st' -> wf s'.
Proof.
  intros W Hp Hs. destruct s as [m t]. unfold pre in Hp. cbn [blocks tip] in Hp.
  unfold step in Hs. cbn [blocks tip] in Hs. injection Hs as <- <-.
  destruct W as [Wn Wl Wp Wc Wb Wt]. cbn [blocks tip] in *.
  constructor; cbn [blocks tip]; assumption.
Qed.

Lemma inc_map_unsetDirty (m : store) k : inc (map (fun kb => (fst kb, unsetDirty (snd kb))) m) k = inc m k.
Proof.
  unfold inc. induction m as [|[k0 b] r IH]; cbn [map flat_map fst snd]; [reflexivity|].
  rewrite IH. reflexivity.
Qed.

Lemma step_wf_OSave s st s' st' :
  wf s -> pre s OSave -> step prims_fixed OSave s st = Done s' st' -> wf s'.
Proof.
  intros W _ Hs. destruct s as [m t]. unfold step, save in Hs. cbn [blocks tip] in Hs. injection Hs as <- <-.
  apply (wf_rel m); [exact W|apply keys_map_unsetDirty| |intros k; apply inc_map_unsetDirty].
  intros id. rewrite lookup_map_unsetDirty. destruct (lookup m id) as [b|]; cbn [option_map]; [|exact I].
  apply nrel_unsetDirty.
Qed.

(* ------------------------------------------------------------------ single-block neutral operations *)
Lemma step_wf_OSetPayloads s st s' st' id pl :
  wf s -> pre s (OSetPayloads id pl) -> step prims_fixed (OSetPayloads id pl) s st = Done s' st' -> wf s'.
Proof.
  intros W Hp Hs. destruct s as [m t]. unfold pre in Hp. cbn [blocks tip] in Hp.
  apply visible_iff in Hp. destruct Hp as (b & V). apply vis_Some in V. destruct V as [L D].
  unfold step in Hs. cbn [blocks tip] in Hs. rewrite L in Hs.
  destruct (s_haspl (bstatus b)); [discriminate|]. injection Hs as <- <-.
  apply wf_upd; [exact W|]. intros b0 L0. rewrite L in L0. injection L0 as <-.
  pose proof (nrel_setPayloads pl b D) as N1.
  apply (nrel_trans _ _ _ N1). unfold setFlag. apply nrel_putflag; [|auto].
  rewrite (nrel_deleted _ _ N1). exact D.
Qed.

Lemma step_wf_OConnect s st s' st' id :
  wf s -> pre s (OConnect id) -> step prims_fixed (OConnect id) s st = Done s' st' -> wf s'.
Proof.
  intros W Hp Hs. destruct s as [m t]. unfold pre in Hp. cbn [blocks tip] in Hp.
  apply visible_iff in Hp. destruct Hp as (b & V). apply vis_Some in V. destruct V as [L D].
  unfold step in Hs. cbn [blocks tip p_raise prims_fixed] in Hs. injection Hs as <- <-.
  apply wf_upd; [exact W|]. intros b0 L0. rewrite L in L0. injection L0 as <-.
  apply nrel_raise. exact D.
Qed.

Lemma step_wf_OAddRef s st s' st' id :
  wf s -> pre s (OAddRef id) -> step prims_fixed (OAddRef id) s st = Done s' st' -> wf s'.
Proof.
  intros W Hp Hs. destruct s as [m t]. unfold pre in Hp. cbn [blocks tip] in Hp.
  apply visible_iff in Hp. destruct Hp as (b & V). apply vis_Some in V. destruct V as [L D].
  unfold step in Hs. cbn [blocks tip] in Hs. injection Hs as <- <-.
  apply wf_upd; [exact W|]. intros b0 L0. rewrite L in L0. injection L0 as <-.
  apply nrel_addRef. exact D.
Qed.

Lemma step_wf_ORemoveRef s st s' st' id :
  wf s -> pre s (ORemoveRef id) -> step prims_fixed (ORemoveRef id) s st = Done s' st' -> wf s'.
Proof.
  intros W Hp Hs. destruct s as [m t]. unfold pre in Hp. cbn [blocks tip] in Hp.
  apply visible_iff in Hp. destruct Hp as (b & V). apply vis_Some in V. destruct V as [L D].
  unfold step in Hs. cbn [blocks tip] in Hs. injection Hs as <- <-.
  apply wf_upd; [exact W|]. intros b0 L0. rewrite L in L0. injection L0 as <-.
  apply nrel_removeRef. exact D.
Qed.

Lemma step_wf_ORemovePayloads s st s' st' id :
  wf s -> pre s (ORemovePayloads id) -> step prims_fixed (ORemovePayloads id) s st = Done s' st' -> wf s'.
Proof.
  intros W Hp Hs. destruct s as [m t]. unfold pre in Hp. cbn [blocks tip] in Hp.
  destruct Hp as (b & V & A). apply vis_Some in V. destruct V as [L D].
  unfold step in Hs. cbn [blocks tip p_lower prims_fixed] in Hs. rewrite L in Hs.
  destruct (negb (s_haspl (bstatus b))); [discriminate|]. injection Hs as <- <-.
  apply wf_upd; [exact W|]. intros b0 L0. rewrite L in L0. injection L0 as <-.
  pose proof (nrel_clearPayloads b D) as N1.
  assert (N2 : nrel b (unsetFlag FHasPayloads (clearPayloads b))).
  { apply (nrel_trans _ _ _ N1). unfold unsetFlag. apply nrel_putflag; [|auto].
    rewrite (nrel_deleted _ _ N1). exact D. }
  apply (nrel_trans _ _ _ N2). apply nrel_lower1.
  - rewrite (nrel_deleted _ _ N2). exact D.
  - rewrite (nrel_active _ _ N2). exact A.
Qed.

Lemma step_wf_OInvalidate s st s' st' id reason desc :
  wf s -> pre s (OInvalidate id reason desc) -> step prims_fixed (OInvalidate id reason desc) s st = Done s' st' -> wf s'.
Proof.
  intros W Hp Hs. destruct s as [m t]. unfold pre in Hp. cbn [blocks tip] in Hp.
  destruct Hp as (Hr & Hv & _).
  apply visible_iff in Hv. destruct Hv as (b & V). apply vis_Some in V. destruct V as [L D].
  unfold step in Hs. cbn [blocks tip] in Hs. injection Hs as <- <-.
  apply wf_upd_many; [|intros b0; unfold setFlag; apply nrel_putflag_fchild].
  apply wf_upd; [exact W|]. intros b0 L0. rewrite L in L0. injection L0 as <-.
  unfold setFlag. apply nrel_putflag; [exact D|]. destruct Hr as [-> | ->]; auto.
Qed.

Lemma step_wf_ORevalidate s st s' st' id reason desc :
  wf s -> pre s (ORevalidate id reason desc) -> step prims_fixed (ORevalidate id reason desc) s st = Done s' st' -> wf s'.
Proof.
  intros W Hp Hs. destruct s as [m t]. unfold pre in Hp. cbn [blocks tip] in Hp.
  destruct Hp as (Hr & Hv & _).
  apply visible_iff in Hv. destruct Hv as (b & V). apply vis_Some in V. destruct V as [L D].
  unfold step in Hs. cbn [blocks tip] in Hs. injection Hs as <- <-.
  apply wf_upd_many; [|intros b0; unfold unsetFlag; apply nrel_putflag_fchild].
  apply wf_upd; [exact W|]. intros b0 L0. rewrite L in L0. injection L0 as <-.
  unfold unsetFlag. apply nrel_putflag; [exact D|]. destruct Hr as [-> | ->]; auto.
Qed.

(* ------------------------------------------------------------------ insertBlockHeader *)
(* what a freshly created / restored index looks like *)
Definition fresh_like (par h : N) (nb : block) : Prop :=
  p_parent (b_pers nb) = Some par /\ p_height (b_pers nb) = h /\ p_ce (b_pers nb) = [] /\ b_by nb = [] /\
  b_final nb = false /\ deleted nb = false /\ s_level (bstatus nb) = 1 /\ s_active (bstatus nb) = false.

Lemma fresh_local par h nb : fresh_like par h nb -> local_ok nb.
Proof.
  intros (Fp & Fh & Fc & Fb & Ff & Fd & Fl & Fa). unfold local_ok, final_ok, deleted_form, level_ok, ce_nodup.
  rewrite Fp, Fc, Ff, Fd, Fl, Fa. repeat split; try discriminate; try lia. constructor.
Qed.

Lemma new_fresh par h pf : fresh_like par h (raiseValidity 1 (restore (newBlock (Some par) h pf))).
Proof. unfold fresh_like. destruct pf; repeat split. Qed.

Lemma restore_fresh b par :
  deleted b = true -> deleted_form b -> final_ok b -> p_parent (b_pers b) = Some par ->
  fresh_like par (p_height (b_pers b)) (raiseValidity 1 (restore b)).
Proof.
  intros D DF F P. destruct b as [[par0 h [l a1 a2 a3 a4 a5 a6 a7] pl ce rf] d by_ fi].
  unfold final_ok, deleted_form, deleted, bstatus in *.
  cbn [b_pers b_by b_final p_parent p_height p_status p_pl p_ce p_ref
       s_level s_boot s_fblock s_fpop s_fchild s_haspl s_active s_deleted] in *.
  specialize (DF D). destruct DF as (-> & -> & -> & -> & -> & -> & -> & -> & ->). subst a7 par0.
  cbv beta iota in F. subst fi.
  unfold fresh_like. destruct a2, a4; repeat split.
Qed.

Lemma contrib_ce_nil k b : p_ce (b_pers b) = [] -> contrib k b = [].
Proof. intros H. unfold contrib. rewrite H. destruct (deleted b); reflexivity. Qed.

Lemma lookup_snoc_inv m id (nb : block) k b :
  lookup (m ++ [(id, nb)]) k = Some b -> lookup m k = Some b \/ (lookup m k = None /\ k = id /\ b = nb).
Proof.
  intros H. destruct (lookup m k) as [b0|] eqn:L.
  - rewrite (lookup_app_l _ _ _ _ L) in H. left. exact H.
  - rewrite lookup_app_r in H by exact L. cbn [lookup] in H. right.
    destruct (id =? k) eqn:E; [|discriminate]. apply N.eqb_eq in E. injection H as <-. auto.
Qed.

Lemma vis_snoc_old m id (nb : block) k b : vis m k = Some b -> vis (m ++ [(id, nb)]) k = Some b.
Proof.
  intros V. apply vis_Some in V. destruct V as [L D]. apply vis_Some. split; [|exact D].
  apply lookup_app_l. exact L.
Qed.

Lemma wf_append m t id nb par p :
  wf (mkState m t) -> lookup m id = None -> lookup m par = Some p -> deleted p = false ->
  fresh_like par (p_height (b_pers p) + 1) nb -> wf (mkState (m ++ [(id, nb)]) t).
Proof.
  intros W Lid Lp Dp F. destruct W as [Wn Wl Wp Wc Wb Wt]. cbn [blocks tip] in *.
  pose proof F as (Fp & Fh & Fc & Fb & Ff & Fd & Fl & Fa).
  assert (Hinc : forall k, inc (m ++ [(id, nb)]) k = inc m k).
  { intros k. rewrite inc_app. unfold inc at 2. cbn [flat_map snd]. rewrite (contrib_ce_nil _ _ Fc).
    cbn [app]. apply app_nil_r. }
  constructor; cbn [blocks tip].
  - rewrite map_app. cbn [map fst]. apply NoDup_snoc; [exact Wn|apply lookup_None_notin; exact Lid].
  - intros k b L. apply lookup_snoc_inv in L. destruct L as [L|(_ & _ & ->)]; [exact (Wl k b L)|].
    exact (fresh_local _ _ _ F).
  - intros k b par0 L P. apply lookup_snoc_inv in L. destruct L as [L|(_ & -> & ->)].
    + destruct (Wp k b par0 L P) as (pb & Lpb & Hh & Hd). exists pb.
      split; [apply lookup_app_l; exact Lpb|]. split; assumption.
    + rewrite Fp in P. injection P as <-. exists p. split; [apply lookup_app_l; exact Lp|].
      split; [exact Fh|]. intros _. split; [exact Dp|]. intros A. rewrite Fa in A. discriminate.
  - intros k b e V I. apply vis_Some in V. destruct V as [L D]. apply lookup_snoc_inv in L.
    destruct L as [L|(_ & -> & ->)].
    + destruct (Wc k b e (proj2 (vis_Some m k b) (conj L D)) I) as (eb & Ve & Hlt). exists eb.
      split; [apply vis_snoc_old; exact Ve|exact Hlt].
    + rewrite Fc in I. destruct I.
  - intros k b V. rewrite Hinc. apply vis_Some in V. destruct V as [L D]. apply lookup_snoc_inv in L.
    destruct L as [L|(_ & -> & ->)].
    + apply (Wb k b). apply vis_Some. auto.
    + rewrite Fb. rewrite (inc_nil m id); [apply Permutation_refl| |exact Wn].
      intros i0 b0 e V0 I0 E. destruct (Wc i0 b0 e V0 I0) as (eb & Ve & _). rewrite E in Ve.
      apply vis_Some in Ve. destruct Ve as [Le _]. congruence.
  - destruct Wt as (b & V & A). exists b. split; [apply vis_snoc_old; exact V|exact A].
Qed.

Lemma vis_upd_other m id f k : id <> k -> vis (upd m id f) k = vis m k.
Proof. intros H. unfold vis. rewrite lookup_upd_other by exact H. reflexivity. Qed.

Lemma wf_restore m t id b f par :
  wf (mkState m t) -> lookup m id = Some b -> deleted b = true -> visible m par ->
  p_parent (b_pers b) = Some par -> fresh_like par (p_height (b_pers b)) (f b) ->
  wf (mkState (upd m id f) t).
Proof.
  intros W L D Hv P F. destruct W as [Wn Wl Wp Wc Wb Wt]. cbn [blocks tip] in *.
  pose proof F as (Fp & Fh & Fc & Fb & Ff & Fd & Fl & Fa).
  assert (Hnv : forall k c, vis m k = Some c -> id <> k).
  { intros k c V E. subst k. apply vis_Some in V. destruct V as [L' D']. rewrite L in L'. injection L' as <-.
    congruence. }
  assert (Hinc : forall k, inc (upd m id f) k = inc m k).
  { intros k. apply inc_upd_same. intros b0 L0. rewrite L in L0. injection L0 as <-.
    rewrite (contrib_ce_nil _ _ Fc). unfold contrib. rewrite D. reflexivity. }
  constructor; cbn [blocks tip].
  - rewrite keys_upd. exact Wn.
  - intros k c Lc. destruct (N.eq_dec id k) as [<-|Hne].
    + rewrite lookup_upd_same, L in Lc. cbn [option_map] in Lc. injection Lc as <-. exact (fresh_local _ _ _ F).
    + rewrite lookup_upd_other in Lc by exact Hne. exact (Wl k c Lc).
  - intros k c par0 Lc Pc. destruct (N.eq_dec id k) as [<-|Hne].
    + rewrite lookup_upd_same, L in Lc. cbn [option_map] in Lc. injection Lc as <-.
      rewrite Fp in Pc. injection Pc as <-.
      destruct (Wp id b par L P) as (pb & Lpb & Hh & _).
      apply visible_iff in Hv. destruct Hv as (pb' & Vp). pose proof (Hnv _ _ Vp) as Hne.
      apply vis_Some in Vp. destruct Vp as [Lp' Dp']. rewrite Lpb in Lp'. injection Lp' as <-.
      exists pb. split; [rewrite lookup_upd_other by exact Hne; exact Lpb|].
      split; [rewrite Fh; exact Hh|]. intros _. split; [exact Dp'|]. intros A. rewrite Fa in A. discriminate.
    + rewrite lookup_upd_other in Lc by exact Hne. destruct (Wp k c par0 Lc Pc) as (pb & Lpb & Hh & Hd).
      destruct (N.eq_dec id par0) as [<-|Hne2].
      * rewrite L in Lpb. injection Lpb as <-. exists (f b).
        split; [rewrite lookup_upd_same, L; reflexivity|]. split; [rewrite Fh; exact Hh|].
        intros Dc. destruct (Hd Dc) as [Db _]. congruence.
      * exists pb. split; [rewrite lookup_upd_other by exact Hne2; exact Lpb|]. split; assumption.
  - intros k c e V I. destruct (N.eq_dec id k) as [<-|Hne].
    + apply vis_Some in V. destruct V as [Lc _]. rewrite lookup_upd_same, L in Lc. cbn [option_map] in Lc.
      injection Lc as <-. rewrite Fc in I. destruct I.
    + rewrite vis_upd_other in V by exact Hne. destruct (Wc k c e V I) as (eb & Ve & Hlt). exists eb.
      split; [|exact Hlt]. rewrite vis_upd_other; [exact Ve|exact (Hnv _ _ Ve)].
  - intros k c V. rewrite Hinc. destruct (N.eq_dec id k) as [<-|Hne].
    + apply vis_Some in V. destruct V as [Lc _]. rewrite lookup_upd_same, L in Lc. cbn [option_map] in Lc.
      injection Lc as <-. rewrite Fb. rewrite (inc_nil m id); [apply Permutation_refl| |exact Wn].
      intros i0 b0 e V0 I0 E. destruct (Wc i0 b0 e V0 I0) as (eb & Ve & _). rewrite E in Ve.
      exact (Hnv _ _ Ve eq_refl).
    + rewrite vis_upd_other in V by exact Hne. exact (Wb k c V).
  - destruct Wt as (c & V & A). exists c. split; [|exact A]. rewrite vis_upd_other; [exact V|exact (Hnv _ _ V)].
Qed.

Lemma step_wf_OInsertHeader s st s' st' id parent :
  wf s -> pre s (OInsertHeader id parent) -> step prims_fixed (OInsertHeader id parent) s st = Done s' st' -> wf s'.
Proof.
  intros W Hp Hs. destruct s as [m t]. unfold pre in Hp. cbn [blocks tip] in Hp. destruct Hp as [Hv Hg].
  unfold step in Hs. cbn [blocks tip p_raise prims_fixed] in Hs.
  destruct (lookup m id) as [b|] eqn:L.
  - destruct (s_deleted (bstatus b)) eqn:D.
    + injection Hs as <- <-. destruct (Hg b eq_refl D) as (Hpar & _ & _).
      destruct (wf_local _ W id b L) as (F0 & DF & _ & _).
      apply (wf_restore m t id b _ parent); [exact W|exact L|exact D|exact Hv|exact Hpar|].
      apply restore_fresh; assumption.
    + injection Hs as <- <-. exact W.
  - destruct (lookup m parent) as [p|] eqn:Lp; [|discriminate]. injection Hs as <- <-.
    pose proof Hv as Hv'. apply visible_iff in Hv'. destruct Hv' as (p' & Vp). apply vis_Some in Vp.
    destruct Vp as [Lp' Dp]. rewrite Lp in Lp'. injection Lp' as <-.
    apply (wf_append m t id _ parent p); [exact W|exact L|exact Lp|exact Dp|]. apply new_fresh.
Qed.
