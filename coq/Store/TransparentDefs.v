(** C09 — read sets of the contextual checks vs. the window finalization retains (NO proofs here).

    Sources read (/repo):
      src/pop/blockchain/commands/check_pubdata.cpp        CheckPublicationData::Execute: getBlockIndex(endorsed),
                                                           createFromPrevious(endorsed->pprev)
      src/pop/entities/keystone_container.cpp              KeystoneContainer::createFromPrevious: height = prev+1,
                                                           prev->getAncestor(first), first->getAncestor(second) with
                                                           first/second = getPreviousKeystoneHeight(height, ki, 0/1)
      include/veriblock/pop/blockchain/commands/addendorsement.hpp   containing->getAncestor(endorsed height),
                                                           containing - endorsed <= settlement interval
      include/veriblock/pop/blockchain/block_index.hpp     getAncestor: follows pprev while height > target - the block
                                                           AT the target height is reached but its pprev is not read
      include/veriblock/pop/blockchain/base_block_tree.hpp finalizeBlocks: final = chain[max(root, tip - maxReorg)];
                                                           finalizeBlockImpl: new root = chain[max(root, final - preserve)],
                                                           everything below it is deallocated, newRoot->pprev = nullptr
      src/pop/rewards/default_poprewards_calculator.cpp    getPopPayout: tip->getAncestorBlocksBehind(payoutDelay - 1),
                                                           calculateDifficulty: difficultyAveragingInterval x pprev

    Part A is pure height arithmetic over Z with the keystone functions of Score/KeystoneDefs.v
    ([m_previousKeystone] is what the generated getPreviousKeystoneHeight computes, Score/KeystoneProofs.v).
    Part B is the ATV context check over the tree model of Store/FinalizeDefs.v. *)
From Coq Require Import ZArith NArith List Bool.
From VB Require Import Score.KeystoneDefs Store.FinalizeDefs.
Import ListNotations.

(* ------------------------------------------------------------------ Part A: heights *)
Section Heights.
Local Open Scope Z_scope.

(** the blocks an ATV check touches, by height, for an ATV contained in a block of height [hc] that endorses a block
    of height [he] of the same chain: the containing block, the walk containing -> endorsed (AddAltEndorsement),
    endorsed->pprev (height he - 1), the walk pprev -> first previous keystone -> second previous keystone.
    All of them are ancestors of the containing block, so the read set is the height interval
    [second previous keystone of he .. hc] of the containing block's own chain. *)
Definition atv_first_keystone (ki he : Z) : Z := m_previousKeystone he ki 0.
Definition atv_second_keystone (ki he : Z) : Z := m_previousKeystone he ki 1.
Definition atv_read_marks (ki hc he : Z) : list Z :=
  [hc; he; he - 1; atv_first_keystone ki he; atv_second_keystone ki he].
Definition atv_reads (ki hc he h : Z) : Prop := atv_second_keystone ki he <= h <= hc.

(** finalizeBlocks at tip height [tipH] (runs only when tipH >= maxReorg): the final block and the lowest height that
    finalizeBlockImpl retains (the new root); [rootH] is the height of the current root (bootstrap block) *)
Definition final_height (rootH tipH maxReorg : Z) : Z := Z.max rootH (tipH - maxReorg).
Definition retained_low (rootH tipH maxReorg preserve : Z) : Z :=
  Z.max rootH (final_height rootH tipH maxReorg - preserve).

(** the situation the property quantifies over: finalization ran at tip height [tipH]; a containing block of height
    [hc] that is not outdated (descends from the final block: hf <= hc; [strict]: it is not the final block itself -
    the payloads of a final block are never executed again since it can not be unapplied) carries an ATV that
    satisfies the settlement rule for an endorsed block of height [he] of the tree *)
Definition atv_situation (strict : bool) (settle rootH tipH maxReorg hc he : Z) : Prop :=
  0 <= rootH /\ maxReorg <= tipH /\ rootH <= he /\ he <= hc /\ hc - he <= settle /\
  (if strict then final_height rootH tipH maxReorg < hc else final_height rootH tipH maxReorg <= hc).

(** every read that exists in the never-finalizing tree (height >= root) is at or above the new root *)
Definition reads_in_window (strict : bool) (ki settle preserve : Z) : Prop :=
  forall rootH tipH maxReorg hc he h,
  atv_situation strict settle rootH tipH maxReorg hc he ->
  atv_reads ki hc he h -> rootH <= h ->
  retained_low rootH tipH maxReorg preserve <= h.

(** the least preserved window: settle + 2*ki for containing blocks above the final block; one more when the final
    block itself is counted as a containing block; one more again for a reader that also follows the pprev link of the
    lowest block it reaches (the new root's pprev is cut) *)
Definition least_preserve (strict : bool) (ki settle : Z) : Z :=
  settle + 2 * ki + (if strict then 0 else 1).

(** a concrete miss: heights that satisfy the situation while the second previous keystone of the endorsed block
    exists in the never-finalizing tree but lies below the new root *)
Definition window_miss (strict : bool) (ki settle preserve rootH tipH maxReorg hc he : Z) : Prop :=
  atv_situation strict settle rootH tipH maxReorg hc he /\
  rootH <= atv_second_keystone ki he /\
  atv_second_keystone ki he < retained_low rootH tipH maxReorg preserve.

(** getPopPayout(tip): endorsed = tip - (payoutDelay - 1), then difficultyAveragingInterval blocks below it *)
Definition payout_reads (delay avg tipH h : Z) : Prop := tipH - (delay - 1) - avg <= h <= tipH.

End Heights.

(* ------------------------------------------------------------------ Part B: the check over the tree model *)
Local Open Scope N_scope.

Definition prevks (h ki n : N) : N := Z.to_N (m_previousKeystone (Z.of_N h) (Z.of_N ki) (Z.of_N n)).

Definition fctx := (N * option N * option N)%type.

(** ContextInfoContainer / KeystoneContainer::createFromPrevious(prev) over the tree of Store/FinalizeDefs.v *)
Definition f_create_from_previous (fuel : nat) (t : ftree) (ki : N) (prev : option N) : fctx :=
  match prev with
  | None => (0, None, None)
  | Some p =>
    match flookup (t_blocks t) p with
    | None => (0, None, None)
    | Some pb =>
      let h := f_height pb + 1 in
      let k1 := ancestor_at fuel t p (prevks h ki 0) in
      let k2 := match k1 with Some f => ancestor_at fuel t f (prevks h ki 1) | None => None end in
      (h, k1, k2)
    end
  end.

Definition fctx_eqb (a b : fctx) : bool :=
  let '(h1, x1, y1) := a in let '(h2, x2, y2) := b in (h1 =? h2) && opt_eqb x1 x2 && opt_eqb y1 y2.

Inductive atv_res := AOk | ANoContaining | ASfEndorsed | ASfContext | ADiffers | AExpired.

(** CheckPublicationData then AddAltEndorsement for an ATV in block [c] endorsing [e] whose publication data
    carries the context [ctx] (the VBK side of the command group does not touch the ALT tree) *)
Definition f_check_atv (fuel : nat) (t : ftree) (ki settle : N) (c e : N) (ctx : fctx) : atv_res :=
  match flookup (t_blocks t) e with
  | None => ASfEndorsed
  | Some eb =>
    if negb (fctx_eqb ctx (f_create_from_previous fuel t ki (f_parent eb))) then ASfContext
    else match flookup (t_blocks t) c with
         | None => ANoContaining
         | Some cb =>
           if negb (opt_eqb (ancestor_at fuel t c (f_height eb)) (Some e)) then ADiffers
           else if settle <? f_height cb - f_height eb then AExpired
           else AOk
         end
  end.

(** GeneratePublicationData: the context an honest miner writes (computed on the tree it sees) *)
Definition f_honest_ctx (fuel : nat) (t : ftree) (ki : N) (e : N) : fctx :=
  f_create_from_previous fuel t ki (parent_of t e).

(** what a reader can observe of a block besides the finalized flag *)
Definition fcore (b : fblock) : option N * N * bool * list N := (f_parent b, f_height b, f_dirty b, f_pl b).

Definition agree_on (R : N -> Prop) (t1 t2 : ftree) : Prop :=
  forall id, R id -> option_map fcore (flookup (t_blocks t1) id) = option_map fcore (flookup (t_blocks t2) id).

(** [f] looks at the tree only through the blocks in [R] (height, pprev, dirty bit, payload ids) *)
Definition reads_only {A} (R : N -> Prop) (f : ftree -> A) : Prop :=
  forall t1 t2, agree_on R t1 t2 -> f t1 = f t2.

(* ------------------------------------------------------------------ concrete trees *)
(** the active chain 0..20 (block i at height i, all saved) with a fork 113 on block 12 *)
Definition chain20 : ftree :=
  let mk := fun (i : N) => (i, mkF (if i =? 0 then None else Some (i - 1)) i false (i =? 0) [100 + i]) in
  let ids := [0;1;2;3;4;5;6;7;8;9;10;11;12;13;14;15;16;17;18;19;20] in
  mkT (map mk ids ++ [(113, mkF (Some 12) 13 false false [213])]) ids [20; 113] [].
