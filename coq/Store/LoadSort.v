(** C10 — the height sort of loadTree yields a parent-before-child order on structurally consistent stored
    block sets, which discharges the first premise of reload_equiv_partial. *)
From Coq Require Import NArith List Bool Lia Permutation.
From VB Require Import Store.SaveLoadDefs Store.SaveLoadProofs Store.SaveLoadTheorems Store.LoadProofs.
Import ListNotations.
Local Open Scope N_scope.

Definition hgt (x : N * pers) : N := p_height (snd x).

Fixpoint hsorted (l : list (N * pers)) : Prop :=
  match l with [] => True | x :: r => (forall y, In y r -> hgt x <= hgt y) /\ hsorted r end.

Lemma insert_perm x l : Permutation (insert_by_height x l) (x :: l).
Proof.
  induction l as [|y r IH]; cbn [insert_by_height]; [apply Permutation_refl|].
  destruct (p_height (snd x) <? p_height (snd y)); [apply Permutation_refl|].
  apply (Permutation_trans (l' := y :: x :: r)); [apply perm_skip; exact IH|apply perm_swap].
Qed.

Lemma sort_perm l : Permutation (sort_by_height l) l.
Proof.
  induction l as [|x r IH]; cbn [sort_by_height fold_right]; [apply Permutation_refl|].
  fold (sort_by_height r). apply (Permutation_trans (insert_perm x (sort_by_height r))). apply perm_skip. exact IH.
Qed.

Lemma insert_hsorted x l : hsorted l -> hsorted (insert_by_height x l).
Proof.
  induction l as [|y r IH]; intros Hs; cbn [insert_by_height].
  - cbn. split; [intros ? []|exact I].
  - cbn [hsorted] in Hs. destruct Hs as [Hy Hr].
    destruct (p_height (snd x) <? p_height (snd y)) eqn:E.
    + apply N.ltb_lt in E. cbn [hsorted]. split; [|split; assumption].
      intros z [<-|Hz]; unfold hgt in *; [lia|]. specialize (Hy z Hz). lia.
    + apply N.ltb_ge in E. cbn [hsorted]. split; [|apply IH; exact Hr].
      intros z Hz. apply (Permutation_in _ (insert_perm x r)) in Hz. destruct Hz as [<-|Hz]; [unfold hgt; lia|apply Hy; exact Hz].
Qed.

Lemma sort_hsorted l : hsorted (sort_by_height l).
Proof.
  induction l as [|x r IH]; cbn [sort_by_height fold_right]; [exact I|]. apply insert_hsorted. exact IH.
Qed.

Lemma hsorted_mid pre : forall x r, hsorted (pre ++ x :: r) -> forall y, In y r -> hgt x <= hgt y.
Proof.
  induction pre as [|a pre IH]; intros x r H y Hy; cbn [app hsorted] in H.
  - exact (proj1 H y Hy).
  - exact (IH x r (proj2 H) y Hy).
Qed.

Lemma NoDup_app_left {A} (l1 l2 : list A) : NoDup (l1 ++ l2) -> NoDup l1.
Proof.
  induction l1 as [|x l1 IH]; cbn [app]; intros H; [constructor|].
  inversion H as [|? ? Hn Hr]; subst. constructor; [|exact (IH Hr)].
  intros Hx. apply Hn. apply in_or_app. now left.
Qed.

Lemma In_lookup {A} (m : list (N * A)) k v : NoDup (map fst m) -> In (k, v) m -> lookup m k = Some v.
Proof.
  induction m as [|[k' v'] r IH]; intros Hnd Hin; [destruct Hin|].
  cbn [map fst] in Hnd. inversion Hnd as [|? ? Hn Hnd']; subst. cbn [lookup].
  destruct Hin as [Heq|Hin].
  - injection Heq as -> ->. rewrite N.eqb_refl. reflexivity.
  - destruct (k' =? k) eqn:E; [|exact (IH Hnd' Hin)].
    apply N.eqb_eq in E. subst k'. exfalso. apply Hn. apply in_map_iff. exists (k, v). split; [reflexivity|exact Hin].
Qed.

(* structural consistency of a stored block set: unique ids; every index loadable (VALID_TREE or FAILED_POP);
   parents present one below; endorsed blocks present and strictly lower (or the block itself) *)
Definition consistent_list (L : list (N * pers)) : Prop :=
  NoDup (map fst L) /\
  forall id p, In (id, p) L ->
    lvl_ok p = true /\
    match p_parent p with
    | None => True
    | Some par => exists pp, In (par, pp) L /\ p_height p = p_height pp + 1
    end /\
    forall e, In e (p_ce p) -> snd e = id \/ exists pe, In (snd e, pe) L /\ p_height pe < p_height p.

Lemma topo_of_sorted S : consistent_list S -> hsorted S -> forall pre post, S = pre ++ post -> topo_ok pre post.
Proof.
  intros [Hnd Hc] Hs pre post. revert pre. induction post as [|[id p] r IH]; intros pre HS; cbn [topo_ok]; [exact I|].
  assert (Hin : In (id, p) S) by (rewrite HS; apply in_or_app; right; now left).
  destruct (Hc id p Hin) as (Hl & Hp & He).
  assert (Hndk : NoDup (map fst pre ++ id :: map fst r)).
  { rewrite HS, map_app in Hnd. exact Hnd. }
  assert (Hpre : NoDup (map fst pre)).
  { apply NoDup_remove_1 in Hndk. apply NoDup_app_left in Hndk. exact Hndk. }
  assert (Hidn : lookup pre id = None).
  { apply notin_lookup_None. intros H. apply NoDup_remove_2 in Hndk. apply Hndk. apply in_or_app. now left. }
  assert (Hlow : forall k q, In (k, q) S -> p_height q < p_height p -> lookup pre k = Some q).
  { intros k q Hq Hlt. rewrite HS in Hq. apply in_app_or in Hq. destruct Hq as [Hq|[Hq|Hq]].
    - exact (In_lookup pre k q Hpre Hq).
    - injection Hq as _ <-. lia.
    - rewrite HS in Hs. pose proof (hsorted_mid pre (id, p) r Hs (k, q) Hq) as H. unfold hgt in H. cbn [snd] in H. lia. }
  split; [exact Hidn|]. split; [exact Hl|]. split; [|split].
  - destruct (p_parent p) as [par|]; [|exact I]. destruct Hp as (pp & Hpp & Hh).
    exists pp. split; [apply Hlow; [exact Hpp|lia]|exact Hh].
  - intros e Hein. rewrite (lookup_app_new pre id p (snd e) Hidn).
    destruct (He e Hein) as [->|(pe & Hpe & Hlt)]; [rewrite N.eqb_refl; discriminate|].
    destruct (id =? snd e); [discriminate|]. rewrite (Hlow (snd e) pe Hpe Hlt). discriminate.
  - apply IH. rewrite HS, <- app_assoc. reflexivity.
Qed.

Lemma consistent_perm L S : Permutation S L -> consistent_list L -> consistent_list S.
Proof.
  intros HP [Hnd Hc]. split.
  - apply (Permutation_NoDup (l := map fst L)); [apply Permutation_map; apply Permutation_sym; exact HP|exact Hnd].
  - intros id p Hin. apply (Permutation_in _ HP) in Hin. destruct (Hc id p Hin) as (H1 & H2 & H3).
    split; [exact H1|]. split.
    + destruct (p_parent p); [|exact I]. destruct H2 as (pp & Hpp & Hh). exists pp. split; [|exact Hh].
      apply (Permutation_in _ (Permutation_sym HP)). exact Hpp.
    + intros e He. destruct (H3 e He) as [->|(pe & Hpe & Hlt)]; [now left|right].
      exists pe. split; [apply (Permutation_in _ (Permutation_sym HP)); exact Hpe|exact Hlt].
Qed.

Lemma sort_is_topological L : consistent_list L -> topo_ok [] (sort_by_height L).
Proof.
  intros H. apply (topo_of_sorted (sort_by_height L)); [|apply sort_hsorted|reflexivity].
  apply (consistent_perm L); [apply sort_perm|exact H].
Qed.

(* reload_equiv with the sort premise discharged *)
Lemma reload_equiv_consistent_partial h s st :
  run prims_fixed (h ++ [OSave]) init storage0 = Done s st ->
  let live := filter (fun x => negb (s_deleted (p_status (snd x)))) (st_blocks (full_dump s)) in
  consistent_list live ->
  lookup (sort_by_height live) (tip s) <> None ->
  (forall fuel, chain_ok fuel (lookup (sort_by_height live)) (tip s) = true) ->
  exists s', load prims_fixed st = Loaded s' /\ tip s' = tip s /\
             forall k, pv (blocks s') k = lookup (sort_by_height live) k.
Proof.
  intros Hrun live Hc Htip Hch. apply (reload_equiv_partial h s st Hrun); [apply sort_is_topological; exact Hc|exact Htip|exact Hch].
Qed.

(* the premises are satisfiable: root, child, grandchild with an endorsement of the child *)
Example consistent_example :
  let st := mkStatus 2 false false false false true false false in
  consistent_list [(2, mkPers (Some 1) 2 st [11] [(100, 1)] 0);
                   (0, mkPers None 0 (mkStatus 4 true false false false false true false) [] [] 0);
                   (1, mkPers (Some 0) 1 st [10] [] 0)].
Proof.
  cbn zeta. split.
  - cbn. repeat constructor; cbn; intuition discriminate.
  - intros id p [H|[H|[H|[]]]]; injection H as <- <-; cbn; (split; [reflexivity|]); split.
    + eexists. split; [right; right; left; reflexivity|reflexivity].
    + intros e [<-|[]]. right. eexists. split; [right; right; left; reflexivity|cbn; lia].
    + exact I.
    + intros e [].
    + eexists. split; [right; left; reflexivity|reflexivity].
    + intros e [].
Qed.
