(** C10 — load recomputes the chain work of every block to the value the running instance holds, for every tree
    and arbitrary bootstrap flags; the variant that restarts the sum at BLOCK_BOOTSTRAP blocks does not. *)
From Coq Require Import NArith List Bool Lia Permutation.
From VB Require Import Store.SaveLoadDefs Store.SaveLoadProofs Store.SaveLoadTheorems Store.LoadProofs Store.LoadSort
  Store.ChainWorkDefs.
Import ListNotations.
Local Open Scope N_scope.

(* parent-before-child order: every block is new and its parent (if any) has been processed *)
Fixpoint pbc (acc l : list (N * pers)) : Prop :=
  match l with
  | [] => True
  | (id, p) :: r =>
    lookup acc id = None /\
    match p_parent p with None => True | Some par => lookup acc par <> None end /\
    pbc (acc ++ [(id, p)]) r
  end.

Lemma topo_ok_pbc l : forall acc, topo_ok acc l -> pbc acc l.
Proof.
  induction l as [|[id p] r IH]; intros acc H; cbn [pbc topo_ok] in *; [exact I|].
  destruct H as (H1 & _ & H3 & _ & H5). split; [exact H1|]. split; [|exact (IH _ H5)].
  destruct (p_parent p) as [par|]; [|exact I]. destruct H3 as (pp & Hpp & _). congruence.
Qed.

Section Spec.
Variable proof : N -> N.

(* the specification: the work of a block is the sum of the proofs along its parent path down to the root *)
Inductive has_work (view : N -> option pers) : N -> N -> Prop :=
| hw_root id p : view id = Some p -> p_parent p = None -> has_work view id (proof id)
| hw_child id p par w : view id = Some p -> p_parent p = Some par -> has_work view par w ->
                        has_work view id (proof id + w).

Lemma has_work_fun view id w1 : has_work view id w1 -> forall w2, has_work view id w2 -> w1 = w2.
Proof.
  induction 1 as [id p Hv Hp|id p par w Hv Hp Hw IH]; intros w2 H2; inversion H2; subst; try congruence.
  assert (par0 = par) by congruence. subst par0. f_equal. apply IH. assumption.
Qed.

Lemma has_work_ext v1 v2 : (forall k, v1 k = v2 k) -> forall id w, has_work v1 id w -> has_work v2 id w.
Proof.
  intros E id w H. induction H as [id p Hv Hp|id p par w Hv Hp Hw IH].
  - apply (hw_root v2 id p); [rewrite <- E; exact Hv|exact Hp].
  - apply (hw_child v2 id p par w); [rewrite <- E; exact Hv|exact Hp|exact IH].
Qed.

Definition WInv (full acc : list (N * pers)) (w : work_map) : Prop :=
  (forall k, lookup w k = None <-> lookup acc k = None) /\
  (forall k x, lookup w k = Some x -> has_work (lookup full) k x).

Lemma add_work_fold full : forall l acc w,
  full = acc ++ l -> pbc acc l -> WInv full acc w -> WInv full full (fold_left (add_work proof false) l w).
Proof.
  induction l as [|[id p] r IH]; intros acc w Hf Hp Hi; cbn [fold_left].
  - rewrite app_nil_r in Hf. subst acc. exact Hi.
  - cbn [pbc] in Hp. destruct Hp as (Hnew & Hpar & Hrest). destruct Hi as [Hk Hw].
    assert (Hwn : lookup w id = None) by (apply Hk; exact Hnew).
    assert (Hfull : lookup full id = Some p).
    { rewrite Hf. rewrite (lookup_app_r acc _ id Hnew). cbn [lookup]. rewrite N.eqb_refl. reflexivity. }
    apply (IH (acc ++ [(id, p)])); [rewrite <- app_assoc; exact Hf|exact Hrest|].
    unfold add_work. cbn [andb].
    destruct (p_parent p) as [par|] eqn:Ep.
    + split.
      * intros k. rewrite (lookup_app_new w id _ k Hwn), (lookup_app_new acc id p k Hnew).
        destruct (id =? k); [split; discriminate|apply Hk].
      * intros k x. rewrite (lookup_app_new w id _ k Hwn). destruct (id =? k) eqn:E.
        -- apply N.eqb_eq in E. subst k. intros Hx. injection Hx as <-.
           destruct (lookup w par) as [wp|] eqn:Ewp.
           ++ unfold work_of. rewrite Ewp. apply (hw_child (lookup full) id p par wp Hfull Ep). apply Hw. exact Ewp.
           ++ exfalso. apply Hpar. apply Hk. exact Ewp.
        -- apply Hw.
    + split.
      * intros k. rewrite (lookup_app_new w id _ k Hwn), (lookup_app_new acc id p k Hnew).
        destruct (id =? k); [split; discriminate|apply Hk].
      * intros k x. rewrite (lookup_app_new w id _ k Hwn). destruct (id =? k) eqn:E.
        -- apply N.eqb_eq in E. subst k. intros Hx. injection Hx as <-. apply (hw_root (lookup full) id p Hfull Ep).
        -- apply Hw.
Qed.

Lemma fold_work_spec l : pbc [] l -> WInv l l (fold_left (add_work proof false) l []).
Proof.
  intros H. apply (add_work_fold l l [] []); [reflexivity|exact H|].
  split; [intros k; cbn [lookup]; tauto|intros k x Hx; discriminate].
Qed.

(* two parent-before-child orders of the same block set give every block the same work *)
Lemma work_order_independent l1 l2 :
  (forall k, lookup l1 k = lookup l2 k) -> pbc [] l1 -> pbc [] l2 ->
  forall id, work_of (fold_left (add_work proof false) l1 []) id = work_of (fold_left (add_work proof false) l2 []) id.
Proof.
  intros E H1 H2 id. destruct (fold_work_spec l1 H1) as [K1 W1]. destruct (fold_work_spec l2 H2) as [K2 W2].
  unfold work_of.
  destruct (lookup (fold_left (add_work proof false) l1 []) id) as [x1|] eqn:E1;
    destruct (lookup (fold_left (add_work proof false) l2 []) id) as [x2|] eqn:E2.
  - apply (has_work_fun (lookup l2) id x1); [apply (has_work_ext (lookup l1)); [exact E|apply W1; exact E1]|apply W2; exact E2].
  - exfalso. apply K2 in E2. rewrite <- E in E2. apply K1 in E2. congruence.
  - exfalso. apply K1 in E1. rewrite E in E1. apply K2 in E1. congruence.
  - reflexivity.
Qed.

Lemma lookup_In {A} (m : list (N * A)) k v : lookup m k = Some v -> In (k, v) m.
Proof.
  induction m as [|[k' v'] r IH]; cbn [lookup]; [discriminate|].
  destruct (k' =? k) eqn:E; [|intros H; right; exact (IH H)].
  apply N.eqb_eq in E. subst k'. intros H. injection H as ->. now left.
Qed.

Lemma lookup_perm {A} (l1 l2 : list (N * A)) : NoDup (map fst l1) -> Permutation l1 l2 ->
  forall k, lookup l1 k = lookup l2 k.
Proof.
  intros Hnd HP k.
  assert (Hnd2 : NoDup (map fst l2)).
  { apply (Permutation_NoDup (l := map fst l1)); [apply Permutation_map; exact HP|exact Hnd]. }
  destruct (lookup l1 k) as [v|] eqn:E1.
  - symmetry. apply (In_lookup l2 k v Hnd2). apply (Permutation_in _ HP). apply lookup_In. exact E1.
  - destruct (lookup l2 k) as [v|] eqn:E2; [|reflexivity].
    apply lookup_In in E2. apply (Permutation_in _ (Permutation_sym HP)) in E2.
    rewrite (In_lookup l1 k v Hnd E2) in E1. discriminate.
Qed.

(* load . save restores the chain work of EVERY block: [stored] is any structurally consistent block set (unique
   ids, parents present one below - bootstrap flags arbitrary) listed in the order the running instance inserted
   the blocks; the restarted instance processes the height-sorted list *)
Lemma chainwork_restored stored :
  consistent_list stored -> pbc [] stored ->
  forall id, work_of (load_work proof stored) id = work_of (live_work proof stored) id.
Proof.
  intros Hc Hp id. unfold load_work, live_work. apply work_order_independent.
  - intros k. symmetry. apply lookup_perm; [exact (proj1 Hc)|apply Permutation_sym; apply sort_perm].
  - apply topo_ok_pbc. apply sort_is_topological. exact Hc.
  - exact Hp.
Qed.

End Spec.

(* the hypotheses are satisfiable by a non-trivial value, and the theorem's conclusion is what one expects *)
Example chainwork_example :
  consistent_list boot2_chain /\ pbc [] boot2_chain /\
  load_work (fun _ => 1) boot2_chain = [(0, 1); (1, 2); (2, 3)].
Proof.
  split; [|split; [cbn; repeat split; discriminate|vm_compute; reflexivity]].
  split.
  - cbn. repeat constructor; cbn; intuition discriminate.
  - intros id p [H|[H|[H|[]]]]; injection H as <- <-; (split; [reflexivity|]); cbn [p_parent p_ce sp_block];
      (split; [|intros e []]); try exact I.
    + exists (sp_block None 0 true). split; [now left|reflexivity].
    + exists (sp_block (Some 0) 1 true). split; [right; now left|reflexivity].
Qed.

(* the variant that skips `+= pprev->chainWork` for BLOCK_BOOTSTRAP blocks: with a 2-block bootstrap chain the
   reloaded work of the second bootstrap block and of every descendant differs from the live one *)
Lemma chainwork_restart_at_bootstrap_refuted :
  work_of (live_work (fun _ => 1) boot2_chain) 1 = 2 /\ work_of (load_work_restart (fun _ => 1) boot2_chain) 1 = 1 /\
  work_of (live_work (fun _ => 1) boot2_chain) 2 = 3 /\ work_of (load_work_restart (fun _ => 1) boot2_chain) 2 = 2.
Proof. vm_compute. repeat split. Qed.
