(** C10 — executable model of the dirty-flag discipline, saveTree (incremental) and
    loadTree of alt-integration-cpp.  NO proofs in this file.

    Sources modelled (read from /repo):
      include/veriblock/pop/blockchain/block_index.hpp      BlockIndex mutators, toStoredBlockIndex
      src/pop/blockchain/{alt,vbk,btc}_block_addon.cpp       addon mutators and their setDirty() calls
      include/veriblock/pop/blockchain/pop/pop_state.hpp     endorsement containers
      include/veriblock/pop/storage/util.hpp, src/pop/storage/util.cpp   saveTree / loadTree / loadBlocksAndTip
      base_block_tree.hpp loadBlockInner / loadTip, alt_block_tree.cpp loadTip, blockchain_util.hpp recoverEndorsements

    A block carries its PERSISTED projection (what toStoredBlockIndex writes: height, status word,
    header = id + parent, payload ids, containing endorsements, refcount/refs) and the memory-only
    fields (dirty, endorsedBy, finalized).  The status word is kept as a record of its bits; [status_word]
    gives the C++ value.  Block ids are small numbers (the harness maps hashes to ids). *)
From Coq Require Import NArith List Bool.
Import ListNotations.
Local Open Scope N_scope.

(* ------------------------------------------------------------------ status *)
Inductive flag := FBootstrap | FFailedBlock | FFailedPop | FFailedChild | FHasPayloads | FActive | FDeleted.

Record status := mkStatus {
  s_level : N;            (* BLOCK_VALID_MASK part: 0 unknown, 1 TREE, 2 CONNECTED, 3 MAYBE_WITH_OTHER_CHAIN, 4 CAN_BE_APPLIED *)
  s_boot : bool; s_fblock : bool; s_fpop : bool; s_fchild : bool; s_haspl : bool; s_active : bool; s_deleted : bool }.

Definition get_flag (f : flag) (s : status) : bool :=
  match f with
  | FBootstrap => s_boot s | FFailedBlock => s_fblock s | FFailedPop => s_fpop s | FFailedChild => s_fchild s
  | FHasPayloads => s_haspl s | FActive => s_active s | FDeleted => s_deleted s
  end.

Definition put_flag (f : flag) (v : bool) (s : status) : status :=
  match f with
  | FBootstrap => mkStatus (s_level s) v (s_fblock s) (s_fpop s) (s_fchild s) (s_haspl s) (s_active s) (s_deleted s)
  | FFailedBlock => mkStatus (s_level s) (s_boot s) v (s_fpop s) (s_fchild s) (s_haspl s) (s_active s) (s_deleted s)
  | FFailedPop => mkStatus (s_level s) (s_boot s) (s_fblock s) v (s_fchild s) (s_haspl s) (s_active s) (s_deleted s)
  | FFailedChild => mkStatus (s_level s) (s_boot s) (s_fblock s) (s_fpop s) v (s_haspl s) (s_active s) (s_deleted s)
  | FHasPayloads => mkStatus (s_level s) (s_boot s) (s_fblock s) (s_fpop s) (s_fchild s) v (s_active s) (s_deleted s)
  | FActive => mkStatus (s_level s) (s_boot s) (s_fblock s) (s_fpop s) (s_fchild s) (s_haspl s) v (s_deleted s)
  | FDeleted => mkStatus (s_level s) (s_boot s) (s_fblock s) (s_fpop s) (s_fchild s) (s_haspl s) (s_active s) v
  end.

Definition put_level (l : N) (s : status) : status :=
  mkStatus l (s_boot s) (s_fblock s) (s_fpop s) (s_fchild s) (s_haspl s) (s_active s) (s_deleted s).

Definition b2n (b : bool) (w : N) : N := if b then w else 0.

(* the C++ status word (block_status.hpp) *)
Definition status_word (s : status) : N :=
  s_level s + b2n (s_boot s) 16 + b2n (s_fblock s) 32 + b2n (s_fpop s) 64 + b2n (s_fchild s) 128
  + b2n (s_haspl s) 256 + b2n (s_active s) 512 + b2n (s_deleted s) 1024.

Definition status_eqb (a b : status) : bool :=
  (s_level a =? s_level b) && Bool.eqb (s_boot a) (s_boot b) && Bool.eqb (s_fblock a) (s_fblock b)
  && Bool.eqb (s_fpop a) (s_fpop b) && Bool.eqb (s_fchild a) (s_fchild b) && Bool.eqb (s_haspl a) (s_haspl b)
  && Bool.eqb (s_active a) (s_active b) && Bool.eqb (s_deleted a) (s_deleted b).

Definition is_failed (s : status) : bool := s_fblock s || s_fpop s || s_fchild s.

(* new BlockIndex: BLOCK_VALID_UNKNOWN | BLOCK_DELETED *)
Definition status0 : status := mkStatus 0 false false false false false false true.

(* ------------------------------------------------------------------ blocks *)
(* containing endorsement: (endorsement id, endorsed block id) *)
Definition endorsement := (N * N)%type.

Record pers := mkPers {          (* = StoredBlockIndex: what is written *)
  p_parent : option N;           (* header.previousBlock (None for the bootstrap block) *)
  p_height : N;
  p_status : status;
  p_pl : list N;                 (* payload ids (ALT: vbk/vtb/atv ids, VBK: vtb ids) *)
  p_ce : list endorsement;       (* _containingEndorsements *)
  p_ref : N }.                   (* VBK _refCount / digest of BTC refs *)

Record block := mkBlock {
  b_pers : pers;
  b_dirty : bool;                (* memory only *)
  b_by : list N;                 (* _endorsedBy, memory only, recovered at load *)
  b_final : bool }.              (* memory only *)

Definition with_pers (f : pers -> pers) (b : block) : block := mkBlock (f (b_pers b)) (b_dirty b) (b_by b) (b_final b).
Definition pers_status (f : status -> status) (p : pers) : pers :=
  mkPers (p_parent p) (p_height p) (f (p_status p)) (p_pl p) (p_ce p) (p_ref p).
Definition bstatus (b : block) : status := p_status (b_pers b).

(* ---- BlockIndex / addon mutators, exactly with the setDirty() calls of the code ---- *)
Definition setDirty (b : block) : block := mkBlock (b_pers b) true (b_by b) (b_final b).
Definition unsetDirty (b : block) : block := mkBlock (b_pers b) false (b_by b) (b_final b).

(* raw assignment to status (used by deleteTemporarily); no setDirty *)
Definition rawStatus (s : status) (b : block) : block := with_pers (pers_status (fun _ => s)) b.

(* setFlag / unsetFlag / setStatus: `if (newStatus == status) return; status = newStatus; setDirty();` *)
Definition setStatus (s : status) (b : block) : block :=
  if status_eqb s (bstatus b) then b else setDirty (rawStatus s b).
Definition setFlag (f : flag) (b : block) : block := setStatus (put_flag f true (bstatus b)) b.
Definition unsetFlag (f : flag) (b : block) : block := setStatus (put_flag f false (bstatus b)) b.

(* raiseValidity / lowerValidity AFTER the fix 0c5b5503 (setDirty() inside) *)
Definition raiseValidity (upTo : N) (b : block) : block :=
  if s_fpop (bstatus b) then b
  else if s_level (bstatus b) <? upTo then setDirty (rawStatus (put_level upTo (bstatus b)) b) else b.
Definition lowerValidity (upTo : N) (b : block) : block :=
  if s_fpop (bstatus b) then b
  else if upTo <? s_level (bstatus b) then setDirty (rawStatus (put_level upTo (bstatus b)) b) else b.
(* ... and BEFORE it (defect F9): the status changes but the block is not marked *)
Definition raiseValidity_v0 (upTo : N) (b : block) : block :=
  if s_fpop (bstatus b) then b
  else if s_level (bstatus b) <? upTo then rawStatus (put_level upTo (bstatus b)) b else b.
Definition lowerValidity_v0 (upTo : N) (b : block) : block :=
  if s_fpop (bstatus b) then b
  else if upTo <? s_level (bstatus b) then rawStatus (put_level upTo (bstatus b)) b else b.

Definition pers_pl (l : list N) (p : pers) := mkPers (p_parent p) (p_height p) (p_status p) l (p_ce p) (p_ref p).
Definition pers_ce (l : list endorsement) (p : pers) := mkPers (p_parent p) (p_height p) (p_status p) (p_pl p) l (p_ref p).
Definition pers_ref (r : N) (p : pers) := mkPers (p_parent p) (p_height p) (p_status p) (p_pl p) (p_ce p) r.

(* AltBlockAddon::setPayloads / insertPayloadIds: setDirty();  clearPayloads(): NO setDirty *)
Definition setPayloads (l : list N) (b : block) : block := setDirty (with_pers (pers_pl l) b).
Definition clearPayloads (b : block) : block := with_pers (pers_pl []) b.

Fixpoint remove_first_e (e : N) (l : list endorsement) : list endorsement :=
  match l with [] => [] | x :: r => if fst x =? e then r else x :: remove_first_e e r end.
Fixpoint remove_last_n (e : N) (l : list N) : list N :=   (* erase_last_item_if *)
  match l with
  | [] => []
  | x :: r => if existsb (N.eqb e) r then x :: remove_last_n e r else if x =? e then r else x :: r
  end.

(* PopState: insert/removeContainingEndorsement, insertEndorsedBy: setDirty(); eraseLastFromEndorsedBy: setDirty() iff erased *)
Definition insertCE (e : endorsement) (b : block) : block := setDirty (with_pers (fun p => pers_ce (p_ce p ++ [e]) p) b).
Definition removeCE (e : N) (b : block) : block := setDirty (with_pers (fun p => pers_ce (remove_first_e e (p_ce p)) p) b).
Definition insertBy (e : N) (b : block) : block := setDirty (mkBlock (b_pers b) (b_dirty b) (b_by b ++ [e]) (b_final b)).
Definition eraseBy (e : N) (b : block) : block :=
  if existsb (N.eqb e) (b_by b) then setDirty (mkBlock (b_pers b) (b_dirty b) (remove_last_n e (b_by b)) (b_final b)) else b.
(* VbkBlockAddon::addRef/removeRef/setRef, BtcBlockAddon::addRef/removeRef: setDirty() *)
Definition addRef (b : block) : block := setDirty (with_pers (fun p => pers_ref (p_ref p + 1) p) b).
Definition removeRef (b : block) : block := setDirty (with_pers (fun p => pers_ref (N.pred (p_ref p)) p) b).

(* addon_t::setNull(): clears payload ids, endorsements, refcount; NO setDirty *)
Definition setNullAddon (b : block) : block :=
  mkBlock (mkPers (p_parent (b_pers b)) (p_height (b_pers b)) (p_status (b_pers b)) [] [] 0) (b_dirty b) [] (b_final b).

(* deleteTemporarily: addon setNull; status = (status & FAILED_MASK & ~FAILED_POP) | VALID_UNKNOWN | DELETED;
   setDirty()   (FAILED_POP is no longer preserved: repair of the re-added-removed-block abort) *)
Definition deleteTemporarily (b : block) : block :=
  let s := bstatus b in
  setDirty (rawStatus (mkStatus 0 false (s_fblock s) false (s_fchild s) false false true) (setNullAddon b)).
(* restore(): unsetFlag(BLOCK_DELETED) *)
Definition restore (b : block) : block := unsetFlag FDeleted b.

(* new BlockIndex(prev): FAILED_CHILD inherited via setFlag, height; then setHeader (setDirty) *)
Definition newBlock (parent : option N) (height : N) (parentFailed : bool) : block :=
  let b0 := mkBlock (mkPers parent height status0 [] [] 0) false [] false in
  setDirty (if parentFailed then setFlag FFailedChild b0 else b0).

(* ------------------------------------------------------------------ tree state *)
Definition store := list (N * block).

Fixpoint lookup {A} (m : list (N * A)) (k : N) : option A :=
  match m with [] => None | (k', v) :: r => if k' =? k then Some v else lookup r k end.

Fixpoint upd (m : store) (k : N) (f : block -> block) : store :=
  match m with [] => [] | (k', v) :: r => if k' =? k then (k', f v) :: r else (k', v) :: upd r k f end.

Definition upd_many (m : store) (ks : list N) (f : block -> block) : store := fold_left (fun m k => upd m k f) ks m.

(* canonical (sorted by key) finite map for the on-disk storage *)
Fixpoint insert {A} (m : list (N * A)) (k : N) (v : A) : list (N * A) :=
  match m with
  | [] => [(k, v)]
  | (k', v') :: r => if k <? k' then (k, v) :: m else if k =? k' then (k, v) :: r else (k', v') :: insert r k v
  end.

Record storage := mkStorage { st_blocks : list (N * pers); st_tip : option N }.
Definition storage0 : storage := mkStorage [] None.

Record state := mkState { blocks : store; tip : N }.

(* the two validity mutators are a parameter so that the pre-fix code can be run as well *)
Record prims := mkPrims { p_raise : N -> block -> block; p_lower : N -> block -> block }.
Definition prims_fixed : prims := mkPrims raiseValidity lowerValidity.
Definition prims_v0 : prims := mkPrims raiseValidity_v0 lowerValidity_v0.

(* ------------------------------------------------------------------ operations *)
(* Tree-level operations at the granularity of the code paths that touch blocks. The lists of affected
   blocks (descendants, removed subtree, endorsements) are arguments: the theorems hold for ALL argument
   values, the real traversals are instances (the correspondence driver computes them from the tree). *)
Inductive op :=
| OInsertHeader (id : N) (parent : N)                 (* insertBlockHeader: create | restore; raiseValidity(VALID_TREE) *)
| OSetPayloads (id : N) (pl : list N)                 (* AltBlockTree::setPayloads: ids + setFlag(HAS_PAYLOADS) *)
| OConnect (id : N)                                   (* connectBlock: raiseValidity(CONNECTED) *)
| OApply (id : N) (lvl : N) (es : list endorsement)   (* applyBlock: AddEndorsement*; raiseValidity(lvl); setFlag(ACTIVE) *)
| OUnapply (id : N)                                   (* unapplyBlock: endorsements removed in reverse; unsetFlag(ACTIVE) *)
| OInvalidate (id : N) (reason : flag) (desc : list N)   (* doInvalidate(id,reason); FAILED_CHILD on desc *)
| ORevalidate (id : N) (reason : flag) (desc : list N)   (* doReValidate(id,reason); un-FAILED_CHILD on desc *)
| ORemoveSubtree (ids : list N)                       (* removeSubtree: deleteTemporarily on every block (post-order) *)
| ORemovePayloads (id : N)                            (* removeAllPayloads: clearPayloads; unsetFlag(HAS_PAYLOADS); lowerValidity(VALID_TREE) *)
| OAddRef (id : N) | ORemoveRef (id : N)              (* AddBlock::Execute/UnExecute on an SP tree *)
| OSetTip (id : N)                                    (* overrideTip / activeChain_.setTip *)
| OSave.                                              (* saveTree *)

Inductive outcome := Done (s : state) (st : storage) | Abort (why : N).

Definition parent_failed (m : store) (parent : N) : bool :=
  match lookup m parent with Some p => is_failed (bstatus p) | None => false end.
Definition parent_height (m : store) (parent : N) : N :=
  match lookup m parent with Some p => p_height (b_pers p) | None => 0 end.

Definition apply_endorsements (m : store) (id : N) (es : list endorsement) : store :=
  fold_left (fun m e => upd (upd m id (insertCE e)) (snd e) (insertBy (fst e))) es m.
Definition unapply_endorsements (m : store) (id : N) : store :=
  match lookup m id with
  | None => m
  | Some b => fold_left (fun m e => upd (upd m (snd e) (eraseBy (fst e))) id (removeCE (fst e))) (rev (p_ce (b_pers b))) m
  end.

(* saveTree: every dirty index is written (id -> toStoredBlockIndex) and its bit cleared; the tip is written *)
Definition save (s : state) (st : storage) : state * storage :=
  let written := fold_left (fun acc kb => if b_dirty (snd kb) then insert acc (fst kb) (b_pers (snd kb)) else acc)
                           (blocks s) (st_blocks st) in
  (mkState (map (fun kb => (fst kb, unsetDirty (snd kb))) (blocks s)) (tip s), mkStorage written (Some (tip s))).

Definition step (P : prims) (o : op) (s : state) (st : storage) : outcome :=
  let m := blocks s in
  match o with
  | OInsertHeader id parent =>
    match lookup m id with
    | Some b =>
      if s_deleted (bstatus b) then Done (mkState (upd m id (fun b => p_raise P 1 (restore b))) (tip s)) st
      else Done s st                                   (* duplicate *)
    | None =>
      match lookup m parent with
      | None => Abort 1                                (* caller checked prev != nullptr *)
      | Some p =>
        let nb := newBlock (Some parent) (p_height (b_pers p) + 1) (is_failed (bstatus p)) in
        Done (mkState (m ++ [(id, p_raise P 1 (restore nb))]) (tip s)) st
      end
    end
  | OSetPayloads id pl =>
    match lookup m id with
    | None => Abort 2
    | Some b => if s_haspl (bstatus b) then Abort 3    (* VBK_ASSERT: already contains payloads *)
                else Done (mkState (upd m id (fun b => setFlag FHasPayloads (setPayloads pl b))) (tip s)) st
    end
  | OConnect id => Done (mkState (upd m id (p_raise P 2)) (tip s)) st
  | OApply id lvl es =>
    Done (mkState (upd (apply_endorsements m id es) id (fun b => setFlag FActive (p_raise P lvl b))) (tip s)) st
  | OUnapply id => Done (mkState (upd (unapply_endorsements m id) id (unsetFlag FActive)) (tip s)) st
  | OInvalidate id reason desc =>
    Done (mkState (upd_many (upd m id (setFlag reason)) desc (setFlag FFailedChild)) (tip s)) st
  | ORevalidate id reason desc =>
    Done (mkState (upd_many (upd m id (unsetFlag reason)) desc (unsetFlag FFailedChild)) (tip s)) st
  | ORemoveSubtree ids => Done (mkState (upd_many m ids deleteTemporarily) (tip s)) st
  | ORemovePayloads id =>
    match lookup m id with
    | None => Abort 4
    | Some b => if negb (s_haspl (bstatus b)) then Abort 5   (* VBK_ASSERT: can remove payloads only from blocks with payloads *)
                else Done (mkState (upd m id (fun b => p_lower P 1 (unsetFlag FHasPayloads (clearPayloads b)))) (tip s)) st
    end
  | OAddRef id => Done (mkState (upd m id addRef) (tip s)) st
  | ORemoveRef id => Done (mkState (upd m id removeRef) (tip s)) st
  | OSetTip id => Done (mkState m id) st
  | OSave => let '(s', st') := save s st in Done s' st'
  end.

Fixpoint run (P : prims) (h : list op) (s : state) (st : storage) : outcome :=
  match h with
  | [] => Done s st
  | o :: r => match step P o s st with Done s' st' => run P r s' st' | Abort w => Abort w end
  end.

(* bootstrap: one root block, active, fully valid, dirty (never saved) *)
Definition root_block : block :=
  mkBlock (mkPers None 0 (mkStatus 4 true false false false false true false) [] [] 0) true [] true.
Definition init : state := mkState [(0, root_block)] 0.

(* a full dump of the current state (what a non-incremental save of everything would write) *)
Definition full_dump (s : state) : storage :=
  mkStorage (fold_left (fun acc kb => insert acc (fst kb) (b_pers (snd kb))) (blocks s) []) (Some (tip s)).

(* ------------------------------------------------------------------ load *)
(* loadBlocksAndTip skips deleted blocks; loadTree sorts by height (insertion sort, stable) *)
Fixpoint insert_by_height (x : N * pers) (l : list (N * pers)) : list (N * pers) :=
  match l with
  | [] => [x]
  | y :: r => if p_height (snd x) <? p_height (snd y) then x :: l else y :: insert_by_height x r
  end.
Definition sort_by_height (l : list (N * pers)) : list (N * pers) := fold_right insert_by_height [] l.

Inductive load_result := Loaded (s : state) | LoadFail (why : N).

(* loadBlockInner (forward): the parent must be known unless the block is the bootstrap root; mergeFrom copies
   the persisted fields; setNullInmemFields clears endorsedBy; raiseValidity(VALID_TREE); unsetDirty *)
Definition load_block (P : prims) (m : store) (x : N * pers) : option store :=
  let '(id, p) := x in
  match p_parent p with
  | None => Some (match lookup m id with
                  | Some _ => upd m id (fun b => unsetDirty (p_raise P 1 (mkBlock p true [] (b_final b))))
                  | None => m ++ [(id, unsetDirty (p_raise P 1 (mkBlock p true [] true)))]
                  end)
  | Some par =>
    match lookup m par with
    | None => None                                     (* bad-prev *)
    | Some pb =>
      if negb (p_height p =? p_height (b_pers pb) + 1) then None    (* bad-height *)
      else Some (m ++ [(id, unsetDirty (p_raise P 1 (mkBlock p true [] false)))])
    end
  end.

(* recoverEndorsements: endorsedBy of the endorsed block gets the endorsement back, its dirty bit is kept *)
Definition recover_block (m : store) (x : N * pers) : option store :=
  fold_left (fun acc e => match acc with
                          | None => None
                          | Some m => match lookup m (snd e) with
                                      | None => None      (* no-endorsed *)
                                      | Some eb => Some (upd m (snd e) (fun b => mkBlock (b_pers b) (b_dirty b) (b_by b ++ [fst e]) (b_final b)))
                                      end
                          end) (p_ce (snd x)) (Some m).

Fixpoint load_blocks (P : prims) (l : list (N * pers)) (m : store) : option store :=
  match l with
  | [] => Some m
  | x :: r => match load_block P m x with
              | None => None
              | Some m1 => match recover_block m1 x with None => None | Some m2 => load_blocks P r m2 end
              end
  end.

(* loadTip: walk tip -> root: setFlag(ACTIVE), raiseValidity(CAN_BE_APPLIED) *)
Fixpoint activate_chain (P : prims) (fuel : nat) (m : store) (id : N) : store :=
  match fuel with
  | O => m
  | S f => match lookup m id with
           | None => m
           | Some b => let m' := upd m id (fun b => p_raise P 4 (setFlag FActive b)) in
                       match p_parent (b_pers b) with None => m' | Some par => activate_chain P f m' par end
           end
  end.

Definition load (P : prims) (st : storage) : load_result :=
  let live := filter (fun x => negb (s_deleted (p_status (snd x)))) (st_blocks st) in
  match load_blocks P (sort_by_height live) [] with
  | None => LoadFail 1
  | Some m =>
    match st_tip st with
    | None => if match live with [] => true | _ => false end then Loaded (mkState m 0) else LoadFail 2
    | Some t => match lookup m t with
                | None => LoadFail 3
                | Some _ => Loaded (mkState (activate_chain P (length m) m t) t)
                end
    end
  end.

(* ------------------------------------------------------------------ the recovery window of loadBlockInner *)
(* {Alt,Vbk}BlockTree::loadBlockInner: `window = max(0, height - si); Chain chain(window, current);`
   recoverEndorsements then requires `chain[endorsed->getHeight()]` to be the endorsed block, i.e. the endorsed
   block must not lie below the window start. The window start is a parameter (function of the containing height). *)
Definition window_start (si h : N) : N := h - si.                 (* N subtraction truncates at 0 = max(0, .) *)
Definition window_start_short (si h : N) : N := h - si + 1.       (* the window shortened by one *)

Definition recover_check (wstart : N -> N) (m : store) (x : N * pers) : bool :=
  forallb (fun e => match lookup m (snd e) with
                    | Some eb => wstart (p_height (snd x)) <=? p_height (b_pers eb)
                    | None => false
                    end) (p_ce (snd x)).

Fixpoint load_blocks_w (P : prims) (wstart : N -> N) (l : list (N * pers)) (m : store) : option store :=
  match l with
  | [] => Some m
  | x :: r => match load_block P m x with
              | None => None
              | Some m1 => if recover_check wstart m1 x
                           then match recover_block m1 x with None => None | Some m2 => load_blocks_w P wstart r m2 end
                           else None                       (* bad-endorsements *)
              end
  end.

(* ------------------------------------------------------------------ observations for the correspondence run *)
Definition dirty_ids (s : state) : list N :=
  map fst (filter (fun kb => b_dirty (snd kb)) (blocks s)).
