(** C10 — main theorems: dirty_complete, save_load_roundtrip, crash_loses_only_tail over all
    histories and all placements of save points; refutation for the pre-fix mutators. *)
From Coq Require Import NArith List Bool Lia.
From VB Require Import Store.SaveLoadDefs Store.SaveLoadProofs.
Import ListNotations.
Local Open Scope N_scope.

(* ------------------------------------------------------------------ saveTree *)
Definition written_of (l : store) (acc : list (N * pers)) : list (N * pers) :=
  fold_left (fun acc kb => if b_dirty (snd kb) then insert acc (fst kb) (b_pers (snd kb)) else acc) l acc.

Lemma written_lookup l : forall acc id,
  NoDup (map fst l) ->
  lookup (written_of l acc) id =
    match lookup l id with
    | Some b => if b_dirty b then Some (b_pers b) else lookup acc id
    | None => lookup acc id
    end.
Proof.
  unfold written_of. induction l as [|[k b] r IH]; intros acc id Hnd; cbn [fold_left lookup fst snd map]; [reflexivity|].
  cbn [map fst] in Hnd. inversion Hnd as [|? ? Hnotin Hnd']; subst.
  rewrite IH by exact Hnd'.
  destruct (k =? id) eqn:E.
  - apply N.eqb_eq in E. subst id.
    rewrite (notin_lookup_None r k Hnotin).
    destruct (b_dirty b); [|reflexivity]. rewrite lookup_insert, N.eqb_refl. reflexivity.
  - destruct (b_dirty b).
    + destruct (lookup r id) as [b'|]; [destruct (b_dirty b'); [reflexivity|]|]; rewrite lookup_insert, E; reflexivity.
    + reflexivity.
Qed.

Lemma written_sorted l : forall acc, sorted acc -> sorted (written_of l acc).
Proof.
  unfold written_of. induction l as [|[k b] r IH]; intros acc Hs; cbn [fold_left fst snd]; [exact Hs|].
  apply IH. destruct (b_dirty b); [apply sorted_insert|]; exact Hs.
Qed.

Lemma lookup_map_unsetDirty (m : store) id :
  lookup (map (fun kb => (fst kb, unsetDirty (snd kb))) m) id = option_map unsetDirty (lookup m id).
Proof.
  induction m as [|[k b] r IH]; cbn [map lookup fst snd option_map]; [reflexivity|].
  destruct (k =? id); [reflexivity|exact IH].
Qed.

Lemma keys_map_unsetDirty (m : store) : map fst (map (fun kb => (fst kb, unsetDirty (snd kb))) m) = map fst m.
Proof. induction m as [|[k b] r IH]; cbn [map fst snd]; [reflexivity|now rewrite IH]. Qed.

(* after a save every block is clean and stored with its current projection *)
Definition AllSaved (s : state) (st : storage) : Prop :=
  forall id b, lookup (blocks s) id = Some b -> b_dirty b = false /\ lookup (st_blocks st) id = Some (b_pers b).

Lemma save_spec s st s' st' :
  Inv s st -> save s st = (s', st') -> Inv s' st' /\ AllSaved s' st' /\ st_tip st' = Some (tip s') /\ tip s' = tip s.
Proof.
  intros (Hnd & Hc & Hk & Hs) Hsave. unfold save in Hsave. injection Hsave as <- <-.
  fold (written_of (blocks s) (st_blocks st)).
  assert (Hall : AllSaved (mkState (map (fun kb => (fst kb, unsetDirty (snd kb))) (blocks s)) (tip s))
                          (mkStorage (written_of (blocks s) (st_blocks st)) (Some (tip s)))).
  { intros id b Hl. cbn [blocks st_blocks] in *. rewrite lookup_map_unsetDirty in Hl.
    destruct (lookup (blocks s) id) as [b0|] eqn:E; [|discriminate]. cbn in Hl. injection Hl as <-.
    split; [reflexivity|]. rewrite written_lookup by exact Hnd. rewrite E. cbn [unsetDirty b_pers].
    destruct (b_dirty b0) eqn:Ed; [reflexivity|]. apply Hc; assumption. }
  split; [|split; [exact Hall|split; reflexivity]].
  unfold Inv. cbn [blocks st_blocks]. rewrite keys_map_unsetDirty.
  split; [exact Hnd|]. split; [|split].
  - intros id b Hl _. exact (proj2 (Hall id b Hl)).
  - intros id p Hl. rewrite written_lookup in Hl by exact Hnd.
    destruct (lookup (blocks s) id) as [b0|] eqn:E.
    + exact (lookup_in_keys _ _ _ E).
    + exact (Hk id p Hl).
  - apply written_sorted. exact Hs.
Qed.

(* ------------------------------------------------------------------ every operation preserves the invariant *)
Lemma step_Inv P o s st s' st' : prims_ok P -> Inv s st -> step P o s st = Done s' st' -> Inv s' st'.
Proof.
  intros (Hr & Hl & Hkr & Hkl) HI Hstep. destruct s as [m t]. destruct o; cbn [step blocks tip] in Hstep.
  - (* OInsertHeader *)
    destruct (lookup m id) as [b|] eqn:E.
    + destruct (s_deleted (bstatus b)); injection Hstep as <- <-; [|exact HI].
      apply (Inv_upd_marks m t t). exact HI. apply (marks_comp restore (p_raise P 1)); [apply marks_restore|apply Hr].
    + destruct (lookup m parent) as [p|]; [|discriminate]. injection Hstep as <- <-.
      apply Inv_append; [exact HI|exact E|].
      apply Hkr. unfold restore, unsetFlag. apply keeps_setStatus. unfold newBlock. reflexivity.
  - (* OSetPayloads *)
    destruct (lookup m id) as [b|]; [|discriminate]. destruct (s_haspl (bstatus b)); [discriminate|].
    injection Hstep as <- <-. apply (Inv_upd_marks m t t). exact HI.
    apply (marks_comp (setPayloads pl) (setFlag FHasPayloads)); [apply marks_setPayloads|apply marks_setFlag].
  - (* OConnect *)
    injection Hstep as <- <-. apply (Inv_upd_marks m t t). exact HI. apply Hr.
  - (* OApply *)
    injection Hstep as <- <-. apply (Inv_upd_marks _ t t).
    + apply Inv_apply_endorsements. exact HI.
    + apply (marks_comp (p_raise P lvl) (setFlag FActive)); [apply Hr|apply marks_setFlag].
  - (* OUnapply *)
    injection Hstep as <- <-. apply (Inv_upd_marks _ t t); [|apply marks_unsetFlag].
    apply Inv_unapply_endorsements. exact HI.
  - (* OInvalidate *)
    injection Hstep as <- <-. apply Inv_upd_many; [|apply marks_setFlag].
    apply (Inv_upd_marks m t t); [exact HI|apply marks_setFlag].
  - (* ORevalidate *)
    injection Hstep as <- <-. apply Inv_upd_many; [|apply marks_unsetFlag].
    apply (Inv_upd_marks m t t); [exact HI|apply marks_unsetFlag].
  - (* ORemoveSubtree *)
    injection Hstep as <- <-. apply Inv_upd_many; [exact HI|apply marks_deleteTemporarily].
  - (* ORemovePayloads: clearPayloads has no setDirty; the block is marked by unsetFlag(HAS_PAYLOADS),
       which changes the status because the flag is asserted to be set *)
    destruct (lookup m id) as [b|] eqn:E; [|discriminate].
    destruct (s_haspl (bstatus b)) eqn:Eh; [|discriminate]. cbn [negb] in Hstep.
    injection Hstep as <- <-. apply (Inv_upd m t t st id). exact HI.
    intros b0 Hb0. rewrite E in Hb0. injection Hb0 as <-. intros Hclean. exfalso.
    assert (Hd : b_dirty (unsetFlag FHasPayloads (clearPayloads b)) = true).
    { apply dirty_unsetFlag_set. exact Eh. }
    rewrite (Hkl 1 _ Hd) in Hclean. discriminate.
  - (* OAddRef *) injection Hstep as <- <-. apply (Inv_upd_marks m t t); [exact HI|apply marks_addRef].
  - (* ORemoveRef *) injection Hstep as <- <-. apply (Inv_upd_marks m t t); [exact HI|apply marks_removeRef].
  - (* OSetTip *) injection Hstep as <- <-. exact HI.
  - (* OSave *)
    destruct (save (mkState m t) st) as [s1 st1] eqn:Es. injection Hstep as <- <-.
    exact (proj1 (save_spec _ _ _ _ HI Es)).
Qed.

Lemma Inv_init : Inv init storage0.
Proof.
  unfold Inv, init, storage0. cbn [blocks st_blocks map fst].
  split; [constructor; [intros []|constructor]|]. split; [|split; [|exact I]].
  - intros id b Hl Hd. cbn [lookup] in Hl. destruct (0 =? id); [|discriminate]. injection Hl as <-. discriminate.
  - intros id p Hl. discriminate.
Qed.

Lemma run_Inv P h : forall s st s' st', prims_ok P -> Inv s st -> run P h s st = Done s' st' -> Inv s' st'.
Proof.
  induction h as [|o r IH]; intros s st s' st' HP HI Hrun; cbn [run] in Hrun.
  - injection Hrun as <- <-. exact HI.
  - destruct (step P o s st) as [s1 st1|w] eqn:E; [|discriminate].
    exact (IH s1 st1 s' st' HP (step_Inv P o s st s1 st1 HP HI E) Hrun).
Qed.

Lemma run_app P h1 : forall h2 s st,
  run P (h1 ++ h2) s st = match run P h1 s st with Done s1 st1 => run P h2 s1 st1 | Abort w => Abort w end.
Proof.
  induction h1 as [|o r IH]; intros h2 s st; cbn [app run]; [reflexivity|].
  destruct (step P o s st); [apply IH|reflexivity].
Qed.

(* ---- (1) dirty_complete: in every reachable state, a block that is not dirty is on disk with exactly its
        current persisted projection; i.e. every block whose projection changed since it was last written
        is dirty.  [h] is ANY history with saves at ANY positions. *)
Lemma dirty_complete h s st :
  run prims_fixed h init storage0 = Done s st ->
  forall id b, lookup (blocks s) id = Some b -> b_dirty b = false -> lookup (st_blocks st) id = Some (b_pers b).
Proof.
  intros Hrun. destruct (run_Inv prims_fixed h _ _ _ _ prims_fixed_ok Inv_init Hrun) as (_ & Hc & _). exact Hc.
Qed.

(* ---- (2) save_load_roundtrip: after the last save the incrementally accumulated storage IS the full dump
        of the current state, so loading it gives what loading a complete snapshot of that state gives. *)
Lemma full_dump_lookup (m : store) : forall acc id, NoDup (map fst m) ->
  lookup (fold_left (fun acc kb => insert acc (fst kb) (b_pers (snd kb))) m acc) id =
    match lookup m id with Some b => Some (b_pers b) | None => lookup acc id end.
Proof.
  induction m as [|[k b] r IH]; intros acc id Hnd; cbn [fold_left lookup fst snd]; [reflexivity|].
  cbn [map fst] in Hnd. inversion Hnd as [|? ? Hnotin Hnd']; subst. rewrite IH by exact Hnd'.
  destruct (k =? id) eqn:E.
  - apply N.eqb_eq in E. subst id. rewrite (notin_lookup_None r k Hnotin), lookup_insert, N.eqb_refl. reflexivity.
  - destruct (lookup r id); [reflexivity|]. rewrite lookup_insert, E. reflexivity.
Qed.

Lemma full_dump_sorted (m : store) : forall acc, sorted acc ->
  sorted (fold_left (fun acc kb => insert acc (fst kb) (b_pers (snd kb))) m acc).
Proof.
  induction m as [|[k b] r IH]; intros acc Hs; cbn [fold_left fst snd]; [exact Hs|].
  apply IH. apply sorted_insert. exact Hs.
Qed.

Lemma saved_is_full_dump s st : Inv s st -> AllSaved s st -> st_tip st = Some (tip s) -> st = full_dump s.
Proof.
  intros (Hnd & Hc & Hk & Hs) Hall Htip. destruct st as [sb stip]. cbn [st_blocks st_tip] in *. subst stip.
  unfold full_dump. f_equal. apply sorted_ext; [exact Hs|apply full_dump_sorted; exact I|].
  intros id. rewrite full_dump_lookup by exact Hnd. cbn [lookup].
  destruct (lookup (blocks s) id) as [b|] eqn:E.
  - exact (proj2 (Hall id b E)).
  - destruct (lookup sb id) as [p|] eqn:E2; [|reflexivity].
    exfalso. exact (lookup_None_notin _ _ E (Hk id p E2)).
Qed.

Lemma save_load_roundtrip h s st :
  run prims_fixed (h ++ [OSave]) init storage0 = Done s st ->
  st = full_dump s /\ load prims_fixed st = load prims_fixed (full_dump s).
Proof.
  intros Hrun. rewrite run_app in Hrun.
  destruct (run prims_fixed h init storage0) as [s1 st1|w] eqn:E1; [|discriminate].
  pose proof (run_Inv prims_fixed h _ _ _ _ prims_fixed_ok Inv_init E1) as HI.
  cbn [run step] in Hrun. destruct (save s1 st1) as [s2 st2] eqn:Es. injection Hrun as <- <-.
  destruct (save_spec _ _ _ _ HI Es) as (HI2 & Hall & Htip & _).
  assert (Heq : st2 = full_dump s2) by (apply saved_is_full_dump; assumption).
  split; [exact Heq|]. rewrite <- Heq. reflexivity.
Qed.

(* ---- (3) crash_loses_only_tail: whatever happens after a completed save (and before the next one) does
        not touch the storage: a crash there loads the state of that save. *)
Fixpoint no_save (h : list op) : bool :=
  match h with [] => true | OSave :: _ => false | _ :: r => no_save r end.

Lemma step_no_save P o s st s' st' : (match o with OSave => false | _ => true end) = true ->
  step P o s st = Done s' st' -> st' = st.
Proof.
  intros Hno Hstep. destruct o; try discriminate; cbn [step] in Hstep;
    repeat match type of Hstep with
           | context [match ?x with _ => _ end] => destruct x; try discriminate
           end; injection Hstep as _ <-; reflexivity.
Qed.

Lemma run_no_save P h : forall s st s' st', no_save h = true -> run P h s st = Done s' st' -> st' = st.
Proof.
  induction h as [|o r IH]; intros s st s' st' Hno Hrun; cbn [run] in Hrun.
  - injection Hrun as _ <-. reflexivity.
  - destruct (step P o s st) as [s1 st1|w] eqn:E; [|discriminate].
    assert (Ho : (match o with OSave => false | _ => true end) = true /\ no_save r = true).
    { destruct o; cbn [no_save] in Hno; try discriminate; split; auto. }
    destruct Ho as [Ho Hr]. rewrite (IH s1 st1 s' st' Hr Hrun). exact (step_no_save P o s st s1 st1 Ho E).
Qed.

Lemma crash_loses_only_tail h1 h2 s1 st1 s2 st2 :
  run prims_fixed (h1 ++ [OSave]) init storage0 = Done s1 st1 ->
  no_save h2 = true ->
  run prims_fixed ((h1 ++ [OSave]) ++ h2) init storage0 = Done s2 st2 ->
  st2 = st1 /\ st2 = full_dump s1 /\ load prims_fixed st2 = load prims_fixed (full_dump s1).
Proof.
  intros H1 Hno H2. rewrite run_app, H1 in H2.
  pose proof (run_no_save prims_fixed h2 _ _ _ _ Hno H2) as ->.
  destruct (save_load_roundtrip h1 s1 st1 H1) as [Ha Hb]. auto.
Qed.

(* ---- (4) the pre-fix code (raiseValidity/lowerValidity without setDirty, defect F9) violates dirty_complete:
        header P(1), header C(2), body C, SAVE, body P (connects P, then C), SAVE. *)
Definition f9_history : list op :=
  [OInsertHeader 1 0; OInsertHeader 2 1; OSetPayloads 2 []; OSave; OSetPayloads 1 []; OConnect 1; OConnect 2; OSave].

Lemma dirty_complete_v0_refuted :
  exists s st b,
    run prims_v0 f9_history init storage0 = Done s st /\
    lookup (blocks s) 2 = Some b /\ b_dirty b = false /\
    s_level (bstatus b) = 2 /\
    (exists p, lookup (st_blocks st) 2 = Some p /\ status_word (p_status p) = 257 /\ status_word (bstatus b) = 258 /\ p <> b_pers b).
Proof.
  destruct (run prims_v0 f9_history init storage0) as [s st|w] eqn:E; [|vm_compute in E; discriminate].
  vm_compute in E. injection E as <- <-.
  eexists _, _, _. split; [reflexivity|]. split; [vm_compute; reflexivity|]. split; [reflexivity|]. split; [reflexivity|].
  eexists. split; [vm_compute; reflexivity|]. split; [reflexivity|]. split; [reflexivity|]. intros H. discriminate H.
Qed.

(* the same history on the repaired code: the reloaded child is connected *)
Example f9_history_fixed_ok :
  exists s st, run prims_fixed f9_history init storage0 = Done s st /\ st = full_dump s /\
    option_map (fun p => s_level (p_status p)) (lookup (st_blocks st) 2) = Some 2.
Proof.
  destruct (run prims_fixed f9_history init storage0) as [s st|w] eqn:E; [|vm_compute in E; discriminate].
  vm_compute in E. injection E as <- <-. eexists _, _. split; [reflexivity|]. split; vm_compute; reflexivity.
Qed.

(* non-vacuity: a history with forks, endorsements, invalidation, removal, payload removal and three saves runs *)
Example history_runs :
  exists s st, run prims_fixed
    [OInsertHeader 1 0; OSetPayloads 1 [10]; OConnect 1; OApply 1 4 [(100, 0)]; OSetTip 1; OSave;
     OInsertHeader 2 1; OInsertHeader 3 1; OSetPayloads 3 [11]; OConnect 3; OInvalidate 2 FFailedBlock []; OSave;
     OUnapply 1; OSetTip 0; ORevalidate 2 FFailedBlock []; ORemovePayloads 3; ORemoveSubtree [3]; OInsertHeader 3 1; OSave]
    init storage0 = Done s st /\ st = full_dump s.
Proof.
  eexists _, _. split; [vm_compute; reflexivity|]. vm_compute. reflexivity.
Qed.
