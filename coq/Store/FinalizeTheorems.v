(** C09 — main theorems about the finalization model: final_monotone over operation histories,
    what finalizeBlockImpl retains, and the partial transparency statement. *)
From Coq Require Import NArith List Bool Lia.
From VB Require Import Store.FinalizeDefs Store.FinalizeProofs.
Import ListNotations.
Local Open Scope N_scope.

(* ------------------------------------------------------------------ lookups through filter / map *)
Lemma flookup_filter {A} (keep : N -> bool) (m : list (N * A)) k :
  flookup (filter (fun kb => keep (fst kb)) m) k = if keep k then flookup m k else None.
Proof.
  induction m as [|[k' v] r IH]; cbn [filter flookup fst]; [destruct (keep k); reflexivity|].
  destruct (keep k') eqn:Ek; cbn [flookup].
  - destruct (k' =? k) eqn:E; [apply N.eqb_eq in E; subst k'; rewrite Ek; reflexivity|exact IH].
  - rewrite IH. destruct (k' =? k) eqn:E; [apply N.eqb_eq in E; subst k'; rewrite Ek; reflexivity|reflexivity].
Qed.

Lemma flookup_filter' {A} (P : N * A -> bool) (keep : N -> bool) (m : list (N * A)) k :
  (forall kb, P kb = keep (fst kb)) -> flookup (filter P m) k = if keep k then flookup m k else None.
Proof.
  intros HP. rewrite <- (flookup_filter keep m k). f_equal. apply filter_ext. exact HP.
Qed.

Lemma flookup_set_parent_none id bl k :
  flookup (set_parent_none id bl) k =
  option_map (fun b => if k =? id then mkF None (f_height b) (f_dirty b) (f_final b) (f_pl b) else b) (flookup bl k).
Proof.
  unfold set_parent_none. rewrite flookup_map_fst.
  - destruct (flookup bl k); cbn [option_map fst snd]; [|reflexivity]. destruct (k =? id); reflexivity.
  - intros [k' v]. cbn [fst snd]. destruct (k' =? id); reflexivity.
Qed.

Lemma flookup_mark_final ids bl k :
  flookup (mark_final ids bl) k =
  option_map (fun b => if existsb (N.eqb k) ids then mkF (f_parent b) (f_height b) (f_dirty b) true (f_pl b) else b)
             (flookup bl k).
Proof.
  unfold mark_final. rewrite flookup_map_fst.
  - destruct (flookup bl k); cbn [option_map fst snd]; [|reflexivity]. destruct (existsb (N.eqb k) ids); reflexivity.
  - intros [k' v]. cbn [fst snd]. destruct (existsb (N.eqb k') ids); reflexivity.
Qed.

Lemma ancestor_at_height fuel t : forall id h x, ancestor_at fuel t id h = Some x -> h <= height_of t id.
Proof.
  induction fuel as [|f IH]; intros id h x H; cbn [ancestor_at] in H; unfold height_of;
    destruct (flookup (t_blocks t) id) as [b|]; try discriminate;
    destruct (f_height b <? h) eqn:E1; try discriminate; apply N.ltb_ge in E1; exact E1.
Qed.

(* ------------------------------------------------------------------ structure of the result of finalizeBlockImpl *)
(* In the deallocating branch the new block map is the old one restricted to [keep], with the new root's
   parent cleared and the newly final blocks marked: nothing else about a retained block changes. *)
Definition same_but_final (b b' : fblock) : Prop :=
  f_height b' = f_height b /\ f_pl b' = f_pl b /\ f_dirty b' = f_dirty b /\ (f_final b = true -> f_final b' = true).

Lemma finalize_block_view fuel t idx preserve :
  (idx =? root_of t) = false ->
  forall tips' fin newRoot,
  erase_tips fuel t (t_tips t) (lowest_dirty fuel t idx idx) = (tips', fin) ->
  chain_at t (N.max (height_of t (root_of t)) (height_of t fin - preserve)) = Some newRoot ->
  let keep := fun id : N => descends fuel t id newRoot &&
                            negb (negb (newRoot =? root_of t) && under_sibling fuel t fin id) in
  let t' := finalizeBlockImpl fuel t idx preserve in
  (forall id, keep id = false -> flookup (t_blocks t') id = None) /\
  (forall id b, keep id = true -> flookup (t_blocks t) id = Some b ->
     exists b', flookup (t_blocks t') id = Some b' /\ same_but_final b b' /\
                (id <> newRoot -> f_parent b' = f_parent b) /\ (id = newRoot -> f_parent b' = None)) /\
  t_chain t' = filter (fun id => N.max (height_of t (root_of t)) (height_of t fin - preserve) <=? height_of t id) (t_chain t).
Proof.
  intros Hroot tips' fin newRoot He Hc keep t'. subst t'. unfold finalizeBlockImpl. rewrite Hroot, He, Hc.
  cbn [t_blocks t_chain]. fold keep. split; [|split; [|reflexivity]].
  - intros id Hk. rewrite flookup_mark_final, flookup_set_parent_none, (flookup_filter' _ keep) by (intros kb; reflexivity). rewrite Hk. reflexivity.
  - intros id b Hk Hl. rewrite flookup_mark_final, flookup_set_parent_none, (flookup_filter' _ keep) by (intros kb; reflexivity). rewrite Hk, Hl.
    cbn [option_map]. eexists. split; [reflexivity|].
    destruct (id =? newRoot) eqn:En.
    + apply N.eqb_eq in En. subst id.
      split; [|split; [congruence|intros _]];
        destruct (existsb (N.eqb newRoot) _); cbn; try reflexivity; repeat split; auto.
    + apply N.eqb_neq in En.
      split; [|split; [intros _|congruence]];
        destruct (existsb (N.eqb id) _); cbn; try reflexivity; repeat split; auto.
Qed.

(* ------------------------------------------------------------------ final_monotone *)
Definition fin_or_gone (t : ftree) (b : N) : Prop :=
  (In b (t_chain t) /\ is_final t b = true) \/ flookup (t_blocks t) b = None.

Lemma finalizeBlockImpl_monotone fuel t idx preserve b :
  fin_or_gone t b -> fin_or_gone (finalizeBlockImpl fuel t idx preserve) b.
Proof.
  intros H. destruct (idx =? root_of t) eqn:Hroot.
  - unfold finalizeBlockImpl. rewrite Hroot. destruct (is_final t idx); [exact H|].
    destruct H as [[Hin Hf]|Hn].
    + left. cbn [t_chain]. split; [exact Hin|]. destruct t as [bl ch tp fp]. apply (is_final_mark_final _ _ _ _ _ _ ch tp fp). exact Hf.
    + right. cbn [t_blocks]. rewrite flookup_mark_final, Hn. reflexivity.
  - destruct (erase_tips fuel t (t_tips t) (lowest_dirty fuel t idx idx)) as [tips' fin] eqn:He.
    destruct (chain_at t (N.max (height_of t (root_of t)) (height_of t fin - preserve))) as [newRoot|] eqn:Hc.
    2:{ unfold finalizeBlockImpl. rewrite Hroot, He, Hc. exact H. }
    destruct (finalize_block_view fuel t idx preserve Hroot tips' fin newRoot He Hc) as (Hgone & Hkept & Hchain).
    set (keep := fun id : N => descends fuel t id newRoot &&
                               negb (negb (newRoot =? root_of t) && under_sibling fuel t fin id)) in *.
    destruct H as [[Hin Hf]|Hn].
    + destruct (keep b) eqn:Hk; [|right; exact (Hgone b Hk)].
      unfold is_final in Hf. destruct (flookup (t_blocks t) b) as [bb|] eqn:Hl; [|discriminate].
      destruct (Hkept b bb Hk Hl) as (b' & Hl' & (_ & _ & _ & Hfin) & _).
      left. split.
      * rewrite Hchain. apply filter_In. split; [exact Hin|]. apply N.leb_le.
        destruct (chain_at_find t _ _ _ Hc) as [_ Hh]. rewrite <- Hh.
        unfold keep in Hk. apply andb_true_iff in Hk. destruct Hk as [Hd _]. unfold descends in Hd.
        destruct (ancestor_at fuel t b (height_of t newRoot)) as [x|] eqn:Ea; [|discriminate].
        exact (ancestor_at_height fuel t b _ x Ea).
      * unfold is_final. rewrite Hl'. exact (Hfin Hf).
    + right. destruct (keep b) eqn:Hk; [|exact (Hgone b Hk)].
      (* kept but absent: still absent *)
      unfold finalizeBlockImpl. rewrite Hroot, He, Hc. cbn [t_blocks].
      rewrite flookup_mark_final, flookup_set_parent_none, (flookup_filter' _ keep) by (intros kb; reflexivity).
      rewrite Hn. destruct (keep b); reflexivity.
Qed.

Lemma finalizeBlocks_monotone fuel t m p h b :
  fin_or_gone t b -> fin_or_gone (finalizeBlocks fuel t m p h) b.
Proof.
  intros H. unfold finalizeBlocks. destruct (_ <? m); [exact H|].
  destruct (chain_at t _) as [fi|]; [|exact H]. destruct (h <=? _); [exact H|].
  apply finalizeBlockImpl_monotone. exact H.
Qed.

(* operation histories on a finalizing tree *)
Inductive fop :=
| FSetTip (to : N)                                  (* setState / comparePopScore switching the tip *)
| FFinalize (maxReorg preserve maxFinH : N)         (* finalizeBlocks (public call or automatic in overrideTip) *)
| FAdd (id parent : N) (pl : list N)                (* acceptBlockHeader + acceptBlock of a new block *)
| FSaved.                                           (* saveTrees: dirty bits cleared *)

Definition fstep (fuel : nat) (t : ftree) (o : fop) : fres :=
  match o with
  | FSetTip to => setTip fuel t to
  | FFinalize m p h => FOk (finalizeBlocks fuel t m p h)
  | FAdd id parent pl =>
    match flookup (t_blocks t) id with
    | Some _ => FOk t
    | None => match flookup (t_blocks t) parent with
              | None => FAbort
              | Some pb => FOk (mkT (t_blocks t ++ [(id, mkF (Some parent) (f_height pb + 1) true false pl)])
                                    (t_chain t) (t_tips t ++ [id]) (t_fpidx t))
              end
    end
  | FSaved => FOk (mkT (map (fun kb => (fst kb, mkF (f_parent (snd kb)) (f_height (snd kb)) false (f_final (snd kb)) (f_pl (snd kb))))
                            (t_blocks t)) (t_chain t) (t_tips t) (t_fpidx t))
  end.

Fixpoint frun (fuel : nat) (ops : list fop) (t : ftree) : fres :=
  match ops with
  | [] => FOk t
  | o :: r => match fstep fuel t o with FOk t' => frun fuel r t' | FAbort => FAbort end
  end.

(* the hash of a deallocated block is not accepted again (its parent is gone as well) *)
Definition never_readds (b : N) (ops : list fop) : bool :=
  forallb (fun o => match o with FAdd id _ _ => negb (id =? b) | _ => true end) ops.

Lemma flookup_app_none {A} (m : list (N * A)) k x v : k <> x -> flookup (m ++ [(x, v)]) k = flookup m k.
Proof.
  intros Hne. induction m as [|[k' v'] r IH]; cbn [app flookup].
  - destruct (x =? k) eqn:E; [apply N.eqb_eq in E; congruence|reflexivity].
  - destruct (k' =? k); [reflexivity|exact IH].
Qed.

Lemma fstep_monotone fuel t o t' b :
  (match o with FAdd id _ _ => negb (id =? b) | _ => true end) = true ->
  fstep fuel t o = FOk t' -> fin_or_gone t b -> fin_or_gone t' b.
Proof.
  intros Hno Hs H. destruct o as [to|m p h|id parent pl|]; cbn [fstep] in Hs.
  - destruct (setTip_blocks fuel t to t' Hs) as [Hb _].
    destruct H as [[Hin Hf]|Hn].
    + left. split; [exact (setTip_keeps_final fuel t to t' b Hs Hin Hf)|]. unfold is_final in *. rewrite Hb. exact Hf.
    + right. rewrite Hb. exact Hn.
  - injection Hs as <-. apply finalizeBlocks_monotone. exact H.
  - destruct (flookup (t_blocks t) id); [injection Hs as <-; exact H|].
    destruct (flookup (t_blocks t) parent) as [pb|]; [|discriminate]. injection Hs as <-.
    apply negb_true_iff, N.eqb_neq in Hno.
    destruct H as [[Hin Hf]|Hn].
    + left. cbn [t_chain]. split; [exact Hin|]. unfold is_final in *. cbn [t_blocks].
      rewrite flookup_app_none by congruence. exact Hf.
    + right. cbn [t_blocks]. rewrite flookup_app_none by congruence. exact Hn.
  - injection Hs as <-. destruct H as [[Hin Hf]|Hn].
    + left. cbn [t_chain]. split; [exact Hin|]. unfold is_final in *. cbn [t_blocks].
      rewrite flookup_map_fst by (intros [k v]; reflexivity).
      destruct (flookup (t_blocks t) b); cbn [option_map fst snd f_final] in *; [exact Hf|discriminate].
    + right. cbn [t_blocks]. rewrite flookup_map_fst by (intros [k v]; reflexivity). rewrite Hn. reflexivity.
Qed.

(* ---- final_monotone: once a block of the active chain is finalized, after ANY history of tip switches,
        finalizations, block additions and saves that does not abort (assertBlockCanBeUnapplied) it is still on
        the active chain and final — or it has been deallocated behind the root of the chain. *)
Lemma final_monotone fuel ops : forall t t' b,
  never_readds b ops = true ->
  In b (t_chain t) -> is_final t b = true ->
  frun fuel ops t = FOk t' ->
  (In b (t_chain t') /\ is_final t' b = true) \/ flookup (t_blocks t') b = None.
Proof.
  assert (G : forall t t' b, never_readds b ops = true -> fin_or_gone t b -> frun fuel ops t = FOk t' -> fin_or_gone t' b).
  { induction ops as [|o r IH]; intros t t' b Hn H Hr; cbn [frun] in Hr.
    - injection Hr as <-. exact H.
    - cbn [never_readds forallb] in Hn. apply andb_true_iff in Hn. destruct Hn as [Hn1 Hn2].
      destruct (fstep fuel t o) as [t1|] eqn:E; [|discriminate].
      exact (IH t1 t' b Hn2 (fstep_monotone fuel t o t1 b Hn1 E H) Hr). }
  intros t t' b Hn Hin Hf Hr. exact (G t t' b Hn (or_introl (conj Hin Hf)) Hr).
Qed.

(* ---- finalize_transparent_partial: finalization leaves the retained part of the tree untouched: every block
        that descends from the new root and is not under a sibling of the final block keeps its height, payload
        ids, dirty bit and (except for the new root itself) its parent; so every walk (getAncestor, getForkBlock,
        duplicate search along the chain) that stays above the new root sees the same blocks before and after.
        GAP to the full statement (same answers of setState/comparePopScore/payouts for all later candidates):
        POP command execution is not part of this model; on the real library it is NOT transparent under the
        asserted relation preserve >= settlement alone (known finding ctx-keystone-dealloc: CheckPublicationData
        needs two keystones below the endorsed block), see corpus/C09/F12_ctx_keystone_dealloc.json. *)
Lemma finalize_transparent_partial fuel t idx preserve :
  (idx =? root_of t) = false ->
  forall tips' fin newRoot,
  erase_tips fuel t (t_tips t) (lowest_dirty fuel t idx idx) = (tips', fin) ->
  chain_at t (N.max (height_of t (root_of t)) (height_of t fin - preserve)) = Some newRoot ->
  forall id b,
  flookup (t_blocks t) id = Some b ->
  descends fuel t id newRoot = true ->
  (negb (newRoot =? root_of t) && under_sibling fuel t fin id) = false ->
  exists b', flookup (t_blocks (finalizeBlockImpl fuel t idx preserve)) id = Some b' /\
             f_height b' = f_height b /\ f_pl b' = f_pl b /\ f_dirty b' = f_dirty b /\
             (id <> newRoot -> f_parent b' = f_parent b).
Proof.
  intros Hroot tips' fin newRoot He Hc id b Hl Hd Hs.
  destruct (finalize_block_view fuel t idx preserve Hroot tips' fin newRoot He Hc) as (_ & Hkept & _).
  assert (Hk : (descends fuel t id newRoot && negb (negb (newRoot =? root_of t) && under_sibling fuel t fin id)) = true).
  { rewrite Hd, Hs. reflexivity. }
  destruct (Hkept id b Hk Hl) as (b' & Hl' & (H1 & H2 & H3 & _) & H4 & _).
  exists b'. auto.
Qed.

(* non-vacuity: a 12-block chain with a side fork; finalization with maxReorg 4, preserve 2 moves the root,
   deallocates the fork and fills the finalized payload index; the old tip is still the tip *)
Definition chain12 : ftree :=
  let mk := fun (i : N) => (i, mkF (if i =? 0 then None else Some (i - 1)) i false (i =? 0) [100 + i]) in
  mkT (map mk [0;1;2;3;4;5;6;7;8;9;10;11;12] ++ [(20, mkF (Some 3) 4 false false [200])])
      [0;1;2;3;4;5;6;7;8;9;10;11;12] [12; 20] [].

Example finalize_example :
  let t' := finalizeBlocks 30 chain12 4 2 1000 in
  t_chain t' = [6;7;8;9;10;11;12] /\ is_final t' 8 = true /\ is_final t' 9 = false /\
  flookup (t_blocks t') 20 = None /\ flookup (t_blocks t') 5 = None /\ t_tips t' = [12] /\
  In (103, 3) (t_fpidx t') /\ In (108, 8) (t_fpidx t') /\
  cmp_shortcut 30 t' 99 = Some 1.
Proof. vm_compute. repeat split; auto 20. Qed.

(* ---- retained: the finalized payload index never loses an entry, and every payload id of an active-chain
        block that finalizeBlockImpl deallocates (not yet final blocks below the new root) is in it afterwards *)
Lemma retained fuel t idx preserve :
  (forall x, In x (t_fpidx t) -> In x (t_fpidx (finalizeBlockImpl fuel t idx preserve))) /\
  ((idx =? root_of t) = false ->
   forall tips' fin newRoot rp id b p,
   erase_tips fuel t (t_tips t) (lowest_dirty fuel t idx idx) = (tips', fin) ->
   chain_at t (N.max (height_of t (root_of t)) (height_of t fin - preserve)) = Some newRoot ->
   parent_of t newRoot = Some rp ->
   In id (unfinal_path fuel t rp) -> flookup (t_blocks t) id = Some b -> In p (f_pl b) ->
   In (p, id) (t_fpidx (finalizeBlockImpl fuel t idx preserve))).
Proof.
  split.
  - intros x. apply finalize_fpidx_grows.
  - apply finalize_remembers_deallocated.
Qed.

(* isBlockOutdated: descendants of the final block are never outdated; blocks strictly below it or on its
   height (and different) always are *)
Lemma outdated_cases rec fuel t fin cand b :
  flookup (t_blocks t) cand = Some b ->
  (descends fuel t cand fin = true -> outdated rec fuel t fin cand = false) /\
  (height_of t cand < height_of t fin -> outdated rec fuel t fin cand = true) /\
  (height_of t cand = height_of t fin -> cand <> fin -> outdated rec fuel t fin cand = true).
Proof.
  intros Hl. split; [apply outdated_descendant|]. split.
  - intros H. apply outdated_below; [exact H|congruence].
  - intros H1 H2. exact (outdated_parallel rec fuel t fin cand b Hl H1 H2).
Qed.
