(** C10 — reload equivalence, main theorems.
      reload_equiv      for every history whose operations meet the caller guarantees [pre] (ReloadEquiv.v), with saves
                        at any positions: load of the accumulated storage SUCCEEDS and the loaded state is
                        [equiv]alent to the live one.  The invariant that makes load succeed is [wf] (ReloadEquiv.v):
                        it is established by [init] and preserved by every guarded operation ([step_wf], [run_wf]).
                        Every failure branch of [load] is excluded by it:
                          load_block   bad-prev / bad-height  - wf_parent (parent index one below, parent of a tree block is a tree block)
                          recover      no-endorsed            - wf_ce (endorsed block is a tree block strictly below)
                          LoadFail 2   blocks without a tip   - the storage of a save always has a tip
                          LoadFail 3   tip not loaded         - wf_tip
                          loadTip changing persisted fields   - wf_tip + level_ok + wf_parent (the stored chain is ACTIVE and fully valid)
      reload_continues  the reloaded instance follows the live one op for op over any guarded follow-up history:
                        same outcome (Done / the same Abort code) and equivalent states.
      unguarded_reload_refuted   without the guarantees the statement is false in the model (free arguments).
    Examples at the end: a history with forks, invalidation, re-validation, removal and re-adding of blocks, payload
    changes, endorsements, reorgs and several saves meets the premises (by computation, ReloadGuardB.v) and the
    reloaded state equals the live one up to dirty bits, map order and removed indices. *)
From Coq Require Import NArith List Bool Lia Permutation.
From VB Require Import Store.SaveLoadDefs Store.SaveLoadProofs Store.SaveLoadTheorems Store.LoadProofs Store.LoadSort.
From VB Require Import Store.ReloadEquiv Store.ReloadWfA Store.ReloadWfB Store.ReloadLoad Store.ReloadCont Store.ReloadGuardB.
From VB Require Import Store.ChainWorkDefs Store.ChainWorkProofs Store.ReloadChainWork.
Import ListNotations.
Local Open Scope N_scope.

(* ------------------------------------------------------------------ the invariant is inductive *)
Lemma step_wf o s st s' st' : wf s -> pre s o -> step prims_fixed o s st = Done s' st' -> wf s'.
Proof.
  destruct o; intros HW HP HS.
  - exact (step_wf_OInsertHeader _ _ _ _ _ _ HW HP HS).
  - exact (step_wf_OSetPayloads _ _ _ _ _ _ HW HP HS).
  - exact (step_wf_OConnect _ _ _ _ _ HW HP HS).
  - exact (step_wf_OApply _ _ _ _ _ _ _ HW HP HS).
  - exact (step_wf_OUnapply _ _ _ _ _ HW HP HS).
  - exact (step_wf_OInvalidate _ _ _ _ _ _ _ HW HP HS).
  - exact (step_wf_ORevalidate _ _ _ _ _ _ _ HW HP HS).
  - exact (step_wf_ORemoveSubtree _ _ _ _ _ HW HP HS).
  - exact (step_wf_ORemovePayloads _ _ _ _ _ HW HP HS).
  - exact (step_wf_OAddRef _ _ _ _ _ HW HP HS).
  - exact (step_wf_ORemoveRef _ _ _ _ _ HW HP HS).
  - exact (step_wf_OSetTip _ _ _ _ _ HW HP HS).
  - exact (step_wf_OSave _ _ _ _ HW HP HS).
Qed.

Lemma run_wf h : forall s st s' st', wf s -> guarded h s st -> run prims_fixed h s st = Done s' st' -> wf s'.
Proof.
  induction h as [|o r IH]; intros s st s' st' HW HG HR; cbn [run guarded] in *.
  - injection HR as <- <-. exact HW.
  - destruct HG as [HP HG]. destruct (step prims_fixed o s st) as [s1 st1|w] eqn:E; [|discriminate].
    exact (IH s1 st1 s' st' (step_wf o s st s1 st1 HW HP E) HG HR).
Qed.

Lemma guarded_app h1 : forall h2 s st,
  guarded (h1 ++ h2) s st <->
  guarded h1 s st /\ match run prims_fixed h1 s st with Done s1 st1 => guarded h2 s1 st1 | Abort _ => True end.
Proof.
  induction h1 as [|o r IH]; intros h2 s st; cbn [app guarded run].
  - tauto.
  - destruct (step prims_fixed o s st) as [s1 st1|w].
    + rewrite IH. tauto.
    + tauto.
Qed.

(* ------------------------------------------------------------------ (2) reload equivalence *)
Lemma reload_equiv h s st :
  guarded h init storage0 ->
  run prims_fixed (h ++ [OSave]) init storage0 = Done s st ->
  wf s /\ st = full_dump s /\
  exists s', load prims_fixed st = Loaded s' /\ equiv s s' /\
             (forall id b, lookup (blocks s') id = Some b -> b_dirty b = false /\ deleted b = false).
Proof.
  intros HG HR.
  assert (HG' : guarded (h ++ [OSave]) init storage0).
  { apply guarded_app. split; [exact HG|]. destruct (run prims_fixed h init storage0) as [s1 st1|w]; [|exact I].
    cbn [guarded pre]. split; [exact I|]. destruct (step prims_fixed OSave s1 st1); exact I. }
  pose proof (run_wf _ _ _ _ _ wf_init HG' HR) as HW.
  destruct (save_load_roundtrip h s st HR) as [Hst _].
  split; [exact HW|]. split; [exact Hst|]. rewrite Hst. exact (load_of_wf s HW).
Qed.

(* chain work (memory only): what load recomputes from the accumulated storage is, for every tree block of the live
   state, the sum of the block proofs along its parent path in the live tree *)
Lemma reload_equiv_chainwork (proof : N -> N) h s st :
  guarded h init storage0 ->
  run prims_fixed (h ++ [OSave]) init storage0 = Done s st ->
  forall id b, vis (blocks s) id = Some b ->
  exists w, has_work proof (pvis s) id w /\
            work_of (load_work proof (filter (fun x => negb (s_deleted (p_status (snd x)))) (st_blocks st))) id = w.
Proof.
  intros HG HR id b V. destruct (reload_equiv h s st HG HR) as (HW & -> & _).
  exact (reload_chainwork_all proof s HW id b V).
Qed.

(* ------------------------------------------------------------------ (3) the reloaded instance follows the live one *)
Lemma run_equiv h : forall s st s' st',
  wf s -> guarded h s st -> equiv s s' ->
  match run prims_fixed h s st with
  | Done s1 _ => exists s1' st1', run prims_fixed h s' st' = Done s1' st1' /\ equiv s1 s1'
  | Abort w => run prims_fixed h s' st' = Abort w
  end.
Proof.
  induction h as [|o r IH]; intros s st s' st' HW HG HE; cbn [run guarded] in *.
  - eexists _, _. split; [reflexivity|exact HE].
  - destruct HG as [HP HG]. pose proof (step_equiv o s st s' st' HW HP HE) as H1.
    destruct (step prims_fixed o s st) as [s1 st1|w] eqn:E.
    + destruct H1 as (s1' & st1' & E' & HE1). rewrite E'.
      exact (IH s1 st1 s1' st1' (step_wf o s st s1 st1 HW HP E) HG HE1).
    + rewrite H1. reflexivity.
Qed.

(* what equivalent states show through getBlockIndex / getBestChain().tip() *)
Definition observe (s : state) (id : N) : option (pers * bool) :=
  option_map (fun b => (b_pers b, b_final b)) (vis (blocks s) id).

Lemma equiv_observe s s' : equiv s s' ->
  tip s = tip s' /\ (forall id, observe s id = observe s' id) /\
  (forall id b b', vis (blocks s) id = Some b -> vis (blocks s') id = Some b' -> Permutation (b_by b) (b_by b')).
Proof.
  intros HE. destruct (equiv_vis s s' HE) as [Ht Hv]. split; [exact Ht|]. split.
  - intros id. specialize (Hv id). unfold observe, osim in *.
    destruct (vis (blocks s) id) as [b|], (vis (blocks s') id) as [b'|]; cbn [option_map].
    + destruct Hv as (H1 & H2 & _). rewrite H1, H2. reflexivity.
    + destruct Hv.
    + destruct Hv.
    + reflexivity.
  - intros id b b' V V'. specialize (Hv id). rewrite V, V' in Hv. exact (proj2 (proj2 Hv)).
Qed.

Lemma reload_continues h h2 s st s' :
  guarded ((h ++ [OSave]) ++ h2) init storage0 ->
  run prims_fixed (h ++ [OSave]) init storage0 = Done s st ->
  load prims_fixed st = Loaded s' ->
  equiv s s' /\
  forall st',
  match run prims_fixed h2 s st with
  | Done s1 _ => exists s1' st1', run prims_fixed h2 s' st' = Done s1' st1' /\ equiv s1 s1'
  | Abort w => run prims_fixed h2 s' st' = Abort w
  end.
Proof.
  intros HG HR HL. apply guarded_app in HG. destruct HG as [HG1 HG2]. rewrite HR in HG2.
  apply guarded_app in HG1. destruct HG1 as [HG0 _].
  destruct (reload_equiv h s st HG0 HR) as (HW & _ & s0 & HL0 & HE & _).
  rewrite HL in HL0. injection HL0 as <-.
  split; [exact HE|]. intros st'. exact (run_equiv h2 s st s' st' HW HG2 HE).
Qed.

(* ------------------------------------------------------------------ the guarantees are needed *)
(* an endorsement of a block that does not exist: saved, and load fails (recoverEndorsements: no-endorsed) *)
Lemma unguarded_reload_refuted :
  exists s st, run prims_fixed ([OApply 0 4 [(1, 99)]] ++ [OSave]) init storage0 = Done s st /\
               load prims_fixed st = LoadFail 1.
Proof. eexists _, _. split; [vm_compute; reflexivity|]. vm_compute. reflexivity. Qed.

(* unapply-then-save-then-setTip: load succeeds, but loadTip re-activates the stored tip: not equivalent *)
Lemma save_between_unapply_and_settip_refuted :
  exists s st s' b b', run prims_fixed ([OInsertHeader 1 0; OApply 1 4 []; OSetTip 1; OUnapply 1] ++ [OSave]) init storage0 = Done s st /\
    load prims_fixed st = Loaded s' /\ lookup (blocks s) 1 = Some b /\ lookup (blocks s') 1 = Some b' /\
    s_active (bstatus b) = false /\ s_active (bstatus b') = true.
Proof.
  eexists _, _, _, _, _. split; [vm_compute; reflexivity|]. split; [vm_compute; reflexivity|].
  split; [vm_compute; reflexivity|]. split; [vm_compute; reflexivity|]. split; vm_compute; reflexivity.
Qed.

(* ------------------------------------------------------------------ examples *)
(* canonical form of a state: tip + the tree blocks sorted by id with the dirty bit cleared *)
Definition canon (s : state) : N * list (N * block) :=
  (tip s, fold_left (fun acc kb => if deleted (snd kb) then acc else insert acc (fst kb) (unsetDirty (snd kb))) (blocks s) []).

(* forks (2 | 3 under 1, 4-6 under 2, 5-7 under 3), invalidation with descendants and a block inserted under an
   invalid parent, re-validation, FAILED_POP, payload ids set and removed, refcounts, endorsements, removal and
   re-adding of blocks, two reorgs, a save in the middle *)
Definition hist1 : list op :=
  [OInsertHeader 1 0; OSetPayloads 1 [10]; OConnect 1; OApply 1 4 [(100, 0)]; OSetTip 1;
   OInsertHeader 2 1; OInsertHeader 3 1; OSetPayloads 3 [11]; OConnect 3;
   OSave;
   OInsertHeader 4 2; OInvalidate 2 FFailedBlock [4]; OInsertHeader 6 4;
   OApply 3 4 [(101, 1); (102, 0)]; OSetTip 3; OAddRef 1;
   OInsertHeader 5 3; OSetPayloads 5 [12]; OConnect 5; ORemovePayloads 5; ORemoveSubtree [5]; OInsertHeader 5 3;
   OInsertHeader 7 5; ORemoveSubtree [7];
   OSetTip 1; OUnapply 3; ORevalidate 2 FFailedBlock [4; 6]; OInvalidate 6 FFailedPop [];
   OApply 2 4 [(103, 1)]; OSetTip 2].
Definition hist2 : list op :=
  [OSetTip 1; OUnapply 2; OApply 3 4 [(104, 0)]; OSetTip 3; OInsertHeader 7 5; OInsertHeader 8 3; ORemoveRef 1; OSave].

Example hist_guarded : guarded ((hist1 ++ [OSave]) ++ hist2) init storage0.
Proof. apply guarded_b_sound. vm_compute. reflexivity. Qed.

(* the state just before the last save has unsaved blocks; the reloaded state is the live one up to dirty bits, map
   order and the removed index 7 *)
Example reload_example :
  exists s0 st0 s st s',
    run prims_fixed hist1 init storage0 = Done s0 st0 /\ dirty_ids s0 = [0; 1; 2; 3; 4; 6; 5; 7] /\
    run prims_fixed (hist1 ++ [OSave]) init storage0 = Done s st /\
    load prims_fixed st = Loaded s' /\
    canon s0 = canon s' /\ canon s = canon s' /\
    map fst (blocks s) = [0; 1; 2; 3; 4; 6; 5; 7] /\ map fst (blocks s') = [0; 1; 3; 2; 5; 4; 6].
Proof.
  eexists _, _, _, _, _. split; [vm_compute; reflexivity|]. split; [vm_compute; reflexivity|].
  split; [vm_compute; reflexivity|]. split; [vm_compute; reflexivity|]. split; [vm_compute; reflexivity|].
  split; [vm_compute; reflexivity|]. split; vm_compute; reflexivity.
Qed.

(* the follow-up history (reorg, a new endorsement, re-adding the removed block 7, a new block, save) gives the same
   canonical state and the same storage on the live and on the reloaded instance *)
Example reload_continues_example :
  exists s st s' s1 st1 s1' st1',
    run prims_fixed (hist1 ++ [OSave]) init storage0 = Done s st /\ load prims_fixed st = Loaded s' /\
    run prims_fixed hist2 s st = Done s1 st1 /\ run prims_fixed hist2 s' st = Done s1' st1' /\
    canon s1 = canon s1' /\ st1 = st1'.
Proof.
  eexists _, _, _, _, _, _, _. split; [vm_compute; reflexivity|]. split; [vm_compute; reflexivity|].
  split; [vm_compute; reflexivity|]. split; [vm_compute; reflexivity|]. split; vm_compute; reflexivity.
Qed.
