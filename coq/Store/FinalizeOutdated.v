(** C09 — isBlockOutdated(final, candidate) is exactly "candidate does not descend from final"
    on well-formed trees (heights follow parents). *)
From Coq Require Import NArith List Bool Lia.
From VB Require Import Store.FinalizeDefs Store.FinalizeProofs.
Import ListNotations.
Local Open Scope N_scope.

(* every block's parent is in the tree, one below *)
Definition wf_tree (t : ftree) : Prop :=
  forall id b, flookup (t_blocks t) id = Some b ->
  match f_parent b with
  | Some p => exists pb, flookup (t_blocks t) p = Some pb /\ f_height b = f_height pb + 1
  | None => True
  end.

Lemma fork_walk_spec fuel t : wf_tree t -> forall a b x ba,
  flookup (t_blocks t) a = Some ba ->
  fork_walk fuel t a b = Some x ->
  (x = a /\ a = b) \/ (height_of t x < height_of t a /\ flookup (t_blocks t) x <> None).
Proof.
  intros Hwf. induction fuel as [|f IH]; intros a b x ba Ha H; cbn [fork_walk] in H.
  - destruct (a =? b) eqn:E; [|discriminate]. injection H as <-. apply N.eqb_eq in E. left. auto.
  - destruct (a =? b) eqn:E.
    + injection H as <-. apply N.eqb_eq in E. left. auto.
    + unfold parent_of in H. rewrite Ha in H.
      destruct (f_parent ba) as [pa|] eqn:Ep; [|discriminate].
      destruct (match flookup (t_blocks t) b with Some b0 => f_parent b0 | None => None end) as [pb|]; [|discriminate].
      pose proof (Hwf a ba Ha) as Hw. rewrite Ep in Hw. destruct Hw as (pba & Hpa & Hh).
      assert (Hlt : height_of t pa < height_of t a).
      { unfold height_of. rewrite Hpa, Ha. lia. }
      right. destruct (IH pa pb x pba Hpa H) as [[-> _]|[H1 H2]].
      * split; [exact Hlt|congruence].
      * split; [lia|exact H2].
Qed.

Lemma ancestor_at_self fuel t id b : flookup (t_blocks t) id = Some b -> ancestor_at fuel t id (height_of t id) = Some id.
Proof.
  intros H. unfold height_of. rewrite H. destruct fuel; cbn [ancestor_at]; rewrite H, N.ltb_irrefl, N.eqb_refl; reflexivity.
Qed.

Lemma outdated_iff_not_descends r fuel t fin cand bf bc :
  wf_tree t -> flookup (t_blocks t) fin = Some bf -> flookup (t_blocks t) cand = Some bc ->
  outdated (S r) fuel t fin cand = negb (descends fuel t cand fin).
Proof.
  intros Hwf Hf Hc. unfold descends.
  destruct (opt_eqb (ancestor_at fuel t cand (height_of t fin)) (Some fin)) eqn:T1.
  - cbn [outdated negb]. rewrite T1. reflexivity.
  - cbn [negb].
    destruct (N.lt_trichotomy (height_of t cand) (height_of t fin)) as [Hlt|[Heq|Hgt]].
    + apply outdated_below; [exact Hlt|congruence].
    + apply (outdated_parallel (S r) fuel t fin cand bc Hc Heq).
      intros ->. rewrite (ancestor_at_self fuel t fin bf Hf) in T1. cbn [opt_eqb] in T1. rewrite N.eqb_refl in T1. discriminate.
    + cbn [outdated]. rewrite T1.
      assert (H2 : (height_of t cand <? height_of t fin) = false) by (apply N.ltb_ge; lia).
      assert (H3 : (height_of t cand =? height_of t fin) = false) by (apply N.eqb_neq; lia).
      rewrite H2, H3. cbn [andb].
      assert (H4 : ancestor_at fuel t fin (height_of t cand) = None).
      { assert (Hb : (f_height bf <? height_of t cand) = true).
        { apply N.ltb_lt. unfold height_of in Hgt at 1. rewrite Hf in Hgt. exact Hgt. }
        destruct fuel; cbn [ancestor_at]; rewrite Hf, Hb; reflexivity. }
      rewrite H4. cbn [opt_eqb].
      unfold fork_block. replace (N.min (height_of t fin) (height_of t cand)) with (height_of t fin) by lia.
      rewrite (ancestor_at_self fuel t fin bf Hf).
      destruct (ancestor_at fuel t cand (height_of t fin)) as [cb|] eqn:Ea; [|reflexivity].
      destruct (fork_walk fuel t fin cb) as [fk|] eqn:Ew; [|reflexivity].
      destruct (fork_walk_spec fuel t Hwf fin cb fk bf Hf Ew) as [[-> <-]|[Hl Hin]].
      * cbn [opt_eqb] in T1. rewrite N.eqb_refl in T1. discriminate.
      * apply outdated_below; assumption.
Qed.

(* decidable check of well-formedness and a non-trivial instance *)
Definition wf_treeb (t : ftree) : bool :=
  forallb (fun kb => match f_parent (snd kb) with
                     | Some p => match flookup (t_blocks t) p with
                                 | Some pb => f_height (snd kb) =? f_height pb + 1
                                 | None => false
                                 end
                     | None => true
                     end) (t_blocks t).

Lemma flookup_In {A} (m : list (N * A)) k v : flookup m k = Some v -> In (k, v) m.
Proof.
  induction m as [|[k' v'] r IH]; cbn [flookup]; [discriminate|].
  destruct (k' =? k) eqn:E; intros H.
  - apply N.eqb_eq in E. subst k'. injection H as ->. now left.
  - right. exact (IH H).
Qed.

Lemma wf_treeb_sound t : wf_treeb t = true -> wf_tree t.
Proof.
  intros H id b Hl. unfold wf_treeb in H. rewrite forallb_forall in H.
  specialize (H (id, b) (flookup_In _ _ _ Hl)). cbn [snd] in H.
  destruct (f_parent b) as [p|]; [|exact I].
  destruct (flookup (t_blocks t) p) as [pb|]; [|discriminate].
  exists pb. split; [reflexivity|]. apply N.eqb_eq. exact H.
Qed.

Definition tree14 : ftree :=
  let mk := fun (i : N) => (i, mkF (if i =? 0 then None else Some (i - 1)) i false (i =? 0) [100 + i]) in
  mkT (map mk [0;1;2;3;4;5;6;7;8] ++ [(20, mkF (Some 3) 4 false false [200]); (21, mkF (Some 20) 5 false false [])])
      [0;1;2;3;4;5;6;7;8] [8; 21] [].

Example wf_tree14 : wf_tree tree14 /\ outdated 1 30 tree14 5 21 = true /\ outdated 1 30 tree14 3 21 = false.
Proof. split; [apply wf_treeb_sound; vm_compute; reflexivity|]. vm_compute. auto. Qed.
