(** C10 — reload equivalence: the invariant [wf] is preserved by applyBlock (OApply), unapplyBlock (OUnapply)
    and removeSubtree (ORemoveSubtree) under the caller guarantees [pre]. *)
From Coq Require Import NArith List Bool Lia Permutation.
From VB Require Import Store.SaveLoadDefs Store.SaveLoadProofs Store.SaveLoadTheorems Store.ReloadEquiv.
Import ListNotations.
Local Open Scope N_scope.

(* ------------------------------------------------------------------ small facts *)
Lemma wfB_status_eqb_eq a b : status_eqb a b = true -> a = b.
Proof.
  destruct a as [l a1 a2 a3 a4 a5 a6 a7], b as [l' b1 b2 b3 b4 b5 b6 b7].
  unfold status_eqb. cbn [s_level s_boot s_fblock s_fpop s_fchild s_haspl s_active s_deleted].
  rewrite !andb_true_iff. intros [[[[[[[H0 H1] H2] H3] H4] H5] H6] H7].
  apply N.eqb_eq in H0. apply Bool.eqb_prop in H1, H2, H3, H4, H5, H6, H7. subst. reflexivity.
Qed.

Lemma wfB_lookup_In {A} (m : list (N * A)) k v : lookup m k = Some v -> In (k, v) m.
Proof.
  induction m as [|[k' v'] r IH]; cbn [lookup]; [discriminate|].
  destruct (k' =? k) eqn:E; [|intros H; right; exact (IH H)].
  apply N.eqb_eq in E. subst k'. intros H. injection H as ->. now left.
Qed.

Lemma wfB_existsb_In x (l : list N) : existsb (N.eqb x) l = true <-> In x l.
Proof.
  rewrite existsb_exists. split.
  - intros (y & Hy & E). apply N.eqb_eq in E. subst y. exact Hy.
  - intros H. exists x. split; [exact H|apply N.eqb_refl].
Qed.

Lemma wfB_existsb_notIn x (l : list N) : existsb (N.eqb x) l = false <-> ~ In x l.
Proof.
  rewrite <- wfB_existsb_In. destruct (existsb (N.eqb x) l); split; congruence.
Qed.

(* ------------------------------------------------------------------ the invariant, split *)
Record wfm (m : store) (t : N) : Prop := mkWfm {
  wm_nodup : NoDup (map fst m);
  wm_local : forall id b, lookup m id = Some b -> local_ok b;
  wm_parent : forall id b par, lookup m id = Some b -> p_parent (b_pers b) = Some par ->
     exists pb, lookup m par = Some pb /\ p_height (b_pers b) = p_height (b_pers pb) + 1 /\
       (deleted b = false -> deleted pb = false /\ (s_active (bstatus b) = true -> s_active (bstatus pb) = true));
  wm_ce : forall id b e, vis m id = Some b -> In e (p_ce (b_pers b)) ->
     exists eb, vis m (snd e) = Some eb /\ p_height (b_pers eb) < p_height (b_pers b);
  wm_tip : exists b, vis m t = Some b /\ s_active (bstatus b) = true }.

Definition byok (m : store) : Prop := forall id b, vis m id = Some b -> Permutation (b_by b) (inc m id).

Lemma wf_split s : wf s <-> wfm (blocks s) (tip s) /\ byok (blocks s).
Proof.
  split.
  - intros [H1 H2 H3 H4 H5 H6]. split; [constructor; assumption|exact H5].
  - intros [[H1 H2 H3 H4 H6] H5]. constructor; assumption.
Qed.

Lemma vis_upd m k f id :
  (forall b, lookup m k = Some b -> deleted (f b) = deleted b) ->
  vis (upd m k f) id = option_map (fun b => if k =? id then f b else b) (vis m id).
Proof.
  intros H. unfold vis. rewrite lookup_upd. destruct (lookup m id) as [b|] eqn:L; cbn [option_map]; [|reflexivity].
  destruct (k =? id) eqn:E.
  - apply N.eqb_eq in E. subst id. unfold visb. rewrite (H _ L). destruct (deleted b); reflexivity.
  - unfold visb. destruct (deleted b); reflexivity.
Qed.

(* a visible block stays visible with its height *)
Lemma vis_upd_keep m k f b j bj :
  lookup m k = Some b -> deleted (f b) = deleted b -> p_height (b_pers (f b)) = p_height (b_pers b) ->
  vis m j = Some bj ->
  exists bj', vis (upd m k f) j = Some bj' /\ p_height (b_pers bj') = p_height (b_pers bj) /\
              bj' = (if k =? j then f bj else bj).
Proof.
  intros L D Hh V. rewrite vis_upd.
  2:{ intros b0 L0. rewrite L in L0. injection L0 as <-. exact D. }
  rewrite V. cbn [option_map]. eexists. split; [reflexivity|]. split; [|reflexivity].
  destruct (k =? j) eqn:E; [|reflexivity].
  apply N.eqb_eq in E. subst j. apply vis_Some in V. destruct V as [V _]. rewrite L in V. injection V as <-. exact Hh.
Qed.

Lemma wfm_upd m t k f b :
  wfm m t -> lookup m k = Some b ->
  p_parent (b_pers (f b)) = p_parent (b_pers b) ->
  p_height (b_pers (f b)) = p_height (b_pers b) ->
  deleted (f b) = deleted b ->
  local_ok (f b) ->
  (deleted b = false -> s_active (bstatus (f b)) = true ->
     s_active (bstatus b) = true \/
     forall par pb, p_parent (b_pers b) = Some par -> lookup m par = Some pb -> s_active (bstatus pb) = true) ->
  (s_active (bstatus (f b)) = false ->
     s_active (bstatus b) = false \/
     (k <> t /\ forall c bc, vis m c = Some bc -> p_parent (b_pers bc) = Some k -> s_active (bstatus bc) = false)) ->
  (deleted b = false -> forall e, In e (p_ce (b_pers (f b))) ->
     In e (p_ce (b_pers b)) \/ exists eb, vis m (snd e) = Some eb /\ p_height (b_pers eb) < p_height (b_pers b)) ->
  wfm (upd m k f) t.
Proof.
  intros [W1 W2 W3 W4 W5] L Hp Hh Hd Hl Hup Hdown Hce.
  assert (HD : forall b0, lookup m k = Some b0 -> deleted (f b0) = deleted b0).
  { intros b0 L0. rewrite L in L0. injection L0 as <-. exact Hd. }
  constructor.
  - rewrite keys_upd. exact W1.
  - intros id b0. rewrite lookup_upd. destruct (lookup m id) as [b1|] eqn:L1; cbn [option_map]; [|discriminate].
    intros H. injection H as <-. destruct (k =? id) eqn:E; [|exact (W2 id b1 L1)].
    apply N.eqb_eq in E. subst id. rewrite L in L1. injection L1 as <-. exact Hl.
  - intros id b0 par. rewrite lookup_upd. destruct (lookup m id) as [b1|] eqn:L1; cbn [option_map]; [|discriminate].
    intros H. injection H as <-. destruct (k =? id) eqn:E.
    + apply N.eqb_eq in E. subst id. rewrite L in L1. injection L1 as <-.
      rewrite Hp. intros Hpar. destruct (W3 k b par L Hpar) as (pb & Lp & Hhp & Hrest).
      assert (Hne : k <> par).
      { intros ->. rewrite L in Lp. injection Lp as <-. lia. }
      exists pb. rewrite lookup_upd_other by exact Hne. split; [exact Lp|]. rewrite Hh, Hd. split; [exact Hhp|].
      intros Hdel. destruct (Hrest Hdel) as [Hdp Hact]. split; [exact Hdp|].
      intros Ha. destruct (Hup Hdel Ha) as [Ha0|Hpa]; [exact (Hact Ha0)|exact (Hpa par pb Hpar Lp)].
    + intros Hpar. destruct (W3 id b1 par L1 Hpar) as (pb & Lp & Hhp & Hrest).
      rewrite lookup_upd, Lp. cbn [option_map]. eexists. split; [reflexivity|].
      destruct (k =? par) eqn:E2; [|split; [exact Hhp|exact Hrest]].
      apply N.eqb_eq in E2. subst par. rewrite L in Lp. injection Lp as <-.
      rewrite Hh, Hd. split; [exact Hhp|]. intros Hdel. destruct (Hrest Hdel) as [Hdp Hact]. split; [exact Hdp|].
      intros Ha. destruct (s_active (bstatus (f b))) eqn:Af; [reflexivity|].
      destruct (Hdown eq_refl) as [Hb|[_ Hch]].
      * rewrite (Hact Ha) in Hb. discriminate.
      * assert (V1 : vis m id = Some b1) by (apply vis_Some; auto).
        rewrite (Hch id b1 V1 Hpar) in Ha. discriminate.
  - intros id b0 e. rewrite (vis_upd _ _ _ _ HD). destruct (vis m id) as [b1|] eqn:V1; cbn [option_map]; [|discriminate].
    intros H He. injection H as <-.
    assert (Hold : exists eb, vis m (snd e) = Some eb /\
                     p_height (b_pers eb) < p_height (b_pers (if k =? id then f b1 else b1))).
    { destruct (k =? id) eqn:E; [|exact (W4 id b1 e V1 He)].
      apply N.eqb_eq in E. subst id. pose proof V1 as V1'. apply vis_Some in V1'. destruct V1' as [L1 D1].
      rewrite L in L1. injection L1 as <-. rewrite Hh.
      destruct (Hce D1 e He) as [Hin|Hex]; [exact (W4 k b e V1 Hin)|exact Hex]. }
    destruct Hold as (eb & Ve & Hlt).
    destruct (vis_upd_keep m k f b (snd e) eb L Hd Hh Ve) as (eb' & Ve' & Hh' & _).
    exists eb'. split; [exact Ve'|]. rewrite Hh'. exact Hlt.
  - destruct W5 as (bt & Vt & At). rewrite (vis_upd _ _ _ _ HD), Vt. cbn [option_map].
    eexists. split; [reflexivity|]. destruct (k =? t) eqn:E; [|exact At].
    apply N.eqb_eq in E. subst t. apply vis_Some in Vt. destruct Vt as [Lt _]. rewrite L in Lt. injection Lt as <-.
    destruct (s_active (bstatus (f b))) eqn:Af; [reflexivity|].
    destruct (Hdown eq_refl) as [Hb|[Hne _]]; [rewrite At in Hb; discriminate|congruence].
Qed.

(* ------------------------------------------------------------------ endorsedBy: generic *)
Lemma byok_upd_same m k f :
  (forall b, lookup m k = Some b ->
     b_by (f b) = b_by b /\ p_ce (b_pers (f b)) = p_ce (b_pers b) /\ deleted (f b) = deleted b) ->
  byok m -> byok (upd m k f).
Proof.
  intros H B id b0. rewrite vis_upd by (intros b L; apply (H b L)).
  destruct (vis m id) as [b1|] eqn:V; cbn [option_map]; [|discriminate]. intros E0. injection E0 as <-.
  rewrite inc_upd_same.
  2:{ intros b L. unfold contrib. destruct (H b L) as (_ & -> & ->). reflexivity. }
  destruct (k =? id) eqn:E; [|exact (B id b1 V)].
  apply N.eqb_eq in E. subst id. pose proof V as V'. apply vis_Some in V'. destruct V' as [L _].
  rewrite (proj1 (H _ L)). exact (B k b1 V).
Qed.

(* what the blocks of the tree look like from outside: preserved by everything but removal *)
Definition shape1 (m m' : store) : Prop :=
  forall j bj, vis m j = Some bj ->
    exists bj', vis m' j = Some bj' /\ p_height (b_pers bj') = p_height (b_pers bj) /\
                p_parent (b_pers bj') = p_parent (b_pers bj) /\ bstatus bj' = bstatus bj.
Definition shape (m m' : store) : Prop := shape1 m m' /\ shape1 m' m.

Lemma shape1_refl m : shape1 m m.
Proof. intros j bj V. exists bj. auto. Qed.

Lemma shape1_trans m1 m2 m3 : shape1 m1 m2 -> shape1 m2 m3 -> shape1 m1 m3.
Proof.
  intros H1 H2 j bj V. destruct (H1 j bj V) as (b2 & V2 & A2 & B2 & C2).
  destruct (H2 j b2 V2) as (b3 & V3 & A3 & B3 & C3). exists b3. repeat split; congruence.
Qed.

Lemma shape_refl m : shape m m.
Proof. split; apply shape1_refl. Qed.

Lemma shape_trans m1 m2 m3 : shape m1 m2 -> shape m2 m3 -> shape m1 m3.
Proof. intros [A1 A2] [B1 B2]. split; eapply shape1_trans; eassumption. Qed.

Lemma shape_upd m k f :
  (forall b, lookup m k = Some b -> p_height (b_pers (f b)) = p_height (b_pers b) /\
     p_parent (b_pers (f b)) = p_parent (b_pers b) /\ bstatus (f b) = bstatus b) ->
  shape m (upd m k f).
Proof.
  intros H.
  assert (HD : forall b, lookup m k = Some b -> deleted (f b) = deleted b).
  { intros b L. unfold deleted. destruct (H b L) as (_ & _ & ->). reflexivity. }
  split; intros j bj; rewrite (vis_upd _ _ _ _ HD).
  - intros V. rewrite V. cbn [option_map]. eexists. split; [reflexivity|].
    destruct (k =? j) eqn:E; [|auto].
    apply N.eqb_eq in E. subst j. apply vis_Some in V. destruct V as [L _]. exact (H bj L).
  - destruct (vis m j) as [b0|] eqn:V; cbn [option_map]; [|discriminate].
    intros E0. injection E0 as <-. exists b0. split; [reflexivity|].
    destruct (k =? j) eqn:E; [|auto].
    apply N.eqb_eq in E. subst j. apply vis_Some in V. destruct V as [L _].
    destruct (H b0 L) as (A1 & A2 & A3). auto.
Qed.

(* ------------------------------------------------------------------ applyBlock: one endorsement *)
Lemma byok_apply_step m id b e :
  byok m -> vis m id = Some b -> snd e <> id ->
  byok (upd (upd m id (insertCE e)) (snd e) (insertBy (fst e))).
Proof.
  intros B V Hne j bj.
  rewrite vis_upd by (intros; reflexivity). rewrite vis_upd by (intros; reflexivity).
  destruct (vis m j) as [b0|] eqn:Vj; cbn [option_map]; [|discriminate]. intros E0. injection E0 as <-.
  rewrite inc_upd_same by (intros; reflexivity).
  pose proof V as V'. apply vis_Some in V'. destruct V' as [L D].
  assert (HP : Permutation (inc m j ++ (if snd e =? j then [fst e] else [])) (inc (upd m id (insertCE e)) j ++ [])).
  { apply (inc_upd_perm m id (insertCE e) b j _ _ L).
    unfold contrib. change (deleted (insertCE e b)) with (deleted b). rewrite D.
    change (p_ce (b_pers (insertCE e b))) with (p_ce (b_pers b) ++ [e]).
    rewrite filter_app, map_app. cbn [filter]. destruct (snd e =? j); cbn [map]; rewrite ?app_nil_r; reflexivity. }
  rewrite app_nil_r in HP.
  assert (Hby : b_by (if id =? j then insertCE e b0 else b0) = b_by b0) by (destruct (id =? j); reflexivity).
  pose proof (B j b0 Vj) as P0.
  destruct (snd e =? j) eqn:E.
  - change (b_by (insertBy (fst e) (if id =? j then insertCE e b0 else b0)))
      with (b_by (if id =? j then insertCE e b0 else b0) ++ [fst e]).
    rewrite Hby. eapply Permutation_trans; [|exact HP]. apply Permutation_app_tail. exact P0.
  - rewrite Hby. rewrite app_nil_r in HP. eapply Permutation_trans; [exact P0|exact HP].
Qed.

Lemma wf_apply_step m t id b e :
  wfm m t -> byok m -> vis m id = Some b -> ~ In (fst e) (map fst (p_ce (b_pers b))) ->
  (exists eb, vis m (snd e) = Some eb /\ p_height (b_pers eb) < p_height (b_pers b)) ->
  wfm (upd (upd m id (insertCE e)) (snd e) (insertBy (fst e))) t /\
  byok (upd (upd m id (insertCE e)) (snd e) (insertBy (fst e))) /\
  vis (upd (upd m id (insertCE e)) (snd e) (insertBy (fst e))) id = Some (insertCE e b) /\
  shape m (upd (upd m id (insertCE e)) (snd e) (insertBy (fst e))).
Proof.
  intros W B V Hni (eb & Ve & Hlt).
  pose proof V as V'. apply vis_Some in V'. destruct V' as [L D].
  pose proof Ve as Ve'. apply vis_Some in Ve'. destruct Ve' as [Le De].
  assert (Hne : snd e <> id).
  { intros Heq. rewrite Heq in Le. rewrite L in Le. injection Le as <-. lia. }
  assert (W1 : wfm (upd m id (insertCE e)) t).
  { apply (wfm_upd m t id (insertCE e) b W L); try reflexivity.
    - destruct (wm_local _ _ W id b L) as (F1 & F2 & F3 & F4). split; [|split; [|split]].
      + exact F1.
      + intros Hd. change (deleted (insertCE e b)) with (deleted b) in Hd. congruence.
      + exact F3.
      + unfold ce_nodup. change (p_ce (b_pers (insertCE e b))) with (p_ce (b_pers b) ++ [e]).
        rewrite map_app. cbn [map]. apply NoDup_snoc; assumption.
    - intros _ Ha. left. exact Ha.
    - intros Ha. left. exact Ha.
    - intros _ e0. change (p_ce (b_pers (insertCE e b))) with (p_ce (b_pers b) ++ [e]).
      intros Hin. apply in_app_or in Hin. destruct Hin as [Hin|[<-|[]]]; [left; exact Hin|right].
      exists eb. split; assumption. }
  assert (Le1 : lookup (upd m id (insertCE e)) (snd e) = Some eb).
  { rewrite lookup_upd_other by (intros Heq; apply Hne; symmetry; exact Heq). exact Le. }
  split; [|split; [|split]].
  - apply (wfm_upd _ t (snd e) (insertBy (fst e)) eb W1 Le1); try reflexivity.
    + destruct (wm_local _ _ W (snd e) eb Le) as (F1 & F2 & F3 & F4). split; [|split; [|split]].
      * exact F1.
      * intros Hd. change (deleted (insertBy (fst e) eb)) with (deleted eb) in Hd. congruence.
      * exact F3.
      * exact F4.
    + intros _ Ha. left. exact Ha.
    + intros Ha. left. exact Ha.
    + intros _ e0 Hin. left. exact Hin.
  - exact (byok_apply_step m id b e B V Hne).
  - rewrite vis_upd by (intros; reflexivity). rewrite vis_upd by (intros; reflexivity).
    rewrite V. cbn [option_map]. rewrite N.eqb_refl.
    apply N.eqb_neq in Hne. rewrite Hne. reflexivity.
  - eapply shape_trans; apply shape_upd; intros; repeat split.
Qed.

Lemma wf_apply_fold t id es : forall m b,
  wfm m t -> byok m -> vis m id = Some b -> NoDup (map fst (p_ce (b_pers b) ++ es)) ->
  (forall e, In e es -> exists eb, vis m (snd e) = Some eb /\ p_height (b_pers eb) < p_height (b_pers b)) ->
  wfm (apply_endorsements m id es) t /\ byok (apply_endorsements m id es) /\ shape m (apply_endorsements m id es).
Proof.
  induction es as [|e es IH]; intros m b W B V Hnd Hes.
  - split; [exact W|split; [exact B|apply shape_refl]].
  - change (apply_endorsements m id (e :: es))
      with (apply_endorsements (upd (upd m id (insertCE e)) (snd e) (insertBy (fst e))) id es).
    assert (Hni : ~ In (fst e) (map fst (p_ce (b_pers b)))).
    { rewrite map_app in Hnd. cbn [map] in Hnd. apply NoDup_remove_2 in Hnd.
      intros Hin. apply Hnd. apply in_or_app. left. exact Hin. }
    destruct (wf_apply_step m t id b e W B V Hni (Hes e (or_introl eq_refl))) as (W2 & B2 & V2 & S2).
    destruct (IH _ (insertCE e b) W2 B2 V2) as (W3 & B3 & S3).
    + change (p_ce (b_pers (insertCE e b))) with (p_ce (b_pers b) ++ [e]).
      rewrite <- app_assoc. exact Hnd.
    + intros e0 Hin. destruct (Hes e0 (or_intror Hin)) as (eb & Ve & Hlt).
      destruct (proj1 S2 _ _ Ve) as (eb' & Ve' & Hh' & _). exists eb'. split; [exact Ve'|].
      rewrite Hh'. exact Hlt.
    + split; [exact W3|split; [exact B3|]]. eapply shape_trans; eassumption.
Qed.

(* ------------------------------------------------------------------ status-only mutators *)
Definition same_struct (b b' : block) : Prop :=
  p_parent (b_pers b') = p_parent (b_pers b) /\ p_height (b_pers b') = p_height (b_pers b) /\
  p_ce (b_pers b') = p_ce (b_pers b) /\ b_by b' = b_by b /\ b_final b' = b_final b.

Lemma ss_setStatus s b : same_struct b (setStatus s b) /\ bstatus (setStatus s b) = s.
Proof.
  unfold setStatus. destruct (status_eqb s (bstatus b)) eqn:E.
  - apply wfB_status_eqb_eq in E. split; [repeat split|symmetry; exact E].
  - split; [repeat split|reflexivity].
Qed.

Lemma ss_raise lvl b :
  s_fpop (bstatus b) = false ->
  same_struct b (raiseValidity lvl b) /\
  bstatus (raiseValidity lvl b) = (if s_level (bstatus b) <? lvl then put_level lvl (bstatus b) else bstatus b).
Proof.
  intros Hf. unfold raiseValidity. rewrite Hf. destruct (s_level (bstatus b) <? lvl); split; try reflexivity; repeat split.
Qed.

Lemma apply_final_facts lvl b :
  s_fpop (bstatus b) = false ->
  same_struct b (setFlag FActive (raiseValidity lvl b)) /\
  s_active (bstatus (setFlag FActive (raiseValidity lvl b))) = true /\
  s_deleted (bstatus (setFlag FActive (raiseValidity lvl b))) = s_deleted (bstatus b) /\
  lvl <= s_level (bstatus (setFlag FActive (raiseValidity lvl b))) /\
  s_level (bstatus b) <= s_level (bstatus (setFlag FActive (raiseValidity lvl b))).
Proof.
  intros Hf. destruct (ss_raise lvl b Hf) as ((A1 & A2 & A3 & A4 & A5) & As).
  unfold setFlag.
  destruct (ss_setStatus (put_flag FActive true (bstatus (raiseValidity lvl b))) (raiseValidity lvl b))
    as ((B1 & B2 & B3 & B4 & B5) & Bs).
  split; [repeat split; congruence|].
  rewrite Bs, As. destruct (N.ltb_spec (s_level (bstatus b)) lvl) as [Hlt|Hge].
  - cbn [put_flag put_level s_level s_active s_deleted]. repeat split; try reflexivity; lia.
  - cbn [put_flag s_level s_active s_deleted]. repeat split; try reflexivity; lia.
Qed.

Lemma unapply_final_facts b :
  same_struct b (unsetFlag FActive b) /\
  bstatus (unsetFlag FActive b) = put_flag FActive false (bstatus b).
Proof. unfold unsetFlag. apply ss_setStatus. Qed.

Lemma step_wf_OApply s st s' st' id lvl es :
  wf s -> pre s (OApply id lvl es) -> step prims_fixed (OApply id lvl es) s st = Done s' st' -> wf s'.
Proof.
  intros Hwf Hpre Hstep. apply wf_split in Hwf. destruct Hwf as [W B].
  cbn [step prims_fixed p_raise] in Hstep. injection Hstep as <- _.
  cbn [pre] in Hpre. destruct Hpre as (b & V & Hfp & Hlvl & Hpar & Hnd & Hes).
  destruct (wf_apply_fold (tip s) id es (blocks s) b W B V Hnd Hes) as (W1 & B1 & S1).
  destruct (proj1 S1 id b V) as (b1 & V1 & Hh1 & Hp1 & Hs1).
  pose proof V1 as V1'. apply vis_Some in V1'. destruct V1' as [L1 D1].
  assert (Hfp1 : s_fpop (bstatus b1) = false) by (rewrite Hs1; exact Hfp).
  destruct (apply_final_facts lvl b1 Hfp1) as ((A1 & A2 & A3 & A4 & A5) & Aa & Ad & Al & Al').
  apply wf_split. cbn [blocks tip]. split.
  - apply (wfm_upd _ (tip s) id (fun b0 => setFlag FActive (raiseValidity lvl b0)) b1 W1 L1).
    + exact A1.
    + exact A2.
    + unfold deleted. exact Ad.
    + destruct (wm_local _ _ W1 id b1 L1) as (F1 & F2 & F3 & F4). split; [|split; [|split]].
      * unfold final_ok. rewrite A5, A1. exact F1.
      * intros Hd. unfold deleted in Hd. rewrite Ad in Hd. unfold deleted in D1. congruence.
      * intros _. split; [|intros _]; lia.
      * unfold ce_nodup. rewrite A3. exact F4.
    + intros _ _. right. intros par pb Hp Lp. rewrite Hp1 in Hp.
      destruct (Hpar par Hp) as (pb0 & Vp0 & Ap0). destruct (proj1 S1 _ _ Vp0) as (pb1 & Vp1 & _ & _ & Hsp).
      apply vis_Some in Vp1. destruct Vp1 as [Lp1 _]. rewrite Lp in Lp1. injection Lp1 as <-.
      rewrite Hsp. exact Ap0.
    + intros Ha. rewrite Aa in Ha. discriminate.
    + intros _ e He. left. rewrite A3 in He. exact He.
  - apply byok_upd_same; [|exact B1]. intros b0 L0. rewrite L1 in L0. injection L0 as <-.
    split; [exact A4|split; [exact A3|unfold deleted; exact Ad]].
Qed.

(* ------------------------------------------------------------------ removeSubtree *)
Lemma keys_upd_many ids : forall m f, map fst (upd_many m ids f) = map fst m.
Proof.
  induction ids as [|a ids IH]; intros m f; [reflexivity|].
  change (upd_many m (a :: ids) f) with (upd_many (upd m a f) ids f). rewrite IH. apply keys_upd.
Qed.

Lemma lookup_upd_many_idem f (Hf : forall b, f (f b) = f b) ids : forall m k,
  lookup (upd_many m ids f) k = option_map (fun b => if existsb (N.eqb k) ids then f b else b) (lookup m k).
Proof.
  induction ids as [|a ids IH]; intros m k.
  - cbn [upd_many fold_left existsb]. destruct (lookup m k); reflexivity.
  - change (upd_many m (a :: ids) f) with (upd_many (upd m a f) ids f). rewrite IH, lookup_upd.
    destruct (lookup m k) as [b|]; cbn [option_map existsb]; [|reflexivity].
    rewrite (N.eqb_sym k a). destruct (a =? k); cbn [orb]; [|reflexivity].
    destruct (existsb (N.eqb k) ids); [rewrite Hf|]; reflexivity.
Qed.

Lemma deleteTemporarily_idem b : deleteTemporarily (deleteTemporarily b) = deleteTemporarily b.
Proof. reflexivity. Qed.

Lemma lookup_remove m ids k :
  lookup (upd_many m ids deleteTemporarily) k =
  option_map (fun b => if existsb (N.eqb k) ids then deleteTemporarily b else b) (lookup m k).
Proof. apply lookup_upd_many_idem. exact deleteTemporarily_idem. Qed.

Lemma vis_remove m ids k :
  vis (upd_many m ids deleteTemporarily) k = if existsb (N.eqb k) ids then None else vis m k.
Proof.
  unfold vis. rewrite lookup_remove. destruct (lookup m k) as [b|]; cbn [option_map].
  - destruct (existsb (N.eqb k) ids); reflexivity.
  - destruct (existsb (N.eqb k) ids); reflexivity.
Qed.

Lemma inc_remove j ids : forall m,
  (forall id b, In id ids -> lookup m id = Some b -> contrib j b = []) ->
  inc (upd_many m ids deleteTemporarily) j = inc m j.
Proof.
  induction ids as [|a ids IH]; intros m H; [reflexivity|].
  change (upd_many m (a :: ids) deleteTemporarily) with (upd_many (upd m a deleteTemporarily) ids deleteTemporarily).
  rewrite IH.
  - apply inc_upd_same. intros b L. rewrite (H a b (or_introl eq_refl) L). reflexivity.
  - intros id b Hin. rewrite lookup_upd. destruct (lookup m id) as [b0|] eqn:L0; cbn [option_map]; [|discriminate].
    intros E. injection E as <-. destruct (a =? id); [reflexivity|].
    exact (H id b0 (or_intror Hin) L0).
Qed.

Lemma step_wf_ORemoveSubtree s st s' st' ids :
  wf s -> pre s (ORemoveSubtree ids) -> step prims_fixed (ORemoveSubtree ids) s st = Done s' st' -> wf s'.
Proof.
  intros [W1 W2 W3 W4 W5 W6] Hpre Hstep.
  cbn [step] in Hstep. injection Hstep as <- _.
  cbn [pre] in Hpre. destruct Hpre as [Hids Hvis].
  set (m := blocks s) in *.
  assert (Hvr : forall k b, vis (upd_many m ids deleteTemporarily) k = Some b -> ~ In k ids /\ vis m k = Some b).
  { intros k b. rewrite vis_remove. destruct (existsb (N.eqb k) ids) eqn:E; [discriminate|].
    apply wfB_existsb_notIn in E. auto. }
  assert (Hvk : forall k b, ~ In k ids -> vis m k = Some b -> vis (upd_many m ids deleteTemporarily) k = Some b).
  { intros k b Hn V. rewrite vis_remove. apply wfB_existsb_notIn in Hn. rewrite Hn. exact V. }
  constructor; cbn [blocks tip].
  - rewrite keys_upd_many. exact W1.
  - intros id b. rewrite lookup_remove. destruct (lookup m id) as [b0|] eqn:L0; cbn [option_map]; [|discriminate].
    intros E. injection E as <-. pose proof (W2 id b0 L0) as Hl.
    destruct (existsb (N.eqb id) ids); [|exact Hl].
    destruct Hl as (F1 & _). split; [|split; [|split]].
    + exact F1.
    + intros _. repeat split.
    + intros Hd. discriminate Hd.
    + apply NoDup_nil.
  - intros id b par. rewrite lookup_remove. destruct (lookup m id) as [b0|] eqn:L0; cbn [option_map]; [|discriminate].
    intros E. injection E as <-. intros Hp.
    assert (Hp0 : p_parent (b_pers b0) = Some par) by (destruct (existsb (N.eqb id) ids); exact Hp).
    destruct (W3 id b0 par L0 Hp0) as (pb & Lp & Hh & Hrest).
    rewrite lookup_remove, Lp. cbn [option_map]. eexists. split; [reflexivity|]. split.
    + destruct (existsb (N.eqb id) ids); destruct (existsb (N.eqb par) ids); exact Hh.
    + destruct (existsb (N.eqb id) ids) eqn:Ei; [intros Hd; discriminate Hd|].
      intros Hd. destruct (Hrest Hd) as [Hdp Hact].
      destruct (existsb (N.eqb par) ids) eqn:Ep; [|split; assumption].
      exfalso. apply wfB_existsb_In in Ep. apply wfB_existsb_notIn in Ei. apply Ei.
      assert (V0 : vis m id = Some b0) by (apply vis_Some; auto).
      exact (proj1 (Hvis id b0 V0) par Hp0 Ep).
  - intros id b e V He. destruct (Hvr id b V) as [Hn V0].
    destruct (W4 id b e V0 He) as (eb & Ve & Hlt). exists eb. split; [|exact Hlt].
    apply Hvk; [|exact Ve]. exact (proj2 (Hvis id b V0) e He).
  - intros id b V. destruct (Hvr id b V) as [Hn V0]. rewrite inc_remove; [exact (W5 id b V0)|].
    intros k bk Hin Lk. destruct (Hids k Hin) as (bk0 & Vk & _ & Hce).
    apply vis_Some in Vk. destruct Vk as [Lk0 _]. rewrite Lk in Lk0. injection Lk0 as <-.
    unfold contrib. rewrite Hce. destruct (deleted bk); reflexivity.
  - destruct W6 as (bt & Vt & At). exists bt. split; [|exact At]. apply Hvk; [|exact Vt].
    intros Hin. destruct (Hids _ Hin) as (bt0 & Vt0 & At0 & _). rewrite Vt in Vt0. injection Vt0 as <-.
    rewrite At in At0. discriminate.
Qed.

(* ------------------------------------------------------------------ unapplyBlock: list facts *)
Lemma perm_remove_last x l : In x l -> Permutation l (x :: remove_last_n x l).
Proof.
  induction l as [|a r IH]; intros Hin; [destruct Hin|].
  cbn [remove_last_n]. destruct (existsb (N.eqb x) r) eqn:E.
  - apply wfB_existsb_In in E. eapply Permutation_trans; [apply perm_skip; exact (IH E)|]. apply perm_swap.
  - apply wfB_existsb_notIn in E. destruct Hin as [->|Hin]; [|contradiction].
    rewrite N.eqb_refl. apply Permutation_refl.
Qed.

Lemma in_remove_first (x : endorsement) y c : In x c -> fst x <> y -> In x (remove_first_e y c).
Proof.
  induction c as [|a r IH]; intros Hin Hne; [destruct Hin|].
  cbn [remove_first_e]. destruct (fst a =? y) eqn:E.
  - destruct Hin as [->|Hin]; [|exact Hin]. apply N.eqb_eq in E. contradiction.
  - destruct Hin as [->|Hin]; [left; reflexivity|right; exact (IH Hin Hne)].
Qed.

Lemma remove_first_incl y c (x : endorsement) : In x (remove_first_e y c) -> In x c.
Proof.
  induction c as [|a r IH]; cbn [remove_first_e]; [intros []|].
  destruct (fst a =? y); [intros H; right; exact H|].
  intros [->|H]; [left; reflexivity|right; exact (IH H)].
Qed.

Lemma nodup_remove_first y c : NoDup (map fst c) -> NoDup (map fst (remove_first_e y c)).
Proof.
  induction c as [|a r IH]; cbn [remove_first_e map]; intros H; [exact H|].
  inversion H as [|? ? Hn Hr]; subst. destruct (fst a =? y); [exact Hr|].
  cbn [map]. constructor; [|exact (IH Hr)].
  intros Hin. apply Hn. apply in_map_iff in Hin. destruct Hin as (x & Hx & Hin).
  apply in_map_iff. exists x. split; [exact Hx|exact (remove_first_incl _ _ _ Hin)].
Qed.

Lemma filter_remove_first (c : list endorsement) e j :
  NoDup (map fst c) -> In e c ->
  Permutation (map fst (filter (fun e0 => snd e0 =? j) c))
              (map fst (filter (fun e0 => snd e0 =? j) (remove_first_e (fst e) c)) ++
               (if snd e =? j then [fst e] else [])).
Proof.
  induction c as [|x r IH]; intros Hnd Hin; [destruct Hin|].
  cbn [map] in Hnd. inversion Hnd as [|? ? Hn Hr]; subst.
  cbn [remove_first_e]. destruct Hin as [->|Hin].
  - rewrite N.eqb_refl. cbn [filter]. destruct (snd e =? j); cbn [map].
    + apply Permutation_cons_append.
    + rewrite app_nil_r. apply Permutation_refl.
  - assert (Hne : fst x =? fst e = false).
    { apply N.eqb_neq. intros Heq. apply Hn. rewrite Heq. apply in_map. exact Hin. }
    rewrite Hne. cbn [filter]. destruct (snd x =? j); cbn [map app].
    + apply perm_skip. exact (IH Hr Hin).
    + exact (IH Hr Hin).
Qed.

Lemma eraseBy_pers x b : b_pers (eraseBy x b) = b_pers b.
Proof. unfold eraseBy. destruct (existsb (N.eqb x) (b_by b)); reflexivity. Qed.

Lemma eraseBy_final x b : b_final (eraseBy x b) = b_final b.
Proof. unfold eraseBy. destruct (existsb (N.eqb x) (b_by b)); reflexivity. Qed.

Lemma eraseBy_deleted x b : deleted (eraseBy x b) = deleted b.
Proof. unfold deleted, bstatus. rewrite eraseBy_pers. reflexivity. Qed.

Lemma eraseBy_contrib j x b : contrib j (eraseBy x b) = contrib j b.
Proof. unfold contrib. rewrite eraseBy_deleted, eraseBy_pers. reflexivity. Qed.

Lemma in_inc m id b e : lookup m id = Some b -> deleted b = false -> In e (p_ce (b_pers b)) -> In (fst e) (inc m (snd e)).
Proof.
  intros L D He. unfold inc. apply in_flat_map. exists (id, b). split; [exact (wfB_lookup_In _ _ _ L)|].
  cbn [snd]. unfold contrib. rewrite D. apply in_map. apply filter_In. split; [exact He|apply N.eqb_refl].
Qed.

(* ------------------------------------------------------------------ unapplyBlock: one endorsement *)
Lemma byok_unapply_step m id b e :
  byok m -> vis m id = Some b -> In e (p_ce (b_pers b)) -> NoDup (map fst (p_ce (b_pers b))) -> snd e <> id ->
  byok (upd (upd m (snd e) (eraseBy (fst e))) id (removeCE (fst e))).
Proof.
  intros B V He Hnd Hne j bj.
  pose proof V as V'. apply vis_Some in V'. destruct V' as [L D].
  rewrite vis_upd by (intros; reflexivity). rewrite vis_upd by (intros; apply eraseBy_deleted).
  destruct (vis m j) as [b0|] eqn:Vj; cbn [option_map]; [|discriminate]. intros E0. injection E0 as <-.
  assert (L1 : lookup (upd m (snd e) (eraseBy (fst e))) id = Some b).
  { rewrite lookup_upd_other by exact Hne. exact L. }
  assert (HP : Permutation (inc (upd m (snd e) (eraseBy (fst e))) j ++ [])
                 (inc (upd (upd m (snd e) (eraseBy (fst e))) id (removeCE (fst e))) j ++
                  (if snd e =? j then [fst e] else []))).
  { apply (inc_upd_perm _ id (removeCE (fst e)) b j _ _ L1).
    unfold contrib. change (deleted (removeCE (fst e) b)) with (deleted b). rewrite D.
    change (p_ce (b_pers (removeCE (fst e) b))) with (remove_first_e (fst e) (p_ce (b_pers b))).
    rewrite app_nil_r. apply filter_remove_first; assumption. }
  rewrite app_nil_r in HP. rewrite (inc_upd_same m (snd e) (eraseBy (fst e)) j) in HP by (intros; apply eraseBy_contrib).
  pose proof (B j b0 Vj) as P0.
  destruct (snd e =? j) eqn:E.
  - apply N.eqb_eq in E. subst j. apply N.eqb_neq in Hne. rewrite N.eqb_sym in Hne. rewrite Hne.
    assert (Hin : In (fst e) (b_by b0)).
    { apply (Permutation_in _ (Permutation_sym P0)). exact (in_inc m id b e L D He). }
    unfold eraseBy. rewrite (proj2 (wfB_existsb_In _ _) Hin). cbn [setDirty b_by b_pers].
    apply (Permutation_cons_inv (a := fst e)).
    eapply Permutation_trans; [apply Permutation_sym; exact (perm_remove_last _ _ Hin)|].
    eapply Permutation_trans; [exact P0|]. eapply Permutation_trans; [exact HP|].
    apply Permutation_sym. apply Permutation_cons_append.
  - rewrite app_nil_r in HP.
    assert (Hby : b_by (if id =? j then removeCE (fst e) b0 else b0) = b_by b0) by (destruct (id =? j); reflexivity).
    rewrite Hby. eapply Permutation_trans; [exact P0|exact HP].
Qed.

Lemma wf_unapply_step m t id b e :
  wfm m t -> byok m -> vis m id = Some b -> In e (p_ce (b_pers b)) ->
  wfm (upd (upd m (snd e) (eraseBy (fst e))) id (removeCE (fst e))) t /\
  byok (upd (upd m (snd e) (eraseBy (fst e))) id (removeCE (fst e))) /\
  vis (upd (upd m (snd e) (eraseBy (fst e))) id (removeCE (fst e))) id = Some (removeCE (fst e) b) /\
  shape m (upd (upd m (snd e) (eraseBy (fst e))) id (removeCE (fst e))).
Proof.
  intros W B V He.
  pose proof V as V'. apply vis_Some in V'. destruct V' as [L D].
  destruct (wm_ce _ _ W id b e V He) as (eb & Ve & Hlt).
  pose proof Ve as Ve'. apply vis_Some in Ve'. destruct Ve' as [Le De].
  assert (Hne : snd e <> id).
  { intros Heq. rewrite Heq in Le. rewrite L in Le. injection Le as <-. lia. }
  destruct (wm_local _ _ W id b L) as (F1 & F2 & F3 & F4).
  assert (W1 : wfm (upd m (snd e) (eraseBy (fst e))) t).
  { apply (wfm_upd m t (snd e) (eraseBy (fst e)) eb W Le).
    - rewrite eraseBy_pers. reflexivity.
    - rewrite eraseBy_pers. reflexivity.
    - apply eraseBy_deleted.
    - destruct (wm_local _ _ W (snd e) eb Le) as (G1 & G2 & G3 & G4). split; [|split; [|split]].
      + unfold final_ok. rewrite eraseBy_final, eraseBy_pers. exact G1.
      + intros Hd. rewrite eraseBy_deleted in Hd. congruence.
      + unfold level_ok, bstatus. rewrite eraseBy_deleted, eraseBy_pers. exact G3.
      + unfold ce_nodup. rewrite eraseBy_pers. exact G4.
    - intros _. unfold bstatus. rewrite eraseBy_pers. intros Ha. left. exact Ha.
    - unfold bstatus. rewrite eraseBy_pers. intros Ha. left. exact Ha.
    - intros _ e0. rewrite eraseBy_pers. intros Hin. left. exact Hin. }
  assert (L1 : lookup (upd m (snd e) (eraseBy (fst e))) id = Some b).
  { rewrite lookup_upd_other by exact Hne. exact L. }
  split; [|split; [|split]].
  - apply (wfm_upd _ t id (removeCE (fst e)) b W1 L1); try reflexivity.
    + split; [|split; [|split]].
      * exact F1.
      * intros Hd. change (deleted (removeCE (fst e) b)) with (deleted b) in Hd. congruence.
      * exact F3.
      * unfold ce_nodup. change (p_ce (b_pers (removeCE (fst e) b))) with (remove_first_e (fst e) (p_ce (b_pers b))).
        apply nodup_remove_first. exact F4.
    + intros _ Ha. left. exact Ha.
    + intros Ha. left. exact Ha.
    + intros _ e0. change (p_ce (b_pers (removeCE (fst e) b))) with (remove_first_e (fst e) (p_ce (b_pers b))).
      intros Hin. left. exact (remove_first_incl _ _ _ Hin).
  - exact (byok_unapply_step m id b e B V He F4 Hne).
  - rewrite vis_upd by (intros; reflexivity). rewrite vis_upd by (intros; apply eraseBy_deleted).
    rewrite V. cbn [option_map]. rewrite N.eqb_refl.
    apply N.eqb_neq in Hne. rewrite Hne. reflexivity.
  - eapply shape_trans; apply shape_upd; intros; unfold bstatus; rewrite ?eraseBy_pers; repeat split.
Qed.

Lemma wf_unapply_fold t id l : forall m b,
  wfm m t -> byok m -> vis m id = Some b -> NoDup (map fst l) -> incl l (p_ce (b_pers b)) ->
  wfm (fold_left (fun m e => upd (upd m (snd e) (eraseBy (fst e))) id (removeCE (fst e))) l m) t /\
  byok (fold_left (fun m e => upd (upd m (snd e) (eraseBy (fst e))) id (removeCE (fst e))) l m) /\
  shape m (fold_left (fun m e => upd (upd m (snd e) (eraseBy (fst e))) id (removeCE (fst e))) l m).
Proof.
  induction l as [|e l IH]; intros m b W B V Hnd Hincl.
  - split; [exact W|split; [exact B|apply shape_refl]].
  - cbn [fold_left]. cbn [map] in Hnd. inversion Hnd as [|? ? Hn Hr]; subst.
    destruct (wf_unapply_step m t id b e W B V (Hincl e (or_introl eq_refl))) as (W2 & B2 & V2 & S2).
    destruct (IH _ (removeCE (fst e) b) W2 B2 V2 Hr) as (W3 & B3 & S3).
    + intros e0 Hin. change (p_ce (b_pers (removeCE (fst e) b))) with (remove_first_e (fst e) (p_ce (b_pers b))).
      apply in_remove_first; [exact (Hincl e0 (or_intror Hin))|].
      intros Heq. apply Hn. rewrite <- Heq. apply in_map. exact Hin.
    + split; [exact W3|split; [exact B3|]]. eapply shape_trans; eassumption.
Qed.

Lemma step_wf_OUnapply s st s' st' id :
  wf s -> pre s (OUnapply id) -> step prims_fixed (OUnapply id) s st = Done s' st' -> wf s'.
Proof.
  intros Hwf Hpre Hstep. apply wf_split in Hwf. destruct Hwf as [W B].
  cbn [step] in Hstep. injection Hstep as <- _.
  cbn [pre] in Hpre. destruct Hpre as (Hv & Htip & Hch).
  apply visible_iff in Hv. destruct Hv as (b & V).
  pose proof V as V'. apply vis_Some in V'. destruct V' as [L D].
  destruct (wm_local _ _ W id b L) as (_ & _ & _ & F4).
  assert (Hfold : wfm (unapply_endorsements (blocks s) id) (tip s) /\ byok (unapply_endorsements (blocks s) id) /\
                  shape (blocks s) (unapply_endorsements (blocks s) id)).
  { unfold unapply_endorsements. rewrite L. apply (wf_unapply_fold (tip s) id _ (blocks s) b W B V).
    - rewrite map_rev. apply NoDup_rev. exact F4.
    - intros e He. apply in_rev. exact He. }
  destruct Hfold as (W1 & B1 & S1).
  destruct (proj1 S1 id b V) as (b1 & V1 & Hh1 & Hp1 & Hs1).
  pose proof V1 as V1'. apply vis_Some in V1'. destruct V1' as [L1 D1].
  destruct (unapply_final_facts b1) as ((A1 & A2 & A3 & A4 & A5) & As).
  assert (Ad : deleted (unsetFlag FActive b1) = deleted b1) by (unfold deleted; rewrite As; reflexivity).
  assert (Aa : s_active (bstatus (unsetFlag FActive b1)) = false) by (rewrite As; reflexivity).
  apply wf_split. cbn [blocks tip]. split.
  - apply (wfm_upd _ (tip s) id (unsetFlag FActive) b1 W1 L1).
    + exact A1.
    + exact A2.
    + exact Ad.
    + destruct (wm_local _ _ W1 id b1 L1) as (F1 & F2 & F3 & F4'). split; [|split; [|split]].
      * unfold final_ok. rewrite A5, A1. exact F1.
      * intros Hd. rewrite Ad in Hd. congruence.
      * intros _. split; [|intros Ha; rewrite Aa in Ha; discriminate].
        rewrite As. change (s_level (put_flag FActive false (bstatus b1))) with (s_level (bstatus b1)).
        exact (proj1 (F3 D1)).
      * unfold ce_nodup. rewrite A3. exact F4'.
    + intros _ Ha. rewrite Aa in Ha. discriminate.
    + intros _. right. split; [exact Htip|]. intros c bc Vc Hpc.
      destruct (proj2 S1 c bc Vc) as (bc0 & Vc0 & _ & Hpc0 & Hsc0).
      rewrite <- Hsc0. apply (Hch c bc0 Vc0). rewrite Hpc0. exact Hpc.
    + intros _ e He. left. rewrite A3 in He. exact He.
  - apply byok_upd_same; [|exact B1]. intros b0 L0. rewrite L1 in L0. injection L0 as <-.
    split; [exact A4|split; [exact A3|exact Ad]].
Qed.
