(** C10 — a variant of finalizeBlockImpl used only to show that the full walk over the active chain is needed.
    NO proofs in this file.

    finalizeBlockImpl (base_block_tree.hpp) moves the block to finalize down to the LOWEST dirty block of the
    active chain ([lowest_dirty] in Store/FinalizeDefs.v walks down to the root).  The variant below stops the walk
    at the first clean block ("unsaved blocks are the top of the chain").  That is wrong as soon as an old, already
    saved block becomes dirty again below clean blocks (a late VTB adds a VTB id / reference to it). *)
From Coq Require Import NArith List Bool.
From VB Require Import Store.FinalizeDefs.
Import ListNotations.
Local Open Scope N_scope.

(* for (walk = fin; walk != nullptr && walk->isDirty(); walk = walk->pprev) fin = walk; *)
Fixpoint lowest_dirty_stop (fuel : nat) (t : ftree) (id : N) (acc : N) : N :=
  if is_dirty t id then
    match fuel with
    | O => id
    | S f => match parent_of t id with None => id | Some p => lowest_dirty_stop f t p id end
    end
  else acc.

(* finalizeBlockImpl with that walk; everything else as in Store/FinalizeDefs.v *)
Definition finalizeBlockImpl_stop (fuel : nat) (t : ftree) (idx : N) (preserve : N) : ftree :=
  if idx =? root_of t then
    if is_final t idx then t
    else mkT (mark_final [idx] (t_blocks t)) (t_chain t) (t_tips t) (add_payloads t [idx] (t_fpidx t))
  else
    let fin0 := lowest_dirty_stop fuel t idx idx in
    let '(tips', fin) := erase_tips fuel t (t_tips t) fin0 in
    let rootH := height_of t (root_of t) in
    let want := height_of t fin - preserve in
    let firstH := N.max rootH want in
    match chain_at t firstH with
    | None => t
    | Some newRoot =>
      let moved := negb (newRoot =? root_of t) in
      let below := match parent_of t newRoot with Some rp => unfinal_path fuel t rp | None => [] end in
      let fp1 := add_payloads t below (t_fpidx t) in
      let keep := fun id : N => descends fuel t id newRoot && negb (moved && under_sibling fuel t fin id) in
      let bl1 := filter (fun kb => keep (fst kb)) (t_blocks t) in
      let bl2 := set_parent_none newRoot bl1 in
      let t2 := mkT bl2 (filter (fun id => firstH <=? height_of t id) (t_chain t))
                    (filter keep tips') fp1 in
      let newly := unfinal_path fuel t2 fin in
      mkT (mark_final newly bl2) (t_chain t2) (t_tips t2) (add_payloads t2 newly fp1)
    end.

(* chain 0..12, every block saved, except block 2: an old block that became dirty again (late VTB) *)
Definition late_dirty_tree : ftree :=
  let mk := fun (i : N) => (i, mkF (if i =? 0 then None else Some (i - 1)) i (i =? 2) (i =? 0) [100 + i]) in
  mkT (map mk [0;1;2;3;4;5;6;7;8;9;10;11;12]) [0;1;2;3;4;5;6;7;8;9;10;11;12] [12] [].
