(** C10 — what the reload correspondence compares is fixed by the reload theorems: for every guarded history with
    saves anywhere, the observation [load_obs] of the accumulated storage succeeds and shows, under every id, the
    observation of the live state at that save (tip, parent, height, status word, payload ids, containing
    endorsements, refcount, finalized mark; endorsedBy up to order); a crash after any completed save shows the
    state of that save. *)
From Coq Require Import NArith List Bool Lia Permutation.
From VB Require Import Store.SaveLoadDefs Store.SaveLoadProofs Store.SaveLoadTheorems.
From VB Require Import Store.ReloadEquiv Store.ReloadTheorems Store.ReloadObsDefs.
Import ListNotations.
Local Open Scope N_scope.

Lemma tree_block_vis s id : tree_block s id = vis (blocks s) id.
Proof. unfold tree_block, vis, visb, deleted. destruct (lookup (blocks s) id); reflexivity. Qed.

Lemma equiv_obs s s' : equiv s s' ->
  tip s' = tip s /\ (forall id, obs_at s' id = obs_at s id) /\ (forall id, Permutation (by_at s' id) (by_at s id)).
Proof.
  intros HE. destruct (equiv_vis s s' HE) as [Ht Hv]. split; [symmetry; exact Ht|]. split.
  - intros id. specialize (Hv id). unfold obs_at. rewrite !tree_block_vis. unfold osim in Hv.
    destruct (vis (blocks s) id) as [b|], (vis (blocks s') id) as [b'|]; cbn [option_map]; try contradiction; [|reflexivity].
    destruct Hv as (H1 & H2 & _). unfold obs_block. rewrite H1, H2. reflexivity.
  - intros id. specialize (Hv id). unfold by_at. rewrite !tree_block_vis. unfold osim in Hv.
    destruct (vis (blocks s) id) as [b|], (vis (blocks s') id) as [b'|]; try contradiction; [|apply Permutation_refl].
    apply Permutation_sym. exact (proj2 (proj2 Hv)).
Qed.

(* the observation lists of two states agree entry by entry (endorsedBy up to order) *)
Definition obs_agree (x y : N * list (N * option bobs * list N)) : Prop :=
  fst x = fst y /\
  Forall2 (fun a b => fst (fst a) = fst (fst b) /\ snd (fst a) = snd (fst b) /\ Permutation (snd a) (snd b)) (snd x) (snd y).

Lemma obs_state_agree s s' ids : equiv s s' -> obs_agree (obs_state s' ids) (obs_state s ids).
Proof.
  intros HE. destruct (equiv_obs s s' HE) as (Ht & Ho & Hb). split; [exact Ht|].
  cbn [snd obs_state]. induction ids as [|i r IH]; cbn [map]; constructor; [|exact IH].
  cbn [fst snd]. split; [reflexivity|]. split; [apply Ho|apply Hb].
Qed.

(* ids the loaded state holds are ids the live state holds (nothing appears by loading) *)
Lemma equiv_ids s s' : equiv s s' -> forall id, In id (obs_ids s') -> obs_at s id <> None \/ lookup (blocks s) id <> None.
Proof.
  intros [_ [H1 _]] id HI. right. unfold obs_ids in HI. apply in_map_iff in HI. destruct HI as ([k b] & Hk & HI).
  cbn [fst] in Hk. subst k. apply filter_In in HI. destruct HI as [HI _].
  assert (exists b', lookup (blocks s') id = Some b') as [b' Hb'].
  { clear -HI. induction (blocks s') as [|[k v] r IH]; [destruct HI|]. cbn [lookup]. destruct (k =? id) eqn:E; [eauto|].
    destruct HI as [HI|HI]; [inversion HI; subst; rewrite N.eqb_refl in E; discriminate|exact (IH HI)]. }
  destruct (H1 id b' Hb') as (b0 & Hb0 & _). rewrite Hb0. discriminate.
Qed.

Theorem reload_obs h s st ids :
  guarded h init storage0 ->
  run prims_fixed (h ++ [OSave]) init storage0 = Done s st ->
  exists o, load_obs prims_fixed st ids = inl o /\
            exists ids', obs_agree o (obs_state s (ids ++ ids')) /\ forall id, In id ids' -> lookup (blocks s) id <> None.
Proof.
  intros HG HR. destruct (reload_equiv h s st HG HR) as (_ & _ & s' & HL & HE & _).
  unfold load_obs. rewrite HL. eexists. split; [reflexivity|].
  exists (filter (fun k => negb (existsb (N.eqb k) ids)) (obs_ids s')). split; [exact (obs_state_agree s s' _ HE)|].
  intros id HI. apply filter_In in HI. destruct HI as [HI _].
  destruct (equiv_ids s s' HE id HI) as [H|H]; [|exact H].
  unfold obs_at, tree_block in H. destruct (lookup (blocks s) id); [discriminate|]. cbn in H. congruence.
Qed.

(* crash after any completed save: the storage written up to that save loads to the observation of that moment,
   whatever ran afterwards without completing a save is lost, nothing else *)
Theorem crash_obs h1 h2 s1 st1 ids :
  guarded (h1 ++ [OSave] ++ h2) init storage0 ->
  run prims_fixed (h1 ++ [OSave]) init storage0 = Done s1 st1 ->
  exists o, load_obs prims_fixed st1 ids = inl o /\
            exists ids', obs_agree o (obs_state s1 (ids ++ ids')) /\ forall id, In id ids' -> lookup (blocks s1) id <> None.
Proof.
  intros HG HR. apply guarded_app in HG. destruct HG as [HG _]. exact (reload_obs h1 s1 st1 ids HG HR).
Qed.

(* the premises are met by the fork/invalidate/remove/re-add/endorse/reorg history of ReloadTheorems.v (hist_guarded),
   and the observation is not trivial: it shows blocks with containing endorsements and endorsedBy entries *)
Example reload_obs_example :
  guarded ((hist1 ++ [OSave]) ++ hist2) init storage0 /\
  match run prims_fixed (hist1 ++ [OSave]) init storage0 with
  | Done s st => match load_obs prims_fixed st [] with
                 | inl o => fst o = tip s /\ (3 <=? N.of_nat (length (snd o))) = true /\
                            existsb (fun x => match snd (fst x) with Some b => negb (match o_ce b with [] => true | _ => false end) | None => false end) (snd o) = true /\
                            existsb (fun x => negb (match snd x with [] => true | _ => false end)) (snd o) = true
                 | inr _ => False
                 end
  | Abort _ => False
  end.
Proof.
  split; [exact hist_guarded|].
  vm_compute. repeat split.
Qed.
