(** C10 — the per-block observation that the correspondence stage compares between the extracted reload model
    (save -> storage image -> load) and a fresh library instance loaded from the real storage (saveTrees/loadTrees).
    NO proofs in this file.  [obs_at] is what getBlockIndex shows of a tree block: parent, height, the C++ status
    word, payload ids (order kept), containing endorsements, refcount, finalized mark; [by_at] the memory-only
    endorsedBy list that recoverEndorsements rebuilds.  A BLOCK_DELETED index is not a tree block. *)
From Coq Require Import NArith List Bool.
From VB Require Import Store.SaveLoadDefs.
Import ListNotations.
Local Open Scope N_scope.

Record bobs := mkBobs {
  o_parent : option N; o_height : N; o_status : N; o_pl : list N; o_ce : list endorsement; o_ref : N; o_final : bool }.

Definition obs_block (b : block) : bobs :=
  let p := b_pers b in
  mkBobs (p_parent p) (p_height p) (status_word (p_status p)) (p_pl p) (p_ce p) (p_ref p) (b_final b).

Definition tree_block (s : state) (id : N) : option block :=
  match lookup (blocks s) id with
  | Some b => if s_deleted (bstatus b) then None else Some b
  | None => None
  end.

Definition obs_at (s : state) (id : N) : option bobs := option_map obs_block (tree_block s id).
Definition by_at (s : state) (id : N) : list N := match tree_block s id with Some b => b_by b | None => [] end.

(* ids of the tree blocks, in map order *)
Definition obs_ids (s : state) : list N :=
  map fst (filter (fun kb => negb (s_deleted (bstatus (snd kb)))) (blocks s)).

(* the whole observation over a list of ids (the caller passes the ids of both sides) *)
Definition obs_state (s : state) (ids : list N) : N * list (N * option bobs * list N) :=
  (tip s, map (fun id => (id, obs_at s id, by_at s id)) ids).

(* save -> storage image -> load, observed; None = load failed with the given code *)
Definition load_obs (P : prims) (st : storage) (ids : list N) : N * list (N * option bobs * list N) + N :=
  match load P st with
  | Loaded s => inl (obs_state s (ids ++ filter (fun k => negb (existsb (N.eqb k) ids)) (obs_ids s)))
  | LoadFail w => inr w
  end.
