(** C09 — executable model of finalization in BaseBlockTree (NO proofs here).

    Sources modelled (read from /repo):
      include/veriblock/pop/blockchain/block_index.hpp   getAncestor, getForkBlock, isBlockOutdated (445-483)
      include/veriblock/pop/blockchain/base_block_tree.hpp
           finalizeBlocks (435-467), finalizeBlockImpl (882-1015 incl. fix 057feaed), deallocateTree
      include/veriblock/pop/blockchain/pop/fork_resolution.hpp  TIP_IS_FINAL short-cuts of comparePopScore (572-627)
      include/veriblock/pop/blockchain/pop/pop_state_machine.hpp assertBlockCanBeUnapplied

    The tree is a finite map id -> block (parent id, height, dirty, finalized, payload ids); the active chain is
    the list of ids root..tip; tips_ is a list whose ORDER stands for the iteration order of the unordered_set. *)
From Coq Require Import NArith List Bool.
Import ListNotations.
Local Open Scope N_scope.

Record fblock := mkF {
  f_parent : option N;       (* pprev; None for the current root *)
  f_height : N;
  f_dirty : bool;
  f_final : bool;
  f_pl : list N }.           (* payload ids of the block *)

Record ftree := mkT {
  t_blocks : list (N * fblock);
  t_chain : list N;          (* active chain, root first *)
  t_tips : list N;           (* tips_ (iteration order = list order) *)
  t_fpidx : list (N * N) }.  (* finalizedPayloadsIndex_: payload id -> containing block *)

Fixpoint flookup {A} (m : list (N * A)) (k : N) : option A :=
  match m with [] => None | (k', v) :: r => if k' =? k then Some v else flookup r k end.

Definition height_of (t : ftree) (id : N) : N :=
  match flookup (t_blocks t) id with Some b => f_height b | None => 0 end.
Definition parent_of (t : ftree) (id : N) : option N :=
  match flookup (t_blocks t) id with Some b => f_parent b | None => None end.

(* getAncestor(_height): follow pprev while height > _height; nullptr if the walk falls off the tree or the
   block is below _height.  [fuel] bounds the walk (any fuel >= number of blocks suffices). *)
Fixpoint ancestor_at (fuel : nat) (t : ftree) (id : N) (h : N) : option N :=
  match flookup (t_blocks t) id with
  | None => None
  | Some b =>
    if f_height b <? h then None
    else if f_height b =? h then Some id
    else match fuel with
         | O => None
         | S f => match f_parent b with None => None | Some p => ancestor_at f t p h end
         end
  end.

Definition opt_eqb (a b : option N) : bool :=
  match a, b with Some x, Some y => x =? y | None, None => true | _, _ => false end.

(* candidate descends from (or is) `anc` *)
Definition descends (fuel : nat) (t : ftree) (cand anc : N) : bool :=
  opt_eqb (ancestor_at fuel t cand (height_of t anc)) (Some anc).

(* getForkBlock(a, b): walk both down from min height until the cursors meet *)
Fixpoint fork_walk (fuel : nat) (t : ftree) (a b : N) : option N :=
  if a =? b then Some a
  else match fuel with
       | O => None
       | S f => match parent_of t a, parent_of t b with
                | Some pa, Some pb => fork_walk f t pa pb
                | _, _ => None
                end
       end.
Definition fork_block (fuel : nat) (t : ftree) (a b : N) : option N :=
  let h := N.min (height_of t a) (height_of t b) in
  match ancestor_at fuel t a h, ancestor_at fuel t b h with
  | Some ca, Some cb => fork_walk fuel t ca cb
  | _, _ => None
  end.

(* isBlockOutdated(finalBlock, candidate), statement by statement; the recursive call is on the fork block *)
Fixpoint outdated (rec : nat) (fuel : nat) (t : ftree) (fin cand : N) : bool :=
  if opt_eqb (ancestor_at fuel t cand (height_of t fin)) (Some fin) then false
  else if height_of t cand <? height_of t fin then true
  else if (height_of t cand =? height_of t fin) && negb (fin =? cand) then true
  else if opt_eqb (ancestor_at fuel t fin (height_of t cand)) (Some cand) then false
  else match fork_block fuel t fin cand with
       | None => true
       | Some fk => match rec with O => true | S r => outdated r fuel t fin fk end
       end.

(* ------------------------------------------------------------------ finalizeBlockImpl *)
Definition on_chain (t : ftree) (id : N) : bool := existsb (N.eqb id) (t_chain t).
Definition is_dirty (t : ftree) (id : N) : bool :=
  match flookup (t_blocks t) id with Some b => f_dirty b | None => false end.
Definition is_final (t : ftree) (id : N) : bool :=
  match flookup (t_blocks t) id with Some b => f_final b | None => false end.
Definition root_of (t : ftree) : N := hd 0 (t_chain t).
Definition tip_of (t : ftree) : N := last (t_chain t) 0.
Definition chain_at (t : ftree) (h : N) : option N :=
  find (fun id => height_of t id =? h) (t_chain t).

(* "we can not remove blocks which have not been saved": the LOWEST dirty block on the path fin -> root *)
Fixpoint lowest_dirty (fuel : nat) (t : ftree) (id : N) (acc : N) : N :=
  let acc' := if is_dirty t id then id else acc in
  match fuel with
  | O => acc'
  | S f => match parent_of t id with None => acc' | Some p => lowest_dirty f t p acc' end
  end.

(* walk from an off-chain tip down to the first block on the active chain; report whether a dirty block was seen *)
Fixpoint walk_to_chain (fuel : nat) (t : ftree) (id : N) (seen : bool) : (N * bool) :=
  if on_chain t id then (id, seen)
  else let seen' := seen || is_dirty t id in
       match fuel with
       | O => (id, seen')
       | S f => match parent_of t id with None => (id, seen') | Some p => walk_to_chain f t p seen' end
       end.

(* erase_if over tips_: returns (kept tips, final block possibly lowered) *)
Fixpoint erase_tips (fuel : nat) (t : ftree) (tips : list N) (fin : N) : (list N * N) :=
  match tips with
  | [] => ([], fin)
  | tp :: r =>
    if negb (on_chain t tp) && outdated fuel fuel t fin tp then
      let '(w, d) := walk_to_chain fuel t tp false in
      erase_tips fuel t r (if d then w else fin)
    else let '(k, f') := erase_tips fuel t r fin in (tp :: k, f')
  end.

(* blocks that survive deallocateTree(rootPrev) after newRoot was disconnected: the descendants of newRoot;
   then the subtrees of the siblings of the final block ("parallel blocks") go as well *)
Definition sibling_of (t : ftree) (fin : N) (id : N) : bool :=
  negb (id =? fin) && opt_eqb (parent_of t id) (parent_of t fin) &&
  match parent_of t fin with Some _ => true | None => false end.
Definition under_sibling (fuel : nat) (t : ftree) (fin : N) (id : N) : bool :=
  match ancestor_at fuel t id (height_of t fin) with
  | Some a => sibling_of t fin a
  | None => false
  end.

(* ids from `id` down to the root that are not yet finalized (marking loop, stops at the first final block) *)
Fixpoint unfinal_path (fuel : nat) (t : ftree) (id : N) : list N :=
  if is_final t id then []
  else match flookup (t_blocks t) id with
       | None => []
       | Some b => id :: match fuel with
                         | O => []
                         | S f => match f_parent b with None => [] | Some p => unfinal_path f t p end
                         end
       end.

Definition add_payloads (t : ftree) (ids : list N) (idx : list (N * N)) : list (N * N) :=
  fold_left (fun acc id => acc ++ map (fun p => (p, id)) (match flookup (t_blocks t) id with Some b => f_pl b | None => [] end))
            ids idx.

Definition mark_final (ids : list N) (bl : list (N * fblock)) : list (N * fblock) :=
  map (fun kb => if existsb (N.eqb (fst kb)) ids
                 then (fst kb, mkF (f_parent (snd kb)) (f_height (snd kb)) (f_dirty (snd kb)) true (f_pl (snd kb)))
                 else kb) bl.

Definition set_parent_none (id : N) (bl : list (N * fblock)) : list (N * fblock) :=
  map (fun kb => if fst kb =? id
                 then (fst kb, mkF None (f_height (snd kb)) (f_dirty (snd kb)) (f_final (snd kb)) (f_pl (snd kb)))
                 else kb) bl.

Definition finalizeBlockImpl (fuel : nat) (t : ftree) (idx : N) (preserve : N) : ftree :=
  if idx =? root_of t then
    if is_final t idx then t
    else mkT (mark_final [idx] (t_blocks t)) (t_chain t) (t_tips t) (add_payloads t [idx] (t_fpidx t))
  else
    let fin0 := lowest_dirty fuel t idx idx in
    let '(tips', fin) := erase_tips fuel t (t_tips t) fin0 in
    let rootH := height_of t (root_of t) in
    let want := height_of t fin - preserve in            (* N subtraction truncates at 0, the code takes max(rootH, .) *)
    let firstH := N.max rootH want in
    match chain_at t firstH with
    | None => t                                          (* VBK_ASSERT(newRoot) *)
    | Some newRoot =>
      let moved := negb (newRoot =? root_of t) in
      (* 057feaed: the active-chain blocks below the new root are final as well; remember their payload ids *)
      let below := match parent_of t newRoot with Some rp => unfinal_path fuel t rp | None => [] end in
      let fp1 := add_payloads t below (t_fpidx t) in
      let keep := fun id : N => descends fuel t id newRoot && negb (moved && under_sibling fuel t fin id) in
      let bl1 := filter (fun kb => keep (fst kb)) (t_blocks t) in
      let bl2 := set_parent_none newRoot bl1 in
      let t2 := mkT bl2 (filter (fun id => firstH <=? height_of t id) (t_chain t))
                    (filter keep tips') fp1 in
      let newly := unfinal_path fuel t2 fin in
      mkT (mark_final newly bl2) (t_chain t2) (t_tips t2) (add_payloads t2 newly fp1)
    end.

(* finalizeBlocks(maxReorgBlocks, preserveBlocksBehindFinal, maxFinalizeBlockHeight) *)
Definition finalizeBlocks (fuel : nat) (t : ftree) (maxReorg preserve maxFinH : N) : ftree :=
  let tipH := height_of t (tip_of t) in
  if tipH <? maxReorg then t
  else
    let firstH := N.max (height_of t (root_of t)) (tipH - maxReorg) in
    match chain_at t firstH with
    | None => t
    | Some fi => if maxFinH <=? height_of t fi then t else finalizeBlockImpl fuel t fi preserve
    end.

(* ------------------------------------------------------------------ the comparator's short-cuts *)
(* comparePopScore(candidate) before any payload is touched: Some 1 = "tip wins" (TIP_IS_FINAL or invalid/unknown) *)
Definition highest_final (t : ftree) : option N :=
  fold_left (fun acc id => if is_final t id then Some id else acc) (t_chain t) None.

Definition cmp_shortcut (fuel : nat) (t : ftree) (cand : N) : option N :=
  match flookup (t_blocks t) cand with
  | None => Some 1                                         (* unknown block B: `return 1` *)
  | Some _ =>
    let tp := tip_of t in
    if tp =? cand then Some 1
    else if is_final t tp && (height_of t cand <=? height_of t tp) then Some 1     (* TIP_IS_FINAL (1) *)
    else if on_chain t cand then Some 1
    else match fork_block fuel t tp cand with
         | None => Some 1
         | Some fk => match chain_at t (height_of t fk + 1) with
                      | Some nx => if is_final t nx then Some 1 else None            (* TIP_IS_FINAL (2) *)
                      | None => None
                      end
         end
  end.

(* setState(to): the blocks of the active chain above the fork point are unapplied;
   assertBlockCanBeUnapplied aborts on a finalized one *)
Inductive fres := FOk (t : ftree) | FAbort.

Fixpoint path_to (fuel : nat) (t : ftree) (id : N) (acc : list N) : list N :=   (* root..id *)
  match fuel with
  | O => id :: acc
  | S f => match parent_of t id with None => id :: acc | Some p => path_to f t p (id :: acc) end
  end.

Fixpoint common_prefix (a b : list N) : list N :=
  match a, b with
  | x :: ra, y :: rb => if x =? y then x :: common_prefix ra rb else []
  | _, _ => []
  end.

Definition setTip (fuel : nat) (t : ftree) (to : N) : fres :=
  match flookup (t_blocks t) to with
  | None => FAbort
  | Some _ =>
    let newc := path_to fuel t to [] in
    let keep := common_prefix (t_chain t) newc in
    let dropped := skipn (length keep) (t_chain t) in
    if existsb (is_final t) dropped then FAbort
    else match keep with
         | [] => FAbort                                   (* no fork point: not connected to the root *)
         | _ => FOk (mkT (t_blocks t) newc (t_tips t) (t_fpidx t))
         end
  end.

(* ------------------------------------------------------------------ VbkBlockTree::finalizeBlocks *)
(* algorithm.hpp min_or_default: the minimum of the container, `default_` for an empty one *)
Definition min_or_default (l : list N) (d : N) : N :=
  match l with [] => d | x :: r => fold_left N.min r x end.
(* the variant that returns the default whenever the minimum is the FIRST element (`it == c.begin()`) *)
Definition min_or_default_first_bug (l : list N) (d : N) : N :=
  match l with
  | [] => d
  | x :: r => let m := fold_left N.min r x in if m =? x then d else m
  end.

(* VBK finalization is bounded by the lowest VBK height referenced by the BTC tip:
   maxFinalizeBlockHeight = min_or_default(btctip->getRefs(), INT32_MAX) *)
Definition vbk_finalizeBlocks (fuel : nat) (t : ftree) (maxReorg preserve : N) (btc_tip_refs : list N) : ftree :=
  finalizeBlocks fuel t maxReorg preserve (min_or_default btc_tip_refs 2147483647).
