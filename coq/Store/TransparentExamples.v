(** C09 — the known finding ctx-keystone-dealloc on the model, and non-vacuity of the transparency theorems.
    Tree: Store/TransparentDefs.v [chain20] (active chain 0..20, fork 113 on block 12); ki = 3, settle = 4. *)
From Coq Require Import ZArith NArith List Bool Lia.
From VB Require Import Score.KeystoneDefs Store.FinalizeDefs Store.FinalizeProofs Store.FinalizeTheorems
  Store.FinalizeOutdated Store.FinalizeWindow Store.TransparentDefs Store.TransparentArith Store.TransparentProofs.
Import ListNotations.
Local Open Scope N_scope.

(* preserve = settle = 4, maxReorg = 8 (the parameters of corpus/C09/F12_ctx_keystone_dealloc.json): at tip 20 block 12
   is final and block 8 the new root.  The fork block 113 (parent 12) is not outdated; it may carry an ATV that
   endorses block 9 (113 is at height 13, 13 - 9 <= 4).  The honest context info of block 9 names the keystones 6
   and 3; both are deallocated, so the finalizing instance computes (9, None, None) and rejects the ATV
   (bad-sf-context) that the never-finalizing instance accepts. *)
Lemma preserve_equals_settle_refuted_tree :
  let t := chain20 in
  let t' := finalizeBlocks 40 t 8 4 1000000 in
  let ctx := f_honest_ctx 40 t 3 9 in
  t_chain t' = [8;9;10;11;12;13;14;15;16;17;18;19;20] /\ highest_final t' = Some 12 /\
  descends 40 t' 113 12 = true /\ outdated 40 40 t' 12 113 = false /\
  ctx = (9, Some 6, Some 3) /\
  prevks 9 3 0 = 6 /\ prevks 9 3 1 = 3 /\ flookup (t_blocks t') 6 = None /\ flookup (t_blocks t') 3 = None /\
  f_check_atv 40 t 3 4 113 9 ctx = AOk /\
  f_check_atv 40 t' 3 4 113 9 ctx = ASfContext /\
  f_honest_ctx 40 t' 3 9 = (9, None, None) /\
  f_check_atv 40 t 3 4 13 9 ctx = AOk /\ f_check_atv 40 t' 3 4 13 9 ctx = ASfContext.
Proof. vm_compute. repeat split; reflexivity. Qed.

(* tightness on the tree: maxReorg 7 makes block 13 final at tip 20; block 14 may endorse block 10 = 3*ki + 1 whose
   keystones are 6 and 3.  preserve = settle + 2*ki - 1 = 9 leaves the new root at 4 and the check differs;
   preserve = settle + 2*ki = 10 leaves it at 3 and the check agrees *)
Lemma least_bound_tight_tree :
  let t := chain20 in
  let ctx := f_honest_ctx 40 t 3 10 in
  ctx = (10, Some 6, Some 3) /\
  highest_final (finalizeBlocks 40 t 7 9 1000000) = Some 13 /\
  root_of (finalizeBlocks 40 t 7 9 1000000) = 4 /\ root_of (finalizeBlocks 40 t 7 10 1000000) = 3 /\
  f_check_atv 40 t 3 4 14 10 ctx = AOk /\
  f_check_atv 40 (finalizeBlocks 40 t 7 9 1000000) 3 4 14 10 ctx = ASfContext /\
  f_check_atv 40 (finalizeBlocks 40 t 7 10 1000000) 3 4 14 10 ctx = AOk.
Proof. vm_compute. repeat split; reflexivity. Qed.

(* ---- non-vacuity: the hypotheses of the transparency theorems hold for chain20, final block 13, preserve 10 *)
Lemma descends_anc fuel t x a : descends fuel t x a = true -> anc t a x.
Proof.
  unfold descends. destruct (ancestor_at fuel t x (height_of t a)) as [z|] eqn:E; cbn [opt_eqb]; [|discriminate].
  intros H. apply N.eqb_eq in H. subst z. exact (proj1 (ancestor_at_spec t fuel x _ a E)).
Qed.

Example chain20_side_conditions :
  wf_tree chain20 /\ chain_is_path chain20 /\ root_lowest chain20 /\ fuel_ok 40 chain20 /\
  (13 =? root_of chain20) = false /\
  erase_tips 40 chain20 (t_tips chain20) (lowest_dirty 40 chain20 13 13) = ([20], 13) /\
  In 13 (t_chain chain20) /\
  chain_at chain20 (N.max (height_of chain20 (root_of chain20)) (height_of chain20 13 - 10)) = Some 3 /\
  anc chain20 13 14 /\ anc chain20 10 14.
Proof.
  split; [apply wf_treeb_sound; vm_compute; reflexivity|].
  split; [apply (chain_is_pathb_sound 40); vm_compute; reflexivity|].
  split; [apply root_lowestb_sound; vm_compute; reflexivity|].
  split; [apply fuel_okb_sound; vm_compute; reflexivity|].
  split; [vm_compute; reflexivity|].
  split; [vm_compute; reflexivity|].
  split; [vm_compute; auto 20|].
  split; [vm_compute; reflexivity|].
  split; apply (descends_anc 40); vm_compute; reflexivity.
Qed.

(* the ATV theorem applied (not computed): whatever context an ATV in block 14 endorsing block 10 carries, the
   verdict is the same after finalizing block 13 with preserve = settle + 2*ki = 10 *)
Example transparent_atv_check_applies ctx :
  f_check_atv 40 (finalizeBlockImpl 40 chain20 13 10) 3 4 14 10 ctx = f_check_atv 40 chain20 3 4 14 10 ctx.
Proof.
  destruct chain20_side_conditions as (Hwf & Hpath & Hlow & Hfuel & Hroot & He & Hfin & Hc & Ha1 & Ha2).
  apply (finalize_transparent_atv_check 40 chain20 13 10 [20] 13 3 Hwf Hpath Hlow Hfuel Hroot He Hfin Hc true);
    try assumption; vm_compute; try reflexivity; discriminate.
Qed.

(* the generic theorem applied with preserve = settle + 2*ki + 1 = 11 to a reader of the read set: the context info
   createFromPrevious computes for block 10, read off the blocks 9, 6 and 3 directly *)
Definition ctx_reader (t : ftree) : option (N * option N) :=
  match flookup (t_blocks t) 9, flookup (t_blocks t) 6, flookup (t_blocks t) 3 with
  | Some b9, Some b6, Some b3 => Some (f_height b9 + f_height b6 + f_height b3, f_parent b3)
  | _, _, _ => None
  end.

Example chain20_side_conditions_11 :
  chain_at chain20 (N.max (height_of chain20 (root_of chain20)) (height_of chain20 13 - 11)) = Some 2 /\
  atv_read_ids chain20 3 14 10 9 /\ atv_read_ids chain20 3 14 10 6 /\ atv_read_ids chain20 3 14 10 3.
Proof.
  split; [vm_compute; reflexivity|].
  repeat split; try (apply (descends_anc 40); vm_compute; reflexivity); vm_compute; discriminate.
Qed.

Lemma ctx_reader_reads_only : reads_only (atv_read_ids chain20 3 14 10) ctx_reader.
Proof.
  destruct chain20_side_conditions_11 as (_ & R9 & R6 & R3).
  intros t1 t2 H. unfold ctx_reader.
  pose proof (H 9 R9) as H9. pose proof (H 6 R6) as H6. pose proof (H 3 R3) as H3.
  destruct (flookup (t_blocks t1) 9) as [a9|], (flookup (t_blocks t2) 9) as [b9|]; try discriminate;
  destruct (flookup (t_blocks t1) 6) as [a6|], (flookup (t_blocks t2) 6) as [b6|]; try discriminate;
  destruct (flookup (t_blocks t1) 3) as [a3|], (flookup (t_blocks t2) 3) as [b3|]; try discriminate;
    try reflexivity.
  cbn [option_map] in H9, H6, H3. unfold fcore in *. congruence.
Qed.

Example transparent_reads_applies :
  ctx_reader (finalizeBlockImpl 40 chain20 13 11) = ctx_reader chain20 /\ ctx_reader chain20 = Some (18, Some 2).
Proof.
  destruct chain20_side_conditions as (Hwf & Hpath & Hlow & Hfuel & Hroot & He & Hfin & _ & Ha1 & Ha2).
  destruct chain20_side_conditions_11 as (Hc & _).
  split; [|vm_compute; reflexivity].
  apply (finalize_transparent_reads 40 chain20 13 11 [20] 13 2 Hwf Hpath Hlow Hfuel Hroot He Hfin Hc ctx_reader true 3 4 14 10);
    try assumption; try exact ctx_reader_reads_only; vm_compute; try reflexivity; discriminate.
Qed.

(* ... and with one block less (preserve = 10) the same reader does see the cut pprev of the new root 3 *)
Example transparent_reads_tight :
  ctx_reader (finalizeBlockImpl 40 chain20 13 10) = Some (18, None).
Proof. vm_compute. reflexivity. Qed.
