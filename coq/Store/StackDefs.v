(** C09 — executable model of the finalization CASCADE over the three trees (NO proofs here).

    Sources modelled (read from /repo):
      src/pop/blockchain/alt_block_tree.cpp      AltBlockTree::finalizeBlocks (806-818):
            base::finalizeBlocks(altMaxReorg, altPreserve); vbk().finalizeBlocks();
      src/pop/blockchain/pop/vbk_block_tree.cpp  VbkBlockTree::finalizeBlocks (471-489):
            minVbkRefHeight = min_or_default(btctip->getRefs(), INT32_MAX);
            base::finalizeBlocks(vbkMaxReorg, vbkPreserve, minVbkRefHeight); btc().finalizeBlocks();
      include/veriblock/pop/blockchain/blocktree.hpp  BlockTree<BtcBlock,..>::finalizeBlocks (182-186):
            base::finalizeBlocks(btcMaxReorg, btcPreserve)            (no height bound)
      include/veriblock/pop/blockchain/btc_chain_params.hpp  preserveBlocksBehindFinal() == 0

    Every tree is an [ftree] of Store/FinalizeDefs.v (the three trees share BaseBlockTree::finalizeBlocks /
    finalizeBlockImpl).  The operations that reach the SP trees - addPayloads / removePayloads of the tree above,
    setState of the tree above (which calls setState of the SP tree), acceptBlockHeader of context blocks - are
    per-tree operations [gop] of Store/FinalGuard.v (histories over them: Store/StackHistory.v): tip switch (with assertBlockCanBeUnapplied), block
    addition, save, unapply-from (removeSubtree / invalidateSubtree).  The references of the BTC tip change with
    every addPayloads<VTB>; a history names the list the cascade reads ([SCascade refs]). *)
From Coq Require Import NArith List Bool.
From VB Require Import Store.FinalizeDefs.
Import ListNotations.
Local Open Scope N_scope.

Record pstack := mkS { s_alt : ftree; s_vbk : ftree; s_btc : ftree }.

Record sparams := mkSP {
  sp_alt_maxreorg : N; sp_alt_preserve : N;
  sp_vbk_maxreorg : N; sp_vbk_preserve : N;
  sp_btc_maxreorg : N; sp_btc_preserve : N }.

Definition INT32_MAX : N := 2147483647.

(* BlockTree<BtcBlock>::finalizeBlocks: the default maxFinalizeBlockHeight *)
Definition btc_finalizeBlocks (fuel : nat) (t : ftree) (maxReorg preserve : N) : ftree :=
  finalizeBlocks fuel t maxReorg preserve INT32_MAX.

(* VbkBlockTree::finalizeBlocks: VBK (bounded by the refs of the BTC tip as they are BEFORE the call), then BTC *)
Definition sp_finalize (fuel : nat) (p : sparams) (refs : list N) (vbk btc : ftree) : ftree * ftree :=
  (vbk_finalizeBlocks fuel vbk (sp_vbk_maxreorg p) (sp_vbk_preserve p) refs,
   btc_finalizeBlocks fuel btc (sp_btc_maxreorg p) (sp_btc_preserve p)).

(* AltBlockTree::finalizeBlocks *)
Definition stack_finalize (fuel : nat) (p : sparams) (refs : list N) (s : pstack) : pstack :=
  let '(v, b) := sp_finalize fuel p refs (s_vbk s) (s_btc s) in
  mkS (finalizeBlocks fuel (s_alt s) (sp_alt_maxreorg p) (sp_alt_preserve p) INT32_MAX) v b.

