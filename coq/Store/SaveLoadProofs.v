(** C10 — proofs about the dirty-flag discipline (SaveLoadDefs): the invariant
    "a clean block is stored with exactly its current persisted projection" holds over ALL
    operation histories with saves at ALL positions; hence the incrementally accumulated
    storage equals a full dump of the state at the last save. *)
From Coq Require Import NArith List Bool Lia.
From VB Require Import Store.SaveLoadDefs.
Import ListNotations.
Local Open Scope N_scope.

Lemma NoDup_snoc {A} (l : list A) x : NoDup l -> ~ In x l -> NoDup (l ++ [x]).
Proof.
  induction 1 as [|y l Hy Hl IH]; cbn [app]; intros Hn.
  - constructor; [intros []|constructor].
  - constructor.
    + rewrite in_app_iff. cbn [In]. intros [H1|[H1|[]]]; [tauto|]. subst. apply Hn. now left.
    + apply IH. intros H1. apply Hn. now right.
Qed.

(* ------------------------------------------------------------------ association lists *)
Lemma lookup_upd_same m k f : lookup (upd m k f) k = option_map f (lookup m k).
Proof.
  induction m as [|[k' v] r IH]; cbn [upd lookup option_map]; [reflexivity|].
  destruct (k' =? k) eqn:E; cbn [lookup]; rewrite E; [reflexivity|exact IH].
Qed.

Lemma lookup_upd_other m k f k' : k <> k' -> lookup (upd m k f) k' = lookup m k'.
Proof.
  intros Hne. induction m as [|[k0 v] r IH]; cbn [upd lookup]; [reflexivity|].
  destruct (k0 =? k) eqn:E; cbn [lookup].
  - apply N.eqb_eq in E. subst k0. destruct (k =? k') eqn:E2; [apply N.eqb_eq in E2; congruence|reflexivity].
  - destruct (k0 =? k'); [reflexivity|exact IH].
Qed.

Lemma keys_upd m k f : map fst (upd m k f) = map fst m.
Proof.
  induction m as [|[k' v] r IH]; cbn [upd map fst]; [reflexivity|].
  destruct (k' =? k); cbn [map fst]; [reflexivity|now rewrite IH].
Qed.

Lemma lookup_None_notin {A} (m : list (N * A)) k : lookup m k = None -> ~ In k (map fst m).
Proof.
  induction m as [|[k' v] r IH]; cbn [lookup map fst In]; [tauto|].
  destruct (k' =? k) eqn:E; [discriminate|]. apply N.eqb_neq in E. intros H [H1|H1]; [congruence|]. exact (IH H H1).
Qed.

Lemma lookup_in_keys {A} (m : list (N * A)) k v : lookup m k = Some v -> In k (map fst m).
Proof.
  induction m as [|[k' v'] r IH]; cbn [lookup map fst In]; [discriminate|].
  destruct (k' =? k) eqn:E; [apply N.eqb_eq in E; now left|]. intros H. right. exact (IH H).
Qed.

Lemma notin_lookup_None {A} (m : list (N * A)) k : ~ In k (map fst m) -> lookup m k = None.
Proof.
  induction m as [|[k' v] r IH]; cbn [lookup map fst In]; [reflexivity|].
  intros H. destruct (k' =? k) eqn:E; [apply N.eqb_eq in E; tauto|]. apply IH. tauto.
Qed.

Lemma lookup_app_l {A} (m1 m2 : list (N * A)) k v : lookup m1 k = Some v -> lookup (m1 ++ m2) k = Some v.
Proof.
  induction m1 as [|[k' v'] r IH]; cbn [lookup app]; [discriminate|].
  destruct (k' =? k); [tauto|exact IH].
Qed.

Lemma lookup_app_r {A} (m1 m2 : list (N * A)) k : lookup m1 k = None -> lookup (m1 ++ m2) k = lookup m2 k.
Proof.
  induction m1 as [|[k' v'] r IH]; cbn [lookup app]; [reflexivity|].
  destruct (k' =? k); [discriminate|exact IH].
Qed.

Lemma lookup_insert {A} (m : list (N * A)) k v k' :
  lookup (insert m k v) k' = if k =? k' then Some v else lookup m k'.
Proof.
  induction m as [|[k0 v0] r IH]; cbn [insert lookup].
  - destruct (k =? k'); reflexivity.
  - destruct (k <? k0) eqn:Hlt; cbn [lookup].
    + destruct (k =? k'); reflexivity.
    + destruct (k =? k0) eqn:Heq; cbn [lookup].
      * apply N.eqb_eq in Heq. subst k0. destruct (k =? k'); reflexivity.
      * rewrite IH. destruct (k0 =? k') eqn:E0; [|reflexivity].
        apply N.eqb_eq in E0. subst k'. rewrite Heq. reflexivity.
Qed.

(* sorted (strictly increasing keys) association lists are canonical *)
Fixpoint sorted {A} (l : list (N * A)) : Prop :=
  match l with
  | [] => True
  | (k, _) :: r => match r with [] => True | (k', _) :: _ => k < k' end /\ sorted r
  end.

Lemma sorted_insert {A} (m : list (N * A)) k v : sorted m -> sorted (insert m k v).
Proof.
  induction m as [|[k0 v0] r IH]; cbn [insert]; [cbn; tauto|].
  intros Hs. destruct (k <? k0) eqn:Hlt.
  - apply N.ltb_lt in Hlt. cbn [sorted]. split; [exact Hlt|exact Hs].
  - destruct (k =? k0) eqn:Heq.
    + apply N.eqb_eq in Heq. subst k0. cbn [sorted] in *. exact Hs.
    + apply N.ltb_ge in Hlt. apply N.eqb_neq in Heq.
      cbn [sorted] in Hs. destruct Hs as [Hh Hr]. specialize (IH Hr).
      cbn [sorted]. split; [|exact IH].
      destruct r as [|[k1 v1] r']; cbn [insert].
      * lia.
      * destruct (k <? k1) eqn:H1; [lia|]. destruct (k =? k1) eqn:H2; [lia|exact Hh].
Qed.

Lemma sorted_lookup_lt {A} (m : list (N * A)) k0 :
  sorted m -> (match m with [] => True | (k, _) :: _ => k0 < k end) -> lookup m k0 = None.
Proof.
  induction m as [|[k v] r IH]; [reflexivity|].
  intros Hs Hlt. cbn [lookup]. destruct (k =? k0) eqn:E; [apply N.eqb_eq in E; lia|].
  cbn [sorted] in Hs. destruct Hs as [Hh Hr]. apply IH; [exact Hr|].
  destruct r as [|[k1 v1] r']; [exact I|lia].
Qed.

Lemma sorted_ext {A} (m1 m2 : list (N * A)) :
  sorted m1 -> sorted m2 -> (forall k, lookup m1 k = lookup m2 k) -> m1 = m2.
Proof.
  revert m2. induction m1 as [|[k1 v1] r1 IH]; intros m2 S1 S2 H.
  - destruct m2 as [|[k2 v2] r2]; [reflexivity|].
    specialize (H k2). cbn [lookup] in H. rewrite N.eqb_refl in H. discriminate.
  - destruct m2 as [|[k2 v2] r2].
    + specialize (H k1). cbn [lookup] in H. rewrite N.eqb_refl in H. discriminate.
    + assert (Hk : k1 = k2).
      { destruct (N.lt_trichotomy k1 k2) as [Hlt|[Heq|Hgt]]; [|exact Heq|].
        - pose proof (H k1) as H1. cbn [lookup] in H1. rewrite N.eqb_refl in H1.
          destruct (k2 =? k1) eqn:E; [apply N.eqb_eq in E; lia|].
          cbn [sorted] in S2. destruct S2 as [Hh Hr].
          rewrite (sorted_lookup_lt r2 k1 Hr) in H1; [discriminate|].
          destruct r2 as [|[k3 v3] r3]; [exact I|lia].
        - pose proof (H k2) as H1. cbn [lookup] in H1. rewrite N.eqb_refl in H1.
          destruct (k1 =? k2) eqn:E; [apply N.eqb_eq in E; lia|].
          cbn [sorted] in S1. destruct S1 as [Hh Hr].
          rewrite (sorted_lookup_lt r1 k2 Hr) in H1; [discriminate|].
          destruct r1 as [|[k3 v3] r3]; [exact I|lia]. }
      subst k2.
      pose proof (H k1) as H1. cbn [lookup] in H1. rewrite N.eqb_refl in H1. injection H1 as ->.
      f_equal. cbn [sorted] in S1, S2. destruct S1 as [Hh1 Hr1], S2 as [Hh2 Hr2].
      apply IH; [exact Hr1|exact Hr2|].
      intros k. specialize (H k). cbn [lookup] in H.
      destruct (k1 =? k) eqn:E; [|exact H].
      apply N.eqb_eq in E. subst k.
      rewrite (sorted_lookup_lt r1 k1 Hr1), (sorted_lookup_lt r2 k1 Hr2); [reflexivity| |].
      * destruct r2 as [|[k3 v3] r3]; [exact I|exact Hh2].
      * destruct r1 as [|[k3 v3] r3]; [exact I|exact Hh1].
Qed.

(* ------------------------------------------------------------------ marking mutators *)
(* f "marks": whenever the result is clean, the input was clean and the persisted projection is unchanged *)
Definition marks_at (f : block -> block) (b : block) : Prop :=
  b_dirty (f b) = false -> b_dirty b = false /\ b_pers (f b) = b_pers b.
Definition marks (f : block -> block) : Prop := forall b, marks_at f b.
(* f never cleans a block *)
Definition keeps_dirty (f : block -> block) : Prop := forall b, b_dirty b = true -> b_dirty (f b) = true.

Lemma marks_id : marks (fun b => b).
Proof. intros b H. split; [exact H|reflexivity]. Qed.

Lemma marks_comp f g : marks f -> marks g -> marks (fun b => g (f b)).
Proof.
  intros Hf Hg b H. destruct (Hg (f b) H) as [H1 H2]. destruct (Hf b H1) as [H3 H4].
  split; [exact H3|congruence].
Qed.

Lemma marks_at_comp f g b : marks_at f b -> marks g -> marks_at (fun b => g (f b)) b.
Proof.
  intros Hf Hg H. destruct (Hg (f b) H) as [H1 H2]. destruct (Hf H1) as [H3 H4].
  split; [exact H3|congruence].
Qed.

Lemma marks_setDirty_after g : marks (fun b => setDirty (g b)).
Proof. intros b H. cbn in H. discriminate. Qed.

Lemma marks_setStatus s : marks (setStatus s).
Proof.
  intros b H. unfold setStatus in *. destruct (status_eqb s (bstatus b)); [split; [exact H|reflexivity]|].
  cbn in H. discriminate.
Qed.
Lemma marks_setFlag f : marks (setFlag f).
Proof. intros b. unfold setFlag. apply marks_setStatus. Qed.
Lemma marks_unsetFlag f : marks (unsetFlag f).
Proof. intros b. unfold unsetFlag. apply marks_setStatus. Qed.

Lemma marks_raiseValidity n : marks (raiseValidity n).
Proof.
  intros b H. unfold raiseValidity in *. destruct (s_fpop (bstatus b)); [split; [exact H|reflexivity]|].
  destruct (s_level (bstatus b) <? n); [cbn in H; discriminate|split; [exact H|reflexivity]].
Qed.
Lemma marks_lowerValidity n : marks (lowerValidity n).
Proof.
  intros b H. unfold lowerValidity in *. destruct (s_fpop (bstatus b)); [split; [exact H|reflexivity]|].
  destruct (n <? s_level (bstatus b)); [cbn in H; discriminate|split; [exact H|reflexivity]].
Qed.
Lemma marks_setPayloads l : marks (setPayloads l).
Proof. apply marks_setDirty_after. Qed.
Lemma marks_insertCE e : marks (insertCE e).
Proof. apply marks_setDirty_after. Qed.
Lemma marks_removeCE e : marks (removeCE e).
Proof. apply marks_setDirty_after. Qed.
Lemma marks_insertBy e : marks (insertBy e).
Proof. intros b H. cbn in H. discriminate. Qed.
Lemma marks_eraseBy e : marks (eraseBy e).
Proof.
  intros b H. unfold eraseBy in *. destruct (existsb (N.eqb e) (b_by b)); [cbn in H; discriminate|].
  split; [exact H|reflexivity].
Qed.
Lemma marks_addRef : marks addRef.
Proof. apply marks_setDirty_after. Qed.
Lemma marks_removeRef : marks removeRef.
Proof. apply marks_setDirty_after. Qed.
Lemma marks_deleteTemporarily : marks deleteTemporarily.
Proof. intros b H. cbn in H. discriminate. Qed.
Lemma marks_restore : marks restore.
Proof. apply marks_unsetFlag. Qed.

Lemma keeps_setStatus s : keeps_dirty (setStatus s).
Proof. intros b H. unfold setStatus. destruct (status_eqb s (bstatus b)); [exact H|reflexivity]. Qed.
Lemma keeps_raiseValidity n : keeps_dirty (raiseValidity n).
Proof.
  intros b H. unfold raiseValidity. destruct (s_fpop (bstatus b)); [exact H|].
  destruct (s_level (bstatus b) <? n); [reflexivity|exact H].
Qed.
Lemma keeps_lowerValidity n : keeps_dirty (lowerValidity n).
Proof.
  intros b H. unfold lowerValidity. destruct (s_fpop (bstatus b)); [exact H|].
  destruct (n <? s_level (bstatus b)); [reflexivity|exact H].
Qed.

(* what the theorems need from the two validity mutators *)
Definition prims_ok (P : prims) : Prop :=
  (forall n, marks (p_raise P n)) /\ (forall n, marks (p_lower P n)) /\
  (forall n, keeps_dirty (p_raise P n)) /\ (forall n, keeps_dirty (p_lower P n)).

Lemma prims_fixed_ok : prims_ok prims_fixed.
Proof.
  unfold prims_ok. cbn [p_raise p_lower prims_fixed].
  split; [exact marks_raiseValidity|]. split; [exact marks_lowerValidity|].
  split; [exact keeps_raiseValidity|exact keeps_lowerValidity].
Qed.

(* unsetting a flag that is set changes the status word, hence marks the block *)
Lemma status_eqb_put_flag_neq f s : get_flag f s = true -> status_eqb (put_flag f false s) s = false.
Proof.
  destruct s as [l a1 a2 a3 a4 a5 a6 a7].
  destruct f; cbn [get_flag s_boot s_fblock s_fpop s_fchild s_haspl s_active s_deleted]; intros ->;
    unfold status_eqb, put_flag;
    cbn [s_level s_boot s_fblock s_fpop s_fchild s_haspl s_active s_deleted];
    rewrite N.eqb_refl;
    repeat match goal with b : bool |- _ => destruct b end; reflexivity.
Qed.

Lemma dirty_unsetFlag_set f b : get_flag f (bstatus b) = true -> b_dirty (unsetFlag f b) = true.
Proof.
  intros H. unfold unsetFlag, setStatus. rewrite (status_eqb_put_flag_neq f _ H). reflexivity.
Qed.

(* ------------------------------------------------------------------ the invariant *)
Definition Inv (s : state) (st : storage) : Prop :=
  NoDup (map fst (blocks s)) /\
  (forall id b, lookup (blocks s) id = Some b -> b_dirty b = false -> lookup (st_blocks st) id = Some (b_pers b)) /\
  (forall id p, lookup (st_blocks st) id = Some p -> In id (map fst (blocks s))) /\
  sorted (st_blocks st).

Lemma Inv_upd m t t' st k f :
  Inv (mkState m t) st -> (forall b, lookup m k = Some b -> marks_at f b) -> Inv (mkState (upd m k f) t') st.
Proof.
  intros (Hnd & Hc & Hk & Hs) Hm. unfold Inv. cbn [blocks] in *. rewrite keys_upd.
  split; [exact Hnd|]. split; [|split; [exact Hk|exact Hs]].
  intros id b Hl Hd. destruct (N.eq_dec k id) as [->|Hne].
  - rewrite lookup_upd_same in Hl. destruct (lookup m id) as [b0|] eqn:E; [|discriminate].
    cbn in Hl. injection Hl as <-. destruct (Hm b0 eq_refl Hd) as [H1 H2]. rewrite H2. apply Hc; assumption.
  - rewrite lookup_upd_other in Hl by exact Hne. apply Hc; assumption.
Qed.

Lemma Inv_upd_marks m t t' st k f : Inv (mkState m t) st -> marks f -> Inv (mkState (upd m k f) t') st.
Proof. intros H Hm. apply (Inv_upd m t t' st k f H). intros b _. apply Hm. Qed.

Lemma Inv_upd_many m t st ks f : Inv (mkState m t) st -> marks f -> Inv (mkState (upd_many m ks f) t) st.
Proof.
  intros H Hm. unfold upd_many. revert m H. induction ks as [|k r IH]; intros m H; cbn [fold_left]; [exact H|].
  apply IH. apply (Inv_upd_marks m t t st k f); assumption.
Qed.

Lemma Inv_tip m t t' st : Inv (mkState m t) st -> Inv (mkState m t') st.
Proof. intros H. exact H. Qed.

Lemma Inv_apply_endorsements m t st id es :
  Inv (mkState m t) st -> Inv (mkState (apply_endorsements m id es) t) st.
Proof.
  unfold apply_endorsements. revert m. induction es as [|e r IH]; intros m H; cbn [fold_left]; [exact H|].
  apply IH. apply (Inv_upd_marks _ t t); [|apply marks_insertBy]. apply (Inv_upd_marks _ t t); [exact H|apply marks_insertCE].
Qed.

Lemma Inv_unapply_endorsements m t st id :
  Inv (mkState m t) st -> Inv (mkState (unapply_endorsements m id) t) st.
Proof.
  unfold unapply_endorsements. destruct (lookup m id) as [b|]; [|tauto].
  generalize (rev (p_ce (b_pers b))) as l. intros l. revert m. induction l as [|e r IH]; intros m H; cbn [fold_left]; [exact H|].
  apply IH. apply (Inv_upd_marks _ t t); [|apply marks_removeCE]. apply (Inv_upd_marks _ t t); [exact H|apply marks_eraseBy].
Qed.

Lemma Inv_append m t st id nb :
  Inv (mkState m t) st -> lookup m id = None -> b_dirty nb = true -> Inv (mkState (m ++ [(id, nb)]) t) st.
Proof.
  intros (Hnd & Hc & Hk & Hs) Hn Hd. unfold Inv. cbn [blocks] in *.
  rewrite map_app. cbn [map fst].
  split.
  { apply NoDup_snoc; [exact Hnd|exact (lookup_None_notin m id Hn)]. }
  split; [|split; [|exact Hs]].
  - intros id' b Hl Hcl. destruct (lookup m id') as [b0|] eqn:E.
    + rewrite (lookup_app_l m _ id' b0 E) in Hl. injection Hl as <-. apply Hc; assumption.
    + rewrite (lookup_app_r m _ id' E) in Hl. cbn [lookup] in Hl. destruct (id =? id'); [|discriminate].
      injection Hl as <-. congruence.
  - intros id' p Hl. apply in_or_app. left. exact (Hk id' p Hl).
Qed.
