(** C10 — reload equivalence: definitions (state equivalence, well-formedness invariant of reachable states,
    caller guarantees of the tree operations) and basic lemmas.

    What is compared.  [equiv s s'] relates the live state [s] and a reloaded state [s']:
      - same tip (= stored best block; the active chain is the set of BLOCK_ACTIVE blocks, part of the status word);
      - every block of [s'] is a block of [s] with the same persisted projection [b_pers] (parent link, height, full
        status word, payload ids, containing endorsements, refcount), the same memory-only finalized mark [b_final] and
        the same memory-only endorsedBy list [b_by] as a multiset (load rebuilds it in height order, the live list is in
        order of application);
      - every block of [s] that is not BLOCK_DELETED is a block of [s'].
    Ignored: the dirty bit, the position of a block in the block map, and removed blocks: a block removed by
    removeSubtree stays in the live map as a BLOCK_DELETED index (hidden by getBlockIndex, skipped by
    loadBlocksAndTip), the reloaded instance does not have it.  [equiv_vis] is the symmetric reading: both states show
    the same blocks through getBlockIndex.

    The operations of SaveLoadDefs take their block lists (descendants, removed subtree, endorsements, tip) as FREE
    arguments.  For unconstrained arguments load does not even succeed ([unguarded_reload_refuted] in
    ReloadTheorems.v: an endorsement of a block that does not exist).  [pre s o] states what the C++ callers guarantee for
    each operation (what the real traversals compute / what the code asserts); [guarded h s st] says that every
    operation of the history satisfies [pre] in the state it is executed in.  Two of the guarantees are restrictions
    of the real API rather than facts about the callers, and are stated here because the theorem would be false without:
      - a removed block that carried BLOCK_FAILED_BLOCK, or whose BLOCK_FAILED_CHILD mark is stale, is not re-added
        (the live instance resurrects the removed index with these marks, a reloaded instance creates a fresh index);
      - BLOCK_ACTIVE and the tip change in the order setTip-then-unapply / apply-then-setTip, so that at EVERY position
        where a save may be placed the tip is an active block (in the code both happen inside one call).
    Not modelled at all (hence not part of [equiv]): VBK/BTC block-of-proof back pointers, the payload index, tips_
    sets, finalization of the reloaded tree; chain work is modelled separately (ChainWorkDefs, see
    [reload_chainwork]). *)
From Coq Require Import NArith List Bool Lia Permutation.
From VB Require Import Store.SaveLoadDefs Store.SaveLoadProofs.
Import ListNotations.
Local Open Scope N_scope.

(* ------------------------------------------------------------------ visible blocks *)
Definition deleted (b : block) : bool := s_deleted (bstatus b).
Definition visb (b : block) : option block := if deleted b then None else Some b.
(* getBlockIndex: a BLOCK_DELETED index is not a block of the tree *)
Definition vis (m : store) (id : N) : option block := match lookup m id with Some b => visb b | None => None end.
Definition visible (m : store) (id : N) : Prop := vis m id <> None.

(* ------------------------------------------------------------------ equivalence *)
Definition bsim (b b' : block) : Prop :=
  b_pers b = b_pers b' /\ b_final b = b_final b' /\ Permutation (b_by b) (b_by b').

Definition ssim (m m' : store) : Prop :=
  (forall id b', lookup m' id = Some b' -> exists b, lookup m id = Some b /\ bsim b b') /\
  (forall id b, vis m id = Some b -> lookup m' id <> None).

Definition equiv (s s' : state) : Prop := tip s = tip s' /\ ssim (blocks s) (blocks s').

Definition osim (o o' : option block) : Prop :=
  match o, o' with Some b, Some b' => bsim b b' | None, None => True | _, _ => False end.

(* ------------------------------------------------------------------ endorsedBy as recomputed from the containing endorsements *)
(* what block [b] contributes to the endorsedBy list of block [k] *)
Definition contrib (k : N) (b : block) : list N :=
  if deleted b then [] else map fst (filter (fun e => snd e =? k) (p_ce (b_pers b))).
Definition inc (m : store) (k : N) : list N := flat_map (fun kb => contrib k (snd kb)) m.

(* ------------------------------------------------------------------ invariant of reachable states *)
Definition final_ok (b : block) : Prop :=
  b_final b = match p_parent (b_pers b) with None => true | Some _ => false end.
(* a removed index is exactly what deleteTemporarily leaves *)
Definition deleted_form (b : block) : Prop :=
  deleted b = true ->
  p_pl (b_pers b) = [] /\ p_ce (b_pers b) = [] /\ p_ref (b_pers b) = 0 /\ b_by b = [] /\
  s_level (bstatus b) = 0 /\ s_boot (bstatus b) = false /\ s_fpop (bstatus b) = false /\
  s_haspl (bstatus b) = false /\ s_active (bstatus b) = false.
(* every index of the tree is at least VALID_TREE; an ACTIVE one is fully valid *)
Definition level_ok (b : block) : Prop :=
  deleted b = false -> 1 <= s_level (bstatus b) /\ (s_active (bstatus b) = true -> 4 <= s_level (bstatus b)).
Definition ce_nodup (b : block) : Prop := NoDup (map fst (p_ce (b_pers b))).
Definition local_ok (b : block) : Prop := final_ok b /\ deleted_form b /\ level_ok b /\ ce_nodup b.

Record wf (s : state) : Prop := mkWf {
  wf_nodup : NoDup (map fst (blocks s));
  wf_local : forall id b, lookup (blocks s) id = Some b -> local_ok b;
  (* the parent index exists one below; the parent of a tree block is a tree block; the parent of an ACTIVE block is ACTIVE *)
  wf_parent : forall id b par, lookup (blocks s) id = Some b -> p_parent (b_pers b) = Some par ->
     exists pb, lookup (blocks s) par = Some pb /\ p_height (b_pers b) = p_height (b_pers pb) + 1 /\
       (deleted b = false -> deleted pb = false /\ (s_active (bstatus b) = true -> s_active (bstatus pb) = true));
  (* the endorsed block of a containing endorsement is a tree block strictly below *)
  wf_ce : forall id b e, vis (blocks s) id = Some b -> In e (p_ce (b_pers b)) ->
     exists eb, vis (blocks s) (snd e) = Some eb /\ p_height (b_pers eb) < p_height (b_pers b);
  (* endorsedBy is the multiset of the containing endorsements that point to the block *)
  wf_by : forall id b, vis (blocks s) id = Some b -> Permutation (b_by b) (inc (blocks s) id);
  (* the tip is an ACTIVE tree block *)
  wf_tip : exists b, vis (blocks s) (tip s) = Some b /\ s_active (bstatus b) = true }.

(* ------------------------------------------------------------------ caller guarantees *)
Definition pre (s : state) (o : op) : Prop :=
  let m := blocks s in
  match o with
  | OInsertHeader id parent =>
      visible m parent /\
      (forall b, lookup m id = Some b -> deleted b = true ->          (* re-adding a removed block *)
         p_parent (b_pers b) = Some parent /\ s_fblock (bstatus b) = false /\
         s_fchild (bstatus b) = parent_failed m parent)
  | OSetPayloads id _ => visible m id
  | OConnect id => visible m id
  | OApply id lvl es =>
      exists b, vis m id = Some b /\ s_fpop (bstatus b) = false /\ 4 <= lvl /\
        (forall par, p_parent (b_pers b) = Some par -> exists pb, vis m par = Some pb /\ s_active (bstatus pb) = true) /\
        NoDup (map fst (p_ce (b_pers b) ++ es)) /\
        (forall e, In e es -> exists eb, vis m (snd e) = Some eb /\ p_height (b_pers eb) < p_height (b_pers b))
  | OUnapply id =>
      visible m id /\ id <> tip s /\
      (forall c bc, vis m c = Some bc -> p_parent (b_pers bc) = Some id -> s_active (bstatus bc) = false)
  | OInvalidate id reason desc => (reason = FFailedBlock \/ reason = FFailedPop) /\ visible m id /\ Forall (visible m) desc
  | ORevalidate id reason desc => (reason = FFailedBlock \/ reason = FFailedPop) /\ visible m id /\ Forall (visible m) desc
  | ORemoveSubtree ids =>
      (forall id, In id ids -> exists b, vis m id = Some b /\ s_active (bstatus b) = false /\ p_ce (b_pers b) = []) /\
      (forall c bc, vis m c = Some bc ->
         (forall par, p_parent (b_pers bc) = Some par -> In par ids -> In c ids) /\
         (forall e, In e (p_ce (b_pers bc)) -> ~ In (snd e) ids))
  | ORemovePayloads id => exists b, vis m id = Some b /\ s_active (bstatus b) = false
  | OAddRef id => visible m id
  | ORemoveRef id => visible m id
  | OSetTip id => exists b, vis m id = Some b /\ s_active (bstatus b) = true
  | OSave => True
  end.

Fixpoint guarded (h : list op) (s : state) (st : storage) : Prop :=
  match h with
  | [] => True
  | o :: r => pre s o /\ match step prims_fixed o s st with Done s' st' => guarded r s' st' | Abort _ => True end
  end.

(* ------------------------------------------------------------------ basic lemmas *)
Lemma lookup_upd m k f id :
  lookup (upd m k f) id = option_map (fun b => if k =? id then f b else b) (lookup m id).
Proof.
  destruct (N.eq_dec k id) as [->|Hne].
  - rewrite lookup_upd_same, N.eqb_refl. reflexivity.
  - rewrite lookup_upd_other by exact Hne. apply N.eqb_neq in Hne. rewrite Hne.
    destruct (lookup m id); reflexivity.
Qed.

Lemma vis_Some m id b : vis m id = Some b <-> lookup m id = Some b /\ deleted b = false.
Proof.
  unfold vis, visb. destruct (lookup m id) as [b0|]; [|split; [discriminate|intros [H _]; discriminate]].
  destruct (deleted b0) eqn:E; split.
  - discriminate.
  - intros [H1 H2]. injection H1 as <-. congruence.
  - intros H. injection H as <-. auto.
  - intros [H1 _]. exact H1.
Qed.

Lemma visible_iff m id : visible m id <-> exists b, vis m id = Some b.
Proof.
  unfold visible. destruct (vis m id) as [b|]; split; intros H; try congruence.
  - eauto.
  - destruct H as [b H]. discriminate.
Qed.

Lemma bsim_refl b : bsim b b.
Proof. repeat split. apply Permutation_refl. Qed.

Lemma bsim_deleted b b' : bsim b b' -> deleted b = deleted b'.
Proof. intros (H & _). unfold deleted, bstatus. rewrite H. reflexivity. Qed.

Lemma ssim_vis m m' : ssim m m' -> forall id, osim (vis m id) (vis m' id).
Proof.
  intros [H1 H2] id. unfold osim.
  destruct (vis m' id) as [b'|] eqn:E'.
  - apply vis_Some in E'. destruct E' as [L' D']. destruct (H1 id b' L') as (b & L & S).
    assert (D : deleted b = false) by (rewrite (bsim_deleted _ _ S); exact D').
    rewrite (proj2 (vis_Some m id b) (conj L D)). exact S.
  - destruct (vis m id) as [b|] eqn:E; [|exact I].
    pose proof (H2 id b E) as Hn. destruct (lookup m' id) as [b'|] eqn:L'; [|congruence].
    destruct (H1 id b' L') as (b0 & L & S). apply vis_Some in E. destruct E as [L0 D0].
    rewrite L0 in L. injection L as <-.
    assert (D' : deleted b' = false) by (rewrite <- (bsim_deleted _ _ S); exact D0).
    rewrite (proj2 (vis_Some m' id b') (conj L' D')) in E'. discriminate.
Qed.

Lemma equiv_vis s s' : equiv s s' -> tip s = tip s' /\ forall id, osim (vis (blocks s) id) (vis (blocks s') id).
Proof. intros [Ht Hs]. split; [exact Ht|apply ssim_vis; exact Hs]. Qed.

(* the contribution of one block of the map changes: everything else in [inc] stays in place *)
Lemma inc_upd_split m j f b k :
  lookup m j = Some b ->
  exists A B, inc m k = A ++ contrib k b ++ B /\ inc (upd m j f) k = A ++ contrib k (f b) ++ B.
Proof.
  unfold inc. induction m as [|[k0 v] r IH]; cbn [lookup upd flat_map snd]; [discriminate|].
  destruct (k0 =? j) eqn:E; intros H.
  - injection H as ->. exists [], (flat_map (fun kb => contrib k (snd kb)) r). cbn [flat_map snd app]. split; reflexivity.
  - destruct (IH H) as (A & B & H1 & H2). exists (contrib k v ++ A), B. cbn [flat_map snd].
    rewrite H1, H2, <- !app_assoc. split; reflexivity.
Qed.

Lemma inc_upd_perm m j f b k X Y :
  lookup m j = Some b ->
  Permutation (contrib k b ++ X) (contrib k (f b) ++ Y) ->
  Permutation (inc m k ++ X) (inc (upd m j f) k ++ Y).
Proof.
  intros L HP. destruct (inc_upd_split m j f b k L) as (A & B & -> & ->).
  rewrite <- !app_assoc. apply Permutation_app_head.
  apply (Permutation_trans (l' := B ++ contrib k b ++ X)).
  { rewrite !app_assoc. apply Permutation_app_tail. apply Permutation_app_comm. }
  apply (Permutation_trans (l' := B ++ contrib k (f b) ++ Y)).
  { apply Permutation_app_head. exact HP. }
  rewrite !app_assoc. apply Permutation_app_tail. apply Permutation_app_comm.
Qed.

Lemma inc_upd_same m j f k :
  (forall b, lookup m j = Some b -> contrib k (f b) = contrib k b) -> inc (upd m j f) k = inc m k.
Proof.
  intros H. destruct (lookup m j) as [b|] eqn:L.
  - destruct (inc_upd_split m j f b k L) as (A & B & -> & ->). rewrite (H b eq_refl). reflexivity.
  - clear H. unfold inc. induction m as [|[k0 v] r IH]; cbn [lookup upd flat_map snd] in *; [reflexivity|].
    destruct (k0 =? j); [discriminate|]. cbn [flat_map snd]. rewrite (IH L). reflexivity.
Qed.

Lemma inc_app m1 m2 k : inc (m1 ++ m2) k = inc m1 k ++ inc m2 k.
Proof. unfold inc. apply flat_map_app. Qed.

Lemma filter_snd_nil (l : list endorsement) k :
  (forall e, In e l -> snd e <> k) -> map fst (filter (fun e => snd e =? k) l) = [].
Proof.
  induction l as [|e l IH]; intros H; cbn [filter map]; [reflexivity|].
  destruct (snd e =? k) eqn:E.
  - apply N.eqb_eq in E. exfalso. exact (H e (or_introl eq_refl) E).
  - apply IH. intros e' He'. apply H. now right.
Qed.

(* nobody endorses [k]: its recomputed endorsedBy list is empty *)
Lemma inc_nil m k :
  (forall id b e, vis m id = Some b -> In e (p_ce (b_pers b)) -> snd e <> k) -> NoDup (map fst m) -> inc m k = [].
Proof.
  unfold inc. induction m as [|[k0 v] r IH]; intros H Hnd; cbn [flat_map snd]; [reflexivity|].
  cbn [map fst] in Hnd. inversion Hnd as [|? ? Hn Hnd']; subst.
  rewrite IH; [|intros id b e Hv; apply (H id b e)|exact Hnd'].
  - rewrite app_nil_r. unfold contrib. destruct (deleted v) eqn:D; [reflexivity|].
    assert (Hv : vis ((k0, v) :: r) k0 = Some v).
    { apply vis_Some. cbn [lookup]. rewrite N.eqb_refl. auto. }
    apply filter_snd_nil. intros e He. exact (H k0 v e Hv He).
  - unfold vis in *. cbn [lookup]. destruct (k0 =? id) eqn:E; [|exact Hv].
    apply N.eqb_eq in E. subst id. exfalso.
    destruct (lookup r k0) eqn:L; [|discriminate]. apply Hn. exact (lookup_in_keys _ _ _ L).
Qed.
