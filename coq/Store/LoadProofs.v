(** C10 — loadBlockForward + recoverEndorsements over any parent-before-child order (the order the height sort
    of loadTree produces) succeed and restore exactly the stored persisted projections.  PARTIAL towards
    load_full_dump: the height sort itself, loadTip's re-derivation and the endorsedBy lists are not covered here
    (they are covered by the reload oracle and by the model/implementation comparison of `load`). *)
From Coq Require Import NArith List Bool Lia.
From VB Require Import Store.SaveLoadDefs Store.SaveLoadProofs Store.SaveLoadTheorems.
Import ListNotations.
Local Open Scope N_scope.

(* the persisted view of an in-memory store *)
Definition pv (m : store) (k : N) : option pers := option_map b_pers (lookup m k).

(* raiseValidity(VALID_TREE) at load leaves a stored index alone iff it is FAILED_POP or at least VALID_TREE *)
Definition lvl_ok (p : pers) : bool := s_fpop (p_status p) || (1 <=? s_level (p_status p)).

(* parent-before-child order: every block is new, its parent (if any) is already loaded one below, and the
   endorsed block of each containing endorsement is already loaded or is the block itself *)
Fixpoint topo_ok (acc : list (N * pers)) (l : list (N * pers)) : Prop :=
  match l with
  | [] => True
  | (id, p) :: r =>
    lookup acc id = None /\ lvl_ok p = true /\
    match p_parent p with
    | None => True
    | Some par => exists pp, lookup acc par = Some pp /\ p_height p = p_height pp + 1
    end /\
    (forall e, In e (p_ce p) -> lookup (acc ++ [(id, p)]) (snd e) <> None) /\
    topo_ok (acc ++ [(id, p)]) r
  end.

Lemma raise1_keeps p f : lvl_ok p = true ->
  b_pers (unsetDirty (raiseValidity 1 (mkBlock p true [] f))) = p.
Proof.
  unfold lvl_ok, raiseValidity, bstatus. cbn [b_pers]. intros H.
  destruct (s_fpop (p_status p)); [reflexivity|]. cbn [orb] in H.
  apply N.leb_le in H. destruct (s_level (p_status p) <? 1) eqn:E; [apply N.ltb_lt in E; lia|reflexivity].
Qed.

Lemma pv_app_new m id b k : lookup m id = None ->
  pv (m ++ [(id, b)]) k = (if id =? k then Some (b_pers b) else pv m k).
Proof.
  intros Hn. unfold pv. destruct (lookup m k) as [v|] eqn:E.
  - rewrite (lookup_app_l m _ k v E). destruct (id =? k) eqn:E2; [apply N.eqb_eq in E2; subst; congruence|reflexivity].
  - rewrite (lookup_app_r m _ k E). cbn [lookup]. destruct (id =? k); reflexivity.
Qed.

Lemma lookup_app_new {A} (m : list (N * A)) id v k : lookup m id = None ->
  lookup (m ++ [(id, v)]) k = (if id =? k then Some v else lookup m k).
Proof.
  intros Hn. destruct (lookup m k) as [w|] eqn:E.
  - rewrite (lookup_app_l m _ k w E). destruct (id =? k) eqn:E2; [apply N.eqb_eq in E2; subst; congruence|reflexivity].
  - rewrite (lookup_app_r m _ k E). cbn [lookup]. destruct (id =? k); reflexivity.
Qed.

Lemma load_block_spec m acc id p :
  (forall k, pv m k = lookup acc k) ->
  lookup acc id = None -> lvl_ok p = true ->
  match p_parent p with
  | None => True
  | Some par => exists pp, lookup acc par = Some pp /\ p_height p = p_height pp + 1
  end ->
  exists b, load_block prims_fixed m (id, p) = Some (m ++ [(id, b)]) /\ b_pers b = p /\ lookup m id = None.
Proof.
  intros Hv Hn Hl Hp.
  assert (Hm : lookup m id = None).
  { pose proof (Hv id) as H. unfold pv in H. rewrite Hn in H. destruct (lookup m id); [discriminate|reflexivity]. }
  unfold load_block. cbn [p_raise prims_fixed]. destruct (p_parent p) as [par|].
  - destruct Hp as (pp & Hpp & Hh). pose proof (Hv par) as H. unfold pv in H. rewrite Hpp in H.
    destruct (lookup m par) as [pb|]; [|discriminate]. cbn [option_map] in H. injection H as Hpb.
    rewrite Hpb, Hh, N.eqb_refl. cbn [negb]. eexists. split; [reflexivity|]. split; [apply raise1_keeps; exact Hl|exact Hm].
  - rewrite Hm. eexists. split; [reflexivity|]. split; [apply raise1_keeps; exact Hl|reflexivity].
Qed.

Definition add_by (e : N) (b : block) : block := mkBlock (b_pers b) (b_dirty b) (b_by b ++ [e]) (b_final b).

Lemma pv_upd_same_pers m k f : (forall b, b_pers (f b) = b_pers b) -> forall k', pv (upd m k f) k' = pv m k'.
Proof.
  intros Hf k'. unfold pv. destruct (N.eq_dec k k') as [->|Hne].
  - rewrite lookup_upd_same. destruct (lookup m k'); cbn [option_map]; [now rewrite Hf|reflexivity].
  - rewrite lookup_upd_other by exact Hne. reflexivity.
Qed.

Lemma recover_fold_spec (ces : list endorsement) : forall m,
  (forall e, In e ces -> pv m (snd e) <> None) ->
  exists m', fold_left (fun acc e => match acc with
                                     | None => None
                                     | Some m => match lookup m (snd e) with
                                                 | None => None
                                                 | Some eb => Some (upd m (snd e) (fun b => mkBlock (b_pers b) (b_dirty b) (b_by b ++ [fst e]) (b_final b)))
                                                 end
                                     end) ces (Some m) = Some m' /\ forall k, pv m' k = pv m k.
Proof.
  induction ces as [|e r IH]; intros m H; cbn [fold_left]; [exists m; auto|].
  pose proof (H e (or_introl eq_refl)) as He. unfold pv in He.
  destruct (lookup m (snd e)) as [eb|]; [|cbn in He; congruence].
  set (m1 := upd m (snd e) _).
  assert (Hpv : forall k, pv m1 k = pv m k) by (intros k; apply pv_upd_same_pers; intros b; reflexivity).
  destruct (IH m1) as (m' & Hf & Hk).
  { intros e' He'. rewrite Hpv. apply H. now right. }
  exists m'. split; [exact Hf|]. intros k. rewrite Hk. apply Hpv.
Qed.

(* loadBlockForward + recoverEndorsements over a parent-before-child list restore exactly the stored fields *)
Lemma load_blocks_topological l : forall m acc,
  (forall k, pv m k = lookup acc k) -> topo_ok acc l ->
  exists m', load_blocks prims_fixed l m = Some m' /\ forall k, pv m' k = lookup (acc ++ l) k.
Proof.
  induction l as [|[id p] r IH]; intros m acc Hv Ht; cbn [load_blocks].
  - exists m. split; [reflexivity|]. intros k. rewrite app_nil_r. apply Hv.
  - cbn [topo_ok] in Ht. destruct Ht as (Hn & Hl & Hp & Hce & Hr).
    destruct (load_block_spec m acc id p Hv Hn Hl Hp) as (b & Hlb & Hb & Hm). rewrite Hlb.
    assert (Hv1 : forall k, pv (m ++ [(id, b)]) k = lookup (acc ++ [(id, p)]) k).
    { intros k. rewrite (pv_app_new m id b k Hm), (lookup_app_new acc id p k Hn), Hb, Hv. reflexivity. }
    unfold recover_block. cbn [snd].
    destruct (recover_fold_spec (p_ce p) (m ++ [(id, b)])) as (m2 & Hf & Hk2).
    { intros e He. rewrite Hv1. apply Hce. exact He. }
    rewrite Hf.
    destruct (IH m2 (acc ++ [(id, p)])) as (m' & Hlb' & Hk').
    { intros k. rewrite Hk2. apply Hv1. }
    { exact Hr. }
    exists m'. split; [exact Hlb'|]. intros k. rewrite Hk', <- app_assoc. reflexivity.
Qed.

(* instance: three blocks with an endorsement, in height order *)
Example topo_example :
  let st := mkStatus 2 false false false false true false false in
  topo_ok [] [(0, mkPers None 0 (mkStatus 4 true false false false false true false) [] [] 0);
              (1, mkPers (Some 0) 1 st [10] [] 0); (2, mkPers (Some 1) 2 st [11] [(100, 1)] 0)].
Proof.
  cbn. repeat split; try discriminate; eauto.
  intros e [<-|[]]. cbn. discriminate.
Qed.

(* ------------------------------------------------------------------ loadTip *)
(* the active chain as stored: every block from the tip down is ACTIVE and fully valid (or FAILED_POP, where
   raiseValidity refuses) - then loadTip's setFlag(ACTIVE)/raiseValidity(CAN_BE_APPLIED) change nothing persisted *)
Fixpoint chain_ok (fuel : nat) (view : N -> option pers) (t : N) : bool :=
  match fuel with
  | O => true
  | S f => match view t with
           | None => true
           | Some p => s_active (p_status p) && (s_fpop (p_status p) || (4 <=? s_level (p_status p))) &&
                       match p_parent p with None => true | Some par => chain_ok f view par end
           end
  end.

Lemma chain_ok_ext fuel : forall v1 v2 t, (forall k, v1 k = v2 k) -> chain_ok fuel v1 t = chain_ok fuel v2 t.
Proof.
  induction fuel as [|f IH]; intros v1 v2 t H; cbn [chain_ok]; [reflexivity|].
  rewrite H. destruct (v2 t) as [p|]; [|reflexivity]. destruct (p_parent p); [|reflexivity].
  rewrite (IH v1 v2 n H). reflexivity.
Qed.

Lemma status_eqb_refl s : status_eqb s s = true.
Proof. destruct s. unfold status_eqb. cbn. rewrite N.eqb_refl, !eqb_reflx. reflexivity. Qed.

Lemma activate_keeps b :
  s_active (bstatus b) = true -> (s_fpop (bstatus b) || (4 <=? s_level (bstatus b))) = true ->
  raiseValidity 4 (setFlag FActive b) = b.
Proof.
  intros Ha Hl.
  assert (Hs : setFlag FActive b = b).
  { unfold setFlag, setStatus.
    assert (Hp : put_flag FActive true (bstatus b) = bstatus b).
    { destruct (bstatus b) as [l a1 a2 a3 a4 a5 a6 a7]. cbn in Ha |- *. subst a6. reflexivity. }
    rewrite Hp, status_eqb_refl. reflexivity. }
  rewrite Hs. unfold raiseValidity. destruct (s_fpop (bstatus b)); [reflexivity|]. cbn [orb] in Hl.
  apply N.leb_le in Hl. destruct (s_level (bstatus b) <? 4) eqn:E; [apply N.ltb_lt in E; lia|reflexivity].
Qed.

Lemma activate_chain_pv fuel : forall m t,
  chain_ok fuel (pv m) t = true -> forall k, pv (activate_chain prims_fixed fuel m t) k = pv m k.
Proof.
  induction fuel as [|f IH]; intros m t H k; cbn [activate_chain]; [reflexivity|].
  cbn [chain_ok] in H. unfold pv in H at 1.
  destruct (lookup m t) as [b|] eqn:E; [|reflexivity]. cbn [option_map] in H.
  apply andb_true_iff in H. destruct H as [H12 H3]. apply andb_true_iff in H12. destruct H12 as [H1 H2].
  cbn [p_raise prims_fixed].
  set (m1 := upd m t (fun b0 => raiseValidity 4 (setFlag FActive b0))).
  assert (Hm1 : forall k', pv m1 k' = pv m k').
  { intros k'. unfold pv, m1. destruct (N.eq_dec t k') as [->|Hne].
    - rewrite lookup_upd_same, E. cbn [option_map]. rewrite (activate_keeps b H1 H2). reflexivity.
    - rewrite lookup_upd_other by exact Hne. reflexivity. }
  destruct (p_parent (b_pers b)) as [par|]; [|apply Hm1].
  rewrite IH; [apply Hm1|]. rewrite (chain_ok_ext f (pv m1) (pv m) par Hm1). exact H3.
Qed.

(* ---- load restores the stored projections.  PARTIAL: that the height sort of the live stored blocks is a
        parent-before-child order ([topo_ok]) and that the stored chain is consistent ([chain_ok]) are premises,
        and the endorsedBy lists / dirty bits of the result are not described. *)
Lemma load_restores_persisted_partial st t :
  let live := filter (fun x => negb (s_deleted (p_status (snd x)))) (st_blocks st) in
  st_tip st = Some t ->
  topo_ok [] (sort_by_height live) ->
  lookup (sort_by_height live) t <> None ->
  (forall fuel, chain_ok fuel (lookup (sort_by_height live)) t = true) ->
  exists s', load prims_fixed st = Loaded s' /\ tip s' = t /\
             forall k, pv (blocks s') k = lookup (sort_by_height live) k.
Proof.
  intros live Ht Htopo Htip Hchain. unfold load. fold live.
  destruct (load_blocks_topological (sort_by_height live) [] []) as (m & Hl & Hv).
  { intros k. reflexivity. } { exact Htopo. }
  rewrite Hl, Ht. cbn [app] in Hv.
  assert (Hlm : lookup m t <> None).
  { intros Hn. apply Htip. rewrite <- Hv. unfold pv. rewrite Hn. reflexivity. }
  destruct (lookup m t) as [bt|] eqn:E; [|congruence].
  eexists. split; [reflexivity|]. cbn [tip blocks]. split; [reflexivity|].
  intros k. rewrite activate_chain_pv; [apply Hv|].
  rewrite (chain_ok_ext _ (pv m) (lookup (sort_by_height live)) t Hv). apply Hchain.
Qed.

(* ---- composition with save_load_roundtrip: for ANY history and ANY placement of saves, loading the storage
        accumulated by the incremental saves succeeds and yields the tip and, for every block id, exactly the
        persisted projection of the live non-deleted block at the last save.  PARTIAL: the two structural
        premises about the saved state (parent-before-child height order, consistent stored chain) are assumed,
        endorsedBy lists are not described. *)
Lemma reload_equiv_partial h s st :
  run prims_fixed (h ++ [OSave]) init storage0 = Done s st ->
  let live := filter (fun x => negb (s_deleted (p_status (snd x)))) (st_blocks (full_dump s)) in
  topo_ok [] (sort_by_height live) ->
  lookup (sort_by_height live) (tip s) <> None ->
  (forall fuel, chain_ok fuel (lookup (sort_by_height live)) (tip s) = true) ->
  exists s', load prims_fixed st = Loaded s' /\ tip s' = tip s /\
             forall k, pv (blocks s') k = lookup (sort_by_height live) k.
Proof.
  intros Hrun live Ht Htip Hc. destruct (save_load_roundtrip h s st Hrun) as [-> _].
  apply (load_restores_persisted_partial (full_dump s) (tip s)); [reflexivity|exact Ht|exact Htip|exact Hc].
Qed.

(* the premises hold for the F9 history on the repaired code, and the reloaded child is connected (258) *)
Example reload_f9_fixed :
  exists s st s', run prims_fixed f9_history init storage0 = Done s st /\ load prims_fixed st = Loaded s' /\
    option_map (fun p => status_word (p_status p)) (pv (blocks s') 2) = Some 258.
Proof.
  destruct (run prims_fixed f9_history init storage0) as [s st|w] eqn:E; [|vm_compute in E; discriminate].
  vm_compute in E. injection E as <- <-.
  eexists _, _, _. split; [reflexivity|]. split; vm_compute; reflexivity.
Qed.
