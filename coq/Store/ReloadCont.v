(** C10 — equivalent states stay equivalent under every operation of the model, with equal outcomes
    (Done / the same Abort code): the reloaded instance follows the live one op for op. *)
From Coq Require Import NArith List Bool Lia Permutation.
From VB Require Import Store.SaveLoadDefs Store.SaveLoadProofs Store.SaveLoadTheorems Store.ReloadEquiv.
Import ListNotations.
Local Open Scope N_scope.

(* ------------------------------------------------------------------ list facts for eraseBy *)
Lemma existsb_In x l : existsb (N.eqb x) l = true <-> In x l.
Proof.
  rewrite existsb_exists. split.
  - intros (y & Hy & E). apply N.eqb_eq in E. subst. exact Hy.
  - intros H. exists x. split; [exact H|apply N.eqb_refl].
Qed.

Lemma existsb_perm x l l' : Permutation l l' -> existsb (N.eqb x) l = existsb (N.eqb x) l'.
Proof.
  intros HP. destruct (existsb (N.eqb x) l) eqn:E; symmetry.
  - apply existsb_In. apply (Permutation_in _ HP). apply existsb_In. exact E.
  - destruct (existsb (N.eqb x) l') eqn:E'; [|reflexivity].
    apply existsb_In in E'. apply (Permutation_in _ (Permutation_sym HP)) in E'. apply existsb_In in E'. congruence.
Qed.

Lemma remove_last_perm x l : In x l -> Permutation l (x :: remove_last_n x l).
Proof.
  induction l as [|y r IH]; intros H; [destruct H|]. cbn [remove_last_n].
  destruct (existsb (N.eqb x) r) eqn:E.
  - apply existsb_In in E. apply (Permutation_trans (l' := y :: x :: remove_last_n x r)); [apply perm_skip; exact (IH E)|apply perm_swap].
  - destruct H as [->|H]; [|apply existsb_In in H; congruence].
    rewrite N.eqb_refl. apply Permutation_refl.
Qed.

Lemma remove_last_perm_compat x l l' : Permutation l l' -> Permutation (remove_last_n x l) (remove_last_n x l').
Proof.
  intros HP. destruct (existsb (N.eqb x) l) eqn:E.
  - pose proof E as E'. rewrite (existsb_perm x l l' HP) in E'. apply existsb_In in E, E'.
    apply (Permutation_cons_inv (a := x)).
    apply (Permutation_trans (Permutation_sym (remove_last_perm x l E))).
    apply (Permutation_trans HP). apply remove_last_perm. exact E'.
  - pose proof E as E'. rewrite (existsb_perm x l l' HP) in E'.
    assert (Hn : forall l0, existsb (N.eqb x) l0 = false -> remove_last_n x l0 = l0).
    { induction l0 as [|y r IH]; intros H0; cbn [remove_last_n existsb] in *; [reflexivity|].
      apply orb_false_iff in H0. destruct H0 as [H1 H2]. rewrite H2. rewrite N.eqb_sym, H1. reflexivity. }
    rewrite (Hn l E), (Hn l' E'). exact HP.
Qed.

(* ------------------------------------------------------------------ mutators respect the equivalence *)
Definition respects (f : block -> block) : Prop := forall b b', bsim b b' -> bsim (f b) (f b').
(* f never resurrects a removed index *)
Definition kd (f : block -> block) : Prop := forall b, deleted b = true -> deleted (f b) = true.

Lemma respects_comp f g : respects f -> respects g -> respects (fun b => g (f b)).
Proof. intros Hf Hg b b' H. apply Hg, Hf, H. Qed.
Lemma kd_comp f g : kd f -> kd g -> kd (fun b => g (f b)).
Proof. intros Hf Hg b H. apply Hg, Hf, H. Qed.

Ltac resp_start :=
  intros [p d y fi] [p' d' y' fi'] (Hp & Hf & Hy); cbn [b_pers b_final b_by] in Hp, Hf, Hy; subst p' fi'.
Ltac resp_done :=
  unfold bsim; cbn [b_pers b_final b_by setDirty rawStatus with_pers]; repeat split; try reflexivity; try assumption.

Lemma respects_setStatus_of (g : status -> status) : respects (fun b => setStatus (g (bstatus b)) b).
Proof.
  resp_start. unfold setStatus, bstatus. cbn [b_pers].
  destruct (status_eqb (g (p_status p)) (p_status p)); resp_done.
Qed.
Lemma respects_setFlag fl : respects (setFlag fl).
Proof. exact (respects_setStatus_of (put_flag fl true)). Qed.
Lemma respects_unsetFlag fl : respects (unsetFlag fl).
Proof. exact (respects_setStatus_of (put_flag fl false)). Qed.
Lemma respects_restore : respects restore.
Proof. exact (respects_unsetFlag FDeleted). Qed.
Lemma respects_raise n : respects (raiseValidity n).
Proof.
  resp_start. unfold raiseValidity, bstatus. cbn [b_pers].
  destruct (s_fpop (p_status p)); [resp_done|]. destruct (s_level (p_status p) <? n); resp_done.
Qed.
Lemma respects_lower n : respects (lowerValidity n).
Proof.
  resp_start. unfold lowerValidity, bstatus. cbn [b_pers].
  destruct (s_fpop (p_status p)); [resp_done|]. destruct (n <? s_level (p_status p)); resp_done.
Qed.
Lemma respects_setPayloads l : respects (setPayloads l).
Proof. resp_start. unfold setPayloads. resp_done. Qed.
Lemma respects_clearPayloads : respects clearPayloads.
Proof. resp_start. unfold clearPayloads. resp_done. Qed.
Lemma respects_insertCE e : respects (insertCE e).
Proof. resp_start. unfold insertCE. resp_done. Qed.
Lemma respects_removeCE e : respects (removeCE e).
Proof. resp_start. unfold removeCE. resp_done. Qed.
Lemma respects_addRef : respects addRef.
Proof. resp_start. unfold addRef. resp_done. Qed.
Lemma respects_removeRef : respects removeRef.
Proof. resp_start. unfold removeRef. resp_done. Qed.
Lemma respects_insertBy e : respects (insertBy e).
Proof. resp_start. unfold insertBy. resp_done. cbn [b_by]. apply Permutation_app_tail. exact Hy. Qed.
Lemma respects_eraseBy e : respects (eraseBy e).
Proof.
  resp_start. unfold eraseBy. cbn [b_by]. rewrite (existsb_perm e y y' Hy).
  destruct (existsb (N.eqb e) y'); resp_done. cbn [b_by]. apply remove_last_perm_compat. exact Hy.
Qed.
Lemma respects_deleteTemporarily : respects deleteTemporarily.
Proof. resp_start. unfold deleteTemporarily, setNullAddon, bstatus. cbn [b_pers b_dirty b_by b_final]. resp_done. Qed.
Lemma respects_unsetDirty : respects unsetDirty.
Proof. resp_start. unfold unsetDirty. resp_done. Qed.

Lemma deleted_setStatus s b : deleted (setStatus s b) = if status_eqb s (bstatus b) then deleted b else s_deleted s.
Proof. unfold setStatus. destruct (status_eqb s (bstatus b)); reflexivity. Qed.

Lemma kd_setFlag fl : kd (setFlag fl).
Proof.
  intros b H. unfold setFlag. rewrite deleted_setStatus. destruct (status_eqb _ _); [exact H|].
  unfold deleted in H. destruct (bstatus b), fl; cbn in *; try exact H; reflexivity.
Qed.
Lemma kd_unsetFlag fl : fl <> FDeleted -> kd (unsetFlag fl).
Proof.
  intros Hfl b H. unfold unsetFlag. rewrite deleted_setStatus. destruct (status_eqb _ _); [exact H|].
  unfold deleted in H. destruct (bstatus b), fl; cbn in *; try exact H; congruence.
Qed.
Lemma kd_raise n : kd (raiseValidity n).
Proof.
  intros b H. unfold raiseValidity. destruct (s_fpop (bstatus b)); [exact H|].
  destruct (s_level (bstatus b) <? n); [|exact H]. unfold deleted in *. destruct b as [[pa h s pl ce r] d y fi]. exact H.
Qed.
Lemma kd_insertCE e : kd (insertCE e).
Proof. intros [[pa h s pl ce r] d y fi] H. exact H. Qed.
Lemma kd_removeCE e : kd (removeCE e).
Proof. intros [[pa h s pl ce r] d y fi] H. exact H. Qed.
Lemma kd_insertBy e : kd (insertBy e).
Proof. intros [[pa h s pl ce r] d y fi] H. exact H. Qed.
Lemma kd_eraseBy e : kd (eraseBy e).
Proof. intros [[pa h s pl ce r] d y fi] H. unfold eraseBy. cbn [b_by]. destruct (existsb (N.eqb e) y); exact H. Qed.
Lemma kd_deleteTemporarily : kd deleteTemporarily.
Proof. intros b _. reflexivity. Qed.

(* ------------------------------------------------------------------ stores *)
Lemma lookup_upd_none m k f id : lookup (upd m k f) id = None <-> lookup m id = None.
Proof. rewrite lookup_upd. destruct (lookup m id); cbn [option_map]; split; congruence. Qed.

Lemma ssim_upd m m' k f :
  ssim m m' -> respects f -> (lookup m' k <> None \/ kd f) -> ssim (upd m k f) (upd m' k f).
Proof.
  intros [H1 H2] Hf Hk. split.
  - intros id b1' L'. rewrite lookup_upd in L'. destruct (lookup m' id) as [b'|] eqn:E'; [|discriminate].
    cbn [option_map] in L'. injection L' as <-. destruct (H1 id b' E') as (b & L & S).
    exists (if k =? id then f b else b). split; [rewrite lookup_upd, L; reflexivity|].
    destruct (k =? id); [apply Hf; exact S|exact S].
  - intros id b1 V. rewrite lookup_upd_none. apply vis_Some in V. destruct V as [L D]. rewrite lookup_upd in L.
    destruct (lookup m id) as [b|] eqn:E; [|discriminate]. cbn [option_map] in L. injection L as <-.
    destruct (k =? id) eqn:Ek.
    + apply N.eqb_eq in Ek. subst id. destruct Hk as [Hk|Hk]; [exact Hk|].
      destruct (deleted b) eqn:Db; [rewrite (Hk b Db) in D; discriminate|].
      apply (H2 k b). apply vis_Some. auto.
    + apply (H2 id b). apply vis_Some. auto.
Qed.

Lemma ssim_upd_many ks : forall m m' f,
  ssim m m' -> respects f -> kd f -> ssim (upd_many m ks f) (upd_many m' ks f).
Proof.
  unfold upd_many. induction ks as [|k r IH]; intros m m' f H Hf Hk; cbn [fold_left]; [exact H|].
  apply IH; [|exact Hf|exact Hk]. apply ssim_upd; [exact H|exact Hf|right; exact Hk].
Qed.

Lemma ssim_lookup_vis m m' id b : ssim m m' -> vis m id = Some b ->
  exists b', lookup m' id = Some b' /\ bsim b b' /\ deleted b' = false.
Proof.
  intros HS V. pose proof (ssim_vis m m' HS id) as HO. rewrite V in HO. unfold osim in HO.
  destruct (vis m' id) as [b'|] eqn:V'; [|destruct HO]. apply vis_Some in V'. destruct V' as [L' D'].
  exists b'. auto.
Qed.

Lemma ssim_none m m' id : ssim m m' -> lookup m id = None -> lookup m' id = None.
Proof.
  intros [H1 _] L. destruct (lookup m' id) as [b'|] eqn:E; [|reflexivity].
  destruct (H1 id b' E) as (b & L0 & _). congruence.
Qed.

Lemma lookup_snoc {A} (m : list (N * A)) id v k : lookup m id = None ->
  lookup (m ++ [(id, v)]) k = (if id =? k then Some v else lookup m k).
Proof.
  intros Hn. destruct (lookup m k) as [w|] eqn:E.
  - rewrite (lookup_app_l m _ k w E). destruct (id =? k) eqn:E2; [apply N.eqb_eq in E2; subst; congruence|reflexivity].
  - rewrite (lookup_app_r m _ k E). cbn [lookup]. destruct (id =? k); reflexivity.
Qed.

Lemma ssim_snoc m m' id nb nb' :
  ssim m m' -> lookup m id = None -> lookup m' id = None -> bsim nb nb' ->
  ssim (m ++ [(id, nb)]) (m' ++ [(id, nb')]).
Proof.
  intros [H1 H2] L L' S. split.
  - intros k b1' Hk. rewrite (lookup_snoc m' id nb' k L') in Hk. rewrite (lookup_snoc m id nb k L).
    destruct (id =? k); [injection Hk as <-; eauto|exact (H1 k b1' Hk)].
  - intros k b1 V. rewrite (lookup_snoc m' id nb' k L'). apply vis_Some in V. destruct V as [Lk D].
    rewrite (lookup_snoc m id nb k L) in Lk. destruct (id =? k); [discriminate|].
    apply (H2 k b1). apply vis_Some. auto.
Qed.

(* the live instance resurrects the removed index, the reloaded one creates a fresh index *)
Lemma ssim_restore_vs_new m m' id f nb :
  ssim m m' -> lookup m' id = None ->
  (forall b, lookup m id = Some b -> bsim (f b) nb) -> lookup m id <> None ->
  ssim (upd m id f) (m' ++ [(id, nb)]).
Proof.
  intros [H1 H2] L' Hb Hm. split.
  - intros k b1' Hk. rewrite (lookup_snoc m' id nb k L') in Hk. rewrite lookup_upd.
    destruct (id =? k) eqn:E.
    + apply N.eqb_eq in E. subst k. injection Hk as <-. destruct (lookup m id) as [b|] eqn:Lm; [|congruence].
      exists (f b). split; [reflexivity|apply Hb; reflexivity].
    + destruct (H1 k b1' Hk) as (b & Lb & S). exists b. rewrite Lb. auto.
  - intros k b1 V. rewrite (lookup_snoc m' id nb k L'). destruct (id =? k) eqn:E; [discriminate|].
    apply vis_Some in V. destruct V as [Lk D]. rewrite lookup_upd, E in Lk.
    destruct (lookup m k) as [b|] eqn:Lm; [|discriminate]. cbn [option_map] in Lk. injection Lk as <-.
    apply (H2 k b). apply vis_Some. auto.
Qed.

Lemma ssim_apply_endorsements es : forall m m' id,
  ssim m m' -> ssim (apply_endorsements m id es) (apply_endorsements m' id es).
Proof.
  unfold apply_endorsements. induction es as [|e r IH]; intros m m' id H; cbn [fold_left]; [exact H|].
  apply IH. apply ssim_upd; [|apply respects_insertBy|right; apply kd_insertBy].
  apply ssim_upd; [exact H|apply respects_insertCE|right; apply kd_insertCE].
Qed.

Lemma ssim_unapply_fold l : forall m m' id,
  ssim m m' ->
  ssim (fold_left (fun m e => upd (upd m (snd e) (eraseBy (fst e))) id (removeCE (fst e))) l m)
       (fold_left (fun m e => upd (upd m (snd e) (eraseBy (fst e))) id (removeCE (fst e))) l m').
Proof.
  induction l as [|e r IH]; intros m m' id H; cbn [fold_left]; [exact H|].
  apply IH. apply ssim_upd; [|apply respects_removeCE|right; apply kd_removeCE].
  apply ssim_upd; [exact H|apply respects_eraseBy|right; apply kd_eraseBy].
Qed.

Lemma ssim_map_unsetDirty m m' :
  ssim m m' -> ssim (map (fun kb => (fst kb, unsetDirty (snd kb))) m) (map (fun kb => (fst kb, unsetDirty (snd kb))) m').
Proof.
  intros [H1 H2]. split.
  - intros id b1' L'. rewrite lookup_map_unsetDirty in L'. destruct (lookup m' id) as [b'|] eqn:E'; [|discriminate].
    cbn [option_map] in L'. injection L' as <-. destruct (H1 id b' E') as (b & L & S).
    exists (unsetDirty b). rewrite lookup_map_unsetDirty, L. split; [reflexivity|apply respects_unsetDirty; exact S].
  - intros id b1 V. rewrite lookup_map_unsetDirty. apply vis_Some in V. destruct V as [L D].
    rewrite lookup_map_unsetDirty in L. destruct (lookup m id) as [b|] eqn:E; [|discriminate].
    cbn [option_map] in L. injection L as <-.
    assert (Hv : vis m id = Some b) by (apply vis_Some; split; [exact E|exact D]).
    pose proof (H2 id b Hv) as Hn. destruct (lookup m' id); [discriminate|congruence].
Qed.

(* ------------------------------------------------------------------ the new / resurrected index *)
Lemma restored_is_fresh parent h fc d :
  bsim (raiseValidity 1 (restore (mkBlock (mkPers (Some parent) h (mkStatus 0 false false false fc false false true) [] [] 0) d [] false)))
       (raiseValidity 1 (restore (newBlock (Some parent) h fc))).
Proof. destruct fc; unfold bsim; repeat split; apply Permutation_refl. Qed.

(* ------------------------------------------------------------------ one operation *)
Lemma step_equiv o s st s' st' :
  wf s -> pre s o -> equiv s s' ->
  match step prims_fixed o s st with
  | Done s1 _ => exists s1' st1', step prims_fixed o s' st' = Done s1' st1' /\ equiv s1 s1'
  | Abort w => step prims_fixed o s' st' = Abort w
  end.
Proof.
  intros HW HP [Ht HS]. destruct s as [m t], s' as [m' t']. cbn [tip blocks] in Ht, HS. subst t'.
  destruct o; cbn [step blocks tip p_raise p_lower prims_fixed]; cbn [pre blocks tip] in HP.
  - (* OInsertHeader *)
    destruct HP as [Hpar Hre]. apply visible_iff in Hpar. destruct Hpar as [pb Vp].
    destruct (ssim_lookup_vis m m' parent pb HS Vp) as (pb' & Lp' & Sp & Dp').
    pose proof (proj1 (proj1 (vis_Some _ _ _) Vp)) as Lp.
    assert (Epers : b_pers pb = b_pers pb') by exact (proj1 Sp).
    destruct (lookup m id) as [b|] eqn:L.
    + destruct (s_deleted (bstatus b)) eqn:D.
      * (* resurrect *)
        destruct (lookup m' id) as [b'|] eqn:L'.
        -- destruct (proj1 HS id b' L') as (b0 & L0 & S0). rewrite L in L0. injection L0 as <-.
           assert (D' : s_deleted (bstatus b') = true).
           { pose proof (bsim_deleted _ _ S0) as H. unfold deleted in H. congruence. }
           rewrite D'. eexists _, _. split; [reflexivity|]. split; [reflexivity|]. cbn [blocks].
           apply ssim_upd; [exact HS| |left; congruence].
           apply (respects_comp restore (raiseValidity 1)); [apply respects_restore|apply respects_raise].
        -- rewrite Lp'. eexists _, _. split; [reflexivity|]. split; [reflexivity|]. cbn [blocks].
           apply ssim_restore_vs_new; [exact HS|exact L'| |congruence].
           intros b0 Hb0. rewrite L in Hb0. injection Hb0 as <-.
           destruct (Hre b eq_refl D) as (Hpa & Hfb & Hfc).
           destruct (wf_local _ HW id b L) as (Hfin & Hdf & _ & _).
           destruct (Hdf D) as (Hpl & Hce & Href & Hby & Hlv & Hbo & Hfp & Hhp & Hac).
           destruct (wf_parent _ HW id b parent L Hpa) as (pb0 & Lpb0 & Hh & _).
           cbn [blocks] in Lpb0. rewrite Lp in Lpb0. injection Lpb0 as <-.
           unfold final_ok in Hfin. rewrite Hpa in Hfin.
           unfold parent_failed in Hfc. rewrite Lp in Hfc.
           unfold deleted in D. unfold bstatus in *.
           destruct b as [[pa h [lv bo fb fp fc hp ac de] pl ce rf] d y fi].
           cbn [b_pers b_by b_final p_parent p_height p_status p_pl p_ce p_ref s_level s_boot s_fblock s_fpop s_fchild s_haspl s_active s_deleted] in *.
           subst. rewrite <- Epers. apply restored_is_fresh.
      * destruct (ssim_lookup_vis m m' id b HS) as (b' & L' & S & D').
        { apply vis_Some. split; [exact L|exact D]. }
        rewrite L'. unfold deleted in D'. rewrite D'. eexists _, _. split; [reflexivity|]. split; [reflexivity|exact HS].
    + rewrite (ssim_none m m' id HS L). rewrite Lp, Lp'. eexists _, _. split; [reflexivity|]. split; [reflexivity|].
      cbn [blocks]. unfold bstatus. rewrite <- Epers.
      apply ssim_snoc; [exact HS|exact L|exact (ssim_none m m' id HS L)|apply bsim_refl].
  - (* OSetPayloads *)
    apply visible_iff in HP. destruct HP as [b V]. destruct (ssim_lookup_vis m m' id b HS V) as (b' & L' & S & D').
    rewrite (proj1 (proj1 (vis_Some _ _ _) V)), L'. unfold bstatus. rewrite <- (proj1 S).
    destruct (s_haspl (p_status (b_pers b))); [reflexivity|].
    eexists _, _. split; [reflexivity|]. split; [reflexivity|]. cbn [blocks].
    apply ssim_upd; [exact HS| |left; congruence].
    apply (respects_comp (setPayloads pl) (setFlag FHasPayloads)); [apply respects_setPayloads|apply respects_setFlag].
  - (* OConnect *)
    eexists _, _. split; [reflexivity|]. split; [reflexivity|]. cbn [blocks].
    apply ssim_upd; [exact HS|apply respects_raise|right; apply kd_raise].
  - (* OApply *)
    eexists _, _. split; [reflexivity|]. split; [reflexivity|]. cbn [blocks].
    apply ssim_upd; [apply ssim_apply_endorsements; exact HS| |right].
    + apply (respects_comp (raiseValidity lvl) (setFlag FActive)); [apply respects_raise|apply respects_setFlag].
    + apply (kd_comp (raiseValidity lvl) (setFlag FActive)); [apply kd_raise|apply kd_setFlag].
  - (* OUnapply *)
    destruct HP as (Hv & _ & _). apply visible_iff in Hv. destruct Hv as [b V].
    destruct (ssim_lookup_vis m m' id b HS V) as (b' & L' & S & D').
    eexists _, _. split; [reflexivity|]. split; [reflexivity|]. cbn [blocks].
    apply ssim_upd; [|apply respects_unsetFlag|right; apply kd_unsetFlag; discriminate].
    unfold unapply_endorsements. rewrite (proj1 (proj1 (vis_Some _ _ _) V)), L', <- (proj1 S).
    apply ssim_unapply_fold. exact HS.
  - (* OInvalidate *)
    eexists _, _. split; [reflexivity|]. split; [reflexivity|]. cbn [blocks].
    apply ssim_upd_many; [|apply respects_setFlag|apply kd_setFlag].
    apply ssim_upd; [exact HS|apply respects_setFlag|right; apply kd_setFlag].
  - (* ORevalidate *)
    destruct HP as (Hr & _ & _).
    eexists _, _. split; [reflexivity|]. split; [reflexivity|]. cbn [blocks].
    apply ssim_upd_many; [|apply respects_unsetFlag|apply kd_unsetFlag; discriminate].
    apply ssim_upd; [exact HS|apply respects_unsetFlag|right; apply kd_unsetFlag; destruct Hr; subst; discriminate].
  - (* ORemoveSubtree *)
    eexists _, _. split; [reflexivity|]. split; [reflexivity|]. cbn [blocks].
    apply ssim_upd_many; [exact HS|apply respects_deleteTemporarily|apply kd_deleteTemporarily].
  - (* ORemovePayloads *)
    destruct HP as (b & V & _). destruct (ssim_lookup_vis m m' id b HS V) as (b' & L' & S & D').
    rewrite (proj1 (proj1 (vis_Some _ _ _) V)), L'. unfold bstatus. rewrite <- (proj1 S).
    destruct (s_haspl (p_status (b_pers b))); cbn [negb]; [|reflexivity].
    eexists _, _. split; [reflexivity|]. split; [reflexivity|]. cbn [blocks].
    apply ssim_upd; [exact HS| |left; congruence].
    apply (respects_comp (fun b => unsetFlag FHasPayloads (clearPayloads b)) (lowerValidity 1)); [|apply respects_lower].
    apply (respects_comp clearPayloads (unsetFlag FHasPayloads)); [apply respects_clearPayloads|apply respects_unsetFlag].
  - (* OAddRef *)
    apply visible_iff in HP. destruct HP as [b V]. destruct (ssim_lookup_vis m m' id b HS V) as (b' & L' & S & D').
    eexists _, _. split; [reflexivity|]. split; [reflexivity|]. cbn [blocks].
    apply ssim_upd; [exact HS|apply respects_addRef|left; congruence].
  - (* ORemoveRef *)
    apply visible_iff in HP. destruct HP as [b V]. destruct (ssim_lookup_vis m m' id b HS V) as (b' & L' & S & D').
    eexists _, _. split; [reflexivity|]. split; [reflexivity|]. cbn [blocks].
    apply ssim_upd; [exact HS|apply respects_removeRef|left; congruence].
  - (* OSetTip *)
    eexists _, _. split; [reflexivity|]. split; [reflexivity|exact HS].
  - (* OSave *)
    unfold save. cbn [blocks tip]. eexists _, _. split; [reflexivity|]. split; [reflexivity|]. cbn [blocks].
    apply ssim_map_unsetDirty. exact HS.
Qed.
