(** C09 — histories over the three trees with the finalization cascade: a finalized block of ANY of the three
    trees (ALT, VBK, BTC) never leaves that tree's best chain.

    Model: Store/StackDefs.v ([stack_finalize] = AltBlockTree::finalizeBlocks -> VbkBlockTree::finalizeBlocks ->
    BlockTree<BtcBlock>::finalizeBlocks) over the per-tree operations of Store/FinalGuard.v.  What addPayloads /
    removePayloads / setState of the tree above do to an SP tree is a sequence of such per-tree operations: tip
    switches through PopStateMachine (every unapplied block passes assertBlockCanBeUnapplied), block additions
    (context blocks), removeSubtree / invalidateSubtree; a history is ANY interleaving of them on the three trees
    with cascades carrying ANY reference list of the BTC tip. *)
From Coq Require Import NArith List Bool Lia.
From VB Require Import Store.FinalizeDefs Store.FinalizeProofs Store.FinalizeTheorems Store.FinalGuard Store.FinalizeBound Store.StackDefs.
Import ListNotations.
Local Open Scope N_scope.

(* ------------------------------------------------------------------ definitions *)
Inductive tree_id := TAlt | TVbk | TBtc.

Definition tree_eqb (w w' : tree_id) : bool :=
  match w, w' with TAlt, TAlt | TVbk, TVbk | TBtc, TBtc => true | _, _ => false end.

Definition tree_of (s : pstack) (w : tree_id) : ftree :=
  match w with TAlt => s_alt s | TVbk => s_vbk s | TBtc => s_btc s end.
Definition set_tree (s : pstack) (w : tree_id) (t : ftree) : pstack :=
  match w with
  | TAlt => mkS t (s_vbk s) (s_btc s)
  | TVbk => mkS (s_alt s) t (s_btc s)
  | TBtc => mkS (s_alt s) (s_vbk s) t
  end.

Inductive sop :=
| SOn (w : tree_id) (o : gop)          (* one tree-level effect of addPayloads/removePayloads/setState/accept/save *)
| SCascade (refs : list N).            (* AltBlockTree::finalizeBlocks (public, or automatic in overrideTip) *)

Inductive sres := SOk (s : pstack) | SAbort.

Definition sstep (guard : bool) (fuel : nat) (p : sparams) (s : pstack) (o : sop) : sres :=
  match o with
  | SOn w g => match gstep guard fuel (tree_of s w) g with
               | FOk t' => SOk (set_tree s w t')
               | FAbort => SAbort
               end
  | SCascade refs => SOk (stack_finalize fuel p refs s)
  end.

Fixpoint srun (guard : bool) (fuel : nat) (p : sparams) (ops : list sop) (s : pstack) : sres :=
  match ops with
  | [] => SOk s
  | o :: r => match sstep guard fuel p s o with SOk s' => srun guard fuel p r s' | SAbort => SAbort end
  end.

(* the hash of block b of tree w is not accepted again after deallocation *)
Definition sop_ok (w : tree_id) (b : N) (o : sop) : bool :=
  match o with
  | SOn w' (GOp (FAdd id _ _)) => negb (tree_eqb w w' && (id =? b))
  | _ => true
  end.
Definition s_never_readds (w : tree_id) (b : N) (ops : list sop) : bool := forallb (sop_ok w b) ops.

(* ---- demo: VBK chain 0..20 fully saved with a stale VBK fork 105 <- 106 on block 4; BTC chain 0..5; ALT 0..3;
        VBK maxReorg 11 preserve 10; BTC with the asserted floor 2016 (never finalizes here) *)
Definition line_tree (n : list N) (extra : list (N * fblock)) (tips : list N) : ftree :=
  mkT (map (fun i : N => (i, mkF (if i =? 0 then None else Some (i - 1)) i false (i =? 0) [100 + i])) n ++ extra)
      n tips [].
Definition demo_stack : pstack :=
  mkS (line_tree [0;1;2;3] [] [3])
      (line_tree [0;1;2;3;4;5;6;7;8;9;10;11;12;13;14;15;16;17;18;19;20]
                 [(105, mkF (Some 4) 5 false false []); (106, mkF (Some 105) 6 false false [])] [20; 106])
      (line_tree [0;1;2;3;4;5] [] [5]).
Definition demo_params : sparams := mkSP 100 100 11 10 2016 0.

(* ------------------------------------------------------------------ proofs *)
Lemma tree_eqb_eq w w' : tree_eqb w w' = true -> w = w'.
Proof. destruct w, w'; cbn; intros H; try discriminate; reflexivity. Qed.

Lemma tree_of_set_same s w t : tree_of (set_tree s w t) w = t.
Proof. destruct w; reflexivity. Qed.

Lemma tree_of_set_other s w w' t : tree_eqb w w' = false -> tree_of (set_tree s w' t) w = tree_of s w.
Proof. destruct w, w'; cbn; intros H; try discriminate; reflexivity. Qed.

Lemma stack_finalize_trees fuel p refs s :
  s_alt (stack_finalize fuel p refs s) = finalizeBlocks fuel (s_alt s) (sp_alt_maxreorg p) (sp_alt_preserve p) INT32_MAX /\
  s_vbk (stack_finalize fuel p refs s) =
    finalizeBlocks fuel (s_vbk s) (sp_vbk_maxreorg p) (sp_vbk_preserve p) (min_or_default refs 2147483647) /\
  s_btc (stack_finalize fuel p refs s) = finalizeBlocks fuel (s_btc s) (sp_btc_maxreorg p) (sp_btc_preserve p) INT32_MAX.
Proof. repeat split. Qed.

Lemma sstep_monotone fuel p s o s' w b :
  sop_ok w b o = true -> sstep true fuel p s o = SOk s' ->
  fin_or_gone (tree_of s w) b -> fin_or_gone (tree_of s' w) b.
Proof.
  intros Hok Hs H. destruct o as [w' g|refs]; cbn [sstep] in Hs.
  - destruct (gstep true fuel (tree_of s w') g) as [t'|] eqn:E; [|discriminate]. injection Hs as <-.
    destruct (tree_eqb w w') eqn:Ew.
    + pose proof (tree_eqb_eq w w' Ew) as <-.
      rewrite tree_of_set_same. apply (gstep_monotone fuel (tree_of s w) g t' b); [|exact E|exact H].
      destruct g as [o|a]; [|reflexivity]. destruct o; try reflexivity.
      cbn [sop_ok] in Hok. rewrite Ew in Hok. cbn [andb] in Hok. exact Hok.
    + rewrite (tree_of_set_other s w w' t' Ew). exact H.
  - injection Hs as <-. destruct (stack_finalize_trees fuel p refs s) as (Ha & Hv & Hb).
    destruct w; cbn [tree_of] in *; [rewrite Ha|rewrite Hv|rewrite Hb]; apply finalizeBlocks_monotone; exact H.
Qed.

(* the statement of the property for all three trees and every history *)
Lemma stack_history_keeps_final fuel p ops : forall s s' w b,
  s_never_readds w b ops = true ->
  In b (t_chain (tree_of s w)) -> is_final (tree_of s w) b = true ->
  srun true fuel p ops s = SOk s' ->
  (In b (t_chain (tree_of s' w)) /\ is_final (tree_of s' w) b = true) \/ flookup (t_blocks (tree_of s' w)) b = None.
Proof.
  assert (G : forall s s' w b, s_never_readds w b ops = true -> fin_or_gone (tree_of s w) b ->
                               srun true fuel p ops s = SOk s' -> fin_or_gone (tree_of s' w) b).
  { induction ops as [|o r IH]; intros s s' w b Hn H Hr; cbn [srun] in Hr.
    - injection Hr as <-. exact H.
    - unfold s_never_readds in Hn. cbn [forallb] in Hn. apply andb_true_iff in Hn. destruct Hn as [Hn1 Hn2].
      destruct (sstep true fuel p s o) as [s1|] eqn:E; [|discriminate].
      exact (IH s1 s' w b Hn2 (sstep_monotone fuel p s o s1 w b Hn1 E H) Hr). }
  intros s s' w b Hn Hin Hf Hr. exact (G s s' w b Hn (or_introl (conj Hin Hf)) Hr).
Qed.

(* a tip switch of an SP tree that would leave a finalized SP block aborts (assertBlockCanBeUnapplied) *)
Lemma sp_setState_below_final_aborts fuel p s w to b :
  In b (t_chain (tree_of s w)) -> is_final (tree_of s w) b = true ->
  ~ In b (common_prefix (t_chain (tree_of s w)) (path_to fuel (tree_of s w) to [])) ->
  sstep true fuel p s (SOn w (GOp (FSetTip to))) = SAbort.
Proof.
  intros Hin Hf Hnot. cbn [sstep gstep].
  rewrite (setTip_g_aborts_on_final fuel (tree_of s w) to b Hin Hf Hnot). reflexivity.
Qed.

(* the cascade never moves the ALT bound into the SP trees and leaves a tree below its max-reorg height alone:
   BtcChainParams::getMaxReorgBlocks asserts >= 2016, so a BTC tree whose tip is below that is untouched *)
Lemma cascade_tree_below_maxreorg_untouched fuel p refs s :
  (height_of (s_btc s) (tip_of (s_btc s)) <? sp_btc_maxreorg p) = true ->
  s_btc (stack_finalize fuel p refs s) = s_btc s.
Proof.
  intros H. destruct (stack_finalize_trees fuel p refs s) as (_ & _ & Hb). rewrite Hb.
  unfold finalizeBlocks. rewrite H. reflexivity.
Qed.

(* the VBK part of the cascade is [vbk_finalizeBlocks] on the references of the BTC tip read BEFORE the BTC tree
   finalizes: the bound of Store/FinalizeBound.v applies to the cascade *)
Lemma cascade_vbk_bounded fuel p refs s fi r :
  (height_of (s_vbk s) (tip_of (s_vbk s)) <? sp_vbk_maxreorg p) = false ->
  chain_at (s_vbk s) (N.max (height_of (s_vbk s) (root_of (s_vbk s)))
                            (height_of (s_vbk s) (tip_of (s_vbk s)) - sp_vbk_maxreorg p)) = Some fi ->
  In r refs -> r <= height_of (s_vbk s) fi ->
  s_vbk (stack_finalize fuel p refs s) = s_vbk s.
Proof.
  intros H1 H2 Hr Hle.
  exact (vbk_finalization_bounded fuel (s_vbk s) (sp_vbk_maxreorg p) (sp_vbk_preserve p) refs fi r H1 H2 Hr Hle).
Qed.

(* ---- the hypotheses are met: the cascade on the demo stack finalizes VBK 0..9 (refs above block 9), does nothing
        with a reference at block 9, never touches BTC; afterwards the stale VBK fork cannot be activated *)
Definition demo_after : pstack := stack_finalize 40 demo_params [15; 12] demo_stack.

Example stack_cascade_satisfiable :
  highest_final (s_vbk demo_after) = Some 9 /\ root_of (s_vbk demo_after) = 0 /\ tip_of (s_vbk demo_after) = 20 /\
  In 9 (t_chain (tree_of demo_after TVbk)) /\ is_final (tree_of demo_after TVbk) 9 = true /\
  flookup (t_blocks (s_vbk demo_after)) 106 <> None /\
  s_vbk (stack_finalize 40 demo_params [15; 9] demo_stack) = s_vbk demo_stack /\
  s_btc demo_after = s_btc demo_stack /\ s_alt demo_after = s_alt demo_stack /\
  sstep true 40 demo_params demo_after (SOn TVbk (GOp (FSetTip 106))) = SAbort /\
  sstep true 40 demo_params demo_after (SOn TVbk (GUnapplyFrom 7)) = SAbort /\
  s_never_readds TVbk 9 [SCascade [15;12]; SOn TVbk (GOp (FAdd 21 20 [])); SOn TBtc (GOp (FAdd 9 5 [])); SOn TVbk (GOp (FSetTip 21))] = true /\
  (exists s', srun true 40 demo_params
                [SCascade [15;12]; SOn TVbk (GOp (FAdd 21 20 [])); SOn TBtc (GOp (FAdd 9 5 [])); SOn TVbk (GOp (FSetTip 21))]
                demo_stack = SOk s' /\ tip_of (s_vbk s') = 21 /\ In 9 (t_chain (s_vbk s'))).
Proof.
  vm_compute. repeat split; try reflexivity; try discriminate; auto 30.
  eexists. split; [reflexivity|]. split; [reflexivity|]. auto 30.
Qed.

(* ---- with the check compiled out the SP statement is false as well *)
Lemma stack_guard_debug_only_refuted :
  (exists s', srun false 40 demo_params [SCascade [15;12]; SOn TVbk (GOp (FSetTip 106))] demo_stack = SOk s' /\
              is_final (s_vbk s') 9 = true /\ ~ In 9 (t_chain (s_vbk s')) /\ flookup (t_blocks (s_vbk s')) 9 <> None) /\
  srun true 40 demo_params [SCascade [15;12]; SOn TVbk (GOp (FSetTip 106))] demo_stack = SAbort.
Proof.
  split; [|vm_compute; reflexivity].
  eexists. split; [vm_compute; reflexivity|]. vm_compute. repeat split; try reflexivity; try discriminate.
  intros H; repeat (destruct H as [H|H]; [discriminate|]); exact H.
Qed.
