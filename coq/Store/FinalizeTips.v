(** C09 — which tips the isBlockOutdated-based erasure of finalizeBlockImpl keeps.
    When no outdated off-chain tip has an unsaved block on its branch, the final block is not lowered during
    the erasure and exactly the outdated off-chain tips go; in particular every tip that descends from the
    final block stays.  The carved-out situation (an outdated tip whose branch holds a dirty block: the final
    block is lowered to the branch's fork point, yet the tip is erased) is known finding tips-dirty-fork-erased;
    [tips_dirty_fork_erased_refuted] is the corpus witness corpus/C09/F10_dirty_fork_erased_from_tips.json. *)
From Coq Require Import NArith List Bool Lia.
From VB Require Import Store.FinalizeDefs Store.FinalizeProofs.
Import ListNotations.
Local Open Scope N_scope.

Definition erasable (fuel : nat) (t : ftree) (fin tp : N) : bool :=
  negb (on_chain t tp) && outdated fuel fuel t fin tp.

(* no outdated off-chain tip has an unsaved block between itself and the active chain *)
Definition no_dirty_outdated_forks (fuel : nat) (t : ftree) (fin : N) (tips : list N) : Prop :=
  forall tp, In tp tips -> erasable fuel t fin tp = true -> snd (walk_to_chain fuel t tp false) = false.

Lemma erase_tips_clean fuel t fin : forall tips,
  no_dirty_outdated_forks fuel t fin tips ->
  erase_tips fuel t tips fin = (filter (fun tp => negb (erasable fuel t fin tp)) tips, fin).
Proof.
  induction tips as [|tp r IH]; intros H; cbn [erase_tips filter]; [reflexivity|].
  assert (Hr : no_dirty_outdated_forks fuel t fin r).
  { intros x Hx. apply H. now right. }
  fold (erasable fuel t fin tp). destruct (erasable fuel t fin tp) eqn:E; cbn [negb].
  - pose proof (H tp (or_introl eq_refl) E) as Hd.
    destruct (walk_to_chain fuel t tp false) as [w d]. cbn [snd] in Hd. subst d. exact (IH Hr).
  - rewrite (IH Hr). reflexivity.
Qed.

(* every tip that descends from the final block survives the erasure, and the final block is not lowered *)
Lemma tips_kept_except_dirty_forks fuel t fin tips tp :
  no_dirty_outdated_forks fuel t fin tips ->
  In tp tips -> descends fuel t tp fin = true ->
  In tp (fst (erase_tips fuel t tips fin)) /\ snd (erase_tips fuel t tips fin) = fin.
Proof.
  intros H Hin Hd. rewrite (erase_tips_clean fuel t fin tips H). cbn [fst snd]. split; [|reflexivity].
  apply filter_In. split; [exact Hin|]. unfold erasable.
  rewrite (outdated_descendant fuel fuel t fin tp Hd), andb_false_r. reflexivity.
Qed.

(* the exception: chain 0..12, saved forks 13,14,15 from block 3, UNSAVED fork 16 from block 1;
   finalizeBlocks(maxReorg 8, preserve 12): the final block becomes 1 (lowered from 4), block 16 descends from
   it, is still in the tree - and is no longer a tip *)
Definition f10_tree : ftree :=
  let mk := fun (i : N) => (i, mkF (if i =? 0 then None else Some (i - 1)) i false (i =? 0) []) in
  mkT (map mk [0;1;2;3;4;5;6;7;8;9;10;11;12]
       ++ [(13, mkF (Some 3) 4 false false []); (14, mkF (Some 3) 4 false false []);
           (15, mkF (Some 3) 4 false false []); (16, mkF (Some 1) 2 true false [])])
      [0;1;2;3;4;5;6;7;8;9;10;11;12] [16; 12; 13; 14; 15] [].

Lemma tips_dirty_fork_erased_refuted :
  let t' := finalizeBlocks 40 f10_tree 8 12 1000000 in
  highest_final t' = Some 1 /\ descends 40 t' 16 1 = true /\ flookup (t_blocks t') 16 <> None /\
  ~ In 16 (t_tips t') /\ In 13 (t_tips t').
Proof.
  vm_compute. repeat split; try discriminate; auto.
  intros [H|[H|[H|[H|[]]]]]; discriminate.
Qed.
