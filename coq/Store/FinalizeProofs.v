(** C09 — proofs about the finalization model (FinalizeDefs). *)
From Coq Require Import NArith List Bool Lia.
From VB Require Import Store.FinalizeDefs.
Import ListNotations.
Local Open Scope N_scope.

(* ------------------------------------------------------------------ small list facts *)
Lemma existsb_eqb_In (x : N) (l : list N) : existsb (N.eqb x) l = true <-> In x l.
Proof.
  rewrite existsb_exists. split.
  - intros (y & Hy & E). apply N.eqb_eq in E. now subst.
  - intros H. exists x. split; [exact H|apply N.eqb_refl].
Qed.

Lemma common_prefix_l a : forall b, exists r, a = common_prefix a b ++ r.
Proof.
  induction a as [|x ra IH]; intros b; cbn [common_prefix]; [exists []; reflexivity|].
  destruct b as [|y rb]; [exists (x :: ra); reflexivity|].
  destruct (x =? y); [|exists (x :: ra); reflexivity].
  destruct (IH rb) as [r Hr]. exists r. cbn [app]. now rewrite <- Hr.
Qed.

Lemma common_prefix_r a : forall b, exists r, b = common_prefix a b ++ r.
Proof.
  induction a as [|x ra IH]; intros b; cbn [common_prefix]; [exists b; reflexivity|].
  destruct b as [|y rb]; [exists []; reflexivity|].
  destruct (x =? y) eqn:E; [|exists (y :: rb); reflexivity].
  apply N.eqb_eq in E. subst y. destruct (IH rb) as [r Hr]. exists r. cbn [app]. now rewrite <- Hr.
Qed.

Lemma skipn_app_exact {A} (l r : list A) : skipn (length l) (l ++ r) = r.
Proof. induction l as [|x l IH]; cbn; [reflexivity|exact IH]. Qed.

(* ------------------------------------------------------------------ setState never leaves a final block *)
(* assertBlockCanBeUnapplied: a successful setTip keeps every finalized block of the active chain on it *)
Lemma setTip_keeps_final fuel t to t' b :
  setTip fuel t to = FOk t' -> In b (t_chain t) -> is_final t b = true -> In b (t_chain t').
Proof.
  unfold setTip. destruct (flookup (t_blocks t) to); [|discriminate].
  set (newc := path_to fuel t to []).
  destruct (common_prefix_l (t_chain t) newc) as [dropped Hd].
  destruct (common_prefix_r (t_chain t) newc) as [added Ha].
  set (keep := common_prefix (t_chain t) newc) in *.
  assert (Hskip : skipn (length keep) (t_chain t) = dropped).
  { pose proof (skipn_app_exact keep dropped) as Hs. rewrite <- Hd in Hs. exact Hs. }
  rewrite Hskip.
  destruct (existsb (is_final t) dropped) eqn:Ef; [discriminate|].
  destruct keep as [|k0 kr] eqn:Ek; [discriminate|].
  intros H Hin Hfin. injection H as <-. cbn [t_chain].
  rewrite Hd in Hin. apply in_app_or in Hin. destruct Hin as [Hin|Hin].
  - rewrite Ha. apply in_or_app. now left.
  - exfalso. assert (existsb (is_final t) dropped = true).
    { apply existsb_exists. exists b. split; assumption. }
    congruence.
Qed.

Lemma setTip_blocks fuel t to t' : setTip fuel t to = FOk t' -> t_blocks t' = t_blocks t /\ t_fpidx t' = t_fpidx t.
Proof.
  unfold setTip. destruct (flookup (t_blocks t) to); [|discriminate].
  destruct (existsb _ _); [discriminate|]. destruct (common_prefix _ _); [discriminate|].
  intros H. injection H as <-. split; reflexivity.
Qed.

(* ------------------------------------------------------------------ facts about finalizeBlockImpl *)
Lemma flookup_map_fst {A} (g : N * A -> N * A) (m : list (N * A)) k :
  (forall kb, fst (g kb) = fst kb) -> flookup (map g m) k = option_map (fun v => snd (g (k, v))) (flookup m k).
Proof.
  intros Hg. induction m as [|[k' v] r IH]; cbn [map flookup option_map]; [reflexivity|].
  pose proof (Hg (k', v)) as H1. destruct (g (k', v)) as [k2 v2] eqn:Eg. cbn [fst] in H1. subst k2.
  destruct (k' =? k) eqn:E; [|exact IH]. apply N.eqb_eq in E. subst k'. cbn [option_map]. rewrite Eg. reflexivity.
Qed.

Lemma is_final_mark_final ids bl id chain tips fp chain0 tips0 fp0 :
  is_final (mkT bl chain0 tips0 fp0) id = true -> is_final (mkT (mark_final ids bl) chain tips fp) id = true.
Proof.
  unfold is_final, mark_final. cbn [t_blocks].
  rewrite flookup_map_fst.
  2:{ intros [k v]. cbn [fst snd]. destruct (existsb (N.eqb k) ids); reflexivity. }
  destruct (flookup bl id) as [b|]; cbn [option_map]; [|discriminate].
  cbn [fst snd]. destruct (existsb (N.eqb id) ids); cbn [snd f_final]; auto.
Qed.

Lemma add_payloads_incl t ids : forall idx x, In x idx -> In x (add_payloads t ids idx).
Proof.
  unfold add_payloads. induction ids as [|i r IH]; intros idx x Hx; cbn [fold_left]; [exact Hx|].
  apply IH. apply in_or_app. now left.
Qed.

Lemma add_payloads_has t ids : forall idx id b p,
  In id ids -> flookup (t_blocks t) id = Some b -> In p (f_pl b) -> In (p, id) (add_payloads t ids idx).
Proof.
  unfold add_payloads. induction ids as [|i r IH]; intros idx id b p Hin Hl Hp; cbn [fold_left]; [destruct Hin|].
  destruct Hin as [->|Hin].
  - apply (add_payloads_incl t r). apply in_or_app. right. rewrite Hl. apply in_map_iff. exists p. split; [reflexivity|exact Hp].
  - exact (IH _ id b p Hin Hl Hp).
Qed.

(* the finalized payload index only grows, and every payload id of a block that finalizeBlockImpl finalizes
   while deallocating it (the chain blocks below the new root, fix 057feaed) is in it afterwards *)
Lemma finalize_fpidx_grows fuel t idx preserve x :
  In x (t_fpidx t) -> In x (t_fpidx (finalizeBlockImpl fuel t idx preserve)).
Proof.
  intros Hx. unfold finalizeBlockImpl.
  destruct (idx =? root_of t).
  - destruct (is_final t idx); [exact Hx|]. cbn [t_fpidx]. apply add_payloads_incl. exact Hx.
  - destruct (erase_tips fuel t (t_tips t) (lowest_dirty fuel t idx idx)) as [tips' fin].
    destruct (chain_at t _) as [newRoot|]; [|exact Hx].
    cbn [t_fpidx]. apply add_payloads_incl. apply add_payloads_incl. exact Hx.
Qed.

Lemma finalize_remembers_deallocated fuel t idx preserve :
  (idx =? root_of t) = false ->
  forall tips' fin newRoot rp id b p,
  erase_tips fuel t (t_tips t) (lowest_dirty fuel t idx idx) = (tips', fin) ->
  chain_at t (N.max (height_of t (root_of t)) (height_of t fin - preserve)) = Some newRoot ->
  parent_of t newRoot = Some rp ->
  In id (unfinal_path fuel t rp) -> flookup (t_blocks t) id = Some b -> In p (f_pl b) ->
  In (p, id) (t_fpidx (finalizeBlockImpl fuel t idx preserve)).
Proof.
  intros Hroot tips' fin newRoot rp id b p He Hc Hp Hin Hl Hpl.
  unfold finalizeBlockImpl. rewrite Hroot, He, Hc, Hp. cbn [t_fpidx].
  apply add_payloads_incl. exact (add_payloads_has t _ _ id b p Hin Hl Hpl).
Qed.

(* ------------------------------------------------------------------ the comparator refuses *)
(* TIP_IS_FINAL (2): when the active-chain block next to the fork point is final, comparePopScore answers
   "tip wins" before any payload of the candidate is touched *)
Lemma cmp_refuses_next_final fuel t cand fk nx :
  fork_block fuel t (tip_of t) cand = Some fk ->
  chain_at t (height_of t fk + 1) = Some nx -> is_final t nx = true ->
  cmp_shortcut fuel t cand = Some 1.
Proof.
  intros Hf Hc Hn. unfold cmp_shortcut. destruct (flookup (t_blocks t) cand); [|reflexivity].
  destruct (tip_of t =? cand); [reflexivity|].
  destruct (is_final t (tip_of t) && (height_of t cand <=? height_of t (tip_of t))); [reflexivity|].
  destruct (on_chain t cand); [reflexivity|]. rewrite Hf, Hc, Hn. reflexivity.
Qed.

(* chain invariant: heights along the active chain are consecutive and the finalized blocks form a prefix *)
Fixpoint consecutive (t : ftree) (l : list N) : Prop :=
  match l with
  | [] => True
  | x :: r => match r with [] => True | y :: _ => height_of t y = height_of t x + 1 end /\ consecutive t r
  end.
Fixpoint final_prefix (t : ftree) (l : list N) : Prop :=   (* once a block is not final no later one is *)
  match l with
  | [] => True
  | x :: r => (is_final t x = false -> forall y, In y r -> is_final t y = false) /\ final_prefix t r
  end.

Lemma consecutive_heights t l : consecutive t l ->
  forall x, In x l -> height_of t (hd 0 l) <= height_of t x.
Proof.
  induction l as [|a r IH]; intros Hc x Hin; [destruct Hin|].
  cbn [hd]. destruct Hin as [->|Hin]; [lia|].
  cbn [consecutive] in Hc. destruct Hc as [Hh Hr]. specialize (IH Hr x Hin).
  destruct r as [|y r']; [destruct Hin|]. cbn [hd] in IH. lia.
Qed.

Lemma chain_at_find t l h x :
  find (fun id => height_of t id =? h) l = Some x -> In x l /\ height_of t x = h.
Proof.
  intros H. apply find_some in H. destruct H as [H1 H2]. apply N.eqb_eq in H2. auto.
Qed.

(* in a consecutive list with a final prefix: a block at height <= the height of a final block is final *)
Lemma final_below t l : consecutive t l -> final_prefix t l ->
  forall f x, In f l -> is_final t f = true -> In x l -> height_of t x <= height_of t f -> is_final t x = true.
Proof.
  induction l as [|a r IH]; intros Hc Hp f x Hf Hff Hx Hle; [destruct Hf|].
  cbn [consecutive final_prefix] in *. destruct Hc as [Hh Hcr], Hp as [Hpa Hpr].
  destruct Hx as [->|Hx].
  - destruct (is_final t x) eqn:E; [reflexivity|].
    destruct Hf as [->|Hf]; [congruence|]. rewrite (Hpa eq_refl f Hf) in Hff. discriminate.
  - destruct Hf as [->|Hf].
    + (* f is the head, x is later: x is higher than f *)
      exfalso. pose proof (consecutive_heights t r Hcr x Hx) as H1.
      destruct r as [|y r']; [destruct Hx|]. cbn [hd] in H1. lia.
    + exact (IH Hcr Hpr f x Hf Hff Hx Hle).
Qed.

(* ---- cmp_refuses_below_final: a candidate whose fork point with the active chain lies below a finalized
        block of the chain is refused *)
Lemma cmp_refuses_below_final fuel t cand fk f nx :
  consecutive t (t_chain t) -> final_prefix t (t_chain t) ->
  In f (t_chain t) -> is_final t f = true ->
  fork_block fuel t (tip_of t) cand = Some fk ->
  height_of t fk < height_of t f ->
  chain_at t (height_of t fk + 1) = Some nx ->
  cmp_shortcut fuel t cand = Some 1.
Proof.
  intros Hc Hp Hf Hff Hfk Hlt Hnx.
  apply (cmp_refuses_next_final fuel t cand fk nx Hfk Hnx).
  unfold chain_at in Hnx. destruct (chain_at_find t _ _ _ Hnx) as [Hin Hh].
  apply (final_below t (t_chain t) Hc Hp f nx Hf Hff Hin). lia.
Qed.

(* ------------------------------------------------------------------ isBlockOutdated: the decided cases *)
Lemma outdated_descendant rec fuel t fin cand :
  descends fuel t cand fin = true -> outdated rec fuel t fin cand = false.
Proof.
  unfold descends. intros H. destruct rec; cbn [outdated]; rewrite H; reflexivity.
Qed.

Lemma outdated_below rec fuel t fin cand :
  height_of t cand < height_of t fin -> flookup (t_blocks t) cand <> None -> outdated rec fuel t fin cand = true.
Proof.
  intros Hlt Hin.
  assert (Ha : ancestor_at fuel t cand (height_of t fin) = None).
  { destruct (flookup (t_blocks t) cand) as [b|] eqn:E; [|congruence].
    assert (Hc : (f_height b <? height_of t fin) = true).
    { apply N.ltb_lt. unfold height_of in Hlt at 1. rewrite E in Hlt. exact Hlt. }
    destruct fuel; cbn [ancestor_at]; rewrite E, Hc; reflexivity. }
  apply N.ltb_lt in Hlt.
  destruct rec; cbn [outdated]; rewrite Ha; cbn [opt_eqb]; rewrite Hlt; reflexivity.
Qed.

Lemma outdated_parallel rec fuel t fin cand b :
  flookup (t_blocks t) cand = Some b -> height_of t cand = height_of t fin -> cand <> fin ->
  outdated rec fuel t fin cand = true.
Proof.
  intros Hl Hh Hne.
  assert (Ha : ancestor_at fuel t cand (height_of t fin) = Some cand).
  { assert (Hc : f_height b = height_of t fin).
    { unfold height_of in Hh at 1. rewrite Hl in Hh. exact Hh. }
    destruct fuel; cbn [ancestor_at]; rewrite Hl, Hc, N.ltb_irrefl, N.eqb_refl; reflexivity. }
  assert (Hneq : (cand =? fin) = false) by (apply N.eqb_neq; exact Hne).
  assert (Hneq2 : (fin =? cand) = false) by (apply N.eqb_neq; congruence).
  destruct rec; cbn [outdated]; rewrite Ha; cbn [opt_eqb]; rewrite Hneq, Hh, N.ltb_irrefl, N.eqb_refl, Hneq2;
    reflexivity.
Qed.
