(** C09 — the final-block guard of the POP state machine, as coded, and the variant without it.

    Sources modelled (read from /repo):
      include/veriblock/pop/blockchain/pop/pop_state_machine.hpp
          internal::assertBlockCanBeUnapplied : VBK_ASSERT_MSG(!index.finalized, "cannot unapply finalized block")
          PopStateMachine::unapplyBlock / unapply(from, to): walks from the tip DOWN to the fork point and calls
          unapplyBlock on every block; the assertion is the first statement of unapplyBlock
      include/veriblock/pop/assert.hpp
          VBK_ASSERT_MSG       : checked in EVERY build (-> std::terminate)
          VBK_ASSERT_MSG_DEBUG : expands to nothing when NDEBUG is defined (every Release build)
      include/veriblock/pop/blockchain/base_block_tree.hpp
          removeSubtree(b) / invalidateSubtree(b): `if (activeChain_.contains(&b)) setState(b.pprev)` first; the rest
          of both functions marks / flags the subtree of b, which is off the active chain after that setState

    [guard = true]  is the code as it is: the check is a VBK_ASSERT_MSG, so the outcome of unapplying a finalized
                    block is an explicit abort in every build.
    [guard = false] is the same code with the check compiled out (a VBK_ASSERT_MSG_DEBUG in a Release build).

    Store/FinalizeDefs.v [setTip] is the guarded walk ([setTip_g_true]); Store/FinalizeProofs.v
    [setTip_keeps_final] and Store/FinalizeTheorems.v [final_monotone] are therefore statements about every build
    of the code as it is.  This file adds the walk itself (which block stops it, nothing above it is lost), the
    removeSubtree / invalidateSubtree entry, histories that contain them, and the refutation for [guard = false]. *)
From Coq Require Import NArith List Bool Lia.
From VB Require Import Store.FinalizeDefs Store.FinalizeProofs Store.FinalizeTheorems.
Import ListNotations.
Local Open Scope N_scope.

(* ------------------------------------------------------------------ definitions *)
(* PopStateMachine::unapply: [tipfirst] = the blocks to unapply, tip first *)
Inductive ures := UOk | UAbort (at_ : N).

Fixpoint unapply_walk (guard : bool) (t : ftree) (tipfirst : list N) : ures :=
  match tipfirst with
  | [] => UOk
  | x :: r => if guard && is_final t x then UAbort x else unapply_walk guard t r
  end.

(* setState(to) with the walk spelled out; for [guard = true] this is [setTip] *)
Definition setTip_g (guard : bool) (fuel : nat) (t : ftree) (to : N) : fres :=
  match flookup (t_blocks t) to with
  | None => FAbort
  | Some _ =>
    let newc := path_to fuel t to [] in
    let keep := common_prefix (t_chain t) newc in
    let dropped := skipn (length keep) (t_chain t) in
    match unapply_walk guard t (rev dropped) with
    | UAbort _ => FAbort
    | UOk => match keep with
             | [] => FAbort
             | _ => FOk (mkT (t_blocks t) newc (t_tips t) (t_fpidx t))
             end
    end
  end.

(* the state change of removeSubtree(a) / invalidateSubtree(a): an active block is first left by
   setState(a.pprev); "cannot remove / invalidate the root block" is an assertion of both *)
Definition unapplyFrom (guard : bool) (fuel : nat) (t : ftree) (a : N) : fres :=
  match parent_of t a with
  | None => FAbort
  | Some p => if on_chain t a then setTip_g guard fuel t p else FOk t
  end.

(* histories: the operations of Store/FinalizeTheorems.v plus remove / invalidate *)
Inductive gop :=
| GOp (o : fop)
| GUnapplyFrom (a : N).                  (* removeSubtree(a) / invalidateSubtree(a) *)

Definition gstep (guard : bool) (fuel : nat) (t : ftree) (o : gop) : fres :=
  match o with
  | GOp (FSetTip to) => setTip_g guard fuel t to
  | GOp o' => fstep fuel t o'
  | GUnapplyFrom a => unapplyFrom guard fuel t a
  end.

Fixpoint grun (guard : bool) (fuel : nat) (ops : list gop) (t : ftree) : fres :=
  match ops with
  | [] => FOk t
  | o :: r => match gstep guard fuel t o with FOk t' => grun guard fuel r t' | FAbort => FAbort end
  end.

Definition g_never_readds (b : N) (ops : list gop) : bool :=
  forallb (fun o => match o with GOp (FAdd id _ _) => negb (id =? b) | _ => true end) ops.

(* the demo of seeded/C09-6: main chain 0..20, a stale fork 105 <- 106 on top of block 4, everything saved *)
Definition stale_fork_tree : ftree :=
  let mk := fun (i : N) => (i, mkF (if i =? 0 then None else Some (i - 1)) i false (i =? 0) [100 + i]) in
  mkT (map mk [0;1;2;3;4;5;6;7;8;9;10;11;12;13;14;15;16;17;18;19;20]
       ++ [(105, mkF (Some 4) 5 false false []); (106, mkF (Some 105) 6 false false [])])
      [0;1;2;3;4;5;6;7;8;9;10;11;12;13;14;15;16;17;18;19;20] [20; 106] [].

(* ------------------------------------------------------------------ proofs *)
Lemma unapply_walk_true t l : unapply_walk true t l = UOk <-> existsb (is_final t) l = false.
Proof.
  induction l as [|x r IH]; cbn [unapply_walk existsb andb]; [tauto|].
  destruct (is_final t x); cbn [orb]; [split; discriminate|exact IH].
Qed.

Lemma unapply_walk_false t l : unapply_walk false t l = UOk.
Proof. induction l as [|x r IH]; cbn [unapply_walk andb]; [reflexivity|exact IH]. Qed.

(* the walk stops AT a finalized block and at the first one from the tip: nothing below it is unapplied *)
Lemma unapply_walk_stops t l x :
  unapply_walk true t l = UAbort x ->
  is_final t x = true /\ exists above below, l = above ++ x :: below /\ existsb (is_final t) above = false.
Proof.
  induction l as [|y r IH]; cbn [unapply_walk andb]; [discriminate|].
  destruct (is_final t y) eqn:E.
  - intros H. injection H as <-. split; [exact E|]. exists [], r. split; reflexivity.
  - intros H. destruct (IH H) as (Hf & above & below & -> & Ha). split; [exact Hf|].
    exists (y :: above), below. split; [reflexivity|]. cbn [existsb]. rewrite E, Ha. reflexivity.
Qed.

Lemma existsb_rev {A} (f : A -> bool) l : existsb f (rev l) = existsb f l.
Proof.
  destruct (existsb f l) eqn:E.
  - apply existsb_exists in E. destruct E as (x & Hx & Hf). apply existsb_exists. exists x. split; [|exact Hf].
    apply in_rev. rewrite rev_involutive. exact Hx.
  - destruct (existsb f (rev l)) eqn:E2; [|reflexivity].
    apply existsb_exists in E2. destruct E2 as (x & Hx & Hf). apply in_rev in Hx.
    assert (existsb f l = true) by (apply existsb_exists; exists x; split; assumption). congruence.
Qed.

(* the guarded walk IS the setState of Store/FinalizeDefs.v *)
Lemma setTip_g_true fuel t to : setTip_g true fuel t to = setTip fuel t to.
Proof.
  unfold setTip_g, setTip. destruct (flookup (t_blocks t) to); [|reflexivity].
  set (dropped := skipn _ (t_chain t)).
  destruct (existsb (is_final t) dropped) eqn:E.
  - destruct (unapply_walk true t (rev dropped)) eqn:W; [|reflexivity].
    apply unapply_walk_true in W. rewrite existsb_rev in W. congruence.
  - assert (W : unapply_walk true t (rev dropped) = UOk) by (apply unapply_walk_true; rewrite existsb_rev; exact E).
    rewrite W. reflexivity.
Qed.

(* setState / removeSubtree / invalidateSubtree of the code as it is: success never drops a finalized block *)
Lemma setTip_g_keeps_final fuel t to t' b :
  setTip_g true fuel t to = FOk t' -> In b (t_chain t) -> is_final t b = true -> In b (t_chain t').
Proof. rewrite setTip_g_true. apply setTip_keeps_final. Qed.

Lemma unapplyFrom_keeps_final fuel t a t' b :
  unapplyFrom true fuel t a = FOk t' -> In b (t_chain t) -> is_final t b = true ->
  In b (t_chain t') /\ t_blocks t' = t_blocks t.
Proof.
  unfold unapplyFrom. destruct (parent_of t a) as [p|]; [|discriminate].
  destruct (on_chain t a).
  - rewrite setTip_g_true. intros H Hin Hf. split; [exact (setTip_keeps_final fuel t p t' b H Hin Hf)|].
    exact (proj1 (setTip_blocks fuel t p t' H)).
  - intros H. injection H as <-. auto.
Qed.

(* every finalized active block that the requested walk would have to pass makes the call abort *)
Lemma setTip_g_aborts_on_final fuel t to b :
  In b (t_chain t) -> is_final t b = true ->
  ~ In b (common_prefix (t_chain t) (path_to fuel t to [])) ->
  setTip_g true fuel t to = FAbort.
Proof.
  intros Hin Hf Hnot. rewrite setTip_g_true. unfold setTip.
  destruct (flookup (t_blocks t) to); [|reflexivity].
  set (newc := path_to fuel t to []) in *.
  destruct (common_prefix_l (t_chain t) newc) as [dropped Hd].
  set (keep := common_prefix (t_chain t) newc) in *.
  assert (Hskip : skipn (length keep) (t_chain t) = dropped).
  { pose proof (skipn_app_exact keep dropped) as Hs. rewrite <- Hd in Hs. exact Hs. }
  rewrite Hskip.
  assert (Hb : In b dropped).
  { rewrite Hd in Hin. apply in_app_or in Hin. destruct Hin as [Hin|Hin]; [contradiction|exact Hin]. }
  assert (E : existsb (is_final t) dropped = true) by (apply existsb_exists; exists b; split; assumption).
  rewrite E. reflexivity.
Qed.

(* ---- histories with direct setState, remove and invalidate calls: as [final_monotone] *)
Lemma gstep_monotone fuel t o t' b :
  (match o with GOp (FAdd id _ _) => negb (id =? b) | _ => true end) = true ->
  gstep true fuel t o = FOk t' -> fin_or_gone t b -> fin_or_gone t' b.
Proof.
  intros Hno Hs H. destruct o as [o|a].
  - assert (Hs' : fstep fuel t o = FOk t').
    { destruct o; cbn [gstep fstep] in *; try exact Hs. rewrite <- setTip_g_true. exact Hs. }
    apply (fstep_monotone fuel t o t' b); [destruct o; exact Hno|exact Hs'|exact H].
  - cbn [gstep] in Hs. unfold unapplyFrom in Hs. destruct (parent_of t a) as [p|]; [|discriminate].
    destruct (on_chain t a).
    + rewrite setTip_g_true in Hs.
      exact (fstep_monotone fuel t (FSetTip p) t' b eq_refl Hs H).
    + injection Hs as <-. exact H.
Qed.

Lemma guarded_history_keeps_final fuel ops : forall t t' b,
  g_never_readds b ops = true ->
  In b (t_chain t) -> is_final t b = true ->
  grun true fuel ops t = FOk t' ->
  (In b (t_chain t') /\ is_final t' b = true) \/ flookup (t_blocks t') b = None.
Proof.
  assert (G : forall t t' b, g_never_readds b ops = true -> fin_or_gone t b -> grun true fuel ops t = FOk t' -> fin_or_gone t' b).
  { induction ops as [|o r IH]; intros t t' b Hn H Hr; cbn [grun] in Hr.
    - injection Hr as <-. exact H.
    - cbn [g_never_readds forallb] in Hn. apply andb_true_iff in Hn. destruct Hn as [Hn1 Hn2].
      destruct (gstep true fuel t o) as [t1|] eqn:E; [|discriminate].
      exact (IH t1 t' b Hn2 (gstep_monotone fuel t o t1 b Hn1 E H) Hr). }
  intros t t' b Hn Hin Hf Hr. exact (G t t' b Hn (or_introl (conj Hin Hf)) Hr).
Qed.

(* ---- without the guard the statement is false.  History of seeded/C09-6 (maxReorgBlocks 11, preserve 10):
        finalization at tip 20 makes 0..9 final and keeps the root (9 - 10 < 0), so the stale fork 105 <- 106 on
        block 4 is still in memory.  The code as it is aborts on setState(106), removeSubtree(7),
        invalidateSubtree(9) (and names block 9, the highest finalized block, as the one that stopped the walk);
        with the check compiled out all three "succeed" and finalized blocks are no longer on the active chain. *)
Definition stale_fork_final : ftree := finalizeBlocks 40 stale_fork_tree 11 10 1000000.

Example stale_fork_final_shape :
  highest_final stale_fork_final = Some 9 /\ root_of stale_fork_final = 0 /\ tip_of stale_fork_final = 20 /\
  flookup (t_blocks stale_fork_final) 106 <> None /\ cmp_shortcut 40 stale_fork_final 106 = Some 1.
Proof. vm_compute. repeat split; discriminate. Qed.

Example guard_fires_on_direct_paths :
  setTip_g true 40 stale_fork_final 106 = FAbort /\
  setTip 40 stale_fork_final 106 = FAbort /\
  unapplyFrom true 40 stale_fork_final 7 = FAbort /\
  unapplyFrom true 40 stale_fork_final 9 = FAbort /\
  unapply_walk true stale_fork_final (rev [5;6;7;8;9;10;11;12;13;14;15;16;17;18;19;20]) = UAbort 9 /\
  (* controls: a tip switch / removal that leaves every finalized block active still works *)
  (exists t', setTip_g true 40 stale_fork_final 15 = FOk t' /\ t_chain t' = [0;1;2;3;4;5;6;7;8;9;10;11;12;13;14;15]) /\
  (exists t', unapplyFrom true 40 stale_fork_final 10 = FOk t' /\ tip_of t' = 9).
Proof. vm_compute. repeat split; try reflexivity; eexists; split; reflexivity. Qed.

Lemma final_guard_debug_only_refuted :
  (exists t', setTip_g false 40 stale_fork_final 106 = FOk t' /\
              t_chain t' = [0;1;2;3;4;105;106] /\
              is_final t' 9 = true /\ ~ In 9 (t_chain t') /\ is_final t' 5 = true /\ ~ In 5 (t_chain t')) /\
  (exists t', unapplyFrom false 40 stale_fork_final 7 = FOk t' /\
              tip_of t' = 6 /\ is_final t' 7 = true /\ ~ In 7 (t_chain t') /\ is_final t' 9 = true /\ ~ In 9 (t_chain t')) /\
  (exists t', grun false 40 [GOp (FFinalize 11 10 1000000); GOp (FSetTip 106)] stale_fork_tree = FOk t' /\
              In 9 (t_chain stale_fork_final) /\ is_final t' 9 = true /\ ~ In 9 (t_chain t') /\
              flookup (t_blocks t') 9 <> None) /\
  grun true 40 [GOp (FFinalize 11 10 1000000); GOp (FSetTip 106)] stale_fork_tree = FAbort.
Proof.
  split; [|split; [|split]].
  - eexists. split; [vm_compute; reflexivity|]. vm_compute. repeat split; try reflexivity;
      intros H; repeat (destruct H as [H|H]; [discriminate|]); exact H.
  - eexists. split; [vm_compute; reflexivity|]. vm_compute. repeat split; try reflexivity;
      intros H; repeat (destruct H as [H|H]; [discriminate|]); exact H.
  - eexists. split; [vm_compute; reflexivity|]. vm_compute. repeat split; try reflexivity; try discriminate; auto 20.
    intros H; repeat (destruct H as [H|H]; [discriminate|]); exact H.
  - vm_compute. reflexivity.
Qed.
