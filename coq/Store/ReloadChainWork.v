(** C10 — chain work after a reload, for the saved state of ANY guarded history: the work that loadBlockForward
    recomputes for a tree block is the sum of the block proofs along its parent path in the LIVE tree (which is what
    onBlockInserted accumulated in the running instance, ChainWorkProofs.fold_work_spec), and every tree block of a
    well-formed state has such a path. *)
From Coq Require Import NArith List Bool Lia Permutation.
From VB Require Import Store.SaveLoadDefs Store.SaveLoadProofs Store.SaveLoadTheorems Store.LoadProofs Store.LoadSort.
From VB Require Import Store.ChainWorkDefs Store.ChainWorkProofs Store.ReloadEquiv Store.ReloadLoad.
Import ListNotations.
Local Open Scope N_scope.

(* the persisted view of the tree blocks of the live state *)
Definition pvis (s : state) (k : N) : option pers := option_map b_pers (vis (blocks s) k).

Lemma dumpS_pvis s (HW : wf s) k : lookup (dumpS s) k = pvis s k.
Proof.
  rewrite (dumpS_lookup s), (dumpL_lookup s HW). unfold pvis, vis, visb.
  destruct (lookup (blocks s) k) as [b|]; [|reflexivity]. destruct (deleted b); reflexivity.
Qed.

Section CW.
Variable proof : N -> N.

Lemma reload_chainwork s : wf s ->
  forall id w, has_work proof (pvis s) id w -> work_of (load_work proof (dumpL s)) id = w.
Proof.
  intros HW id w H. unfold load_work. fold (dumpS s).
  destruct (fold_work_spec proof (dumpS s) (topo_ok_pbc _ _ (dumpS_topo s HW))) as [K W].
  unfold work_of. destruct (lookup (fold_left (add_work proof false) (dumpS s) []) id) as [x|] eqn:E.
  - apply W in E. apply (has_work_ext proof _ (pvis s) (dumpS_pvis s HW)) in E.
    exact (has_work_fun proof _ _ _ E _ H).
  - apply K in E. rewrite (dumpS_pvis s HW) in E. inversion H; congruence.
Qed.

Lemma has_work_total s : wf s ->
  forall n id b, vis (blocks s) id = Some b -> (N.to_nat (p_height (b_pers b)) < n)%nat ->
  exists w, has_work proof (pvis s) id w.
Proof.
  intros HW. induction n as [|n IH]; intros id b V Hn; [lia|].
  assert (Hp : pvis s id = Some (b_pers b)) by (unfold pvis; rewrite V; reflexivity).
  destruct (p_parent (b_pers b)) as [par|] eqn:Ep.
  - pose proof V as V0. apply vis_Some in V0. destruct V0 as [L D].
    destruct (wf_parent _ HW id b par L Ep) as (pb & Lp & Hh & Hd). destruct (Hd D) as [Dp _].
    destruct (IH par pb) as [w Hw]; [apply vis_Some; auto|lia|].
    exists (proof id + w). exact (hw_child proof (pvis s) id (b_pers b) par w Hp Ep Hw).
  - exists (proof id). exact (hw_root proof (pvis s) id (b_pers b) Hp Ep).
Qed.

Lemma reload_chainwork_all s : wf s ->
  forall id b, vis (blocks s) id = Some b ->
  exists w, has_work proof (pvis s) id w /\ work_of (load_work proof (dumpL s)) id = w.
Proof.
  intros HW id b V. destruct (has_work_total s HW (S (N.to_nat (p_height (b_pers b)))) id b V) as [w Hw]; [lia|].
  exists w. split; [exact Hw|exact (reload_chainwork s HW id w Hw)].
Qed.

End CW.
