(** C10 — an executable (boolean) version of the caller guarantees [pre] / [guarded] of ReloadEquiv.v, sound
    w.r.t. the propositional one: used to show by computation that concrete histories meet the premises of the
    reload theorems. *)
From Coq Require Import NArith List Bool Lia Permutation.
From VB Require Import Store.SaveLoadDefs Store.SaveLoadProofs Store.ReloadEquiv.
Import ListNotations.
Local Open Scope N_scope.

Fixpoint nodup_b (l : list N) : bool :=
  match l with [] => true | x :: r => negb (existsb (N.eqb x) r) && nodup_b r end.

Lemma nodup_b_sound l : nodup_b l = true -> NoDup l.
Proof.
  induction l as [|x r IH]; cbn [nodup_b]; intros H; [constructor|].
  apply andb_true_iff in H. destruct H as [H1 H2]. constructor; [|exact (IH H2)].
  intros Hin. apply negb_true_iff in H1. assert (existsb (N.eqb x) r = true); [|congruence].
  apply existsb_exists. exists x. split; [exact Hin|apply N.eqb_refl].
Qed.

Definition mem_b (x : N) (l : list N) : bool := existsb (N.eqb x) l.
Lemma mem_b_false x l : mem_b x l = false -> ~ In x l.
Proof.
  intros H Hin. assert (mem_b x l = true); [|congruence].
  apply existsb_exists. exists x. split; [exact Hin|apply N.eqb_refl].
Qed.
Lemma mem_b_true x l : mem_b x l = true -> In x l.
Proof. intros H. apply existsb_exists in H. destruct H as (y & Hy & E). apply N.eqb_eq in E. subst. exact Hy. Qed.

Definition visible_b (m : store) (id : N) : bool := match vis m id with Some _ => true | None => false end.
Lemma visible_b_sound m id : visible_b m id = true -> visible m id.
Proof. unfold visible_b, visible. destruct (vis m id); [discriminate|discriminate]. Qed.

(* all tree blocks satisfy a boolean predicate *)
Definition all_vis (m : store) (P : N -> block -> bool) : bool :=
  forallb (fun kb => deleted (snd kb) || P (fst kb) (snd kb)) m.

Lemma lookup_In_store (m : store) k v : lookup m k = Some v -> In (k, v) m.
Proof.
  induction m as [|[k' v'] r IH]; cbn [lookup]; [discriminate|].
  destruct (k' =? k) eqn:E; [|intros H; right; exact (IH H)].
  apply N.eqb_eq in E. subst k'. intros H. injection H as ->. now left.
Qed.

Lemma all_vis_sound m P : all_vis m P = true -> forall c bc, vis m c = Some bc -> P c bc = true.
Proof.
  intros H c bc V. apply vis_Some in V. destruct V as [L D].
  unfold all_vis in H. rewrite forallb_forall in H. specialize (H (c, bc) (lookup_In_store m c bc L)).
  cbn [fst snd] in H. rewrite D in H. exact H.
Qed.

Definition reason_b (f : flag) : bool := match f with FFailedBlock | FFailedPop => true | _ => false end.

Definition pre_b (s : state) (o : op) : bool :=
  let m := blocks s in
  match o with
  | OInsertHeader id parent =>
      visible_b m parent &&
      match lookup m id with
      | Some b => if deleted b
                  then match p_parent (b_pers b) with Some p => p =? parent | None => false end
                       && negb (s_fblock (bstatus b)) && Bool.eqb (s_fchild (bstatus b)) (parent_failed m parent)
                  else true
      | None => true
      end
  | OSetPayloads id _ => visible_b m id
  | OConnect id => visible_b m id
  | OApply id lvl es =>
      match vis m id with
      | None => false
      | Some b =>
        negb (s_fpop (bstatus b)) && (4 <=? lvl) &&
        match p_parent (b_pers b) with
        | None => true
        | Some par => match vis m par with Some pb => s_active (bstatus pb) | None => false end
        end &&
        nodup_b (map fst (p_ce (b_pers b) ++ es)) &&
        forallb (fun e => match vis m (snd e) with
                          | Some eb => p_height (b_pers eb) <? p_height (b_pers b)
                          | None => false
                          end) es
      end
  | OUnapply id =>
      visible_b m id && negb (id =? tip s) &&
      all_vis m (fun _ bc => match p_parent (b_pers bc) with
                             | Some par => negb (par =? id) || negb (s_active (bstatus bc))
                             | None => true
                             end)
  | OInvalidate id reason desc => reason_b reason && visible_b m id && forallb (visible_b m) desc
  | ORevalidate id reason desc => reason_b reason && visible_b m id && forallb (visible_b m) desc
  | ORemoveSubtree ids =>
      forallb (fun id => match vis m id with
                         | Some b => negb (s_active (bstatus b)) && match p_ce (b_pers b) with [] => true | _ => false end
                         | None => false
                         end) ids &&
      all_vis m (fun c bc =>
                   match p_parent (b_pers bc) with
                   | Some par => negb (mem_b par ids) || mem_b c ids
                   | None => true
                   end &&
                   forallb (fun e => negb (mem_b (snd e) ids)) (p_ce (b_pers bc)))
  | ORemovePayloads id => match vis m id with Some b => negb (s_active (bstatus b)) | None => false end
  | OAddRef id => visible_b m id
  | ORemoveRef id => visible_b m id
  | OSetTip id => match vis m id with Some b => s_active (bstatus b) | None => false end
  | OSave => true
  end.

Lemma pre_b_sound s o : pre_b s o = true -> pre s o.
Proof.
  destruct s as [m t]. destruct o; cbn [pre_b pre blocks tip]; intros H.
  - (* OInsertHeader *)
    apply andb_true_iff in H. destruct H as [H1 H2]. split; [apply visible_b_sound; exact H1|].
    intros b L D. rewrite L, D in H2.
    apply andb_true_iff in H2. destruct H2 as [H2 H3]. apply andb_true_iff in H2. destruct H2 as [H2 H4].
    destruct (p_parent (b_pers b)) as [p|]; [|discriminate]. apply N.eqb_eq in H2. subst p.
    split; [reflexivity|]. split; [apply negb_true_iff; exact H4|apply eqb_prop; exact H3].
  - apply visible_b_sound; exact H.
  - apply visible_b_sound; exact H.
  - (* OApply *)
    destruct (vis m id) as [b|]; [|discriminate]. exists b. split; [reflexivity|].
    apply andb_true_iff in H. destruct H as [H H5]. apply andb_true_iff in H. destruct H as [H H4].
    apply andb_true_iff in H. destruct H as [H H3]. apply andb_true_iff in H. destruct H as [H1 H2].
    split; [apply negb_true_iff; exact H1|]. split; [apply N.leb_le; exact H2|]. split; [|split].
    + intros par Hp. rewrite Hp in H3. destruct (vis m par) as [pb|]; [|discriminate]. exists pb. auto.
    + apply nodup_b_sound. exact H4.
    + intros e He. rewrite forallb_forall in H5. specialize (H5 e He).
      destruct (vis m (snd e)) as [eb|]; [|discriminate]. exists eb. split; [reflexivity|apply N.ltb_lt; exact H5].
  - (* OUnapply *)
    apply andb_true_iff in H. destruct H as [H H3]. apply andb_true_iff in H. destruct H as [H1 H2].
    split; [apply visible_b_sound; exact H1|]. split.
    + apply negb_true_iff in H2. apply N.eqb_neq. exact H2.
    + intros c bc V Hp. pose proof (all_vis_sound m _ H3 c bc V) as H4. cbn beta in H4. rewrite Hp in H4.
      rewrite N.eqb_refl in H4. cbn [negb orb] in H4. apply negb_true_iff. exact H4.
  - (* OInvalidate *)
    apply andb_true_iff in H. destruct H as [H H3]. apply andb_true_iff in H. destruct H as [H1 H2].
    split; [destruct reason; try discriminate; auto|]. split; [apply visible_b_sound; exact H2|].
    apply Forall_forall. intros x Hx. rewrite forallb_forall in H3. apply visible_b_sound. exact (H3 x Hx).
  - (* ORevalidate *)
    apply andb_true_iff in H. destruct H as [H H3]. apply andb_true_iff in H. destruct H as [H1 H2].
    split; [destruct reason; try discriminate; auto|]. split; [apply visible_b_sound; exact H2|].
    apply Forall_forall. intros x Hx. rewrite forallb_forall in H3. apply visible_b_sound. exact (H3 x Hx).
  - (* ORemoveSubtree *)
    apply andb_true_iff in H. destruct H as [H1 H2]. split.
    + intros id Hid. rewrite forallb_forall in H1. specialize (H1 id Hid).
      destruct (vis m id) as [b|]; [|discriminate]. exists b. split; [reflexivity|].
      apply andb_true_iff in H1. destruct H1 as [Ha Hc]. split; [apply negb_true_iff; exact Ha|].
      destruct (p_ce (b_pers b)); [reflexivity|discriminate].
    + intros c bc V. pose proof (all_vis_sound m _ H2 c bc V) as H3. cbn beta in H3.
      apply andb_true_iff in H3. destruct H3 as [H3 H4]. split.
      * intros par Hp Hin. rewrite Hp in H3. apply orb_true_iff in H3. destruct H3 as [H3|H3].
        -- apply negb_true_iff in H3. exfalso. exact (mem_b_false _ _ H3 Hin).
        -- apply mem_b_true. exact H3.
      * intros e He. rewrite forallb_forall in H4. specialize (H4 e He). apply negb_true_iff in H4.
        apply mem_b_false. exact H4.
  - (* ORemovePayloads *)
    destruct (vis m id) as [b|]; [|discriminate]. exists b. split; [reflexivity|apply negb_true_iff; exact H].
  - apply visible_b_sound; exact H.
  - apply visible_b_sound; exact H.
  - destruct (vis m id) as [b|]; [|discriminate]. exists b. auto.
  - exact I.
Qed.

Fixpoint guarded_b (h : list op) (s : state) (st : storage) : bool :=
  match h with
  | [] => true
  | o :: r => pre_b s o && match step prims_fixed o s st with Done s' st' => guarded_b r s' st' | Abort _ => true end
  end.

Lemma guarded_b_sound h : forall s st, guarded_b h s st = true -> guarded h s st.
Proof.
  induction h as [|o r IH]; intros s st H; cbn [guarded_b guarded] in *; [exact I|].
  apply andb_true_iff in H. destruct H as [H1 H2]. split; [apply pre_b_sound; exact H1|].
  destruct (step prims_fixed o s st); [apply IH; exact H2|exact I].
Qed.
