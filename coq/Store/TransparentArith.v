(** C09 — the height arithmetic: the read set of an ATV check lies inside the window finalization retains
    iff preserve >= settle + 2*ki (containing block above the final block; + 1 if the final block itself counts). *)
From Coq Require Import ZArith List Bool Lia.
From VB Require Import Score.KeystoneDefs Store.TransparentDefs.
Import ListNotations.
Local Open Scope Z_scope.
Ltac Zify.zify_post_hook ::= Z.div_mod_to_equations.

(* ---- the keystone functions: first <= he - 2, second = first - ki, both clamped at 0 *)
Lemma floor_bounds x ki : 0 < ki -> x - ki < ki * (x / ki) <= x.
Proof.
  intros Hk. pose proof (Z.div_mod x ki ltac:(lia)) as D. pose proof (Z.mod_pos_bound x ki Hk) as B.
  generalize dependent (x / ki). generalize dependent (x mod ki). intros. lia.
Qed.

Lemma first_keystone_bounds ki he : 0 < ki -> 0 <= he ->
  0 <= atv_first_keystone ki he /\ he - ki - 1 <= atv_first_keystone ki he /\
  (2 <= he -> atv_first_keystone ki he <= he - 2).
Proof.
  intros Hk Hh. unfold atv_first_keystone, m_previousKeystone.
  pose proof (floor_bounds (he - 2) ki Hk) as F. set (q := ki * ((he - 2) / ki)) in *. clearbody q.
  replace (1 + 0 * ki) with 1 by ring. replace (q - 0 * ki) with q by ring.
  destruct (Z.leb_spec he 1); lia.
Qed.

Lemma second_keystone_bounds ki he : 0 < ki -> 0 <= he ->
  0 <= atv_second_keystone ki he /\ he - 2 * ki - 1 <= atv_second_keystone ki he /\
  atv_second_keystone ki he <= atv_first_keystone ki he.
Proof.
  intros Hk Hh. unfold atv_second_keystone, atv_first_keystone, m_previousKeystone.
  pose proof (floor_bounds (he - 2) ki Hk) as F. set (q := ki * ((he - 2) / ki)) in *. clearbody q.
  replace (1 + 0 * ki) with 1 by ring. replace (q - 0 * ki) with q by ring.
  replace (1 * ki) with ki by ring.
  destruct (Z.leb_spec he (1 + ki)); destruct (Z.leb_spec he 1); lia.
Qed.

(* every block the check touches explicitly is in the interval [second keystone .. containing block] *)
Lemma atv_read_marks_in_reads ki hc he h :
  0 < ki -> 1 <= he -> he <= hc -> In h (atv_read_marks ki hc he) -> atv_reads ki hc he h.
Proof.
  intros Hk H1 Hc Hin. unfold atv_reads.
  destruct (first_keystone_bounds ki he Hk ltac:(lia)) as (F0 & F1 & F2).
  destruct (second_keystone_bounds ki he Hk ltac:(lia)) as (S0 & S1 & S2).
  assert (Hf : atv_first_keystone ki he <= he - 1).
  { destruct (Z.le_gt_cases 2 he) as [H2|H2]; [specialize (F2 H2); lia|].
    assert (he = 1) by lia. subst he. unfold atv_first_keystone, m_previousKeystone.
    replace (1 + 0 * ki) with 1 by ring. reflexivity. }
  unfold atv_read_marks in Hin. cbn [In] in Hin.
  destruct Hin as [<-|[<-|[<-|[<-|[<-|[]]]]]]; lia.
Qed.

(* ---- item 3: the whole read set lies in the retained window *)
Lemma reads_within_window strict ki settle preserve :
  0 < ki -> least_preserve strict ki settle <= preserve -> reads_in_window strict ki settle preserve.
Proof.
  intros Hk Hp rootH tipH maxReorg hc he h (Hr & Hm & Hre & Hec & Hs & Hf) [Hlo Hhi] Hroot.
  destruct (second_keystone_bounds ki he Hk ltac:(lia)) as (S0 & S1 & _).
  unfold retained_low. unfold least_preserve in Hp.
  set (hf := final_height rootH tipH maxReorg) in *. clearbody hf.
  destruct strict; lia.
Qed.

(* ---- a miss for every smaller window: endorsed block 3*ki + 1 (previous keystones 2*ki and ki), containing block
        settle above it, final block = containing block (or the block below it when strict) *)
Lemma second_keystone_witness ki : 0 < ki -> atv_second_keystone ki (3 * ki + 1) = ki.
Proof.
  intros Hk. unfold atv_second_keystone, m_previousKeystone.
  destruct (Z.leb_spec (3 * ki + 1) (1 + 1 * ki)); [lia|].
  assert (Hq : (3 * ki + 1 - 2) / ki = 2).
  { symmetry. apply (Z.div_unique (3 * ki + 1 - 2) ki 2 (ki - 1)); lia. }
  rewrite Hq. lia.
Qed.

Lemma window_miss_below strict ki settle preserve :
  0 < ki -> 0 <= settle -> preserve < least_preserve strict ki settle ->
  let he := 3 * ki + 1 in
  let hc := he + settle in
  let hf := if strict then hc - 1 else hc in
  window_miss strict ki settle preserve 0 (hf + settle + 1) (settle + 1) hc he.
Proof.
  intros Hk Hs Hp he hc hf. unfold window_miss, atv_situation, retained_low, final_height.
  subst he. rewrite (second_keystone_witness ki Hk). unfold least_preserve in Hp.
  subst hf hc. destruct strict; repeat split; lia.
Qed.

Lemma least_bound_tight strict ki settle :
  0 < ki -> 0 <= settle ->
  exists rootH tipH maxReorg hc he,
    window_miss strict ki settle (least_preserve strict ki settle - 1) rootH tipH maxReorg hc he.
Proof.
  intros Hk Hs. do 5 eexists. apply (window_miss_below strict ki settle); lia.
Qed.

Lemma window_miss_not_in_window strict ki settle preserve rootH tipH maxReorg hc he :
  0 < ki ->
  window_miss strict ki settle preserve rootH tipH maxReorg hc he -> ~ reads_in_window strict ki settle preserve.
Proof.
  intros Hk (Hsit & Hr & Hlt) Hw.
  pose proof Hsit as (H0 & Hm & Hre & Hec & Hs & Hf).
  specialize (Hw rootH tipH maxReorg hc he (atv_second_keystone ki he) Hsit).
  destruct (second_keystone_bounds ki he Hk ltac:(lia)) as (S0 & S1 & S2).
  destruct (first_keystone_bounds ki he Hk ltac:(lia)) as (F0 & F1 & F2).
  assert (Hle : atv_second_keystone ki he <= hc).
  { destruct (Z.le_gt_cases 2 he) as [H2|H2]; [specialize (F2 H2); lia|].
    assert (E : atv_second_keystone ki he = 0).
    { unfold atv_second_keystone, m_previousKeystone. destruct (Z.leb_spec he (1 + 1 * ki)); [reflexivity|lia]. }
    lia. }
  assert (Hrd : atv_reads ki hc he (atv_second_keystone ki he)) by (unfold atv_reads; lia).
  specialize (Hw Hrd Hr). lia.
Qed.

(* the exact least bound *)
Lemma reads_in_window_iff strict ki settle preserve :
  0 < ki -> 0 <= settle ->
  (reads_in_window strict ki settle preserve <-> least_preserve strict ki settle <= preserve).
Proof.
  intros Hk Hs. split.
  - intros Hw. destruct (Z.le_gt_cases (least_preserve strict ki settle) preserve) as [H|H]; [exact H|].
    exfalso. exact (window_miss_not_in_window _ _ _ _ _ _ _ _ _ Hk (window_miss_below strict ki settle preserve Hk Hs H) Hw).
  - apply reads_within_window. exact Hk.
Qed.

(* ---- item 4: the relation the parameters assert (preserve >= settle), at equality, never suffices *)
Lemma preserve_equals_settle_misses strict ki settle :
  0 < ki -> 0 <= settle ->
  (exists rootH tipH maxReorg hc he, window_miss strict ki settle settle rootH tipH maxReorg hc he) /\
  ~ reads_in_window strict ki settle settle.
Proof.
  intros Hk Hs.
  assert (Hp : settle < least_preserve strict ki settle) by (unfold least_preserve; destruct strict; lia).
  pose proof (window_miss_below strict ki settle settle Hk Hs Hp) as Hm. cbv zeta in Hm.
  split; [do 5 eexists; exact Hm|].
  exact (window_miss_not_in_window _ _ _ _ _ _ _ _ _ Hk Hm).
Qed.

(* the parameters of corpus/C09/F12_ctx_keystone_dealloc.json: ki 3, settle = preserve = 4, maxReorg 8; at tip 20 the
   final block is 12 and the new root 8; block 13 may carry an ATV endorsing block 9 whose previous keystones are
   6 and 3 *)
Lemma preserve_equals_settle_concrete :
  final_height 0 20 8 = 12 /\ retained_low 0 20 8 4 = 8 /\
  atv_first_keystone 3 9 = 6 /\ atv_second_keystone 3 9 = 3 /\
  window_miss true 3 4 4 0 20 8 13 9.
Proof. vm_compute. repeat split; congruence. Qed.

(* ---- payouts: getPopPayout(tip) reads tip - (delay - 1) - avg .. tip *)
Lemma payout_reads_within_window delay avg preserve rootH tipH maxReorg h :
  0 <= preserve -> maxReorg <= tipH -> delay - 1 + avg <= maxReorg + preserve ->
  payout_reads delay avg tipH h -> rootH <= h -> retained_low rootH tipH maxReorg preserve <= h.
Proof. unfold payout_reads, retained_low, final_height. lia. Qed.

Lemma payout_bound_tight delay avg maxReorg preserve :
  1 <= delay -> 0 <= avg -> 0 <= maxReorg -> 0 <= preserve -> maxReorg + preserve < delay - 1 + avg ->
  let tipH := delay + avg + maxReorg in
  let h := tipH - (delay - 1) - avg in
  maxReorg <= tipH /\ payout_reads delay avg tipH h /\ 0 <= h /\ h < retained_low 0 tipH maxReorg preserve.
Proof. intros. subst tipH h. unfold payout_reads, retained_low, final_height. lia. Qed.
