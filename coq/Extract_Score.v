Require Extraction.
Require Import ExtrOcamlBasic.
From Coq Require Import ZArith NArith List.
From VB Require Import Score.CInt Gen.KeystoneGen Gen.ScoreParams Score.KeystoneDefs Score.CmpDefs Score.ViewDefs.
Extraction "Score_model.ml" Nat.pred N.succ Z.succ
  ktx ktx_spec adjust impl spec pub_profile inf_profile real_view holes_view enc_view outer_cmp
  highestKeystoneAtOrBefore blockHeightToKeystoneNumber isKeystone firstKeystoneAfter
  highestBlockWhichConnectsKeystoneToPrevious isCrossedKeystoneBoundary areOnSameKeystoneInterval
  getPreviousKeystoneHeight
  m_keystoneNumber m_highestKeystoneAtOrBefore m_isKeystone m_firstKeystoneAfter m_highestConnecting
  m_crossed m_sameInterval m_previousKeystone view_size
  alt_keystone_interval alt_finality_delay alt_fr_table vbk_keystone_interval vbk_finality_delay vbk_fr_table.
