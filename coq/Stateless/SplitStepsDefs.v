(** containsSplit (src/pop/stateless_validation.cpp:80-185) with an explicit iteration counter and a
    work counter, over the SAME building blocks as Stateless/EmbedDefs.v ([chunk_step],
    [decode_desc], [table_bits], ...). Executable; NO proofs in this file.

    Work units (one unit = one byte / bit / element touched by the C++):
    * scan loop: one unit per byte read by VBK_COMPARE_MAGIC (1..3 per iteration);
    * attempt at one magic occurrence: 1 (descriptor byte) + 9 * chunkDescriptorBytesLength
      (out.reverse() touches every byte once, the bitset loop pushes 8 bits per byte);
    * chunk loop: per iteration 1 + the number of bits both getIntFromBits calls visit + the
      number of bytes [extracted.insert] copies;
    * [pop_data == extracted]: charged |pop_data| (operator== compares the sizes first).

    The scan loop is ONE function [scan_step] (state = buffer.position() at the loop head), iterated
    by [scan_run]; running out of fuel is a constructor of its own ([OutOfFuel]), so
    "the fuel given by [containsSplit] suffices" is a statement (SplitSteps.v).
    [rewind = true] is the variant that takes [lastPos] at the TOP of the loop body (before the
    magic) instead of after the three magic bytes. *)
From Coq Require Import ZArith List Bool.
From VB Require Import Stateless.EmbedDefs.
Import ListNotations.
Local Open Scope Z_scope.

Section ChunksW.
  Variable guard : bool.
  Variables (tx : list Z) (datalen : Z) (bits : list bool).
  Variables (offsetLength sectionLength waste cdl : Z).

  (** bits visited by the getIntFromBits calls of chunk iteration [i] ([for j = from; j < to]) *)
  Definition step_bits (i : Z) : Z :=
    let co := u32 (waste + u32 (i * u32 (offsetLength + sectionLength))) in
    Z.max 0 (Z.min cdl (u32 (co + offsetLength)) - co)
    + (if i =? 0 then 0 else Z.max 0 (co - u32 (co - sectionLength))).

  (** [chunk_loop] of EmbedDefs.v, returning additionally (iterations entered, work) *)
  Fixpoint chunk_loop_w (k : nat) (pos total : Z) (acc : list Z) : chunk_res * Z :=
    match k with
    | O => (CDone acc, 0)
    | S k' =>
      let c := 1 + step_bits (Z.of_nat k') in
      match chunk_step guard tx datalen bits offsetLength sectionLength waste cdl (Z.of_nat k') pos total with
      | SInvalid r => (CInvalid r, c)
      | SOobBits => (COobBits, c)
      | SOobBuf => (COobBuf, c)
      | SOk pos' len =>
        let '(r, w) := chunk_loop_w k' (u64 (pos' + len)) (i32 (total + len)) (acc ++ slice tx pos' len) in
        (r, c + len + w)
      end
    end.
End ChunksW.

(** [try_descriptor_gen] with its work *)
Definition try_descriptor_w (guard : bool) (data tx : list Z) (p : Z) : attempt * Z :=
  let '(chunks, offsetLength, sectionLength) := decode_desc (byte_at tx p) in
  let bl := desc_bit_length chunks offsetLength sectionLength in
  let bytesLen := desc_bytes_length bl in
  let waste := desc_waste bytesLen bl in
  if zlen tx - (p + 1) <? bytesLen then (Invalid 1, 1)
  else
    let bits := table_bits (slice tx (p + 1) bytesLen) in
    let cdl := last_set bits in
    let k := Z.to_nat (i32 (u32 (chunks - 1)) + 1) in
    let w0 := 1 + 9 * bytesLen in
    match chunk_loop_w guard tx (zlen data) bits offsetLength sectionLength waste cdl k 0 0 [] with
    | (CInvalid r, w) => (Invalid r, w0 + w)
    | (COobBits, w) => (OobBits, w0 + w)
    | (COobBuf, w) => (OobBuf, w0 + w)
    | (CDone extracted, w) => (if list_eqb data extracted then Found else NotFound, w0 + w + zlen data)
    end.

(** one evaluation of the loop head + body of [while (buffer.remaining() > 5)] from position [pos] *)
Inductive step_out :=
| Continue (pos' : Z) (work : Z)      (* back to the loop head with buffer.position() = pos' *)
| Stop (v : verdict) (work : Z).      (* loop condition false, or a return inside the body *)

Definition scan_step (rewind guard : bool) (data tx : list Z) (pos : Z) : step_out :=
  if zlen tx - pos <=? 5 then Stop (VFalse 0) 0
  else if negb (byte_at tx pos =? 146) then Continue (pos + 1) 1
  else if negb (byte_at tx (pos + 1) =? 122) then Continue (pos + 2) 2
  else if negb (byte_at tx (pos + 2) =? 89) then Continue (pos + 3) 3
  else
    let '(a, wa) := try_descriptor_w guard data tx (pos + 3) in
    match a with
    | Found => Stop VTrue (3 + wa)
    | Invalid r => Stop (VFalse r) (3 + wa)
    | OobBits => Stop VOobBits (3 + wa)
    | OobBuf => Stop VOobBuf (3 + wa)
    | NotFound => Continue (if rewind then pos else pos + 3) (3 + wa)   (* buffer.setPosition(lastPos) *)
    end.

(** the termination measure: bytes remaining behind the position of the loop head *)
Definition scan_measure (tx : list Z) (pos : Z) : Z := zlen tx - pos.

Inductive sres :=
| Done (v : verdict) (iters : Z) (work : Z)   (* [iters] = evaluations of the loop head *)
| OutOfFuel.

Fixpoint scan_run (rewind guard : bool) (data tx : list Z) (pos : Z) (fuel : nat) : sres :=
  match fuel with
  | O => OutOfFuel
  | S f =>
    match scan_step rewind guard data tx pos with
    | Stop v w => Done v 1 w
    | Continue pos' w =>
      match scan_run rewind guard data tx pos' f with
      | Done v n wk => Done v (n + 1) (wk + w)
      | OutOfFuel => OutOfFuel
      end
    end
  end.

(** containsSplit as coded, counted; it is given the fuel of [EmbedDefs.containsSplit] *)
Definition containsSplit_w (data tx : list Z) : sres := scan_run false true data tx 0 (S (length tx)).
(** the variant with [lastPos = buffer.position()] moved to the top of the loop body *)
Definition containsSplit_rewind (data tx : list Z) (fuel : nat) : sres := scan_run true true data tx 0 fuel.

(** bound on the work of one attempt: 1 + 9*43 descriptor table, 15 chunk iterations of at most
    1 + 16 + 7 bit reads and 127 copied bytes, the last chunk and the comparison |data| each *)
Definition attempt_bound (datalen : Z) : Z := 2653 + 2 * datalen.

(** the finite sweep behind the constants: for every descriptor byte, the table has at most 43 bytes
    and every chunk's offset field is at most 16 bits, its length field at most 7 bits *)
Definition step_bounds_w (o s w i : Z) : bool :=
  let co := u32 (w + u32 (i * u32 (o + s))) in
  (u32 (co + o) - co <=? 16) && ((i =? 0) || (co - u32 (co - s) <=? 7)).
Definition desc_bounds_w (d : Z) : bool :=
  let '(n, o, s) := decode_desc d in
  let bl := desc_bit_length n o s in
  let B := desc_bytes_length bl in
  let w := desc_waste B bl in
  (0 <=? B) && (B <=? 43) && forallb (step_bounds_w o s w) (map Z.of_nat (seq 0 (Z.to_nat n))).

(** witness of the non-progress of the rewinding variant: 92 7a 59 10 00 and 80 zero bytes — one chunk
    at offset 0 of length |data| = 80 is extracted, differs from the data, and the scan is sent back *)
Definition rewind_data : list Z := map Z.of_nat (seq 1 80).
Definition rewind_tx : list Z := [146; 122; 89; 16; 0] ++ repeat 0 80.
