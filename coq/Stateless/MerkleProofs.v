(** Proofs about the Merkle path checks (model: MerkleDefs.v). *)
From Coq Require Import ZArith List Bool Lia Arith.
From VB Require Import Stateless.EmbedDefs Stateless.EmbedProofs Stateless.MerkleDefs.
Import ListNotations.
Local Open Scope Z_scope.

Section MerkleP.
  Variables sha256d sha256 : list Z -> list Z.

  Lemma btc_fold_spec : forall layers cursor index i,
    0 <= i -> btc_fold sha256d cursor (Z.shiftr index i) layers = btc_spec sha256d cursor index i layers.
  Proof.
    induction layers as [|l r IH]; intros cursor index i Hi; cbn [btc_fold btc_spec]; [reflexivity|].
    rewrite <- Z.testbit_odd. rewrite Z.shiftr_shiftr by lia. apply IH. lia.
  Qed.

  Lemma btc_root_spec subject index layers :
    btc_merkle_root sha256d subject index layers = btc_spec sha256d subject index 0 layers.
  Proof. unfold btc_merkle_root. rewrite <- btc_fold_spec by lia. rewrite Z.shiftr_0_r. reflexivity. Qed.

  Lemma vbk_fold_spec treeIndex index size : forall layers cursor li i,
    (i + length layers = size)%nat ->
    ((i + 2 < size)%nat -> li = Z.shiftr index (Z.of_nat i)) ->
    vbk_fold sha256 treeIndex size cursor li i layers = vbk_spec sha256 treeIndex index size cursor i layers.
  Proof.
    induction layers as [|l r IH]; intros cursor li i Hlen Hli; cbn [vbk_fold vbk_spec]; [reflexivity|].
    cbn [length] in Hlen. unfold vbk_side.
    destruct (Nat.eqb_spec i (size - 1)) as [E1|E1].
    - cbn [Z.odd]. apply IH; [lia|]. intros. lia.
    - destruct ((2 <=? size)%nat && (i =? size - 2)%nat) eqn:E2.
      + apply IH; [lia|]. apply andb_prop in E2. destruct E2 as [_ E2]. apply Nat.eqb_eq in E2. intros. lia.
      + assert (Hlt : (i + 2 < size)%nat).
        { apply andb_false_iff in E2. destruct E2 as [E2|E2].
          - apply Nat.leb_gt in E2. lia.
          - apply Nat.eqb_neq in E2. lia. }
        rewrite (Hli Hlt). rewrite <- Z.testbit_odd. apply IH; [lia|].
        intros _. rewrite Z.shiftr_shiftr by lia. f_equal. lia.
  Qed.

  Lemma vbk_root_spec subject treeIndex index layers :
    vbk_merkle_root sha256 subject treeIndex index layers =
    firstn 16 (vbk_spec sha256 treeIndex index (length layers) subject 0 layers).
  Proof.
    unfold vbk_merkle_root. f_equal. apply vbk_fold_spec; [reflexivity|].
    intros _. change (Z.of_nat 0) with 0. rewrite Z.shiftr_0_r. reflexivity.
  Qed.

  (** check passes => the path's subject is the transaction hash and folding the path (layer i on
      the side given by bit i of the index; VBK: tree-index and metapackage layers on top, root
      trimmed to 16 bytes) yields the expected root *)
  Lemma merkle_sound_btc subject index layers txhash root :
    check_merkle_btc sha256d subject index layers txhash root = true ->
    subject = txhash /\ btc_spec sha256d subject index 0 layers = root.
  Proof.
    unfold check_merkle_btc. destruct (list_eqb subject txhash) eqn:E; cbn [negb]; [|discriminate].
    intros H. split; [apply list_eqb_eq; exact E|]. rewrite <- btc_root_spec. apply list_eqb_eq. exact H.
  Qed.

  Lemma merkle_sound_vbk subject treeIndex index layers txhash root :
    check_merkle_vbk sha256 subject treeIndex index layers txhash root = true ->
    subject = txhash /\
    firstn 16 (vbk_spec sha256 treeIndex index (length layers) subject 0 layers) = root.
  Proof.
    unfold check_merkle_vbk. destruct (list_eqb subject txhash) eqn:E; cbn [negb]; [|discriminate].
    intros H. split; [apply list_eqb_eq; exact E|]. rewrite <- vbk_root_spec. apply list_eqb_eq. exact H.
  Qed.

  Lemma merkle_complete_btc subject index layers :
    check_merkle_btc sha256d subject index layers subject (btc_spec sha256d subject index 0 layers) = true.
  Proof. unfold check_merkle_btc. rewrite list_eqb_refl. cbn [negb]. rewrite btc_root_spec. apply list_eqb_refl. Qed.

  Lemma merkle_complete_vbk subject treeIndex index layers :
    check_merkle_vbk sha256 subject treeIndex index layers subject
      (firstn 16 (vbk_spec sha256 treeIndex index (length layers) subject 0 layers)) = true.
  Proof. unfold check_merkle_vbk. rewrite list_eqb_refl. cbn [negb]. rewrite vbk_root_spec. apply list_eqb_refl. Qed.

  (** which index bits matter (justifies the "semantically neutral" index mutations of the
      correspondence run): BTC: only bits below the number of layers *)
  Lemma btc_spec_index_low : forall layers cursor index index' i,
    0 <= i ->
    (forall k, i <= k < i + Z.of_nat (length layers) -> Z.testbit index k = Z.testbit index' k) ->
    btc_spec sha256d cursor index i layers = btc_spec sha256d cursor index' i layers.
  Proof.
    induction layers as [|l r IH]; intros cursor index index' i Hi H; cbn [btc_spec]; [reflexivity|].
    cbn [length] in H. rewrite (H i) by lia. apply IH; [lia|]. intros k Hk. apply H. lia.
  Qed.
End MerkleP.
