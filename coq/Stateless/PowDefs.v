(** checkProofOfWork (both overloads) and checkVbkBlockPlausibility of
    src/pop/stateless_validation.cpp with every clause as coded. Only the block hash stays an
    oracle: it enters as the 256-bit number ArithUint256::fromLEBytes(block.getHash()).
    [fromBits] is the proved compact decoder of Arith/CompactDefs.v. Executable; no proofs. *)
From Coq Require Import ZArith Bool.
From VB Require Import Arith.CompactDefs Stateless.EmbedDefs.
Local Open Scope Z_scope.

(** BTC: [bits] = block.getDifficulty() (uint32), [powLimit] = ArithUint256(param.getPowLimit()) *)
Definition pow_btc (powLimit bits hash : Z) : bool :=
  let '(target, negative, overflow) := fromBits bits in
  if negative || overflow || (target =? 0) || (powLimit <? target) then false
  else negb (target <? hash).  (* not (blockHash > target) *)

(** VBK: [bits] = (uint32_t) block.getDifficulty() (an int32 compact difficulty, not a target),
    [maxd] = VBK_MAXIMUM_DIFFICULTY, [minDiff] = ArithUint256(param.getMinimumDifficulty()) *)
Definition pow_vbk (maxd minDiff bits hash : Z) : bool :=
  let '(target, negative, overflow) := fromBits bits in
  if negative || overflow || (target =? 0) || (target <? minDiff) then false
  else negb (maxd / target <? hash).  (* target = max / target; not (hash > target) *)

Definition vbk_max_difficulty : Z := 2 ^ 192 - 1.

(** checkVbkBlockPlausibility: 0 ok, 1 height-too-low, 2 height-too-high, 3 timestamp-too-low,
    4 timestamp-upper-bound, 5 timestamp-lower-bound. [height] int32, [timestamp] uint32,
    [forkHeight] int, [startTime]/[blockTime] uint32. The bounds are computed in uint64 and
    truncated into uint32 variables exactly as the C++ does. *)
Definition vbk_plausibility (forkHeight startTime blockTime : Z) (enabled : bool) (height timestamp : Z) : Z :=
  if height <? forkHeight then 1
  else if 4096 <=? u32 (Z.quot height 8000) then 2
  else if negb enabled then 0
  else if timestamp <? startTime then 3
  else
    let span := u64 (u64 blockTime * u64 (height - forkHeight)) in
    let upper := u32 (u64 (u64 (startTime + u64 (u64 (span * 12) / 10)) + 432000)) in
    let lower0 := u32 (u64 (u64 (startTime + u64 (u64 (span * 10) / 12)) - 432000)) in
    let lower := Z.max lower0 startTime in
    if upper <? timestamp then 4
    else if timestamp <? lower then 5
    else 0.
