(** Clause-level soundness of the proof-of-work checks and their use in the pipelines. *)
From Coq Require Import ZArith List Bool Lia.
From VB Require Gen.Consts.
From VB Require Import Arith.CompactDefs Stateless.EmbedDefs Stateless.EmbedProofs Stateless.MerkleDefs
     Stateless.CheckDefs Stateless.CheckProofs Stateless.PowDefs.
Import ListNotations.
Local Open Scope Z_scope.

(** what a valid BTC header means: the compact target is a proper positive number not above the
    network's pow limit and the hash does not exceed it *)
Definition btc_pow_facts (powLimit bits hash : Z) : Prop :=
  let '(target, negative, overflow) := fromBits bits in
  negative = false /\ overflow = false /\ target <> 0 /\ target <= powLimit /\ hash <= target.

Lemma pow_btc_sound powLimit bits hash : pow_btc powLimit bits hash = true -> btc_pow_facts powLimit bits hash.
Proof.
  unfold pow_btc, btc_pow_facts. destruct (fromBits bits) as [[t neg] ovf].
  destruct neg, ovf; cbn [orb]; try discriminate.
  destruct (Z.eqb_spec t 0); cbn [orb]; try discriminate.
  destruct (Z.ltb_spec powLimit t); try discriminate.
  destruct (Z.ltb_spec t hash); cbn [negb]; try discriminate.
  intros _. repeat split; auto; lia.
Qed.

Lemma pow_btc_complete powLimit bits hash : btc_pow_facts powLimit bits hash -> pow_btc powLimit bits hash = true.
Proof.
  unfold pow_btc, btc_pow_facts. destruct (fromBits bits) as [[t neg] ovf].
  intros (-> & -> & H0 & H1 & H2). cbn [orb].
  destruct (Z.eqb_spec t 0); [contradiction|]. cbn [orb].
  destruct (Z.ltb_spec powLimit t); [lia|]. destruct (Z.ltb_spec t hash); [lia|]. reflexivity.
Qed.

Definition vbk_pow_facts (maxd minDiff bits hash : Z) : Prop :=
  let '(target, negative, overflow) := fromBits bits in
  negative = false /\ overflow = false /\ target <> 0 /\ minDiff <= target /\ hash <= maxd / target.

Lemma pow_vbk_sound maxd minDiff bits hash : pow_vbk maxd minDiff bits hash = true -> vbk_pow_facts maxd minDiff bits hash.
Proof.
  unfold pow_vbk, vbk_pow_facts. destruct (fromBits bits) as [[t neg] ovf].
  destruct neg, ovf; cbn [orb]; try discriminate.
  destruct (Z.eqb_spec t 0); cbn [orb]; try discriminate.
  destruct (Z.ltb_spec t minDiff); try discriminate.
  destruct (Z.ltb_spec (maxd / t) hash); cbn [negb]; try discriminate.
  intros _. repeat split; auto; lia.
Qed.

(** a negative or overflowing compact value, a zero target, or a target above the pow limit is
    rejected whatever the hash is *)
Lemma pow_btc_target_bound powLimit bits hash :
  powLimit < fst (fst (fromBits bits)) -> pow_btc powLimit bits hash = false.
Proof.
  unfold pow_btc. destruct (fromBits bits) as [[t neg] ovf]. cbn [fst]. intros H.
  destruct (Z.ltb_spec powLimit t); [|lia]. rewrite !orb_true_r. reflexivity.
Qed.

(** the Bitcoin side of a VTB with the PoW clauses spelled out: every carried context header has a
    proper target <= pow limit and hash <= target, and the headers are linked *)
Lemma btc_context_pow_sound (BtcBlock : Type) (btc_hash btc_prev : BtcBlock -> list Z)
      (btc_bits btc_hashnum : BtcBlock -> Z) (powLimit : Z)
      (sha256d : list Z -> list Z) (verify : list Z -> list Z -> list Z -> bool)
      (addr_from_pubkey addr_checksum : list Z -> list Z) (vbk_magic : option Z) (t : VbkPopTx BtcBlock) :
  zlen (p_btctx BtcBlock t) < 2 ^ 64 ->
  check_vbk_pop_tx BtcBlock btc_hash btc_prev (fun b => pow_btc powLimit (btc_bits b) (btc_hashnum b))
                   sha256d verify addr_from_pubkey addr_checksum vbk_magic t = Ok ->
  Forall (fun b => btc_pow_facts powLimit (btc_bits b) (btc_hashnum b)) (p_context BtcBlock t) /\
  btc_linked BtcBlock btc_hash btc_prev (p_context BtcBlock t).
Proof.
  intros Hsz H. apply btc_context_sound in H; [|exact Hsz].
  destruct H as (_ & _ & _ & _ & Hp & Hl). split; [|exact Hl].
  eapply Forall_impl; [|exact Hp]. intros b Hb. apply pow_btc_sound. exact Hb.
Qed.

(** stand-alone VBK headers: plausibility clauses and the difficulty clauses *)
Lemma vbk_blocks_pow_sound (VbkBlock : Type) (vbk_height : VbkBlock -> Z) (vbk_hash_trim vbk_prev : VbkBlock -> list Z)
      (vbk_time vbk_bits vbk_hashnum : VbkBlock -> Z) (forkHeight startTime blockTime : Z) (enabled : bool)
      (maxd minDiff : Z) (bs : list VbkBlock) :
  check_vbk_blocks VbkBlock vbk_height vbk_hash_trim vbk_prev
     (fun b => vbk_plausibility forkHeight startTime blockTime enabled (vbk_height b) (vbk_time b) =? 0)
     (fun b => pow_vbk maxd minDiff (vbk_bits b) (vbk_hashnum b)) bs = 0 ->
  Forall (fun b => vbk_plausibility forkHeight startTime blockTime enabled (vbk_height b) (vbk_time b) = 0 /\
                   vbk_pow_facts maxd minDiff (vbk_bits b) (vbk_hashnum b)) bs.
Proof.
  intros H. apply vbk_blocks_sound in H. destruct H as [H _].
  eapply Forall_impl; [|exact H]. intros b [Hp Hw]. split; [apply Z.eqb_eq; exact Hp | apply pow_vbk_sound; exact Hw].
Qed.

(** plausibility: accepted => height in the supported range and, when the time rule is on, the
    timestamp is not before the start of the progpow era *)
Lemma vbk_plausibility_sound forkHeight startTime blockTime enabled height timestamp :
  vbk_plausibility forkHeight startTime blockTime enabled height timestamp = 0 ->
  forkHeight <= height /\ u32 (Z.quot height 8000) < 4096 /\ (enabled = true -> startTime <= timestamp).
Proof.
  unfold vbk_plausibility. intros H.
  destruct (Z.ltb_spec height forkHeight); [discriminate|].
  destruct (Z.leb_spec 4096 (u32 (Z.quot height 8000))); [discriminate|].
  split; [lia|]. split; [lia|]. intros ->. cbn [negb] in H.
  destruct (Z.ltb_spec timestamp startTime); [discriminate|]. lia.
Qed.

(** an accepted height indexes inside the [VBK_MAX_CALCULATED_EPOCHS_SIZE]-entry tables
    (dag_sizes / cache_sizes / dag_seeds) that the hash of an accepted header reads next; the
    variant of the rule as first coded ([epoch > 4096]) let epoch 4096 through *)
Lemma vbk_plausibility_epoch_in_table forkHeight startTime blockTime enabled height timestamp :
  vbk_plausibility forkHeight startTime blockTime enabled height timestamp = 0 ->
  0 <= u32 (Z.quot height 8000) < VB.Gen.Consts.VBK_MAX_CALCULATED_EPOCHS_SIZE.
Proof.
  intros H. apply vbk_plausibility_sound in H. destruct H as [_ [H _]].
  unfold VB.Gen.Consts.VBK_MAX_CALCULATED_EPOCHS_SIZE. split; [|exact H].
  apply u32_range.
Qed.

Definition vbk_plausibility_v0 (forkHeight : Z) (height : Z) : Z :=
  if height <? forkHeight then 1 else if 4096 <? u32 (Z.quot height 8000) then 2 else 0.

Lemma vbk_plausibility_epoch_v0_refuted :
  exists height, vbk_plausibility_v0 0 height = 0 /\ ~ u32 (Z.quot height 8000) < 4096.
Proof. exists 32768000. split; [vm_compute; reflexivity | vm_compute; discriminate]. Qed.
