(** containsSplit as coded: the counted loop of SplitStepsDefs.v computes the verdict of
    [EmbedDefs.scan_gen] (refinement), every iteration strictly decreases the number of bytes behind
    the loop-head position (measure), the fuel [containsSplit] is given is never exhausted, and the
    total work is bounded by |tx| * (2656 + 2|data|) / 3. The variant that rewinds to the position
    BEFORE the magic repeats its state forever on a 85-byte transaction. *)
From Coq Require Import ZArith List Bool Lia Arith.
From VB Require Import Stateless.EmbedDefs Stateless.EmbedProofs Stateless.EmbedBits Stateless.SplitStepsDefs.
Import ListNotations.
Local Open Scope Z_scope.
Ltac Zify.zify_post_hook ::= Z.div_mod_to_equations.

(** * refinement: the counted functions compute the results of EmbedDefs.v *)
Lemma chunk_loop_w_fst g tx dl bits o s w cdl : forall k pos total acc,
  fst (chunk_loop_w g tx dl bits o s w cdl k pos total acc) = chunk_loop g tx dl bits o s w cdl k pos total acc.
Proof.
  induction k as [|k IH]; intros pos total acc; cbn [chunk_loop_w chunk_loop]; [reflexivity|].
  destruct (chunk_step g tx dl bits o s w cdl (Z.of_nat k) pos total) as [pos' len| | |]; try reflexivity.
  specialize (IH (u64 (pos' + len)) (i32 (total + len)) (acc ++ slice tx pos' len)).
  destruct (chunk_loop_w g tx dl bits o s w cdl k (u64 (pos' + len)) (i32 (total + len)) (acc ++ slice tx pos' len)) as [r w'].
  exact IH.
Qed.

Lemma try_descriptor_w_fst g data tx p : fst (try_descriptor_w g data tx p) = try_descriptor_gen g data tx p.
Proof.
  unfold try_descriptor_w, try_descriptor_gen.
  destruct (decode_desc (byte_at tx p)) as [[n o] s].
  match goal with |- context [if ?c then _ else _] => destruct c end; [reflexivity|].
  rewrite <- chunk_loop_w_fst.
  match goal with |- context [chunk_loop_w ?a ?b ?c ?d ?e ?f ?g0 ?h ?k 0 0 []] =>
    destruct (chunk_loop_w a b c d e f g0 h k 0 0 []) as [r w] end.
  cbn [fst]. destruct r; reflexivity.
Qed.

Lemma scan_step_spec g data tx pos f :
  scan_gen g data tx pos (S f) =
  match scan_step false g data tx pos with
  | Stop v _ => v
  | Continue pos' _ => scan_gen g data tx pos' f
  end.
Proof.
  cbn [scan_gen]. unfold scan_step.
  repeat match goal with |- context [if ?c then _ else _] => destruct c end; try reflexivity.
  pose proof (try_descriptor_w_fst g data tx (pos + 3)) as H.
  destruct (try_descriptor_w g data tx (pos + 3)) as [a wa]. cbn [fst] in H. rewrite <- H.
  destruct a; reflexivity.
Qed.

Lemma scan_run_refines g data tx : forall fuel pos v n w,
  scan_run false g data tx pos fuel = Done v n w -> scan_gen g data tx pos fuel = v.
Proof.
  induction fuel as [|f IH]; intros pos v n w H; [discriminate|].
  rewrite scan_step_spec. cbn [scan_run] in H.
  destruct (scan_step false g data tx pos) as [pos' w1|v1 w1].
  - destruct (scan_run false g data tx pos' f) as [v2 n2 w2|] eqn:E; [|discriminate].
    inversion H; subst. eapply IH; eassumption.
  - inversion H; reflexivity.
Qed.

(** * the measure: bytes behind the loop-head position strictly decrease, by 1..3, and the position
    stays inside the buffer (lastPos is taken AFTER the three magic bytes) *)
Lemma scan_step_progress g data tx pos pos' w :
  scan_step false g data tx pos = Continue pos' w ->
  5 < scan_measure tx pos /\ scan_measure tx pos - 3 <= scan_measure tx pos' < scan_measure tx pos.
Proof.
  unfold scan_step, scan_measure.
  destruct (Z.leb_spec (zlen tx - pos) 5) as [|H5]; [discriminate|].
  repeat match goal with |- context [if ?c then _ else _] => destruct c end;
    try (intros HH; inversion HH; lia).
  destruct (try_descriptor_w g data tx (pos + 3)) as [a wa].
  destruct a; intros HH; inversion HH; lia.
Qed.

(** the out-of-fuel branch is unreachable with the fuel of [containsSplit]; iterations <= |tx| - 4 *)
Lemma scan_run_terminates g data tx : forall fuel pos,
  0 <= pos <= zlen tx -> scan_measure tx pos < Z.of_nat fuel ->
  exists v n w, scan_run false g data tx pos fuel = Done v n w /\
                scan_gen g data tx pos fuel = v /\ 1 <= n <= Z.max 0 (scan_measure tx pos - 5) + 1.
Proof.
  induction fuel as [|f IH]; intros pos Hpos Hf; [unfold scan_measure in *; lia|].
  rewrite scan_step_spec. cbn [scan_run].
  pose proof (scan_step_progress g data tx pos) as Hp.
  destruct (scan_step false g data tx pos) as [pos' w1|v1 w1].
  - specialize (Hp pos' w1 eq_refl). unfold scan_measure in *.
    destruct (IH pos') as (v & n & w & E & Hv & Hn); [lia | lia |].
    rewrite E. exists v, (n + 1), (w + w1). split; [reflexivity|]. split; [exact Hv | lia].
  - exists v1, 1, w1. split; [reflexivity|]. split; [reflexivity | lia].
Qed.

(** * work of one attempt *)
Lemma get_int_aux_bound bits from : forall cnt k v,
  get_int_aux bits from k cnt = Some v -> 0 <= v /\ v + 2 ^ Z.of_nat k <= 2 ^ Z.of_nat (k + cnt).
Proof.
  induction cnt as [|c IH]; intros k v H; cbn [get_int_aux] in H.
  - inversion H; subst. rewrite Nat.add_0_r. lia.
  - destruct (nth_error bits (Z.to_nat from + k)) as [b|]; [|discriminate].
    destruct (get_int_aux bits from (S k) c) as [v'|] eqn:E; [|discriminate].
    inversion H; subst v; clear H. apply IH in E. destruct E as [E0 E1].
    replace (k + S c)%nat with (S k + c)%nat by lia.
    rewrite Nat2Z.inj_succ, Z.pow_succ_r in E1 by lia.
    rewrite Z.shiftl_1_l.
    pose proof (Z.pow_pos_nonneg 2 (Z.of_nat k) ltac:(lia) ltac:(lia)).
    destruct b; lia.
Qed.

Lemma get_int_bound bits from to v : get_int bits from to = Some v -> to - from <= 7 -> 0 <= v < 128.
Proof.
  unfold get_int. intros H Hle. apply get_int_aux_bound in H. destruct H as [H0 H1].
  change (2 ^ Z.of_nat 0) with 1 in H1. rewrite Nat.add_0_l in H1.
  assert (2 ^ Z.of_nat (Z.to_nat (to - from)) <= 2 ^ 7) by (apply Z.pow_le_mono_r; lia).
  change (2 ^ 7) with 128 in *. lia.
Qed.

Lemma chunk_step_len g tx dl bits o s w cdl i pos total pos' len :
  chunk_step g tx dl bits o s w cdl i pos total = SOk pos' len ->
  let co := u32 (w + u32 (i * u32 (o + s))) in
  ((i =? 0) = true /\ len = u32 (u32 (u32 dl - total))) \/
  ((i =? 0) = false /\ exists lenv, get_int bits (u32 (co - s)) co = Some lenv /\ len = u32 lenv).
Proof.
  unfold chunk_step. intros H. set (co := u32 (w + u32 (i * u32 (o + s)))) in *.
  destruct (get_int bits co (Z.min cdl (u32 (co + o)))) as [offv|]; [|discriminate].
  destruct (i =? 0) eqn:Ei.
  - left. split; [reflexivity|]. cbv beta iota in H.
    repeat break_match_hyp H; try discriminate. inversion H; reflexivity.
  - right. split; [reflexivity|].
    destruct (get_int bits (u32 (co - s)) co) as [lenv|] eqn:E2; [|discriminate].
    exists lenv. split; [reflexivity|].
    repeat break_match_hyp H; try discriminate. inversion H; reflexivity.
Qed.

Lemma step_bits_bound o s w cdl i : step_bounds_w o s w i = true -> 0 <= step_bits o s w cdl i <= 23.
Proof.
  unfold step_bounds_w, step_bits. intros H. apply andb_prop in H. destruct H as [H1 H2].
  apply Z.leb_le in H1. destruct (i =? 0); cbn [orb] in H2; [lia|]. apply Z.leb_le in H2. lia.
Qed.

Lemma chunk_loop_w_bound g tx dl bits o s w cdl :
  zlen tx < 2 ^ 32 - 2 ^ 11 -> 0 <= dl < 2 ^ 32 ->
  forall k pos total acc, (k <= 15)%nat ->
    (forall i, 0 <= i < Z.of_nat k -> step_bounds_w o s w i = true) ->
    0 <= total <= 127 * (15 - Z.of_nat k) ->
    0 <= snd (chunk_loop_w g tx dl bits o s w cdl k pos total acc) <= 151 * Z.of_nat k + dl.
Proof.
  intros Htx Hdl. induction k as [|k IH]; intros pos total acc Hk Hb Ht; cbn [chunk_loop_w]; [cbn [snd]; lia|].
  pose proof (step_bits_bound o s w cdl (Z.of_nat k) (Hb (Z.of_nat k) ltac:(lia))) as Hsb.
  destruct (chunk_step g tx dl bits o s w cdl (Z.of_nat k) pos total) as [pos' len| | |] eqn:Hs;
    cbn [snd]; try lia.
  assert (Hsz : zlen tx < 2 ^ 64) by lia.
  pose proof (chunk_step_ok _ _ _ _ _ _ _ _ _ _ _ _ _ Hsz Hs) as Hok. unfold chunk_ok in Hok; cbn [fst snd] in Hok.
  apply chunk_step_len in Hs. cbv zeta in Hs.
  destruct Hs as [[Ei Hlen]|[Ei (lenv & Hg & Hlen)]].
  - apply Z.eqb_eq in Ei. assert (k = 0%nat) by lia. subst k. cbn [chunk_loop_w snd].
    assert (len <= dl).
    { subst len. unfold u32 in *. change (2 ^ 32) with 4294967296 in *. change (2 ^ 11) with 2048 in *. lia. }
    lia.
  - apply Z.eqb_neq in Ei.
    assert (Hsb2 : step_bounds_w o s w (Z.of_nat k) = true) by (apply Hb; lia).
    unfold step_bounds_w in Hsb2. apply andb_prop in Hsb2. destruct Hsb2 as [_ Hsb2].
    apply Z.eqb_neq in Ei. rewrite Ei in Hsb2. cbn [orb] in Hsb2. apply Z.leb_le in Hsb2.
    apply get_int_bound in Hg; [|exact Hsb2].
    assert (Hl : 0 <= len <= 127).
    { subst len. unfold u32. change (2 ^ 32) with 4294967296. lia. }
    assert (Ht' : i32 (total + len) = total + len).
    { unfold i32. change (2 ^ 31) with 2147483648. change (2 ^ 32) with 4294967296. lia. }
    rewrite Ht'.
    specialize (IH (u64 (pos' + len)) (total + len) (acc ++ slice tx pos' len) ltac:(lia)
                   ltac:(intros i Hi; apply Hb; lia) ltac:(lia)).
    destruct (chunk_loop_w g tx dl bits o s w cdl k (u64 (pos' + len)) (total + len) (acc ++ slice tx pos' len)) as [r w'].
    cbn [snd] in *. lia.
Qed.

Lemma all_desc_bounds_w : forallb desc_bounds_w (map Z.of_nat (seq 0 256)) = true.
Proof. vm_compute. reflexivity. Qed.

Lemma desc_bounds_w_all d : desc_bounds_w d = true.
Proof.
  assert (H : desc_bounds_w d = desc_bounds_w (d mod 256)).
  { unfold desc_bounds_w. rewrite (decode_desc_mod d). reflexivity. }
  rewrite H. pose proof all_desc_bounds_w as A. rewrite forallb_forall in A. apply A.
  pose proof (Z.mod_pos_bound d 256 ltac:(lia)) as Hb.
  replace (d mod 256) with (Z.of_nat (Z.to_nat (d mod 256))) by lia.
  apply in_map. apply in_seq. lia.
Qed.

Lemma try_descriptor_w_bound g data tx p :
  zlen tx < 2 ^ 32 - 2 ^ 11 -> zlen data < 2 ^ 32 ->
  0 <= snd (try_descriptor_w g data tx p) <= attempt_bound (zlen data).
Proof.
  intros Htx Hdata. unfold try_descriptor_w, attempt_bound.
  assert (Hd0 : 0 <= zlen data) by (unfold zlen; lia).
  pose proof (desc_bounds_w_all (byte_at tx p)) as Hd. unfold desc_bounds_w in Hd.
  pose proof (decode_chunks_range (byte_at tx p)) as Hr.
  destruct (decode_desc (byte_at tx p)) as [[n o] s]. cbn [fst] in Hr.
  set (bl := desc_bit_length n o s) in *. set (B := desc_bytes_length bl) in *. set (w := desc_waste B bl) in *.
  apply andb_prop in Hd. destruct Hd as [HB Hall]. apply andb_prop in HB. destruct HB as [HB0 HB1].
  apply Z.leb_le in HB0, HB1.
  destruct (Z.ltb_spec (zlen tx - (p + 1)) B) as [|Hfit]; [cbn [snd]; lia|].
  set (bits := table_bits (slice tx (p + 1) B)).
  pose proof (chunk_loop_w_bound g tx (zlen data) bits o s w (last_set bits) Htx ltac:(lia)
                (Z.to_nat (i32 (u32 (n - 1)) + 1)) 0 0 []) as Hc.
  pose proof (loop_count n Hr) as Hn.
  assert (Hb : forall i, 0 <= i < Z.of_nat (Z.to_nat (i32 (u32 (n - 1)) + 1)) -> step_bounds_w o s w i = true).
  { rewrite Hn. intros i Hi. rewrite forallb_forall in Hall. apply Hall.
    replace i with (Z.of_nat (Z.to_nat i)) by lia. apply in_map. apply in_seq. lia. }
  specialize (Hc ltac:(lia) Hb ltac:(lia)). rewrite Hn in Hc.
  destruct (chunk_loop_w g tx (zlen data) bits o s w (last_set bits) (Z.to_nat (i32 (u32 (n - 1)) + 1)) 0 0 []) as [r wk].
  cbn [snd] in Hc. destruct r; cbn [snd]; lia.
Qed.

(** * work of the whole scan: every iteration reads d = 1..3 bytes and runs at most one attempt, and only
    when d = 3; so 3 * work <= (bytes behind the position) * (3 + A) *)
Lemma scan_step_cases g data tx A pos :
  (forall p, 0 <= snd (try_descriptor_w g data tx p) <= A) ->
  match scan_step false g data tx pos with
  | Continue pos' w => 5 < zlen tx - pos /\ pos < pos' <= pos + 3 /\ 0 <= w /\ 3 * w <= (pos' - pos) * (3 + A)
  | Stop v w => 0 <= w /\ (w = 0 \/ (5 < zlen tx - pos /\ w <= 3 + A))
  end.
Proof.
  intros HA. pose proof (HA 0) as HA0. unfold scan_step.
  destruct (Z.leb_spec (zlen tx - pos) 5); [lia|].
  repeat match goal with |- context [if ?c then _ else _] => destruct c end; try lia.
  specialize (HA (pos + 3)).
  destruct (try_descriptor_w g data tx (pos + 3)) as [a wa]. cbn [snd] in HA.
  destruct a; lia.
Qed.

Lemma scan_run_work g data tx A :
  (forall p, 0 <= snd (try_descriptor_w g data tx p) <= A) ->
  forall fuel pos, 0 <= pos <= zlen tx -> zlen tx - pos < Z.of_nat fuel ->
  exists v n w, scan_run false g data tx pos fuel = Done v n w /\
                1 <= n <= Z.max 0 (zlen tx - pos - 5) + 1 /\ 0 <= w /\ 3 * w <= (zlen tx - pos) * (3 + A).
Proof.
  intros HA. pose proof (HA 0) as HA0.
  induction fuel as [|f IH]; intros pos Hpos Hf; [lia|].
  cbn [scan_run].
  pose proof (scan_step_cases g data tx A pos HA) as Hc.
  destruct (scan_step false g data tx pos) as [pos' w1|v1 w1].
  - destruct Hc as (H5 & Hp & Hw0 & Hw).
    destruct (IH pos') as (v & n & w & E & Hn & Hw0' & Hw'); [lia | lia |].
    rewrite E. exists v, (n + 1), (w + w1). split; [reflexivity|]. split; [lia|]. split; [lia|].
    replace ((zlen tx - pos) * (3 + A)) with ((zlen tx - pos') * (3 + A) + (pos' - pos) * (3 + A)) by ring.
    lia.
  - exists v1, 1, w1. split; [reflexivity|]. split; [lia|]. destruct Hc as [Hw0 [->|[H5 Hw]]]; [nia|].
    split; [lia|]. nia.
Qed.

(** containsSplit as coded: terminates within its fuel, at most max(1,|tx|-4) loop-head evaluations,
    the counted loop returns the verdict of [containsSplit] (all inputs) *)
Lemma split_terminates data tx :
  exists v n w, containsSplit_w data tx = Done v n w /\ containsSplit data tx = v /\ 1 <= n <= Z.max 1 (zlen tx - 4).
Proof.
  unfold containsSplit_w, containsSplit, scan.
  destruct (scan_run_terminates true data tx (S (length tx)) 0) as (v & n & w & E & Hv & Hn).
  - unfold zlen; lia.
  - unfold scan_measure, zlen; lia.
  - exists v, n, w. unfold scan_measure in Hn. repeat split; try assumption; lia.
Qed.

(** ... and the work is linear in |tx| with slope (2656 + 2|data|)/3: chunk limit 15 and the descriptor
    table limit 43 are inside the constant 2656 (SplitStepsDefs.attempt_bound) *)
Lemma split_steps_bound data tx :
  zlen data < 2 ^ 32 -> zlen tx < 2 ^ 32 - 2 ^ 11 ->
  exists v n w, containsSplit_w data tx = Done v n w /\ containsSplit data tx = v /\
                1 <= n <= Z.max 1 (zlen tx - 4) /\ 0 <= w /\ 3 * w <= zlen tx * (2656 + 2 * zlen data).
Proof.
  intros Hd Ht. unfold containsSplit_w.
  destruct (scan_run_work true data tx (attempt_bound (zlen data))
              (fun p => try_descriptor_w_bound true data tx p Ht Hd) (S (length tx)) 0)
    as (v & n & w & E & Hn & Hw0 & Hw).
  - unfold zlen; lia.
  - unfold zlen; lia.
  - exists v, n, w. split; [exact E|]. split.
    + unfold containsSplit, scan. eapply scan_run_refines; exact E.
    + split; [lia|]. split; [exact Hw0|]. unfold attempt_bound in Hw.
      replace (zlen tx - 0) with (zlen tx) in Hw by lia.
      replace (2656 + 2 * zlen data) with (3 + (2653 + 2 * zlen data)) by ring. exact Hw.
Qed.

(** * the rewinding variant (lastPos taken before the magic) does not progress *)
Lemma rewind_step_repeats : exists w, scan_step true true rewind_data rewind_tx 0 = Continue 0 w.
Proof. exists 174. vm_compute. reflexivity. Qed.

Lemma rewind_never_terminates : forall fuel, containsSplit_rewind rewind_data rewind_tx fuel = OutOfFuel.
Proof.
  unfold containsSplit_rewind. destruct rewind_step_repeats as [w Hw].
  induction fuel as [|f IH]; [reflexivity|].
  cbn [scan_run]. rewrite Hw, IH. reflexivity.
Qed.

Lemma split_rewind_refuted :
  exists data tx pos w,
    length data = 80%nat /\ 5 < scan_measure tx pos /\
    scan_step true true data tx pos = Continue pos w /\                 (* the loop state repeats: measure not decreased *)
    (forall fuel, scan_run true true data tx pos fuel = OutOfFuel) /\     (* no fuel suffices *)
    containsSplit_w data tx = Done (VFalse 0) 79 251.                  (* as coded: 79 iterations, 251 units *)
Proof.
  exists rewind_data, rewind_tx, 0, 174.
  split; [reflexivity|]. split; [vm_compute; reflexivity|]. split; [vm_compute; reflexivity|].
  split; [exact rewind_never_terminates | vm_compute; reflexivity].
Qed.

(** non-vacuity: the honest two-chunk split of EmbedBits.v and a worst-case-shaped transaction
    (magic + maximal descriptor every 3 bytes cannot happen: an attempt needs 3 fresh bytes) *)
Example honest_split_steps :
  containsSplit_w f11_data honest_split_tx = Done VTrue 82 276 /\
  3 * 276 <= zlen honest_split_tx * (2656 + 2 * zlen f11_data).
Proof. split; vm_compute; [reflexivity | discriminate]. Qed.
