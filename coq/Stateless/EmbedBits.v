(** containsSplit never reads its chunk-table bit vector out of range: for each of the 256
    descriptor bytes the field positions of every chunk lie inside the table that was read
    (finite sweep, [vm_compute]), hence every [getIntFromBits] index is in range. *)
From Coq Require Import ZArith List Bool Lia Arith.
From VB Require Import Stateless.EmbedDefs Stateless.EmbedProofs.
Import ListNotations.
Local Open Scope Z_scope.

Definition step_bounds (o s w B i : Z) : bool :=
  let co := u32 (w + u32 (i * u32 (o + s))) in
  (co <=? 8 * B) && (u32 (co + o) <=? 8 * B) && ((i =? 0) || (u32 (co - s) <=? co)).

Definition desc_bounds (d : Z) : bool :=
  let '(n, o, s) := decode_desc d in
  let bl := desc_bit_length n o s in
  let B := desc_bytes_length bl in
  let w := desc_waste B bl in
  (0 <=? B) && forallb (step_bounds o s w B) (map Z.of_nat (seq 0 (Z.to_nat n))).

Lemma all_desc_bounds : forallb desc_bounds (map Z.of_nat (seq 0 256)) = true.
Proof. vm_compute. reflexivity. Qed.

Lemma decode_desc_mod d : decode_desc d = decode_desc (d mod 256).
Proof.
  unfold decode_desc. change 256 with (2 ^ 8).
  rewrite !Z.mod_pow2_bits_low by lia. reflexivity.
Qed.

Lemma desc_bounds_all d : desc_bounds d = true.
Proof.
  assert (H : desc_bounds d = desc_bounds (d mod 256)).
  { unfold desc_bounds. rewrite (decode_desc_mod d). reflexivity. }
  rewrite H. pose proof all_desc_bounds as A. rewrite forallb_forall in A. apply A.
  pose proof (Z.mod_pos_bound d 256 ltac:(lia)) as Hb.
  replace (d mod 256) with (Z.of_nat (Z.to_nat (d mod 256))) by lia.
  apply in_map. apply in_seq. lia.
Qed.

Lemma get_int_aux_some bits from : forall cnt k,
  (Z.to_nat from + k + cnt <= length bits)%nat -> get_int_aux bits from k cnt <> None.
Proof.
  induction cnt as [|c IH]; intros k H; cbn [get_int_aux]; [discriminate|].
  destruct (nth_error bits (Z.to_nat from + k)) eqn:E.
  - specialize (IH (S k)). destruct (get_int_aux bits from (S k) c); [discriminate|].
    exfalso. apply IH; [lia | reflexivity].
  - apply nth_error_None in E. lia.
Qed.

Lemma get_int_some bits from to :
  0 <= from <= Z.of_nat (length bits) -> to <= Z.of_nat (length bits) -> get_int bits from to <> None.
Proof. intros Hf Ht. unfold get_int. apply get_int_aux_some. lia. Qed.

Lemma chunk_step_bits g tx datalen bits o s w cdl i pos total B :
  step_bounds o s w B i = true -> Z.of_nat (length bits) = 8 * B ->
  chunk_step g tx datalen bits o s w cdl i pos total <> SOobBits.
Proof.
  unfold step_bounds, chunk_step. intros Hb Hlen.
  set (co := u32 (w + u32 (i * u32 (o + s)))) in *.
  pose proof (u32_range (w + u32 (i * u32 (o + s)))) as Hco. fold co in Hco.
  apply andb_prop in Hb. destruct Hb as [Hb H3]. apply andb_prop in Hb. destruct Hb as [H1 H2].
  apply Z.leb_le in H1, H2.
  destruct (get_int bits co (Z.min cdl (u32 (co + o)))) as [offv|] eqn:E1.
  2:{ exfalso. apply (get_int_some bits co (Z.min cdl (u32 (co + o)))); [lia | | exact E1].
      pose proof (Z.le_min_r cdl (u32 (co + o))). lia. }
  destruct (i =? 0) eqn:Ei.
  - repeat match goal with |- context [if ?c then _ else _] => destruct c end; discriminate.
  - cbn [orb] in H3. apply Z.leb_le in H3.
    pose proof (u32_range (co - s)) as Hs.
    destruct (get_int bits (u32 (co - s)) co) as [lenv|] eqn:E2.
    2:{ exfalso. apply (get_int_some bits (u32 (co - s)) co); [lia | lia | exact E2]. }
    repeat match goal with |- context [if ?c then _ else _] => destruct c end; discriminate.
Qed.

Lemma chunk_loop_bits g tx datalen bits o s w cdl B :
  Z.of_nat (length bits) = 8 * B ->
  forall k, (forall i, 0 <= i < Z.of_nat k -> step_bounds o s w B i = true) ->
  forall pos total acc, chunk_loop g tx datalen bits o s w cdl k pos total acc <> COobBits.
Proof.
  intros Hlen. induction k as [|k IH]; intros Hb pos total acc; cbn [chunk_loop]; [discriminate|].
  assert (Hk : step_bounds o s w B (Z.of_nat k) = true) by (apply Hb; lia).
  pose proof (chunk_step_bits g tx datalen bits o s w cdl (Z.of_nat k) pos total B Hk Hlen) as Hs.
  destruct (chunk_step g tx datalen bits o s w cdl (Z.of_nat k) pos total); try discriminate.
  - apply IH. intros i Hi. apply Hb. lia.
  - exfalso. apply Hs. reflexivity.
Qed.

Lemma byte_bits_length b : length (byte_bits b) = 8%nat.
Proof. reflexivity. Qed.

Lemma table_bits_length bytes : length (table_bits bytes) = (8 * length bytes)%nat.
Proof.
  unfold table_bits. rewrite <- (rev_length bytes). generalize (rev bytes). intros l.
  induction l as [|x r IH]; [reflexivity|]. cbn [flat_map]. rewrite app_length, byte_bits_length, IH. cbn [length]. lia.
Qed.

Lemma try_descriptor_bits g data tx p : 0 <= p -> try_descriptor_gen g data tx p <> OobBits.
Proof.
  intros Hp. unfold try_descriptor_gen.
  pose proof (desc_bounds_all (byte_at tx p)) as Hd. unfold desc_bounds in Hd.
  pose proof (decode_chunks_range (byte_at tx p)) as Hr.
  destruct (decode_desc (byte_at tx p)) as [[n o] s]. cbn [fst] in Hr.
  set (bl := desc_bit_length n o s) in *. set (B := desc_bytes_length bl) in *. set (w := desc_waste B bl) in *.
  apply andb_prop in Hd. destruct Hd as [HB Hall]. apply Z.leb_le in HB.
  destruct (Z.ltb_spec (zlen tx - (p + 1)) B) as [|Hfit]; [discriminate|].
  set (bits := table_bits (slice tx (p + 1) B)).
  assert (Hlen : Z.of_nat (length bits) = 8 * B).
  { unfold bits. rewrite table_bits_length. unfold slice. rewrite firstn_length, skipn_length.
    unfold zlen in Hfit. lia. }
  pose proof (chunk_loop_bits g tx (zlen data) bits o s w (last_set bits) B Hlen
                (Z.to_nat (i32 (u32 (n - 1)) + 1))) as Hc.
  assert (Hb : forall i, 0 <= i < Z.of_nat (Z.to_nat (i32 (u32 (n - 1)) + 1)) -> step_bounds o s w B i = true).
  { rewrite (loop_count n Hr). intros i Hi. rewrite forallb_forall in Hall. apply Hall.
    replace i with (Z.of_nat (Z.to_nat i)) by lia. apply in_map. apply in_seq. lia. }
  specialize (Hc Hb 0 0 []).
  destruct (chunk_loop g tx (zlen data) bits o s w (last_set bits) (Z.to_nat (i32 (u32 (n - 1)) + 1)) 0 0 []);
    try discriminate.
  - match goal with |- context [if ?c then _ else _] => destruct c end; discriminate.
  - exfalso. apply Hc. reflexivity.
Qed.

Lemma scan_bits g data tx : forall fuel pos, 0 <= pos -> scan_gen g data tx pos fuel <> VOobBits.
Proof.
  induction fuel as [|f IH]; intros pos Hpos; cbn [scan_gen]; [discriminate|].
  repeat match goal with |- context [if ?c then _ else _] => destruct c end; try discriminate; try (apply IH; lia).
  pose proof (try_descriptor_bits g data tx (pos + 3) ltac:(lia)) as Ht.
  destruct (try_descriptor_gen g data tx (pos + 3)); try discriminate; try (apply IH; lia).
  exfalso. apply Ht. reflexivity.
Qed.

(** containsSplit performs no out-of-range read at all: neither on the transaction buffer nor on
    the chunk-table bit vector (all inputs) *)
Lemma split_no_oob data tx :
  zlen tx < 2 ^ 64 -> containsSplit data tx <> VOobBuf /\ containsSplit data tx <> VOobBits.
Proof.
  intros Hsz. split; [apply split_no_oob_buf; exact Hsz|].
  unfold containsSplit, scan. apply scan_bits. lia.
Qed.

Lemma embedding_no_oob data tx :
  zlen tx < 2 ^ 64 -> check_embedding data tx <> VOobBuf /\ check_embedding data tx <> VOobBits.
Proof.
  intros Hsz. unfold check_embedding. destruct (contiguous_search data tx); [split; discriminate|].
  apply split_no_oob. exact Hsz.
Qed.

(** non-vacuity: a genuine two-chunk split (not contiguous) is accepted; the contiguous search
    accepts a plain occurrence; so the hypotheses of the soundness theorems are satisfiable *)
Definition honest_split_tx : list Z :=
  firstn 40 f11_data ++ [255] ++ skipn 40 f11_data ++ [146; 122; 89; 35; 5; 2].
Example honest_split_accepted :
  containsSplit f11_data honest_split_tx = VTrue /\ contiguous_search f11_data honest_split_tx = false /\
  try_descriptor f11_data honest_split_tx 84 = Found.
Proof. repeat split; vm_compute; reflexivity. Qed.
Example contiguous_accepted : contiguous_search f11_data ([7; 7] ++ f11_data ++ [9]) = true.
Proof. vm_compute. reflexivity. Qed.
