(** Decision pipelines of src/pop/stateless_validation.cpp: checkBtcBlocks, checkVbkBlocks,
    checkBlock, checkPublicationData, checkSignature, checkVbkTx, checkVbkPopTx, checkATV,
    checkVTB, checkPopDataForDuplicates, checkPopData and the [checked] memo flags.
    Payloads are records of the fields the checks look at; everything cryptographic or
    external is a Section variable (oracle). A result is [Ok] or [Err code sub] where
    [code] names the failing stage in the order of the C++ and [sub] the inner reason.
    Executable; no proofs in this file. *)
From Coq Require Import ZArith List Bool.
From VB Require Import Stateless.EmbedDefs Stateless.MerkleDefs.
Import ListNotations.
Local Open Scope Z_scope.

Definition zlen_g {A} (l : list A) : Z := Z.of_nat (length l).

Inductive res := Ok | Err (code sub : Z).
Definition is_ok (r : res) : bool := match r with Ok => true | Err _ _ => false end.

(** VbkNetworkType: optional network byte. The code compares with [!=]; the intended meaning
    (operator==) is: both absent, or both present with equal value. *)
Definition net_eqb (a b : option Z) : bool :=
  match a, b with
  | None, None => true
  | Some x, Some y => x =? y
  | _, _ => false
  end.

(** what the C++ evaluates before the missing operator!= was added (both sides go through the
    non-explicit operator bool(), only "has a byte" is compared): kept as documentation *)
Definition net_ne_v0 (a b : option Z) : bool :=
  negb (Bool.eqb (match a with Some _ => true | None => false end)
                 (match b with Some _ => true | None => false end)).

(** hasDuplicateIdsOf: insert into a set, report the first id already present *)
Fixpoint mem_id (x : list Z) (seen : list (list Z)) : bool :=
  match seen with [] => false | y :: r => list_eqb x y || mem_id x r end.
Fixpoint has_dup (seen ids : list (list Z)) : bool :=
  match ids with
  | [] => false
  | x :: r => if mem_id x seen then true else has_dup (x :: seen) r
  end.

(** memoised verdict ([atv.checked], [vtb.checked], [popData.checked]):
    [if (x.checked) return true; if (!full) return false; x.checked = true; return true;] *)
Definition memo_step (full : bool) (checked : bool) : bool * bool :=
  if checked then (true, true) else if full then (true, true) else (false, false).

Section Check.
  (** block headers are opaque; the checks see them through these accessors/oracles *)
  Variables BtcBlock VbkBlock : Type.
  Variables (btc_hash btc_prev : BtcBlock -> list Z).      (* getHash(), getPreviousBlock() *)
  Variable btc_pow : BtcBlock -> bool.                      (* checkProofOfWork(block, btc params) *)
  Variable vbk_height : VbkBlock -> Z.                      (* int32 *)
  Variables (vbk_hash_trim vbk_prev : VbkBlock -> list Z).  (* getHash().trimLE<12>(), getPreviousBlock() *)
  Variables (vbk_plausible vbk_pow : VbkBlock -> bool).     (* checkVbkBlockPlausibility, checkProofOfWork *)
  Variables sha256d sha256 : list Z -> list Z.
  Variable verify : list Z -> list Z -> list Z -> bool.     (* message, signature, public key (malformed key = false) *)
  Variable addr_from_pubkey : list Z -> list Z.             (* Address::fromPublicKey *)
  Variable addr_checksum : list Z -> list Z.                (* addressChecksum *)
  Variable ctxinfo_root : list Z -> option (list Z).        (* deserialise contextInfo, getTopLevelMerkleRoot *)
  Variable check_block_header : list Z -> list Z -> bool.   (* AltChainParams::checkBlockHeader(header, root) *)

  (** parameters *)
  Variable vbk_magic : option Z.                            (* getTransactionMagicByte() *)
  Variable alt_id : Z.                                      (* getIdentifier() *)
  Variables max_size max_vbk max_vtb max_atv : Z.           (* PopData limits *)

  (** checkBlock(BtcBlock) *)
  Definition check_btc_block (b : BtcBlock) : bool := btc_pow b.

  (** checkBtcBlocks: sub 1 = first block bad, 2 = later block bad, 3 = not contiguous *)
  Fixpoint btc_chain (last : list Z) (bs : list BtcBlock) : Z :=
    match bs with
    | [] => 0
    | b :: r =>
      if negb (check_btc_block b) then 2
      else if negb (list_eqb (btc_prev b) last) then 3
      else btc_chain (btc_hash b) r
    end.
  Definition check_btc_blocks (bs : list BtcBlock) : Z :=
    match bs with
    | [] => 0
    | b0 :: r => if negb (check_btc_block b0) then 1 else btc_chain (btc_hash b0) r
    end.

  (** checkBlock(VbkBlock): plausibility before PoW; 0 ok, 1 vbk-bad-block, 2 vbk-bad-pow *)
  Definition check_vbk_block (b : VbkBlock) : Z :=
    if negb (vbk_plausible b) then 1 else if negb (vbk_pow b) then 2 else 0.

  (** checkVbkBlocks: [lastHeight + 1] is int arithmetic on an int32 height (no wrap below 2^31-1) *)
  Fixpoint vbk_chain (lastHeight : Z) (lastHash : list Z) (bs : list VbkBlock) : Z :=
    match bs with
    | [] => 0
    | b :: r =>
      if negb (check_vbk_block b =? 0) then 2
      else if negb (vbk_height b =? lastHeight + 1) || negb (list_eqb (vbk_prev b) lastHash) then 3
      else vbk_chain (vbk_height b) (vbk_hash_trim b) r
    end.
  Definition check_vbk_blocks (bs : list VbkBlock) : Z :=
    match bs with
    | [] => 0
    | b0 :: r => if negb (check_vbk_block b0 =? 0) then 1 else vbk_chain (vbk_height b0) (vbk_hash_trim b0) r
    end.

  (** Address::isDerivedFromPublicKey: address equality, then (redundantly) the checksums *)
  Definition is_derived (address pubkey : list Z) : bool :=
    let expected := addr_from_pubkey pubkey in
    if negb (list_eqb address expected) then false
    else if negb (list_eqb (addr_checksum address) (addr_checksum expected)) then false
    else true.

  (** checkSignature (both overloads): 0 ok, 1 address not derived from the key, 2 bad signature *)
  Definition check_signature (address pubkey txhash signature : list Z) : Z :=
    if negb (is_derived address pubkey) then 1
    else if negb (verify txhash signature pubkey) then 2
    else 0.

  Record PubData := { pd_identifier : Z; pd_header : list Z; pd_contextInfo : list Z }.

  (** checkPublicationData: 0 ok, 1 bad-altchain-id, 2 bad-contextinfo, 3 bad-endorsed-header *)
  Definition check_publication_data (p : PubData) : Z :=
    if negb (pd_identifier p =? alt_id) then 1
    else match ctxinfo_root (pd_contextInfo p) with
         | None => 2
         | Some root => if negb (check_block_header (pd_header p) root) then 3 else 0
         end.

  Record VbkTx := {
    t_network : option Z; t_outputs : Z (* outputs.size() *); t_fee : Z (* calculateTxFee().units *);
    t_pubdata : PubData; t_address : list Z; t_pubkey : list Z; t_signature : list Z; t_hash : list Z }.

  (** checkVbkTx: 1 too many outputs, 2 bad tx byte, 3 overspending, 4 publication data, 5 signature *)
  Definition check_vbk_tx (t : VbkTx) : res :=
    if 255 <? t_outputs t then Err 1 0
    else if negb (net_eqb (t_network t) vbk_magic) then Err 2 0
    else if t_fee t <? 0 then Err 3 0
    else let p := check_publication_data (t_pubdata t) in
      if negb (p =? 0) then Err 4 p
      else let s := check_signature (t_address t) (t_pubkey t) (t_hash t) (t_signature t) in
        if negb (s =? 0) then Err 5 s else Ok.

  Record MPath := { mp_subject : list Z; mp_index : Z; mp_layers : list (list Z) }.
  Record VMPath := { vp_subject : list Z; vp_treeIndex : Z; vp_index : Z; vp_layers : list (list Z) }.

  Record VbkPopTx := {
    p_network : option Z; p_context : list BtcBlock;
    p_pubbytes : list Z   (* publishedBlock.toRaw() ++ address.getPopBytes() *);
    p_btctx : list Z; p_btctx_hash : list Z; p_path : MPath;
    p_bop_root : list Z   (* blockOfProof.getMerkleRoot().reverse() *);
    p_address : list Z; p_pubkey : list Z; p_signature : list Z; p_hash : list Z }.

  (** checkBitcoinTransactionForPoPData incl. the size test: 0 ok, 1 bad-pubdata, 2 not embedded
      (10+r with the containsSplit reason), 3/4 over-read outcomes of the embedding model *)
  Definition check_btc_tx_for_pop (t : VbkPopTx) : Z :=
    if negb (zlen (p_pubbytes t) =? 80) then 1
    else match check_embedding (p_pubbytes t) (p_btctx t) with
         | VTrue => 0
         | VFalse r => 10 + Z.abs r
         | VOobBits => 3
         | VOobBuf => 4
         end.

  (** checkMerklePath for the two flavours: 0 ok, 1 subject, 2 root *)
  Definition merkle_btc_code (m : MPath) (txhash root : list Z) : Z :=
    if negb (list_eqb (mp_subject m) txhash) then 1
    else if negb (list_eqb (btc_merkle_root sha256d (mp_subject m) (mp_index m) (mp_layers m)) root) then 2
    else 0.
  Definition merkle_vbk_code (m : VMPath) (txhash root : list Z) : Z :=
    if negb (list_eqb (vp_subject m) txhash) then 1
    else if negb (list_eqb (vbk_merkle_root sha256 (vp_subject m) (vp_treeIndex m) (vp_index m) (vp_layers m)) root) then 2
    else 0.

  (** checkVbkPopTx: 1 context too large, 2 bad tx byte, 3 embedding, 4 merkle path, 5 context
      blocks, 6 signature — cheapest first, exactly the order of the code *)
  Definition check_vbk_pop_tx (t : VbkPopTx) : res :=
    if 65535 <? zlen_g (p_context t) then Err 1 0
    else if negb (net_eqb (p_network t) vbk_magic) then Err 2 0
    else let e := check_btc_tx_for_pop t in
      if negb (e =? 0) then Err 3 e
      else let m := merkle_btc_code (p_path t) (p_btctx_hash t) (p_bop_root t) in
        if negb (m =? 0) then Err 4 m
        else let c := check_btc_blocks (p_context t) in
          if negb (c =? 0) then Err 5 c
          else let s := check_signature (p_address t) (p_pubkey t) (p_hash t) (p_signature t) in
            if negb (s =? 0) then Err 6 s else Ok.

  Record ATV := { a_tx : VbkTx; a_path : VMPath; a_bop_root : list Z (* blockOfProof.getMerkleRoot() *) }.
  Record VTB := { v_tx : VbkPopTx; v_path : VMPath; v_containing_root : list Z }.

  (** checkATV / checkVTB without the memo: 10+c = transaction stage c, 20+m = merkle path *)
  Definition full_check_atv (a : ATV) : res :=
    match check_vbk_tx (a_tx a) with
    | Err c s => Err (10 + c) s
    | Ok => let m := merkle_vbk_code (a_path a) (t_hash (a_tx a)) (a_bop_root a) in
            if negb (m =? 0) then Err 20 m else Ok
    end.
  Definition full_check_vtb (v : VTB) : res :=
    match check_vbk_pop_tx (v_tx v) with
    | Err c s => Err (10 + c) s
    | Ok => let m := merkle_vbk_code (v_path v) (p_hash (v_tx v)) (v_containing_root v) in
            if negb (m =? 0) then Err 20 m else Ok
    end.

  (** with the memo flag: (verdict, new flag) *)
  Definition check_atv (a : ATV) (checked : bool) : bool * bool := memo_step (is_ok (full_check_atv a)) checked.
  Definition check_vtb (v : VTB) (checked : bool) : bool * bool := memo_step (is_ok (full_check_vtb v)) checked.

  (** checkPopData. The ids are computed by the payloads' getId(); [estimate] is
      popData.estimateSize(). The queued checks run for every payload (each updates its own
      memo flag); the first invalid one in the order context, vtbs, atvs decides. *)
  Record PopData := {
    d_estimate : Z; d_context : list VbkBlock; d_vtbs : list VTB; d_atvs : list ATV;
    d_context_ids : list (list Z); d_vtb_ids : list (list Z); d_atv_ids : list (list Z) }.

  Fixpoint run_memo {P} (full : P -> bool) (ps : list P) (flags : list bool) : list bool * list bool :=
    match ps, flags with
    | p :: pr, f :: fr =>
      let '(v, f') := memo_step (full p) f in
      let '(vs, fs) := run_memo full pr fr in (v :: vs, f' :: fs)
    | _, _ => ([], [])
    end.

  Fixpoint first_false (l : list bool) (i : Z) : option Z :=
    match l with [] => None | b :: r => if b then first_false r (i + 1) else Some i end.

  (** 0 ok, 1 duplicate-vbk, 2 duplicate-vtb, 3 duplicate-atv *)
  Definition check_duplicates (d : PopData) : Z :=
    if has_dup [] (d_context_ids d) then 1
    else if has_dup [] (d_vtb_ids d) then 2
    else if has_dup [] (d_atv_ids d) then 3 else 0.

  (** state: flags of the vtbs, flags of the atvs, flag of the PopData itself.
      codes: 1 oversize, 2 too many VBK, 3 too many VTB, 4 too many ATV,
      5 invalid context block (sub = index), 6 invalid VTB, 7 invalid ATV, 8 duplicates *)
  Definition pop_state := (list bool * list bool * bool)%type.

  Definition check_pop_data (d : PopData) (st : pop_state) : res * pop_state :=
    let '(fv, fa, checked) := st in
    if checked then (Ok, st)
    else if max_size <? d_estimate d then (Err 1 0, st)
    else if max_vbk <? zlen_g (d_context d) then (Err 2 0, st)
    else if max_vtb <? zlen_g (d_vtbs d) then (Err 3 0, st)
    else if max_atv <? zlen_g (d_atvs d) then (Err 4 0, st)
    else
      let cres := map (fun b => check_vbk_block b =? 0) (d_context d) in
      let '(vres, fv') := run_memo (fun v => is_ok (full_check_vtb v)) (d_vtbs d) fv in
      let '(ares, fa') := run_memo (fun a => is_ok (full_check_atv a)) (d_atvs d) fa in
      match first_false cres 0 with
      | Some i => (Err 5 i, (fv', fa', false))
      | None =>
        match first_false vres 0 with
        | Some i => (Err 6 i, (fv', fa', false))
        | None =>
          match first_false ares 0 with
          | Some i => (Err 7 i, (fv', fa', false))
          | None =>
            let dup := check_duplicates d in
            if negb (dup =? 0) then (Err 8 dup, (fv', fa', false))
            else (Ok, (fv', fa', true))
          end
        end
      end.
End Check.
