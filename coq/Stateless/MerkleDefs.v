(** Merkle paths: MerklePath::calculateMerkleRoot (src/pop/entities/merkle_path.cpp:57-71),
    VbkMerklePath::calculateMerkleRoot (src/pop/entities/vbk_merkle_path.cpp:51-74) and the
    template checkMerklePath (stateless_validation.hpp:30-48) over abstract hash functions.
    Hashes are byte lists; [index]/[treeIndex] are int32_t, modelled as Z with the arithmetic
    right shift and the two's complement low bit ([Z.shiftr], [Z.odd] are exactly that on Z).
    Executable; no proofs in this file. *)
From Coq Require Import ZArith List Bool.
From VB Require Import Stateless.EmbedDefs.
Import ListNotations.
Local Open Scope Z_scope.

Section Merkle.
  (** sha256d = SHA256(SHA256(.)) (sha256twice(a,b) hashes a ++ b), sha256 = single SHA256 *)
  Variables sha256d sha256 : list Z -> list Z.

  (** BTC flavour: for (layer : layers) { left/right by (layerIndex & 1); cursor = sha256twice; layerIndex >>= 1 } *)
  Fixpoint btc_fold (cursor : list Z) (layerIndex : Z) (layers : list (list Z)) : list Z :=
    match layers with
    | [] => cursor
    | layer :: r =>
      let cursor' := if Z.odd layerIndex then sha256d (layer ++ cursor) else sha256d (cursor ++ layer) in
      btc_fold cursor' (Z.shiftr layerIndex 1) r
    end.
  (** [if (layers.empty()) return subject;] is the [[]] case of the fold *)
  Definition btc_merkle_root (subject : list Z) (index : Z) (layers : list (list Z)) : list Z :=
    btc_fold subject index layers.

  (** VBK flavour: the last layer is the metapackage hash (always on the left: layerIndex = 1), the
      layer before it is selected by [treeIndex], the others by the bits of [index].
      [i == size - 2] is a size_t comparison: for size = 1 it can never hold (size - 2 wraps). *)
  Fixpoint vbk_fold (treeIndex : Z) (size : nat) (cursor : list Z) (layerIndex : Z) (i : nat)
           (layers : list (list Z)) : list Z :=
    match layers with
    | [] => cursor
    | layer :: r =>
      let li := if (i =? size - 1)%nat then 1
                else if ((2 <=? size) && (i =? size - 2))%nat then treeIndex
                else layerIndex in
      let cursor' := if Z.odd li then sha256 (layer ++ cursor) else sha256 (cursor ++ layer) in
      vbk_fold treeIndex size cursor' (Z.shiftr li 1) (S i) r
    end.
  (** uint256 -> uint128 [trim<VBK_MERKLE_ROOT_HASH_SIZE>] keeps the first 16 bytes *)
  Definition vbk_merkle_root (subject : list Z) (treeIndex index : Z) (layers : list (list Z)) : list Z :=
    firstn 16 (vbk_fold treeIndex (length layers) subject index 0 layers).

  (** checkMerklePath: subject comparison first, then the root *)
  Definition check_merkle_btc (subject : list Z) (index : Z) (layers : list (list Z))
             (txhash root : list Z) : bool :=
    if negb (list_eqb subject txhash) then false
    else list_eqb (btc_merkle_root subject index layers) root.

  Definition check_merkle_vbk (subject : list Z) (treeIndex index : Z) (layers : list (list Z))
             (txhash root : list Z) : bool :=
    if negb (list_eqb subject txhash) then false
    else list_eqb (vbk_merkle_root subject treeIndex index layers) root.

  (** declarative reading: layer [i] is combined on the side given by bit [i] of the index *)
  Fixpoint btc_spec (cursor : list Z) (index : Z) (i : Z) (layers : list (list Z)) : list Z :=
    match layers with
    | [] => cursor
    | layer :: r =>
      btc_spec (if Z.testbit index i then sha256d (layer ++ cursor) else sha256d (cursor ++ layer))
               index (i + 1) r
    end.

  Definition vbk_side (treeIndex index : Z) (size i : nat) : bool :=   (* true: layer on the left *)
    if (i =? size - 1)%nat then true
    else if ((2 <=? size) && (i =? size - 2))%nat then Z.odd treeIndex
    else Z.testbit index (Z.of_nat i).
  Fixpoint vbk_spec (treeIndex index : Z) (size : nat) (cursor : list Z) (i : nat)
           (layers : list (list Z)) : list Z :=
    match layers with
    | [] => cursor
    | layer :: r =>
      vbk_spec treeIndex index size
               (if vbk_side treeIndex index size i then sha256 (layer ++ cursor) else sha256 (cursor ++ layer))
               (S i) r
    end.
End Merkle.
