(** Proofs about the decision pipelines (model: CheckDefs.v). *)
From Coq Require Import ZArith List Bool Lia Arith.
From VB Require Import Stateless.EmbedDefs Stateless.EmbedProofs Stateless.MerkleDefs Stateless.MerkleProofs
     Stateless.CheckDefs.
Import ListNotations.
Local Open Scope Z_scope.

Lemma list_eqb_iff a b : list_eqb a b = true <-> a = b.
Proof. split; [apply list_eqb_eq | intros ->; apply list_eqb_refl]. Qed.

(** * duplicates *)
Lemma mem_id_In x seen : mem_id x seen = true <-> In x seen.
Proof.
  induction seen as [|y r IH]; cbn; [split; [discriminate|tauto]|].
  rewrite orb_true_iff, IH, list_eqb_iff. split; intros [H|H]; auto.
Qed.

Lemma has_dup_spec : forall ids seen,
  has_dup seen ids = false <-> (NoDup ids /\ forall x, In x ids -> ~ In x seen).
Proof.
  induction ids as [|x r IH]; intros seen; cbn [has_dup].
  - split; [intros _; split; [constructor | intros x []] | reflexivity].
  - destruct (mem_id x seen) eqn:E.
    + split; [discriminate|]. intros [_ H]. exfalso. apply (H x); [left; reflexivity|].
      apply mem_id_In. exact E.
    + assert (Hx : ~ In x seen) by (intros H; apply mem_id_In in H; congruence).
      rewrite IH. split.
      * intros [Hnd Hs]. split.
        -- constructor; [intros Hin; apply (Hs x Hin); left; reflexivity | exact Hnd].
        -- intros y [<-|Hy]; [exact Hx|]. intros Hin. apply (Hs y Hy). right. exact Hin.
      * intros [Hnd Hs]. inversion Hnd; subst. split; [assumption|].
        intros y Hy [<-|Hin]; [contradiction|]. apply (Hs y); [right; exact Hy | exact Hin].
Qed.

Lemma has_dup_NoDup ids : has_dup [] ids = false <-> NoDup ids.
Proof. rewrite has_dup_spec. split; [tauto | intros H; split; [exact H | intros x _ []]]. Qed.

(** the documented defect of the network-byte comparison before the fix *)
Lemma netbyte_v0_refuted : exists a b, net_ne_v0 a b = false /\ a <> b.
Proof. exists (Some 170), (Some 187). split; [reflexivity | discriminate]. Qed.

Lemma net_eqb_eq a b : net_eqb a b = true <-> a = b.
Proof.
  destruct a as [x|], b as [y|]; cbn; try (split; [discriminate | discriminate]); try tauto.
  rewrite Z.eqb_eq. split; [intros ->; reflexivity | intros H; inversion H; reflexivity].
Qed.

Ltac break_if_hyp H :=
  match type of H with context [if ?c then _ else _] => destruct c eqn:? end.
Ltac break_ifs :=
  repeat match goal with H : context [if ?c then _ else _] |- _ => destruct c eqn:? end.
Ltac boolfacts :=
  repeat match goal with
  | E : negb _ = false |- _ => apply negb_false_iff in E
  | E : negb _ = true |- _ => apply negb_true_iff in E
  | E : list_eqb _ _ = true |- _ => apply list_eqb_eq in E
  | E : (_ =? _) = true |- _ => apply Z.eqb_eq in E
  | E : (_ <? _) = false |- _ => apply Z.ltb_ge in E
  | E : _ || _ = false |- _ => apply orb_false_iff in E; destruct E
  end.

Section CheckP.
  Variables BtcBlock VbkBlock : Type.
  Variables (btc_hash btc_prev : BtcBlock -> list Z).
  Variable btc_pow : BtcBlock -> bool.
  Variable vbk_height : VbkBlock -> Z.
  Variables (vbk_hash_trim vbk_prev : VbkBlock -> list Z).
  Variables (vbk_plausible vbk_pow : VbkBlock -> bool).
  Variables sha256d sha256 : list Z -> list Z.
  Variable verify : list Z -> list Z -> list Z -> bool.
  Variable addr_from_pubkey : list Z -> list Z.
  Variable addr_checksum : list Z -> list Z.
  Variable ctxinfo_root : list Z -> option (list Z).
  Variable check_block_header : list Z -> list Z -> bool.
  Variable vbk_magic : option Z.
  Variable alt_id : Z.
  Variables max_size max_vbk max_vtb max_atv : Z.

  Notation check_btc_blocks := (check_btc_blocks BtcBlock btc_hash btc_prev btc_pow).
  Notation btc_chain := (btc_chain BtcBlock btc_hash btc_prev btc_pow).
  Notation check_vbk_block := (check_vbk_block VbkBlock vbk_plausible vbk_pow).
  Notation check_vbk_blocks := (check_vbk_blocks VbkBlock vbk_height vbk_hash_trim vbk_prev vbk_plausible vbk_pow).
  Notation vbk_chain := (vbk_chain VbkBlock vbk_height vbk_hash_trim vbk_prev vbk_plausible vbk_pow).
  Notation check_signature := (check_signature verify addr_from_pubkey addr_checksum).
  Notation check_publication_data := (check_publication_data ctxinfo_root check_block_header alt_id).
  Notation check_vbk_tx := (check_vbk_tx verify addr_from_pubkey addr_checksum ctxinfo_root check_block_header vbk_magic alt_id).
  Notation check_vbk_pop_tx := (check_vbk_pop_tx BtcBlock btc_hash btc_prev btc_pow sha256d verify addr_from_pubkey addr_checksum vbk_magic).
  Notation full_check_atv := (full_check_atv sha256 verify addr_from_pubkey addr_checksum ctxinfo_root check_block_header vbk_magic alt_id).
  Notation full_check_vtb := (full_check_vtb BtcBlock btc_hash btc_prev btc_pow sha256d sha256 verify addr_from_pubkey addr_checksum vbk_magic).
  Notation check_pop_data := (check_pop_data BtcBlock VbkBlock btc_hash btc_prev btc_pow vbk_plausible vbk_pow sha256d sha256 verify
                                addr_from_pubkey addr_checksum ctxinfo_root check_block_header vbk_magic alt_id
                                max_size max_vbk max_vtb max_atv).
  Notation PopDataT := (PopData BtcBlock VbkBlock).
  Notation VTBT := (VTB BtcBlock).
  Notation VbkPopTxT := (VbkPopTx BtcBlock).

  (** ** context blocks *)
  Fixpoint linked_from (last : list Z) (bs : list BtcBlock) : Prop :=
    match bs with [] => True | b :: r => btc_prev b = last /\ linked_from (btc_hash b) r end.
  Definition btc_linked (bs : list BtcBlock) : Prop :=
    match bs with [] => True | b :: r => linked_from (btc_hash b) r end.

  Lemma btc_chain_sound : forall bs last,
    btc_chain last bs = 0 -> Forall (fun b => btc_pow b = true) bs /\ linked_from last bs.
  Proof.
    induction bs as [|b r IH]; intros last H; cbn [CheckDefs.btc_chain] in H; [split; [constructor|exact I]|].
    unfold check_btc_block in H.
    repeat break_if_hyp H; try discriminate. boolfacts.
    apply IH in H. destruct H as [H1 H2]. split; [constructor; assumption | split; assumption].
  Qed.

  Lemma btc_chain_complete : forall bs last,
    Forall (fun b => btc_pow b = true) bs -> linked_from last bs -> btc_chain last bs = 0.
  Proof.
    induction bs as [|b r IH]; intros last Hp Hl; cbn [CheckDefs.btc_chain]; [reflexivity|].
    inversion Hp; subst. destruct Hl as [Hl1 Hl2]. unfold check_btc_block.
    rewrite H1. cbn [negb]. rewrite Hl1, list_eqb_refl. cbn [negb]. apply IH; assumption.
  Qed.

  Lemma btc_blocks_sound bs :
    check_btc_blocks bs = 0 -> Forall (fun b => btc_pow b = true) bs /\ btc_linked bs.
  Proof.
    destruct bs as [|b r]; cbn [CheckDefs.check_btc_blocks]; [intros _; split; [constructor|exact I]|].
    unfold check_btc_block. intros H. break_if_hyp H; try discriminate. boolfacts.
    apply btc_chain_sound in H. destruct H as [H1 H2]. split; [constructor; assumption | exact H2].
  Qed.

  Lemma btc_blocks_complete bs :
    Forall (fun b => btc_pow b = true) bs -> btc_linked bs -> check_btc_blocks bs = 0.
  Proof.
    destruct bs as [|b r]; cbn [CheckDefs.check_btc_blocks]; [reflexivity|].
    intros Hp Hl. inversion Hp; subst. unfold check_btc_block. rewrite H1. cbn [negb].
    apply btc_chain_complete; assumption.
  Qed.

  (** stand-alone VBK headers *)
  Lemma vbk_block_sound b : check_vbk_block b = 0 -> vbk_plausible b = true /\ vbk_pow b = true.
  Proof.
    unfold CheckDefs.check_vbk_block. intros H. repeat break_if_hyp H; try discriminate. boolfacts. auto.
  Qed.

  Fixpoint vlinked_from (h : Z) (last : list Z) (bs : list VbkBlock) : Prop :=
    match bs with
    | [] => True
    | b :: r => vbk_height b = h + 1 /\ vbk_prev b = last /\ vlinked_from (vbk_height b) (vbk_hash_trim b) r
    end.

  Lemma vbk_chain_sound : forall bs h last,
    vbk_chain h last bs = 0 ->
    Forall (fun b => vbk_plausible b = true /\ vbk_pow b = true) bs /\ vlinked_from h last bs.
  Proof.
    induction bs as [|b r IH]; intros h last H; cbn [CheckDefs.vbk_chain] in H; [split; [constructor|exact I]|].
    repeat break_if_hyp H; try discriminate. boolfacts.
    apply IH in H. destruct H as [Hfa Hlk].
    split; [constructor; [apply vbk_block_sound; assumption | exact Hfa] | repeat split; assumption].
  Qed.

  Lemma vbk_blocks_sound bs :
    check_vbk_blocks bs = 0 ->
    Forall (fun b => vbk_plausible b = true /\ vbk_pow b = true) bs /\
    match bs with [] => True | b :: r => vlinked_from (vbk_height b) (vbk_hash_trim b) r end.
  Proof.
    destruct bs as [|b r]; cbn [CheckDefs.check_vbk_blocks]; [intros _; split; [constructor|exact I]|].
    intros H. break_if_hyp H; try discriminate. boolfacts.
    apply vbk_chain_sound in H. destruct H as [H1 H2].
    split; [constructor; [apply vbk_block_sound; assumption | exact H1] | exact H2].
  Qed.

  (** ** signature *)
  Lemma check_signature_sound address pubkey txhash sig :
    check_signature address pubkey txhash sig = 0 ->
    address = addr_from_pubkey pubkey /\ verify txhash sig pubkey = true.
  Proof.
    unfold CheckDefs.check_signature, is_derived. intros H.
    break_ifs; try discriminate; boolfacts; try discriminate. auto.
  Qed.

  Lemma check_signature_complete pubkey txhash sig :
    verify txhash sig pubkey = true ->
    check_signature (addr_from_pubkey pubkey) pubkey txhash sig = 0.
  Proof.
    intros Hv. unfold CheckDefs.check_signature, is_derived.
    rewrite !list_eqb_refl. cbn [negb]. rewrite Hv. reflexivity.
  Qed.

  (** ** publication data *)
  Lemma pubdata_sound_aux p :
    check_publication_data p = 0 ->
    pd_identifier p = alt_id /\
    exists root, ctxinfo_root (pd_contextInfo p) = Some root /\ check_block_header (pd_header p) root = true.
  Proof.
    unfold CheckDefs.check_publication_data. intros H.
    break_if_hyp H; try discriminate. boolfacts.
    destruct (ctxinfo_root (pd_contextInfo p)) as [root|]; [|discriminate].
    break_if_hyp H; try discriminate. boolfacts. split; [assumption|]. exists root. auto.
  Qed.

  (** ** transactions *)
  Lemma vbk_tx_sound t :
    check_vbk_tx t = Ok ->
    t_outputs t <= 255 /\ t_network t = vbk_magic /\ 0 <= t_fee t /\
    check_publication_data (t_pubdata t) = 0 /\
    check_signature (t_address t) (t_pubkey t) (t_hash t) (t_signature t) = 0.
  Proof.
    unfold CheckDefs.check_vbk_tx. intros H.
    repeat break_if_hyp H; try discriminate. boolfacts.
    match goal with E : net_eqb _ _ = true |- _ => apply net_eqb_eq in E end.
    repeat split; auto; lia.
  Qed.

  Lemma pubdata_sound t :
    check_vbk_tx t = Ok ->
    pd_identifier (t_pubdata t) = alt_id /\
    exists root, ctxinfo_root (pd_contextInfo (t_pubdata t)) = Some root /\
                 check_block_header (pd_header (t_pubdata t)) root = true.
  Proof. intros H. apply vbk_tx_sound in H. apply pubdata_sound_aux. tauto. Qed.

  Lemma signature_sound_vbktx t :
    check_vbk_tx t = Ok ->
    t_address t = addr_from_pubkey (t_pubkey t) /\ verify (t_hash t) (t_signature t) (t_pubkey t) = true.
  Proof. intros H. apply vbk_tx_sound in H. apply check_signature_sound. tauto. Qed.

  Lemma pop_tx_stages (t : VbkPopTxT) :
    check_vbk_pop_tx t = Ok ->
    zlen_g (p_context _ t) <= 65535 /\ p_network _ t = vbk_magic /\
    check_btc_tx_for_pop _ t = 0 /\
    merkle_btc_code sha256d (p_path _ t) (p_btctx_hash _ t) (p_bop_root _ t) = 0 /\
    check_btc_blocks (p_context _ t) = 0 /\
    check_signature (p_address _ t) (p_pubkey _ t) (p_hash _ t) (p_signature _ t) = 0.
  Proof.
    unfold CheckDefs.check_vbk_pop_tx. intros H.
    repeat break_if_hyp H; try discriminate. boolfacts.
    match goal with E : net_eqb _ _ = true |- _ => apply net_eqb_eq in E end.
    repeat split; auto.
  Qed.

  Lemma btc_tx_for_pop_sound (t : VbkPopTxT) :
    zlen (p_btctx _ t) < 2 ^ 64 ->
    check_btc_tx_for_pop _ t = 0 ->
    length (p_pubbytes _ t) = 80%nat /\
    ((exists i, (i + 80 <= length (p_btctx _ t))%nat /\ firstn 80 (skipn i (p_btctx _ t)) = p_pubbytes _ t) \/
     split_embedding (p_pubbytes _ t) (p_btctx _ t)).
  Proof.
    intros Hsz. unfold check_btc_tx_for_pop. intros H.
    break_if_hyp H; try discriminate. boolfacts.
    assert (Hl : length (p_pubbytes _ t) = 80%nat) by (unfold zlen in *; lia).
    split; [exact Hl|].
    destruct (check_embedding (p_pubbytes _ t) (p_btctx _ t)) eqn:E; try discriminate.
    - apply embedding_sound in E; [|exact Hsz]. rewrite Hl in E. exact E.
    - lia.
  Qed.

  Lemma merkle_btc_code_sound m txhash root :
    merkle_btc_code sha256d m txhash root = 0 ->
    mp_subject m = txhash /\ btc_spec sha256d (mp_subject m) (mp_index m) 0 (mp_layers m) = root.
  Proof.
    unfold merkle_btc_code. intros H. repeat break_if_hyp H; try discriminate. boolfacts.
    split; [assumption|]. rewrite <- btc_root_spec. assumption.
  Qed.

  Lemma merkle_vbk_code_sound m txhash root :
    merkle_vbk_code sha256 m txhash root = 0 ->
    vp_subject m = txhash /\
    firstn 16 (vbk_spec sha256 (vp_treeIndex m) (vp_index m) (length (vp_layers m)) (vp_subject m) 0 (vp_layers m)) = root.
  Proof.
    unfold merkle_vbk_code. intros H. repeat break_if_hyp H; try discriminate. boolfacts.
    split; [assumption|]. rewrite <- vbk_root_spec. assumption.
  Qed.

  (** the Bitcoin side of a VTB: embedding, proof of inclusion, context chain with PoW *)
  Lemma btc_context_sound (t : VbkPopTxT) :
    zlen (p_btctx _ t) < 2 ^ 64 ->
    check_vbk_pop_tx t = Ok ->
    length (p_pubbytes _ t) = 80%nat /\
    ((exists i, (i + 80 <= length (p_btctx _ t))%nat /\ firstn 80 (skipn i (p_btctx _ t)) = p_pubbytes _ t) \/
     split_embedding (p_pubbytes _ t) (p_btctx _ t)) /\
    mp_subject (p_path _ t) = p_btctx_hash _ t /\
    btc_spec sha256d (mp_subject (p_path _ t)) (mp_index (p_path _ t)) 0 (mp_layers (p_path _ t)) = p_bop_root _ t /\
    Forall (fun b => btc_pow b = true) (p_context _ t) /\ btc_linked (p_context _ t).
  Proof.
    intros Hsz H. apply pop_tx_stages in H. destruct H as (_ & _ & He & Hm & Hc & _).
    apply btc_tx_for_pop_sound in He; [|exact Hsz]. apply merkle_btc_code_sound in Hm.
    apply btc_blocks_sound in Hc. tauto.
  Qed.

  Lemma signature_sound_poptx (t : VbkPopTxT) :
    check_vbk_pop_tx t = Ok ->
    p_network _ t = vbk_magic /\
    p_address _ t = addr_from_pubkey (p_pubkey _ t) /\
    verify (p_hash _ t) (p_signature _ t) (p_pubkey _ t) = true.
  Proof.
    intros H. apply pop_tx_stages in H. destruct H as (_ & Hn & _ & _ & _ & Hs).
    apply check_signature_sound in Hs. tauto.
  Qed.

  (** whole payloads *)
  Lemma vtb_sound (v : VTBT) :
    full_check_vtb v = Ok ->
    check_vbk_pop_tx (v_tx _ v) = Ok /\
    vp_subject (v_path _ v) = p_hash _ (v_tx _ v) /\
    firstn 16 (vbk_spec sha256 (vp_treeIndex (v_path _ v)) (vp_index (v_path _ v)) (length (vp_layers (v_path _ v)))
                        (vp_subject (v_path _ v)) 0 (vp_layers (v_path _ v))) = v_containing_root _ v.
  Proof.
    unfold CheckDefs.full_check_vtb. intros H.
    destruct (check_vbk_pop_tx (v_tx _ v)) eqn:E; [|discriminate].
    break_if_hyp H; try discriminate. boolfacts.
    match goal with E : merkle_vbk_code _ _ _ _ = 0 |- _ => apply merkle_vbk_code_sound in E; destruct E end.
    auto.
  Qed.

  Lemma atv_sound a :
    full_check_atv a = Ok ->
    check_vbk_tx (a_tx a) = Ok /\
    vp_subject (a_path a) = t_hash (a_tx a) /\
    firstn 16 (vbk_spec sha256 (vp_treeIndex (a_path a)) (vp_index (a_path a)) (length (vp_layers (a_path a)))
                        (vp_subject (a_path a)) 0 (vp_layers (a_path a))) = a_bop_root a.
  Proof.
    unfold CheckDefs.full_check_atv. intros H.
    destruct (check_vbk_tx (a_tx a)) eqn:E; [|discriminate].
    break_if_hyp H; try discriminate. boolfacts.
    match goal with E : merkle_vbk_code _ _ _ _ = 0 |- _ => apply merkle_vbk_code_sound in E; destruct E end.
    auto.
  Qed.

  (** ** honest payloads are accepted (premises: the oracles accept what an honest miner produces) *)
  Lemma honest_vtb_complete (v : VTBT) :
    let t := v_tx _ v in
    zlen_g (p_context _ t) <= 65535 ->
    p_network _ t = vbk_magic ->
    length (p_pubbytes _ t) = 80%nat ->
    (exists i, firstn 80 (skipn i (p_btctx _ t)) = p_pubbytes _ t) ->
    mp_subject (p_path _ t) = p_btctx_hash _ t ->
    btc_spec sha256d (mp_subject (p_path _ t)) (mp_index (p_path _ t)) 0 (mp_layers (p_path _ t)) = p_bop_root _ t ->
    Forall (fun b => btc_pow b = true) (p_context _ t) -> btc_linked (p_context _ t) ->
    p_address _ t = addr_from_pubkey (p_pubkey _ t) ->
    verify (p_hash _ t) (p_signature _ t) (p_pubkey _ t) = true ->
    vp_subject (v_path _ v) = p_hash _ t ->
    firstn 16 (vbk_spec sha256 (vp_treeIndex (v_path _ v)) (vp_index (v_path _ v)) (length (vp_layers (v_path _ v)))
                        (vp_subject (v_path _ v)) 0 (vp_layers (v_path _ v))) = v_containing_root _ v ->
    full_check_vtb v = Ok.
  Proof.
    intros t Hc Hn Hl He Hs Hr Hp Hlk Ha Hv Hos Hor.
    unfold CheckDefs.full_check_vtb, CheckDefs.check_vbk_pop_tx. fold t.
    destruct (Z.ltb_spec 65535 (zlen_g (p_context _ t))) as [|_]; [lia|].
    rewrite Hn. replace (net_eqb vbk_magic vbk_magic) with true by (symmetry; apply net_eqb_eq; reflexivity).
    cbn [negb].
    assert (Hemb : check_btc_tx_for_pop _ t = 0).
    { unfold check_btc_tx_for_pop. unfold zlen. rewrite Hl. cbn [negb Z.eqb Z.of_nat].
      replace (Z.of_nat 80 =? 80) with true by reflexivity. cbn [negb].
      unfold check_embedding. rewrite contiguous_complete; [reflexivity|]. rewrite Hl. exact He. }
    rewrite Hemb. cbn [Z.eqb negb].
    assert (Hm : merkle_btc_code sha256d (p_path _ t) (p_btctx_hash _ t) (p_bop_root _ t) = 0).
    { unfold merkle_btc_code. rewrite Hs, list_eqb_refl. cbn [negb].
      rewrite btc_root_spec. rewrite <- Hs, Hr, list_eqb_refl. reflexivity. }
    rewrite Hm. cbn [Z.eqb negb].
    rewrite btc_blocks_complete by assumption. cbn [Z.eqb negb].
    rewrite Ha. rewrite check_signature_complete by exact Hv. cbn [Z.eqb negb].
    unfold merkle_vbk_code. rewrite Hos, list_eqb_refl. cbn [negb].
    rewrite vbk_root_spec. rewrite <- Hos, Hor, list_eqb_refl. reflexivity.
  Qed.

  Lemma honest_atv_complete a :
    let t := a_tx a in
    t_outputs t <= 255 -> t_network t = vbk_magic -> 0 <= t_fee t ->
    pd_identifier (t_pubdata t) = alt_id ->
    (exists root, ctxinfo_root (pd_contextInfo (t_pubdata t)) = Some root /\
                  check_block_header (pd_header (t_pubdata t)) root = true) ->
    t_address t = addr_from_pubkey (t_pubkey t) ->
    verify (t_hash t) (t_signature t) (t_pubkey t) = true ->
    vp_subject (a_path a) = t_hash t ->
    firstn 16 (vbk_spec sha256 (vp_treeIndex (a_path a)) (vp_index (a_path a)) (length (vp_layers (a_path a)))
                        (vp_subject (a_path a)) 0 (vp_layers (a_path a))) = a_bop_root a ->
    full_check_atv a = Ok.
  Proof.
    intros t Ho Hn Hf Hid (root & Hroot & Hhdr) Ha Hv Hos Hor.
    unfold CheckDefs.full_check_atv, CheckDefs.check_vbk_tx. fold t.
    destruct (Z.ltb_spec 255 (t_outputs t)) as [|_]; [lia|].
    rewrite Hn. replace (net_eqb vbk_magic vbk_magic) with true by (symmetry; apply net_eqb_eq; reflexivity).
    cbn [negb]. destruct (Z.ltb_spec (t_fee t) 0) as [|_]; [lia|].
    unfold CheckDefs.check_publication_data. rewrite Hid, Z.eqb_refl. cbn [negb]. rewrite Hroot, Hhdr.
    cbn [negb Z.eqb]. rewrite Ha. rewrite check_signature_complete by exact Hv. cbn [Z.eqb negb].
    unfold merkle_vbk_code. rewrite Hos, list_eqb_refl. cbn [negb].
    rewrite vbk_root_spec. rewrite <- Hos, Hor, list_eqb_refl. reflexivity.
  Qed.

  (** ** memo flags and PopData *)
  Lemma memo_step_inv full checked :
    (checked = true -> full = true) ->
    let '(v, c') := memo_step full checked in (v = true -> full = true) /\ (c' = true -> full = true).
  Proof. unfold memo_step. destruct checked, full; cbn; intuition congruence. Qed.

  Definition flags_ok {P} (full : P -> bool) (ps : list P) (flags : list bool) : Prop :=
    Forall2 (fun p f => f = true -> full p = true) ps flags.

  Lemma run_memo_inv {P} (full : P -> bool) : forall ps flags,
    flags_ok full ps flags ->
    let '(vs, fs) := run_memo full ps flags in
    flags_ok full ps fs /\ Forall2 (fun p v => v = true -> full p = true) ps vs.
  Proof.
    induction ps as [|p pr IH]; intros flags H; inversion H; subst; cbn [run_memo].
    - split; constructor.
    - pose proof (memo_step_inv (full p) y H2) as Hm. destruct (memo_step (full p) y) as [v c'].
      specialize (IH _ H4). destruct (run_memo full pr l') as [vs fs]. destruct IH, Hm.
      split; constructor; assumption.
  Qed.

  Lemma first_false_none : forall l i, first_false l i = None -> Forall (fun b => b = true) l.
  Proof.
    induction l as [|b r IH]; intros i H; [constructor|]. cbn in H. destruct b; [|discriminate].
    constructor; [reflexivity | eapply IH; exact H].
  Qed.

  Lemma forall2_all {P} (full : P -> bool) ps vs :
    Forall2 (fun p v => v = true -> full p = true) ps vs -> Forall (fun b => b = true) vs ->
    Forall (fun p => full p = true) ps.
  Proof. induction 1; intros Hall; inversion Hall; subst; constructor; auto. Qed.

  (** what a fully valid PopData means *)
  Definition pop_full (d : PopDataT) : Prop :=
    d_estimate _ _ d <= max_size /\
    zlen_g (d_context _ _ d) <= max_vbk /\ zlen_g (d_vtbs _ _ d) <= max_vtb /\ zlen_g (d_atvs _ _ d) <= max_atv /\
    Forall (fun b => vbk_plausible b = true /\ vbk_pow b = true) (d_context _ _ d) /\
    Forall (fun v => full_check_vtb v = Ok) (d_vtbs _ _ d) /\
    Forall (fun a => full_check_atv a = Ok) (d_atvs _ _ d) /\
    NoDup (d_context_ids _ _ d) /\ NoDup (d_vtb_ids _ _ d) /\ NoDup (d_atv_ids _ _ d).

  Definition pop_inv (d : PopDataT) (st : pop_state) : Prop :=
    let '(fv, fa, checked) := st in
    flags_ok (fun v => is_ok (full_check_vtb v)) (d_vtbs _ _ d) fv /\
    flags_ok (fun a => is_ok (full_check_atv a)) (d_atvs _ _ d) fa /\
    (checked = true -> pop_full d).

  Lemma is_ok_Ok r : is_ok r = true -> r = Ok.
  Proof. destruct r; [reflexivity | discriminate]. Qed.

  Lemma check_pop_data_inv d st :
    pop_inv d st ->
    let '(r, st') := check_pop_data d st in
    pop_inv d st' /\ (r = Ok -> pop_full d).
  Proof.
    destruct st as [[fv fa] checked]. intros (Hv & Ha & Hc). unfold CheckDefs.check_pop_data.
    assert (Hsame : forall c s, pop_inv d (fv, fa, false) /\ (Err c s = Ok -> pop_full d)).
    { intros c s. split; [unfold pop_inv; repeat split; auto; discriminate | discriminate]. }
    destruct checked; [split; [unfold pop_inv; auto | intros _; apply Hc; reflexivity]|].
    destruct (Z.ltb_spec max_size (d_estimate _ _ d)); [apply Hsame|].
    destruct (Z.ltb_spec max_vbk (zlen_g (d_context _ _ d))); [apply Hsame|].
    destruct (Z.ltb_spec max_vtb (zlen_g (d_vtbs _ _ d))); [apply Hsame|].
    destruct (Z.ltb_spec max_atv (zlen_g (d_atvs _ _ d))); [apply Hsame|].
    pose proof (run_memo_inv _ _ _ Hv) as Rv. destruct (run_memo _ (d_vtbs _ _ d) fv) as [vres fv'].
    pose proof (run_memo_inv _ _ _ Ha) as Ra. destruct (run_memo _ (d_atvs _ _ d) fa) as [ares fa'].
    destruct Rv as [Rv1 Rv2], Ra as [Ra1 Ra2].
    assert (Hfail : forall c s, pop_inv d (fv', fa', false) /\ (Err c s = Ok -> pop_full d)).
    { intros c s. split; [unfold pop_inv; repeat split; auto; discriminate | discriminate]. }
    destruct (first_false (map _ (d_context _ _ d)) 0) eqn:Ec; [apply Hfail|].
    destruct (first_false vres 0) eqn:Ev; [apply Hfail|].
    destruct (first_false ares 0) eqn:Ea; [apply Hfail|].
    destruct (negb (check_duplicates _ _ d =? 0)) eqn:Ed; [apply Hfail|].
    assert (Hfull : pop_full d).
    { apply first_false_none in Ec, Ev, Ea. boolfacts.
      unfold check_duplicates in Ed. repeat break_if_hyp Ed; try discriminate.
      repeat match goal with E : has_dup [] _ = false |- _ => apply has_dup_NoDup in E end.
      unfold pop_full. repeat split; try assumption; try lia.
      - apply Forall_forall. intros b Hb. rewrite Forall_forall in Ec.
        apply vbk_block_sound. apply Z.eqb_eq. apply Ec. apply in_map_iff. exists b. auto.
      - pose proof (forall2_all _ _ _ Rv2 Ev) as Hf. eapply Forall_impl; [|exact Hf].
        intros v0 Hv0. apply is_ok_Ok. exact Hv0.
      - pose proof (forall2_all _ _ _ Ra2 Ea) as Hf. eapply Forall_impl; [|exact Hf].
        intros a0 Ha0. apply is_ok_Ok. exact Ha0. }
    split; [unfold pop_inv; split; [assumption | split; [assumption | intros _; exact Hfull]] | intros _; exact Hfull].
  Qed.

  (** the call sequences a node can issue against one PopData object and its payloads *)
  Inductive call := CallVTB (i : nat) | CallATV (i : nat) | CallPop.

  Fixpoint memo_at {P} (full : P -> bool) (ps : list P) (flags : list bool) (i : nat) : list bool :=
    match ps, flags with
    | p :: pr, f :: fr =>
      match i with
      | O => snd (memo_step (full p) f) :: fr
      | S i' => f :: memo_at full pr fr i'
      end
    | _, _ => flags
    end.

  Lemma memo_at_inv {P} (full : P -> bool) : forall ps flags i,
    flags_ok full ps flags -> flags_ok full ps (memo_at full ps flags i).
  Proof.
    induction ps as [|p pr IH]; intros flags i H; inversion H; subst; cbn [memo_at]; [constructor|].
    destruct i as [|i'].
    - pose proof (memo_step_inv (full p) y H2) as Hm. destruct (memo_step (full p) y) as [v c'].
      cbn [snd]. constructor; [tauto | assumption].
    - constructor; [assumption | apply IH; assumption].
  Qed.

  Definition do_call (d : PopDataT) (st : pop_state) (c : call) : pop_state :=
    let '(fv, fa, checked) := st in
    match c with
    | CallVTB i => (memo_at (fun v => is_ok (full_check_vtb v)) (d_vtbs _ _ d) fv i, fa, checked)
    | CallATV i => (fv, memo_at (fun a => is_ok (full_check_atv a)) (d_atvs _ _ d) fa i, checked)
    | CallPop => snd (check_pop_data d st)
    end.

  Definition init_state (d : PopDataT) : pop_state :=
    (repeat false (length (d_vtbs _ _ d)), repeat false (length (d_atvs _ _ d)), false).

  Lemma flags_ok_init {P} (full : P -> bool) ps : flags_ok full ps (repeat false (length ps)).
  Proof. induction ps; cbn; constructor; [discriminate | assumption]. Qed.

  (** a [checked] flag is only ever set after a complete success: for every sequence of
      checkVTB / checkATV / checkPopData calls on freshly deserialised (unchecked) payloads *)
  Lemma checked_memo_sound d calls :
    pop_inv d (fold_left (do_call d) calls (init_state d)).
  Proof.
    assert (H0 : pop_inv d (init_state d)).
    { unfold init_state, pop_inv. split; [apply flags_ok_init | split; [apply flags_ok_init | discriminate]]. }
    revert H0. generalize (init_state d). induction calls as [|c r IH]; intros st H; cbn [fold_left]; [exact H|].
    apply IH. destruct st as [[fv fa] checked]. destruct c; cbn [do_call].
    - destruct H as (Hv & Ha & Hc). split; [apply memo_at_inv; exact Hv | split; assumption].
    - destruct H as (Hv & Ha & Hc). split; [exact Hv | split; [apply memo_at_inv; exact Ha | exact Hc]].
    - pose proof (check_pop_data_inv d _ H) as Hp. destruct (check_pop_data d (fv, fa, checked)) as [r0 st'].
      cbn [snd]. tauto.
  Qed.

  (** checkPopData = true (in any reachable state) => limits, valid payloads, no duplicate ids *)
  Lemma popdata_limits d calls :
    fst (check_pop_data d (fold_left (do_call d) calls (init_state d))) = Ok -> pop_full d.
  Proof.
    intros H. pose proof (checked_memo_sound d calls) as Hi.
    pose proof (check_pop_data_inv d _ Hi) as Hp.
    destruct (check_pop_data d (fold_left (do_call d) calls (init_state d))) as [r st']. cbn [fst] in H. tauto.
  Qed.
End CheckP.
