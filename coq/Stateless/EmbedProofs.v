(** Proofs about the embedding search (model: EmbedDefs.v). *)
From Coq Require Import ZArith List Bool Lia Arith.
From VB Require Import Stateless.EmbedDefs.
Import ListNotations.
Local Open Scope Z_scope.

(** * list helpers *)
Lemma nth_firstn_lt {A} (l : list A) d : forall m k, (k < m)%nat -> nth k (firstn m l) d = nth k l d.
Proof.
  induction l as [|a l IH]; intros m k H; destruct m, k; cbn; try lia; auto.
  apply IH. lia.
Qed.

Lemma nth_skipn_add {A} (l : list A) d : forall i k, nth k (skipn i l) d = nth (i + k) l d.
Proof.
  induction l as [|a l IH]; intros i k; destruct i; cbn; auto.
  destruct k; reflexivity.
Qed.

Lemma list_eqb_eq : forall a b, list_eqb a b = true -> a = b.
Proof.
  induction a as [|x a IH]; intros [|y b] H; cbn in H; try discriminate; auto.
  apply andb_prop in H. destruct H as [H1 H2]. apply Z.eqb_eq in H1. subst. f_equal. auto.
Qed.

Lemma list_eqb_refl : forall a, list_eqb a a = true.
Proof. induction a as [|x a IH]; cbn; auto. rewrite Z.eqb_refl. exact IH. Qed.

(** * contiguous search *)
Lemma inner_loop_spec tx data i : forall fuel j,
  inner_loop tx data i j fuel = true <->
  (forall k, (j <= k < j + fuel)%nat -> nth (i + k) tx 0 = nth k data 0).
Proof.
  induction fuel as [|f IH]; intros j; cbn [inner_loop].
  - split; [intros _ k Hk; lia | reflexivity].
  - destruct (Z.eqb_spec (nth (i + j) tx 0) (nth j data 0)) as [E|E].
    + rewrite IH. split; intros H k Hk.
      * destruct (Nat.eq_dec k j) as [->|Hne]; [exact E | apply H; lia].
      * apply H; lia.
    + split; [discriminate | intros H; exfalso; apply E, H; lia].
Qed.

Lemma match_at_iff tx data i m :
  m = length data -> (i + m <= length tx)%nat ->
  (inner_loop tx data i 0 m = true <-> firstn m (skipn i tx) = data).
Proof.
  intros Hm Hle. rewrite inner_loop_spec. split; intros H.
  - apply nth_ext with (d := 0) (d' := 0).
    + rewrite firstn_length, skipn_length. lia.
    + intros k Hk. rewrite firstn_length, skipn_length in Hk.
      rewrite nth_firstn_lt by lia. rewrite nth_skipn_add. apply H. lia.
  - intros k Hk. rewrite <- H. rewrite nth_firstn_lt by lia. rewrite nth_skipn_add. reflexivity.
Qed.

Lemma outer_loop_spec tx data : forall fuel s,
  outer_loop tx data s fuel = true <->
  exists i, (s <= i < s + fuel)%nat /\ inner_loop tx data i 0 (length data) = true.
Proof.
  induction fuel as [|f IH]; intros s; cbn [outer_loop].
  - split; [discriminate | intros (i & Hi & _); lia].
  - destruct (inner_loop tx data s 0 (length data)) eqn:E.
    + split; [intros _; exists s; split; [lia | exact E] | reflexivity].
    + rewrite IH. split; intros (i & Hi & Hm).
      * exists i; split; [lia | exact Hm].
      * exists i; split; [|exact Hm]. destruct (Nat.eq_dec i s) as [->|]; [congruence | lia].
Qed.

(** accepted by the double loop => the data occurs contiguously (all byte lists) *)
Lemma contiguous_sound data tx :
  contiguous_search data tx = true ->
  exists i, (i + length data <= length tx)%nat /\ firstn (length data) (skipn i tx) = data.
Proof.
  unfold contiguous_search.
  destruct (Nat.leb_spec (length data) (length tx)) as [Hle|]; [|discriminate].
  rewrite outer_loop_spec. intros (i & Hi & Hm). exists i.
  assert (Hb : (i + length data <= length tx)%nat) by lia. split; [exact Hb|].
  destruct (match_at_iff tx data i (length data) eq_refl Hb) as [H1 _]. exact (H1 Hm).
Qed.

(** the data occurs contiguously => accepted (all byte lists) *)
Lemma contiguous_complete data tx :
  (exists i, firstn (length data) (skipn i tx) = data) -> contiguous_search data tx = true.
Proof.
  intros (i & H). unfold contiguous_search.
  destruct data as [|d data'].
  - cbn [length Nat.leb]. rewrite Nat.sub_0_r, Nat.add_1_r. reflexivity.
  - assert (Hl := f_equal (@length Z) H). rewrite firstn_length, skipn_length in Hl.
    set (m := length (d :: data')) in *.
    assert (Hm : (1 <= m)%nat) by (subst m; cbn; lia).
    assert (Hb : (i + m <= length tx)%nat) by lia.
    destruct (Nat.leb_spec m (length tx)) as [_|]; [|lia].
    rewrite outer_loop_spec. exists i. split; [lia|].
    destruct (match_at_iff tx (d :: data') i m eq_refl Hb) as [_ H2]. exact (H2 H).
Qed.

(** the code before fix 5481700d accepted non-occurrences: subsequence instead of substring *)
Lemma contiguous_v0_refuted :
  exists tx data, contiguous_search_v0 data tx = true /\
                  ~ exists i, firstn (length data) (skipn i tx) = data.
Proof.
  exists [1; 0; 2], [1; 2]. split; [vm_compute; reflexivity|].
  intros (i & H). destruct i as [|[|[|i]]]; cbn in H; try discriminate.
  destruct i; cbn in H; discriminate.
Qed.

(** * containsSplit: soundness *)
Definition magic_at (tx : list Z) (p : Z) : Prop :=
  byte_at tx p = 146 /\ byte_at tx (p + 1) = 122 /\ byte_at tx (p + 2) = 89.

(** a chunk (start, length) denotes genuine bytes of the transaction *)
Definition chunk_ok (tx : list Z) (c : Z * Z) : Prop :=
  0 <= fst c /\ 0 <= snd c /\ (snd c = 0 \/ fst c + snd c <= zlen tx).

Definition chunk_bytes (tx : list Z) (c : Z * Z) : list Z := slice tx (fst c) (snd c).

(** "well-formed split": magic 92 7a 59 at [p] with at least 3 more bytes behind it, the descriptor
    byte announces exactly [length chunks] chunks, every chunk lies inside the transaction and the
    chunks concatenate to the data *)
Definition split_embedding (data tx : list Z) : Prop :=
  exists p chunks,
    0 <= p /\ p + 5 < zlen tx /\ magic_at tx p /\
    Z.of_nat (length chunks) = fst (fst (decode_desc (byte_at tx (p + 3)))) /\
    Forall (chunk_ok tx) chunks /\
    concat (map (chunk_bytes tx) chunks) = data.

Ltac break_match_hyp H :=
  match type of H with context [match ?x with _ => _ end] => destruct x eqn:? end.

Lemma u64_small z : 0 <= z < 2 ^ 64 -> u64 z = z.
Proof. intros. unfold u64. apply Z.mod_small. lia. Qed.
Lemma u64_range z : 0 <= u64 z < 2 ^ 64.
Proof. unfold u64. apply Z.mod_pos_bound. lia. Qed.
Lemma u32_range z : 0 <= u32 z < 2 ^ 32.
Proof. unfold u32. apply Z.mod_pos_bound. lia. Qed.

Lemma chunk_step_ok g tx datalen bits o s w cdl i pos total pos' len :
  zlen tx < 2 ^ 64 ->
  chunk_step g tx datalen bits o s w cdl i pos total = SOk pos' len ->
  chunk_ok tx (pos', len).
Proof.
  intros Hsz H. unfold chunk_step in H.
  repeat break_match_hyp H; try discriminate.
  inversion H; subst pos' len; clear H.
  unfold chunk_ok; cbn [fst snd].
  match goal with |- 0 <= u64 ?a /\ 0 <= u32 ?b /\ _ =>
    pose proof (u64_range a) as Hp; pose proof (u32_range b) as Hl;
    set (P := u64 a) in *; set (L := u32 b) in * end.
  split; [lia|]. split; [lia|].
  match goal with E : (u64 (zlen tx - P) <? L) = false |- _ => apply Z.ltb_ge in E; rename E into Hrem end.
  match goal with E : (zlen tx <? P) && _ = false |- _ => apply andb_false_iff in E; rename E into Hoob end.
  destruct (Z.eq_dec L 0) as [|Hne]; [left; assumption|right].
  destruct Hoob as [Hoob|Hoob]; [apply Z.ltb_ge in Hoob | apply Z.ltb_ge in Hoob; lia].
  rewrite u64_small in Hrem by (unfold zlen in *; lia). lia.
Qed.

Lemma chunk_loop_sound g tx datalen bits o s w cdl :
  zlen tx < 2 ^ 64 ->
  forall k pos total acc ext,
    chunk_loop g tx datalen bits o s w cdl k pos total acc = CDone ext ->
    exists chunks, length chunks = k /\ Forall (chunk_ok tx) chunks /\
                   ext = acc ++ concat (map (chunk_bytes tx) chunks).
Proof.
  intros Hsz. induction k as [|k IH]; intros pos total acc ext H; cbn [chunk_loop] in H.
  - inversion H; subst. exists []. cbn. rewrite app_nil_r. auto.
  - destruct (chunk_step g tx datalen bits o s w cdl (Z.of_nat k) pos total) as [p' l| | |] eqn:E;
      try discriminate.
    apply IH in H. destruct H as (cs & Hlen & Hok & Hext).
    exists ((p', l) :: cs). split; [cbn; lia|]. split.
    + constructor; [eapply chunk_step_ok; eassumption | exact Hok].
    + rewrite Hext. cbn [map concat]. unfold chunk_bytes at 2. cbn [fst snd].
      rewrite <- app_assoc. reflexivity.
Qed.

Lemma decode_chunks_range d :
  let n := fst (fst (decode_desc d)) in 0 <= n <= 15.
Proof.
  unfold decode_desc; cbn [fst].
  destruct (Z.testbit d 4), (Z.testbit d 5), (Z.testbit d 6), (Z.testbit d 7); lia.
Qed.

Lemma loop_count n : 0 <= n <= 15 -> Z.of_nat (Z.to_nat (i32 (u32 (n - 1)) + 1)) = n.
Proof.
  intros H.
  assert (n = 0 \/ n = 1 \/ n = 2 \/ n = 3 \/ n = 4 \/ n = 5 \/ n = 6 \/ n = 7 \/ n = 8 \/ n = 9 \/
          n = 10 \/ n = 11 \/ n = 12 \/ n = 13 \/ n = 14 \/ n = 15) as Hn by lia.
  repeat (destruct Hn as [->|Hn]; [vm_compute; reflexivity|]). subst. vm_compute. reflexivity.
Qed.

Lemma try_descriptor_sound g data tx p :
  zlen tx < 2 ^ 64 ->
  try_descriptor_gen g data tx p = Found ->
  exists chunks,
    Z.of_nat (length chunks) = fst (fst (decode_desc (byte_at tx p))) /\
    Forall (chunk_ok tx) chunks /\ concat (map (chunk_bytes tx) chunks) = data.
Proof.
  intros Hsz H. unfold try_descriptor_gen in H.
  pose proof (decode_chunks_range (byte_at tx p)) as Hr.
  destruct (decode_desc (byte_at tx p)) as [[n o] s]. cbn [fst] in *.
  break_match_hyp H; [discriminate|].
  break_match_hyp H; try discriminate.
  break_match_hyp H; try discriminate.
  match goal with E : chunk_loop _ _ _ _ _ _ _ _ _ _ _ _ = CDone _ |- _ =>
    apply chunk_loop_sound in E; [|exact Hsz]; destruct E as (cs & Hlen & Hok & Hext) end.
  exists cs. split; [rewrite Hlen; apply loop_count; exact Hr|]. split; [exact Hok|].
  match goal with E : list_eqb _ _ = true |- _ => apply list_eqb_eq in E; rewrite E end.
  rewrite Hext. reflexivity.
Qed.

Lemma scan_sound g data tx :
  zlen tx < 2 ^ 64 ->
  forall fuel pos, 0 <= pos -> scan_gen g data tx pos fuel = VTrue -> split_embedding data tx.
Proof.
  intros Hsz. induction fuel as [|f IH]; intros pos Hpos H; cbn [scan_gen] in H; [discriminate|].
  destruct (Z.leb_spec (zlen tx - pos) 5) as [|Hrem]; [discriminate|].
  destruct (Z.eqb_spec (byte_at tx pos) 146) as [E0|]; cbn [negb] in H; [|apply IH in H; [exact H|lia]].
  destruct (Z.eqb_spec (byte_at tx (pos + 1)) 122) as [E1|]; cbn [negb] in H; [|apply IH in H; [exact H|lia]].
  destruct (Z.eqb_spec (byte_at tx (pos + 2)) 89) as [E2|]; cbn [negb] in H; [|apply IH in H; [exact H|lia]].
  destruct (try_descriptor_gen g data tx (pos + 3)) eqn:Et; try discriminate.
  - apply try_descriptor_sound in Et; [|exact Hsz]. destruct Et as (cs & Hn & Hok & Hcat).
    exists pos, cs. repeat split; try assumption; lia.
  - apply IH in H; [exact H|lia].
Qed.

(** containsSplit accepts => a well-formed split embedding exists (all byte lists) *)
Lemma split_sound data tx :
  zlen tx < 2 ^ 64 -> containsSplit data tx = VTrue -> split_embedding data tx.
Proof. intros Hsz H. unfold containsSplit, scan in H. eapply scan_sound; [exact Hsz| |exact H]. lia. Qed.

(** checkBitcoinTransactionForPoPData accepts => contiguous occurrence or well-formed split *)
Lemma embedding_sound data tx :
  zlen tx < 2 ^ 64 -> check_embedding data tx = VTrue ->
  (exists i, (i + length data <= length tx)%nat /\ firstn (length data) (skipn i tx) = data) \/
  split_embedding data tx.
Proof.
  intros Hsz H. unfold check_embedding in H.
  destruct (contiguous_search data tx) eqn:E.
  - left. apply contiguous_sound. exact E.
  - right. apply split_sound; assumption.
Qed.

(** * no read outside the transaction buffer (after fix a50e5e9b) *)
Lemma i32_range z : - 2 ^ 31 <= i32 z < 2 ^ 31.
Proof. unfold i32. pose proof (Z.mod_pos_bound (z + 2 ^ 31) (2 ^ 32)). lia. Qed.

Lemma chunk_step_in_buf tx datalen bits o s w cdl i pos total :
  zlen tx < 2 ^ 64 -> 0 <= pos <= zlen tx ->
  match chunk_step true tx datalen bits o s w cdl i pos total with
  | SOobBuf => False
  | SOk p' l => 0 <= u64 (p' + l) <= zlen tx
  | _ => True
  end.
Proof.
  intros Hsz Hpos. unfold chunk_step.
  destruct (get_int bits _ _) as [offv|]; [|exact I].
  pose proof (i32_range offv) as Hoff. set (off := i32 offv) in *.
  match goal with |- context [match ?x with Some _ => _ | None => _ end] => destruct x as [lenv|] end; [|exact I].
  pose proof (u32_range lenv) as Hl. set (L := u32 lenv) in *.
  cbn [andb].
  destruct (Z.ltb_spec off 0) as [|Hnn]; cbn [orb]; [exact I|].
  rewrite (u64_small (zlen tx - pos)) by lia.
  rewrite (u64_small off) by lia.
  destruct (Z.ltb_spec (zlen tx - pos) off) as [|Hfit]; [exact I|].
  rewrite (u64_small (pos + off)) by lia.
  rewrite (u64_small (zlen tx - (pos + off))) by lia.
  destruct (Z.ltb_spec (zlen tx - (pos + off)) L) as [|Hlen]; [exact I|].
  destruct (Z.ltb_spec (zlen tx) (pos + off)) as [|_]; [lia|]. cbn [andb].
  rewrite u64_small by lia. lia.
Qed.

Lemma chunk_loop_in_buf tx datalen bits o s w cdl :
  zlen tx < 2 ^ 64 ->
  forall k pos total acc, 0 <= pos <= zlen tx ->
    chunk_loop true tx datalen bits o s w cdl k pos total acc <> COobBuf.
Proof.
  intros Hsz. induction k as [|k IH]; intros pos total acc Hpos; cbn [chunk_loop]; [discriminate|].
  pose proof (chunk_step_in_buf tx datalen bits o s w cdl (Z.of_nat k) pos total Hsz Hpos) as Hs.
  destruct (chunk_step true tx datalen bits o s w cdl (Z.of_nat k) pos total); try discriminate.
  - apply IH. exact Hs.
  - destruct Hs.
Qed.

Lemma try_descriptor_in_buf data tx p : zlen tx < 2 ^ 64 -> try_descriptor data tx p <> OobBuf.
Proof.
  intros Hsz. unfold try_descriptor, try_descriptor_gen.
  destruct (decode_desc (byte_at tx p)) as [[n o] s].
  match goal with |- context [if ?c then _ else _] => destruct c end; [discriminate|].
  match goal with |- context [chunk_loop true ?a ?b ?c ?d ?e ?f ?g ?h 0 0 []] =>
    pose proof (chunk_loop_in_buf a b c d e f g Hsz h 0 0 []) as Hc;
    destruct (chunk_loop true a b c d e f g h 0 0 []) end; try discriminate.
  - match goal with |- context [if ?c then _ else _] => destruct c end; discriminate.
  - exfalso. apply Hc; [unfold zlen; lia | reflexivity].
Qed.

Lemma scan_in_buf data tx : zlen tx < 2 ^ 64 -> forall fuel pos, scan data tx pos fuel <> VOobBuf.
Proof.
  intros Hsz. unfold scan. induction fuel as [|f IH]; intros pos; cbn [scan_gen]; [discriminate|].
  repeat match goal with |- context [if ?c then _ else _] => destruct c end; try discriminate; try apply IH.
  pose proof (try_descriptor_in_buf data tx (pos + 3) Hsz) as Ht. unfold try_descriptor in Ht.
  destruct (try_descriptor_gen true data tx (pos + 3)); try discriminate; try apply IH.
  exfalso. apply Ht. reflexivity.
Qed.

(** containsSplit never reads outside the transaction buffer (all inputs) *)
Lemma split_no_oob_buf data tx : zlen tx < 2 ^ 64 -> containsSplit data tx <> VOobBuf.
Proof. intros Hsz. unfold containsSplit. apply scan_in_buf. exact Hsz. Qed.

(** before fix a50e5e9b it could (setPosition was unchecked and remaining() = m_Size - m_Pos
    wraps): 6-byte transaction 92 7a 59 10 f0 00 -> one chunk at offset 15 of a 6-byte buffer, 80
    bytes are read from there. Documentation of the repaired defect. *)
Definition oob_tx : list Z := [146; 122; 89; 16; 240; 0].
Lemma split_oob_v0_refuted :
  exists data tx, length data = 80%nat /\ zlen tx < 2 ^ 64 /\ containsSplit_v0 data tx = VOobBuf.
Proof. exists (repeat 1 80), oob_tx. split; [reflexivity|]. split; vm_compute; reflexivity. Qed.

(** * containsSplit: completeness, and where it fails *)

Lemma scan_skip data tx p : forall d pos fuel,
  p = pos + Z.of_nat d -> 0 <= pos -> p + 5 < zlen tx -> (d < fuel)%nat ->
  (forall q, pos <= q < p -> byte_at tx q <> 146) ->
  scan data tx pos fuel = scan data tx p (fuel - d).
Proof.
  unfold scan. induction d as [|d IH]; intros pos fuel Hp Hpos Hlen Hf Hno.
  - replace p with pos by lia. rewrite Nat.sub_0_r. reflexivity.
  - destruct fuel as [|f]; [lia|]. cbn [scan_gen].
    destruct (Z.leb_spec (zlen tx - pos) 5) as [|_]; [lia|].
    destruct (Z.eqb_spec (byte_at tx pos) 146) as [E|_]; [exfalso; apply (Hno pos); [lia|exact E]|].
    cbn [negb]. rewrite (IH (pos + 1) f); try lia.
    + reflexivity.
    + intros q Hq. apply Hno. lia.
Qed.

(** a split embedding whose descriptor decodes to the data at magic offset [p] is accepted,
    PROVIDED no byte 0x92 precedes the magic (premise of DESIGN 8-F11, made precise: the scan
    neither re-synchronises after a partial magic match nor survives an earlier magic whose
    descriptor runs out of the buffer) *)
Lemma split_complete data tx p :
  0 <= p -> p + 5 < zlen tx -> magic_at tx p ->
  try_descriptor data tx (p + 3) = Found ->
  (forall q, 0 <= q < p -> byte_at tx q <> 146) ->
  containsSplit data tx = VTrue.
Proof.
  intros Hp Hlen (M0 & M1 & M2) Ht Hno. unfold containsSplit.
  assert (Hpl : (Z.to_nat p < S (length tx))%nat) by (unfold zlen in Hlen; lia).
  rewrite (scan_skip data tx p (Z.to_nat p) 0 (S (length tx))); try lia; [|exact Hno].
  destruct (S (length tx) - Z.to_nat p)%nat as [|f] eqn:Ef; [lia|]. unfold scan. cbn [scan_gen].
  destruct (Z.leb_spec (zlen tx - p) 5) as [|_]; [lia|].
  rewrite M0, M1, M2. rewrite !Z.eqb_refl. cbn [negb]. unfold try_descriptor in Ht. rewrite Ht. reflexivity.
Qed.

(** the premise cannot be dropped (confirmed F11): 91-byte transaction = the 80 data bytes with one
    foreign byte after the first 40, a stray magic 92 7a 59 with descriptor ff (15 chunks, needs a
    43-byte chunk table, 6 bytes remain -> "bad-descriptor-bytes" -> return false), then the honest
    magic + descriptor 23 05 02 (2 chunks: offset 0 length 40, offset +1 rest). *)
Definition f11_data : list Z := map Z.of_nat (seq 1 80).
Definition f11_tx : list Z :=
  firstn 40 f11_data ++ [255] ++ skipn 40 f11_data ++ [146; 122; 89; 255] ++ [146; 122; 89; 35; 5; 2].
Lemma split_complete_refuted :
  exists data tx p,
    length data = 80%nat /\ 0 <= p /\ p + 5 < zlen tx /\ magic_at tx p /\
    try_descriptor data tx (p + 3) = Found /\
    containsSplit data tx = VFalse 1.
Proof.
  exists f11_data, f11_tx, 85.
  split; [reflexivity|]. split; [lia|]. split; [vm_compute; reflexivity|].
  split; [repeat split; vm_compute; reflexivity|]. split; vm_compute; reflexivity.
Qed.

(** second way to lose an honest embedding: a byte 0x92 directly before the magic makes the scanner
    consume the real 0x92 as the "second magic byte" and miss the occurrence *)
Definition resync_tx : list Z :=
  firstn 40 f11_data ++ [255] ++ skipn 40 f11_data ++ [146] ++ [146; 122; 89; 35; 5; 2].
Lemma split_resync_refuted :
  exists data tx p,
    length data = 80%nat /\ 0 <= p /\ p + 5 < zlen tx /\ magic_at tx p /\
    try_descriptor data tx (p + 3) = Found /\
    containsSplit data tx = VFalse 0.
Proof.
  exists f11_data, resync_tx, 82.
  split; [reflexivity|]. split; [lia|]. split; [vm_compute; reflexivity|].
  split; [repeat split; vm_compute; reflexivity|]. split; vm_compute; reflexivity.
Qed.
