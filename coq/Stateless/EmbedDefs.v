(** Embedding of the 80 publication bytes in the Bitcoin transaction of a VTB:
    [checkBitcoinTransactionForPoPData] (contiguous search, then
    [containsSplit]) of src/pop/stateless_validation.cpp:80-220, modelled as
    coded. Bytes are [Z] (0..255), byte strings are [list Z]. C++ widths are
    written out: [u32] = uint32_t, [u64] = size_t, [i32] = int. Executable; no
    proofs in this file. *)
From Coq Require Import ZArith List Bool.
Import ListNotations.
Local Open Scope Z_scope.

Definition u32 (z : Z) : Z := z mod 2 ^ 32.
Definition u64 (z : Z) : Z := z mod 2 ^ 64.
Definition i32 (z : Z) : Z := (z + 2 ^ 31) mod 2 ^ 32 - 2 ^ 31.

Definition zlen (l : list Z) : Z := Z.of_nat (length l).
Definition byte_at (tx : list Z) (pos : Z) : Z := nth (Z.to_nat pos) tx 0.
(** [slice tx pos len]: the bytes [tx[pos .. pos+len)] (what a Slice over the buffer denotes) *)
Definition slice (tx : list Z) (pos len : Z) : list Z :=
  firstn (Z.to_nat len) (skipn (Z.to_nat pos) tx).

Fixpoint list_eqb (a b : list Z) : bool :=
  match a, b with
  | [], [] => true
  | x :: a', y :: b' => (x =? y) && list_eqb a' b'
  | _, _ => false
  end.

(** ** Contiguous search (stateless_validation.cpp:195-211, after fix 5481700d)

    for (i = 0; i < n - m + 1; ++i) { found = true;
      for (j = 0; j < m; ++j) if (tx[i + j] != data[j]) { found = false; break; }
      if (found) return true; }
    guarded by n >= m, so the size_t expression n - m + 1 cannot wrap
    (n, m are lengths of in-memory vectors). *)
Fixpoint inner_loop (tx data : list Z) (i j fuel : nat) : bool :=
  match fuel with
  | O => true                                  (* j reached m: found stays true *)
  | S f => if nth (i + j) tx 0 =? nth j data 0 then inner_loop tx data i (S j) f else false
  end.

Fixpoint outer_loop (tx data : list Z) (i fuel : nat) : bool :=
  match fuel with
  | O => false
  | S f => if inner_loop tx data i 0 (length data) then true else outer_loop tx data (S i) f
  end.

Definition contiguous_search (data tx : list Z) : bool :=
  if (length data <=? length tx)%nat
  then outer_loop tx data 0 (length tx - length data + 1)
  else false.

(** The code before fix 5481700d: [for (i = 0, j = 0; ...) { found = true; for (; j < m; ++j) ...]
    — the inner index survives a mismatch. One step either advances [j] (match) or [i]
    (mismatch), so [fuel = n + m + 1] steps suffice. Kept as documentation of the repaired defect. *)
Fixpoint v0_loop (tx data : list Z) (i j fuel : nat) : bool :=
  match fuel with
  | O => false
  | S f =>
    if (length tx - length data + 1 <=? i)%nat then false      (* outer condition fails *)
    else if (length data <=? j)%nat then true                  (* inner loop done, found = true *)
    else if nth (i + j) tx 0 =? nth j data 0 then v0_loop tx data i (S j) f
    else v0_loop tx data (S i) j f
  end.

Definition contiguous_search_v0 (data tx : list Z) : bool :=
  if (length data <=? length tx)%nat
  then v0_loop tx data 0 0 (length tx + length data + 2)
  else false.

(** ** containsSplit (stateless_validation.cpp:80-179) *)

(** descriptor byte -> (chunks, offsetLength, sectionLength); the loop over the 8 bits
    adds [1 << i] resp. [1 << (i-4)] to uint32 counters starting at 0/4/4: no wrap. *)
Definition decode_desc (d : Z) : Z * Z * Z :=
  let b (i : Z) (v : Z) := if Z.testbit d i then v else 0 in
  let sectionLength := 4 + b 0 1 + b 1 2 in
  let offsetLength := 4 + b 2 4 + b 3 8 in
  let chunks := b 4 1 + b 5 2 + b 6 4 + b 7 8 in
  (chunks, offsetLength, sectionLength).

(** uint32 chunkDescriptorBitLength = chunks*offsetLength + sectionLength*(chunks-1)  — [chunks-1]
    wraps for chunks = 0 *)
Definition desc_bit_length (chunks offsetLength sectionLength : Z) : Z :=
  u32 (u32 (chunks * offsetLength) + u32 (sectionLength * u32 (chunks - 1))).
(** uint32 (bl + 8 - bl % 8) / 8 *)
Definition desc_bytes_length (bl : Z) : Z := u32 (bl + 8 - bl mod 8) / 8.
Definition desc_waste (bytesLen bl : Z) : Z := u32 (u32 (bytesLen * 8) - bl).

(** bits of the chunk table: the bytes reversed, each byte least significant bit first *)
Definition byte_bits (b : Z) : list bool :=
  map (fun i => Z.testbit b (Z.of_nat i)) (seq 0 8).
Definition table_bits (bytes : list Z) : list bool := flat_map byte_bits (rev bytes).

(** chunkDescriptorLength: 1 + index of the last set bit, 0 if none *)
Fixpoint last_set_aux (bits : list bool) (idx : Z) (acc : Z) : Z :=
  match bits with
  | [] => acc
  | b :: r => last_set_aux r (idx + 1) (if b then idx + 1 else acc)
  end.
Definition last_set (bits : list bool) : Z := last_set_aux bits 0 0.

(** getIntFromBits(bits, from, to): sum of bits[j] << (j - from) for from <= j < to; the raw
    [bits[j]] on the std::vector<bool> is an out-of-range read when j >= bits.size(): [None]. *)
Fixpoint get_int_aux (bits : list bool) (from : Z) (k : nat) (cnt : nat) : option Z :=
  match cnt with
  | O => Some 0
  | S c =>
    match nth_error bits (Z.to_nat from + k) with
    | None => None
    | Some b =>
      match get_int_aux bits from (S k) c with
      | None => None
      | Some v => Some ((if b then Z.shiftl 1 (Z.of_nat k) else 0) + v)
      end
    end
  end.
Definition get_int (bits : list bool) (from to : Z) : option Z :=
  get_int_aux bits from 0 (Z.to_nat (to - from)).

(** outcome of the attempt at one magic occurrence *)
Inductive attempt :=
| Found          (* extracted == pop_data: return true *)
| NotFound       (* extracted != pop_data: setPosition(lastPos), keep scanning *)
| Invalid (reason : Z)  (* return state.Invalid(...): the whole function returns false;
                           1 bad-descriptor-bytes, 2 bad-section-offset, 3 bad-section-length *)
| OobBits        (* vector<bool> read past its size *)
| OobBuf.        (* readSlice taken with m_Pos > m_Size (remaining() wrapped) and a non-empty slice:
                    bytes outside the transaction buffer are read *)

Inductive chunk_res :=
| CDone (extracted : list Z)
| CInvalid (reason : Z) | COobBits | COobBuf.

(** one iteration of the chunk loop: new position and length of the slice that is read *)
Inductive step_res :=
| SOk (pos' len : Z)
| SInvalid (reason : Z) | SOobBits | SOobBuf.

Section Chunks.
  (** [guard = true]: the code after fix a50e5e9b (offset checked against remaining() before
      setPosition); [guard = false]: the code before it (kept as [_v0], see [split_oob_v0_refuted]) *)
  Variable guard : bool.
  Variables (tx : list Z) (datalen : Z) (bits : list bool).
  Variables (offsetLength sectionLength waste cdl : Z).

  (** body of [for (int i = chunks - 1; i >= 0; --i)] up to the readSlice;
      [pos] = buffer.position() (size_t), [total] = totalBytesRead (int). *)
  Definition chunk_step (i pos total : Z) : step_res :=
    let chunkOffset := u32 (waste + u32 (i * u32 (offsetLength + sectionLength))) in
    let limit := Z.min cdl (u32 (chunkOffset + offsetLength)) in
    match get_int bits chunkOffset limit with
    | None => SOobBits
    | Some offv =>
      let sectionOffsetValue := i32 offv in                      (* getIntFromBits returns int *)
      match (if i =? 0 then Some (u32 (u32 datalen - total))
             else get_int bits (u32 (chunkOffset - sectionLength)) chunkOffset) with
      | None => SOobBits
      | Some lenv =>
        let sectionLengthValue := u32 lenv in
        (* a50e5e9b: if (off < 0 || (size_t)off > buffer.remaining()) return Invalid("bad-section-offset") *)
        if guard && ((sectionOffsetValue <? 0) || (u64 (zlen tx - pos) <? u64 sectionOffsetValue))
        then SInvalid 2 else
        let pos' := u64 (pos + sectionOffsetValue) in           (* setPosition(position() + off) *)
        let remaining := u64 (zlen tx - pos') in                (* m_Size - m_Pos, wraps *)
        if remaining <? sectionLengthValue then SInvalid 3      (* !hasMore: bad-section-length *)
        else if (zlen tx <? pos') && (0 <? sectionLengthValue) then SOobBuf
        else SOk pos' sectionLengthValue
      end
    end.

  (** [k] = i + 1 iterations remain *)
  Fixpoint chunk_loop (k : nat) (pos total : Z) (acc : list Z) : chunk_res :=
    match k with
    | O => CDone acc
    | S k' =>
      match chunk_step (Z.of_nat k') pos total with
      | SInvalid r => CInvalid r
      | SOobBits => COobBits
      | SOobBuf => COobBuf
      | SOk pos' len =>
        chunk_loop k' (u64 (pos' + len)) (i32 (total + len)) (acc ++ slice tx pos' len)
      end
    end.
End Chunks.

(** everything after the three magic bytes; [p] = lastPos = position of the descriptor byte *)
Definition try_descriptor_gen (guard : bool) (data tx : list Z) (p : Z) : attempt :=
  let '(chunks, offsetLength, sectionLength) := decode_desc (byte_at tx p) in
  let bl := desc_bit_length chunks offsetLength sectionLength in
  let bytesLen := desc_bytes_length bl in
  let waste := desc_waste bytesLen bl in
  if zlen tx - (p + 1) <? bytesLen then Invalid 1                 (* bad-descriptor-bytes *)
  else
    let bits := table_bits (slice tx (p + 1) bytesLen) in
    let cdl := last_set bits in
    let k := Z.to_nat (i32 (u32 (chunks - 1)) + 1) in             (* int i = chunks - 1; i >= 0 *)
    match chunk_loop guard tx (zlen data) bits offsetLength sectionLength waste cdl k 0 0 [] with
    | CInvalid r => Invalid r
    | COobBits => OobBits
    | COobBuf => OobBuf
    | CDone extracted => if list_eqb data extracted then Found else NotFound
    end.

(** [VFalse r]: r = 0 the scan ran out of transaction, otherwise the reason of the Invalid *)
Inductive verdict := VTrue | VFalse (reason : Z) | VOobBits | VOobBuf.

(** the scanning loop [while (buffer.remaining() > 5)]; VBK_COMPARE_MAGIC reads one byte and
    [continue]s on a mismatch WITHOUT rewinding, so after a partial match the scan resumes
    behind the mismatching byte. [pos <= size] holds at every loop head. *)
Fixpoint scan_gen (guard : bool) (data tx : list Z) (pos : Z) (fuel : nat) : verdict :=
  match fuel with
  | O => VFalse 0
  | S f =>
    if zlen tx - pos <=? 5 then VFalse 0
    else if negb (byte_at tx pos =? 146) then scan_gen guard data tx (pos + 1) f
    else if negb (byte_at tx (pos + 1) =? 122) then scan_gen guard data tx (pos + 2) f
    else if negb (byte_at tx (pos + 2) =? 89) then scan_gen guard data tx (pos + 3) f
    else
      match try_descriptor_gen guard data tx (pos + 3) with
      | Found => VTrue
      | Invalid r => VFalse r
      | OobBits => VOobBits
      | OobBuf => VOobBuf
      | NotFound => scan_gen guard data tx (pos + 3) f
      end
  end.

Definition try_descriptor := try_descriptor_gen true.
Definition scan := scan_gen true.
Definition containsSplit (data tx : list Z) : verdict := scan data tx 0 (S (length tx)).
(** before fix a50e5e9b *)
Definition containsSplit_v0 (data tx : list Z) : verdict := scan_gen false data tx 0 (S (length tx)).

(** checkBitcoinTransactionForPoPData on the 80 publication bytes [data] *)
Definition check_embedding (data tx : list Z) : verdict :=
  if contiguous_search data tx then VTrue else containsSplit data tx.

(** numeric code for the drivers: 1 accept, 0 reject (+ reason), 2 bit-vector over-read, 3 buffer over-read *)
Definition verdict_code (v : verdict) : Z * Z :=
  match v with VTrue => (1, 0) | VFalse r => (0, r) | VOobBits => (2, 0) | VOobBuf => (3, 0) end.
