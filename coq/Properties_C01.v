(** C01 — placeholder until Pop/SmProofs.v lands (replaced below in the same session) *)
Theorem C01_placeholder : True.
Proof. exact I. Qed.
Print Assumptions C01_placeholder.
