(** C01 — POP state depends only on the applied chain, not on history. Closed, instantiated machine.

    PROVED:
      * C01_applied_canonical, for EVERY reachable state (all trees, payload assignments, failing positions, scorers,
        histories incl. comparisons): P = bootstrap state + exactly the effects of the blocks flagged applied, as a
        multiset (reference counts and endorsement multiset) - nothing of an abandoned or rolled-back fork is left;
      * C01_history_independence: two histories of connectBlock / setState calls (any order of bodies, any forks
        activated and abandoned, any failing switches, back and forth) that end with the same active chain - the same
        payloads on root..tip - end with the same reference count for every SP block and the same endorsements; the
        fresh instance shown only the final chain is one such history.
    GAP (hence _partial): for histories that also contain comparePopScore the statement is proved relative to the set
      of blocks flagged applied (C01_history_independence_partial), not yet relative to the active chain (needs the
      quiet invariant through comparePopScore, see Properties_C02.v). Verdict and payout equality are checked on the
      implementation by the twin oracle, not proved (scoring is property C03). *)
From Coq Require Import List ZArith NArith Bool Permutation.
From VB Require Import Pop.SmDefs Pop.SmProofs Pop.SmWf.

Theorem C01_cmd_unexec_exec :
  forall c p p', cexec c p = Some p' -> cunexec c p' = p.
Proof. exact cinv_law. Qed.
Print Assumptions C01_cmd_unexec_exec.

Theorem C01_applied_canonical :
  forall base s, reachable base s ->
    Permutation (pst _ _ s) (active_items (blocks _ _ s) ++ base) /\ NoDup (ids (blocks _ _ s)).
Proof. exact applied_canonical. Qed.
Print Assumptions C01_applied_canonical.

Theorem C01_history_independence_partial :
  forall base s1 s2,
    reachable base s1 -> reachable base s2 ->
    Permutation (active_items (blocks _ _ s1)) (active_items (blocks _ _ s2)) ->
    Permutation (pst _ _ s1) (pst _ _ s2) /\ (forall x, count_ref x (pst _ _ s1) = count_ref x (pst _ _ s2)).
Proof. exact history_independence_applied. Qed.
Print Assumptions C01_history_independence_partial.

Theorem C01_nonvacuous : exists s, reachable ex_base s /\ tip _ _ s = 6%N.
Proof. exact ex_reachable. Qed.
Print Assumptions C01_nonvacuous.

Theorem C01_active_items_chain :
  forall s, quiet s -> Permutation (active_items (blocks _ _ s)) (flat_map block_items (chain_gs s)).
Proof. exact active_items_chain. Qed.
Print Assumptions C01_active_items_chain.

Theorem C01_history_independence :
  forall base r1 h1 ops1 s1 r2 h2 ops2 s2,
    no_compare ops1 -> no_compare ops2 ->
    run (c_init r1 h1 base) ops1 = Ok s1 -> run (c_init r2 h2 base) ops2 = Ok s2 ->
    chain_gs s1 = chain_gs s2 ->
    Permutation (pst _ _ s1) (pst _ _ s2) /\ (forall x, count_ref x (pst _ _ s1) = count_ref x (pst _ _ s2)).
Proof. exact history_independence_chain. Qed.
Print Assumptions C01_history_independence.
