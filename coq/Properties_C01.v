(** C01 — POP state depends only on the active chain, not on history. Closed, instantiated machine.

    PROVED, for every state reachable by ANY history of connectBlock / setState / comparePopScore calls (any tree, any
    order of bodies, any payload assignment, any failing position, any scorer, forks activated, compared and abandoned,
    back and forth):
      * C01_applied_canonical: P = bootstrap state + exactly the effects of the blocks flagged applied, as a multiset
        (reference counts and endorsement multiset) - nothing of an abandoned or rolled-back fork is left;
      * C01_applied_exactly: the blocks flagged applied are exactly root..tip;
      * C01_history_independence_partial: two histories ending with the same active chain - the same payloads on
        root..tip - end with the same reference count for every SP block and the same endorsement multiset. The fresh
        instance that is only shown the final chain is one such history.
    BY COMPOSITION with the payout calculator model (Rewards/, C14) and the scoring model (Score/, C03), over explicit
    adapters for what the POP model does not contain (payout info of an endorsement, SP best chain as a function of the
    reference counts = the carve-out of the property text, keystone interval, timestamps; all universally quantified):
      * C01_payouts_history_independent: the calculator's input (per block of the active chain: height and endorsement
        multiset) and getPopPayout for every block of the active chain coincide in two reachable states with the same
        active chain (ids, heights, payloads of root..tip); C01_payouts_fresh_instance: in particular for the fresh
        instance (connects + one setState);
      * C01_candidate_validation_history_independent / C01_score_input_history_independent: for a candidate whose chain
        (ids, heights, payloads) is the same in both states and carries NO CACHED FAILED MARK, applying its branch next
        to the active chain succeeds or fails alike, leaves the same protecting multiset, and the publication views /
        comparePopScoreImpl result / the machine's score are equal;
      * C01_revalidation_replay: when a candidate outscores the active chain, the stand-alone re-validation that
        comparePopScore performs succeeds iff the bodies of root..candidate replay from the bootstrap state, whatever
        part of the branch was validated before (uses C20 truthfulness);
      * C01_verdict_history_independent (+ C01_verdict_fresh_instance): the verdict of comparePopScore (the POP machine's
        [compare] run with the Score model's scorer [score_of] and keystone test [crossed_of]) against such a candidate
        is the same in two reachable states with the same active chain: all short-cuts (candidate invalid / the tip /
        on the active chain / successor of the tip / no keystone boundary crossed), validation next to the active chain,
        scoring, re-validation alone.  Premises, all explicit: candidate known to both, same candidate chain, no failed
        mark on it in either state ([clean_all]), both calls return (no Abort: C02 compare_total), SP best chain
        determined by the reference counts.  Finalization is outside the POP model (the TIP_IS_FINAL short-cuts);
      * C01_verdict_without_clean_premise_refuted: without the premise the verdict statement is false on the model
        (cached BLOCK_FAILED_POP: 1 vs 0 when no keystone boundary is crossed) = finding C01:verdict-0-vs-1-cached-invalid;
      * C01_unexec_keeps_order / C01_unexec_under_later: un-executing a command from ANY state (comparePopScore unapplies
        the loser UNDER the still applied winner: not LIFO) erases its item in place, the other items (e.g. the VTB ids
        of one VBK block) keep their relative order; C01_swap_and_pop_keeps_order_refuted: a removal that moves the
        newest item into the freed slot does not (checked on the implementation: ordered VTB ids, history vs twin).
    The twin oracle on the implementation (history vs fresh instance: POP projection, getPopPayout, comparePopScore
    against shown candidates) still checks payouts and verdicts end to end. *)
From Coq Require Import List ZArith NArith Bool Permutation.
From VB Require Import Pop.SmDefs Pop.SmProofs Pop.SmWf Pop.SmCmp Pop.SmTruth Pop.C01Compose Pop.C01Verdict Pop.C01Fork Pop.C01Alone
     Pop.C01Outer Pop.C01Full Pop.C01Examples Pop.SmOrder.
From VB Require Rewards.CalcDefs Rewards.BoundsDefs Score.CInt Score.CmpDefs.
Import ListNotations.

Theorem C01_cmd_unexec_exec :
  forall c p p', cexec c p = Some p' -> cunexec c p' = p.
Proof. exact cinv_law. Qed.
Print Assumptions C01_cmd_unexec_exec.

Theorem C01_applied_canonical :
  forall base s, reachable base s ->
    Permutation (pst _ _ s) (active_items (blocks _ _ s) ++ base) /\ NoDup (ids (blocks _ _ s)).
Proof. exact applied_canonical. Qed.
Print Assumptions C01_applied_canonical.

Theorem C01_applied_exactly :
  forall base s, reachable base s -> quiet s /\ forall j, is_act (cores s) j <-> In j (chain s).
Proof. exact reachable_quiet. Qed.
Print Assumptions C01_applied_exactly.

Theorem C01_active_items_chain :
  forall s, quiet s -> Permutation (active_items (blocks _ _ s)) (flat_map block_items (chain_gs s)).
Proof. exact active_items_chain. Qed.
Print Assumptions C01_active_items_chain.

Theorem C01_history_independence_applied :
  forall base s1 s2,
    reachable base s1 -> reachable base s2 ->
    Permutation (active_items (blocks _ _ s1)) (active_items (blocks _ _ s2)) ->
    Permutation (pst _ _ s1) (pst _ _ s2) /\ (forall x, count_ref x (pst _ _ s1) = count_ref x (pst _ _ s2)).
Proof. exact history_independence_applied. Qed.
Print Assumptions C01_history_independence_applied.

Theorem C01_history_independence_partial :
  forall base s1 s2,
    reachable base s1 -> reachable base s2 -> chain_gs s1 = chain_gs s2 ->
    Permutation (pst _ _ s1) (pst _ _ s2) /\ (forall x, count_ref x (pst _ _ s1) = count_ref x (pst _ _ s2)).
Proof. exact history_independence. Qed.
Print Assumptions C01_history_independence_partial.

Theorem C01_nonvacuous : exists s, reachable ex_base s /\ tip _ _ s = 6%N.
Proof. exact ex_reachable. Qed.
Print Assumptions C01_nonvacuous.

(** *** payouts and verdicts, by composition with the reward (C14) and score (C03) models *)

Theorem C01_payout_input_history_independent :
  forall (pinfo : N -> N -> N -> Z) (spv : (N -> nat) -> N -> option Z) base s1 s2,
    sp_determined spv ->
    reachable base s1 -> reachable base s2 -> active_chain s1 = active_chain s2 ->
    Forall2 block_equiv (payout_input pinfo spv s1) (payout_input pinfo spv s2).
Proof. exact payout_input_history_independent. Qed.
Print Assumptions C01_payout_input_history_independent.

Theorem C01_get_pop_payout_equiv :
  forall p c c',
    VB.Rewards.BoundsDefs.params_okb p = true -> VB.Rewards.BoundsDefs.chain_okb c = true -> Forall2 block_equiv c c' ->
    VB.Rewards.CalcDefs.get_pop_payout VB.Rewards.BigDecDefs.wrap256 p c =
    VB.Rewards.CalcDefs.get_pop_payout VB.Rewards.BigDecDefs.wrap256 p c'.
Proof. exact get_pop_payout_equiv. Qed.
Print Assumptions C01_get_pop_payout_equiv.

Theorem C01_payouts_history_independent :
  forall (pinfo : N -> N -> N -> Z) (spv : (N -> nat) -> N -> option Z) params base s1 s2,
    sp_determined spv ->
    reachable base s1 -> reachable base s2 -> active_chain s1 = active_chain s2 ->
    VB.Rewards.BoundsDefs.params_okb params = true ->
    VB.Rewards.BoundsDefs.chain_okb (payout_input pinfo spv s1) = true ->
    Forall2 block_equiv (payout_input pinfo spv s1) (payout_input pinfo spv s2) /\
    forall k, payouts pinfo spv params s1 k = payouts pinfo spv params s2 k.
Proof. exact payouts_history_independent. Qed.
Print Assumptions C01_payouts_history_independent.

Theorem C01_payouts_fresh_instance :
  forall (pinfo : N -> N -> N -> Z) (spv : (N -> nat) -> N -> option Z) params base s1 r h ops s2,
    sp_determined spv ->
    reachable base s1 ->
    fresh_history ops -> run (c_init r h base) ops = Ok s2 ->
    active_chain s1 = active_chain s2 ->
    VB.Rewards.BoundsDefs.params_okb params = true ->
    VB.Rewards.BoundsDefs.chain_okb (payout_input pinfo spv s1) = true ->
    forall k, payouts pinfo spv params s1 k = payouts pinfo spv params s2 k.
Proof. exact payouts_fresh_instance. Qed.
Print Assumptions C01_payouts_fresh_instance.

Theorem C01_candidate_validation_history_independent :
  forall base s1 s2 c fork t1 ok1 t2 ok2,
    reachable base s1 -> reachable base s2 -> active_chain s1 = active_chain s2 ->
    (exists b, find ccmd (blocks _ _ s1) c = Some b) -> (exists b, find ccmd (blocks _ _ s2) c = Some b) ->
    chain_of s1 c = chain_of s2 c ->
    In fork (map (fun t => fst (fst t)) (chain_of s1 c)) ->
    clean s1 c (Z.to_nat (hgt (cores s1) c - hgt (cores s1) fork)) ->
    clean s2 c (Z.to_nat (hgt (cores s1) c - hgt (cores s1) fork)) ->
    apply pstate ccmd cexec cunexec s1 fork c = Ok (t1, ok1) ->
    apply pstate ccmd cexec cunexec s2 fork c = Ok (t2, ok2) ->
    ok1 = ok2 /\ (ok1 = true -> Permutation (pst _ _ t1) (pst _ _ t2)) /\ frame s1 t1 /\ frame s2 t2.
Proof. exact candidate_validation_history_independent. Qed.
Print Assumptions C01_candidate_validation_history_independent.

Theorem C01_score_input_history_independent :
  forall cfg ki ta alt_time spv sp_times,
    sp_determined spv -> sp_times_determined sp_times ->
  forall base s1 s2 c fork t1 t2,
    reachable base s1 -> reachable base s2 -> active_chain s1 = active_chain s2 ->
    (exists b, find ccmd (blocks _ _ s1) c = Some b) -> (exists b, find ccmd (blocks _ _ s2) c = Some b) ->
    chain_of s1 c = chain_of s2 c ->
    In fork (map (fun t => fst (fst t)) (chain_of s1 c)) ->
    clean s1 c (Z.to_nat (hgt (cores s1) c - hgt (cores s1) fork)) ->
    clean s2 c (Z.to_nat (hgt (cores s1) c - hgt (cores s1) fork)) ->
    apply pstate ccmd cexec cunexec s1 fork c = Ok (t1, true) ->
    apply pstate ccmd cexec cunexec s2 fork c = Ok (t2, true) ->
    (forall S, pub_view ki ta alt_time spv sp_times (pst _ _ t1) S = pub_view ki ta alt_time spv sp_times (pst _ _ t2) S) /\
    core_score cfg ki ta alt_time spv sp_times (pst _ _ t1) (line t1 (tip _ _ t1)) (line t1 c) =
    core_score cfg ki ta alt_time spv sp_times (pst _ _ t2) (line t2 (tip _ _ t2)) (line t2 c) /\
    score_of cfg ki ta alt_time spv sp_times t1 c = score_of cfg ki ta alt_time spv sp_times t2 c.
Proof. exact candidate_score_history_independent. Qed.
Print Assumptions C01_score_input_history_independent.

Theorem C01_revalidation_replay :
  forall base s c bc fork t s2 vf s3 s4 ok2,
    reachable base s -> find ccmd (blocks _ _ s) c = Some bc ->
    lca ccmd (blocks _ _ s) (2 * fuel_of _ _ s) (tip _ _ s) c = Some fork ->
    clean_all s c ->
    apply pstate ccmd cexec cunexec s fork c = Ok (t, true) ->
    unapplyWhile pstate ccmd cunexec (fuel_of _ _ t) t c fork (not_full ccmd) = Ok (s2, vf) ->
    unapply pstate ccmd cunexec s2 (tip _ _ s) fork = Ok s3 ->
    apply pstate ccmd cexec cunexec s3 vf c = Ok (s4, ok2) ->
    (ok2 = true <-> exists p, replay (bgs s (depth s c) c) base = Some p).
Proof. exact revalidation_replay. Qed.
Print Assumptions C01_revalidation_replay.

Theorem C01_verdict_history_independent :
  forall cfg ki ta alt_time spv sp_times,
    sp_determined spv -> sp_times_determined sp_times ->
  forall base s1 s2 c s1' r1 s2' r2,
    reachable base s1 -> reachable base s2 -> active_chain s1 = active_chain s2 ->
    (exists b, find ccmd (blocks _ _ s1) c = Some b) -> (exists b, find ccmd (blocks _ _ s2) c = Some b) ->
    chain_of s1 c = chain_of s2 c ->
    clean_all s1 c -> clean_all s2 c ->
    c_compare (score_of cfg ki ta alt_time spv sp_times) (crossed_of ki) s1 (Some c) = Ok (s1', r1) ->
    c_compare (score_of cfg ki ta alt_time spv sp_times) (crossed_of ki) s2 (Some c) = Ok (s2', r2) ->
    r1 = r2.
Proof. exact verdict_history_independent. Qed.
Print Assumptions C01_verdict_history_independent.

Theorem C01_verdict_fresh_instance :
  forall cfg ki ta alt_time spv sp_times,
    sp_determined spv -> sp_times_determined sp_times ->
  forall base s1 r h ops s2 c s1' r1 s2' r2,
    reachable base s1 -> fresh_history ops -> run (c_init r h base) ops = Ok s2 ->
    active_chain s1 = active_chain s2 ->
    (exists b, find ccmd (blocks _ _ s1) c = Some b) -> (exists b, find ccmd (blocks _ _ s2) c = Some b) ->
    chain_of s1 c = chain_of s2 c ->
    clean_all s1 c -> clean_all s2 c ->
    c_compare (score_of cfg ki ta alt_time spv sp_times) (crossed_of ki) s1 (Some c) = Ok (s1', r1) ->
    c_compare (score_of cfg ki ta alt_time spv sp_times) (crossed_of ki) s2 (Some c) = Ok (s2', r2) ->
    r1 = r2.
Proof. exact verdict_fresh_instance. Qed.
Print Assumptions C01_verdict_fresh_instance.

Theorem C01_verdict_scored_example :
  reachable ex_base (st_of vx_ops1) /\ reachable ex_base (st_of vx_ops2) /\ fresh_history vx_ops2 /\
  active_chain (st_of vx_ops1) = active_chain (st_of vx_ops2) /\
  chain_of (st_of vx_ops1) 18 = chain_of (st_of vx_ops2) 18 /\
  clean_all (st_of vx_ops1) 18 /\ clean_all (st_of vx_ops2) 18 /\
  option_map (b_lvl _) (find ccmd (blocks _ _ (st_of vx_ops1)) 15) = Some L_FULL /\
  option_map (b_lvl _) (find ccmd (blocks _ _ (st_of vx_ops2)) 15) = Some L_CONNECTED /\
  match c_compare vx_sc vx_cr (st_of vx_ops1) (Some 18%N), c_compare vx_sc vx_cr (st_of vx_ops2) (Some 18%N) with
  | Ok (t1, r1), Ok (t2, r2) => r1 = (-100)%Z /\ r2 = (-100)%Z /\ tip _ _ t1 = 18%N /\ tip _ _ t2 = 18%N
  | _, _ => False
  end.
Proof. exact verdict_scored_example. Qed.
Print Assumptions C01_verdict_scored_example.

Theorem C01_compose_premises_satisfiable :
  ex_ops <> fresh_ops /\
  reachable ex_base ex_s1 /\ reachable ex_base ex_s2 /\ fresh_history fresh_ops /\
  active_chain ex_s1 = active_chain ex_s2 /\
  map (fun t => fst (fst t)) (active_chain ex_s1) = [6; 3; 0]%N /\
  ends_of (pst _ _ ex_s1) 3 = [(3, 3, 7)]%N /\
  sp_determined ex_spv /\
  VB.Rewards.BoundsDefs.params_okb VB.Rewards.BoundsDefs.default_params = true /\
  VB.Rewards.BoundsDefs.chain_okb (payout_input ex_pinfo ex_spv ex_s1) = true /\
  map (fun b => length (VB.Rewards.CalcDefs.b_ends b)) (payout_input ex_pinfo ex_spv ex_s1) = [0; 1; 0]%nat.
Proof. exact compose_premises_satisfiable. Qed.
Print Assumptions C01_compose_premises_satisfiable.

Theorem C01_verdict_premises_satisfiable :
  (chain_of ex_s1 15 = chain_of ex_s2 15 /\
   (exists b, find ccmd (blocks _ _ ex_s1) 15 = Some b) /\ (exists b, find ccmd (blocks _ _ ex_s2) 15 = Some b) /\
   In 3%N (map (fun t => fst (fst t)) (chain_of ex_s1 15)) /\
   clean ex_s1 15 (Z.to_nat (hgt (cores ex_s1) 15 - hgt (cores ex_s1) 3)) /\
   clean ex_s2 15 (Z.to_nat (hgt (cores ex_s1) 15 - hgt (cores ex_s1) 3)) /\
   (exists t1, apply pstate ccmd cexec cunexec ex_s1 3 15 = Ok (t1, true)) /\
   (exists t2, apply pstate ccmd cexec cunexec ex_s2 3 15 = Ok (t2, true))) /\
  clean_all ex_s1 15 /\ clean_all ex_s2 15.
Proof. exact (conj verdict_premises_satisfiable verdict_clean_all_satisfiable). Qed.
Print Assumptions C01_verdict_premises_satisfiable.

Theorem C01_verdict_without_clean_premise_refuted :
  reachable ex_base (st_of rf_ops1) /\ reachable ex_base (st_of rf_ops2) /\
  active_chain (st_of rf_ops1) = active_chain (st_of rf_ops2) /\
  chain_of (st_of rf_ops1) 12 = chain_of (st_of rf_ops2) 12 /\
  (exists b, find ccmd (blocks _ _ (st_of rf_ops1)) 12 = Some b /\ b_fp _ b = true) /\
  (exists b, find ccmd (blocks _ _ (st_of rf_ops2)) 12 = Some b /\ is_failed _ b = false) /\
  ~ clean (st_of rf_ops1) 12 1 /\
  match c_compare rf_sc rf_cr (st_of rf_ops1) (Some 12%N), c_compare rf_sc rf_cr (st_of rf_ops2) (Some 12%N) with
  | Ok (_, r1), Ok (_, r2) => r1 = 1%Z /\ r2 = 0%Z
  | _, _ => False
  end.
Proof. exact verdict_without_clean_premise_refuted. Qed.
Print Assumptions C01_verdict_without_clean_premise_refuted.

Theorem C01_unexec_keeps_order : forall c p,
  match item_of c with
  | Some x => others x (cunexec c p) = others x p /\
              (mem x p = true -> exists l1 y l2, p = l1 ++ y :: l2 /\ item_eqb x y = true /\ mem x l1 = false /\
                                                 cunexec c p = l1 ++ l2)
  | None => cunexec c p = p
  end.
Proof. exact cunexec_keeps_order. Qed.
Print Assumptions C01_unexec_keeps_order.

Theorem C01_unexec_under_later : forall c p p' later,
  cexec c p = Some p' -> (forall x, item_of c = Some x -> mem x later = false) ->
  cunexec c (later ++ p') = later ++ p.
Proof. exact cunexec_under_later. Qed.
Print Assumptions C01_unexec_under_later.

Theorem C01_swap_and_pop_keeps_order_refuted :
  let vA := IEnd 1 10 21 in let v1 := IEnd 2 10 22 in let v2 := IEnd 3 10 23 in
  let p := [v2; v1; vA] in
  remove1 vA p = [v2; v1] /\ others vA (remove1 vA p) = others vA p /\
  remove_swap vA p = [v1; v2] /\ others vA (remove_swap vA p) <> others vA p.
Proof. exact swap_and_pop_keeps_order_refuted. Qed.
Print Assumptions C01_swap_and_pop_keeps_order_refuted.
