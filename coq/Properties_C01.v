(** C01 — POP state depends only on the active chain, not on history. Closed, instantiated machine.

    PROVED, for every state reachable by ANY history of connectBlock / setState / comparePopScore calls (any tree, any
    order of bodies, any payload assignment, any failing position, any scorer, forks activated, compared and abandoned,
    back and forth):
      * C01_applied_canonical: P = bootstrap state + exactly the effects of the blocks flagged applied, as a multiset
        (reference counts and endorsement multiset) - nothing of an abandoned or rolled-back fork is left;
      * C01_applied_exactly: the blocks flagged applied are exactly root..tip;
      * C01_history_independence_partial: two histories ending with the same active chain - the same payloads on
        root..tip - end with the same reference count for every SP block and the same endorsement multiset. The fresh
        instance that is only shown the final chain is one such history.
    GAP (why _partial; full statement of the property): additionally the same POP payouts and the same comparePopScore
      verdict against any candidate. Payouts and the score comparison are functions of (P, active chain) outside this
      model (properties C14 / C03); their equality is checked on the implementation by the twin oracle (instance with a
      history vs fresh instance shown only the active chain: POP projection of the ALT/VBK/BTC views, getPopPayout,
      comparePopScore against several shown candidates and the state after it). *)
From Coq Require Import List ZArith NArith Bool Permutation.
From VB Require Import Pop.SmDefs Pop.SmProofs Pop.SmWf Pop.SmCmp.

Theorem C01_cmd_unexec_exec :
  forall c p p', cexec c p = Some p' -> cunexec c p' = p.
Proof. exact cinv_law. Qed.
Print Assumptions C01_cmd_unexec_exec.

Theorem C01_applied_canonical :
  forall base s, reachable base s ->
    Permutation (pst _ _ s) (active_items (blocks _ _ s) ++ base) /\ NoDup (ids (blocks _ _ s)).
Proof. exact applied_canonical. Qed.
Print Assumptions C01_applied_canonical.

Theorem C01_applied_exactly :
  forall base s, reachable base s -> quiet s /\ forall j, is_act (cores s) j <-> In j (chain s).
Proof. exact reachable_quiet. Qed.
Print Assumptions C01_applied_exactly.

Theorem C01_active_items_chain :
  forall s, quiet s -> Permutation (active_items (blocks _ _ s)) (flat_map block_items (chain_gs s)).
Proof. exact active_items_chain. Qed.
Print Assumptions C01_active_items_chain.

Theorem C01_history_independence_applied :
  forall base s1 s2,
    reachable base s1 -> reachable base s2 ->
    Permutation (active_items (blocks _ _ s1)) (active_items (blocks _ _ s2)) ->
    Permutation (pst _ _ s1) (pst _ _ s2) /\ (forall x, count_ref x (pst _ _ s1) = count_ref x (pst _ _ s2)).
Proof. exact history_independence_applied. Qed.
Print Assumptions C01_history_independence_applied.

Theorem C01_history_independence_partial :
  forall base s1 s2,
    reachable base s1 -> reachable base s2 -> chain_gs s1 = chain_gs s2 ->
    Permutation (pst _ _ s1) (pst _ _ s2) /\ (forall x, count_ref x (pst _ _ s1) = count_ref x (pst _ _ s2)).
Proof. exact history_independence. Qed.
Print Assumptions C01_history_independence_partial.

Theorem C01_nonvacuous : exists s, reachable ex_base s /\ tip _ _ s = 6%N.
Proof. exact ex_reachable. Qed.
Print Assumptions C01_nonvacuous.
