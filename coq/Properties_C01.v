(** C01 — POP state depends only on the applied chain, not on history. Closed, instantiated machine.

    FULL statement aimed at: history_independence : two op histories ending with the same active chain give the same P
    (and the same verdicts / payouts, which are functions of P and the chain).
    PROVED: applied_canonical for EVERY reachable state (all trees, payload assignments, failing positions, scorers,
    histories): P = bootstrap state + exactly the effects of the blocks flagged applied, as a multiset (reference
    counts and endorsement multiset); hence two histories whose applied blocks carry the same payloads end with equal
    reference counts and endorsements — in particular the fresh instance shown only the final chain.
    GAP (hence _partial): "blocks flagged applied = root..tip between calls" (see Properties_C02.v); verdict and payout
    equality are checked on the implementation by the twin oracle, not proved (scoring is property C03). *)
From Coq Require Import List ZArith NArith Bool Permutation.
From VB Require Import Pop.SmDefs Pop.SmProofs.

Theorem C01_cmd_unexec_exec :
  forall c p p', cexec c p = Some p' -> cunexec c p' = p.
Proof. exact cinv_law. Qed.
Print Assumptions C01_cmd_unexec_exec.

Theorem C01_applied_canonical :
  forall base s, reachable base s ->
    Permutation (pst _ _ s) (active_items (blocks _ _ s) ++ base) /\ NoDup (ids (blocks _ _ s)).
Proof. exact applied_canonical. Qed.
Print Assumptions C01_applied_canonical.

Theorem C01_history_independence_partial :
  forall base s1 s2,
    reachable base s1 -> reachable base s2 ->
    Permutation (active_items (blocks _ _ s1)) (active_items (blocks _ _ s2)) ->
    Permutation (pst _ _ s1) (pst _ _ s2) /\ (forall x, count_ref x (pst _ _ s1) = count_ref x (pst _ _ s2)).
Proof. exact history_independence_applied. Qed.
Print Assumptions C01_history_independence_partial.

Theorem C01_nonvacuous : exists s, reachable ex_base s /\ tip _ _ s = 6%N.
Proof. exact ex_reachable. Qed.
Print Assumptions C01_nonvacuous.
