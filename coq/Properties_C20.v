(** C20 — placeholder until Pop/SmProofs.v lands (replaced below in the same session) *)
Theorem C20_placeholder : True.
Proof. exact I. Qed.
Print Assumptions C20_placeholder.
