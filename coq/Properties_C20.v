(** C20 — a chain once reported fully valid can be activated again. Closed, instantiated machine
    (Pop/SmDefs.v, as-coded model; every assert of the code is an explicit Abort outcome).

    PROVED, for EVERY reachable state (any history of connectBlock / setState / comparePopScore with any scorer, any
    tree, payload assignment, failing position):
      * C20_reactivation: setState to a block that is at level CAN_BE_APPLIED and not invalidated returns TRUE - the
        walk (fork search, unapply to the fork, apply the branch) hits no assert and no command group fails;
      * C20_full_validity_truthful: every block at level CAN_BE_APPLIED replays successfully ALONE (the bodies of
        root..b executed from the bootstrap state all succeed);
      * C20_chain_full: every block of the active chain root..tip is applied, not failed and at CAN_BE_APPLIED;
      * the level logic of applyBlock for all states: the fully-valid level is raised only on a fully valid parent and
        only when the applied-block counter says nothing but root..parent is applied (C20_full_level_guard); a block
        applied next to another chain or on a MAYBE parent is never reported fully valid by that application
        (C20_maybe_level_never_reported_full);
      * the unapply discipline (applied, parent applied, no applied child) (C20_unapply_order).
      * over ALL continuations of ALL histories: a block that was reported fully valid in ANY of the three ways (level
        CAN_BE_APPLIED, target of a successful setState, winner of a comparePopScore) keeps the level in every later state
        (C20_reported_full_persists, C20_levels_never_lowered) and setState to it returns TRUE from every later state in
        which it carries no failure mark (C20_later_reactivation); the re-activation sweep of the check (react_seq, the
        model function that is run against the implementation's `react`) can answer false only for a block with a
        failure mark (C20_react_sweep_sound).
      * the comparison clause as an invariant of ALL reachable states: a block whose own ancestry does not replay from
        the bootstrap state (valid only next to a competing chain) is at no reachable state at the fully-valid level
        (C20_never_full_unless_valid_alone); a block at that level has every ancestor at that level, unfailed, and
        replays alone (C20_full_means_validated_alone);
      * revert order at full strength (equalities of protecting states): applyBlock executes the block's commands in
        body order, unapplyBlock un-executes them one by one in exactly the reverse order (C20_apply_executes_in_order,
        C20_unapply_reverts_in_reverse); the unapplyWhile(not fully valid) that comparePopScore runs before unapplying the
        losing chain stops only at the fork or at a fully valid block (C20_unvalidated_unapplied_first).
    No _partial theorem is left for this property. (Finalization and altchain invalidate/revalidate are outside the
    model: the premise "not invalidated" is the FAILED_* flags of the block; they are exercised on the implementation
    by the re-activation oracle.) *)
From Coq Require Import List ZArith NArith Bool.
From VB Require Import Pop.SmDefs Pop.SmProofs Pop.SmWf Pop.SmTruth Pop.SmCmp Pop.SmAll Pop.SmCoh Pop.SmFull Pop.SmReact Pop.SmLaterDefs Pop.SmLater Pop.SmTree Pop.SmAlone Pop.SmRevert.
Local Open Scope Z_scope.

Theorem C20_full_level_guard :
  forall s i s' b pb b',
    c_applyBlock s i = Ok (s', true) ->
    find ccmd (blocks _ _ s) i = Some b -> find ccmd (blocks _ _ s) (b_par _ b) = Some pb ->
    find ccmd (blocks _ _ s') i = Some b' ->
    b_lvl _ b <> L_FULL -> b_lvl _ b' = L_FULL ->
    valid_upto _ pb L_FULL = true /\ b_h _ b = root_h _ _ s + Z.of_N (napp _ _ s).
Proof. exact full_level_guard. Qed.
Print Assumptions C20_full_level_guard.

Theorem C20_maybe_level_never_reported_full :
  forall s i s' b pb b',
    c_applyBlock s i = Ok (s', true) ->
    find ccmd (blocks _ _ s) i = Some b -> find ccmd (blocks _ _ s) (b_par _ b) = Some pb ->
    find ccmd (blocks _ _ s') i = Some b' ->
    b_lvl _ b <> L_FULL ->
    (valid_upto _ pb L_FULL = false \/ b_h _ b <> root_h _ _ s + Z.of_N (napp _ _ s)) ->
    b_lvl _ b' <> L_FULL.
Proof. exact maybe_level_never_reported_full. Qed.
Print Assumptions C20_maybe_level_never_reported_full.

Theorem C20_unapply_order :
  forall s i s', c_unapplyBlock s i = Ok s' ->
    exists b pb, find ccmd (blocks _ _ s) i = Some b /\ b_act _ b = true /\
                 find ccmd (blocks _ _ s) (b_par _ b) = Some pb /\ b_act _ pb = true /\
                 child_active _ (blocks _ _ s) i = false /\ i <> root _ _ s.
Proof. exact unapply_order. Qed.
Print Assumptions C20_unapply_order.

Theorem C20_reactivation :
  forall base s to bto,
    reachable base s -> find ccmd (blocks _ _ s) to = Some bto -> valid_upto _ bto L_FULL = true ->
    exists s', c_setState s to = Ok (s', true).
Proof. exact reactivation. Qed.
Print Assumptions C20_reactivation.

Theorem C20_chain_full :
  forall base s, reachable base s ->
    forall j, In j (chain s) -> exists b, find ccmd (blocks _ _ s) j = Some b /\ b_act _ b = true /\ valid_upto _ b L_FULL = true.
Proof. exact chain_full. Qed.
Print Assumptions C20_chain_full.

Theorem C20_full_validity_truthful :
  forall base s, reachable base s ->
    forall b, In b (blocks _ _ s) -> N.leb L_FULL (b_lvl _ b) = true ->
              exists p', replay (bgs s (depth s (b_id _ b)) (b_id _ b)) base = Some p'.
Proof. exact full_validity_truthful_all. Qed.
Print Assumptions C20_full_validity_truthful.

(** all continuations of all histories *)
Theorem C20_levels_never_lowered :
  forall u j ops s s', lvl_ge u j s -> run s ops = Ok s' -> lvl_ge u j s'.
Proof. exact lvl_ge_run. Qed.
Print Assumptions C20_levels_never_lowered.

Theorem C20_reported_full_persists :
  forall base s t ops s2,
    reachable base s -> reported_full s t -> run s ops = Ok s2 -> lvl_ge L_FULL t s2.
Proof. exact reported_full_persists. Qed.
Print Assumptions C20_reported_full_persists.

Theorem C20_later_reactivation :
  forall base s t ops s2 b2,
    reachable base s -> reported_full s t ->
    run s ops = Ok s2 ->
    find ccmd (blocks _ _ s2) t = Some b2 -> is_failed _ b2 = false ->
    exists s3, c_setState s2 t = Ok (s3, true).
Proof. exact later_reactivation. Qed.
Print Assumptions C20_later_reactivation.

Theorem C20_react_sweep_sound :
  forall base ids s s' l,
    reachable base s -> react_seq s ids = Ok (s', l) ->
    reachable base s' /\ map fst l = ids /\
    forall t, In (t, false) l -> lvl_ge L_FULL t s ->
              exists ops s1 b1, run s ops = Ok s1 /\ find ccmd (blocks _ _ s1) t = Some b1 /\ is_failed _ b1 = true.
Proof. exact react_seq_sound. Qed.
Print Assumptions C20_react_sweep_sound.

(** the comparison clause, all reachable states *)
Theorem C20_full_means_validated_alone :
  forall base s to bto,
    reachable base s -> find ccmd (blocks _ _ s) to = Some bto -> valid_upto _ bto L_FULL = true ->
    (forall i, Z.of_nat i <= dep s to ->
               exists b, find ccmd (blocks _ _ s) (up (cores s) i to) = Some b /\ N.le L_FULL (b_lvl _ b) /\ is_failed _ b = false) /\
    exists p', replay (bgs s (depth s to) to) base = Some p'.
Proof. exact full_means_validated_alone. Qed.
Print Assumptions C20_full_means_validated_alone.

Theorem C20_never_full_unless_valid_alone :
  forall base s b,
    reachable base s -> In b (blocks _ _ s) ->
    replay (bgs s (depth s (b_id _ b)) (b_id _ b)) base = None ->
    N.leb L_FULL (b_lvl _ b) = false.
Proof. exact never_full_unless_valid_alone. Qed.
Print Assumptions C20_never_full_unless_valid_alone.

(** apply / revert order, equalities of protecting states *)
Theorem C20_apply_executes_in_order :
  forall s i s' b,
    c_applyBlock s i = Ok (s', true) -> find ccmd (blocks _ _ s) i = Some b ->
    gexec pstate ccmd cexec cunexec nil (concat (b_gs _ b)) (pst _ _ s) = (pst _ _ s', true).
Proof. exact apply_executes_in_order. Qed.
Print Assumptions C20_apply_executes_in_order.

Theorem C20_unapply_reverts_in_reverse :
  forall s i s' b,
    c_unapplyBlock s i = Ok s' -> find ccmd (blocks _ _ s) i = Some b ->
    pst _ _ s' = undo pstate ccmd cunexec (rev (concat (b_gs _ b))) (pst _ _ s).
Proof. exact unapply_reverts_in_reverse. Qed.
Print Assumptions C20_unapply_reverts_in_reverse.

Theorem C20_unvalidated_unapplied_first :
  forall fuel s cur to s' w,
    unapplyWhile pstate ccmd cunexec fuel s cur to (not_full ccmd) = Ok (s', w) ->
    w = to \/ exists bw, find ccmd (blocks _ _ s') w = Some bw /\ valid_upto _ bw L_FULL = true.
Proof. exact unvalidated_unapplied_first. Qed.
Print Assumptions C20_unvalidated_unapplied_first.
