(** C20 — a chain once reported fully valid can be activated again. Closed, instantiated machine.

    PROVED:
      * C20_full_validity_truthful: in EVERY reachable state (any history of connectBlock / setState / comparePopScore
        with any scorer, any tree, payloads, failing positions) every block at level CAN_BE_APPLIED replays successfully
        ALONE - the bodies of root..b executed from the bootstrap state all succeed. (Invariant over all block-level
        steps, also inside comparisons; key step: the level is raised only when the as-coded counter check holds, the
        counting argument then shows that exactly root..parent is applied, so P is a permutation of the parent's replay,
        and success of a command group does not depend on the order of P.)
      * the level logic of applyBlock for ALL states: the fully-valid level is raised only on a fully valid parent and
        only when the applied-block counter says nothing but root..parent is applied
        (C20_full_level_guard); a block applied next to another chain or on a MAYBE parent is never
        reported as fully valid by that application (C20_maybe_level_never_reported_full);
      * the unapply discipline (applied, parent applied, no applied child) (C20_unapply_order).
    GAP (hence _partial; full statement):
      reactivation : reachable s -> level b = CAN_BE_APPLIED -> b not invalidated -> setState s b = Ok (_, true).
      Proved: a successful setState ends on the fully valid target (C20_reactivation_partial) and the replay of root..b
      succeeds (truthfulness); not proved: that the walk of setState itself cannot fail or hit an assert (needs
      FAILED_CHILD / level coherence of the tree and Abort-freedom). Checked on the implementation by the
      re-activation oracle, the apply/unapply trace oracle and the exact comparison of validity levels with the model. *)
From Coq Require Import List ZArith NArith Bool.
From VB Require Import Pop.SmDefs Pop.SmProofs Pop.SmWf Pop.SmTruth Pop.SmCmp Pop.SmAll.
Local Open Scope Z_scope.

Theorem C20_full_level_guard :
  forall s i s' b pb b',
    c_applyBlock s i = Ok (s', true) ->
    find ccmd (blocks _ _ s) i = Some b -> find ccmd (blocks _ _ s) (b_par _ b) = Some pb ->
    find ccmd (blocks _ _ s') i = Some b' ->
    b_lvl _ b <> L_FULL -> b_lvl _ b' = L_FULL ->
    valid_upto _ pb L_FULL = true /\ b_h _ b = root_h _ _ s + Z.of_N (napp _ _ s).
Proof. exact full_level_guard. Qed.
Print Assumptions C20_full_level_guard.

Theorem C20_maybe_level_never_reported_full :
  forall s i s' b pb b',
    c_applyBlock s i = Ok (s', true) ->
    find ccmd (blocks _ _ s) i = Some b -> find ccmd (blocks _ _ s) (b_par _ b) = Some pb ->
    find ccmd (blocks _ _ s') i = Some b' ->
    b_lvl _ b <> L_FULL ->
    (valid_upto _ pb L_FULL = false \/ b_h _ b <> root_h _ _ s + Z.of_N (napp _ _ s)) ->
    b_lvl _ b' <> L_FULL.
Proof. exact maybe_level_never_reported_full. Qed.
Print Assumptions C20_maybe_level_never_reported_full.

Theorem C20_unapply_order :
  forall s i s', c_unapplyBlock s i = Ok s' ->
    exists b pb, find ccmd (blocks _ _ s) i = Some b /\ b_act _ b = true /\
                 find ccmd (blocks _ _ s) (b_par _ b) = Some pb /\ b_act _ pb = true /\
                 child_active _ (blocks _ _ s) i = false /\ i <> root _ _ s.
Proof. exact unapply_order. Qed.
Print Assumptions C20_unapply_order.

Theorem C20_reactivation_partial :
  forall base s to s',
    canon base s -> c_setState s to = Ok (s', true) ->
    tip _ _ s' = to /\ napp _ _ s' = chain_count _ _ s' to /\
    exists b, find ccmd (blocks _ _ s') to = Some b /\ valid_upto _ b L_FULL = true.
Proof. exact setState_true_outcome. Qed.
Print Assumptions C20_reactivation_partial.

Theorem C20_full_validity_truthful :
  forall base s, reachable base s ->
    forall b, In b (blocks _ _ s) -> N.leb L_FULL (b_lvl _ b) = true ->
              exists p', replay (bgs s (depth s (b_id _ b)) (b_id _ b)) base = Some p'.
Proof. exact full_validity_truthful_all. Qed.
Print Assumptions C20_full_validity_truthful.
