(** C20 — a chain once reported fully valid can be activated again. Closed, instantiated machine.

    FULL statements aimed at (kept visible):
      full_validity_truthful : reachable s -> level b = CAN_BE_APPLIED -> applying root..b alone from the bootstrap state succeeds
      reactivation           : ... -> b not invalidated -> setState s b = Ok (_, true) from any reachable s
    PROVED for all states: the level logic of applyBlock — the fully-valid level is raised only on a fully valid parent
    and only when the applied-block counter says nothing but root..parent is applied (full_level_guard); a block applied
    next to another chain or on a MAYBE parent is never reported as fully valid by that application
    (maybe_level_never_reported_full); the unapply discipline (applied, parent applied, no applied child);
    and (Properties_C01) P = effects of the applied blocks at that moment.
    GAP (hence _partial): the counting argument "counter = height - root height and applied set parent-closed => applied
    set = root..parent", which turns the guard into truthfulness and re-activation; covered by the re-activation oracle
    on the implementation and by the exact comparison of validity levels with the model. *)
From Coq Require Import List ZArith NArith Bool.
From VB Require Import Pop.SmDefs Pop.SmProofs.
Local Open Scope Z_scope.

Theorem C20_full_validity_truthful_partial :
  forall s i s' b pb b',
    c_applyBlock s i = Ok (s', true) ->
    find ccmd (blocks _ _ s) i = Some b -> find ccmd (blocks _ _ s) (b_par _ b) = Some pb ->
    find ccmd (blocks _ _ s') i = Some b' ->
    b_lvl _ b <> L_FULL -> b_lvl _ b' = L_FULL ->
    valid_upto _ pb L_FULL = true /\ b_h _ b = root_h _ _ s + Z.of_N (napp _ _ s).
Proof. exact full_level_guard. Qed.
Print Assumptions C20_full_validity_truthful_partial.

Theorem C20_maybe_level_never_reported_full :
  forall s i s' b pb b',
    c_applyBlock s i = Ok (s', true) ->
    find ccmd (blocks _ _ s) i = Some b -> find ccmd (blocks _ _ s) (b_par _ b) = Some pb ->
    find ccmd (blocks _ _ s') i = Some b' ->
    b_lvl _ b <> L_FULL ->
    (valid_upto _ pb L_FULL = false \/ b_h _ b <> root_h _ _ s + Z.of_N (napp _ _ s)) ->
    b_lvl _ b' <> L_FULL.
Proof. exact maybe_level_never_reported_full. Qed.
Print Assumptions C20_maybe_level_never_reported_full.

Theorem C20_unapply_order :
  forall s i s', c_unapplyBlock s i = Ok s' ->
    exists b pb, find ccmd (blocks _ _ s) i = Some b /\ b_act _ b = true /\
                 find ccmd (blocks _ _ s) (b_par _ b) = Some pb /\ b_act _ pb = true /\
                 child_active _ (blocks _ _ s) i = false /\ i <> root _ _ s.
Proof. exact unapply_order. Qed.
Print Assumptions C20_unapply_order.

Theorem C20_reactivation_partial :
  forall base s to s',
    canon base s -> c_setState s to = Ok (s', true) ->
    tip _ _ s' = to /\ napp _ _ s' = chain_count _ _ s' to /\
    exists b, find ccmd (blocks _ _ s') to = Some b /\ valid_upto _ b L_FULL = true.
Proof. exact setState_true_outcome. Qed.
Print Assumptions C20_reactivation_partial.
