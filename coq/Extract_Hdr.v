Require Extraction.
Require Import ExtrOcamlBasic.
From Coq Require Import ZArith NArith.
From VB Require Import Conc.CacheDefs Conc.HeaderDefs Conc.LruMapDefs.
Extraction "Hdr_model.ml" Nat.pred N.succ Z.succ hdr_raw hdr_wf nonce40 raw_height raw_epoch raw_nonce kernel_inputs
  lop_step lop_run answers_admissible ideal_step.
