(** C04 — the hypothesis [compiled] of Rules/RulesFull.v discharged over histories: if every connectBlock of
    a history hands the machine the translation of the block's body in its chain context AT THAT TIME, then
    every state of the history is [compiled] (the static part of a block never changes), hence its active
    chain is contextually valid. *)
From Coq Require Import List ZArith NArith Bool Lia.
From VB Require Import Rules.RulesDefs Rules.RulesProofs.
From VB Require Import Pop.SmDefs Pop.SmProofs Pop.SmWf Pop.SmTruth Pop.SmCmp Pop.SmAll Pop.SmCoh Pop.SmFull.
From VB Require Import Rules.RulesFull.
Import ListNotations.
Local Open Scope Z_scope.

Section Hist.
  Variable W : World.
  Variable P : Params.
  Variable bodyof : N -> Body.

  Lemma alt_chain_static : forall l l' n i, same_static l l' -> alt_chain bodyof l' n i = alt_chain bodyof l n i.
  Proof.
    intros l l' n. induction n as [|n IH]; intros i S; [reflexivity|]. cbn [alt_chain].
    rewrite (parent_static _ _ i S), (IH _ S). reflexivity.
  Qed.

  Lemma alt_chain_app : forall l x n i,
    (forall j e, cfind l j = Some e -> exists pe, cfind l (e_par e) = Some pe) ->
    (exists e, cfind l i = Some e) -> alt_chain bodyof (l ++ [x]) n i = alt_chain bodyof l n i.
  Proof.
    intros l x n. induction n as [|n IH]; intros i Hcl (e & He); [reflexivity|]. cbn [alt_chain].
    assert (Hp : parent (l ++ [x]) i = parent l i).
    { unfold parent. rewrite (cfind_app_some _ x _ _ He), He. reflexivity. }
    rewrite Hp. f_equal. apply IH; [exact Hcl|]. unfold parent. rewrite He. eapply Hcl. exact He.
  Qed.

  (** [compiled] only looks at the static part of the tree *)
  Lemma compiled_static : forall s s',
    map (static ccmd) (blocks _ _ s') = map (static ccmd) (blocks _ _ s) -> root _ _ s' = root _ _ s ->
    compiled W P bodyof s -> compiled W P bodyof s'.
  Proof.
    intros s s' H Rt [C0 C1]. pose proof (same_static_of_static _ _ H) as S. split.
    - rewrite Rt, (gs_of_static _ _ _ H). exact C0.
    - intros b' Hin Hr.
      assert (X : In (static ccmd b') (map (static ccmd) (blocks _ _ s))) by (rewrite <- H; apply in_map; exact Hin).
      apply in_map_iff in X. destruct X as (b & Eb & Hb).
      inversion Eb as [[E1 E2 E3 E4]].
      unfold rctx.
      rewrite (depth_static _ _ _ H Rt), (alt_chain_static _ _ _ _ S).
      apply C1; [exact Hb | rewrite E1, <- Rt; exact Hr].
  Qed.

  (** the discipline of a history: each connected block carries the translation of its body, computed in the
      state in which it is connected *)
  Definition op_ok (s : cst) (o : op) : Prop :=
    match o with
    | OConnect i par dup gs =>
      gs = tr W P (rctx bodyof (cores s) (depth s par) par) (zid i) (bodyof i)
    | _ => True
    end.

  Fixpoint ops_ok (s : cst) (ops : list op) : Prop :=
    match ops with
    | [] => True
    | o :: r => op_ok s o /\ match step_op s o with Ok s1 => ops_ok s1 r | Abort _ => True end
    end.

  Lemma compiled_connect : forall s i par dup gs s',
    wf s -> compiled W P bodyof s -> op_ok s (OConnect i par dup gs) ->
    c_connect s i par dup gs = Ok s' -> compiled W P bodyof s'.
  Proof.
    intros s i par dup gs s' Wf [C0 C1] Hok H. unfold c_connect, connect in H.
    destruct (find ccmd (blocks pstate ccmd s) par) as [pb|] eqn:Fp; [|discriminate].
    destruct (find ccmd (blocks pstate ccmd s) i) eqn:Fi; [discriminate|].
    inversion H; subst s'; clear H.
    set (nb := mkBlk ccmd i par (b_h ccmd pb + 1) L_CONNECTED false dup (is_failed ccmd pb) false gs).
    set (s' := with_blocks pstate ccmd s (blocks pstate ccmd s ++ [nb])).
    assert (C' : cores s' = cores s ++ [core nb]) by (unfold cores, s'; cbn [blocks with_blocks]; rewrite map_app; reflexivity).
    assert (Hh : forall j e, cfind (cores s) j = Some e -> hgt (cores s ++ [core nb]) j = hgt (cores s) j).
    { intros j e He. unfold hgt. rewrite (cfind_app_some _ _ _ _ He), He. reflexivity. }
    pose proof Wf as (ND & (hr & HR) & _).
    assert (Hctx : forall j e, cfind (cores s) j = Some e ->
                     rctx bodyof (cores s') (depth s' j) j = rctx bodyof (cores s) (depth s j) j).
    { intros j e He. unfold rctx, depth. rewrite C'. cbn [root with_blocks s'].
      rewrite (Hh _ _ He), (Hh _ _ HR).
      rewrite (alt_chain_app _ _ _ _ (wf_closed s Wf) (ex_intro _ _ He)). reflexivity. }
    assert (NDi : NoDup (ids (blocks _ _ s))).
    { unfold ids. unfold cores in ND. rewrite map_map in ND. exact ND. }
    split.
    - unfold gs_of in *. cbn [root blocks with_blocks s'].
      destruct (find ccmd (blocks pstate ccmd s) (root pstate ccmd s)) as [rb|] eqn:Fr.
      + rewrite (find_app_some _ _ _ _ Fr). exact C0.
      + exfalso. unfold cores in HR. rewrite cfind_core, Fr in HR. discriminate.
    - intros b Hin Hr. cbn [blocks with_blocks s'] in Hin. cbn [root with_blocks s'] in Hr.
      apply in_app_or in Hin. destruct Hin as [Hin|[<-|[]]].
      + pose proof (find_in_blocks _ _ NDi Hin) as Fb. pose proof (find_cfind _ _ _ Fb) as Cb.
        destruct (wf_closed s Wf _ _ Cb) as (pe & Hpe). change (e_par (core b)) with (b_par ccmd b) in Hpe.
        rewrite (Hctx _ _ Hpe). apply C1; assumption.
      + cbn [b_gs b_par b_id nb]. rewrite (Hctx _ _ (find_cfind _ _ _ Fp)). exact Hok.
  Qed.

  Lemma compiled_run : forall base ops s s',
    good base s -> compiled W P bodyof s -> ops_ok s ops -> run s ops = Ok s' -> compiled W P bodyof s'.
  Proof.
    induction ops as [|o r IH]; intros s s' G C Hok H; cbn in H.
    - inversion H; subst. exact C.
    - destruct (step_op s o) as [s1|] eqn:E; cbn in H; [|discriminate].
      cbn [ops_ok] in Hok. rewrite E in Hok. destruct Hok as [Ho Hr].
      assert (G1 : good base s1) by (eapply (good_run base [o] s s1 G); cbn; rewrite E; reflexivity).
      eapply (IH s1 s' G1); [|exact Hr|exact H].
      destruct G as (Q & _). pose proof Q as (Wf & _).
      destruct o as [i par dup gs|to|c sc cr]; cbn in E.
      + eapply compiled_connect; eassumption.
      + destruct (c_setState s to) as [[s2 ok]|] eqn:E2; cbn in E; [|discriminate]. inversion E; subst.
        destruct (quiet_setState _ _ _ _ Q E2) as (_ & _ & Rt & _).
        exact (compiled_static _ _ (static_setState _ _ _ _ E2) Rt C).
      + destruct (c_compare sc cr s c) as [[s2 rr]|] eqn:E2; cbn in E; [|discriminate]. inversion E; subst.
        destruct (quiet_compare _ _ _ _ _ _ Q E2) as (_ & _ & Rt & _).
        exact (compiled_static _ _ (static_compare _ _ _ _ _ _ E2) Rt C).
  Qed.

  Lemma compiled_init : forall r h, compiled W P bodyof (c_init r h base0).
  Proof.
    intros r h. split.
    - unfold gs_of, c_init, init. cbn [blocks root find b_id]. rewrite N.eqb_refl. reflexivity.
    - intros b [<-|[]] Hr. exfalso. apply Hr. reflexivity.
  Qed.

  (** C04 over histories of the as-coded machine: whatever sequence of connectBlock (with the translated
      groups of the block's body) / setState / comparePopScore (any scorer) is run from the bootstrap state,
      the active chain of the resulting state consists of contextually valid blocks only *)
  Theorem history_active_payloads_valid : forall r h ops s,
    ops_ok (c_init r h base0) ops -> run (c_init r h base0) ops = Ok s ->
    chain_valid W P st0 (active_bodies bodyof s).
  Proof.
    intros r h ops s Hok H. apply active_payloads_valid.
    - exists r, h, ops. exact H.
    - eapply compiled_run; [apply good_init | apply compiled_init | exact Hok | exact H].
  Qed.
End Hist.

(** non-vacuity: the example history of RulesFull obeys the discipline and runs *)
Example ex_history_ok : ops_ok exW exP ex_bodyof (c_init 0 0 base0) ex_ops.
Proof. vm_compute. repeat split. Qed.
