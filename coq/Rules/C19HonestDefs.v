(** C19 — what an honest VBK pop miner builds (model of MockMiner::createVTB / createVbkPopTxEndorsingVbkBlock /
    getBlocks), relative to the chain the payload is delivered on.  Executable definitions only; the proofs are in
    Rules/C19Honest.v.

    The miner chooses: the payload id, the containing VBK block [vs_cont] it mined the pop transaction into, the
    HEIGHT [vs_eh] of the block of its own VBK chain that it endorses, and the BTC block of proof [vs_bop].
    Everything else of the VTB is computed:

    * the endorsed block is the block of the containing block's own chain at that height
      (containing->getAncestor(height)); the miner never endorses a block of another fork;
    * the BTC context is MockMiner::getBlocks(btc_tree, blockOfProof, lastKnownBtcBlock): the parent links of
      the block of proof are followed down to the last known block, exclusive; [lastKnownBtcBlock] is the
      nearest ancestor of the block of proof that the chain already references at or below the containing
      block (bootstrap blocks, blocks of earlier VTBs of the chain, blocks of the earlier VTBs of the same ALT
      block): [btc_ref_ok] of the as-coded validateBTCContext is the miner's stop test. *)
From Coq Require Import ZArith List Bool.
From VB Require Import Rules.RulesDefs.
Import ListNotations.
Local Open Scope Z_scope.

Record VtbSpec := mkVtbSpec { vs_id : Z; vs_cont : Z; vs_eh : Z; vs_bop : Z }.

(** walk down from [x] (initially the block of proof); result: (connecting block, context blocks in chain order
    ending with the block of proof).  [None]: the root was reached (or the fuel = number of BTC blocks ran out)
    without meeting a block known to the chain — the miner cannot build a connecting context. *)
Fixpoint honest_btc_context (fuel : nat) (W : World) (R : list (Z * Z)) (cont x : Z) (acc : list Z)
  : option (Z * list Z) :=
  match fuel with
  | O => None
  | S f =>
    match parent_of (btcs W) x with
    | None => None
    | Some p => if btc_ref_ok W R p cont then Some (p, x :: acc)
                else honest_btc_context f W R cont p (x :: acc)
    end
  end.

(** the VTB built on top of the BTC references [R] made by the chain so far *)
Definition honest_vtb (W : World) (R : list (Z * Z)) (sp : VtbSpec) : option Vtb :=
  match ancestor_at (vbks W) (vs_cont sp) (vs_eh sp) with
  | None => None
  | Some e =>
    match honest_btc_context (length (btcs W)) W R (vs_cont sp) (vs_bop sp) [] with
    | None => None
    | Some (conn, path) => Some (mkVtb (vs_id sp) e (vs_cont sp) conn path)
    end
  end.

(** the VTBs of one ALT block: each one is built knowing the BTC blocks of the earlier ones *)
Fixpoint honest_vtbs (W : World) (s : St) (sps : list VtbSpec) : option (list Vtb) :=
  match sps with
  | [] => Some []
  | sp :: r =>
    match honest_vtb W (brefs s) sp with
    | None => None
    | Some w => match honest_vtbs W (after_vtb s w) r with
                | None => None
                | Some ws => Some (w :: ws)
                end
    end
  end.

(** * the honest miner's side conditions (none of them mentions the built payload) *)

(** timeliness: the containing block is at most the VBK settlement interval above the endorsed height *)
Definition vtb_timely (W : World) (P : Params) (sp : VtbSpec) : Prop :=
  exists hc, height_of (vbks W) (vs_cont sp) = Some hc /\ hc - vs_eh sp <= p_vsettle P.

(** a VBK block holds at most MAX_VBKPOPTX_PER_VBK_BLOCK pop transactions (a VBK consensus rule: honest VBK miners
    do not produce fuller blocks), counting the ones the chain has applied already *)
Definition vtb_room (P : Params) (s : St) (sps : list VtbSpec) : Prop :=
  forall c, count c (vin s) + count c (map vs_cont sps) <= p_maxvtb P.

(** delivered with connecting context: the containing VBK block is in the VBK tree when the VTBs are applied *)
Definition honest_vtb_specs (W : World) (P : Params) (s : St) (sps : list VtbSpec) : Prop :=
  (forall sp, In sp sps -> In (vs_cont sp) (vknown s) /\ vtb_timely W P sp) /\ vtb_room P s sps.

(** the VBK tree only ever holds connected blocks: the parent of a known block is known.  Invariant of every
    state reached from [st0] (Rules/C19Honest.v: [vclosed_after_chain]). *)
Definition vclosed (W : World) (K : list Z) : Prop :=
  forall v p, In v K -> parent_of (vbks W) v = Some p -> In p K.

(** honest BTC miners: every BTC header of the world passes the contextual time rule at the wall clock *)
Definition btc_clock_ok (W : World) : Prop := forall b, bhdr_ok W b = true.

(** when the construction is possible: the chain of the containing block has a block at the chosen height, and
    some strict ancestor of the block of proof is referenced by the chain at or below the containing block *)
Definition spec_buildable (W : World) (R : list (Z * Z)) (sp : VtbSpec) : Prop :=
  (exists e, ancestor_at (vbks W) (vs_cont sp) (vs_eh sp) = Some e)
  /\ (exists a ha, ancestor_at (btcs W) (vs_bop sp) ha = Some a /\ a <> vs_bop sp
                   /\ btc_ref_ok W R a (vs_cont sp) = true).

(** * a second example world: VBK chain 0-1-2-3-4 with a fork 5 off block 1, BTC chain 0-1-2-3-4 with a fork 5 off
    block 2, ALT chain 0..6 with a fork 7-8-9 off block 2; ALT settlement 3, VBK settlement 2, keystone interval 2 *)
Definition hxW : World :=
  mkWorld [mkBlk 0 (-1) 0; mkBlk 1 0 1; mkBlk 2 1 2; mkBlk 3 2 3; mkBlk 4 3 4; mkBlk 5 4 5; mkBlk 6 5 6;
           mkBlk 7 2 3; mkBlk 8 7 4; mkBlk 9 8 5]
          [mkBlk 0 (-1) 0; mkBlk 1 0 1; mkBlk 2 1 2; mkBlk 3 2 3; mkBlk 4 3 4; mkBlk 5 1 2]
          [mkBlk 0 (-1) 0; mkBlk 1 0 1; mkBlk 2 1 2; mkBlk 3 2 3; mkBlk 4 3 4; mkBlk 5 2 3]
          []
          [(0, 100); (1, 110); (2, 120); (3, 130); (4, 140); (5, 125)]
          [(0, 50); (1, 60); (2, 70); (3, 80); (4, 90); (5, 85)]
          1000.
Definition hxP : Params := default_params 3 2 2.
