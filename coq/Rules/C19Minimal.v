(** C19 — the BTC context an honest pop miner builds is the SHORTEST connecting one: it starts right after a block
    the chain already references and contains no other block the chain already references (this is the choice of
    lastKnownBtcBlock that the correspondence stage of props/C19.py hands to MockMiner::createVTB). *)
From Coq Require Import ZArith List Bool.
From VB Require Import Rules.RulesDefs Rules.C19HonestDefs Rules.C19Honest.
Import ListNotations.
Local Open Scope Z_scope.

Lemma hbc_minimal W R cont : forall f x acc conn path,
  honest_btc_context f W R cont x acc = Some (conn, path) ->
  btc_ref_ok W R conn cont = true
  /\ exists pre, path = pre ++ x :: acc /\ forall b, In b pre -> btc_ref_ok W R b cont = false.
Proof.
  induction f as [|f IH]; intros x acc conn path H; cbn [honest_btc_context] in H; [discriminate|].
  destruct (parent_of (btcs W) x) as [p|]; [|discriminate].
  destruct (btc_ref_ok W R p cont) eqn:E.
  - inversion H; subst. split; [exact E|]. exists []. split; [reflexivity|]. intros b [].
  - apply IH in H. destruct H as [Hc [pre [Hp Hn]]]. split; [exact Hc|].
    exists (pre ++ [p]). split.
    + rewrite Hp, <- app_assoc. reflexivity.
    + intros b Hb. apply in_app_or in Hb. destruct Hb as [Hb|[Hb|[]]]; [apply Hn; exact Hb|subst; exact E].
Qed.

Theorem honest_vtb_context_minimal W R sp w :
  honest_vtb W R sp = Some w ->
  w_containing w = vs_cont sp
  /\ ancestor_at (vbks W) (vs_cont sp) (vs_eh sp) = Some (w_endorsed w)
  /\ btc_ref_ok W R (w_conn w) (vs_cont sp) = true
  /\ exists pre, w_bctx w = pre ++ [vs_bop sp] /\ forall b, In b pre -> btc_ref_ok W R b (vs_cont sp) = false.
Proof.
  unfold honest_vtb. intros H.
  destruct (ancestor_at (vbks W) (vs_cont sp) (vs_eh sp)) as [e|]; [|discriminate].
  destruct (honest_btc_context (length (btcs W)) W R (vs_cont sp) (vs_bop sp) []) as [[conn path]|] eqn:E; [|discriminate].
  inversion H; subst; cbn. apply hbc_minimal in E. destruct E as [Hc [pre [Hp Hn]]].
  repeat split; try assumption. exists pre. split; assumption.
Qed.

(** non-trivial instance: in the example world the second VTB of the block skips the two BTC blocks the first one
    made known and sends exactly the two unknown ones *)
Example honest_vtb_context_minimal_ex :
  honest_vtbs hxW (mkSt [0; 1; 2; 3; 4; 5] [(0, -1)] [] [])
              [mkVtbSpec 11 3 2 2; mkVtbSpec 12 4 2 4]
  = Some [mkVtb 11 2 3 0 [1; 2]; mkVtb 12 2 4 2 [3; 4]].
Proof. vm_compute. reflexivity. Qed.
