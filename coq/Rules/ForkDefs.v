(** C04 — several forks next to the active chain.

    The rule set of [RulesDefs] is PER CHAIN: [apply_chain] folds the bodies root..leaf of one chain.  The
    implementation keeps one payload index (payload id -> set of containing blocks) for ALL forks and finds
    "payload id twice in the chain" by intersecting that set with the chain of the block.  This file adds what the
    per-chain model needs to talk about that: a machine that holds any number of forks, where forks come and go
    (acceptBlock / removeSubtree / removePayloads / deallocation at finalization / the mempool's temporary block)
    and candidates are activated; and the as-coded index with its as-coded duplicate test.
    Executable; no proofs in this file. *)
From Coq Require Import ZArith List Bool.
From VB Require Import Rules.RulesDefs.
Import ListNotations.
Local Open Scope Z_scope.

Definition Chain := list (Z * Body).

Inductive FOp :=
  | FAdd (ch : Chain)           (* a fork (root..leaf with bodies) becomes known to the instance *)
  | FRemove (n : nat)           (* the n-th known fork goes away again *)
  | FActivate (ch : Chain).     (* setState to the leaf of ch *)

Record FM := mkFM { f_forks : list Chain; f_m : Machine }.
Definition fm0 : FM := mkFM [] m0.

Fixpoint drop_nth {A : Type} (n : nat) (l : list A) : list A :=
  match l, n with
  | [], _ => []
  | _ :: r, O => r
  | x :: r, S k => x :: drop_nth k r
  end.

Definition fstep (W : World) (P : Params) (m : FM) (o : FOp) : FM * bool :=
  match o with
  | FAdd ch => (mkFM (ch :: f_forks m) (f_m m), true)
  | FRemove n => (mkFM (drop_nth n (f_forks m)) (f_m m), true)
  | FActivate ch => let r := activate W P (f_m m) ch in (mkFM (f_forks m) (fst r), snd r)
  end.

Fixpoint frun (W : World) (P : Params) (m : FM) (ops : list FOp) : FM :=
  match ops with
  | [] => m
  | o :: r => frun W P (fst (fstep W P m o)) r
  end.

(** * The shared payload index as coded (PayloadsIndex: unordered_map<payload id, set<block>>) *)
Definition Pid := (Z * Z)%type.                     (* (kind, id) as in [body_ids] *)
Definition Index := list (Pid * list Z).             (* key -> set of containing blocks; keys are unique *)

Definition pid_eqb (a b : Pid) : bool := (fst a =? fst b) && (snd a =? snd b).

(** find(id): the set, or the empty set *)
Fixpoint ix_find (ix : Index) (p : Pid) : list Z :=
  match ix with
  | [] => []
  | (k, s) :: r => if pid_eqb k p then s else ix_find r p
  end.

(** add(id, block): map_[id].insert(block) *)
Fixpoint ix_add (ix : Index) (p : Pid) (blk : Z) : Index :=
  match ix with
  | [] => [(p, [blk])]
  | (k, s) :: r => if pid_eqb k p then (k, if mem blk s then s else blk :: s) :: r else (k, s) :: ix_add r p blk
  end.

Definition set_erase (blk : Z) (s : list Z) : list Z := filter (fun x => negb (x =? blk)) s.

(** remove(id, block): erase the block from the set; the key is cleaned up when the set has become EMPTY *)
Fixpoint ix_remove (ix : Index) (p : Pid) (blk : Z) : Index :=
  match ix with
  | [] => []
  | (k, s) :: r =>
    if pid_eqb k p then
      let s' := set_erase blk s in
      match s' with [] => r | _ => (k, s') :: r end
    else (k, s) :: ix_remove r p blk
  end.

(** commitPayloadsIds / PLIRemoveBlock: every payload id of the body *)
Definition ix_add_block (ix : Index) (blk : Z) (b : Body) : Index :=
  fold_left (fun acc p => ix_add acc p blk) (body_ids b) ix.
Definition ix_remove_block (ix : Index) (blk : Z) (b : Body) : Index :=
  fold_left (fun acc p => ix_remove acc p blk) (body_ids b) ix.

(** the tree of blocks that currently carry payloads (any fork) with the index kept next to it *)
Record Held := mkHeld { h_blocks : list (Z * Body); h_index : Index }.
Definition held0 : Held := mkHeld [] [].

Inductive HOp := HAccept (blk : Z) (b : Body) | HDrop (blk : Z).

Fixpoint hfind (l : list (Z * Body)) (blk : Z) : option Body :=
  match l with
  | [] => None
  | (c, b) :: r => if c =? blk then Some b else hfind r blk
  end.

Definition hstep (h : Held) (o : HOp) : Held :=
  match o with
  | HAccept blk b =>
    match hfind (h_blocks h) blk with
    | Some _ => h                                  (* acceptBlock asserts that the block has no payloads yet *)
    | None => mkHeld ((blk, b) :: h_blocks h) (ix_add_block (h_index h) blk b)
    end
  | HDrop blk =>
    match hfind (h_blocks h) blk with
    | None => h
    | Some b => mkHeld (filter (fun cb => negb (fst cb =? blk)) (h_blocks h)) (ix_remove_block (h_index h) blk b)
    end
  end.

Fixpoint hrun (h : Held) (ops : list HOp) : Held :=
  match ops with [] => h | o :: r => hrun (hstep h o) r end.

(** BlockPayloadMutator::isStatefulDuplicate for the non-finalized part: some containing block of the id is on the
    chain below the block ([anc]: the ids of its ancestors) *)
Definition ix_is_dup (ix : Index) (anc : list Z) (p : Pid) : bool :=
  existsb (fun blk => mem blk anc) (ix_find ix p).

(** hasStatefulDuplicates of connectBlock *)
Definition ix_block_dup (ix : Index) (anc : list Z) (b : Body) : bool :=
  existsb (ix_is_dup ix anc) (body_ids b).
