(** C19 — honestly built VTBs satisfy the contextual rules of the chain they are delivered on; an ALT block whose
    whole body is honest is accepted, with no validity premise about its payloads. *)
From Coq Require Import ZArith List Bool Lia.
From VB Require Import Rules.RulesDefs Rules.RulesProofs Rules.C19HonestDefs.
Import ListNotations.
Local Open Scope Z_scope.

(** * getAncestor *)
Lemma anc_at_height tr h : forall f x a, anc_at f tr x h = Some a -> height_of tr a = Some h.
Proof.
  induction f as [|f IH]; intros x a H; cbn [anc_at] in H;
    destruct (find_blk tr x) as [b|] eqn:F; try discriminate;
    destruct (b_height b =? h) eqn:E1.
  - inversion H. subst a. unfold height_of. rewrite F. cbn. apply Z.eqb_eq in E1. now subst.
  - destruct (b_height b <? h); discriminate.
  - inversion H. subst a. unfold height_of. rewrite F. cbn. apply Z.eqb_eq in E1. now subst.
  - destruct (b_height b <? h); [discriminate|].
    destruct (b_parent b =? -1); [discriminate|]. eapply IH. exact H.
Qed.

Lemma ancestor_is_anc_or_eq tr x h a : ancestor_at tr x h = Some a -> is_anc_or_eq tr a x.
Proof.
  intros H. exists h. split; [|exact H]. unfold ancestor_at in H. eapply anc_at_height. exact H.
Qed.

(** a block reached by parent links from a known block of a parent-closed set is known *)
Lemma anc_at_closed W K h : vclosed W K ->
  forall f x a, anc_at f (vbks W) x h = Some a -> In x K -> In a K.
Proof.
  intros C. induction f as [|f IH]; intros x a H Hx; cbn [anc_at] in H;
    destruct (find_blk (vbks W) x) as [b|] eqn:F; try discriminate;
    destruct (b_height b =? h) eqn:E1.
  - inversion H. now subst.
  - destruct (b_height b <? h); discriminate.
  - inversion H. now subst.
  - destruct (b_height b <? h); [discriminate|].
    destruct (b_parent b =? -1) eqn:E2; [discriminate|].
    apply (IH _ _ H). apply (C x). exact Hx. unfold parent_of. rewrite F, E2. reflexivity.
Qed.

(** * the BTC context of MockMiner::getBlocks *)
Lemma hbc_sound W R cont : forall f x acc conn path,
  honest_btc_context f W R cont x acc = Some (conn, path) ->
  btc_chain W x acc = true ->
  btc_ref_ok W R conn cont = true /\ btc_chain W conn path = true.
Proof.
  induction f as [|f IH]; intros x acc conn path H Hc; cbn [honest_btc_context] in H; [discriminate|].
  destruct (parent_of (btcs W) x) as [p|] eqn:Pa; [|discriminate].
  assert (Hc' : btc_chain W p (x :: acc) = true).
  { cbn [btc_chain]. rewrite Pa. cbn [oz_eqb]. rewrite Z.eqb_refl. exact Hc. }
  destruct (btc_ref_ok W R p cont) eqn:Rk.
  - inversion H. subst conn path. auto.
  - eapply IH; eauto.
Qed.

Lemma hbc_complete W R cont a ha : btc_ref_ok W R a cont = true ->
  forall f x acc, anc_at f (btcs W) x ha = Some a -> x <> a ->
    exists r, honest_btc_context f W R cont x acc = Some r.
Proof.
  intros Ra. induction f as [|f IH]; intros x acc H Hx; cbn [anc_at] in H;
    destruct (find_blk (btcs W) x) as [b|] eqn:F; try discriminate;
    destruct (b_height b =? ha) eqn:E1.
  - inversion H. congruence.
  - destruct (b_height b <? ha); discriminate.
  - inversion H. congruence.
  - destruct (b_height b <? ha); [discriminate|].
    destruct (b_parent b =? -1) eqn:E2; [discriminate|].
    cbn [honest_btc_context]. unfold parent_of. rewrite F, E2.
    destruct (btc_ref_ok W R (b_parent b) cont) eqn:Rk; [eauto|].
    apply IH; [exact H|]. intros E. rewrite E in Rk. congruence.
Qed.

(** * fields of the built VTB *)
Lemma honest_vtb_inv W R sp w : honest_vtb W R sp = Some w ->
  exists e conn path,
    w = mkVtb (vs_id sp) e (vs_cont sp) conn path
    /\ ancestor_at (vbks W) (vs_cont sp) (vs_eh sp) = Some e
    /\ honest_btc_context (length (btcs W)) W R (vs_cont sp) (vs_bop sp) [] = Some (conn, path).
Proof.
  unfold honest_vtb. intros H.
  destruct (ancestor_at (vbks W) (vs_cont sp) (vs_eh sp)) as [e|]; [|discriminate].
  destruct (honest_btc_context (length (btcs W)) W R (vs_cont sp) (vs_bop sp) []) as [[conn path]|]; [|discriminate].
  inversion H. exists e, conn, path. auto.
Qed.

Lemma honest_vtb_containing W R sp w : honest_vtb W R sp = Some w -> w_containing w = vs_cont sp /\ w_id w = vs_id sp.
Proof. intros H. destruct (honest_vtb_inv _ _ _ _ H) as (e & conn & path & E & _). subst w. cbn. auto. Qed.

(** * everything the contextual VTB rule demands except the settlement window *)
Definition vtb_valid_but_window (W : World) (P : Params) (s : St) (w : Vtb) : Prop :=
  In (w_containing w) (vknown s)
  /\ count (w_containing w) (vin s) < p_maxvtb P
  /\ (exists c', In (w_conn w, c') (brefs s) /\ (c' = -1 \/ is_anc_or_eq (vbks W) c' (w_containing w)))
  /\ btc_chain W (w_conn w) (w_bctx w) = true
  /\ forallb (bhdr_ok W) (w_bctx w) = true
  /\ In (w_endorsed w) (vknown s)
  /\ is_anc_or_eq (vbks W) (w_endorsed w) (w_containing w).

Lemma vtb_valid_split W P s w :
  vtb_valid W P s w <-> vtb_valid_but_window W P s w /\ within (vbks W) (w_containing w) (w_endorsed w) (p_vsettle P).
Proof. unfold vtb_valid, vtb_valid_but_window. tauto. Qed.

Lemma honest_vtb_but_window W P s sp w :
  honest_vtb W (brefs s) sp = Some w ->
  In (vs_cont sp) (vknown s) -> vclosed W (vknown s) -> btc_clock_ok W ->
  count (vs_cont sp) (vin s) < p_maxvtb P ->
  vtb_valid_but_window W P s w /\ height_of (vbks W) (w_endorsed w) = Some (vs_eh sp).
Proof.
  intros H Hc Cl Ck Hn. destruct (honest_vtb_inv _ _ _ _ H) as (e & conn & path & E & A & B). subst w.
  unfold vtb_valid_but_window. cbn [w_containing w_conn w_bctx w_endorsed].
  destruct (hbc_sound W (brefs s) (vs_cont sp) _ _ _ _ _ B eq_refl) as [Rk Ch].
  repeat split; auto.
  - now apply btc_ref_ok_iff.
  - apply forallb_forall. intros b _. apply Ck.
  - unfold ancestor_at in A. eapply anc_at_closed; eauto.
  - eapply ancestor_is_anc_or_eq. exact A.
  - unfold ancestor_at in A. eapply anc_at_height. exact A.
Qed.

Lemma honest_vtb_valid W P s sp w :
  honest_vtb W (brefs s) sp = Some w ->
  In (vs_cont sp) (vknown s) -> vclosed W (vknown s) -> btc_clock_ok W ->
  count (vs_cont sp) (vin s) < p_maxvtb P ->
  vtb_timely W P sp ->
  vtb_valid W P s w.
Proof.
  intros H Hc Cl Ck Hn [hc [Eh Le]].
  destruct (honest_vtb_but_window W P s sp w H Hc Cl Ck Hn) as [V He].
  apply vtb_valid_split. split; [exact V|].
  destruct (honest_vtb_containing _ _ _ _ H) as [Ec _]. rewrite Ec.
  exists hc, (vs_eh sp). auto.
Qed.

(** * the list: each VTB is built on the references of the earlier ones *)
Lemma count_cons x y l : count x (y :: l) = (if x =? y then 1 else 0) + count x l.
Proof.
  unfold count. cbn [filter]. destruct (x =? y); cbn [length]; [|lia].
  rewrite Nat2Z.inj_succ. lia.
Qed.

Lemma count_nonneg x l : 0 <= count x l.
Proof. unfold count. lia. Qed.

Lemma honest_vtbs_valid W P : btc_clock_ok W ->
  forall sps s ws,
    honest_vtbs W s sps = Some ws ->
    honest_vtb_specs W P s sps -> vclosed W (vknown s) ->
    vtbs_valid W P s ws.
Proof.
  intros Ck. induction sps as [|sp r IH]; intros s ws H [Hs Hr] Cl; cbn [honest_vtbs] in H.
  - inversion H. exact I.
  - destruct (honest_vtb W (brefs s) sp) as [w|] eqn:Hw; [|discriminate].
    destruct (honest_vtbs W (after_vtb s w) r) as [ws'|] eqn:Hws; [|discriminate].
    inversion H. subst ws. cbn [vtbs_valid].
    destruct (Hs sp (or_introl eq_refl)) as [Hc Ht].
    destruct (honest_vtb_containing _ _ _ _ Hw) as [Ec _].
    split.
    + eapply honest_vtb_valid; eauto.
      specialize (Hr (vs_cont sp)). cbn [map] in Hr. rewrite count_cons, Z.eqb_refl in Hr.
      pose proof (count_nonneg (vs_cont sp) (map vs_cont r)). lia.
    + apply (IH _ _ Hws); [|exact Cl]. split.
      * intros sp' Hi. apply Hs. now right.
      * intros c. specialize (Hr c). cbn [map] in Hr. rewrite count_cons in Hr.
        cbn [after_vtb vin]. rewrite Ec, count_cons. lia.
Qed.

(** the construction succeeds whenever the miner has a block at the endorsed height on its chain and a strict
    ancestor of the block of proof is already referenced by the chain (seen from the state BEFORE the block's VTBs:
    the references only grow) *)
Lemma btc_ref_ok_mono W R R' a c :
  (forall q, In q R -> In q R') -> btc_ref_ok W R a c = true -> btc_ref_ok W R' a c = true.
Proof.
  intros Sub H. unfold btc_ref_ok in *. apply existsb_exists in H. destruct H as [q [Hq E]].
  apply existsb_exists. exists q. auto.
Qed.

Lemma spec_buildable_mono W R R' sp :
  (forall q, In q R -> In q R') -> spec_buildable W R sp -> spec_buildable W R' sp.
Proof.
  intros Sub [A (a & ha & B1 & B2 & B3)]. split; [exact A|]. exists a, ha. repeat split; auto.
  eapply btc_ref_ok_mono; eauto.
Qed.

Lemma honest_vtb_succeeds W R sp : spec_buildable W R sp -> exists w, honest_vtb W R sp = Some w.
Proof.
  intros [[e A] (a & ha & B1 & B2 & B3)]. unfold honest_vtb. rewrite A.
  destruct (hbc_complete W R (vs_cont sp) a ha B3 (length (btcs W)) (vs_bop sp) []) as [[conn path] E].
  - exact B1.
  - congruence.
  - rewrite E. eauto.
Qed.

Lemma honest_vtbs_succeed W : forall sps s,
  (forall sp, In sp sps -> spec_buildable W (brefs s) sp) -> exists ws, honest_vtbs W s sps = Some ws.
Proof.
  induction sps as [|sp r IH]; intros s H; cbn [honest_vtbs]; [eauto|].
  destruct (honest_vtb_succeeds W (brefs s) sp (H sp (or_introl eq_refl))) as [w Hw]. rewrite Hw.
  destruct (IH (after_vtb s w)) as [ws Hws].
  - intros sp' Hi. eapply spec_buildable_mono; [|apply H; now right].
    intros q Hq. cbn [after_vtb brefs]. apply in_or_app. now right.
  - rewrite Hws. eauto.
Qed.

(** * the parent-closure of the known VBK blocks is an invariant of the chain *)
Lemma vclosed_add W K v : vclosed W K -> vbk_connects W K v -> vclosed W (add_known K v).
Proof.
  intros C Hv. unfold add_known. destruct (mem v K) eqn:M; [exact C|].
  intros x p Hx Hp. destruct Hx as [Hx|Hx].
  - subst x. right. destruct Hv as [Hv|[q [Eq [Hq _]]]].
    + eapply C; eauto.
    + rewrite Eq in Hp. inversion Hp. now subst.
  - right. eapply C; eauto.
Qed.

Lemma vclosed_ctx W : forall vs K, vclosed W K -> ctx_connects W K vs -> vclosed W (known_after K vs).
Proof.
  induction vs as [|v r IH]; intros K C H; cbn [known_after]; [exact C|].
  cbn [ctx_connects] in H. destruct H as [H1 H2]. apply IH; [|exact H2]. now apply vclosed_add.
Qed.

Lemma vclosed_atvs W P c : forall ts K, vclosed W K -> atvs_valid W P c K ts -> vclosed W (known_after K (map t_bop ts)).
Proof.
  induction ts as [|t r IH]; intros K C H; cbn [map known_after]; [exact C|].
  cbn [atvs_valid] in H. destruct H as [[H1 _] H2]. apply IH; [|exact H2]. now apply vclosed_add.
Qed.

Lemma vclosed_after_block W P s c b : vclosed W (vknown s) -> ctx_valid W P s c b -> vclosed W (vknown (after_block s b)).
Proof.
  intros C (_ & H2 & _ & H4). unfold after_block. cbn [vknown].
  eapply vclosed_atvs; [|exact H4]. now apply vclosed_ctx.
Qed.

Lemma vclosed_after_chain W P : forall ch s,
  vclosed W (vknown s) -> chain_valid W P s ch -> vclosed W (vknown (after_chain s ch)).
Proof.
  induction ch as [|[c b] r IH]; intros s C H; cbn [after_chain]; [exact C|].
  cbn [chain_valid] in H. destruct H as [H1 H2]. apply IH; [|exact H2]. eapply vclosed_after_block; eauto.
Qed.

Lemma vclosed_st0 W : parent_of (vbks W) 0 = None -> vclosed W (vknown st0).
Proof. intros H v p [E|[]] Hp. subst v. congruence. Qed.

(** every state the chain can be in: the bootstrap VBK block is a root of the world *)
Lemma vclosed_reachable W P ch :
  parent_of (vbks W) 0 = None -> chain_valid W P st0 ch -> vclosed W (vknown (after_chain st0 ch)).
Proof. intros H0 H. eapply vclosed_after_chain; [now apply vclosed_st0 | exact H]. Qed.

(** * the whole honest block: no validity premise about any payload *)
Lemma honest_block_accepted_full W P s c ctx vspecs vtbs specs :
  let K := known_after (vknown s) ctx in
  let s1 := mkSt K (brefs s) (vin s) (seen s) in
  let b := mkBody ctx vtbs (mk_honest W P specs) in
  honest_vtbs W s1 vspecs = Some vtbs ->
  honest_vtb_specs W P s1 vspecs ->
  honest_atvs W P c K specs ->
  ctx_connects W (vknown s) ctx ->
  no_dup_on_chain s b ->
  vclosed W (vknown s) -> btc_clock_ok W ->
  exec_block W P s c b = inl (after_block s b).
Proof.
  intros K s1 b Hb Hv Ha Hc Hd Cl Ck.
  apply honest_block_accepted; auto.
  eapply honest_vtbs_valid; eauto. cbn [vknown s1]. now apply vclosed_ctx.
Qed.

(** ... and on every state reached from the bootstrap state by a valid chain (any fork) *)
Lemma honest_block_accepted_reachable W P pre c ctx vspecs vtbs specs :
  let s := after_chain st0 pre in
  let K := known_after (vknown s) ctx in
  let s1 := mkSt K (brefs s) (vin s) (seen s) in
  let b := mkBody ctx vtbs (mk_honest W P specs) in
  parent_of (vbks W) 0 = None -> btc_clock_ok W ->
  chain_valid W P st0 pre ->
  honest_vtbs W s1 vspecs = Some vtbs ->
  honest_vtb_specs W P s1 vspecs ->
  honest_atvs W P c K specs ->
  ctx_connects W (vknown s) ctx ->
  no_dup_on_chain s b ->
  apply_chain W P st0 (pre ++ [(c, b)]) = VOk (after_block s b).
Proof.
  intros s K s1 b H0 Ck Hp Hb Hv Ha Hc Hd.
  assert (E : exec_block W P s c b = inl (after_block s b)).
  { apply (honest_block_accepted_full W P s c ctx vspecs vtbs specs); auto. now apply (vclosed_reachable W P pre). }
  assert (G : forall ch s0, chain_valid W P s0 ch ->
              apply_chain W P s0 (ch ++ [(c, b)]) =
              match exec_block W P (after_chain s0 ch) c b with inl s' => VOk s' | inr e => VRefused c e end).
  { induction ch as [|[c0 b0] r IH]; intros s0 Hch; cbn [app apply_chain after_chain].
    - destruct (exec_block W P s0 c b); reflexivity.
    - cbn [chain_valid] in Hch. destruct Hch as [H1 H2].
      assert (X : exec_block W P s0 c0 b0 = inl (after_block s0 b0)) by (apply exec_block_iff; auto).
      rewrite X. now apply IH. }
  rewrite (G pre st0 Hp). fold s. rewrite E. reflexivity.
Qed.

(** * the clock premise is decidable on a concrete world *)
Lemma find_blk_id tr x b : find_blk tr x = Some b -> b_id b = x /\ In b tr.
Proof.
  induction tr as [|b0 r IH]; cbn [find_blk]; [discriminate|].
  destruct (b_id b0 =? x) eqn:E.
  - intros H. inversion H. subst b0. apply Z.eqb_eq in E. split; [exact E | now left].
  - intros H. destruct (IH H) as [A B]. split; [exact A | now right].
Qed.

Lemma btc_clock_ok_dec W : forallb (bhdr_ok W) (map b_id (btcs W)) = true -> btc_clock_ok W.
Proof.
  intros H b. destruct (find_blk (btcs W) b) as [blk|] eqn:F.
  - destruct (find_blk_id _ _ _ F) as [E Hi]. rewrite forallb_forall in H. apply H.
    rewrite <- E. now apply in_map.
  - unfold bhdr_ok, parent_of. rewrite F. reflexivity.
Qed.

(** * non-vacuity *)
(* the VTB of RulesProofs.exV is what the miner builds: containing VBK 2, endorsed height 1, block of proof BTC 2;
   the context walks 2 -> 1 -> bootstrap block 0 *)
Example ex_honest_vtb_is_exV :
  honest_vtb exW (brefs st0) (mkVtbSpec 1 2 1 2) = Some exV.
Proof. vm_compute. reflexivity. Qed.

(* two VTBs in one ALT block of hxW after the VBK context 1,2,3,4,5: the first (containing 3, endorsing height 2,
   block of proof BTC 2) brings BTC 1,2; the second (containing 4, endorsing height 2 = exactly the VBK settlement
   interval below, block of proof BTC 4) connects to BTC 2 of the FIRST one; a third one on the BTC fork 5 (containing
   VBK 4 as well) connects to BTC 2 too *)
Definition hx_specs : list VtbSpec := [mkVtbSpec 11 3 2 2; mkVtbSpec 12 4 2 4; mkVtbSpec 13 4 3 5].
Definition hx_s1 : St := mkSt (known_after (vknown st0) [1; 2; 3; 4; 5]) (brefs st0) (vin st0) (seen st0).

Example hx_built :
  honest_vtbs hxW hx_s1 hx_specs =
  Some [mkVtb 11 2 3 0 [1; 2]; mkVtb 12 2 4 2 [3; 4]; mkVtb 13 3 4 2 [5]].
Proof. vm_compute. reflexivity. Qed.

Example hx_clock : btc_clock_ok hxW.
Proof. apply btc_clock_ok_dec. vm_compute. reflexivity. Qed.

Example hx_closed : vclosed hxW (vknown st0).
Proof. apply vclosed_st0. vm_compute. reflexivity. Qed.

Example hx_ctx : ctx_connects hxW (vknown st0) [1; 2; 3; 4; 5].
Proof.
  cbn [ctx_connects]. repeat split; right.
  - exists 0. vm_compute. auto 12.
  - exists 1. vm_compute. auto 12.
  - exists 2. vm_compute. auto 12.
  - exists 3. vm_compute. auto 12.
  - exists 1. vm_compute. auto 12.
Qed.

Example hx_specs_honest : honest_vtb_specs hxW hxP hx_s1 hx_specs.
Proof.
  split.
  - intros sp [E|[E|[E|[]]]]; subst sp; split.
    + vm_compute. auto 10.
    + exists 3. vm_compute. split; [reflexivity | discriminate].
    + vm_compute. auto 10.
    + exists 4. vm_compute. split; [reflexivity | discriminate].
    + vm_compute. auto 10.
    + exists 4. vm_compute. split; [reflexivity | discriminate].
  - intros c. unfold hxP, default_params, p_maxvtb. cbn [hx_s1 vin st0 hx_specs map vs_cont].
    rewrite !count_cons. unfold count. cbn [filter length Z.of_nat].
    destruct (c =? 3), (c =? 4); vm_compute; discriminate.
Qed.

Example hx_atvs : honest_atvs hxW hxP 4 (known_after (vknown st0) [1; 2; 3; 4; 5]) [(21, 1, 5); (22, 3, 4)].
Proof.
  cbn [honest_atvs]. repeat split.
  - exists 1. vm_compute. auto.
  - exists 4, 1. vm_compute. repeat split; discriminate.
  - left. vm_compute. auto 10.
  - exists 3. vm_compute. auto.
  - exists 4, 3. vm_compute. repeat split; discriminate.
  - left. vm_compute. auto 10.
Qed.

(* all premises of the full theorem hold for this block (ALT block 4 on top of three empty blocks), and the code
   accepts it *)
Example hx_block_accepted : exists s,
  apply_chain hxW hxP st0
    [(1, mkBody [] [] []); (2, mkBody [] [] []); (3, mkBody [] [] []);
     (4, mkBody [1; 2; 3; 4; 5] [mkVtb 11 2 3 0 [1; 2]; mkVtb 12 2 4 2 [3; 4]; mkVtb 13 3 4 2 [5]]
                (mk_honest hxW hxP [(21, 1, 5); (22, 3, 4)]))] = VOk s.
Proof. eexists. vm_compute. reflexivity. Qed.

(* the settlement interval is not vacuous here: the same second VTB endorsing height 1 (3 below containing 4,
   VBK settlement 2) is built but refused as expired *)
Example hx_vtb_expired :
  exists w, honest_vtb hxW (brefs hx_s1) (mkVtbSpec 12 4 1 4) = Some w /\ exec_vtb hxW hxP hx_s1 w = inr EVExpired.
Proof. eexists. split; vm_compute; reflexivity. Qed.

(* every premise of [honest_block_accepted_full] at once, for that block on the bootstrap state *)
Example hx_full_premises :
  let ctx := [1; 2; 3; 4; 5] in
  let vtbs := [mkVtb 11 2 3 0 [1; 2]; mkVtb 12 2 4 2 [3; 4]; mkVtb 13 3 4 2 [5]] in
  let specs := [(21, 1, 5); (22, 3, 4)] in
  honest_vtbs hxW hx_s1 hx_specs = Some vtbs
  /\ honest_vtb_specs hxW hxP hx_s1 hx_specs
  /\ honest_atvs hxW hxP 4 (known_after (vknown st0) ctx) specs
  /\ ctx_connects hxW (vknown st0) ctx
  /\ no_dup_on_chain st0 (mkBody ctx vtbs (mk_honest hxW hxP specs))
  /\ vclosed hxW (vknown st0) /\ btc_clock_ok hxW.
Proof.
  cbv zeta. split; [exact hx_built|]. split; [exact hx_specs_honest|]. split; [exact hx_atvs|].
  split; [exact hx_ctx|]. split; [|split; [exact hx_closed | exact hx_clock]].
  intros i _ [].
Qed.
