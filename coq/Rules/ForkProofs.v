(** C04 — the verdict on a chain depends on that chain only, and the shared payload index as coded (with its
    as-coded clean-up of keys) answers the duplicate question exactly per chain, whatever other forks were accepted
    or dropped before. *)
From Coq Require Import ZArith List Bool Lia.
From VB Require Import Rules.RulesDefs Rules.RulesProofs Rules.ForkDefs.
Import ListNotations.
Local Open Scope Z_scope.

(** * the fork machine *)
Lemma fstep_activate_verdict W P m ch :
  snd (fstep W P m (FActivate ch)) = true <-> chain_valid W P st0 ch.
Proof.
  cbn [fstep snd]. unfold activate.
  destruct (apply_chain W P st0 ch) as [s|c e] eqn:E; cbn [snd].
  - apply apply_chain_ok_iff in E. tauto.
  - split; [discriminate|]. intros V. exfalso.
    assert (X : apply_chain W P st0 ch = VOk (after_chain st0 ch)) by (apply apply_chain_ok_iff; auto). congruence.
Qed.

(** acceptance of a candidate does not depend on which other forks exist, existed or were removed, nor on what
    was active before *)
Lemma verdict_independent_of_other_forks W P h1 h2 ch :
  snd (fstep W P (frun W P fm0 h1) (FActivate ch)) = snd (fstep W P (frun W P fm0 h2) (FActivate ch)).
Proof.
  apply eq_true_iff_eq. rewrite !fstep_activate_verdict. tauto.
Qed.

Lemma verdict_iff_own_chain_valid W P h ch :
  snd (fstep W P (frun W P fm0 h) (FActivate ch)) = true <-> chain_valid W P st0 ch.
Proof. apply fstep_activate_verdict. Qed.

Lemma fstep_inv W P m o : m_inv W P (f_m m) -> m_inv W P (f_m (fst (fstep W P m o))).
Proof.
  intros H. destruct o; cbn [fstep fst f_m]; auto. now apply activate_inv.
Qed.

Lemma fork_machine_active_valid W P ops : m_inv W P (f_m (frun W P fm0 ops)).
Proof.
  assert (G : forall m, m_inv W P (f_m m) -> m_inv W P (f_m (frun W P m ops))).
  { induction ops as [|o r IH]; intros m H; cbn [frun]; [exact H|]. apply IH. now apply fstep_inv. }
  apply G. unfold m_inv, fm0, m0. cbn. auto.
Qed.

(** * what a chain has "seen" is exactly the payload ids of its own bodies *)
Lemma seen_after_block s b : seen (after_block s b) = body_ids b ++ seen s.
Proof. reflexivity. Qed.

Lemma seen_after_chain ch : forall s i,
  In i (seen (after_chain s ch)) <-> In i (seen s) \/ exists c b, In (c, b) ch /\ In i (body_ids b).
Proof.
  induction ch as [|[c0 b0] r IH]; intros s i; cbn [after_chain].
  - split; [auto|]. intros [H|[c [b [[] _]]]]. exact H.
  - rewrite IH, seen_after_block, in_app_iff. split.
    + intros [[H|H]|[c [b [H1 H2]]]].
      * right. exists c0, b0. split; [left; reflexivity | exact H].
      * left. exact H.
      * right. exists c, b. split; [right; exact H1 | exact H2].
    + intros [H|[c [b [[E|H1] H2]]]].
      * left. right. exact H.
      * inversion E. subst. left. left. exact H2.
      * right. exists c, b. auto.
Qed.

(** the duplicate rule of a block refers to the bodies below it on its own chain and to nothing else *)
Lemma dup_rule_own_chain pre b :
  no_dup_on_chain (after_chain st0 pre) b <->
  (forall i, In i (body_ids b) -> forall c' b', In (c', b') pre -> ~ In i (body_ids b')).
Proof.
  unfold no_dup_on_chain. split.
  - intros H i Hi c' b' Hin Hi'. apply (H i Hi). apply seen_after_chain. right. exists c', b'. auto.
  - intros H i Hi Hs. apply seen_after_chain in Hs. destruct Hs as [[]|[c [bb [H1 H2]]]]. exact (H i Hi c bb H1 H2).
Qed.

(** * the shared index as coded *)
Lemma pid_eqb_eq a b : pid_eqb a b = true <-> a = b.
Proof.
  unfold pid_eqb. rewrite andb_true_iff, !Z.eqb_eq. destruct a, b; cbn. split; [intros [-> ->]; reflexivity|].
  intros E. inversion E. auto.
Qed.
Lemma pid_eqb_refl a : pid_eqb a a = true.
Proof. now apply pid_eqb_eq. Qed.
Lemma pid_eqb_neq a b : pid_eqb a b = false <-> a <> b.
Proof. rewrite <- pid_eqb_eq. destruct (pid_eqb a b); split; congruence. Qed.

Definition key_in (p : Pid) (ix : Index) : bool := existsb (fun e => pid_eqb (fst e) p) ix.
Fixpoint uniq (ix : Index) : Prop :=
  match ix with [] => True | (k, _) :: r => key_in k r = false /\ uniq r end.

Lemma find_nokey ix p : key_in p ix = false -> ix_find ix p = [].
Proof.
  unfold key_in. induction ix as [|[k s] r IH]; cbn [existsb ix_find fst]; [reflexivity|].
  rewrite orb_false_iff. intros [H1 H2]. rewrite H1. auto.
Qed.

Lemma key_in_add ix p blk q : key_in q (ix_add ix p blk) = key_in q ix || pid_eqb p q.
Proof.
  unfold key_in. induction ix as [|[k s] r IH]; cbn [ix_add existsb fst].
  - now rewrite orb_false_r.
  - destruct (pid_eqb k p) eqn:E; cbn [existsb fst].
    + apply pid_eqb_eq in E. subst k. destruct (pid_eqb p q); cbn; [reflexivity|]. now rewrite orb_false_r.
    + rewrite IH. now rewrite orb_assoc.
Qed.

Lemma key_in_remove ix p blk q : key_in q (ix_remove ix p blk) = true -> key_in q ix = true.
Proof.
  unfold key_in. induction ix as [|[k s] r IH]; cbn [ix_remove existsb fst]; [auto|].
  destruct (pid_eqb k p) eqn:E.
  - destruct (set_erase blk s); cbn [existsb fst]; intros H.
    + rewrite H. apply orb_true_r.
    + exact H.
  - cbn [existsb fst]. rewrite !orb_true_iff. intros [H|H]; auto.
Qed.

Lemma uniq_add ix p blk : uniq ix -> uniq (ix_add ix p blk).
Proof.
  induction ix as [|[k s] r IH]; cbn [ix_add uniq]; [auto|]. intros [H1 H2].
  destruct (pid_eqb k p) eqn:E; cbn [uniq]; [auto|]. split; [|auto].
  rewrite key_in_add, H1. cbn. apply pid_eqb_neq. apply pid_eqb_neq in E. congruence.
Qed.

Lemma uniq_remove ix p blk : uniq ix -> uniq (ix_remove ix p blk).
Proof.
  induction ix as [|[k s] r IH]; cbn [ix_remove uniq]; [auto|]. intros [H1 H2].
  destruct (pid_eqb k p) eqn:E.
  - destruct (set_erase blk s); cbn [uniq]; auto.
  - cbn [uniq]. split; [|auto]. destruct (key_in k (ix_remove r p blk)) eqn:K; [|reflexivity].
    apply key_in_remove in K. congruence.
Qed.

Lemma in_set_erase blk s x : In x (set_erase blk s) <-> In x s /\ x <> blk.
Proof.
  unfold set_erase. rewrite filter_In, negb_true_iff, Z.eqb_neq. tauto.
Qed.

Lemma find_add ix p blk q x :
  In x (ix_find (ix_add ix p blk) q) <-> In x (ix_find ix q) \/ (p = q /\ x = blk).
Proof.
  induction ix as [|[k s] r IH]; cbn [ix_add ix_find].
  - destruct (pid_eqb p q) eqn:E.
    + apply pid_eqb_eq in E. cbn. intuition (subst; try congruence; auto).
    + apply pid_eqb_neq in E. cbn. intuition (subst; try congruence; auto).
  - destruct (pid_eqb k p) eqn:E; cbn [ix_find].
    + apply pid_eqb_eq in E. subst k. destruct (pid_eqb p q) eqn:E2.
      * apply pid_eqb_eq in E2. destruct (mem blk s) eqn:M.
        -- apply mem_In in M. split; [auto|]. intros [H|[_ ->]]; auto.
        -- cbn. intuition (subst; try congruence; auto).
      * apply pid_eqb_neq in E2. intuition (subst; try congruence; auto).
    + destruct (pid_eqb k q) eqn:E2; [|exact IH].
      apply pid_eqb_eq in E2. subst k. apply pid_eqb_neq in E. intuition (subst; try congruence; auto).
Qed.

Lemma find_remove ix p blk q x : uniq ix ->
  In x (ix_find (ix_remove ix p blk) q) <-> In x (ix_find ix q) /\ ~ (p = q /\ x = blk).
Proof.
  induction ix as [|[k s] r IH]; cbn [ix_remove ix_find uniq]; [intuition|]. intros [U1 U2].
  destruct (pid_eqb k p) eqn:E.
  - apply pid_eqb_eq in E. subst k. destruct (pid_eqb p q) eqn:E2.
    + apply pid_eqb_eq in E2. subst q.
      assert (X : In x (set_erase blk s) <-> In x s /\ ~ (p = p /\ x = blk)).
      { rewrite in_set_erase. intuition (subst; try congruence; auto). }
      destruct (set_erase blk s) as [|y t] eqn:S.
      * rewrite (find_nokey r p U1). rewrite <- X. tauto.
      * cbn [ix_find]. rewrite pid_eqb_refl. exact X.
    + assert (N : p <> q) by now apply pid_eqb_neq.
      destruct (set_erase blk s); cbn [ix_find]; [|rewrite E2]; intuition (subst; try congruence; auto).
  - cbn [ix_find]. destruct (pid_eqb k q) eqn:E2.
    + apply pid_eqb_eq in E2. subst k. apply pid_eqb_neq in E. intuition (subst; try congruence; auto).
    + apply IH. exact U2.
Qed.

Lemma uniq_add_block blk : forall ids ix, uniq ix -> uniq (fold_left (fun acc p => ix_add acc p blk) ids ix).
Proof. induction ids as [|p r IH]; intros ix U; cbn; [auto|]. apply IH. now apply uniq_add. Qed.
Lemma uniq_remove_block blk : forall ids ix, uniq ix -> uniq (fold_left (fun acc p => ix_remove acc p blk) ids ix).
Proof. induction ids as [|p r IH]; intros ix U; cbn; [auto|]. apply IH. now apply uniq_remove. Qed.

Lemma find_add_block blk q x : forall ids ix,
  In x (ix_find (fold_left (fun acc p => ix_add acc p blk) ids ix) q) <-> In x (ix_find ix q) \/ (In q ids /\ x = blk).
Proof.
  induction ids as [|p r IH]; intros ix; cbn [fold_left].
  - cbn. tauto.
  - rewrite IH, find_add. cbn [In]. intuition (subst; try congruence; auto).
Qed.

Lemma find_remove_block blk q x : forall ids ix, uniq ix ->
  In x (ix_find (fold_left (fun acc p => ix_remove acc p blk) ids ix) q) <-> In x (ix_find ix q) /\ ~ (In q ids /\ x = blk).
Proof.
  induction ids as [|p r IH]; intros ix U; cbn [fold_left].
  - cbn. tauto.
  - rewrite IH by now apply uniq_remove. rewrite find_remove by exact U. cbn [In]. intuition (subst; try congruence; auto).
Qed.

(** the invariant of the tree + index: the index holds (id, block) exactly when the block currently carries a body
    with that id *)
Definition ix_ok (h : Held) : Prop :=
  uniq (h_index h) /\
  forall p blk, In blk (ix_find (h_index h) p) <-> exists b, hfind (h_blocks h) blk = Some b /\ In p (body_ids b).

Lemma hfind_filter l blk x :
  hfind (filter (fun cb : Z * Body => negb (fst cb =? blk)) l) x = if x =? blk then None else hfind l x.
Proof.
  induction l as [|[c b] r IH]; cbn [filter hfind fst].
  - now destruct (x =? blk).
  - destruct (c =? blk) eqn:E; cbn [negb hfind].
    + apply Z.eqb_eq in E. subst c. rewrite IH. destruct (x =? blk) eqn:E2; [reflexivity|].
      rewrite Z.eqb_sym, E2. reflexivity.
    + rewrite IH. destruct (c =? x) eqn:E3; [|reflexivity].
      apply Z.eqb_eq in E3. subst c. now rewrite E.
Qed.

Lemma hstep_ok h o : ix_ok h -> ix_ok (hstep h o).
Proof.
  intros [U H]. destruct o as [blk b|blk]; cbn [hstep].
  - destruct (hfind (h_blocks h) blk) eqn:F; [split; assumption|].
    split; cbn [h_index h_blocks]; [now apply uniq_add_block|].
    intros p x. unfold ix_add_block. rewrite find_add_block, H. cbn [hfind]. split.
    + intros [[bb [H1 H2]]|[H1 ->]].
      * exists bb. split; [|exact H2]. destruct (blk =? x) eqn:E; [|exact H1].
        apply Z.eqb_eq in E. subst x. congruence.
      * exists b. now rewrite Z.eqb_refl.
    + intros [bb [H1 H2]]. destruct (blk =? x) eqn:E.
      * apply Z.eqb_eq in E. subst x. inversion H1. subst bb. right. auto.
      * left. exists bb. auto.
  - destruct (hfind (h_blocks h) blk) as [b|] eqn:F; [|split; assumption].
    split; cbn [h_index h_blocks]; [now apply uniq_remove_block|].
    intros p x. unfold ix_remove_block. rewrite find_remove_block by exact U. rewrite H, hfind_filter. split.
    + intros [[bb [H1 H2]] N]. exists bb. split; [|exact H2].
      destruct (x =? blk) eqn:E; [|exact H1]. apply Z.eqb_eq in E. subst x. exfalso. apply N.
      split; [|reflexivity]. congruence.
    + intros [bb [H1 H2]]. destruct (x =? blk) eqn:E; [discriminate|]. split; [exists bb; auto|].
      intros [_ ->]. now rewrite Z.eqb_refl in E.
Qed.

Lemma hrun_ok ops : forall h, ix_ok h -> ix_ok (hrun h ops).
Proof. induction ops as [|o r IH]; intros h H; cbn [hrun]; [exact H|]. apply IH. now apply hstep_ok. Qed.

Lemma held0_ok : ix_ok held0.
Proof. split; cbn; [exact I|]. intros p blk. split; [intros []|intros [b [H _]]; discriminate]. Qed.

(** the as-coded duplicate test through the shared index, evaluated for a block whose ancestors [pre] are held with
    their bodies, answers exactly the first check of [exec_block] on that chain — after ANY history of other blocks
    (forks) being accepted and dropped *)
Lemma shared_index_dup_check_is_own_chain ops pre b :
  (forall c bd, In (c, bd) pre -> hfind (h_blocks (hrun held0 ops)) c = Some bd) ->
  ix_block_dup (h_index (hrun held0 ops)) (map fst pre) b
  = existsb (fun i => pmem i (seen (after_chain st0 pre))) (body_ids b).
Proof.
  intros Hp. destruct (hrun_ok ops held0 held0_ok) as [_ H].
  apply eq_true_iff_eq. unfold ix_block_dup, ix_is_dup. rewrite !existsb_exists. split.
  - intros [i [Hi D]]. exists i. split; [exact Hi|]. apply existsb_exists in D. destruct D as [blk [D1 D2]].
    apply mem_In in D2. apply H in D1. destruct D1 as [bb [F1 F2]].
    apply in_map_iff in D2. destruct D2 as [[c bd] [E Hin]]. cbn in E. subst c.
    rewrite (Hp _ _ Hin) in F1. inversion F1. subst bb.
    apply pmem_In. apply seen_after_chain. right. exists blk, bd. auto.
  - intros [i [Hi D]]. exists i. split; [exact Hi|]. apply pmem_In in D. apply seen_after_chain in D.
    destruct D as [[]|[c [bd [Hin Hid]]]]. apply existsb_exists. exists c. split.
    + apply H. exists bd. split; [exact (Hp _ _ Hin) | exact Hid].
    + apply mem_In. apply in_map_iff. exists (c, bd). auto.
Qed.

(** the hypotheses are satisfiable: two forks share payload 7, one is dropped, the other one still sees it *)
Example ex_shared_dropped :
  let h := hrun held0 [HAccept 1 (mkBody [7] [] []); HAccept 2 (mkBody [7] [] []); HDrop 2] in
  ix_block_dup (h_index h) [1] (mkBody [7] [] []) = true /\ ix_block_dup (h_index h) [2] (mkBody [7] [] []) = false.
Proof. vm_compute. auto. Qed.
