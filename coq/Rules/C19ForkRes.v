(** C19 — "... and then counts in fork resolution": in the comparator AS CODED (Score/CmpDefs.v [impl] = model of
    comparePopScoreImpl, the template instantiated for the ALT tree and for the VBK tree alike; tied to the library
    by the correspondence stages of C03), a chain whose first compared keystone has a publication beats the chain
    whose keystone was never published, in both argument orders. *)
From Coq Require Import ZArith List Bool Lia.
From VB Require Import Score.CInt Score.CmpDefs Score.CmpProofs.
Import ListNotations.
Local Open Scope Z_scope.

Lemma spec_endorsed_vs_not c p : spec c [Some (Fin p)] [Some Inf] = tbl c 0 /\ spec c [Some Inf] [Some (Fin p)] = - tbl c 0.
Proof. split; unfold spec, spec_run, zip_pad; cbn -[tbl Z.add Z.sub Z.opp]; lia. Qed.

Theorem endorsement_counts c p :
  table_ok c -> fd_ok c -> 0 < tbl c 0 ->
  0 <= p -> p + fd c < NO_ENDORSEMENT -> p + Z.of_nat (length (table c)) <= NO_ENDORSEMENT ->
  budget_ok c 1 ->
  (exists r, impl c (real_view [Some p]) (real_view [None]) = Ok r /\ 0 < r)
  /\ (exists r, impl c (real_view [None]) (real_view [Some p]) = Ok r /\ r < 0).
Proof.
  intros Ht Hf Hpos H0 H1 H2 Hb.
  assert (Ha : heights_ok c [Some p]) by (repeat constructor; assumption).
  assert (Hn : heights_ok c [None]) by (repeat constructor).
  destruct (spec_endorsed_vs_not c p) as [S1 S2].
  split.
  - destruct (impl_real_sign_eq_spec c [Some p] [None] Ht Hf Ha Hn Hb) as [r [E Hs]].
    exists r. split; [exact E|]. change (inf_profile [Some p]) with [Some (Fin p)] in Hs; change (inf_profile [None]) with [@Some xheight Inf] in Hs. rewrite S1 in Hs.
    destruct r; cbn in Hs; lia.
  - destruct (impl_real_sign_eq_spec c [None] [Some p] Ht Hf Hn Ha Hb) as [r [E Hs]].
    exists r. split; [exact E|]. change (inf_profile [Some p]) with [Some (Fin p)] in Hs; change (inf_profile [None]) with [@Some xheight Inf] in Hs. rewrite S2 in Hs.
    destruct r; cbn in Hs; lia.
Qed.

(** for the parameters of the library's VBK tree and ALT tree (generated from /repo's headers): any publication
    height a BTC / VBK chain can have *)
Theorem endorsement_counts_default p :
  0 <= p <= 2000000000 ->
  forall c, c = vbk_cfg \/ c = alt_cfg ->
  (exists r, impl c (real_view [Some p]) (real_view [None]) = Ok r /\ 0 < r)
  /\ (exists r, impl c (real_view [None]) (real_view [Some p]) = Ok r /\ r < 0).
Proof.
  intros Hp c Hc. destruct default_params_ok as (Ta & Fa & Tv & Fv & _).
  assert (fd vbk_cfg <= 100000 /\ fd alt_cfg <= 100000) by (split; apply Z.leb_le; vm_compute; reflexivity).
  assert (Z.of_nat (length (table vbk_cfg)) <= 100000 /\ Z.of_nat (length (table alt_cfg)) <= 100000)
    by (split; apply Z.leb_le; vm_compute; reflexivity).
  destruct Hc; subst c; apply endorsement_counts; try assumption; unfold NO_ENDORSEMENT; try lia;
    try (vm_compute; reflexivity); try (unfold budget_ok; apply Z.leb_le; vm_compute; reflexivity).
Qed.

(** the premises of [endorsement_counts] are met by the VBK tree's configuration and a publication at BTC height 7 *)
Example endorsement_counts_ex :
  table_ok vbk_cfg /\ fd_ok vbk_cfg /\ 0 < tbl vbk_cfg 0 /\ 7 + fd vbk_cfg < NO_ENDORSEMENT
  /\ 7 + Z.of_nat (length (table vbk_cfg)) <= NO_ENDORSEMENT /\ budget_ok vbk_cfg 1
  /\ impl vbk_cfg (real_view [Some 7]) (real_view [None]) = Ok (tbl vbk_cfg 0).
Proof.
  destruct default_params_ok as (_ & _ & Tv & Fv & _).
  repeat split; try assumption; try apply Tv; try (vm_compute; reflexivity); try (apply Z.leb_le; vm_compute; reflexivity).
Qed.
