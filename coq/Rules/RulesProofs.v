(** C04 / C19 — the commands' checks as coded accept exactly the declaratively valid bodies;
    an invalid block and everything above it is refused; honest publication data is valid. *)
From Coq Require Import ZArith List Bool Lia.
From VB Require Import Score.KeystoneDefs Gen.Consts Rules.RulesDefs.
Import ListNotations.
Local Open Scope Z_scope.

(** * boolean reflection *)
Lemma mem_In x l : mem x l = true <-> In x l.
Proof.
  unfold mem. rewrite existsb_exists. split.
  - intros [y [Hy E]]. apply Z.eqb_eq in E. subst. exact Hy.
  - intros H. exists x. split; [exact H | apply Z.eqb_refl].
Qed.

Lemma mem_false_In x l : mem x l = false <-> ~ In x l.
Proof. rewrite <- mem_In. destruct (mem x l); split; congruence. Qed.

Lemma pmem_In p l : pmem p l = true <-> In p l.
Proof.
  unfold pmem. rewrite existsb_exists. destruct p as [a b]. split.
  - intros [[c d] [Hy E]]. cbn in E. apply andb_true_iff in E. destruct E as [E1 E2].
    apply Z.eqb_eq in E1. apply Z.eqb_eq in E2. subst. exact Hy.
  - intros H. exists (a, b). split; [exact H|]. cbn. now rewrite !Z.eqb_refl.
Qed.

Lemma oz_eqb_eq a b : oz_eqb a b = true <-> a = b.
Proof.
  destruct a as [x|], b as [y|]; cbn; split; try congruence.
  - intros E. apply Z.eqb_eq in E. now subst.
  - intros E. inversion E. apply Z.eqb_refl.
Qed.

Lemma anc_or_eq_iff tr a x : anc_or_eq tr a x = true <-> is_anc_or_eq tr a x.
Proof.
  unfold anc_or_eq, is_anc_or_eq. destruct (height_of tr a) as [ha|].
  - rewrite oz_eqb_eq. split.
    + intros H. exists ha. split; [reflexivity | exact H].
    + intros [h [E H]]. inversion E. subst. exact H.
  - split; [discriminate | intros [h [E _]]; discriminate].
Qed.

Lemma hdiff_le_iff tr hi lo d : hdiff_le tr hi lo d = true <-> within tr hi lo d.
Proof.
  unfold hdiff_le, within. destruct (height_of tr hi) as [a|], (height_of tr lo) as [b|].
  - rewrite Z.leb_le. split.
    + intros H. exists a, b. auto.
    + intros [a' [b' [E1 [E2 H]]]]. inversion E1. inversion E2. subst. exact H.
  - split; [discriminate | intros [a' [b' [_ [E _]]]]; discriminate].
  - split; [discriminate | intros [a' [b' [E _]]]; discriminate].
  - split; [discriminate | intros [a' [b' [E _]]]; discriminate].
Qed.

Lemma ctx_eqb_eq a b : ctx_eqb a b = true <-> a = b.
Proof.
  destruct a as [[h1 x1] y1], b as [[h2 x2] y2]. cbn.
  rewrite !andb_true_iff, Z.eqb_eq, !oz_eqb_eq. split.
  - intros [[A B] C]. now subst.
  - intros E. inversion E. auto.
Qed.

Lemma btc_ref_ok_iff W R conn cont :
  btc_ref_ok W R conn cont = true <->
  exists c', In (conn, c') R /\ (c' = -1 \/ is_anc_or_eq (vbks W) c' cont).
Proof.
  unfold btc_ref_ok. rewrite existsb_exists. split.
  - intros [[b c'] [Hin E]]. cbn in E. apply andb_true_iff in E. destruct E as [E1 E2].
    apply Z.eqb_eq in E1. subst b. exists c'. split; [exact Hin|].
    apply orb_true_iff in E2. destruct E2 as [E2|E2].
    + left. now apply Z.eqb_eq in E2.
    + right. now apply anc_or_eq_iff.
  - intros [c' [Hin H]]. exists (conn, c'). split; [exact Hin|]. cbn. rewrite Z.eqb_refl. cbn.
    apply orb_true_iff. destruct H as [H|H].
    + left. subst. reflexivity.
    + right. now apply anc_or_eq_iff.
Qed.

(** * per-payload equivalences *)
Lemma exec_vbk_iff W K v K' :
  exec_vbk W K v = inl K' <-> vbk_connects W K v /\ K' = add_known K v.
Proof.
  unfold exec_vbk, vbk_connects, add_known. destruct (mem v K) eqn:M.
  - split.
    + intros E. injection E as E0. subst K'. split; [left; now apply mem_In | reflexivity].
    + intros [_ E]. now subst.
  - apply mem_false_In in M. destruct (parent_of (vbks W) v) as [p|] eqn:Pa.
    + destruct (mem p K) eqn:Mp.
      * destruct (hdr_ok W v) eqn:Hd.
        -- split.
           ++ intros E. injection E as E0. subst K'. split; [|reflexivity]. right. exists p.
              split; [reflexivity | split; [now apply mem_In | reflexivity]].
           ++ intros [_ E]. now subst.
        -- split; [discriminate|]. intros [[H|[q [Eq [_ Hq]]]] _]; [contradiction | discriminate].
      * apply mem_false_In in Mp. split; [discriminate|].
        intros [[H|[q [Eq [Hq _]]]] _]; [contradiction|]. inversion Eq. subst. contradiction.
    + split; [discriminate|]. intros [[H|[q [Eq _]]] _]; [contradiction | discriminate].
Qed.

Lemma exec_vbks_iff W vs : forall K K',
  exec_vbks W K vs = inl K' <-> ctx_connects W K vs /\ K' = known_after K vs.
Proof.
  induction vs as [|v r IH]; intros K K'; cbn [exec_vbks ctx_connects known_after].
  - split; [intros E; inversion E; auto | intros [_ E]; now subst].
  - destruct (exec_vbk W K v) as [K1|e] eqn:E1.
    + apply exec_vbk_iff in E1. destruct E1 as [C1 EK]. subst K1. rewrite IH. tauto.
    + split; [discriminate|]. intros [[C1 _] _].
      assert (H : exec_vbk W K v = inl (add_known K v)) by (apply exec_vbk_iff; auto). congruence.
Qed.

Lemma exec_vtb_iff W P s w s' :
  exec_vtb W P s w = inl s' <-> vtb_valid W P s w /\ s' = after_vtb s w.
Proof.
  unfold exec_vtb, vtb_valid, after_vtb.
  destruct (mem (w_containing w) (vknown s)) eqn:M1; cbn [negb].
  2:{ apply mem_false_In in M1. split; [discriminate | tauto]. }
  apply mem_In in M1.
  destruct (p_maxvtb P <=? count (w_containing w) (vin s)) eqn:M2.
  { apply Z.leb_le in M2. split; [discriminate|]. intros [(_ & H & _) _]. lia. }
  apply Z.leb_gt in M2.
  destruct (btc_ref_ok W (brefs s) (w_conn w) (w_containing w)) eqn:M3; cbn [negb].
  2:{ split; [discriminate|]. intros [(_ & _ & H & _) _]. apply btc_ref_ok_iff in H. congruence. }
  apply btc_ref_ok_iff in M3.
  destruct (btc_chain W (w_conn w) (w_bctx w)) eqn:M4; cbn [negb].
  2:{ split; [discriminate|]. intros [(_ & _ & _ & H & _) _]. congruence. }
  destruct (forallb (bhdr_ok W) (w_bctx w)) eqn:M4b; cbn [negb].
  2:{ split; [discriminate|]. intros [(_ & _ & _ & _ & H & _) _]. congruence. }
  destruct (mem (w_endorsed w) (vknown s)) eqn:M5; cbn [negb].
  2:{ apply mem_false_In in M5. split; [discriminate | tauto]. }
  apply mem_In in M5.
  destruct (anc_or_eq (vbks W) (w_endorsed w) (w_containing w)) eqn:M6; cbn [negb].
  2:{ split; [discriminate|]. intros [(_ & _ & _ & _ & _ & _ & H & _) _]. apply anc_or_eq_iff in H. congruence. }
  apply anc_or_eq_iff in M6.
  destruct (hdiff_le (vbks W) (w_containing w) (w_endorsed w) (p_vsettle P)) eqn:M7; cbn [negb].
  2:{ split; [discriminate|]. intros [(_ & _ & _ & _ & _ & _ & _ & H) _]. apply hdiff_le_iff in H. congruence. }
  apply hdiff_le_iff in M7.
  split.
  - intros E. inversion E. repeat split; auto.
  - intros [_ E]. now subst.
Qed.

Lemma exec_vtbs_iff W P ws : forall s s',
  exec_vtbs W P s ws = inl s' <-> vtbs_valid W P s ws /\ s' = after_vtbs s ws.
Proof.
  induction ws as [|w r IH]; intros s s'; cbn [exec_vtbs vtbs_valid after_vtbs].
  - split; [intros E; inversion E; auto | intros [_ E]; now subst].
  - destruct (exec_vtb W P s w) as [s1|e] eqn:E1.
    + apply exec_vtb_iff in E1. destruct E1 as [C1 EK]. subst s1. rewrite IH. tauto.
    + split; [discriminate|]. intros [[C1 _] _].
      assert (H : exec_vtb W P s w = inl (after_vtb s w)) by (apply exec_vtb_iff; auto). congruence.
Qed.

Lemma exec_atv_iff W P c K t K' :
  exec_atv W P c K t = inl K' <-> atv_valid W P c K t /\ K' = add_known K (t_bop t).
Proof.
  unfold exec_atv, atv_valid.
  destruct (exec_vbk W K (t_bop t)) as [K1|e] eqn:E1.
  2:{ split; [discriminate|]. intros [[C1 _] _].
      assert (H : exec_vbk W K (t_bop t) = inl (add_known K (t_bop t))) by (apply exec_vbk_iff; auto). congruence. }
  apply exec_vbk_iff in E1. destruct E1 as [C1 EK]. subst K1.
  destruct (alt_known W (t_endorsed t)) eqn:M1; cbn [negb].
  2:{ split; [discriminate|]. intros [[_ [H _]] _]. congruence. }
  destruct (ctx_eqb (atv_ctx t) (create_from_previous W (p_ki P) (parent_of (alts W) (t_endorsed t)))) eqn:M2; cbn [negb].
  2:{ split; [discriminate|]. intros [[_ [_ [H _]]] _]. apply ctx_eqb_eq in H. congruence. }
  apply ctx_eqb_eq in M2.
  destruct (anc_or_eq (alts W) (t_endorsed t) c) eqn:M3; cbn [negb].
  2:{ split; [discriminate|]. intros [[_ [_ [_ [H _]]]] _]. apply anc_or_eq_iff in H. congruence. }
  apply anc_or_eq_iff in M3.
  destruct (hdiff_le (alts W) c (t_endorsed t) (p_settle P)) eqn:M4; cbn [negb].
  2:{ split; [discriminate|]. intros [[_ [_ [_ [_ H]]]] _]. apply hdiff_le_iff in H. congruence. }
  apply hdiff_le_iff in M4.
  split.
  - intros E. inversion E. repeat split; auto.
  - intros [_ E]. now subst.
Qed.

Lemma exec_atvs_iff W P c ts : forall K K',
  exec_atvs W P c K ts = inl K' <-> atvs_valid W P c K ts /\ K' = known_after K (map t_bop ts).
Proof.
  induction ts as [|t r IH]; intros K K'; cbn [exec_atvs atvs_valid known_after map].
  - split; [intros E; inversion E; auto | intros [_ E]; now subst].
  - destruct (exec_atv W P c K t) as [K1|e] eqn:E1.
    + apply exec_atv_iff in E1. destruct E1 as [C1 EK]. subst K1. rewrite IH. tauto.
    + split; [discriminate|]. intros [[C1 _] _].
      assert (H : exec_atv W P c K t = inl (add_known K (t_bop t))) by (apply exec_atv_iff; auto). congruence.
Qed.

Lemma dup_check_iff s b :
  existsb (fun i => pmem i (seen s)) (body_ids b) = false <-> no_dup_on_chain s b.
Proof.
  unfold no_dup_on_chain. split.
  - intros E i Hi Hs. assert (X : existsb (fun i => pmem i (seen s)) (body_ids b) = true).
    { apply existsb_exists. exists i. split; [exact Hi | now apply pmem_In]. }
    congruence.
  - intros H. destruct (existsb (fun i => pmem i (seen s)) (body_ids b)) eqn:E; [|reflexivity].
    apply existsb_exists in E. destruct E as [i [Hi Hs]]. apply pmem_In in Hs. exfalso. exact (H i Hi Hs).
Qed.

(** * the block: accepted by the code iff declaratively valid, and then with the declared effects *)
Lemma exec_block_iff W P s c b s' :
  exec_block W P s c b = inl s' <-> ctx_valid W P s c b /\ s' = after_block s b.
Proof.
  unfold exec_block, ctx_valid, after_block.
  destruct (existsb (fun i => pmem i (seen s)) (body_ids b)) eqn:D.
  { split; [discriminate|]. intros [[H _] _]. apply dup_check_iff in H. congruence. }
  apply dup_check_iff in D.
  destruct (exec_vbks W (vknown s) (bd_ctx b)) as [K1|e] eqn:E1.
  2:{ split; [discriminate|]. intros [[_ [H _]] _].
      assert (X : exec_vbks W (vknown s) (bd_ctx b) = inl (known_after (vknown s) (bd_ctx b))) by (apply exec_vbks_iff; auto).
      congruence. }
  apply exec_vbks_iff in E1. destruct E1 as [C1 EK]. subst K1.
  set (s1 := mkSt (known_after (vknown s) (bd_ctx b)) (brefs s) (vin s) (seen s)).
  destruct (exec_vtbs W P s1 (bd_vtbs b)) as [s2|e] eqn:E2.
  2:{ split; [discriminate|]. intros [[_ [_ [H _]]] _].
      assert (X : exec_vtbs W P s1 (bd_vtbs b) = inl (after_vtbs s1 (bd_vtbs b))) by (apply exec_vtbs_iff; auto).
      congruence. }
  apply exec_vtbs_iff in E2. destruct E2 as [C2 ES]. subst s2.
  assert (VK : forall ws t, vknown (after_vtbs t ws) = vknown t).
  { induction ws as [|w r IH]; intros t; cbn; [reflexivity|]. rewrite IH. reflexivity. }
  rewrite VK. cbn [vknown s1].
  destruct (exec_atvs W P c (known_after (vknown s) (bd_ctx b)) (bd_atvs b)) as [K3|e] eqn:E3.
  2:{ split; [discriminate|]. intros [[_ [_ [_ H]]] _].
      assert (X : exec_atvs W P c (known_after (vknown s) (bd_ctx b)) (bd_atvs b) =
                  inl (known_after (known_after (vknown s) (bd_ctx b)) (map t_bop (bd_atvs b)))) by (apply exec_atvs_iff; auto).
      congruence. }
  apply exec_atvs_iff in E3. destruct E3 as [C3 EK]. subst K3.
  split.
  - intros E. inversion E. auto.
  - intros [_ E]. now subst.
Qed.

Lemma exec_ok_iff_ctx_valid W P s c b :
  (exists s', exec_block W P s c b = inl s') <-> ctx_valid W P s c b.
Proof.
  split.
  - intros [s' E]. now apply exec_block_iff in E.
  - intros H. exists (after_block s b). apply exec_block_iff. auto.
Qed.

Lemma exec_refuses_iff_invalid W P s c b :
  (exists e, exec_block W P s c b = inr e) <-> ~ ctx_valid W P s c b.
Proof.
  rewrite <- exec_ok_iff_ctx_valid. destruct (exec_block W P s c b) as [s'|e].
  - split; [intros [e E]; discriminate | intros H; exfalso; apply H; eauto].
  - split; [intros _ [s' E]; discriminate | intros _; eauto].
Qed.

(** * chains *)
Lemma apply_chain_ok_iff W P ch : forall s s',
  apply_chain W P s ch = VOk s' <-> chain_valid W P s ch /\ s' = after_chain s ch.
Proof.
  induction ch as [|[c b] r IH]; intros s s'; cbn [apply_chain chain_valid after_chain].
  - split; [intros E; inversion E; auto | intros [_ E]; now subst].
  - destruct (exec_block W P s c b) as [s1|e] eqn:E1.
    + apply exec_block_iff in E1. destruct E1 as [C1 ES]. subst s1. rewrite IH. tauto.
    + split; [discriminate|]. intros [[C1 _] _].
      assert (X : exec_block W P s c b = inl (after_block s b)) by (apply exec_block_iff; auto). congruence.
Qed.

(** a block violating a rule is refused, and so is every chain that contains it, whatever follows it:
    setState on the block or on any descendant fails, and it fails AT that block *)
Lemma invalid_block_refused W P pre : forall s c b post,
  chain_valid W P s pre ->
  ~ ctx_valid W P (after_chain s pre) c b ->
  exists e, apply_chain W P s (pre ++ (c, b) :: post) = VRefused c e.
Proof.
  induction pre as [|[c0 b0] r IH]; intros s c b post Hv Hn; cbn [app apply_chain].
  - cbn in Hn. apply exec_refuses_iff_invalid in Hn. destruct Hn as [e E]. rewrite E. eauto.
  - cbn in Hv, Hn. destruct Hv as [H0 Hr].
    assert (X : exec_block W P s c0 b0 = inl (after_block s b0)) by (apply exec_block_iff; auto).
    rewrite X. apply IH; assumption.
Qed.

(** conversely a refusal always names a block that is invalid where it stands, below a valid prefix *)
Lemma refused_names_invalid W P ch : forall s c e,
  apply_chain W P s ch = VRefused c e ->
  exists pre b post, ch = pre ++ (c, b) :: post /\ chain_valid W P s pre /\ ~ ctx_valid W P (after_chain s pre) c b.
Proof.
  induction ch as [|[c0 b0] r IH]; intros s c e; cbn [apply_chain]; [discriminate|].
  destruct (exec_block W P s c0 b0) as [s1|e1] eqn:E1.
  - intros H. apply exec_block_iff in E1. destruct E1 as [C1 ES]. subst s1.
    destruct (IH _ _ _ H) as [pre [b [post [E [V N]]]]].
    exists ((c0, b0) :: pre), b, post. cbn. subst r. auto.
  - intros H. inversion H. subst. exists [], b0, r. cbn. repeat split; auto.
    apply exec_refuses_iff_invalid. eauto.
Qed.

(** * the activation machine: the active chain only ever holds valid payloads *)
Definition m_inv (W : World) (P : Params) (m : Machine) : Prop :=
  chain_valid W P st0 (m_chain m) /\ m_st m = after_chain st0 (m_chain m).

Lemma activate_inv W P m cand : m_inv W P m -> m_inv W P (fst (activate W P m cand)).
Proof.
  intros H. unfold activate. destruct (apply_chain W P st0 cand) as [s|c e] eqn:E; cbn [fst].
  - apply apply_chain_ok_iff in E. exact E.
  - exact H.
Qed.

Lemma active_payloads_valid_partial W P ops : m_inv W P (run W P m0 ops).
Proof.
  assert (G : forall m, m_inv W P m -> m_inv W P (run W P m ops)).
  { induction ops as [|c r IH]; intros m H; cbn [run]; [exact H|]. apply IH. now apply activate_inv. }
  apply G. unfold m_inv, m0. cbn. auto.
Qed.

Lemma refused_not_activated W P m pre c b post :
  chain_valid W P st0 pre -> ~ ctx_valid W P (after_chain st0 pre) c b ->
  activate W P m (pre ++ (c, b) :: post) = (m, false).
Proof.
  intros Hv Hn. unfold activate.
  destruct (invalid_block_refused W P pre st0 c b post Hv Hn) as [e E]. rewrite E. reflexivity.
Qed.

(** * C19: honest publication data is valid wherever it is still timely *)

(** the context info in honestly generated publication data is by construction what CheckPublicationData
    recomputes: both sides are [create_from_previous] of the endorsed block's parent *)
Lemma honest_atv_ctx W ki id e bop :
  atv_ctx (honest_atv W ki id e bop) = create_from_previous W ki (parent_of (alts W) e).
Proof.
  unfold honest_atv. destruct (create_from_previous W ki (parent_of (alts W) e)) as [[h k1] k2]. reflexivity.
Qed.

Lemma honest_atv_fields W ki id e bop :
  t_endorsed (honest_atv W ki id e bop) = e /\ t_bop (honest_atv W ki id e bop) = bop /\ t_id (honest_atv W ki id e bop) = id.
Proof.
  unfold honest_atv. destruct (create_from_previous W ki (parent_of (alts W) e)) as [[h k1] k2]. cbn. auto.
Qed.

Lemma honest_satisfies_ctx_valid W P c K id e bop :
  alt_known W e = true ->
  is_anc_or_eq (alts W) e c ->
  within (alts W) c e (p_settle P) ->
  vbk_connects W K bop ->
  atv_valid W P c K (honest_atv W (p_ki P) id e bop).
Proof.
  intros Hk Ha Hw Hc. unfold atv_valid.
  destruct (honest_atv_fields W (p_ki P) id e bop) as [E1 [E2 _]].
  rewrite E1, E2, honest_atv_ctx. auto.
Qed.

(** a whole honest body: context that connects, valid VTBs, and ATVs that are honest publication data for
    known ancestors inside the settlement window *)
Fixpoint honest_atvs (W : World) (P : Params) (c : Z) (K : list Z) (specs : list (Z * Z * Z)) : Prop :=
  match specs with
  | [] => True
  | (id, e, bop) :: r =>
    alt_known W e = true /\ is_anc_or_eq (alts W) e c /\ within (alts W) c e (p_settle P) /\ vbk_connects W K bop
    /\ honest_atvs W P c (add_known K bop) r
  end.

Definition mk_honest (W : World) (P : Params) (specs : list (Z * Z * Z)) : list Atv :=
  map (fun x => honest_atv W (p_ki P) (fst (fst x)) (snd (fst x)) (snd x)) specs.

Lemma honest_atvs_valid W P c specs : forall K,
  honest_atvs W P c K specs -> atvs_valid W P c K (mk_honest W P specs).
Proof.
  induction specs as [|[[id e] bop] r IH]; intros K H; cbn [mk_honest map atvs_valid]; [exact I|].
  cbn [honest_atvs] in H. destruct H as [H1 [H2 [H3 [H4 H5]]]]. cbn [fst snd]. split.
  - now apply honest_satisfies_ctx_valid.
  - destruct (honest_atv_fields W (p_ki P) id e bop) as [_ [E2 _]]. rewrite E2. apply IH. exact H5.
Qed.

Lemma honest_block_accepted W P s c ctx vtbs specs :
  let b := mkBody ctx vtbs (mk_honest W P specs) in
  no_dup_on_chain s b ->
  ctx_connects W (vknown s) ctx ->
  vtbs_valid W P (mkSt (known_after (vknown s) ctx) (brefs s) (vin s) (seen s)) vtbs ->
  honest_atvs W P c (known_after (vknown s) ctx) specs ->
  exec_block W P s c b = inl (after_block s b).
Proof.
  intros b H1 H2 H3 H4. apply exec_block_iff. split; [|reflexivity].
  unfold ctx_valid. cbn [bd_ctx bd_vtbs bd_atvs b]. repeat split; auto.
  now apply honest_atvs_valid.
Qed.

(** honest activity never gets a chain refused: a chain of valid blocks applies completely *)
Lemma valid_chain_never_refused W P s ch :
  chain_valid W P s ch -> apply_chain W P s ch = VOk (after_chain s ch).
Proof. intros H. apply apply_chain_ok_iff. auto. Qed.

(** * non-vacuity: a world with a fork, keystone interval 2, settlement interval 2 *)
Definition exW : World :=
  mkWorld [mkBlk 0 (-1) 0; mkBlk 1 0 1; mkBlk 2 1 2; mkBlk 3 2 3; mkBlk 4 3 4; mkBlk 5 1 2]
          [mkBlk 0 (-1) 0; mkBlk 1 0 1; mkBlk 2 1 2; mkBlk 3 1 2]
          [mkBlk 0 (-1) 0; mkBlk 1 0 1; mkBlk 2 1 2]
          []
          [(0, 100); (1, 110); (2, 105); (3, 99)]
          [(0, 50); (1, 60); (2, 70)]
          1000.
Definition exP : Params := default_params 2 10 2.
Definition exT : Atv := honest_atv exW 2 1 3 1.                 (* endorses block 3, block of proof VBK 1 *)
Definition exV : Vtb := mkVtb 1 1 2 0 [1; 2].

Example ex_honest_ctx : atv_ctx exT = (3, Some 0, Some 0).
Proof. reflexivity. Qed.
Example ex_accept : exists s, apply_chain exW exP st0
    [(1, mkBody [] [] []); (2, mkBody [] [] []); (3, mkBody [1; 2] [exV] []); (4, mkBody [] [] [exT])] = VOk s.
Proof. eexists. vm_compute. reflexivity. Qed.
Example ex_valid : chain_valid exW exP st0
    [(1, mkBody [] [] []); (2, mkBody [] [] []); (3, mkBody [1; 2] [exV] []); (4, mkBody [] [] [exT])].
Proof. eapply apply_chain_ok_iff. vm_compute. split; reflexivity. Qed.
(* expired by exactly one: endorsed 1 in containing 4 *)
Example ex_expired : apply_chain exW exP st0
    [(1, mkBody [] [] []); (2, mkBody [] [] []); (3, mkBody [] [] []); (4, mkBody [] [] [honest_atv exW 2 2 1 1])]
    = VRefused 4 EExpired.
Proof. vm_compute. reflexivity. Qed.
(* endorsed block 5 is on another fork *)
Example ex_fork : apply_chain exW exP st0
    [(1, mkBody [] [] []); (2, mkBody [] [] []); (3, mkBody [] [] [honest_atv exW 2 2 5 1]); (4, mkBody [] [] [])]
    = VRefused 3 EDiffers.
Proof. vm_compute. reflexivity. Qed.
(* wrong first keystone *)
Example ex_keystone : apply_chain exW exP st0
    [(1, mkBody [] [] []); (2, mkBody [] [] []); (3, mkBody [] [] []); (4, mkBody [] [] [mkAtv 9 3 1 3 (Some 1) (Some 0)])]
    = VRefused 4 ESfContext.
Proof. vm_compute. reflexivity. Qed.
(* duplicate of a payload id of an ancestor *)
Example ex_dup : apply_chain exW exP st0
    [(1, mkBody [1] [] []); (2, mkBody [1] [] [])] = VRefused 2 EDup.
Proof. vm_compute. reflexivity. Qed.

(* VBK header 3 (timestamp 99) is below the minimum timestamp of a child of block 1 (lower median of {100, 110} = 100);
   header 2 (105) is admissible although it is older than its parent *)
Example ex_vbktime : apply_chain exW exP st0 [(1, mkBody [1; 3] [] [])] = VRefused 1 EVbkTime.
Proof. vm_compute. reflexivity. Qed.
Example ex_vbktime_ok : exists s, apply_chain exW exP st0 [(1, mkBody [1; 2] [] [])] = VOk s.
Proof. eexists. vm_compute. reflexivity. Qed.
