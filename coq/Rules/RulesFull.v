(** C04 — the contextual rule set on the AS-CODED POP state machine (Pop/Sm*.v).

    The state machine model executes, per block, command groups over reference-count commands
    (AddRef / AddEnd / Need / Poison), where [Poison] stands for "any contextually invalid payload at this
    position".  Here the groups of a block are the TRANSLATION [tr] of its payload body in its chain context:
    VBK context blocks and blocks of proof become AddRef, a VTB needs its containing block, and the remaining
    checks of the rule set (the exec functions of RulesDefs) decide between the endorsement command and Poison.
    Simulation: the translated groups of a body all execute iff the body is [ctx_valid] ([sim_block]).
    With the invariants of the state machine (reachable_good: every block of the active chain can be replayed
    on its own ancestry alone) this gives, for EVERY reachable state of the as-coded machine — any history of
    connect / setState / comparePopScore with any scorer — that the active chain is [chain_valid]. *)
From Coq Require Import List ZArith NArith Bool Lia.
From VB Require Import Score.KeystoneDefs Gen.Consts Rules.RulesDefs Rules.RulesProofs.
From VB Require Import Pop.SmDefs Pop.SmProofs Pop.SmWf Pop.SmTruth Pop.SmCmp Pop.SmAll Pop.SmCoh Pop.SmFull.
Import ListNotations.
Local Open Scope Z_scope.

(** * ids of the rule model (Z) as ids of the machine (N), injectively *)
Definition enc (z : Z) : N := Z.to_N (if z <? 0 then -2 * z - 1 else 2 * z).
Lemma enc_inj a b : enc a = enc b -> a = b.
Proof.
  unfold enc. intros H. apply (f_equal Z.of_N) in H.
  destruct (Z.ltb_spec a 0), (Z.ltb_spec b 0); rewrite !Z2N.id in H by lia; lia.
Qed.

(** the machine's protecting state represents the known VBK blocks of the rule state *)
Definition R (pp : pstate) (K : list Z) : Prop :=
  forall v, SmDefs.mem (IRef (enc v)) pp = true <-> In v K.

Lemma R_mem pp K v : R pp K -> SmDefs.mem (IRef (enc v)) pp = RulesDefs.mem v K.
Proof.
  intros H. specialize (H v). rewrite <- mem_In in H.
  destruct (SmDefs.mem (IRef (enc v)) pp), (RulesDefs.mem v K); try reflexivity.
  - symmetry. apply H. reflexivity.
  - apply H. reflexivity.
Qed.

Lemma R_add pp K v : R pp K -> R (IRef (enc v) :: pp) (add_known K v).
Proof.
  intros H u. cbn [SmDefs.mem existsb item_eqb]. unfold add_known.
  destruct (Z.eq_dec u v) as [->|Hne].
  - rewrite N.eqb_refl. cbn. split; [intros _|reflexivity].
    destruct (RulesDefs.mem v K) eqn:M; [now apply mem_In | now left].
  - assert (E : N.eqb (enc u) (enc v) = false) by (apply N.eqb_neq; intro X; apply Hne; now apply enc_inj).
    rewrite E. cbn [orb]. fold (SmDefs.mem (IRef (enc u)) pp). rewrite (H u).
    destruct (RulesDefs.mem v K); [reflexivity|]. cbn. split; [auto | intros [X|X]; [congruence | exact X]].
Qed.

Lemma R_end pp K e c b : R pp K -> R (IEnd e c b :: pp) K.
Proof. intros H u. cbn [SmDefs.mem existsb item_eqb orb]. apply H. Qed.

(** * the translation *)
Definition is_inl {A B : Type} (x : A + B) : bool := match x with inl _ => true | inr _ => false end.

Definition vpar (W : World) (v : Z) : N :=
  match parent_of (vbks W) v with Some p => enc p | None => enc v end.

(** AddVbkBlock: a known block gets one more reference; an unknown one must connect to a known parent AND pass the
    contextual header rule (otherwise: Poison) *)
Definition c_vbk (W : World) (K : list Z) (v : Z) : ccmd :=
  if RulesDefs.mem v K || hdr_ok W v then AddRef (enc v) (vpar W v) else Poison.
Definition g_vbk (W : World) (K : list Z) (v : Z) : list ccmd := [c_vbk W K v].
Definition g_vtb (W : World) (P : Params) (s : St) (w : Vtb) : list ccmd :=
  Need (enc (w_containing w)) :: (if is_inl (exec_vtb W P s w) then [] else [Poison]).
Definition g_atv (W : World) (P : Params) (c : Z) (K : list Z) (t : Atv) : list ccmd :=
  c_vbk W K (t_bop t) ::
  (if is_inl (exec_atv W P c K t) then [AddEnd (enc (t_endorsed t)) (enc c) (enc (t_bop t))] else [Poison]).

Fixpoint tr_vbks (W : World) (K : list Z) (vs : list Z) : list (list ccmd) :=
  match vs with [] => [] | v :: r => g_vbk W K v :: tr_vbks W (add_known K v) r end.
Fixpoint tr_vtbs (W : World) (P : Params) (s : St) (ws : list Vtb) : list (list ccmd) :=
  match ws with [] => [] | w :: r => g_vtb W P s w :: tr_vtbs W P (after_vtb s w) r end.
Fixpoint tr_atvs (W : World) (P : Params) (c : Z) (K : list Z) (ts : list Atv) : list (list ccmd) :=
  match ts with [] => [] | t :: r => g_atv W P c K t :: tr_atvs W P c (add_known K (t_bop t)) r end.

Definition dupb (s : St) (b : Body) : bool := existsb (fun i => pmem i (seen s)) (body_ids b).

(** command groups of block [c] with body [b] on top of the rule state [s], in the order of
    AltCommandGroupStore::getCommands; a stateful duplicate poisons the block as a whole *)
Definition tr (W : World) (P : Params) (s : St) (c : Z) (b : Body) : list (list ccmd) :=
  let K1 := known_after (vknown s) (bd_ctx b) in
  (if dupb s b then [[Poison]] else []) ++
  tr_vbks W (vknown s) (bd_ctx b) ++
  tr_vtbs W P (RulesDefs.mkSt K1 (brefs s) (vin s) (seen s)) (bd_vtbs b) ++
  tr_atvs W P c K1 (bd_atvs b).

(** * all groups execute = sequential success of every command *)
Fixpoint grun (g : list ccmd) (p : pstate) : option pstate :=
  match g with [] => Some p | c :: r => match cexec c p with Some p' => grun r p' | None => None end end.
Fixpoint gsrun (gs : list (list ccmd)) (p : pstate) : option pstate :=
  match gs with [] => Some p | g :: r => match grun g p with Some p' => gsrun r p' | None => None end end.

Lemma gexec_spec : forall todo done p,
  match grun todo p with
  | Some p' => gexec pstate ccmd cexec cunexec done todo p = (p', true)
  | None => snd (gexec pstate ccmd cexec cunexec done todo p) = false
  end.
Proof.
  induction todo as [|c r IH]; intros done p; cbn [grun gexec]; [reflexivity|].
  destruct (cexec c p) as [p'|]; [apply IH | reflexivity].
Qed.

Lemma gsexec_spec : forall todo done p,
  match gsrun todo p with
  | Some p' => gsexec pstate ccmd cexec cunexec done todo p = (p', true)
  | None => snd (gsexec pstate ccmd cexec cunexec done todo p) = false
  end.
Proof.
  induction todo as [|g r IH]; intros done p; cbn [gsrun gsexec]; [reflexivity|].
  unfold group_execute. pose proof (gexec_spec g [] p) as G.
  destruct (grun g p) as [p1|].
  - rewrite G. apply IH.
  - destruct (gexec pstate ccmd cexec cunexec [] g p) as [q ok]. cbn in G. subst ok. reflexivity.
Qed.

Lemma gsexec_true_iff gs p p' :
  gsexec pstate ccmd cexec cunexec [] gs p = (p', true) <-> gsrun gs p = Some p'.
Proof.
  pose proof (gsexec_spec gs [] p) as G. destruct (gsrun gs p) as [q|].
  - rewrite G. split; intros E; inversion E; reflexivity.
  - split; [|discriminate]. intros E. rewrite E in G. discriminate.
Qed.

Lemma gsrun_app a : forall b p,
  gsrun (a ++ b) p = match gsrun a p with Some p' => gsrun b p' | None => None end.
Proof.
  induction a as [|g r IH]; intros b p; cbn [app gsrun]; [reflexivity|].
  destruct (grun g p); [apply IH | reflexivity].
Qed.

(** * simulation, payload by payload *)
Lemma sim_addref W pp K v : R pp K ->
  cexec (c_vbk W K v) pp = if is_inl (exec_vbk W K v) then Some (IRef (enc v) :: pp) else None.
Proof.
  intros H. unfold c_vbk, exec_vbk, vpar.
  destruct (RulesDefs.mem v K) eqn:M0; cbn [orb].
  - cbn [cexec]. rewrite (R_mem pp K v H), M0. reflexivity.
  - destruct (hdr_ok W v) eqn:Hd.
    + cbn [cexec]. rewrite (R_mem pp K v H), M0. cbn [orb].
      destruct (parent_of (vbks W) v) as [p|].
      * rewrite (R_mem pp K p H). destruct (RulesDefs.mem p K); reflexivity.
      * rewrite (R_mem pp K v H), M0. reflexivity.
    + cbn [cexec]. destruct (parent_of (vbks W) v) as [p|]; [destruct (RulesDefs.mem p K)|]; reflexivity.
Qed.

Lemma sim_vbks W : forall vs pp K, R pp K ->
  match exec_vbks W K vs with
  | inl K' => exists pp', gsrun (tr_vbks W K vs) pp = Some pp' /\ R pp' K'
  | inr _ => gsrun (tr_vbks W K vs) pp = None
  end.
Proof.
  induction vs as [|v r IH]; intros pp K H; cbn [exec_vbks tr_vbks gsrun].
  - exists pp. auto.
  - unfold g_vbk. cbn [grun]. rewrite (sim_addref W pp K v H).
    destruct (exec_vbk W K v) as [K1|e] eqn:E; cbn [is_inl]; [|reflexivity].
    apply exec_vbk_iff in E. destruct E as [_ ->]. apply IH. now apply R_add.
Qed.

Lemma sim_vtb W P pp s w : R pp (vknown s) ->
  grun (g_vtb W P s w) pp = if is_inl (exec_vtb W P s w) then Some pp else None.
Proof.
  intros H. unfold g_vtb. cbn [grun cexec]. rewrite (R_mem _ _ _ H).
  destruct (exec_vtb W P s w) as [s'|e] eqn:E; cbn [is_inl].
  - apply exec_vtb_iff in E. destruct E as [[Hc _] _]. apply mem_In in Hc. rewrite Hc. reflexivity.
  - destruct (RulesDefs.mem (w_containing w) (vknown s)); reflexivity.
Qed.

Lemma sim_vtbs W P : forall ws pp s, R pp (vknown s) ->
  match exec_vtbs W P s ws with
  | inl s' => gsrun (tr_vtbs W P s ws) pp = Some pp /\ vknown s' = vknown s
  | inr _ => gsrun (tr_vtbs W P s ws) pp = None
  end.
Proof.
  induction ws as [|w r IH]; intros pp s H; cbn [exec_vtbs tr_vtbs gsrun]; [auto|].
  rewrite (sim_vtb W P pp s w H).
  destruct (exec_vtb W P s w) as [s1|e] eqn:E; cbn [is_inl]; [|reflexivity].
  apply exec_vtb_iff in E. destruct E as [_ ->].
  specialize (IH pp (after_vtb s w) H). destruct (exec_vtbs W P (after_vtb s w) r); [|exact IH].
  destruct IH as [A B]. split; [exact A | exact B].
Qed.

Lemma sim_atv W P c pp K t : R pp K ->
  grun (g_atv W P c K t) pp =
  if is_inl (exec_atv W P c K t)
  then Some (IEnd (enc (t_endorsed t)) (enc c) (enc (t_bop t)) :: IRef (enc (t_bop t)) :: pp) else None.
Proof.
  intros H. unfold g_atv. cbn [grun]. rewrite (sim_addref W pp K (t_bop t) H).
  destruct (exec_vbk W K (t_bop t)) as [K1|e] eqn:E; cbn [is_inl].
  - destruct (exec_atv W P c K t) as [K2|e2]; cbn [is_inl grun cexec].
    + cbn [SmDefs.mem existsb item_eqb]. rewrite N.eqb_refl. reflexivity.
    + reflexivity.
  - assert (X : is_inl (exec_atv W P c K t) = false) by (unfold exec_atv; rewrite E; reflexivity).
    rewrite X. reflexivity.
Qed.

Lemma sim_atvs W P c : forall ts pp K, R pp K ->
  match exec_atvs W P c K ts with
  | inl K' => exists pp', gsrun (tr_atvs W P c K ts) pp = Some pp' /\ R pp' K'
  | inr _ => gsrun (tr_atvs W P c K ts) pp = None
  end.
Proof.
  induction ts as [|t r IH]; intros pp K H; cbn [exec_atvs tr_atvs gsrun].
  - exists pp. auto.
  - rewrite (sim_atv W P c pp K t H).
    destruct (exec_atv W P c K t) as [K1|e] eqn:E; cbn [is_inl]; [|reflexivity].
    apply exec_atv_iff in E. destruct E as [_ ->]. apply IH. apply R_end. now apply R_add.
Qed.

(** the translated groups of a body all execute iff the checks as coded accept it (iff it is [ctx_valid]) *)
Lemma sim_block W P s c b pp : R pp (vknown s) ->
  match exec_block W P s c b with
  | inl s' => exists pp', gsrun (tr W P s c b) pp = Some pp' /\ R pp' (vknown s')
  | inr _ => gsrun (tr W P s c b) pp = None
  end.
Proof.
  intros H. unfold exec_block, tr. fold (dupb s b).
  destruct (dupb s b); [reflexivity|]. cbn [app].
  rewrite gsrun_app. pose proof (sim_vbks W (bd_ctx b) pp (vknown s) H) as S1.
  destruct (exec_vbks W (vknown s) (bd_ctx b)) as [K1|e] eqn:E1; [|rewrite S1; reflexivity].
  destruct S1 as (pp1 & G1 & R1). rewrite G1.
  apply exec_vbks_iff in E1. destruct E1 as [_ ->].
  set (K1 := known_after (vknown s) (bd_ctx b)) in *.
  set (s1 := RulesDefs.mkSt K1 (brefs s) (vin s) (seen s)).
  rewrite gsrun_app. pose proof (sim_vtbs W P (bd_vtbs b) pp1 s1 R1) as S2.
  destruct (exec_vtbs W P s1 (bd_vtbs b)) as [s2|e] eqn:E2; [|rewrite S2; reflexivity].
  destruct S2 as [G2 V2]. rewrite G2. rewrite V2. cbn [vknown s1].
  pose proof (sim_atvs W P c (bd_atvs b) pp1 K1 R1) as S3.
  destruct (exec_atvs W P c K1 (bd_atvs b)) as [K3|e] eqn:E3; [|exact S3].
  destruct S3 as (pp3 & G3 & R3). exists pp3. split; [exact G3 | exact R3].
Qed.

Theorem groups_execute_iff_ctx_valid W P s c b pp : R pp (vknown s) ->
  ((exists pp', gsexec pstate ccmd cexec cunexec [] (tr W P s c b) pp = (pp', true)) <-> ctx_valid W P s c b).
Proof.
  intros H. pose proof (sim_block W P s c b pp H) as S. rewrite <- exec_ok_iff_ctx_valid. split.
  - intros [pp' E]. apply gsexec_true_iff in E. destruct (exec_block W P s c b) as [s'|e]; [eauto | congruence].
  - intros [s' E]. rewrite E in S. destruct S as (pp' & G & _). exists pp'. now apply gsexec_true_iff.
Qed.

(** * chains of the machine tree *)
Section Chain.
  Variable W : World.
  Variable P : Params.
  Variable bodyof : N -> Body.      (* the payload body of every ALT block *)

  Definition zid (i : N) : Z := Z.of_N i.

  (** bodies of the n blocks above the n-th ancestor of i, lowest first *)
  Fixpoint alt_chain (l : list ent) (n : nat) (i : N) : list (Z * Body) :=
    match n with
    | O => []
    | S m => alt_chain l m (parent l i) ++ [(zid i, bodyof i)]
    end.
  Definition rctx (l : list ent) (n : nat) (i : N) : St := after_chain st0 (alt_chain l n i).

  (** the command groups of every block are the translation of its body in its chain context; the bootstrap
      block has none *)
  Definition compiled (s : cst) : Prop :=
    gs_of s (root _ _ s) = [] /\
    forall b, In b (blocks _ _ s) -> b_id _ b <> root _ _ s ->
      b_gs _ b = tr W P (rctx (cores s) (depth s (b_par _ b)) (b_par _ b)) (zid (b_id _ b)) (bodyof (b_id _ b)).

  Lemma chain_valid_app : forall a s b,
    chain_valid W P s (a ++ b) <-> chain_valid W P s a /\ chain_valid W P (after_chain s a) b.
  Proof.
    induction a as [|[c x] r IH]; intros s b; cbn [app chain_valid after_chain]; [tauto|].
    rewrite IH. tauto.
  Qed.
  Lemma after_chain_app : forall a s b, after_chain s (a ++ b) = after_chain (after_chain s a) b.
  Proof. induction a as [|[c x] r IH]; intros s b; cbn [app after_chain]; [reflexivity|apply IH]. Qed.

  Lemma vknown_after_block s c b s' : exec_block W P s c b = inl s' -> s' = after_block s b.
  Proof. intros E. apply exec_block_iff in E. tauto. Qed.

  (** in a well-formed tree an applied block at the root's height is the root *)
  Lemma up_hgt : forall s i, wf s -> is_act (cores s) i ->
    forall k, Z.of_nat k <= hgt (cores s) i - hgt (cores s) (root _ _ s) ->
      hgt (cores s) (up (cores s) k i) = hgt (cores s) i - Z.of_nat k /\ is_act (cores s) (up (cores s) k i).
  Proof.
    intros s i Wf Ha k. induction k as [|k IH]; intros Hk.
    - cbn [up]. split; [lia | exact Ha].
    - destruct IH as [Hh Hact]; [lia|]. rewrite up_succ_r. set (x := up (cores s) k i) in *.
      assert (Hxr : x <> root _ _ s) by (intro X; rewrite X in Hh; lia).
      destruct Hact as (e & He & Hae).
      pose proof (wf_parent_height _ _ _ Wf He Hxr) as Hph.
      assert (Hp : parent (cores s) x = e_par e) by (unfold parent; rewrite He; reflexivity).
      rewrite Hp. split; [lia|].
      destruct Wf as (ND & HR & HP & HN). pose proof (cfind_some _ _ _ He) as [Hid Hin].
      destruct (HP e Hin) as (pe & Hpe & _ & Hpa); [congruence|].
      exists pe. split; [exact Hpe | apply Hpa; exact Hae].
  Qed.

  Lemma act_at_root_height : forall s i, quiet s -> is_act (cores s) i ->
    hgt (cores s) i = hgt (cores s) (root _ _ s) -> i = root _ _ s.
  Proof.
    intros s i Q Ha Hh. pose proof Q as (Wf & Ta & Hn).
    pose proof (quiet_depth_nonneg s Q) as Hd.
    assert (Hr : is_act (cores s) (root _ _ s)).
    { destruct Wf as (_ & (hr & HR) & _). exists (root _ _ s, root _ _ s, hr, true). split; [exact HR | reflexivity]. }
    pose proof (proj1 (applied_exactly s Q i) Ha) as Hi.
    pose proof (proj1 (applied_exactly s Q _) Hr) as Hro.
    unfold chain in Hi, Hro.
    destruct (anc_list_up _ _ _ _ Hi) as (k1 & Hk1 & E1).
    destruct (anc_list_up _ _ _ _ Hro) as (k0 & Hk0 & E0).
    destruct (up_hgt s _ Wf Ta k1) as [H1 _]; [rewrite <- (Z2Nat.id _ Hd); lia|].
    destruct (up_hgt s _ Wf Ta k0) as [H0 _]; [rewrite <- (Z2Nat.id _ Hd); lia|].
    rewrite <- E1 in H1. rewrite <- E0 in H0.
    assert (k1 = k0) by lia. subst k1. congruence.
  Qed.

  Lemma bgs_succ s n i : bgs s (S n) i = bgs s n (parent (cores s) i) ++ [gs_of s i].
  Proof. unfold bgs. cbn [anc_list map rev]. reflexivity. Qed.

  (** replaying the groups of root..i succeeds only if the bodies above the root form a valid chain; the machine's
      protecting state then represents the known VBK blocks of the rule state *)
  Lemma replay_chain_valid : forall s, quiet s -> compiled s ->
    forall n i pp base, R base (vknown st0) ->
      is_act (cores s) i -> depth s i = n ->
      replay (bgs s n i) base = Some pp ->
      chain_valid W P st0 (alt_chain (cores s) n i) /\ R pp (vknown (rctx (cores s) n i)).
  Proof.
    intros s Q [Croot Cgs] n. pose proof Q as (Wf & _ & _).
    induction n as [|n IH]; intros i pp base Hb Ha Hd Hrp.
    - (* i is the root: no groups *)
      assert (Hi : i = root _ _ s).
      { apply act_at_root_height; [exact Q | exact Ha |]. unfold depth in Hd.
        pose proof (proj1 (applied_exactly s Q i) Ha) as Hin. unfold chain in Hin.
        pose proof (quiet_depth_nonneg s Q) as Hdn. pose proof Q as (_ & Ta & _).
        destruct (anc_list_active s (Z.to_nat (hgt (cores s) (tip _ _ s) - hgt (cores s) (root _ _ s))) (tip _ _ s) Wf Ta)
          as [Ab _]; [rewrite Z2Nat.id by lia; lia|].
        destruct (Ab i Hin) as (_ & Hlo & _). rewrite Z2Nat.id in Hlo by lia. lia. }
      subst i. unfold bgs in Hrp. cbn [anc_list map rev app] in Hrp. rewrite Croot in Hrp.
      cbn in Hrp. inversion Hrp; subst pp. cbn [alt_chain chain_valid]. split; [exact I|].
      unfold rctx. cbn [alt_chain after_chain]. exact Hb.
    - assert (Hir : i <> root _ _ s).
      { intro X. subst i. unfold depth in Hd. rewrite Z.sub_diag in Hd. cbn in Hd. discriminate. }
      destruct Ha as (e & He & Hae).
      pose proof (wf_parent_height _ _ _ Wf He Hir) as Hph.
      assert (Hp : parent (cores s) i = e_par e) by (unfold parent; rewrite He; reflexivity).
      destruct (core_find _ _ _ He) as (b & Fb & Cb).
      pose proof (find_some_in _ _ _ Fb) as [Hin Hid].
      assert (Hpb : b_par ccmd b = e_par e) by (rewrite <- Cb; reflexivity).
      assert (Hpa : is_act (cores s) (e_par e)).
      { destruct Wf as (ND & HR & HP & HN). pose proof (cfind_some _ _ _ He) as [Hid' Hin'].
        destruct (HP e Hin') as (pe & Hpe & _ & Hpa); [congruence|].
        exists pe. split; [exact Hpe | apply Hpa; exact Hae]. }
      assert (Hdp : depth s (e_par e) = n) by (unfold depth in *; lia).
      rewrite bgs_succ, Hp, replay_app in Hrp.
      destruct (replay (bgs s n (e_par e)) base) as [pp0|] eqn:Erp; [|discriminate].
      destruct (IH (e_par e) pp0 base Hb Hpa Hdp Erp) as [Hcv HR0].
      cbn [replay] in Hrp.
      destruct (gsexec pstate ccmd cexec cunexec [] (gs_of s i) pp0) as [q ok] eqn:Eg.
      destruct ok; [|discriminate]. inversion Hrp; subst q.
      apply gsexec_true_iff in Eg.
      assert (Hgs : gs_of s i = tr W P (rctx (cores s) n (e_par e)) (zid i) (bodyof i)).
      { unfold gs_of. rewrite Fb. rewrite (Cgs b Hin) by congruence. rewrite Hpb, Hdp, Hid. reflexivity. }
      rewrite Hgs in Eg.
      pose proof (sim_block W P (rctx (cores s) n (e_par e)) (zid i) (bodyof i) pp0 HR0) as S.
      destruct (exec_block W P (rctx (cores s) n (e_par e)) (zid i) (bodyof i)) as [s'|er] eqn:Ex; [|congruence].
      destruct S as (pp' & G & R').
      assert (pp' = pp) by congruence. subst pp'.
      apply exec_block_iff in Ex. destruct Ex as [Hv ->].
      cbn [alt_chain]. rewrite Hp. split.
      + apply chain_valid_app. split; [exact Hcv|]. cbn [chain_valid]. split; [exact Hv | exact I].
      + unfold rctx in *. cbn [alt_chain]. rewrite Hp, after_chain_app. cbn [after_chain]. exact R'.
  Qed.
End Chain.

(** * C04 on the as-coded machine: every reachable state has a contextually valid active chain *)
Definition base0 : pstate := [IRef (enc 0)].        (* the bootstrap VBK block is known *)

Lemma R_base0 : R base0 (vknown st0).
Proof.
  intros v. unfold base0. cbn [SmDefs.mem existsb item_eqb vknown st0 orb]. rewrite orb_false_r. split.
  - intros E. apply N.eqb_eq in E. apply enc_inj in E. left. symmetry. exact E.
  - intros [E|[]]. subst. apply N.eqb_refl.
Qed.

(** the bodies of the active chain root..tip (root excluded), lowest first *)
Definition active_bodies (bodyof : N -> Body) (s : cst) : list (Z * Body) :=
  alt_chain bodyof (cores s) (depth s (tip _ _ s)) (tip _ _ s).

Theorem active_payloads_valid : forall W P bodyof s,
  reachable base0 s -> compiled W P bodyof s ->
  chain_valid W P st0 (active_bodies bodyof s).
Proof.
  intros W P bodyof s Rch Cmp.
  destruct (reachable_good _ _ Rch) as (Q & _ & _ & T & U). pose proof Q as (Wf & Ta & _).
  destruct T as (bt & Fbt & Hl).
  pose proof (find_some_in _ _ _ Fbt) as [Hin Hid].
  assert (Hl' : N.leb L_FULL (b_lvl ccmd bt) = true) by (apply N.leb_le; exact Hl).
  destruct (U bt Hin Hl') as (p' & Hp'). rewrite Hid in Hp'.
  exact (proj1 (replay_chain_valid W P bodyof s Q Cmp _ _ _ _ R_base0 Ta eq_refl Hp')).
Qed.

(** per block: every applied block other than the root is valid in the context made by the bodies below it *)
Theorem active_block_valid : forall W P bodyof s,
  reachable base0 s -> compiled W P bodyof s ->
  forall j b, find ccmd (blocks _ _ s) j = Some b -> b_act _ b = true -> j <> root _ _ s ->
    ctx_valid W P (rctx bodyof (cores s) (depth s (b_par _ b)) (b_par _ b)) (zid j) (bodyof j).
Proof.
  intros W P bodyof s Rch Cmp j b Fb Ab Hjr.
  destruct (applied_blocks_executed _ _ Rch j b Fb Ab Hjr) as (pp & p' & Hrp & Hg).
  destruct (reachable_good _ _ Rch) as (Q & _ & _ & _ & _). pose proof Q as (Wf & _ & _).
  destruct (wf_act_closed _ Wf) as (_ & _ & Cl). destruct (Cl _ _ Fb Ab Hjr) as (pb & Fpb & Apb).
  assert (Hap : is_act (cores s) (b_par ccmd b)) by (exists (core pb); split; [apply find_cfind; exact Fpb | exact Apb]).
  destruct (replay_chain_valid W P bodyof s Q Cmp _ _ _ _ R_base0 Hap eq_refl Hrp) as [_ HR].
  pose proof (find_some_in _ _ _ Fb) as [Hin Hid].
  destruct Cmp as [_ Cgs]. rewrite (Cgs b Hin) in Hg by congruence. rewrite Hid in Hg.
  apply (groups_execute_iff_ctx_valid W P _ _ _ pp HR). eauto.
Qed.

(** * non-vacuity: a reachable, compiled state with two applied blocks above the root *)
Definition ex_bodyof (i : N) : Body :=
  match i with
  | 1%N => mkBody [1] [] []
  | 2%N => mkBody [] [] [honest_atv exW 2 1 1 1]
  | _ => mkBody [] [] []
  end.
Definition ex_gs1 := tr exW exP st0 1 (ex_bodyof 1).
Definition ex_gs2 := tr exW exP (after_block st0 (ex_bodyof 1)) 2 (ex_bodyof 2).
Definition ex_ops : list op := [OConnect 1 0 false ex_gs1; OConnect 2 1 false ex_gs2; OSetState 2].

Example ex_machine_state :
  exists s, run (c_init 0 0 base0) ex_ops = Ok s /\ tip _ _ s = 2%N /\ compiled exW exP ex_bodyof s /\
            active_bodies ex_bodyof s = [(1, ex_bodyof 1); (2, ex_bodyof 2)].
Proof.
  eexists. split; [vm_compute; reflexivity|]. split; [reflexivity|]. split.
  - split; [reflexivity|]. intros b Hb Hr. cbn in Hb.
    destruct Hb as [<-|[<-|[<-|[]]]]; [exfalso; apply Hr; reflexivity | vm_compute; reflexivity | vm_compute; reflexivity].
  - vm_compute. reflexivity.
Qed.
