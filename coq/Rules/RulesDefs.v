(** C04 / C19 — the contextual rule set of POP payloads.

    Two descriptions of WHEN the body of an ALT block is valid on top of what its
    chain has made known so far:

    * [ctx_valid]  the DECLARATIVE rule set, written from the protocol rules
      (propositions: membership, existence, inequalities), independent of the
      command code;
    * [exec_block] the commands' checks AS CODED (connectBlock's stateful
      duplicate check, then per payload the command group in the order of
      AltCommandGroupStore::getCommands / payloadToCommands: AddVbkBlock,
      AddVTB -> VbkBlockTree::addPayloads -> addPayloadToAppliedBlock ->
      validateBTCContext -> AddBtcBlock.. AddVbkEndorsement, and for an ATV
      AddVbkBlock(blockOfProof), CheckPublicationData, AddAltEndorsement), with
      the kind of the first failing check as a small enum.

    Blocks and payloads are small integer ids (the harness maps hashes to ids in
    creation order).  Executable; no proofs in this file. *)
From Coq Require Import ZArith List Bool.
From VB Require Import Score.KeystoneDefs Gen.Consts Pow.PowBase Pow.BtcDefs Pow.VbkDefs.
Import ListNotations.
Local Open Scope Z_scope.

(** * Static world: the three block trees as parent maps with heights *)
Record Blk := mkBlk { b_id : Z; b_parent : Z; b_height : Z }.   (* parent = -1: root *)
Definition Tree := list Blk.

Fixpoint find_blk (tr : Tree) (x : Z) : option Blk :=
  match tr with
  | [] => None
  | b :: r => if b_id b =? x then Some b else find_blk r x
  end.

Definition height_of (tr : Tree) (x : Z) : option Z := option_map b_height (find_blk tr x).
Definition parent_of (tr : Tree) (x : Z) : option Z :=
  match find_blk tr x with
  | Some b => if b_parent b =? -1 then None else Some (b_parent b)
  | None => None
  end.

(** BlockIndex::getAncestor(h): walk the parent links down to height [h] *)
Fixpoint anc_at (fuel : nat) (tr : Tree) (x : Z) (h : Z) : option Z :=
  match find_blk tr x with
  | None => None
  | Some b =>
    if b_height b =? h then Some x
    else if b_height b <? h then None
    else match fuel with
         | O => None
         | S f => if b_parent b =? -1 then None else anc_at f tr (b_parent b) h
         end
  end.

Definition ancestor_at (tr : Tree) (x h : Z) : option Z := anc_at (length tr) tr x h.

Definition oz_eqb (a b : option Z) : bool :=
  match a, b with
  | Some x, Some y => x =? y
  | None, None => true
  | _, _ => false
  end.

(** [a] is [x] or an ancestor of [x] *)
Definition anc_or_eq (tr : Tree) (a x : Z) : bool :=
  match height_of tr a with
  | Some ha => oz_eqb (ancestor_at tr x ha) (Some a)
  | None => false
  end.

Record World := mkWorld {
  alts : Tree;            (* ALT blocks of the registry *)
  vbks : Tree;
  btcs : Tree;
  hidden : list Z;        (* ALT blocks whose header the instance has never seen *)
  vtimes : list (Z * Z);  (* timestamp of every VBK header *)
  btimes : list (Z * Z);  (* timestamp of every BTC header *)
  vnow : Z                (* the wall clock (seconds) when the bodies are applied *)
}.

Record Params := mkParams { p_settle : Z; p_vsettle : Z; p_ki : Z; p_maxvtb : Z }.

Definition mem (x : Z) (l : list Z) : bool := existsb (Z.eqb x) l.

Definition alt_known (W : World) (x : Z) : bool :=
  match find_blk (alts W) x with Some _ => negb (mem x (hidden W)) | None => false end.

(** * Contextual rule of a VBK header that is added to the tree: its timestamp is not below the minimum timestamp
    (lower median of the up to 20 blocks ending at its parent: [Pow.VbkDefs.vbk_min_timestamp], the model of
    calculateMinimumTimestamp proved to be that order statistic in Pow/MedianProofs.v) and not more than the
    maximum future block time ahead of the wall clock: [Pow.VbkDefs.vbk_check_time] (checkBlockTime as coded). *)
Fixpoint assoc (l : list (Z * Z)) (x : Z) : Z :=
  match l with [] => 0 | (k, v) :: r => if k =? x then v else assoc r x end.
Definition vtime (W : World) (v : Z) : Z := assoc (vtimes W) v.

(** the chain parent, grandparent, ... as the block indices the PoW model works on *)
Fixpoint vchain (W : World) (fuel : nat) (x : Z) : list bidx :=
  match fuel with
  | O => []
  | S f => match find_blk (vbks W) x with
           | None => []
           | Some b => mkBidx x (vtime W x) 0 ::
                       (if b_parent b =? -1 then [] else vchain W f (b_parent b))
           end
  end.

Definition hdr_ok (W : World) (v : Z) : bool :=
  match parent_of (vbks W) v with
  | None => false
  | Some p => match vbk_check_time vbk_regtest (vchain W (length (vbks W)) p) (vtime W v) (vnow W) with
              | Ok TimeOk => true
              | _ => false
              end
  end.

(** the same for a BTC header of a VTB's context: not below the median time past of the 11 blocks ending at its
    parent, not too far in the future: [Pow.BtcDefs.btc_check_time] *)
Definition btime (W : World) (b : Z) : Z := assoc (btimes W) b.
Fixpoint bchain (W : World) (fuel : nat) (x : Z) : list bidx :=
  match fuel with
  | O => []
  | S f => match find_blk (btcs W) x with
           | None => []
           | Some b => mkBidx x (btime W x) 0 ::
                       (if b_parent b =? -1 then [] else bchain W f (b_parent b))
           end
  end.
Definition bhdr_ok (W : World) (b : Z) : bool :=
  match parent_of (btcs W) b with
  | None => true
  | Some p => match btc_check_time btc_regtest (bchain W (length (btcs W)) p) (btime W b) (vnow W) with
              | TimeOk => true
              | _ => false
              end
  end.

(** * Payloads *)
Record Atv := mkAtv {
  t_id : Z; t_endorsed : Z; t_bop : Z;
  t_h : Z; t_k1 : option Z; t_k2 : option Z       (* context info carried by the publication data *)
}.
Record Vtb := mkVtb {
  w_id : Z; w_endorsed : Z; w_containing : Z;
  w_conn : Z;              (* BTC block the context connects to (previous of the first context block) *)
  w_bctx : list Z          (* BTC context blocks, then the block of proof *)
}.
Record Body := mkBody { bd_ctx : list Z; bd_vtbs : list Vtb; bd_atvs : list Atv }.

(** * Context info: model of ContextInfoContainer / KeystoneContainer::createFromPrevious.
    The bootstrap block has height 0 (regtest parameters of the harness). *)
Definition create_from_previous (W : World) (ki : Z) (prev : option Z) : Z * option Z * option Z :=
  match prev with
  | None => (0, None, None)
  | Some p =>
    match height_of (alts W) p with
    | None => (0, None, None)
    | Some hp =>
      let h := hp + 1 in
      let first := m_previousKeystone h ki 0 in
      let second := m_previousKeystone h ki 1 in
      let k1 := ancestor_at (alts W) p first in
      let k2 := match k1 with Some f => ancestor_at (alts W) f second | None => None end in
      (h, k1, k2)
    end
  end.

(** GeneratePublicationData for endorsed block [e] and block of proof [bop] *)
Definition honest_atv (W : World) (ki : Z) (id e bop : Z) : Atv :=
  let '(h, k1, k2) := create_from_previous W ki (parent_of (alts W) e) in
  mkAtv id e bop h k1 k2.

Definition ctx_eqb (a b : Z * option Z * option Z) : bool :=
  let '(h1, x1, y1) := a in let '(h2, x2, y2) := b in
  (h1 =? h2) && oz_eqb x1 x2 && oz_eqb y1 y2.

(** * What the chain has made known so far *)
Record St := mkSt {
  vknown : list Z;          (* VBK blocks in the VBK tree *)
  brefs : list (Z * Z);     (* (BTC block, VBK block whose VTB references it); bootstrap: (0, -1) *)
  vin : list Z;             (* containing VBK block of every applied VTB (one entry per VTB) *)
  seen : list (Z * Z)       (* payload ids on the chain, tagged 0 = VBK block, 1 = VTB, 2 = ATV *)
}.
Definition st0 : St := mkSt [0] [(0, -1)] [] [].

Inductive Err :=
  | EDup | EVbkPrev | EVbkTime
  | EVtbContaining | EVtbMany | EBtcCtx | EBtcPrev | EBtcTime | EVNoEndorsed | EVDiffers | EVExpired
  | ESfEndorsed | ESfContext | EDiffers | EExpired.

Definition count (x : Z) (l : list Z) : Z := Z.of_nat (length (filter (Z.eqb x) l)).

Definition pmem (p : Z * Z) (l : list (Z * Z)) : bool :=
  existsb (fun q => (fst p =? fst q) && (snd p =? snd q)) l.

Definition body_ids (b : Body) : list (Z * Z) :=
  map (fun v => (0, v)) (bd_ctx b) ++ map (fun w => (1, w_id w)) (bd_vtbs b) ++ map (fun t => (2, t_id t)) (bd_atvs b).

(** ** the checks as coded *)

(** AddVbkBlock::Execute: a known block only gets a reference; an unknown one must connect *)
Definition exec_vbk (W : World) (K : list Z) (v : Z) : list Z + Err :=
  if mem v K then inl K
  else match parent_of (vbks W) v with
       | Some p => if mem p K then (if hdr_ok W v then inl (v :: K) else inr EVbkTime) else inr EVbkPrev
       | None => inr EVbkPrev
       end.

Fixpoint exec_vbks (W : World) (K : list Z) (vs : list Z) : list Z + Err :=
  match vs with
  | [] => inl K
  | v :: r => match exec_vbk W K v with inl K' => exec_vbks W K' r | inr e => inr e end
  end.

(** the BTC context of a VTB is a chain starting right after [prev] *)
Fixpoint btc_chain (W : World) (prev : Z) (bs : list Z) : bool :=
  match bs with
  | [] => true
  | b :: r => oz_eqb (parent_of (btcs W) b) (Some prev) && btc_chain W b r
  end.

(** validateBTCContext: some reference of the connecting block is at or below the containing height.
    The BTC tree only holds blocks of VTBs whose containing VBK block is on the VBK chain of the containing
    block (the VBK tree is switched to it), hence: referenced by the containing block or one of its ancestors. *)
Definition btc_ref_ok (W : World) (R : list (Z * Z)) (conn cont : Z) : bool :=
  existsb (fun q => (fst q =? conn) && ((snd q =? -1) || anc_or_eq (vbks W) (snd q) cont)) R.

Definition hdiff_le (tr : Tree) (hi lo : Z) (d : Z) : bool :=
  match height_of tr hi, height_of tr lo with
  | Some a, Some b => a - b <=? d
  | _, _ => false
  end.

Definition exec_vtb (W : World) (P : Params) (s : St) (w : Vtb) : St + Err :=
  let c := w_containing w in
  if negb (mem c (vknown s)) then inr EVtbContaining
  else if p_maxvtb P <=? count c (vin s) then inr EVtbMany
  else if negb (btc_ref_ok W (brefs s) (w_conn w) c) then inr EBtcCtx
  else if negb (btc_chain W (w_conn w) (w_bctx w)) then inr EBtcPrev
  else if negb (forallb (bhdr_ok W) (w_bctx w)) then inr EBtcTime
  else if negb (mem (w_endorsed w) (vknown s)) then inr EVNoEndorsed
  else if negb (anc_or_eq (vbks W) (w_endorsed w) c) then inr EVDiffers
  else if negb (hdiff_le (vbks W) c (w_endorsed w) (p_vsettle P)) then inr EVExpired
  else inl (mkSt (vknown s) (map (fun b => (b, c)) (w_bctx w) ++ brefs s) (c :: vin s) (seen s)).

Fixpoint exec_vtbs (W : World) (P : Params) (s : St) (ws : list Vtb) : St + Err :=
  match ws with
  | [] => inl s
  | w :: r => match exec_vtb W P s w with inl s' => exec_vtbs W P s' r | inr e => inr e end
  end.

Definition atv_ctx (t : Atv) : Z * option Z * option Z := (t_h t, t_k1 t, t_k2 t).

(** ATV command group: AddVbkBlock(block of proof); CheckPublicationData; AddAltEndorsement *)
Definition exec_atv (W : World) (P : Params) (c : Z) (K : list Z) (t : Atv) : list Z + Err :=
  match exec_vbk W K (t_bop t) with
  | inr e => inr e
  | inl K' =>
    let e := t_endorsed t in
    if negb (alt_known W e) then inr ESfEndorsed
    else if negb (ctx_eqb (atv_ctx t) (create_from_previous W (p_ki P) (parent_of (alts W) e))) then inr ESfContext
    else if negb (anc_or_eq (alts W) e c) then inr EDiffers
    else if negb (hdiff_le (alts W) c e (p_settle P)) then inr EExpired
    else inl K'
  end.

Fixpoint exec_atvs (W : World) (P : Params) (c : Z) (K : list Z) (ts : list Atv) : list Z + Err :=
  match ts with
  | [] => inl K
  | t :: r => match exec_atv W P c K t with inl K' => exec_atvs W P c K' r | inr e => inr e end
  end.

(** connectBlock's stateful duplicate check, then applyBlock; a failing block leaves the state unchanged *)
Definition exec_block (W : World) (P : Params) (s : St) (c : Z) (b : Body) : St + Err :=
  if existsb (fun i => pmem i (seen s)) (body_ids b) then inr EDup
  else match exec_vbks W (vknown s) (bd_ctx b) with
       | inr e => inr e
       | inl K1 =>
         match exec_vtbs W P (mkSt K1 (brefs s) (vin s) (seen s)) (bd_vtbs b) with
         | inr e => inr e
         | inl s2 =>
           match exec_atvs W P c (vknown s2) (bd_atvs b) with
           | inr e => inr e
           | inl K3 => inl (mkSt K3 (brefs s2) (vin s2) (body_ids b ++ seen s))
           end
         end
       end.

(** applying a chain of blocks (root excluded) = a fold of applyBlock; stops at the first failing block *)
Inductive Verdict := VOk (s : St) | VRefused (blk : Z) (e : Err).

Fixpoint apply_chain (W : World) (P : Params) (s : St) (ch : list (Z * Body)) : Verdict :=
  match ch with
  | [] => VOk s
  | (c, b) :: r =>
    match exec_block W P s c b with
    | inl s' => apply_chain W P s' r
    | inr e => VRefused c e
    end
  end.

(** ** the declarative rule set *)

Definition In2 (p : Z * Z) (l : list (Z * Z)) : Prop := In p l.

(** a VBK header connects: already known, or its parent is and the header passes the contextual header rule *)
Definition vbk_connects (W : World) (K : list Z) (v : Z) : Prop :=
  In v K \/ exists p, parent_of (vbks W) v = Some p /\ In p K /\ hdr_ok W v = true.

Definition add_known (K : list Z) (v : Z) : list Z := if mem v K then K else v :: K.

Fixpoint ctx_connects (W : World) (K : list Z) (vs : list Z) : Prop :=
  match vs with
  | [] => True
  | v :: r => vbk_connects W K v /\ ctx_connects W (add_known K v) r
  end.

Fixpoint known_after (K : list Z) (vs : list Z) : list Z :=
  match vs with [] => K | v :: r => known_after (add_known K v) r end.

Definition is_anc_or_eq (tr : Tree) (a x : Z) : Prop :=
  exists ha, height_of tr a = Some ha /\ ancestor_at tr x ha = Some a.

Definition within (tr : Tree) (hi lo d : Z) : Prop :=
  exists a b, height_of tr hi = Some a /\ height_of tr lo = Some b /\ a - b <= d.

(** each VTB: containing VBK block known, not more than the maximum per VBK block; its BTC context connects to a
    BTC block referenced by the containing block or an ancestor of it (or bootstrap) and is a chain; endorses a known
    ancestor of the containing block within the VBK settlement interval *)
Definition vtb_valid (W : World) (P : Params) (s : St) (w : Vtb) : Prop :=
  In (w_containing w) (vknown s)
  /\ count (w_containing w) (vin s) < p_maxvtb P
  /\ (exists c', In (w_conn w, c') (brefs s) /\ (c' = -1 \/ is_anc_or_eq (vbks W) c' (w_containing w)))
  /\ btc_chain W (w_conn w) (w_bctx w) = true
  /\ forallb (bhdr_ok W) (w_bctx w) = true
  /\ In (w_endorsed w) (vknown s)
  /\ is_anc_or_eq (vbks W) (w_endorsed w) (w_containing w)
  /\ within (vbks W) (w_containing w) (w_endorsed w) (p_vsettle P).

Definition after_vtb (s : St) (w : Vtb) : St :=
  mkSt (vknown s) (map (fun b => (b, w_containing w)) (w_bctx w) ++ brefs s) (w_containing w :: vin s) (seen s).

Fixpoint vtbs_valid (W : World) (P : Params) (s : St) (ws : list Vtb) : Prop :=
  match ws with
  | [] => True
  | w :: r => vtb_valid W P s w /\ vtbs_valid W P (after_vtb s w) r
  end.

Fixpoint after_vtbs (s : St) (ws : list Vtb) : St :=
  match ws with [] => s | w :: r => after_vtbs (after_vtb s w) r end.

(** each ATV: its block of proof connects; the endorsed header is a block the instance knows, of the containing
    block's own chain, no more than the settlement interval below it; the context info (height, previous
    keystones) is what createFromPrevious gives for the endorsed block's parent *)
Definition atv_valid (W : World) (P : Params) (c : Z) (K : list Z) (t : Atv) : Prop :=
  vbk_connects W K (t_bop t)
  /\ alt_known W (t_endorsed t) = true
  /\ atv_ctx t = create_from_previous W (p_ki P) (parent_of (alts W) (t_endorsed t))
  /\ is_anc_or_eq (alts W) (t_endorsed t) c
  /\ within (alts W) c (t_endorsed t) (p_settle P).

Fixpoint atvs_valid (W : World) (P : Params) (c : Z) (K : list Z) (ts : list Atv) : Prop :=
  match ts with
  | [] => True
  | t :: r => atv_valid W P c K t /\ atvs_valid W P c (add_known K (t_bop t)) r
  end.

Definition no_dup_on_chain (s : St) (b : Body) : Prop :=
  forall i, In i (body_ids b) -> ~ In i (seen s).

(** the body of block [c] is contextually valid on top of [s] *)
Definition ctx_valid (W : World) (P : Params) (s : St) (c : Z) (b : Body) : Prop :=
  no_dup_on_chain s b
  /\ ctx_connects W (vknown s) (bd_ctx b)
  /\ vtbs_valid W P (mkSt (known_after (vknown s) (bd_ctx b)) (brefs s) (vin s) (seen s)) (bd_vtbs b)
  /\ atvs_valid W P c (known_after (vknown s) (bd_ctx b)) (bd_atvs b).

(** state after a valid block *)
Definition after_block (s : St) (b : Body) : St :=
  let K1 := known_after (vknown s) (bd_ctx b) in
  let s2 := after_vtbs (mkSt K1 (brefs s) (vin s) (seen s)) (bd_vtbs b) in
  mkSt (known_after K1 (map t_bop (bd_atvs b))) (brefs s2) (vin s2) (body_ids b ++ seen s).

(** every block of the chain is valid where it stands *)
Fixpoint chain_valid (W : World) (P : Params) (s : St) (ch : list (Z * Body)) : Prop :=
  match ch with
  | [] => True
  | (c, b) :: r => ctx_valid W P s c b /\ chain_valid W P (after_block s b) r
  end.

Fixpoint after_chain (s : St) (ch : list (Z * Body)) : St :=
  match ch with [] => s | (_, b) :: r => after_chain (after_block s b) r end.

(** * A simple activation machine: the active chain is replaced by any candidate chain from the root that
    applies; [m_st] is what the active chain has made known.  (The real code un-applies back to the fork point and
    applies the rest; that this restores exactly the fold from the root is the inverse law of the POP state machine
    model, C01.) *)
Record Machine := mkM { m_chain : list (Z * Body); m_st : St }.
Definition m0 : Machine := mkM [] st0.

Definition activate (W : World) (P : Params) (m : Machine) (cand : list (Z * Body)) : Machine * bool :=
  match apply_chain W P st0 cand with
  | VOk s => (mkM cand s, true)
  | VRefused _ _ => (m, false)
  end.

Fixpoint run (W : World) (P : Params) (m : Machine) (ops : list (list (Z * Body))) : Machine :=
  match ops with
  | [] => m
  | c :: r => run W P (fst (activate W P m c)) r
  end.

Definition err_code (e : Err) : Z :=
  match e with
  | EDup => 1 | EVbkPrev => 2 | EVtbContaining => 3 | EVtbMany => 4 | EBtcCtx => 5 | EBtcPrev => 6
  | EVNoEndorsed => 7 | EVDiffers => 8 | EVExpired => 9 | ESfEndorsed => 10 | ESfContext => 11
  | EDiffers => 12 | EExpired => 13 | EVbkTime => 14 | EBtcTime => 15
  end.

Definition default_params (settle vsettle ki : Z) : Params := mkParams settle vsettle ki MAX_VBKPOPTX_PER_VBK_BLOCK.
