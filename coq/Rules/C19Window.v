(** C19 — "timely" is exact, and independent of the fork.

    The code (AddEndorsement::Execute, the same template for ALT and VBK) refuses an endorsement iff
        containing->getHeight() - endorsed->getHeight() > (int) getEndorsementSettlementInterval()
    i.e. it accepts iff  height(containing) - height(endorsed) <= settlement interval  (NON-strict: a containing
    block exactly [settle] above the endorsed block is still accepted, [settle + 1] above is the first refused
    one).  The model's [hdiff_le] is  a - b <=? d : the same inequality.  The mempool pre-check
    (MemPoolBlockTree::checkContextually: tip + 1 > window + endorsed height -> "atv-expired";
    containing height > window + published height -> "vtb-expired") and the load-time recovery window
    (Chain(max(0, height - si), current) must contain the endorsed height) are the same inequality. *)
From Coq Require Import ZArith List Bool Lia.
From VB Require Import Rules.RulesDefs Rules.RulesProofs Rules.C19HonestDefs Rules.C19Honest.
Import ListNotations.
Local Open Scope Z_scope.

(** * ATVs *)

(** an honest ATV with a known endorsed block and a connecting block of proof is accepted in block [c] iff the
    endorsed block is on [c]'s own chain within the settlement interval *)
Lemma honest_atv_accepted_iff W P c K id e bop :
  alt_known W e = true -> vbk_connects W K bop ->
  ((exists K', exec_atv W P c K (honest_atv W (p_ki P) id e bop) = inl K')
   <-> is_anc_or_eq (alts W) e c /\ within (alts W) c e (p_settle P)).
Proof.
  intros Hk Hc. destruct (honest_atv_fields W (p_ki P) id e bop) as [E1 [E2 _]]. split.
  - intros [K' H]. apply exec_atv_iff in H. destruct H as [(_ & _ & _ & A & B) _].
    rewrite E1 in A, B. auto.
  - intros [A B]. exists (add_known K bop).
    apply exec_atv_iff. rewrite E2. split; [|reflexivity]. now apply honest_satisfies_ctx_valid.
Qed.

(** exec_atv of an otherwise acceptable ATV, by the height difference *)
Lemma atv_window_exact W P c K t he hc :
  vbk_connects W K (t_bop t) -> alt_known W (t_endorsed t) = true ->
  atv_ctx t = create_from_previous W (p_ki P) (parent_of (alts W) (t_endorsed t)) ->
  is_anc_or_eq (alts W) (t_endorsed t) c ->
  height_of (alts W) (t_endorsed t) = Some he -> height_of (alts W) c = Some hc ->
  (exec_atv W P c K t = inl (add_known K (t_bop t)) <-> hc - he <= p_settle P)
  /\ (exec_atv W P c K t = inr EExpired <-> p_settle P < hc - he).
Proof.
  intros Hc Hk Hx Ha He Hh. unfold exec_atv.
  assert (X : exec_vbk W K (t_bop t) = inl (add_known K (t_bop t))) by (apply exec_vbk_iff; auto).
  rewrite X, Hk. cbn [negb].
  assert (Y : ctx_eqb (atv_ctx t) (create_from_previous W (p_ki P) (parent_of (alts W) (t_endorsed t))) = true)
    by (now apply ctx_eqb_eq).
  rewrite Y. cbn [negb].
  apply anc_or_eq_iff in Ha. rewrite Ha. cbn [negb].
  unfold hdiff_le. rewrite Hh, He.
  destruct (hc - he <=? p_settle P) eqn:L; cbn [negb].
  - apply Z.leb_le in L. split; split; intros; try reflexivity; try lia; try discriminate.
  - apply Z.leb_gt in L. split; split; intros; try reflexivity; try lia; try discriminate.
Qed.

Lemma honest_atv_window_exact W P c K id e bop he hc :
  alt_known W e = true -> vbk_connects W K bop -> is_anc_or_eq (alts W) e c ->
  height_of (alts W) e = Some he -> height_of (alts W) c = Some hc ->
  let t := honest_atv W (p_ki P) id e bop in
  (exec_atv W P c K t = inl (add_known K bop) <-> hc - he <= p_settle P)
  /\ (exec_atv W P c K t = inr EExpired <-> p_settle P < hc - he).
Proof.
  intros Hk Hc Ha He Hh t.
  destruct (honest_atv_fields W (p_ki P) id e bop) as [E1 [E2 _]]. fold t in E1, E2.
  rewrite <- E2 at 1. apply atv_window_exact; rewrite ?E1, ?E2; auto.
  unfold t. apply honest_atv_ctx.
Qed.

(** the two off-by-one readings are false (RulesProofs.exW: ALT chain 0-1-2-3-4, settlement interval 2) *)
Example atv_window_plus_one_accepted_refuted :
  ~ (forall W P c K id e bop he hc,
       alt_known W e = true -> vbk_connects W K bop -> is_anc_or_eq (alts W) e c ->
       height_of (alts W) e = Some he -> height_of (alts W) c = Some hc ->
       hc - he <= p_settle P + 1 ->
       exists K', exec_atv W P c K (honest_atv W (p_ki P) id e bop) = inl K').
Proof.
  intros H. destruct (H exW exP 4 [1; 0] 7 1 1 1 4) as [K' E]; try (vm_compute; reflexivity).
  - left. now left.
  - exists 1. vm_compute. auto.
  - vm_compute. discriminate.
  - vm_compute in E. discriminate.
Qed.

Example atv_window_exactly_rejected_refuted :
  ~ (forall W P c K id e bop he hc,
       alt_known W e = true -> vbk_connects W K bop -> is_anc_or_eq (alts W) e c ->
       height_of (alts W) e = Some he -> height_of (alts W) c = Some hc ->
       p_settle P <= hc - he ->
       exists err, exec_atv W P c K (honest_atv W (p_ki P) id e bop) = inr err).
Proof.
  intros H. destruct (H exW exP 3 [1; 0] 7 1 1 1 3) as [err E]; try (vm_compute; reflexivity).
  - left. now left.
  - exists 1. vm_compute. auto.
  - vm_compute. discriminate.
  - vm_compute in E. discriminate.
Qed.

(** * VTBs: the VBK settlement interval *)
Lemma vtb_window_exact W P s w he hc :
  vtb_valid_but_window W P s w ->
  height_of (vbks W) (w_endorsed w) = Some he -> height_of (vbks W) (w_containing w) = Some hc ->
  (exec_vtb W P s w = inl (after_vtb s w) <-> hc - he <= p_vsettle P)
  /\ (exec_vtb W P s w = inr EVExpired <-> p_vsettle P < hc - he).
Proof.
  intros (V1 & V2 & V3 & V4 & V5 & V6 & V7) He Hh. unfold exec_vtb.
  apply mem_In in V1. rewrite V1. cbn [negb].
  assert (X2 : (p_maxvtb P <=? count (w_containing w) (vin s)) = false) by (apply Z.leb_gt; lia).
  rewrite X2.
  apply btc_ref_ok_iff in V3. rewrite V3. cbn [negb]. rewrite V4, V5. cbn [negb].
  apply mem_In in V6. rewrite V6. cbn [negb].
  apply anc_or_eq_iff in V7. rewrite V7. cbn [negb].
  unfold hdiff_le. rewrite Hh, He. fold (after_vtb s w).
  destruct (hc - he <=? p_vsettle P) eqn:L; cbn [negb].
  - apply Z.leb_le in L. split; split; intros; try reflexivity; try lia; try discriminate.
  - apply Z.leb_gt in L. split; split; intros; try reflexivity; try lia; try discriminate.
Qed.

(** the honestly built VTB: accepted iff the containing VBK block is at most the VBK settlement interval above the
    endorsed height, otherwise refused as expired (and by no other check) *)
Lemma honest_vtb_window_exact W P s sp w hc :
  honest_vtb W (brefs s) sp = Some w ->
  In (vs_cont sp) (vknown s) -> vclosed W (vknown s) -> btc_clock_ok W ->
  count (vs_cont sp) (vin s) < p_maxvtb P ->
  height_of (vbks W) (vs_cont sp) = Some hc ->
  (exec_vtb W P s w = inl (after_vtb s w) <-> hc - vs_eh sp <= p_vsettle P)
  /\ (exec_vtb W P s w = inr EVExpired <-> p_vsettle P < hc - vs_eh sp).
Proof.
  intros H Hc Cl Ck Hn Hh.
  destruct (honest_vtb_but_window W P s sp w H Hc Cl Ck Hn) as [V He].
  destruct (honest_vtb_containing _ _ _ _ H) as [Ec _].
  apply vtb_window_exact; auto. now rewrite Ec.
Qed.

(** off-by-one readings refuted on C19HonestDefs.hxW (VBK chain 0-1-2-3-4, VBK settlement interval 2) *)
Example vtb_window_plus_one_accepted_refuted :
  ~ (forall W P s sp w hc,
       honest_vtb W (brefs s) sp = Some w ->
       In (vs_cont sp) (vknown s) -> vclosed W (vknown s) -> btc_clock_ok W ->
       count (vs_cont sp) (vin s) < p_maxvtb P ->
       height_of (vbks W) (vs_cont sp) = Some hc ->
       hc - vs_eh sp <= p_vsettle P + 1 ->
       exists s', exec_vtb W P s w = inl s').
Proof.
  intros H.
  destruct (H hxW hxP hx_s1 (mkVtbSpec 12 4 1 4) (mkVtb 12 1 4 0 [1; 2; 3; 4]) 4) as [s' E];
    try (vm_compute; reflexivity).
  - vm_compute. auto 10.
  - eapply vclosed_ctx; [apply hx_closed | apply hx_ctx].
  - apply hx_clock.
  - vm_compute. discriminate.
  - vm_compute in E. discriminate.
Qed.

Example vtb_window_exactly_rejected_refuted :
  ~ (forall W P s sp w hc,
       honest_vtb W (brefs s) sp = Some w ->
       In (vs_cont sp) (vknown s) -> vclosed W (vknown s) -> btc_clock_ok W ->
       count (vs_cont sp) (vin s) < p_maxvtb P ->
       height_of (vbks W) (vs_cont sp) = Some hc ->
       p_vsettle P <= hc - vs_eh sp ->
       exists err, exec_vtb W P s w = inr err).
Proof.
  intros H.
  destruct (H hxW hxP hx_s1 (mkVtbSpec 12 4 2 4) (mkVtb 12 2 4 0 [1; 2; 3; 4]) 4) as [err E];
    try (vm_compute; reflexivity).
  - vm_compute. auto 10.
  - eapply vclosed_ctx; [apply hx_closed | apply hx_ctx].
  - apply hx_clock.
  - vm_compute. discriminate.
  - vm_compute in E. discriminate.
Qed.

(** * fork independence *)

(** acceptance of ANY ATV depends on the containing block only through "the endorsed block is on its chain" and
    the height difference: what one block of a chain containing the endorsed block accepts, every other block
    [c'] that has the endorsed block on its chain accepts with the same result while the window is open — on the
    same chain or on any other fork, above or below [c] *)
Lemma atv_accept_transfers W P c c' K t K' he h' :
  exec_atv W P c K t = inl K' ->
  is_anc_or_eq (alts W) (t_endorsed t) c' ->
  height_of (alts W) (t_endorsed t) = Some he -> height_of (alts W) c' = Some h' ->
  h' <= he + p_settle P ->
  exec_atv W P c' K t = inl K'.
Proof.
  intros H Ha He Hh L. apply exec_atv_iff in H. destruct H as [(A1 & A2 & A3 & _ & _) EK].
  apply exec_atv_iff. split; [|exact EK]. unfold atv_valid. repeat split; auto.
  exists h', he. repeat split; auto. lia.
Qed.

(** ... and once the window has closed every later block of every chain through the endorsed block refuses it as
    expired *)
Lemma atv_window_closes W P c c' K t K' he h' :
  exec_atv W P c K t = inl K' ->
  is_anc_or_eq (alts W) (t_endorsed t) c' ->
  height_of (alts W) (t_endorsed t) = Some he -> height_of (alts W) c' = Some h' ->
  he + p_settle P < h' ->
  exec_atv W P c' K t = inr EExpired.
Proof.
  intros H Ha He Hh L. apply exec_atv_iff in H. destruct H as [(A1 & A2 & A3 & _ & _) EK].
  apply (atv_window_exact W P c' K t he h'); auto. lia.
Qed.

(** getAncestor composes downwards: the block at height [he] below an ancestor [c'] of [c] is the block at height
    [he] below [c] *)
Lemma anc_at_fuel_mono tr h : forall f f' x a, anc_at f tr x h = Some a -> (f <= f')%nat -> anc_at f' tr x h = Some a.
Proof.
  induction f as [|f IH]; intros f' x a H L; cbn [anc_at] in H;
    destruct (find_blk tr x) as [b|] eqn:F; try discriminate;
    destruct (b_height b =? h) eqn:E1.
  - destruct f'; cbn [anc_at]; rewrite F, E1; exact H.
  - destruct (b_height b <? h); discriminate.
  - destruct f'; cbn [anc_at]; rewrite F, E1; exact H.
  - destruct (b_height b <? h) eqn:E2; [discriminate|].
    destruct (b_parent b =? -1) eqn:E3; [discriminate|].
    destruct f' as [|f']; [lia|]. cbn [anc_at]. rewrite F, E1, E2, E3. apply IH; [exact H | lia].
Qed.

Lemma anc_at_via tr he h' : he <= h' ->
  forall f c c' e, anc_at f tr c h' = Some c' -> anc_at f tr c he = Some e -> anc_at f tr c' he = Some e.
Proof.
  intros L. induction f as [|f IH]; intros c c' e H1 H2; cbn [anc_at] in H1, H2;
    destruct (find_blk tr c) as [b|] eqn:F; try discriminate.
  - destruct (b_height b =? h') eqn:E1.
    + inversion H1. subst c'. cbn [anc_at]. rewrite F. exact H2.
    + destruct (b_height b <? h'); discriminate.
  - destruct (b_height b =? h') eqn:E1.
    + inversion H1. subst c'. cbn [anc_at]. rewrite F. exact H2.
    + destruct (b_height b <? h') eqn:E2; [discriminate|].
      destruct (b_parent b =? -1) eqn:E3; [discriminate|].
      apply Z.eqb_neq in E1. apply Z.ltb_ge in E2.
      assert (X1 : (b_height b =? he) = false) by (apply Z.eqb_neq; lia).
      assert (X2 : (b_height b <? he) = false) by (apply Z.ltb_ge; lia).
      rewrite X1, X2 in H2.
      apply (anc_at_fuel_mono tr he f (S f)); [|lia]. eapply IH; eauto.
Qed.

Lemma is_anc_via tr e c c' he h' :
  is_anc_or_eq tr e c -> height_of tr e = Some he -> ancestor_at tr c h' = Some c' -> he <= h' ->
  is_anc_or_eq tr e c'.
Proof.
  intros [ha [E1 A]] He Hc L. rewrite He in E1. inversion E1. subst ha.
  exists he. split; [exact He|]. unfold ancestor_at in *. eapply anc_at_via; eauto.
Qed.

(** monotone along the chain: an ATV accepted in block [c] is accepted, with the same result, in EVERY block of
    [c]'s own chain from the endorsed block's height upwards (the block at height [h'] of the chain of [c]) ... *)
Lemma atv_accept_monotone_below W P c K t K' he hc h' c' :
  exec_atv W P c K t = inl K' ->
  height_of (alts W) (t_endorsed t) = Some he -> height_of (alts W) c = Some hc ->
  he <= h' -> h' <= hc -> ancestor_at (alts W) c h' = Some c' ->
  exec_atv W P c' K t = inl K'.
Proof.
  intros H He Hh L1 L2 Hc'. pose proof H as H0.
  apply exec_atv_iff in H0. destruct H0 as [(_ & _ & _ & A & [a [b [Ea [Eb Lw]]]]) _].
  rewrite Hh in Ea. rewrite He in Eb. inversion Ea. inversion Eb. subst a b.
  eapply (atv_accept_transfers W P c c' K t K' he h'); eauto.
  - eapply is_anc_via; eauto.
  - unfold ancestor_at in Hc'. eapply anc_at_height. exact Hc'.
  - lia.
Qed.

(** ... and in every descendant [d] of [c] (any block that has [c], hence the endorsed block, on its chain; the
    premise names the endorsed block directly) up to height endorsed + settle: [atv_accept_transfers]. *)

(** chains: appending a block to a valid chain *)
Lemma chain_valid_app W P : forall pre s post,
  chain_valid W P s (pre ++ post) <-> chain_valid W P s pre /\ chain_valid W P (after_chain s pre) post.
Proof.
  induction pre as [|[c b] r IH]; intros s post; cbn [app chain_valid after_chain]; [tauto|].
  rewrite IH. tauto.
Qed.

Lemma after_chain_app : forall pre s post, after_chain s (pre ++ post) = after_chain (after_chain s pre) post.
Proof. induction pre as [|[c b] r IH]; intros s post; cbn [app after_chain]; [reflexivity | apply IH]. Qed.

(** an honest endorsement of [e] is accepted at the end of ANY valid chain [pre] of bodies (the active chain or any
    fork, whatever payloads it carries) in ANY block [c] that has [e] on its chain within the window, provided its
    block of proof connects there and its id is not yet on that chain *)
Lemma honest_atv_any_fork W P s0 pre c id e bop :
  let s := after_chain s0 pre in
  let b := mkBody [] [] [honest_atv W (p_ki P) id e bop] in
  chain_valid W P s0 pre ->
  alt_known W e = true -> is_anc_or_eq (alts W) e c -> within (alts W) c e (p_settle P) ->
  vbk_connects W (vknown s) bop -> ~ In (2, id) (seen s) ->
  apply_chain W P s0 (pre ++ [(c, b)]) = VOk (after_block s b).
Proof.
  intros s b Hp Hk Ha Hw Hc Hd.
  assert (V : chain_valid W P s0 (pre ++ [(c, b)])).
  { apply chain_valid_app. split; [exact Hp|]. cbn [chain_valid]. split; [|exact I]. fold s.
    unfold ctx_valid, b. cbn [bd_ctx bd_vtbs bd_atvs known_after ctx_connects vtbs_valid atvs_valid].
    split; [|split; [exact I|split; [exact I|split; [|exact I]]]].
    - intros i Hi. unfold body_ids in Hi. cbn [bd_ctx bd_vtbs bd_atvs map app] in Hi.
      destruct Hi as [Hi|[]]. subst i.
      destruct (honest_atv_fields W (p_ki P) id e bop) as [_ [_ E3]]. rewrite E3. exact Hd.
    - now apply honest_satisfies_ctx_valid. }
  rewrite (valid_chain_never_refused W P s0 _ V). rewrite after_chain_app. reflexivity.
Qed.

(** the same endorsement on two forks at once: two valid chains and two containing blocks, each within the window
    of [e]; neither acceptance depends on the other fork *)
Lemma honest_atv_two_forks W P pre1 pre2 c1 c2 id e bop :
  let b := mkBody [] [] [honest_atv W (p_ki P) id e bop] in
  alt_known W e = true ->
  (forall pre c, In (pre, c) [(pre1, c1); (pre2, c2)] ->
     chain_valid W P st0 pre /\ is_anc_or_eq (alts W) e c /\ within (alts W) c e (p_settle P)
     /\ vbk_connects W (vknown (after_chain st0 pre)) bop /\ ~ In (2, id) (seen (after_chain st0 pre))) ->
  apply_chain W P st0 (pre1 ++ [(c1, b)]) = VOk (after_block (after_chain st0 pre1) b)
  /\ apply_chain W P st0 (pre2 ++ [(c2, b)]) = VOk (after_block (after_chain st0 pre2) b).
Proof.
  intros b Hk H. split.
  - destruct (H pre1 c1) as (A & B & C & D & E); [now left|]. now apply honest_atv_any_fork.
  - destruct (H pre2 c2) as (A & B & C & D & E); [right; now left|]. now apply honest_atv_any_fork.
Qed.

(** * non-vacuity on hxW (ALT chain 0..6 and the fork 7-8-9 off block 2, settlement interval 3) *)
(* the endorsement of block 2 (block of proof VBK 1) is accepted in blocks 3, 4, 5 of the main chain and in blocks
   7, 8, 9 of the fork — every height 3..5 = 2 + settle — and refused as expired in block 6 *)
Definition hx_t : Atv := honest_atv hxW (p_ki hxP) 31 2 1.
Example hx_fork_accept :
  forallb (fun c => match exec_atv hxW hxP c [0] hx_t with inl K => mem 1 K | inr _ => false end) [2; 3; 4; 5; 7; 8; 9] = true
  /\ exec_atv hxW hxP 6 [0] hx_t = inr EExpired.
Proof. split; vm_compute; reflexivity. Qed.

Example hx_any_fork_premises :
  chain_valid hxW hxP st0 [(1, mkBody [] [] []); (2, mkBody [1] [] []); (7, mkBody [] [] []); (8, mkBody [] [] [])]
  /\ alt_known hxW 2 = true /\ is_anc_or_eq (alts hxW) 2 9 /\ within (alts hxW) 9 2 (p_settle hxP).
Proof.
  split; [|split; [|split]].
  - eapply apply_chain_ok_iff. vm_compute. split; reflexivity.
  - vm_compute. reflexivity.
  - exists 2. vm_compute. auto.
  - exists 5, 2. vm_compute. repeat split; discriminate.
Qed.
