Require Extraction.
Require Import ExtrOcamlBasic.
From Coq Require Import ZArith NArith List.
From VB Require Import Store.SaveLoadDefs Store.ReloadObsDefs.
Extraction "StoreObs_model.ml" Nat.pred N.succ Z.succ
  run step save load init storage0 prims_fixed dirty_ids status_word full_dump lookup
  obs_state load_obs obs_ids.
