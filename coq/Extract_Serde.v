Require Extraction.
Require Import ExtrOcamlBasic.
From Coq Require Import ZArith NArith List.
From VB Require Import Serde.StreamDefs Serde.EntityDefs Serde.StoredDefs.
Extraction "Serde_model.ml" Nat.pred N.succ Z.succ
  b2z z2b len enc dec wfd fits esize U8 I16 U16 I32 U32 I64 U64
  read_slice read_be read_le read_sbl read_single_be read_var_len read_count write_single_be trimmed_array
  c_be c_le c_sbl c_var_len c_single_be64 c_single_fixed_be c_count c_network_byte
  c_address c_coin c_output c_btctx c_btcblock c_btcblock_raw c_vbkblock c_vbkblock_raw
  c_vbk_endorsement c_alt_endorsement c_stored_btc c_stored_vbk c_stored_alt
  c_altblock c_keystones c_ctxinfo c_authctx
  c_merklepath c_vbkmerklepath c_pubdata c_vbktx c_vbkpoptx c_atv c_vtb c_popdata.
