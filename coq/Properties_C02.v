(** C02 — setState / comparePopScore are atomic. Theorems about the closed, instantiated machine
    (Pop/SmDefs.v: as-coded model of CommandGroup / PopStateMachine / comparator / AltBlockTree::setState,
    comparePopScore; concrete reference-count protecting state; every assert of the code is an explicit Abort).
    Each theorem is [exact] of a lemma of Pop/Sm*.v.

    [quiet s] = tree well formed, tip applied, appliedBlockCount = length of root..tip. Every state reachable by ANY
    history of connectBlock / setState / comparePopScore (any scorer) is quiet, and in a quiet state EXACTLY the blocks
    root..tip are flagged applied (C02_reachable_quiet; counting argument over the as-coded counter).

    PROVED, for all trees / payload assignments / failing positions (n,k) / scorers / histories - no _partial left:
      * CommandGroup::execute and applyBlock are atomic (exact equality of P), unExecute / unapplyBlock exact inverses;
      * never an assert: C02_setState_never_aborts, C02_compare_never_aborts, C02_connect_never_aborts - from every
        reachable state, for every known target / candidate (valid, failing at any position - next to the active chain
        or alone -, already invalid, ahead, behind, on a fork, unknown) the call returns a verdict, never Abort;
      * C02_setState_atomic: true => target is tip, exactly root..target applied; false => tip, counter and the
        applied flag of EVERY block unchanged; C02_setState_failure_unchanged: and P unchanged as a multiset;
      * C02_compare_atomic: result >= 0 => tip, counter, applied flags of every block and P (multiset) unchanged;
        result < 0 => the candidate is the tip and exactly root..candidate is applied;
      * C02_setState_marks / C02_compare_marks: nothing but validity marks changes, and only on the target / candidate
        branch (levels raised only on ancestors-or-self of the target, FAILED_POP only there, FAILED_CHILD only on
        proper descendants of a block of the branch that got FAILED_POP; nothing cleared or lowered);
      * C02_compare_canonical / C01: P = bootstrap + effects of the applied blocks after every call.
    Outside the model: the real VBK/BTC trees below the command interface (abstracted to the reference-count
    machine), finalization, altchain invalidate/revalidate; exercised on the implementation by the direct oracle. *)
From Coq Require Import List ZArith NArith Bool Permutation.
From VB Require Import Pop.SmDefs Pop.SmProofs Pop.SmWf Pop.SmCmp Pop.SmAll Pop.SmMarks Pop.SmAbort Pop.SmCmpTotal Pop.SmRefs.
Import ListNotations.
Local Open Scope Z_scope.

Theorem C02_group_exec_atomic :
  forall g p p', group_execute pstate ccmd cexec cunexec g p = (p', false) -> p' = p.
Proof. exact c_group_exec_atomic. Qed.
Print Assumptions C02_group_exec_atomic.

Theorem C02_group_unexecute_inverse :
  forall g p p', group_execute pstate ccmd cexec cunexec g p = (p', true) -> group_unexecute pstate ccmd cunexec g p' = p.
Proof. exact c_group_unexec_exec. Qed.
Print Assumptions C02_group_unexecute_inverse.

Theorem C02_applyBlock_atomic :
  forall s i s', c_applyBlock s i = Ok (s', false) ->
    pst _ _ s' = pst _ _ s /\ napp _ _ s' = napp _ _ s /\ tip _ _ s' = tip _ _ s /\ root _ _ s' = root _ _ s /\
    map (strip ccmd) (blocks _ _ s') = map (strip ccmd) (blocks _ _ s).
Proof. exact c_applyBlock_atomic. Qed.
Print Assumptions C02_applyBlock_atomic.

Theorem C02_unapply_apply_exact :
  forall s i s1 s2, c_applyBlock s i = Ok (s1, true) -> c_unapplyBlock s1 i = Ok s2 ->
    pst _ _ s2 = pst _ _ s /\ napp _ _ s2 = napp _ _ s /\ tip _ _ s2 = tip _ _ s.
Proof. exact c_unapply_apply. Qed.
Print Assumptions C02_unapply_apply_exact.

Theorem C02_reachable_quiet :
  forall base s, reachable base s -> quiet s /\ forall j, is_act (cores s) j <-> In j (chain s).
Proof. exact reachable_quiet. Qed.
Print Assumptions C02_reachable_quiet.

Theorem C02_setState_outcome :
  forall base s to s' ok,
    canon base s -> c_setState s to = Ok (s', ok) ->
    Permutation (pst _ _ s') (active_items (blocks _ _ s') ++ base) /\
    (ok = true -> tip _ _ s' = to /\ napp _ _ s' = chain_count _ _ s' to /\
                  exists b, find ccmd (blocks _ _ s') to = Some b /\ valid_upto _ b L_FULL = true) /\
    (ok = false -> tip _ _ s' = tip _ _ s /\ napp _ _ s' = chain_count _ _ s' (tip _ _ s') /\
                   exists b, find ccmd (blocks _ _ s') to = Some b /\ is_failed _ b = true).
Proof. exact setState_outcome. Qed.
Print Assumptions C02_setState_outcome.

Theorem C02_setState_atomic :
  forall s to s' ok, quiet s -> c_setState s to = Ok (s', ok) ->
    quiet s' /\
    (forall j, is_act (cores s') j <-> In j (chain s')) /\
    (ok = true -> tip _ _ s' = to) /\
    (ok = false -> tip _ _ s' = tip _ _ s /\ napp _ _ s' = napp _ _ s /\
                   forall j, is_act (cores s') j <-> is_act (cores s) j).
Proof. exact setState_applied_exactly. Qed.
Print Assumptions C02_setState_atomic.

Theorem C02_setState_failure_unchanged :
  forall base s to s', quiet s -> canon base s -> c_setState s to = Ok (s', false) ->
    cores s' = cores s /\ Permutation (pst _ _ s') (pst _ _ s).
Proof. exact setState_failure_P_unchanged. Qed.
Print Assumptions C02_setState_failure_unchanged.

Theorem C02_compare_atomic :
  forall base sc cr s c s' r,
    quiet s -> canon base s -> c_compare sc cr s c = Ok (s', r) ->
    quiet s' /\ (forall j, is_act (cores s') j <-> In j (chain s')) /\
    (0 <= r -> tip _ _ s' = tip _ _ s /\ napp _ _ s' = napp _ _ s /\ cores s' = cores s /\
               Permutation (pst _ _ s') (pst _ _ s)) /\
    (r < 0 -> c = Some (tip _ _ s')).
Proof. exact compare_atomic. Qed.
Print Assumptions C02_compare_atomic.

Theorem C02_compare_canonical :
  forall base score crossed s c s' r,
    canon base s -> c_compare score crossed s c = Ok (s', r) -> canon base s'.
Proof. exact canon_compare. Qed.
Print Assumptions C02_compare_canonical.

Theorem C02_setState_marks :
  forall base s to s' ok, reachable base s -> c_setState s to = Ok (s', ok) -> md (branch s to) s s'.
Proof. exact setState_marks. Qed.
Print Assumptions C02_setState_marks.

Theorem C02_compare_marks :
  forall base sc cr s c s' r, reachable base s -> c_compare sc cr s (Some c) = Ok (s', r) -> md (branch s c) s s'.
Proof. exact compare_marks. Qed.
Print Assumptions C02_compare_marks.

Theorem C02_setState_never_aborts :
  forall base s to bto,
    reachable base s -> find ccmd (blocks _ _ s) to = Some bto -> exists s' ok, c_setState s to = Ok (s', ok).
Proof. exact setState_total. Qed.
Print Assumptions C02_setState_never_aborts.

Theorem C02_compare_never_aborts :
  forall base sc cr s cand,
    reachable base s -> (forall c, cand = Some c -> exists bc, find ccmd (blocks _ _ s) c = Some bc) ->
    exists s' r, c_compare sc cr s cand = Ok (s', r).
Proof. exact compare_total. Qed.
Print Assumptions C02_compare_never_aborts.

Theorem C02_connect_never_aborts :
  forall s i par pb dup gs,
    find ccmd (blocks _ _ s) par = Some pb -> find ccmd (blocks _ _ s) i = None -> exists s', c_connect s i par dup gs = Ok s'.
Proof. exact connect_total. Qed.
Print Assumptions C02_connect_never_aborts.

(** The reference list of one BTC block (heights of the VBK blocks whose applied VTBs reference it): any interleaving of
    AddBtcBlock executes and - not necessarily LIFO - un-executes leaves exactly the multiset of the still applied
    commands; "erase the last entry <= h" does not (Pop/SmRefs.v). *)
Theorem C02_btc_refs_are_applied_multiset : forall ops k, wf ops [] -> cnt k (run ops []) = bal k ops.
Proof. exact refs_are_applied_multiset. Qed.
Print Assumptions C02_btc_refs_are_applied_multiset.

Theorem C02_btc_refs_remove_last_le_refuted :
  let ops := [Add 9; Add 3; Rel 9] in
  wf ops [] /\ run ops [] = [3] /\ cnt 3 (run ops []) = bal 3 ops /\
  rem_last_le 9 [9; 3] = [9] /\ cnt 3 (rem_last_le 9 [9; 3]) <> bal 3 ops /\
  rem_last_le 3 [9; 3] = rem_eq 3 [9; 3].
Proof. exact remove_last_le_refuted. Qed.
Print Assumptions C02_btc_refs_remove_last_le_refuted.
