(** C02 — setState / comparePopScore are atomic. Theorems about the closed, instantiated machine
    (Pop/SmDefs.v: as-coded model; concrete reference-count protecting state). Each is [exact] of a lemma of
    Pop/SmProofs.v.

    FULL statements aimed at (kept visible; the parts not proved are named):
      setState_atomic : setState s to = Ok (s', true)  -> tip s' = to /\ applied blocks of s' = root..to /\ to fully valid
                        setState s to = Ok (s', false) -> pst s' = pst s /\ applied set unchanged /\ marks changed only on
                        the target branch (FAILED_POP on the first failing block, FAILED_CHILD below it, raised levels)
      compare_atomic  : result >= 0 -> tip and P unchanged modulo candidate-branch marks; < 0 -> candidate is tip,
                        exactly root..candidate applied;   never Abort from reachable states.
    PROVED for all trees / payloads / failing positions / histories: group and block atomicity (exact), exact inverse of
    apply/unapply, and for setState / compare: P is always exactly the effects of the blocks flagged applied (nothing
    leaks, whatever fails where), true => target is tip, fully valid, counter = chain length; false => tip unchanged,
    counter = chain length, target invalid.
    GAP (hence _partial): that the set of blocks flagged applied is root..tip after the call (the walk over parent
    pointers) and Abort-freedom; both are covered by the correspondence run (flags, counter and P compared after
    every call) and the direct oracle. *)
From Coq Require Import List ZArith NArith Bool Permutation.
From VB Require Import Pop.SmDefs Pop.SmProofs.

Theorem C02_group_exec_atomic :
  forall g p p', group_execute pstate ccmd cexec cunexec g p = (p', false) -> p' = p.
Proof. exact c_group_exec_atomic. Qed.
Print Assumptions C02_group_exec_atomic.

Theorem C02_group_unexecute_inverse :
  forall g p p', group_execute pstate ccmd cexec cunexec g p = (p', true) -> group_unexecute pstate ccmd cunexec g p' = p.
Proof. exact c_group_unexec_exec. Qed.
Print Assumptions C02_group_unexecute_inverse.

Theorem C02_applyBlock_atomic :
  forall s i s', c_applyBlock s i = Ok (s', false) ->
    pst _ _ s' = pst _ _ s /\ napp _ _ s' = napp _ _ s /\ tip _ _ s' = tip _ _ s /\ root _ _ s' = root _ _ s /\
    map (strip ccmd) (blocks _ _ s') = map (strip ccmd) (blocks _ _ s).
Proof. exact c_applyBlock_atomic. Qed.
Print Assumptions C02_applyBlock_atomic.

Theorem C02_unapply_apply_exact :
  forall s i s1 s2, c_applyBlock s i = Ok (s1, true) -> c_unapplyBlock s1 i = Ok s2 ->
    pst _ _ s2 = pst _ _ s /\ napp _ _ s2 = napp _ _ s /\ tip _ _ s2 = tip _ _ s.
Proof. exact c_unapply_apply. Qed.
Print Assumptions C02_unapply_apply_exact.

Theorem C02_setState_atomic_partial :
  forall base s to s' ok,
    canon base s -> c_setState s to = Ok (s', ok) ->
    Permutation (pst _ _ s') (active_items (blocks _ _ s') ++ base) /\
    (ok = true -> tip _ _ s' = to /\ napp _ _ s' = chain_count _ _ s' to /\
                  exists b, find ccmd (blocks _ _ s') to = Some b /\ valid_upto _ b L_FULL = true) /\
    (ok = false -> tip _ _ s' = tip _ _ s /\ napp _ _ s' = chain_count _ _ s' (tip _ _ s') /\
                   exists b, find ccmd (blocks _ _ s') to = Some b /\ is_failed _ b = true).
Proof. exact setState_outcome. Qed.
Print Assumptions C02_setState_atomic_partial.

Theorem C02_compare_atomic_partial :
  forall base score crossed s c s' r,
    canon base s -> c_compare score crossed s c = Ok (s', r) -> canon base s'.
Proof. exact canon_compare. Qed.
Print Assumptions C02_compare_atomic_partial.
