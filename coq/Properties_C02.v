(** C02 — setState / comparePopScore are atomic. Theorems about the closed, instantiated machine
    (Pop/SmDefs.v: as-coded model; concrete reference-count protecting state). Each is [exact] of a lemma of
    Pop/SmProofs.v / Pop/SmWf.v.

    PROVED, for all trees / payload assignments / failing positions (n,k):
      * CommandGroup::execute and applyBlock are atomic (exact equality of P), unExecute / unapplyBlock are exact inverses;
      * C02_setState_atomic: from every state reachable by connectBlock / setState histories ([quiet]: tree well formed,
        tip applied, counter = length of root..tip) setState returns to such a state; on success the target is the tip and
        EXACTLY the blocks root..target are flagged applied; on failure tip, counter and the applied flags of ALL blocks
        are exactly what they were (C02_setState_failure_unchanged: and P is unchanged as a multiset);
      * after setState / comparePopScore with ANY outcome, from any reachable state, P is exactly the bootstrap state plus
        the effects of the blocks flagged applied (nothing leaks).
    GAPS (hence the two _partial theorems, full statements kept here):
      setState_atomic also claims: marks change only on the target branch (proved for applyBlock, not lifted to the walk)
        and no assert (Abort) is reachable;
      compare_atomic : result >= 0 -> tip, P, applied set unchanged modulo candidate-branch marks; < 0 -> candidate is
        tip, exactly root..candidate applied. Proved for compare: P canonical (C02_compare_atomic_partial); not proved:
        that the applied flags are root..tip afterwards (the quiet invariant through the apply-both / unapplyWhile /
        re-apply dance). Covered by the direct oracle and the correspondence run. *)
From Coq Require Import List ZArith NArith Bool Permutation.
From VB Require Import Pop.SmDefs Pop.SmProofs Pop.SmWf.

Theorem C02_group_exec_atomic :
  forall g p p', group_execute pstate ccmd cexec cunexec g p = (p', false) -> p' = p.
Proof. exact c_group_exec_atomic. Qed.
Print Assumptions C02_group_exec_atomic.

Theorem C02_group_unexecute_inverse :
  forall g p p', group_execute pstate ccmd cexec cunexec g p = (p', true) -> group_unexecute pstate ccmd cunexec g p' = p.
Proof. exact c_group_unexec_exec. Qed.
Print Assumptions C02_group_unexecute_inverse.

Theorem C02_applyBlock_atomic :
  forall s i s', c_applyBlock s i = Ok (s', false) ->
    pst _ _ s' = pst _ _ s /\ napp _ _ s' = napp _ _ s /\ tip _ _ s' = tip _ _ s /\ root _ _ s' = root _ _ s /\
    map (strip ccmd) (blocks _ _ s') = map (strip ccmd) (blocks _ _ s).
Proof. exact c_applyBlock_atomic. Qed.
Print Assumptions C02_applyBlock_atomic.

Theorem C02_unapply_apply_exact :
  forall s i s1 s2, c_applyBlock s i = Ok (s1, true) -> c_unapplyBlock s1 i = Ok s2 ->
    pst _ _ s2 = pst _ _ s /\ napp _ _ s2 = napp _ _ s /\ tip _ _ s2 = tip _ _ s.
Proof. exact c_unapply_apply. Qed.
Print Assumptions C02_unapply_apply_exact.

Theorem C02_setState_atomic_partial :
  forall base s to s' ok,
    canon base s -> c_setState s to = Ok (s', ok) ->
    Permutation (pst _ _ s') (active_items (blocks _ _ s') ++ base) /\
    (ok = true -> tip _ _ s' = to /\ napp _ _ s' = chain_count _ _ s' to /\
                  exists b, find ccmd (blocks _ _ s') to = Some b /\ valid_upto _ b L_FULL = true) /\
    (ok = false -> tip _ _ s' = tip _ _ s /\ napp _ _ s' = chain_count _ _ s' (tip _ _ s') /\
                   exists b, find ccmd (blocks _ _ s') to = Some b /\ is_failed _ b = true).
Proof. exact setState_outcome. Qed.
Print Assumptions C02_setState_atomic_partial.

Theorem C02_compare_atomic_partial :
  forall base score crossed s c s' r,
    canon base s -> c_compare score crossed s c = Ok (s', r) -> canon base s'.
Proof. exact canon_compare. Qed.
Print Assumptions C02_compare_atomic_partial.

Theorem C02_quiet_reachable :
  forall base r h ops s, no_compare ops -> run (c_init r h base) ops = Ok s ->
    quiet s /\ forall j, is_act (cores s) j <-> In j (chain s).
Proof. exact applied_exactly_run. Qed.
Print Assumptions C02_quiet_reachable.

Theorem C02_setState_atomic :
  forall s to s' ok, quiet s -> c_setState s to = Ok (s', ok) ->
    quiet s' /\
    (forall j, is_act (cores s') j <-> In j (chain s')) /\
    (ok = true -> tip _ _ s' = to) /\
    (ok = false -> tip _ _ s' = tip _ _ s /\ napp _ _ s' = napp _ _ s /\
                   forall j, is_act (cores s') j <-> is_act (cores s) j).
Proof. exact setState_applied_exactly. Qed.
Print Assumptions C02_setState_atomic.

Theorem C02_setState_failure_unchanged :
  forall base s to s', quiet s -> canon base s -> c_setState s to = Ok (s', false) ->
    cores s' = cores s /\ Permutation (pst _ _ s') (pst _ _ s).
Proof. exact setState_failure_P_unchanged. Qed.
Print Assumptions C02_setState_failure_unchanged.
