(** C02 — placeholder until Pop/SmProofs.v lands (replaced below in the same session) *)
Theorem C02_placeholder : True.
Proof. exact I. Qed.
Print Assumptions C02_placeholder.
