(** Tree/TreeTips — the tips conjunct of Inv_tree: tips_ = { b | canBeATip b and no child canBeATip },
    generic lemmas for operations that make blocks unusable (invalidateSubtree, removeSubtree) and for single
    blocks that become usable (tryAddTip after a status change). *)
From Coq Require Import ZArith NArith List Bool Lia.
From VB Require Import Tree.TreeDefs Tree.TreeInv Tree.TreePass Tree.TreeProofs Tree.TreeExact.
Import ListNotations.

(* canBeATip of the block stored under q *)
Definition cbt (k : kind) (l : list blk) (q : N) : bool :=
  match find_blk q l with Some x => can_be_tip k (bst x) | None => false end.
(* isValidTip of the block stored under q *)
Definition spec (k : kind) (l : list blk) (q : N) : bool :=
  match find_blk q l with Some x => is_valid_tip k l q (bst x) | None => false end.
Definition tips_ok (k : kind) (l : list blk) (tps : list N) : Prop := forall q, memN q tps = spec k l q.

(* ------------------------------------------------------------------ sets of ids *)
Lemma memN_set_add q a t : memN q (set_add a t) = (q =? a)%N || memN q t.
Proof.
  unfold set_add. destruct (memN a t) eqn:M; [|reflexivity].
  destruct (N.eqb_spec q a) as [->|E]; simpl; auto.
Qed.
Lemma memN_filter q f t : memN q (filter f t) = memN q t && f q.
Proof.
  induction t as [|a r IH]; simpl; auto.
  destruct (f a) eqn:Fa; simpl; rewrite IH.
  - destruct (N.eqb_spec q a) as [->|E]; simpl; [rewrite Fa; reflexivity|reflexivity].
  - destruct (N.eqb_spec q a) as [->|E]; simpl; [rewrite Fa, andb_false_r; reflexivity|reflexivity].
Qed.
Lemma memN_set_remove q a t : memN q (set_remove a t) = memN q t && negb (a =? q)%N.
Proof. unfold set_remove. apply memN_filter. Qed.

(* ------------------------------------------------------------------ children *)
Lemma children_In l q c : In c (children l q) <-> In c l /\ bparent c = Some q.
Proof.
  unfold children. rewrite filter_In. unfold is_child_of. split; intros [H1 H2]; split; auto.
  - destruct (bparent c) as [p|]; [|discriminate]. apply N.eqb_eq in H2. congruence.
  - rewrite H2. apply N.eqb_refl.
Qed.

(* "no child can be a tip" in terms of ids *)
Lemma nochild_spec k l q : wf l ->
  forallb (fun c => negb (can_be_tip k (bst c))) (children l q) = true <->
  (forall c x, find_blk c l = Some x -> bparent x = Some q -> can_be_tip k (bst x) = false).
Proof.
  intros W. rewrite forallb_forall. split.
  - intros H c x F P. specialize (H x (proj2 (children_In l q x) (conj (find_blk_In _ _ _ F) P))).
    apply negb_true_iff in H. exact H.
  - intros H x Hx. apply children_In in Hx. destruct Hx as [Hi P].
    apply negb_true_iff. apply (H (bid x) x); auto. apply wf_In_find; auto.
Qed.

Lemma spec_true k l q : wf l -> spec k l q = true <->
  cbt k l q = true /\ (forall c x, find_blk c l = Some x -> bparent x = Some q -> can_be_tip k (bst x) = false).
Proof.
  intros W. unfold spec, cbt. destruct (find_blk q l) as [y|]; [|split; [discriminate|intros [? _]; discriminate]].
  unfold is_valid_tip. rewrite andb_true_iff, (nochild_spec k l q W). tauto.
Qed.

(* ------------------------------------------------------------------ the spec depends on canBeATip and the skeleton only *)
Lemma spec_ext k l l' : wf l -> same_skel l l' -> (forall p, cbt k l' p = cbt k l p) ->
  forall q, spec k l' q = spec k l q.
Proof.
  intros W SK C q. pose proof (same_skel_wf _ _ SK W) as W'.
  assert (G : forall a b, wf a -> wf b -> same_skel a b -> (forall p, cbt k b p = cbt k a p) ->
              spec k a q = true -> spec k b q = true).
  { intros a b Wa Wb S Cb H. apply (spec_true k a q Wa) in H. destruct H as [H1 H2].
    apply (spec_true k b q Wb). split; [rewrite Cb; exact H1|].
    intros c x F P. pose proof (same_skel_find _ _ S c) as SF. rewrite F in SF.
    destruct (find_blk c a) as [xa|] eqn:Fa; [|contradiction].
    assert (Pa : bparent xa = Some q) by (unfold skel in SF; congruence).
    pose proof (H2 c xa Fa Pa) as Ca. pose proof (Cb c) as E. unfold cbt in E. rewrite F, Fa in E. congruence. }
  destruct (spec k l q) eqn:S1, (spec k l' q) eqn:S2; auto.
  - rewrite (G l l' W W' SK C S1) in S2. discriminate.
  - rewrite (G l' l W' W (same_skel_sym _ _ SK) (fun p => eq_sym (C p)) S2) in S1. discriminate.
Qed.

Lemma tips_ok_ext k l l' tps : wf l -> same_skel l l' -> (forall p, cbt k l' p = cbt k l p) ->
  tips_ok k l tps -> tips_ok k l' tps.
Proof. intros W SK C T q. rewrite (spec_ext k l l' W SK C). apply T. Qed.

(* ------------------------------------------------------------------ blocks become unusable *)
(* D = the blocks that change; afterwards none of them can be a tip; every block of D hangs below D or below pp;
   the tips are the old ones outside D, plus tryAddTip(pp) *)
Lemma tips_worsen k l l' tps tps2 (D : N -> bool) pp :
  wf l -> same_skel l l' -> tips_ok k l tps ->
  (forall q, D q = false -> find_blk q l' = find_blk q l) ->
  (forall q, D q = true -> cbt k l' q = false) ->
  (forall q x p, find_blk q l = Some x -> D q = true -> bparent x = Some p -> D p = true \/ p = pp) ->
  D pp = false ->
  (forall q, memN q tps2 = memN q tps && negb (D q)) ->
  tips_ok k l' (try_add_tip k l' tps2 pp).
Proof.
  intros W SK T OUT IN BD DP T2 q. pose proof (same_skel_wf _ _ SK W) as W'.
  (* canBeATip only gets worse, and not at all outside D *)
  assert (Cout : forall p, D p = false -> cbt k l' p = cbt k l p) by (intros p Hp; unfold cbt; rewrite OUT; auto).
  (* the spec outside D and away from pp is unchanged *)
  assert (Sout : forall p, D p = false -> p <> pp -> spec k l' p = spec k l p).
  { intros p Hp Np.
    assert (G : forall a b, wf a -> wf b -> same_skel a b ->
              cbt k b p = cbt k a p ->
              (forall c x, find_blk c b = Some x -> bparent x = Some p -> D c = false) ->
              (forall c, D c = false -> cbt k b c = cbt k a c) ->
              spec k a p = true -> spec k b p = true).
    { intros a b Wa Wb S Cp ND Cb H. apply (spec_true k a p Wa) in H. destruct H as [H1 H2].
      apply (spec_true k b p Wb). split; [congruence|].
      intros c x F P. pose proof (same_skel_find _ _ S c) as SF. rewrite F in SF.
      destruct (find_blk c a) as [xa|] eqn:Fa; [|contradiction].
      assert (Pa : bparent xa = Some p) by (unfold skel in SF; congruence).
      pose proof (H2 c xa Fa Pa) as Ca. pose proof (Cb c (ND c x F P)) as E. unfold cbt in E. rewrite F, Fa in E. congruence. }
    (* children of p are outside D, in both lists *)
    assert (ND : forall c x, find_blk c l = Some x -> bparent x = Some p -> D c = false).
    { intros c x F P. destruct (D c) eqn:Dc; auto. destruct (BD c x p F Dc P) as [E|E]; congruence. }
    assert (ND' : forall c x, find_blk c l' = Some x -> bparent x = Some p -> D c = false).
    { intros c x F P. pose proof (same_skel_find _ _ SK c) as SF. rewrite F in SF.
      destruct (find_blk c l) as [xa|] eqn:Fa; [|contradiction].
      apply (ND c xa Fa). unfold skel in SF. congruence. }
    destruct (spec k l p) eqn:S1, (spec k l' p) eqn:S2; auto.
    - rewrite (G l l' W W' SK (Cout p Hp) ND' Cout S1) in S2. discriminate.
    - rewrite (G l' l W' W (same_skel_sym _ _ SK) (eq_sym (Cout p Hp)) ND (fun c Hc => eq_sym (Cout c Hc)) S2) in S1.
      discriminate. }
  (* inside D nothing is a tip *)
  assert (Sin : forall p, D p = true -> spec k l' p = false).
  { intros p Hp. destruct (spec k l' p) eqn:S; auto. apply (spec_true k l' p W') in S. rewrite (IN p Hp) in S. destruct S; discriminate. }
  (* pp: a tip before stays a valid tip *)
  assert (Spp : spec k l pp = true -> spec k l' pp = true).
  { intros H. apply (spec_true k l pp W) in H. destruct H as [H1 H2]. apply (spec_true k l' pp W'). split.
    - rewrite Cout; auto.
    - intros c x F P. destruct (D c) eqn:Dc.
      + pose proof (IN c Dc) as E. unfold cbt in E. rewrite F in E. exact E.
      + pose proof (OUT c Dc) as E. rewrite F in E. symmetry in E. exact (H2 c x E P). }
  unfold try_add_tip.
  destruct (find_blk pp l') as [xp|] eqn:Fp.
  - assert (SP : spec k l' pp = is_valid_tip k l' pp (bst xp)) by (unfold spec; rewrite Fp; reflexivity).
    destruct (is_valid_tip k l' pp (bst xp)) eqn:VT.
    + rewrite memN_set_add.
      destruct (N.eqb_spec q pp) as [->|Nq]; [simpl; congruence|]. simpl.
      assert (R : memN q (match bparent xp with Some g => set_remove g tps2 | None => tps2 end) = memN q tps2 \/
                  (bparent xp = Some q /\ memN q (match bparent xp with Some g => set_remove g tps2 | None => tps2 end) = false)).
      { destruct (bparent xp) as [g|] eqn:G; auto. rewrite memN_set_remove.
        destruct (N.eqb_spec g q) as [->|Ng]; [right; split; auto; apply andb_false_r|left; apply andb_true_r]. }
      destruct R as [R|[G R]]; rewrite R.
      * rewrite T2, T. destruct (D q) eqn:Dq; [rewrite andb_false_r; symmetry; auto|rewrite andb_true_r; symmetry; apply Sout; auto].
      * (* q is the parent of pp, and pp can be a tip: q is no valid tip *)
        symmetry. destruct (spec k l' q) eqn:S; auto. apply (spec_true k l' q W') in S. destruct S as [_ S].
        pose proof (S pp xp Fp G) as E. unfold is_valid_tip in VT. rewrite E in VT. discriminate.
    + destruct (N.eqb_spec q pp) as [->|Nq].
      * rewrite T2, DP, andb_true_r, T, SP. destruct (spec k l pp) eqn:S; auto. rewrite (Spp eq_refl) in SP. congruence.
      * rewrite T2, T. destruct (D q) eqn:Dq; [rewrite andb_false_r; symmetry; auto|rewrite andb_true_r; symmetry; apply Sout; auto].
  - (* pp is not a block: nothing to add *)
    rewrite T2, T. destruct (D q) eqn:Dq; [rewrite andb_false_r; symmetry; auto|rewrite andb_true_r; symmetry].
    destruct (N.eq_dec q pp) as [->|Nq]; [|apply Sout; auto].
    unfold spec. rewrite Fp. rewrite <- (OUT pp DP), Fp. reflexivity.
Qed.
