(** Tree/TreeTipsAlt — the tips conjunct for the remaining ALT operations: acceptBlockHeader, acceptBlock
    (connection of the block and of its descendants), removePayloads; and the step theorem for the ALT tree. *)
From Coq Require Import ZArith NArith List Bool Lia.
From VB Require Import Tree.TreeDefs Tree.TreeInv Tree.TreePass Tree.TreeProofs Tree.TreeExact Tree.TreeRestore Tree.TreeMono
  Tree.TreeSteps Tree.TreeTips Tree.TreeTipsOps Tree.TreeTipsUp.
Import ListNotations.

Lemma try_add_tip_noop k l tps id : cbt k l id = false -> try_add_tip k l tps id = tps.
Proof.
  unfold try_add_tip, cbt. destruct (find_blk id l) as [x|]; auto. intros H.
  unfold is_valid_tip. rewrite H. reflexivity.
Qed.

(* a new block that cannot be a tip *)
Lemma tips_ok_cons k l x tps : wf (x :: l) -> can_be_tip k (bst x) = false -> tips_ok k l tps -> tips_ok k (x :: l) tps.
Proof.
  intros W C T q. pose proof W as (Wl & Nx & _). rewrite T.
  assert (Cx : forall p, cbt k (x :: l) p = if (bid x =? p)%N then false else cbt k l p).
  { intros p. unfold cbt. simpl. destruct (bid x =? p)%N; auto. }
  destruct (spec k l q) eqn:S1, (spec k (x :: l) q) eqn:S2; auto.
  - exfalso. apply (spec_true k l q Wl) in S1. destruct S1 as [A B].
    assert (spec k (x :: l) q = true); [|congruence].
    apply (spec_true k (x :: l) q W). split.
    + rewrite Cx. destruct (N.eqb_spec (bid x) q) as [E|E]; auto. unfold cbt in A. rewrite <- E, Nx in A. discriminate.
    + intros c y Fc P. simpl in Fc. destruct (N.eqb_spec (bid x) c) as [E|E]; [inversion Fc; subst; exact C|eauto].
  - exfalso. apply (spec_true k (x :: l) q W) in S2. destruct S2 as [A B].
    assert (spec k l q = true); [|congruence].
    apply (spec_true k l q Wl). split.
    + rewrite Cx in A. destruct (bid x =? q)%N; [discriminate|exact A].
    + intros c y Fc P. apply (B c y); auto. simpl. destruct (N.eqb_spec (bid x) c) as [E|E]; auto.
      rewrite <- E, Nx in Fc. discriminate.
Qed.

Lemma can_be_tip_alt_level st : valid_upto L_CONNECTED st = false -> can_be_tip ALT st = false.
Proof. intros H. unfold can_be_tip, is_valid, tip_level. rewrite H. rewrite !andb_false_r. reflexivity. Qed.

Lemma raise_tree_level l x c b : raise_validity l x L_TREE = Done (c, b) -> (level (bst x) <= 1)%N -> (level c <= 1)%N.
Proof.
  unfold raise_validity. destruct (fpop (bst x)); [intros H; inversion H; subst; auto|].
  destruct (level (bst x) <? L_TREE)%N.
  - destruct (bparent x) as [p|].
    + destruct (st_of l p) as [ps|]; [|discriminate]. destruct (L_TREE <=? level ps)%N; [|discriminate].
      intros H; inversion H; subst; simpl. unfold L_TREE. lia.
    + intros H; inversion H; subst; simpl. unfold L_TREE. lia.
  - intros H; inversion H; subst; auto.
Qed.

Lemma low_level_not_tip st : (level st <= 1)%N -> can_be_tip ALT st = false.
Proof. intros H. apply can_be_tip_alt_level. unfold valid_upto, L_CONNECTED. apply N.leb_gt. lia. Qed.

(* ------------------------------------------------------------------ ALT acceptBlockHeader of a block that is not in the store *)
Theorem alt_hdr_fresh_tips_ok s id parent s' res : Inv_flags s -> tkind s = ALT -> tips_ok ALT (blocks s) (tips s) ->
  find_blk id (blocks s) = None ->
  alt_hdr s id parent = Done (s', res) -> tips_ok ALT (blocks s') (tips s') /\ tkind s' = ALT.
Proof.
  intros I K T Fx. pose proof I as [W H F L]. unfold alt_hdr. rewrite Fx.
  destruct (find_blk parent (blocks s)) as [p|] eqn:Fp; [|intros E; inversion E; subst; auto].
  destruct (deleted (bst p)); [intros E; inversion E; subst; auto|].
  intros E. bind_inv E.
  assert (HP : find_blk id (blocks s) = None -> find_blk parent (blocks s) <> None) by (intros _; rewrite Fp; discriminate).
  destruct (insert_header_inv s id parent 0 a I HP E0) as (I1 & K1 & _ & _).
  unfold insert_header in E0. rewrite Fx, Fp, K in E0. bind_inv E0. destruct a0 as [c b].
  inversion E0; subst a; clear E0. simpl in *.
  match goal with R : raise_validity _ ?x0 _ = Done _ |- _ => set (X0 := x0) in * end.
  assert (Lc : (level c <= 1)%N) by (eapply raise_tree_level; eauto; simpl; unfold L_UNKNOWN; lia).
  assert (Cc : can_be_tip ALT c = false) by (apply low_level_not_tip; auto).
  assert (TA : try_add_tip ALT (X0 :: blocks s) (tips s) id = tips s).
  { apply try_add_tip_noop. unfold cbt. simpl. rewrite N.eqb_refl. apply low_level_not_tip. simpl. unfold L_UNKNOWN. lia. }
  rewrite TA in *.
  assert (T1 : tips_ok ALT (with_st X0 c :: blocks s) (tips s)).
  { apply tips_ok_cons; auto. apply I1. }
  unfold st_of in E. simpl in E. rewrite N.eqb_refl in E. simpl in E.
  destruct (is_valid L_TREE c); inversion E; subst s'; simpl; split; auto.
  rewrite try_add_tip_noop; auto. unfold cbt. simpl. rewrite N.eqb_refl. exact Cc.
Qed.

(* ------------------------------------------------------------------ ALT acceptBlock *)
Lemma connect_pass_tips l0 target : wf l0 -> forall tps, tips_ok ALT l0 tps -> forall l pre l' tps' c,
  l0 = pre ++ l -> connect_pass l0 target l tps = Done (l', tps', c) ->
  tips_ok ALT (pre ++ l') tps' /\ same_skel l l'.
Proof.
  intros W0 tps T. induction l as [|x r IH]; intros pre l' tps' c E CP.
  - simpl in CP. inversion CP; subst l' tps' c. rewrite app_nil_r in *. subst pre. split; [exact T|reflexivity].
  - simpl in CP. bind_inv CP. destruct a as [[r' tps1] ct].
    assert (E' : l0 = (pre ++ [x]) ++ r) by (rewrite <- app_assoc; exact E).
    destruct (IH (pre ++ [x]) r' tps1 ct E' eq_refl) as (IT & IS). clear IH.
    rewrite <- app_assoc in IT. simpl in IT.
    set (lm := pre ++ x :: r') in *.
    assert (SKm : same_skel l0 lm).
    { rewrite E. apply same_skel_app. unfold same_skel in *. simpl. congruence. }
    pose proof (same_skel_wf _ _ SKm W0) as Wm.
    destruct ((bid x =? target)%N || (match bparent x with Some p => memN p ct | None => false end && haspl (bst x))).
    + bind_inv CP. destruct a as [x' tp2]. inversion CP; subst l' tps' c; clear CP. simpl.
      unfold connect_block in E1. repeat bind_inv E1.
      match goal with R : raise_validity _ _ _ = Done ?a |- _ => destruct a as [st' b1];
        destruct (raise_validity_fl _ _ _ _ _ R) as (RB & RP & RC & RLV & RDD) end.
      inversion E1; subst x' tp2; clear E1. simpl.
      (* the asserts of connectBlock *)
      unfold assert in *.
      destruct (negb (valid_upto L_CONNECTED (bst x))) eqn:NC; [|discriminate].
      destruct (forallb (fun c0 : blk => negb (valid_upto L_CONNECTED (bst c0))) (children l0 (bid x))) eqn:CHB; [|discriminate].
      apply negb_true_iff in NC.
      assert (CH0 : forall c0 y, find_blk c0 l0 = Some y -> bparent y = Some (bid x) -> can_be_tip ALT (bst y) = false).
      { intros c0 y Fc P. apply can_be_tip_alt_level. rewrite forallb_forall in CHB.
        specialize (CHB y (proj2 (children_In l0 (bid x) y) (conj (find_blk_In _ _ _ Fc) P))).
        apply negb_true_iff in CHB. exact CHB. }
      assert (CHm : forall c0 y, find_blk c0 lm = Some y -> bparent y = Some (bid x) -> can_be_tip ALT (bst y) = false).
      { intros c0 y Fc P. unfold lm in Fc. rewrite find_app in Fc.
        destruct (find_blk c0 pre) as [yc|] eqn:Fpre.
        - inversion Fc; subst yc. apply (CH0 c0 y); auto. rewrite E, find_app, Fpre. reflexivity.
        - exfalso. pose proof (wf_app_tail pre _ Wm) as Wt. simpl in Fc.
          destruct (N.eqb_spec (bid x) c0) as [Ec|Ec].
          + inversion Fc; subst y. eapply (wf_parent_ne _ Wt (bid x) x (bid x)); eauto. simpl. rewrite N.eqb_refl. reflexivity.
          + destruct Wt as (Wr' & Nx & _). apply (wf_parent_found r' Wr' c0 y (bid x) Fc P). exact Nx. }
      assert (VT : is_valid_tip ALT l0 (bid x) st' = can_be_tip ALT st').
      { unfold is_valid_tip. rewrite (proj2 (nochild_spec ALT l0 (bid x) W0) CH0). apply andb_true_r. }
      rewrite VT.
      assert (IMP : can_be_tip ALT (bst x) = true -> can_be_tip ALT st' = true).
      { intros Hc. rewrite (can_be_tip_alt_level _ NC) in Hc. discriminate. }
      pose proof (tips_improve ALT lm (bid x) x st' tps1 Wm (find_mid pre x r' Wm) IMP CHm IT) as TI.
      unfold lm in TI. rewrite (upd_mid pre x r' (fun _ => st') Wm) in TI.
      split; [exact TI|]. unfold same_skel in *. simpl. rewrite skel_with_st. congruence.
    + inversion CP; subst l' tps' c; clear CP. split; [exact IT|]. unfold same_skel in *. simpl. congruence.
Qed.

Theorem alt_body_tips_ok s id s' res : Inv_flags s -> tkind s = ALT -> tips_ok ALT (blocks s) (tips s) ->
  alt_body s id = Done (s', res) -> tips_ok ALT (blocks s') (tips s') /\ tkind s' = ALT.
Proof.
  intros I K T. pose proof I as [W _ _ _]. unfold alt_body.
  destruct (find_blk id (blocks s)) as [x|]; [|discriminate].
  destruct (deleted (bst x)); [discriminate|]. destruct (bparent x) as [p|]; [|discriminate].
  destruct (haspl (bst x)); [discriminate|]. destruct (negb (valid_upto L_TREE (bst x))); [discriminate|].
  intros E. bind_inv E.
  set (l1 := upd id (set_haspl true) (blocks s)) in *.
  assert (CB : cb_eq ALT (blocks s) l1) by (apply cbt_upd; intros y _; reflexivity).
  pose proof (tips_ok_cb _ _ _ _ W CB T) as T1.
  assert (W1 : wf l1) by (eapply same_skel_wf; [apply upd_skel|auto]).
  destruct (st_of l1 p); [|discriminate].
  destruct (negb (valid_upto L_CONNECTED s0)).
  - inversion E; subst; simpl. auto.
  - bind_inv E. destruct a0 as [[l2 tps] c]. inversion E; subst; simpl. split; auto.
    destruct (connect_pass_tips l1 id W1 (tips s) T1 l1 [] l2 tps c eq_refl E1) as (TT & _). exact TT.
Qed.

(* ------------------------------------------------------------------ ALT removePayloads *)
Theorem alt_rmpl_tips_ok s id s' : Inv_flags s -> tkind s = ALT -> tips_ok ALT (blocks s) (tips s) ->
  alt_rmpl s id = Done s' -> tips_ok ALT (blocks s') (tips s') /\ tkind s' = ALT.
Proof.
  intros I K T. pose proof I as [W _ _ _]. unfold alt_rmpl.
  destruct (find_blk id (blocks s)) as [x|] eqn:Fx; [|discriminate].
  destruct (deleted (bst x)); [discriminate|]. destruct (bparent x) as [p|] eqn:Px; [|discriminate].
  destruct (negb (haspl (bst x)) || active (bst x) ||
            negb (forallb (fun c => negb (valid_upto L_CONNECTED (bst c))) (children (blocks s) id))); [discriminate|].
  set (s1 := with_blocks s (upd id (set_haspl false) (blocks s))).
  assert (I1 : Inv_flags s1).
  { eapply inv_of_fl_eq_tree; [exact I|]. simpl. apply upd_fl_eq, keeps_set_haspl. }
  assert (T1 : tips_ok (tkind s1) (blocks s1) (tips s1)).
  { simpl. rewrite K. eapply tips_ok_cb; eauto. apply cbt_upd. intros y _. reflexivity. }
  assert (NR : forall x0, find_blk id (blocks s1) = Some x0 -> bparent x0 <> None).
  { simpl. intros x0 F0. rewrite find_upd, Fx in F0. simpl in F0. inversion F0; subst.
    destruct (bid x =? id)%N; simpl; congruence. }
  destruct (revalidate_core_tips_ok s1 id RPop I1 T1 NR) as [T2 K2].
  pose proof (revalidate_core_inv s1 id RPop I1) as I2.
  set (s2 := revalidate_core s1 id RPop) in *.
  assert (KS1 : tkind s1 = ALT) by (simpl; exact K).
  rewrite KS1 in T2. pose proof I2 as [W2 _ _ _].
  unfold st_of. destruct (find_blk id (blocks s2)) as [x2|] eqn:Fx2; [|discriminate]. simpl.
  assert (Px2 : bparent x2 = Some p).
  { pose proof (revalidate_core_skel s1 id RPop) as SK. fold s2 in SK.
    pose proof (same_skel_find _ _ SK id) as SF. rewrite Fx2 in SF. simpl in SF. rewrite find_upd, Fx in SF. simpl in SF.
    destruct (bid x =? id)%N; unfold skel in SF; simpl in SF; congruence. }
  intros E. bind_inv E. inversion E; subst s'; clear E. simpl. rewrite K. split; auto.
  assert (G : forall l3, same_skel (blocks s2) l3 ->
             (forall q, (q =? id)%N = false -> find_blk q l3 = find_blk q (blocks s2)) ->
             cbt ALT l3 id = false ->
             tips_ok ALT l3 (try_add_tip ALT l3 (set_remove id (tips s2)) p)).
  { intros l3 SK OUT IN.
    apply (tips_worsen ALT (blocks s2) l3 (tips s2) _ (fun q => (q =? id)%N) p); auto.
    - intros q Dq. apply N.eqb_eq in Dq. subst q. exact IN.
    - intros q y p0 Fq Dq Pq. apply N.eqb_eq in Dq. subst q. rewrite Fx2 in Fq. inversion Fq; subst. right. congruence.
    - apply N.eqb_neq. eapply wf_parent_ne; eauto.
    - intros q. rewrite memN_set_remove, (N.eqb_sym id q). reflexivity. }
  destruct (valid_upto L_CONNECTED (bst x2)) eqn:VC.
  - bind_inv E0. inversion E0; subst a; clear E0.
    unfold assert in E. unfold lower_validity in *.
    destruct (fpop (bst x2)); simpl in E; [discriminate|].
    destruct (L_TREE <? level (bst x2))%N; simpl in E; [|discriminate]. simpl.
    apply G.
    + apply upd_skel.
    + intros q Nq. rewrite find_upd. destruct (find_blk q (blocks s2)) as [y|] eqn:Fq; simpl; auto.
      rewrite (find_blk_bid _ _ _ Fq), Nq. reflexivity.
    + unfold cbt. rewrite find_upd, Fx2. simpl. rewrite (find_blk_bid _ _ _ Fx2), N.eqb_refl. simpl.
      apply low_level_not_tip. simpl. unfold L_TREE. lia.
  - inversion E0; subst a; clear E0. apply G; auto using same_skel_refl.
    unfold cbt. rewrite Fx2. apply can_be_tip_alt_level. exact VC.
Qed.

(* ------------------------------------------------------------------ the tips conjunct, step theorem *)
(* operations covered: everything except (a) re-adding the header of a REMOVED block (needs the model invariant
   "a removed block is at VALID_UNKNOWN", S3 of harness/invariants.hpp) and (b) acceptBlockHeader of the PoW tree *)
Definition tips_op (s : tree) (o : op) : Prop :=
  match o with
  | OHdr id _ _ => tkind s = ALT /\ find_blk id (blocks s) = None
  | _ => True
  end.

Definition Tips_ok (s : tree) : Prop := tips_ok (tkind s) (blocks s) (tips s).

Theorem step_out_tips_partial s o s' res : Inv_flags s -> Tips_ok s -> tips_op s o ->
  step_out s o = Done (s', res) -> Tips_ok s'.
Proof.
  unfold Tips_ok. intros I T TO. unfold step_out. destruct (tkind s) eqn:K, o; try discriminate; simpl in TO.
  - intros E. destruct TO as [_ Fx]. destruct (alt_hdr_fresh_tips_ok _ _ _ _ _ I K T Fx E) as [T' K']. rewrite K'. exact T'.
  - intros E. destruct (alt_body_tips_ok _ _ _ _ I K T E) as [T' K']. rewrite K'. exact T'.
  - intros E. pose proof I as [W _ _ _].
    assert (K' : tkind s' = ALT).
    { unfold alt_set in E. destruct (find_blk id (blocks s)) as [x|]; [|discriminate].
      destruct (deleted (bst x)); [discriminate|]. destruct (negb (valid_upto L_CONNECTED (bst x))); [discriminate|].
      bind_inv E. destruct a as [s1 ok]. inversion E; subst. simpl.
      destruct (alt_set_state_cb _ _ _ _ E0) as (_ & _ & K2). congruence. }
    rewrite K'. eapply alt_set_tips_ok; eauto.
  - intros E. bind_inv E. inversion E; subst.
    destruct (invalidate_tips_ok _ _ _ _ _ I ltac:(rewrite K; exact T) E0) as [T' K']. exact T'.
  - intros E. bind_inv E. inversion E; subst.
    destruct (revalidate_tips_ok _ _ _ _ _ I ltac:(rewrite K; exact T) E0) as [T' K']. exact T'.
  - intros E. bind_inv E. inversion E; subst.
    destruct (remove_subtree_tips_ok _ _ _ _ I ltac:(rewrite K; exact T) E0) as [T' K']. exact T'.
  - intros E. bind_inv E. inversion E; subst.
    destruct (alt_rmpl_tips_ok _ _ _ I K T E0) as [T' K']. rewrite K'. exact T'.
  - destruct TO as [TO _]. congruence.
  - intros E. bind_inv E. inversion E; subst.
    destruct (invalidate_tips_ok _ _ _ _ _ I ltac:(rewrite K; exact T) E0) as [T' K']. exact T'.
  - intros E. bind_inv E. inversion E; subst.
    destruct (revalidate_tips_ok _ _ _ _ _ I ltac:(rewrite K; exact T) E0) as [T' K']. exact T'.
  - intros E. bind_inv E. inversion E; subst.
    destruct (remove_subtree_tips_ok _ _ _ _ I ltac:(rewrite K; exact T) E0) as [T' K']. exact T'.
Qed.

Theorem step_tips_partial s o : Inv_flags s -> Tips_ok s -> tips_op s o -> Tips_ok (step s o).
Proof.
  intros I T TO. unfold step. destruct (step_out s o) as [[s1 r]| |] eqn:E; auto.
  eapply step_out_tips_partial; eauto.
Qed.

Lemma init_tips_ok_alt h : Tips_ok (alt_init h).
Proof.
  intros q. unfold alt_init, spec. simpl. rewrite orb_false_r.
  destruct q; simpl; reflexivity.
Qed.
Lemma init_tips_ok_pow h w : Tips_ok (pow_init h w).
Proof.
  intros q. unfold pow_init, spec. simpl. rewrite orb_false_r.
  destruct q; simpl; reflexivity.
Qed.
