(** Tree/TreeChain — best_chain_never_invalid: in every state reachable by the operations of both trees
    (and in the intermediate state inside invalidateSubtree, after setState(prev) and before the marking)
    no block on the best chain root..tip is failed. *)
From Coq Require Import ZArith NArith List Bool Lia.
From VB Require Import Tree.TreeDefs Tree.TreeInv Tree.TreePass Tree.TreeProofs Tree.TreeExact Tree.TreeRestore Tree.TreeMono Tree.TreeSteps.
Import ListNotations.

(* ------------------------------------------------------------------ a block that is not failed has no failed ancestor *)
Lemma notfailed_path : forall l, wf l -> fl_ok l -> forall c y, find_blk c l = Some y -> failed (bst y) = false ->
  forall a z, In a (path l c) -> find_blk a l = Some z -> failed (bst z) = false.
Proof.
  induction l as [|x r IH]; intros W F c y Fc N a z Ha Fa; [discriminate|].
  pose proof W as W0. destruct W as (Wr & Hx & Hp). destruct F as (Fr & Fx). simpl in Fc.
  destruct (N.eqb_spec (bid x) c) as [E|E].
  - inversion Fc; subst y. simpl in Ha. rewrite (proj2 (N.eqb_eq _ _) E) in Ha.
    destruct Ha as [<-|Ha].
    + simpl in Fa. rewrite (proj2 (N.eqb_eq _ _) E) in Fa. inversion Fa; subst. exact N.
    + destruct (bparent x) as [q|] eqn:Q; [|contradiction].
      destruct (find_blk q r) as [yq|] eqn:Fq; [|contradiction].
      assert (Nq : failed (bst yq) = false).
      { destruct (failed (bst yq)) eqn:Fd; auto. specialize (Fx eq_refl).
        unfold failed in N. rewrite Fx in N. rewrite orb_true_r in N. discriminate. }
      assert (Ar : find_blk a r = Some z).
      { simpl in Fa. destruct (N.eqb_spec (bid x) a) as [E2|E2]; auto.
        exfalso. apply (path_found r q a Ha). rewrite <- E2. exact Hx. }
      exact (IH Wr Fr q yq Fq Nq a z Ha Ar).
  - rewrite path_skip in Ha; auto.
    assert (Ar : find_blk a r = Some z).
    { simpl in Fa. destruct (N.eqb_spec (bid x) a) as [E2|E2]; auto.
      exfalso. apply (path_found r c a Ha). rewrite <- E2. exact Hx. }
    exact (IH Wr Fr c y Fc N a z Ha Ar).
Qed.

Theorem chain_valid s : Inv_flags s -> tip_ok s ->
  forall a z, In a (path (blocks s) (tip s)) -> find_blk a (blocks s) = Some z -> failed (bst z) = false.
Proof.
  intros [W _ F _] (y & Fy & N). eapply notfailed_path; eauto.
Qed.

(* ------------------------------------------------------------------ setState *)
Lemma alt_set_state_tip s to s1 ok : alt_set_state s to = Done (s1, ok) ->
  if ok then tip s1 = to /\ (exists ts, st_of (blocks s1) to = Some ts /\ is_valid L_APPLIED ts = true)
  else tip s1 = tip s.
Proof.
  unfold alt_set_state.
  destruct (find_blk (tip s) (blocks s)); [|discriminate]. destruct (find_blk to (blocks s)); [|discriminate].
  intros H. repeat bind_inv H.
  match goal with R : sm_set_state _ _ _ = Done ?a |- _ => destruct a as [[l1 ap1] ok1] end.
  destruct (st_of l1 to) as [ts|] eqn:S; [|discriminate].
  destruct ok1.
  - bind_inv H. inversion H; subst; simpl. split; auto. exists ts. split; auto.
    unfold assert in E2. destruct (is_valid L_APPLIED ts); [reflexivity|discriminate].
  - repeat bind_inv H. inversion H; subst; simpl. reflexivity.
Qed.

Lemma set_state_to_tip s to s1 : set_state_to s to = Done s1 -> tip s1 = to.
Proof.
  unfold set_state_to. destruct (tkind s).
  - intros H. bind_inv H. destruct a as [s2 ok]. bind_inv H. inversion H; subst. simpl in E0.
    pose proof (alt_set_state_tip _ _ _ _ E) as T. destruct ok; [apply T|discriminate].
  - intros H; inversion H; subst; reflexivity.
Qed.

Lemma not_failed_of_valid l st : is_valid l st = true -> failed st = false.
Proof. unfold is_valid. intros H. apply andb_true_iff in H. destruct H as [H _]. apply negb_true_iff in H. exact H. Qed.

Theorem alt_set_tip_ok s id s' res : Inv_flags s -> tip_ok s -> alt_set s id = Done (s', res) -> tip_ok s'.
Proof.
  intros I T. unfold alt_set. destruct (find_blk id (blocks s)) as [x|]; [|discriminate].
  destruct (deleted (bst x)); [discriminate|]. destruct (negb (valid_upto L_CONNECTED (bst x))); [discriminate|].
  intros H. bind_inv H. destruct a as [s1 ok]. inversion H; subst; clear H. simpl.
  pose proof (alt_set_state_tip _ _ _ _ E) as K. destruct ok.
  - destruct K as (Tp & ts & S & V). unfold tip_ok. rewrite Tp. unfold st_of in S.
    destruct (find_blk id (blocks s')) as [y|]; [|discriminate]. simpl in S. inversion S; subst ts.
    exists y. split; auto. eapply not_failed_of_valid; eauto.
  - eapply tip_ok_same; eauto. apply fl_eq_mono. eapply alt_set_state_fl; eauto. apply I.
Qed.

(* ------------------------------------------------------------------ revalidation never makes a block failed *)
Lemma revalidate_core_tip s id r : tip (revalidate_core s id r) = tip s.
Proof.
  unfold revalidate_core. destruct (find_blk id (blocks s)); auto.
  destruct (negb (has_reason r (bst b))); auto.
  destruct (has_other_failure r (bst b)); auto.
  destruct (reval_pass _ _ _ _ _) as [[? ?] ?]. reflexivity.
Qed.

Lemma failed_unset_le r s : failed (set_reason r false s) = true -> failed s = true.
Proof. unfold failed. destruct r; simpl; destruct (fblock s), (fpop s), (fchild s); auto. Qed.

Lemma revalidate_core_mono s id r : wf (blocks s) -> mono (blocks s) (blocks (revalidate_core s id r)).
Proof.
  intros W. unfold revalidate_core. destruct (find_blk id (blocks s)) as [x|]; [|apply mono_refl].
  destruct (negb (has_reason r (bst x))); [apply mono_refl|].
  set (l1 := upd id (set_reason r false) (blocks s)).
  assert (M1 : mono (blocks s) l1) by (apply mono_upd, failed_unset_le).
  destruct (has_other_failure r (bst x)); simpl; auto.
  destruct (reval_pass (tkind s) l1 id l1 (try_add_tip (tkind s) l1 (tips s) id)) as [[l2 tp] c] eqn:M.
  pose proof (reval_pass_gpass (tkind s) l1 id l1 (try_add_tip (tkind s) l1 (tips s) id)) as [G1 _].
  rewrite M in G1. simpl in G1. simpl. rewrite G1.
  assert (Wl1 : wf l1) by (eapply same_skel_wf; [apply upd_skel|auto]).
  eapply mono_trans; [exact M1|].
  intros p y F. destruct (gpass_exact false reval_stop id l1 Wl1 p y F) as (y3 & F3 & _ & _ & B & P & _ & _ & _ & _ & C).
  exists y3. split; auto. unfold failed. rewrite B, P. destruct C as [-> | ->]; auto.
  rewrite orb_false_r. intros H. rewrite H. reflexivity.
Qed.

Theorem revalidate_tip_ok s id r ord s' : Inv_flags s -> tip_ok s -> revalidate s id r ord = Done s' -> tip_ok s'.
Proof.
  intros I T. unfold revalidate. destruct (find_blk id (blocks s)) as [x|]; [|discriminate].
  destruct (deleted (bst x)); [discriminate|]. destruct (bparent x); [|discriminate].
  assert (K : tip_ok (revalidate_core s id r)).
  { eapply tip_ok_same; eauto using revalidate_core_tip. apply revalidate_core_mono, I. }
  destruct (negb (has_reason r (bst x))); [intros E; inversion E; subst; exact T|].
  destruct (has_other_failure r (bst x)); intros E; inversion E; subst; auto.
  apply update_tips_tip_ok, K.
Qed.

(* ------------------------------------------------------------------ invalidateSubtree *)
(* the block the best chain is moved to (or stays at) lies outside the subtree and is not failed *)
Lemma inv_target_tip s id x pp s1 : Inv_flags s -> tip_ok s ->
  find_blk id (blocks s) = Some x -> bparent x = Some pp -> is_valid L_TREE (bst x) = true ->
  (if on_chain s id then set_state_to s pp else Done s) = Done s1 ->
  sub (blocks s) id (tip s1) = false /\
  exists y, find_blk (tip s1) (blocks s) = Some y /\ failed (bst y) = false.
Proof.
  intros I T Fx Px V E. pose proof I as [W _ _ _].
  destruct (on_chain s id) eqn:OC.
  - rewrite (set_state_to_tip _ _ _ E). split; [eapply sub_parent_false; eauto|].
    destruct (find_blk pp (blocks s)) as [y|] eqn:Fp; [|exfalso; exact (wf_parent_found _ W id x pp Fx Px Fp)].
    exists y. split; auto. exact (valid_parent_not_failed s I id x pp y Fx Px Fp V).
  - inversion E; subst s1. split; [exact OC|]. exact T.
Qed.

(* the intermediate state inside invalidateSubtree: after setState(prev), before any flag is set *)
Theorem invalidate_intermediate_tip_ok s id x pp s1 : Inv_flags s -> tip_ok s ->
  find_blk id (blocks s) = Some x -> bparent x = Some pp -> is_valid L_TREE (bst x) = true ->
  (if on_chain s id then set_state_to s pp else Done s) = Done s1 ->
  Inv_flags s1 /\ tip_ok s1.
Proof.
  intros I T Fx Px V E. pose proof I as [W _ _ _].
  destruct (inv_target_tip s id x pp s1 I T Fx Px V E) as (_ & y & Fy & N).
  assert (FE : fl_eq (blocks s) (blocks s1)).
  { destruct (on_chain s id); [eapply set_state_to_fl; eauto | inversion E; subst; apply fl_eq_refl]. }
  split; [eapply inv_of_fl_eq_tree; eauto|].
  destruct (fl_eq_mono _ _ FE _ _ Fy) as (y' & Fy' & K). exists y'. split; auto.
  destruct (failed (bst y')); auto. rewrite K in N; auto.
Qed.

Theorem invalidate_tip_ok s id r ord s' : Inv_flags s -> tip_ok s -> invalidate s id r ord = Done s' -> tip_ok s'.
Proof.
  intros I T E. pose proof (invalidate_exact _ _ _ _ _ I E) as X.
  pose proof I as [W H F L]. unfold invalidate in E.
  destruct (find_blk id (blocks s)) as [x|] eqn:Fx; [|discriminate].
  destruct (deleted (bst x)) eqn:Dx; [discriminate|]. destruct (bparent x) as [pp|] eqn:Px; [|discriminate].
  destruct (has_reason r (bst x)); [inversion E; subst; exact T|].
  bind_inv E.
  destruct (negb (is_valid L_TREE (bst x))) eqn:V.
  - (* only the flag of an already failed block: the tip is another block *)
    assert (Fd : failed (bst x) = true).
    { unfold is_valid in V. destruct (failed (bst x)); auto. simpl in V. exfalso.
      unfold lv_ok in L. rewrite Forall_forall in L. destruct (L x (find_blk_In _ _ _ Fx)) as [L1 _]. specialize (L1 Dx).
      unfold valid_upto, L_TREE in V. apply negb_true_iff, N.leb_gt in V. lia. }
    inversion E; subst s'; clear E. destruct T as (y & Fy & N). exists y. simpl. split; auto.
    rewrite find_upd, Fy. simpl. destruct (N.eqb_spec (bid y) id) as [Ey|Ey]; auto.
    exfalso. rewrite (find_blk_bid _ _ _ Fy) in Ey. rewrite Ey, Fx in Fy. inversion Fy; subst. congruence.
  - apply negb_false_iff in V.
    destruct (if on_chain s id then set_state_to s pp else Done s) as [s1| |] eqn:ES; simpl in E; try discriminate.
    destruct (inv_target_tip s id x pp s1 I T Fx Px V ES) as (S & y & Fy & N).
    destruct (mark_pass id (upd id (set_reason r true) (blocks s1))) as [[l2 c] vs] eqn:M.
    inversion E; subst s'; clear E.
    apply update_tips_tip_ok. simpl.
    destruct (X _ _ Fy) as (y' & Fy' & _ & Out & _).
    rewrite (proj1 (update_tips_blocks _ ord)) in Fy'. simpl in Fy'.
    exists y'. simpl. split; auto.
    pose proof (Out S) as E2. unfold ffl in E2. inversion E2 as [[Eb Ep Ec]].
    unfold failed in *. rewrite Eb, Ep, Ec. exact N.
Qed.

(* ------------------------------------------------------------------ removeSubtree *)
Theorem remove_subtree_tip_ok s id ord s' : Inv_flags s -> tip_ok s -> remove_subtree s id ord = Done s' -> tip_ok s'.
Proof.
  intros I T. pose proof I as [W _ F L]. unfold remove_subtree.
  destruct (find_blk id (blocks s)) as [x|] eqn:Fx; [|discriminate].
  destruct (deleted (bst x)) eqn:Dx; [discriminate|]. destruct (bparent x) as [pp|] eqn:Px; [|discriminate].
  intros E. bind_inv E.
  assert (K : tip_ok a /\ fl_eq (blocks s) (blocks a)).
  { destruct (on_chain s id) eqn:OC.
    - destruct (set_state_to_fl _ _ _ W E0) as [FE _]. split; auto.
      (* the removed block is on the best chain: it is not failed, hence its parent is not failed either *)
      assert (Nx : failed (bst x) = false).
      { unfold on_chain in OC. apply memN_In in OC. eapply chain_valid; eauto. }
      assert (Vx : is_valid L_TREE (bst x) = true).
      { unfold is_valid. rewrite Nx. simpl. unfold lv_ok in L. rewrite Forall_forall in L.
        destruct (L x (find_blk_In _ _ _ Fx)) as [L1 _]. specialize (L1 Dx). unfold valid_upto, L_TREE. apply N.leb_le. lia. }
      destruct (find_blk pp (blocks s)) as [y|] eqn:Fp; [|exfalso; exact (wf_parent_found _ W id x pp Fx Px Fp)].
      pose proof (valid_parent_not_failed s I id x pp y Fx Px Fp Vx) as Ny.
      destruct (fl_eq_mono _ _ FE _ _ Fp) as (y' & Fy' & Ky). exists y'.
      rewrite (set_state_to_tip _ _ _ E0). split; auto. destruct (failed (bst y')); auto. rewrite Ky in Ny; auto.
    - inversion E0; subst a. split; auto using fl_eq_refl. }
  destruct K as [Ta FE].
  pose proof (remove_pass_fl_le id (blocks a)) as R.
  destruct (remove_pass id (blocks a)) as [l2 vs]. simpl in R.
  inversion E; subst; clear E.
  assert (T2 : tip_ok (mkTree (tkind s) l2 (try_add_tip (tkind s) l2 (filter (fun t => negb (memN t vs)) (tips a)) pp)
                              (tip a) (applied a))).
  { eapply tip_ok_mono; eauto. apply fl_le_mono, R. }
  destruct (on_chain s id); auto. apply update_tips_tip_ok, T2.
Qed.

(* ------------------------------------------------------------------ removePayloads *)
Lemma mono_upd_const l id x c : wf l -> find_blk id l = Some x ->
  (failed c = true -> failed (bst x) = true) -> mono l (upd id (fun _ => c) l).
Proof.
  intros W F K p y Fp. rewrite find_upd, Fp. simpl. eexists; split; [reflexivity|].
  destruct (N.eqb_spec (bid y) id) as [E|E]; simpl; auto.
  rewrite (find_blk_bid _ _ _ Fp) in E. subst p. rewrite F in Fp. inversion Fp; subst. exact K.
Qed.

Theorem alt_rmpl_tip_ok s id s' : Inv_flags s -> tip_ok s -> alt_rmpl s id = Done s' -> tip_ok s'.
Proof.
  intros I T E. destruct (alt_rmpl_inv _ _ _ I E) as (_ & Tp).
  eapply tip_ok_same; eauto. clear Tp T.
  unfold alt_rmpl in E. destruct (find_blk id (blocks s)) as [x|] eqn:Fx; [|discriminate].
  destruct (deleted (bst x)); [discriminate|]. destruct (bparent x) as [p|]; [|discriminate].
  destruct (negb (haspl (bst x)) || active (bst x) ||
            negb (forallb (fun c => negb (valid_upto L_CONNECTED (bst c))) (children (blocks s) id))); [discriminate|].
  set (s1 := with_blocks s (upd id (set_haspl false) (blocks s))) in *.
  assert (M1 : mono (blocks s) (blocks s1)) by (apply fl_eq_mono, upd_fl_eq, keeps_set_haspl).
  assert (W1 : wf (blocks s1)) by (eapply same_skel_wf; [apply upd_skel|apply I]).
  pose proof (revalidate_core_mono s1 id RPop W1) as M2.
  assert (W2 : wf (blocks (revalidate_core s1 id RPop))) by (eapply same_skel_wf; [apply revalidate_core_skel|exact W1]).
  set (s2 := revalidate_core s1 id RPop) in *.
  unfold st_of in E. destruct (find_blk id (blocks s2)) as [x2|] eqn:Fx2; [|discriminate]. simpl in E.
  bind_inv E. inversion E; subst s'; clear E. simpl.
  eapply mono_trans; [exact M1|]. eapply mono_trans; [exact M2|].
  destruct (valid_upto L_CONNECTED (bst x2)).
  - bind_inv E0. inversion E0; subst a. eapply mono_upd_const; eauto. unfold lower_validity.
    destruct (fpop (bst x2)); simpl; auto. destruct (L_TREE <? level (bst x2))%N; simpl; auto.
  - inversion E0; subst a. apply mono_refl.
Qed.

(* ------------------------------------------------------------------ every operation *)
Theorem step_out_tip_ok s o s' res : Inv_flags s -> tip_ok s -> step_out s o = Done (s', res) -> tip_ok s'.
Proof.
  intros I T. unfold step_out. destruct (tkind s) eqn:K, o; try discriminate.
  - intros E. destruct (alt_hdr_inv _ _ _ _ _ I E) as (_ & Tp & M). eapply tip_ok_same; eauto.
  - intros E. destruct (alt_body_inv _ _ _ _ I E) as (FE & Tp). eapply tip_ok_same; eauto. apply fl_eq_mono, FE.
  - intros E. eapply alt_set_tip_ok; eauto.
  - intros E. bind_inv E. inversion E; subst. eapply invalidate_tip_ok; eauto.
  - intros E. bind_inv E. inversion E; subst. eapply revalidate_tip_ok; eauto.
  - intros E. bind_inv E. inversion E; subst. eapply remove_subtree_tip_ok; eauto.
  - intros E. bind_inv E. inversion E; subst. eapply alt_rmpl_tip_ok; eauto.
  - intros E. destruct (pow_hdr_inv _ _ _ _ _ _ I E) as (_ & K2). auto.
  - intros E. bind_inv E. inversion E; subst. eapply invalidate_tip_ok; eauto.
  - intros E. bind_inv E. inversion E; subst. eapply revalidate_tip_ok; eauto.
  - intros E. bind_inv E. inversion E; subst. eapply remove_subtree_tip_ok; eauto.
Qed.

Lemma init_tip_ok_alt h : tip_ok (alt_init h).
Proof. exists (mkBlk 0%N None h 0 st_root). split; reflexivity. Qed.
Lemma init_tip_ok_pow h w : tip_ok (pow_init h w).
Proof. exists (mkBlk 0%N None h w st_root). split; reflexivity. Qed.

Theorem step_good s o : Inv_flags s /\ tip_ok s -> Inv_flags (step s o) /\ tip_ok (step s o).
Proof.
  intros [I T]. split; [apply step_inv, I|].
  unfold step. destruct (step_out s o) as [[s1 r]| |] eqn:E; auto. eapply step_out_tip_ok; eauto.
Qed.

Theorem run_good ops : forall s, Inv_flags s /\ tip_ok s -> Inv_flags (run s ops) /\ tip_ok (run s ops).
Proof.
  unfold run. induction ops as [|o r IH]; simpl; intros s G; auto. apply IH, step_good, G.
Qed.

(* best_chain_never_invalid: after every prefix of every history of operations, on both trees *)
Theorem best_chain_never_invalid ops s : Inv_flags s -> tip_ok s ->
  forall a z, In a (path (blocks (run s ops)) (tip (run s ops))) -> find_blk a (blocks (run s ops)) = Some z ->
    failed (bst z) = false.
Proof.
  intros I T. destruct (run_good ops s (conj I T)) as [I' T']. apply chain_valid; auto.
Qed.

Lemma alt_init_good h : Inv_flags (alt_init h) /\ tip_ok (alt_init h).
Proof. split; [apply alt_init_inv|apply init_tip_ok_alt]. Qed.
Lemma pow_init_good h w : Inv_flags (pow_init h w) /\ tip_ok (pow_init h w).
Proof. split; [apply pow_init_inv|apply init_tip_ok_pow]. Qed.
