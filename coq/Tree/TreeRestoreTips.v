(** Tree/TreeRestoreTips — inv_reval_id, tip set: revalidate (invalidate s b r) b r has the tip set of s. *)
From Coq Require Import ZArith NArith List Bool Lia.
From VB Require Import Tree.TreeDefs Tree.TreeInv Tree.TreePass Tree.TreeProofs Tree.TreeExact Tree.TreeRestore
  Tree.TreeMono Tree.TreeSteps Tree.TreeTips Tree.TreeTipsOps Tree.TreeTipsUp.
Import ListNotations.

(* level and deleted flag of every block are those of l *)
Definition lvd_eq (l l' : list blk) : Prop :=
  forall p y, find_blk p l = Some y ->
    exists y', find_blk p l' = Some y' /\ level (bst y') = level (bst y) /\ deleted (bst y') = deleted (bst y).

Lemma lvd_eq_refl l : lvd_eq l l.
Proof. intros p y F. exists y. auto. Qed.
Lemma lvd_eq_trans a b c : lvd_eq a b -> lvd_eq b c -> lvd_eq a c.
Proof.
  intros H1 H2 p y F. destruct (H1 p y F) as (y1 & F1 & L1 & D1). destruct (H2 p y1 F1) as (y2 & F2 & L2 & D2).
  exists y2. repeat split; congruence.
Qed.
Lemma lvd_upd id f l : (forall s, level (f s) = level s /\ deleted (f s) = deleted s) -> lvd_eq l (upd id f l).
Proof.
  intros K p y F. rewrite find_upd, F. simpl. eexists; split; [reflexivity|].
  destruct (bid y =? id)%N; simpl; auto.
Qed.
Lemma lvd_gpass v stop t l : wf l -> lvd_eq l (fst (gpass (set_fchild v) stop t l)).
Proof.
  intros W p y F. destruct (gpass_exact v stop t l W p y F) as (y' & F' & _ & _ & _ & _ & L & D & _).
  exists y'. auto.
Qed.
Lemma lvd_set_reason r b s : level (set_reason r b s) = level s /\ deleted (set_reason r b s) = deleted s.
Proof. destruct r; auto. Qed.

(* invalidateSubtree = setState(prev) (which may raise levels) followed by steps that keep level and deleted *)
Lemma invalidate_split s id r ord s' : wf (blocks s) -> invalidate s id r ord = Done s' ->
  exists la, cb_eq (tkind s) (blocks s) la /\ fl_eq (blocks s) la /\ lvd_eq la (blocks s').
Proof.
  intros W. unfold invalidate.
  destruct (find_blk id (blocks s)) as [x|]; [|discriminate].
  destruct (deleted (bst x)); [discriminate|]. destruct (bparent x) as [pp|]; [|discriminate].
  destruct (has_reason r (bst x)).
  { intros E; inversion E; subst. exists (blocks s'). auto using cb_eq_refl, fl_eq_refl, lvd_eq_refl. }
  intros E. bind_inv E.
  destruct (negb (is_valid L_TREE (bst x))).
  - inversion E; subst; simpl. exists (blocks s). repeat split; auto using cb_eq_refl, fl_eq_refl, same_skel_refl.
    apply lvd_upd. intros st. apply lvd_set_reason.
  - assert (S1 : exists s1, (if on_chain s id then set_state_to s pp else Done s) = Done s1 /\
                 cb_eq (tkind s) (blocks s) (blocks s1) /\ fl_eq (blocks s) (blocks s1)).
    { destruct (on_chain s id).
      - destruct (set_state_to s pp) as [s1| |] eqn:SS; simpl in E; try discriminate.
        exists s1. destruct (set_state_to_cb _ _ _ SS) as (C & _). destruct (set_state_to_fl _ _ _ W SS). auto.
      - exists s. repeat split; auto using cb_eq_refl, fl_eq_refl, same_skel_refl. }
    destruct S1 as (s1 & ES & CB & FE). rewrite ES in E. simpl in E.
    exists (blocks s1). split; auto. split; auto.
    set (l1 := upd id (set_reason r true) (blocks s1)) in *.
    assert (Wl1 : wf l1).
    { eapply same_skel_wf; [apply upd_skel|]. eapply same_skel_wf; [apply fl_eq_skel; eauto|auto]. }
    destruct (mark_pass id l1) as [[l2 c] vs] eqn:M.
    pose proof (mark_pass_gpass id l1) as [G1 _]. rewrite M in G1. simpl in G1.
    inversion E; subst s'; clear E. rewrite (proj1 (update_tips_blocks _ ord)). simpl. rewrite G1.
    eapply lvd_eq_trans; [apply lvd_upd; intros st; apply lvd_set_reason|]. apply lvd_gpass; auto.
Qed.

Lemma revalidate_core_lvd s id r : wf (blocks s) -> lvd_eq (blocks s) (blocks (revalidate_core s id r)).
Proof.
  intros W. unfold revalidate_core. destruct (find_blk id (blocks s)) as [x|]; [|apply lvd_eq_refl].
  destruct (negb (has_reason r (bst x))); [apply lvd_eq_refl|].
  set (l1 := upd id (set_reason r false) (blocks s)).
  assert (M1 : lvd_eq (blocks s) l1) by (apply lvd_upd; intros st; apply lvd_set_reason).
  destruct (has_other_failure r (bst x)); simpl; auto.
  destruct (reval_pass (tkind s) l1 id l1 (try_add_tip (tkind s) l1 (tips s) id)) as [[l2 tp] c] eqn:M.
  pose proof (reval_pass_gpass (tkind s) l1 id l1 (try_add_tip (tkind s) l1 (tips s) id)) as [G1 _].
  rewrite M in G1. simpl in G1. simpl. rewrite G1.
  eapply lvd_eq_trans; [exact M1|]. apply lvd_gpass. eapply same_skel_wf; [apply upd_skel|auto].
Qed.

Theorem inv_reval_id_tips s id r o1 o2 s1 s2 x :
  Inv_flags s -> tips_ok (tkind s) (blocks s) (tips s) ->
  find_blk id (blocks s) = Some x -> has_reason r (bst x) = false -> back_in (blocks s) id ->
  invalidate s id r o1 = Done s1 -> revalidate s1 id r o2 = Done s2 ->
  forall q, memN q (tips s2) = memN q (tips s).
Proof.
  intros I T Fx HR BK E1 E2 q. pose proof I as [W _ _ _].
  pose proof (invalidate_inv _ _ _ _ _ I E1) as I1.
  destruct (invalidate_tips_ok _ _ _ _ _ I T E1) as [T1 K1].
  destruct (revalidate_tips_ok _ _ _ _ _ I1 T1 E2) as [T2 K2].
  rewrite T2, T, K2, K1.
  pose proof (inv_reval_id_flags s id r o1 o2 s1 s2 x I Fx HR BK E1 E2) as FL.
  (* level / deleted: only setState(prev) touches levels, and it keeps canBeATip *)
  destruct (invalidate_split s id r o1 s1 W E1) as (la & CB & FE & LV1).
  destruct (invalidate_exact _ _ _ _ _ I E1 id x Fx) as (x1 & Fx1 & _ & _ & Tx1 & _). destruct (Tx1 eq_refl) as (HR1 & _).
  pose proof (revalidate_blocks _ _ _ _ _ _ Fx1 HR1 E2) as B2.
  pose proof I1 as [W1 _ _ _].
  pose proof (revalidate_core_lvd s1 id r W1) as LV2. rewrite <- B2 in LV2.
  assert (SK : same_skel (blocks s) (blocks s2)).
  { eapply same_skel_trans; [eapply invalidate_skel; eauto|]. rewrite B2. apply revalidate_core_skel. }
  apply spec_ext; auto. intros p. unfold cbt.
  destruct (find_blk p (blocks s)) as [y|] eqn:Fp.
  - destruct (FL p y Fp) as (y2 & Fp2 & _ & E). rewrite Fp2.
    unfold ffl in E. inversion E as [[Eb Ep Ec]].
    assert (Fd : failed (bst y2) = failed (bst y)) by (unfold failed; congruence).
    destruct (fl_eq_sym_flags _ _ FE p y Fp) as (ya & Fa & Ba & Pa & Ca & _ & Da).
    destruct (LV1 p ya Fa) as (y1 & Fp1 & L1 & D1). destruct (LV2 p y1 Fp1) as (y2' & Fp2' & L2 & D2).
    rewrite Fp2 in Fp2'. inversion Fp2'; subst y2'.
    assert (Dl : deleted (bst y2) = deleted (bst y)) by congruence.
    unfold can_be_tip, is_valid. rewrite Fd, Dl.
    destruct (deleted (bst y)) eqn:Dy; simpl; auto. destruct (failed (bst y)) eqn:Fy; simpl; auto.
    (* usable in s: canBeATip is kept by setState, so the level threshold is kept *)
    destruct CB as [_ CB]. specialize (CB p). unfold cbt in CB. rewrite Fp, Fa in CB.
    unfold can_be_tip, is_valid in CB. rewrite Da, Dy in CB.
    assert (Fda : failed (bst ya) = false) by (unfold failed in *; congruence).
    rewrite Fda, Fy in CB. simpl in CB. unfold valid_upto in *. rewrite L2, L1. exact CB.
  - pose proof (same_skel_find _ _ SK p) as SF. rewrite Fp in SF. destruct (find_blk p (blocks s2)); [contradiction|reflexivity].
Qed.
