(** Tree/TreeRestore — revalidate_exact and inv_reval_id for the failure flags:
    revalidateSubtree (invalidateSubtree s b r) b r gives every block of the tree its failure flags back,
    provided b did not carry r and no FAILED_CHILD inside subtree(b) was stale. *)
From Coq Require Import ZArith NArith List Bool Lia.
From VB Require Import Tree.TreeDefs Tree.TreeInv Tree.TreePass Tree.TreeProofs Tree.TreeExact.
Import ListNotations.

(* inside subtree(t): FAILED_CHILD only below a failed parent (no stale flag) *)
Definition back_in (l : list blk) (t : N) : Prop :=
  forall p x q y, find_blk p l = Some x -> bparent x = Some q -> find_blk q l = Some y ->
    sub l t q = true -> fchild (bst x) = true -> failed (bst y) = true.

(* every proper descendant of t carries FAILED_CHILD *)
Definition all_marked (l : list blk) (t : N) : Prop :=
  forall p x, find_blk p l = Some x -> sub l t p = true -> p <> t -> fchild (bst x) = true.

Lemma has_reason_set r b s : has_reason r (set_reason r b s) = b.
Proof. destruct r; reflexivity. Qed.
Lemma has_reason_set_other r r' b s : r' <> r -> has_reason r' (set_reason r b s) = has_reason r' s.
Proof. destruct r, r'; simpl; auto; congruence. Qed.

(* ------------------------------------------------------------------ revalidateSubtree, exact *)
Theorem revalidate_core_exact s id r x : Inv_flags s -> find_blk id (blocks s) = Some x -> has_reason r (bst x) = true ->
  forall p y, find_blk p (blocks s) = Some y ->
  exists y2, find_blk p (blocks (revalidate_core s id r)) = Some y2 /\ skel y2 = skel y /\
    (p <> id -> fblock (bst y2) = fblock (bst y) /\ fpop (bst y2) = fpop (bst y)) /\
    (p = id -> has_reason r (bst y2) = false /\ fchild (bst y2) = fchild (bst y) /\
               forall r', r' <> r -> has_reason r' (bst y2) = has_reason r' (bst y)) /\
    (sub (blocks s) id p = false -> fchild (bst y2) = fchild (bst y)).
Proof.
  intros I Fx HR p y Fp. pose proof I as [W H F L]. unfold revalidate_core. rewrite Fx, HR. simpl.
  set (l1 := upd id (set_reason r false) (blocks s)).
  set (y1 := if (bid y =? id)%N then with_st y (set_reason r false (bst y)) else y).
  assert (Fp1 : find_blk p l1 = Some y1) by (unfold l1; rewrite find_upd, Fp; reflexivity).
  assert (Wl1 : wf l1) by (eapply same_skel_wf; [apply upd_skel|auto]).
  pose proof (find_blk_bid _ _ _ Fp) as Bp.
  assert (Y1 : skel y1 = skel y /\
    (p <> id -> fblock (bst y1) = fblock (bst y) /\ fpop (bst y1) = fpop (bst y)) /\
    (p = id -> has_reason r (bst y1) = false /\ fchild (bst y1) = fchild (bst y) /\
               forall r', r' <> r -> has_reason r' (bst y1) = has_reason r' (bst y)) /\
    fchild (bst y1) = fchild (bst y)).
  { unfold y1. destruct (N.eqb_spec (bid y) id) as [E|E].
    - split; [reflexivity|]. split; [intros N; exfalso; apply N; congruence|]. split.
      + intros _. simpl. rewrite has_reason_set, set_reason_fchild. repeat split; auto.
        intros r' N. apply has_reason_set_other; auto.
      + simpl. apply set_reason_fchild.
    - split; [reflexivity|]. split; [auto|]. split; [intros ->; exfalso; apply E; auto|reflexivity]. }
  destruct Y1 as (K1 & O1 & T1 & C1).
  destruct (has_other_failure r (bst x)).
  - simpl. exists y1. split; auto.
  - destruct (reval_pass (tkind s) l1 id l1 (try_add_tip (tkind s) l1 (tips s) id)) as [[l2 tp] c] eqn:M.
    pose proof (reval_pass_gpass (tkind s) l1 id l1 (try_add_tip (tkind s) l1 (tips s) id)) as [G1 _].
    rewrite M in G1. simpl in G1. simpl. rewrite G1.
    destruct (gpass_exact false reval_stop id l1 Wl1 p y1 Fp1) as (y3 & Fp3 & Hout & Sk3 & B3 & P3 & _ & _ & _ & _ & C3).
    assert (SUB : sub l1 id p = sub (blocks s) id p) by (symmetry; apply same_skel_sub, upd_skel).
    exists y3. split; auto. split; [congruence|]. split; [|split].
    + intros N. destruct (O1 N). split; congruence.
    + intros E. rewrite (Hout (or_intror E)). auto.
    + intros S. rewrite (Hout (or_introl (eq_trans SUB S))). auto.
Qed.

(* after the revalidation no FAILED_CHILD inside the subtree is stale, if all of them were set before *)
Theorem revalidate_core_back_in s id r x : Inv_flags s -> find_blk id (blocks s) = Some x ->
  has_reason r (bst x) = true -> all_marked (blocks s) id ->
  back_in (blocks (revalidate_core s id r)) id.
Proof.
  intros I Fx HR AM. pose proof I as [W H F L]. unfold revalidate_core. rewrite Fx, HR. simpl.
  set (l1 := upd id (set_reason r false) (blocks s)).
  assert (Wl1 : wf l1) by (eapply same_skel_wf; [apply upd_skel|auto]).
  assert (SK : same_skel (blocks s) l1) by apply upd_skel.
  (* all proper descendants are still marked in l1 *)
  assert (AM1 : all_marked l1 id).
  { intros p x1 Fp1 S N. unfold l1 in Fp1. rewrite find_upd in Fp1.
    destruct (find_blk p (blocks s)) as [y|] eqn:Fp; [|discriminate]. simpl in Fp1. inversion Fp1; subst x1.
    rewrite <- (same_skel_sub _ _ id p SK) in S.
    pose proof (AM p y Fp S N) as C. destruct (bid y =? id)%N; simpl; auto. rewrite set_reason_fchild. auto. }
  assert (Fx1 : find_blk id l1 = Some (with_st x (set_reason r false (bst x)))).
  { unfold l1. rewrite find_upd, Fx. simpl. rewrite (find_blk_bid _ _ _ Fx), N.eqb_refl. reflexivity. }
  destruct (has_other_failure r (bst x)) eqn:HO.
  - (* the block stays failed: nothing below changes *)
    simpl. intros p x1 q y1 Fp Q Fq S C.
    destruct (N.eq_dec q id) as [->|Nq].
    + rewrite Fx1 in Fq. inversion Fq; subst y1. simpl. rewrite failed_unset_reason; auto.
    + pose proof (AM1 q y1 Fq S Nq) as Cq. unfold failed. rewrite Cq. apply orb_true_r.
  - destruct (reval_pass (tkind s) l1 id l1 (try_add_tip (tkind s) l1 (tips s) id)) as [[l2 tp] c] eqn:M.
    pose proof (reval_pass_gpass (tkind s) l1 id l1 (try_add_tip (tkind s) l1 (tips s) id)) as [G1 _].
    rewrite M in G1. simpl in G1. simpl. rewrite G1.
    set (g := gpass (set_fchild false) reval_stop id l1).
    intros p x3 q y3 Fp3 Q3 Fq3 S3 C3.
    (* pull both blocks back to l1 *)
    pose proof (same_skel_find _ _ (gpass_skel (set_fchild false) reval_stop id l1) p) as SP.
    pose proof (same_skel_find _ _ (gpass_skel (set_fchild false) reval_stop id l1) q) as SQ.
    fold g in SP, SQ. rewrite Fp3 in SP. rewrite Fq3 in SQ.
    destruct (find_blk p l1) as [x1|] eqn:Fp1; [|contradiction].
    destruct (find_blk q l1) as [y1|] eqn:Fq1; [|contradiction].
    destruct (gpass_find (set_fchild false) reval_stop id l1 Wl1 p x1 Fp1) as [HP _].
    destruct (gpass_find (set_fchild false) reval_stop id l1 Wl1 q y1 Fq1) as [HQ MQ].
    fold g in HP, HQ, MQ. rewrite Fp3 in HP. rewrite Fq3 in HQ.
    assert (Q1 : bparent x1 = Some q) by (unfold skel in SP; congruence).
    assert (S1 : sub l1 id q = true) by (rewrite (same_skel_sub l1 (fst g) id q (gpass_skel _ _ _ _)); exact S3).
    assert (VX : vis (snd g) x1 = memN q (snd g)) by (unfold vis; rewrite Q1; reflexivity).
    destruct (vis (snd g) x1) eqn:V1.
    + (* visited: FAILED_CHILD was cleared *)
      inversion HP; subst x3. simpl in C3. discriminate.
    + inversion HP; subst x3. rewrite <- VX in MQ.
      destruct (N.eqb_spec q id) as [Eq|Nq]; [discriminate|]. simpl in MQ.
      destruct (vis (snd g) y1) eqn:Vy.
      * simpl in MQ. symmetry in MQ. apply negb_false_iff in MQ. inversion HQ; subst y3. simpl. exact MQ.
      * inversion HQ; subst y3. pose proof (AM1 q y1 Fq1 S1 Nq) as Cq. unfold failed. rewrite Cq. apply orb_true_r.
Qed.

(* ------------------------------------------------------------------ FAILED_CHILD is determined by the own flags *)
Lemma ffl_unique t l l2 : wf l -> same_skel l l2 -> fl_ok l -> fl_ok l2 -> back_in l t -> back_in l2 t ->
  (forall p y y2, find_blk p l = Some y -> find_blk p l2 = Some y2 ->
     fblock (bst y) = fblock (bst y2) /\ fpop (bst y) = fpop (bst y2)) ->
  (forall p y y2, find_blk p l = Some y -> find_blk p l2 = Some y2 -> sub l t p = false \/ p = t ->
     fchild (bst y) = fchild (bst y2)) ->
  forall n p y y2, (length (path l p) <= n)%nat -> find_blk p l = Some y -> find_blk p l2 = Some y2 ->
    fchild (bst y) = fchild (bst y2).
Proof.
  intros W SK F F2 B B2 OWN OUT. pose proof (same_skel_wf _ _ SK W) as W2.
  induction n as [|n IH]; intros p y y2 Len Fp Fp2.
  - destruct (path_self l p y Fp) as [rest E]. rewrite E in Len. simpl in Len. lia.
  - destruct (sub l t p) eqn:S; [|apply (OUT p y y2 Fp Fp2); auto].
    destruct (N.eq_dec p t) as [->|N]; [apply (OUT t y y2 Fp Fp2); auto|].
    pose proof (same_skel_find _ _ SK p) as SP. rewrite Fp, Fp2 in SP.
    destruct (bparent y) as [q|] eqn:Q.
    + assert (Q2 : bparent y2 = Some q) by (unfold skel in SP; congruence).
      destruct (find_blk q l) as [yq|] eqn:Fq; [|exfalso; exact (wf_parent_found l W p y q Fp Q Fq)].
      destruct (find_blk q l2) as [yq2|] eqn:Fq2; [|exfalso; exact (wf_parent_found l2 W2 p y2 q Fp2 Q2 Fq2)].
      assert (Sq : sub l t q = true).
      { rewrite (sub_step l t W p y q Fp Q) in S. destruct (N.eqb_spec t p); [exfalso; auto|exact S]. }
      assert (Lq : (length (path l q) <= n)%nat).
      { rewrite (path_step l W p y q Fp Q) in Len. simpl in Len. lia. }
      pose proof (IH q yq yq2 Lq Fq Fq2) as Cq. destruct (OWN q yq yq2 Fq Fq2) as [Bq Pq].
      assert (FQ : failed (bst yq) = failed (bst yq2)) by (unfold failed; congruence).
      destruct (fchild (bst y)) eqn:C, (fchild (bst y2)) eqn:C2; auto.
      * pose proof (B p y q yq Fp Q Fq Sq C) as Fd. rewrite FQ in Fd.
        rewrite (fl_ok_find l2 W2 F2 p y2 q yq2 Fp2 Q2 Fq2 Fd) in C2. discriminate.
      * rewrite (same_skel_sub l l2 t q SK) in Sq.
        pose proof (B2 p y2 q yq2 Fp2 Q2 Fq2 Sq C2) as Fd. rewrite <- FQ in Fd.
        rewrite (fl_ok_find l W F p y q yq Fp Q Fq Fd) in C. discriminate.
    + rewrite (sub_root l t p y Fp Q) in S. apply N.eqb_eq in S. exfalso; auto.
Qed.

(* ------------------------------------------------------------------ inv_reval_id *)
Lemma revalidate_blocks s id r ord s2 x : find_blk id (blocks s) = Some x -> has_reason r (bst x) = true ->
  revalidate s id r ord = Done s2 -> blocks s2 = blocks (revalidate_core s id r).
Proof.
  intros Fx HR. unfold revalidate. rewrite Fx. destruct (deleted (bst x)); [discriminate|].
  destruct (bparent x); [|discriminate]. rewrite HR. simpl.
  destruct (has_other_failure r (bst x)); intros E; inversion E; subst; auto.
  apply update_tips_blocks.
Qed.

Lemma invalidate_skel s id r ord s' : wf (blocks s) -> invalidate s id r ord = Done s' -> same_skel (blocks s) (blocks s').
Proof.
  intros W. unfold invalidate.
  destruct (find_blk id (blocks s)) as [x|]; [|discriminate].
  destruct (deleted (bst x)); [discriminate|]. destruct (bparent x) as [pp|]; [|discriminate].
  destruct (has_reason r (bst x)); [intros E; inversion E; subst; apply same_skel_refl|].
  intros E. bind_inv E.
  destruct (negb (is_valid L_TREE (bst x))).
  - inversion E; subst; simpl. apply upd_skel.
  - assert (S1 : exists s1, (if on_chain s id then set_state_to s pp else Done s) = Done s1 /\
                            same_skel (blocks s) (blocks s1)).
    { destruct (on_chain s id).
      - destruct (set_state_to s pp) as [s1| |] eqn:SS; simpl in E; try discriminate.
        exists s1. destruct (set_state_to_fl _ _ _ W SS). split; auto. apply fl_eq_skel; auto.
      - exists s. split; auto using same_skel_refl. }
    destruct S1 as (s1 & ES & SK). rewrite ES in E. simpl in E.
    set (l1 := upd id (set_reason r true) (blocks s1)) in *.
    destruct (mark_pass id l1) as [[l2 c] vs] eqn:M.
    pose proof (mark_pass_gpass id l1) as [G1 _]. rewrite M in G1. simpl in G1.
    inversion E; subst s'; clear E.
    rewrite (proj1 (update_tips_blocks _ ord)). simpl. rewrite G1.
    eapply same_skel_trans; [exact SK|]. eapply same_skel_trans; [apply upd_skel|apply gpass_skel].
Qed.

Lemma revalidate_core_skel s id r : same_skel (blocks s) (blocks (revalidate_core s id r)).
Proof.
  unfold revalidate_core. destruct (find_blk id (blocks s)) as [x|]; [|apply same_skel_refl].
  destruct (negb (has_reason r (bst x))); [apply same_skel_refl|].
  set (l1 := upd id (set_reason r false) (blocks s)).
  destruct (has_other_failure r (bst x)); simpl; [apply upd_skel|].
  destruct (reval_pass (tkind s) l1 id l1 (try_add_tip (tkind s) l1 (tips s) id)) as [[l2 tp] c] eqn:M.
  pose proof (reval_pass_gpass (tkind s) l1 id l1 (try_add_tip (tkind s) l1 (tips s) id)) as [G1 _].
  rewrite M in G1. simpl in G1. simpl. rewrite G1.
  eapply same_skel_trans; [apply upd_skel|apply gpass_skel].
Qed.

Theorem inv_reval_id_flags s id r o1 o2 s1 s2 x :
  Inv_flags s -> find_blk id (blocks s) = Some x -> has_reason r (bst x) = false ->
  back_in (blocks s) id ->
  invalidate s id r o1 = Done s1 -> revalidate s1 id r o2 = Done s2 ->
  forall p y, find_blk p (blocks s) = Some y ->
    exists y2, find_blk p (blocks s2) = Some y2 /\ skel y2 = skel y /\ ffl (bst y2) = ffl (bst y).
Proof.
  intros I Fx HR BK E1 E2.
  pose proof (invalidate_inv _ _ _ _ _ I E1) as I1.
  pose proof (revalidate_inv _ _ _ _ _ I1 E2) as I2.
  pose proof (invalidate_exact _ _ _ _ _ I E1) as X1.
  destruct (X1 id x Fx) as (x1 & Fx1 & Kx1 & _ & Tx1 & _). destruct (Tx1 eq_refl) as (HR1 & _).
  pose proof (revalidate_blocks _ _ _ _ _ _ Fx1 HR1 E2) as B2.
  pose proof (revalidate_core_exact s1 id r x1 I1 Fx1 HR1) as X2. rewrite <- B2 in X2.
  pose proof I as [W _ F _]. pose proof I1 as [W1 _ _ _]. pose proof I2 as [W2 _ F2 _].
  assert (SK1 : same_skel (blocks s) (blocks s1)) by (eapply invalidate_skel; eauto).
  assert (SK2 : same_skel (blocks s1) (blocks s2)) by (rewrite B2; apply revalidate_core_skel).
  assert (SK : same_skel (blocks s) (blocks s2)) by (eapply same_skel_trans; eauto).
  (* every proper descendant is marked in s1 *)
  assert (AM : all_marked (blocks s1) id).
  { intros p y1 Fp1 S N. pose proof (same_skel_find _ _ SK1 p) as SP. rewrite Fp1 in SP.
    destruct (find_blk p (blocks s)) as [y|] eqn:Fp; [|contradiction].
    destruct (X1 p y Fp) as (y1' & Fp1' & _ & _ & _ & D). rewrite Fp1 in Fp1'. inversion Fp1'; subst y1'.
    rewrite <- (same_skel_sub _ _ id p SK1) in S. destruct (D S N) as (_ & _ & C). exact C. }
  pose proof (revalidate_core_back_in s1 id r x1 I1 Fx1 HR1 AM) as BK2. rewrite <- B2 in BK2.
  (* pointwise facts through both steps *)
  assert (PW : forall p y y2, find_blk p (blocks s) = Some y -> find_blk p (blocks s2) = Some y2 ->
            fblock (bst y) = fblock (bst y2) /\ fpop (bst y) = fpop (bst y2) /\
            (sub (blocks s) id p = false \/ p = id -> fchild (bst y) = fchild (bst y2))).
  { intros p y y2 Fp Fp2.
    destruct (X1 p y Fp) as (y1 & Fp1 & _ & Out1 & At1 & De1).
    destruct (X2 p y1 Fp1) as (y2' & Fp2' & _ & Own2 & At2 & Out2). rewrite Fp2 in Fp2'. inversion Fp2'; subst y2'.
    destruct (N.eq_dec p id) as [->|N].
    - rewrite Fx in Fp. inversion Fp; subst y.
      destruct (At1 eq_refl) as (R1 & C1 & O1). destruct (At2 eq_refl) as (R2 & C2 & O2).
      assert (FB : fblock (bst x) = fblock (bst y2) /\ fpop (bst x) = fpop (bst y2)).
      { destruct r.
        - pose proof (O1 RPop ltac:(discriminate)) as A1. pose proof (O2 RPop ltac:(discriminate)) as A2.
          simpl in *. split; congruence.
        - pose proof (O1 RBlock ltac:(discriminate)) as A1. pose proof (O2 RBlock ltac:(discriminate)) as A2.
          simpl in *. split; congruence. }
      destruct FB. repeat split; auto. intros _. congruence.
    - destruct (Own2 N) as [B P].
      destruct (sub (blocks s) id p) eqn:S.
      + destruct (De1 eq_refl N) as (B1 & P1 & _). repeat split; try congruence. intros [?|?]; [discriminate|contradiction].
      + pose proof (Out1 eq_refl) as E. unfold ffl in E. inversion E as [[Eb Ep Ec]].
        repeat split; try congruence. intros _.
        symmetry. apply Out2. rewrite <- (same_skel_sub _ _ id p SK1). exact S. }
  intros p y Fp.
  pose proof (same_skel_find _ _ SK p) as SP. rewrite Fp in SP.
  destruct (find_blk p (blocks s2)) as [y2|] eqn:Fp2; [|contradiction].
  exists y2. split; auto. split; [congruence|].
  destruct (PW p y y2 Fp Fp2) as (B & P & _).
  assert (C : fchild (bst y) = fchild (bst y2)).
  { apply (ffl_unique id (blocks s) (blocks s2) W SK F F2 BK BK2) with (n := length (path (blocks s) p)) (p := p); auto.
    - intros q z z2 Fq Fq2. destruct (PW q z z2 Fq Fq2) as (? & ? & _). auto.
    - intros q z z2 Fq Fq2 Hq. destruct (PW q z z2 Fq Fq2) as (_ & _ & K). auto. }
  unfold ffl. congruence.
Qed.
