(** Tree/TreeMono — "no block becomes failed" as a pointwise relation between block stores, and the
    best-chain tip being a block that is not failed. *)
From Coq Require Import ZArith NArith List Bool Lia.
From VB Require Import Tree.TreeDefs Tree.TreeInv Tree.TreePass Tree.TreeProofs.
Import ListNotations.

Definition mono (l l' : list blk) : Prop :=
  forall p y, find_blk p l = Some y ->
    exists y', find_blk p l' = Some y' /\ (failed (bst y') = true -> failed (bst y) = true).

Lemma mono_refl l : mono l l.
Proof. intros p y F. exists y. auto. Qed.
Lemma mono_trans a b c : mono a b -> mono b c -> mono a c.
Proof.
  intros H1 H2 p y F. destruct (H1 p y F) as (y1 & F1 & K1). destruct (H2 p y1 F1) as (y2 & F2 & K2).
  exists y2. auto.
Qed.
Lemma fl_le_mono l l' : fl_le l l' -> mono l l'.
Proof. intros E p y F. destruct (fl_le_find _ _ E p y F) as (y' & F' & K & _). exists y'. auto. Qed.
Lemma fl_eq_mono l l' : fl_eq l l' -> mono l l'.
Proof. intros E. apply fl_le_mono, fl_eq_le, E. Qed.
Lemma mono_cons l x : find_blk (bid x) l = None -> mono l (x :: l).
Proof.
  intros N p y F. exists y. split; auto. simpl.
  destruct (N.eqb_spec (bid x) p) as [E|E]; auto. subst p. congruence.
Qed.
Lemma mono_upd id f l : (forall s, failed (f s) = true -> failed s = true) -> mono l (upd id f l).
Proof.
  intros K p y F. rewrite find_upd, F. simpl. eexists; split; [reflexivity|].
  destruct (bid y =? id)%N; simpl; auto.
Qed.

(* the tip of the best chain is a block that is not failed *)
Definition tip_ok (s : tree) : Prop :=
  exists y, find_blk (tip s) (blocks s) = Some y /\ failed (bst y) = false.

Lemma tip_ok_mono s l' k tp a : tip_ok s -> mono (blocks s) l' -> tip_ok (mkTree k l' tp (tip s) a).
Proof.
  intros (y & F & N) M. destruct (M _ _ F) as (y' & F' & K). exists y'. split; auto.
  destruct (failed (bst y')); auto. rewrite K in N; auto.
Qed.

Lemma tip_ok_same s s' : tip_ok s -> mono (blocks s) (blocks s') -> tip s' = tip s -> tip_ok s'.
Proof.
  intros T M E. destruct s' as [k l tp t a]. simpl in *. subst t. eapply tip_ok_mono; eauto.
Qed.

Lemma pow_determine_best_tip_ok s c : tip_ok s -> tip_ok (pow_determine_best s c).
Proof.
  intros T. unfold pow_determine_best. destruct (tip s =? c)%N; auto.
  destruct (find_blk c (blocks s)) as [b|] eqn:Fc; auto. destruct (find_blk (tip s) (blocks s)); auto.
  destruct (negb (is_valid L_TREE (bst b))) eqn:V; auto. destruct (bwork b0 <? bwork b)%Z; auto.
  exists b. simpl. split; auto. apply negb_false_iff in V. unfold is_valid in V.
  apply andb_true_iff in V. destruct V as [V _]. apply negb_true_iff in V. exact V.
Qed.

Lemma update_tips_tip_ok s ord : tip_ok s -> tip_ok (update_tips s ord).
Proof.
  unfold update_tips. destruct (tkind s); auto.
  revert s. induction ord as [|t r IH]; simpl; intros s T; auto.
  destruct (memN t (tips s)); auto. apply IH, pow_determine_best_tip_ok, T.
Qed.
