(** Tree/TreeInv — well-formedness and the flag invariants of the block store, and basic list lemmas.
    Blocks are stored newest first: everything a block refers to (its parent) lives in the tail. *)
From Coq Require Import ZArith NArith List Bool Lia.
From VB Require Import Tree.TreeDefs.
Import ListNotations.

Definition skel (x : blk) := (bid x, bparent x, bheight x, bwork x).
Definition vis (cont : list N) (y : blk) : bool :=
  match bparent y with Some q => memN q cont | None => false end.

(* ids unique; the parent of every block is found behind it; exactly the last block is the root *)
Fixpoint wf (l : list blk) : Prop :=
  match l with
  | [] => True
  | x :: r => wf r /\ find_blk (bid x) r = None /\
              match bparent x with None => r = [] | Some p => find_blk p r <> None end
  end.

(* every child of a failed block carries FAILED_CHILD (the converse is not an invariant of the code: removeSubtree
   drops FAILED_POP of the removed blocks and keeps FAILED_CHILD of their descendants) *)
Fixpoint fl_ok (l : list blk) : Prop :=
  match l with
  | [] => True
  | x :: r => fl_ok r /\
              match bparent x with
              | None => True
              | Some p => match find_blk p r with
                          | Some y => failed (bst y) = true -> fchild (bst x) = true
                          | None => False end
              end
  end.

(* heights follow parents *)
Fixpoint ht_ok (l : list blk) : Prop :=
  match l with
  | [] => True
  | x :: r => ht_ok r /\
              match bparent x with
              | None => True
              | Some p => match find_blk p r with Some y => bheight x = (bheight y + 1)%Z | None => False end
              end
  end.

(* ------------------------------------------------------------------ memN / sets *)
Lemma memN_In a l : memN a l = true <-> In a l.
Proof.
  unfold memN. rewrite existsb_exists. split.
  - intros [x [H E]]. apply N.eqb_eq in E. subst. exact H.
  - intros H. exists a. split; [exact H | apply N.eqb_refl].
Qed.

Lemma memN_cons a b l : memN a (b :: l) = (a =? b)%N || memN a l.
Proof. reflexivity. Qed.

Lemma memN_false_In a l : memN a l = false <-> ~ In a l.
Proof.
  rewrite <- memN_In. destruct (memN a l); split; intros H.
  - discriminate.
  - exfalso; apply H; reflexivity.
  - intro; discriminate.
  - reflexivity.
Qed.

(* ------------------------------------------------------------------ find_blk *)
Lemma find_blk_bid p l y : find_blk p l = Some y -> bid y = p.
Proof.
  induction l as [|x r IH]; simpl; [discriminate|].
  destruct (N.eqb_spec (bid x) p); intros H; [inversion H; subst; auto | auto].
Qed.

Lemma find_blk_In p l y : find_blk p l = Some y -> In y l.
Proof.
  induction l as [|x r IH]; simpl; [discriminate|].
  destruct (N.eqb_spec (bid x) p); intros H; [inversion H; subst; auto | auto].
Qed.

Lemma find_blk_none_In p l : find_blk p l = None -> forall y, In y l -> bid y <> p.
Proof.
  induction l as [|x r IH]; simpl; intros H y Hy; [contradiction|].
  destruct (N.eqb_spec (bid x) p); [discriminate|].
  destruct Hy as [<-|Hy]; auto.
Qed.

Lemma wf_tail x r : wf (x :: r) -> wf r.
Proof. simpl; tauto. Qed.

(* the parent of a block found in l is found in l as well *)
Lemma wf_parent_found l : wf l -> forall p y q, find_blk p l = Some y -> bparent y = Some q -> find_blk q l <> None.
Proof.
  induction l as [|x r IH]; simpl; intros W p y q H Hq; [discriminate|].
  destruct W as (Wr & Hx & Hp).
  destruct (N.eqb_spec (bid x) p).
  - inversion H; subst y. rewrite Hq in Hp.
    destruct (N.eqb_spec (bid x) q); [discriminate|exact Hp].
  - specialize (IH Wr p y q H Hq).
    destruct (N.eqb_spec (bid x) q); [discriminate|exact IH].
Qed.

(* ... and differs from every block in front of the list *)
Lemma wf_parent_not_head x r : wf (x :: r) -> forall p y q, find_blk p r = Some y -> bparent y = Some q -> q <> bid x.
Proof.
  intros W p y q H Hq E. destruct W as (Wr & Hx & _).
  pose proof (wf_parent_found r Wr p y q H Hq) as F. subst q. rewrite Hx in F. auto.
Qed.

Lemma wf_own_parent x r p : wf (x :: r) -> bparent x = Some p -> p <> bid x.
Proof.
  intros (Wr & Hx & Hp) E Q. rewrite E in Hp. subst p. auto.
Qed.

(* ------------------------------------------------------------------ status-only transformations *)
(* l' has the skeleton of l *)
Definition same_skel (l l' : list blk) : Prop := map skel l = map skel l'.

Lemma same_skel_find l : forall l', same_skel l l' -> forall p,
  match find_blk p l, find_blk p l' with
  | Some y, Some y' => skel y = skel y'
  | None, None => True
  | _, _ => False
  end.
Proof.
  induction l as [|x r IH]; intros [|x' r'] S p; unfold same_skel in S; try discriminate; simpl; auto.
  simpl in S. assert (Hx : skel x = skel x') by congruence. assert (Hr : map skel r = map skel r') by congruence.
  assert (E : bid x = bid x') by (unfold skel in Hx; congruence).
  rewrite <- E. destruct (N.eqb_spec (bid x) p); auto.
  apply IH. exact Hr.
Qed.

Lemma same_skel_wf l : forall l', same_skel l l' -> wf l -> wf l'.
Proof.
  induction l as [|x r IH]; intros [|x' r'] S W; unfold same_skel in S; try discriminate; simpl; auto.
  simpl in S. assert (Hx : skel x = skel x') by congruence. assert (Hr : map skel r = map skel r') by congruence.
  destruct W as (Wr & Hn & Hp).
  assert (E : bid x = bid x') by (unfold skel in Hx; congruence).
  assert (P : bparent x = bparent x') by (unfold skel in Hx; congruence).
  split; [apply (IH r' Hr Wr)|]. split.
  - pose proof (same_skel_find r r' Hr (bid x)) as F. rewrite Hn in F. rewrite <- E.
    destruct (find_blk (bid x) r'); [contradiction|reflexivity].
  - rewrite <- P. destruct (bparent x) as [p|].
    + pose proof (same_skel_find r r' Hr p) as F.
      destruct (find_blk p r), (find_blk p r'); try contradiction; congruence.
    + subst r. destruct r'; [reflexivity|discriminate].
Qed.

Lemma same_skel_refl l : same_skel l l.
Proof. reflexivity. Qed.
Lemma same_skel_trans a b c : same_skel a b -> same_skel b c -> same_skel a c.
Proof. unfold same_skel; congruence. Qed.
Lemma same_skel_sym a b : same_skel a b -> same_skel b a.
Proof. unfold same_skel; congruence. Qed.

Lemma skel_with_st x s : skel (with_st x s) = skel x.
Proof. reflexivity. Qed.

Lemma upd_skel id f l : same_skel l (upd id f l).
Proof.
  unfold same_skel, upd. rewrite map_map. apply map_ext. intros x.
  destruct (bid x =? id)%N; reflexivity.
Qed.

Lemma find_upd id f l p :
  find_blk p (upd id f l) =
  option_map (fun x => if (bid x =? id)%N then with_st x (f (bst x)) else x) (find_blk p l).
Proof.
  induction l as [|x r IH]; simpl; auto.
  destruct (N.eqb_spec (bid x) id); simpl.
  - destruct (N.eqb_spec (bid x) p); simpl; auto.
    destruct (N.eqb_spec (bid x) id); [reflexivity|contradiction].
  - destruct (N.eqb_spec (bid x) p); simpl; auto.
    destruct (N.eqb_spec (bid x) id); [contradiction|reflexivity].
Qed.

(* a live block went through acceptBlockHeader: it is at least BLOCK_VALID_TREE;
   a removed block does not carry BLOCK_FAILED_POP (deleteTemporarily drops it) *)
Definition lvP (s : status) : Prop :=
  (deleted s = false -> (1 <= level s)%N) /\ (deleted s = true -> fpop s = false).
Definition lv_ok (l : list blk) : Prop := Forall (fun x => lvP (bst x)) l.

(* weak relation: same skeleton, same FAILED_CHILD, failed-ness may only shrink, level property carried over *)
Definition fl_le (l l' : list blk) : Prop :=
  Forall2 (fun x y => skel x = skel y /\ (failed (bst y) = true -> failed (bst x) = true)
                      /\ fchild (bst x) = fchild (bst y) /\ (lvP (bst x) -> lvP (bst y))) l l'.

Lemma fl_le_skel l l' : fl_le l l' -> same_skel l l'.
Proof.
  induction 1; [reflexivity|]. unfold same_skel in *. simpl. destruct H as (H & _). congruence.
Qed.

Lemma fl_le_find l l' : fl_le l l' -> forall p y, find_blk p l = Some y ->
  exists y', find_blk p l' = Some y' /\ (failed (bst y') = true -> failed (bst y) = true) /\ skel y = skel y'.
Proof.
  induction 1 as [|x x' r r' Hx Hr IH]; intros p y F; simpl in *; [discriminate|].
  destruct Hx as (Hs & Hf & Hc & Hl).
  assert (E : bid x = bid x') by (unfold skel in Hs; congruence). rewrite <- E.
  destruct (N.eqb_spec (bid x) p).
  - inversion F; subst y. exists x'. split; auto.
  - apply IH; auto.
Qed.

Lemma fl_le_ok l l' : fl_le l l' -> fl_ok l -> fl_ok l'.
Proof.
  induction 1 as [|x x' r r' Hx Hr IH]; simpl; auto.
  intros (Fr & Fx). split; auto.
  destruct Hx as (Hs & Hf & Hc & Hl).
  assert (P : bparent x = bparent x') by (unfold skel in Hs; congruence). rewrite <- P.
  destruct (bparent x) as [p|]; [|auto].
  destruct (find_blk p r) as [y|] eqn:E; [|contradiction].
  destruct (fl_le_find _ _ Hr p y E) as (y' & E' & Hf' & _). rewrite E'. intros Fy. rewrite <- Hc. auto.
Qed.

Lemma fl_le_refl l : fl_le l l.
Proof. induction l; constructor; auto. Qed.

Lemma fl_le_lv l l' : fl_le l l' -> lv_ok l -> lv_ok l'.
Proof.
  unfold lv_ok. induction 1 as [|x y r r' Hxy Hr IH]; intros L; constructor; inversion L; subst.
  - destruct Hxy as (_&_&_&H). auto.
  - auto.
Qed.
Lemma fl_le_trans a b c : fl_le a b -> fl_le b c -> fl_le a c.
Proof.
  intros H; revert c. induction H as [|x y l l' Hxy Hl IH]; intros c H2; inversion H2 as [|y' z l2 l3 Hyz Hl2]; subst; constructor.
  - destruct Hxy as (S1&F1&C1&L1), Hyz as (S2&F2&C2&L2). split; [congruence|]. split; [auto|]. split; [congruence|auto].
  - apply IH. exact Hl2.
Qed.

(* strong relation: the three failure flags agree pointwise (and the level property is carried over) *)
Definition fl_eq (l l' : list blk) : Prop :=
  Forall2 (fun x y => skel x = skel y /\ fblock (bst x) = fblock (bst y) /\ fpop (bst x) = fpop (bst y)
                      /\ fchild (bst x) = fchild (bst y) /\ (lvP (bst x) -> lvP (bst y))
                      /\ deleted (bst x) = deleted (bst y)) l l'.

Lemma fl_eq_le l l' : fl_eq l l' -> fl_le l l'.
Proof.
  induction 1 as [|x y r r' H Hr IH]; constructor; auto.
  destruct H as (Hs & Hb & Hp & Hc & Hl & Hd). split; [auto|]. split; [|split; auto]. unfold failed. rewrite Hb, Hp, Hc. auto.
Qed.
Lemma fl_eq_skel l l' : fl_eq l l' -> same_skel l l'.
Proof. intros H. apply fl_le_skel, fl_eq_le, H. Qed.
Lemma fl_eq_ok l l' : fl_eq l l' -> fl_ok l -> fl_ok l'.
Proof. intros H. apply fl_le_ok, fl_eq_le, H. Qed.
Lemma fl_eq_lv l l' : fl_eq l l' -> lv_ok l -> lv_ok l'.
Proof. intros H. apply fl_le_lv, fl_eq_le, H. Qed.
Lemma fl_eq_refl l : fl_eq l l.
Proof. induction l; constructor; auto. (split; [|split; [|split; [|split; [|split]]]]); auto. Qed.
Lemma fl_eq_trans a b c : fl_eq a b -> fl_eq b c -> fl_eq a c.
Proof.
  intros H; revert c. induction H as [|x y l l' Hxy Hl IH]; intros c H2; inversion H2 as [|y' z l2 l3 Hyz Hl2]; subst; constructor.
  - destruct Hxy as (S1&B1&P1&C1&L1&D1), Hyz as (S2&B2&P2&C2&L2&D2). (split; [|split; [|split; [|split; [|split]]]]); try congruence. auto.
  - apply IH. exact Hl2.
Qed.
Lemma fl_eq_sym_flags l l' : fl_eq l l' -> forall p y, find_blk p l = Some y ->
  exists y', find_blk p l' = Some y' /\ fblock (bst y') = fblock (bst y) /\ fpop (bst y') = fpop (bst y)
             /\ fchild (bst y') = fchild (bst y) /\ skel y = skel y' /\ deleted (bst y') = deleted (bst y).
Proof.
  induction 1 as [|x x' r r' Hx Hr IH]; intros p y F; simpl in *; [discriminate|].
  destruct Hx as (Hs & Hb & Hp & Hc & Hl & Hd).
  assert (E : bid x = bid x') by (unfold skel in Hs; congruence). rewrite <- E.
  destruct (N.eqb_spec (bid x) p).
  - inversion F; subst y. exists x'. repeat split; auto.
  - apply IH; auto.
Qed.

(* an update that does not touch the failure flags *)
Definition keeps_fl (f : status -> status) : Prop :=
  forall s, fblock (f s) = fblock s /\ fpop (f s) = fpop s /\ fchild (f s) = fchild s /\ (lvP s -> lvP (f s))
            /\ deleted (f s) = deleted s.

Lemma upd_fl_eq id f l : keeps_fl f -> fl_eq l (upd id f l).
Proof.
  intros K. induction l as [|x r IH]; simpl; constructor; auto.
  destruct (K (bst x)) as (?&?&?&?&?).
  destruct (bid x =? id)%N; simpl; (split; [|split; [|split; [|split; [|split]]]]); auto.
Qed.

Lemma keeps_set_level v : (1 <= v)%N -> keeps_fl (set_level v).
Proof. intros V s; (split; [|split; [|split; [|split]]]); auto. intros [H1 H2]; split; simpl; auto. Qed.
Lemma keeps_set_active v : keeps_fl (set_active v). Proof. intros s; (split; [|split; [|split; [|split]]]); auto. Qed.
Lemma keeps_set_haspl v : keeps_fl (set_haspl v). Proof. intros s; (split; [|split; [|split; [|split]]]); auto. Qed.

(* heights depend on the skeleton only *)
Lemma same_skel_ht l : forall l', same_skel l l' -> ht_ok l -> ht_ok l'.
Proof.
  induction l as [|x r IH]; intros [|x' r'] S W; unfold same_skel in S; try discriminate; simpl; auto.
  simpl in S. assert (Hx : skel x = skel x') by congruence. assert (Hr : map skel r = map skel r') by congruence.
  destruct W as (Wr & Hp).
  assert (P : bparent x = bparent x') by (unfold skel in Hx; congruence).
  assert (Hh : bheight x = bheight x') by (unfold skel in Hx; congruence).
  split; [apply (IH r' Hr Wr)|]. rewrite <- P. destruct (bparent x) as [p|]; auto.
  pose proof (same_skel_find r r' Hr p) as F.
  destruct (find_blk p r) as [y|], (find_blk p r') as [y'|]; try contradiction.
  unfold skel in F. assert (bheight y = bheight y') by congruence. congruence.
Qed.
