(** Tree/TreeLevels — the validity level of a block never exceeds the level of its parent; hence a connected
    block has only connected ancestors (and an applicable block only applicable ancestors). *)
From Coq Require Import ZArith NArith List Bool Lia.
From VB Require Import Tree.TreeDefs Tree.TreeInv Tree.TreePass Tree.TreeProofs Tree.TreeExact Tree.TreeRestore Tree.TreeMono
  Tree.TreeSteps Tree.TreeTips Tree.TreeTipsOps Tree.TreeTipsUp Tree.TreeRestoreTips Tree.TreeDeleted.
Import ListNotations.

Definition lm_ok (l : list blk) : Prop :=
  forall c x q y, find_blk c l = Some x -> bparent x = Some q -> find_blk q l = Some y ->
    (level (bst x) <= level (bst y))%N.

(* levels unchanged *)
Lemma lm_lvd l l' : same_skel l l' -> lvd_eq l l' -> lm_ok l -> lm_ok l'.
Proof.
  intros SK LV M c x' q y' Fc P Fq.
  pose proof (same_skel_find _ _ SK c) as SC. rewrite Fc in SC.
  pose proof (same_skel_find _ _ SK q) as SQ. rewrite Fq in SQ.
  destruct (find_blk c l) as [x|] eqn:Fc0; [|contradiction]. destruct (find_blk q l) as [y|] eqn:Fq0; [|contradiction].
  destruct (LV c x Fc0) as (x2 & F2 & L2 & _). destruct (LV q y Fq0) as (y2 & F3 & L3 & _).
  rewrite Fc in F2. rewrite Fq in F3. inversion F2; inversion F3; subst.
  rewrite L2, L3. apply (M c x q y Fc0); auto. unfold skel in SC. congruence.
Qed.

Lemma lvd_upd_same id f l : (forall s, level (f s) = level s /\ deleted (f s) = deleted s) -> lvd_eq l (upd id f l).
Proof. apply lvd_upd. Qed.

(* levels unchanged by an update *)
Lemma lm_upd_lv id f l : (forall s, level (f s) = level s) -> lm_ok l -> lm_ok (upd id f l).
Proof.
  intros K M c x' q y' Fc P Fq. rewrite find_upd in Fc, Fq.
  destruct (find_blk c l) as [x|] eqn:Fc0; [|discriminate]. destruct (find_blk q l) as [y|] eqn:Fq0; [|discriminate].
  simpl in Fc, Fq. inversion Fc; subst x'. inversion Fq; subst y'.
  assert (Px : bparent x = Some q) by (destruct (bid x =? id)%N; simpl in P; auto).
  pose proof (M c x q y Fc0 Px Fq0).
  destruct (bid x =? id)%N, (bid y =? id)%N; simpl; rewrite ?K; auto.
Qed.

(* raiseValidity on one block *)
Lemma lm_upd_raise l id x u c b g : wf l -> lm_ok l -> find_blk id l = Some x ->
  raise_validity l x u = Done (c, b) -> level (g c) = level c ->
  lm_ok (upd id (fun _ => g c) l).
Proof.
  intros W M Fx R G ch z' q y' Fc P Fq. rewrite find_upd in Fc, Fq.
  destruct (find_blk ch l) as [z|] eqn:Fc0; [|discriminate]. destruct (find_blk q l) as [y|] eqn:Fq0; [|discriminate].
  simpl in Fc, Fq. inversion Fc; subst z'. inversion Fq; subst y'. clear Fc Fq.
  destruct (raise_validity_level _ _ _ _ _ R) as (Mono & _ & _).
  pose proof (find_blk_bid _ _ _ Fc0) as Bz. pose proof (find_blk_bid _ _ _ Fq0) as By.
  assert (Pz : bparent z = Some q) by (destruct (bid z =? id)%N; simpl in P; auto).
  destruct (N.eqb_spec (bid z) id) as [Ez|Ez]; destruct (N.eqb_spec (bid y) id) as [Ey|Ey]; simpl.
  - exfalso. eapply (wf_parent_ne l W ch z q); eauto. congruence.
  - (* the raised block as a child *)
    rewrite G. assert (z = x) by (rewrite Bz in Ez; subst ch; congruence). subst z.
    unfold raise_validity in R. destruct (fpop (bst x)); [inversion R; subst; eapply M; eauto|].
    destruct (level (bst x) <? u)%N.
    + rewrite Pz in R. unfold st_of in R. rewrite Fq0 in R. simpl in R.
      destruct (u <=? level (bst y))%N eqn:Le; [|discriminate]. inversion R; subst. simpl. apply N.leb_le. exact Le.
    + inversion R; subst. eapply M; eauto.
  - (* the raised block as a parent *)
    rewrite G. assert (y = x) by (rewrite By in Ey; subst q; congruence). subst y.
    pose proof (M ch z q x Fc0 Pz Fq0). lia.
  - eapply M; eauto.
Qed.

Lemma lm_skel_wf l l' : same_skel l l' -> wf l -> wf l'.
Proof. apply same_skel_wf. Qed.

(* ------------------------------------------------------------------ the ALT state machine *)
Lemma unapply_block_lm l ap id l' ap' : lm_ok l -> unapply_block (l, ap) id = Done (l', ap') -> lm_ok l'.
Proof.
  intros M. unfold unapply_block. destruct (find_blk id l) as [x|]; [|discriminate].
  destruct (bparent x); [|discriminate].
  intros H. repeat bind_inv H. inversion H; subst.
  eapply lm_lvd; [apply upd_skel| |exact M]. apply lvd_upd. intros st. auto.
Qed.

Lemma unapply_list_lm ids : forall l ap l' ap', lm_ok l -> unapply_list (l, ap) ids = Done (l', ap') -> lm_ok l'.
Proof.
  induction ids as [|i r IH]; simpl; intros l ap l' ap' M H.
  - inversion H; subst. exact M.
  - bind_inv H. destruct a as [l1 ap1]. eapply IH; [|eauto]. eapply unapply_block_lm; eauto.
Qed.

Lemma apply_block_lm l ap id l' ap' ok : wf l -> lm_ok l -> apply_block (l, ap) id = Done (l', ap', ok) -> lm_ok l'.
Proof.
  intros W M. unfold apply_block. destruct (find_blk id l) as [x|] eqn:F; [|discriminate].
  destruct (bparent x); [|discriminate]. destruct (st_of l n) as [ps|]; [|discriminate].
  intros H. repeat bind_inv H.
  destruct (negb (is_valid L_TREE (bst x))).
  - inversion H; subst. exact M.
  - repeat bind_inv H.
    match goal with R : raise_validity _ _ _ = Done ?a |- _ => destruct a as [c b]; pose proof R as RV end.
    inversion H; subst; clear H. simpl.
    apply (lm_upd_raise l id x _ c b (set_active true) W M F RV). reflexivity.
Qed.

Lemma skel_of_fl l ap id l' ap' ok : wf l -> apply_block (l, ap) id = Done (l', ap', ok) -> wf l'.
Proof. intros W H. eapply same_skel_wf; [apply fl_eq_skel; eapply apply_block_fl; eauto|auto]. Qed.

Lemma apply_list_lm ids : forall l ap dn l' ap' ok, wf l -> lm_ok l -> apply_list (l, ap) dn ids = Done (l', ap', ok) -> lm_ok l'.
Proof.
  induction ids as [|i r IH]; simpl; intros l ap dn l' ap' ok W M H.
  - inversion H; subst. exact M.
  - bind_inv H. destruct a as [[l1 ap1] ok1].
    pose proof (apply_block_lm _ _ _ _ _ _ W M E) as M1. pose proof (skel_of_fl _ _ _ _ _ _ W E) as W1.
    destruct ok1.
    + eapply IH; eauto.
    + bind_inv H. destruct a as [l2 ap2]. inversion H; subst. exact (unapply_list_lm dn l ap l' ap' M E0).
Qed.

Lemma sm_apply_lm l ap from to l' ap' ok : wf l -> lm_ok l -> sm_apply (l, ap) from to = Done (l', ap', ok) -> lm_ok l'.
Proof.
  intros W M. unfold sm_apply. destruct (from =? to)%N.
  - intros H; inversion H; subst; auto.
  - simpl. destruct (st_of l to); [|discriminate]. destruct (negb (is_valid L_TREE s)).
    + intros H; inversion H; subst; auto.
    + apply apply_list_lm; auto.
Qed.

Lemma sm_set_state_lm l ap from to l' ap' ok : wf l -> lm_ok l -> sm_set_state (l, ap) from to = Done (l', ap', ok) -> lm_ok l'.
Proof.
  intros W M. unfold sm_set_state. destruct (from =? to)%N.
  - intros H; inversion H; subst; auto.
  - simpl. destruct (fork_of l from to); [|discriminate]. intros H.
    bind_inv H. destruct a as [l1 ap1]. pose proof (unapply_list_lm _ _ _ _ _ M E) as M1.
    assert (W1 : wf l1) by (eapply same_skel_wf; [apply fl_eq_skel; eapply unapply_list_fl; eauto|auto]).
    bind_inv H. destruct a as [[l2 ap2] ok2]. pose proof (sm_apply_lm _ _ _ _ _ _ _ W1 M1 E0) as M2.
    assert (W2 : wf l2) by (eapply same_skel_wf; [apply fl_eq_skel; eapply sm_apply_fl; eauto|auto]).
    destruct ok2.
    + inversion H; subst. exact M2.
    + bind_inv H. destruct a as [[l3 ap3] ok3]. bind_inv H. inversion H; subst.
      eapply sm_apply_lm; eauto.
Qed.

Lemma alt_set_state_lm s to s1 ok : wf (blocks s) -> lm_ok (blocks s) -> alt_set_state s to = Done (s1, ok) -> lm_ok (blocks s1).
Proof.
  intros W M. unfold alt_set_state.
  destruct (find_blk (tip s) (blocks s)); [|discriminate]. destruct (find_blk to (blocks s)); [|discriminate].
  intros H. repeat bind_inv H.
  match goal with R : sm_set_state _ _ _ = Done ?a |- _ => destruct a as [[l1 ap1] ok1];
    pose proof (sm_set_state_lm _ _ _ _ _ _ _ W M R) as F end.
  destruct (st_of l1 to); [|discriminate]. destruct ok1; repeat bind_inv H; inversion H; subst; simpl; auto.
Qed.

Lemma set_state_to_lm s to s1 : wf (blocks s) -> lm_ok (blocks s) -> set_state_to s to = Done s1 -> lm_ok (blocks s1).
Proof.
  intros W M. unfold set_state_to. destruct (tkind s).
  - intros H. bind_inv H. destruct a as [s2 ok]. bind_inv H. inversion H; subst. eapply alt_set_state_lm; eauto.
  - intros H; inversion H; subst; simpl. exact M.
Qed.

(* ------------------------------------------------------------------ invalidate / revalidate / setState *)
Lemma invalidate_lm s id r ord s' : wf (blocks s) -> lm_ok (blocks s) -> invalidate s id r ord = Done s' -> lm_ok (blocks s').
Proof.
  intros W M. unfold invalidate.
  destruct (find_blk id (blocks s)) as [x|]; [|discriminate].
  destruct (deleted (bst x)); [discriminate|]. destruct (bparent x) as [pp|]; [|discriminate].
  destruct (has_reason r (bst x)); [intros E; inversion E; subst; auto|].
  intros E. bind_inv E.
  destruct (negb (is_valid L_TREE (bst x))).
  - inversion E; subst; simpl. eapply lm_lvd; [apply upd_skel| |exact M]. apply lvd_upd. intros st. apply lvd_set_reason.
  - assert (S1 : exists s1, (if on_chain s id then set_state_to s pp else Done s) = Done s1 /\
                 lm_ok (blocks s1) /\ wf (blocks s1)).
    { destruct (on_chain s id).
      - destruct (set_state_to s pp) as [s1| |] eqn:SS; simpl in E; try discriminate.
        exists s1. split; auto. split; [eapply set_state_to_lm; eauto|].
        destruct (set_state_to_fl _ _ _ W SS) as [FE _]. eapply same_skel_wf; [apply fl_eq_skel; eauto|auto].
      - exists s. split; [reflexivity|]. split; auto. }
    destruct S1 as (s1 & ES & M1 & W1). rewrite ES in E. simpl in E.
    set (l1 := upd id (set_reason r true) (blocks s1)) in *.
    assert (Wl1 : wf l1) by (eapply same_skel_wf; [apply upd_skel|auto]).
    destruct (mark_pass id l1) as [[l2 c] vs] eqn:MP.
    pose proof (mark_pass_gpass id l1) as [G1 _]. rewrite MP in G1. simpl in G1.
    inversion E; subst s'; clear E. rewrite (proj1 (update_tips_blocks _ ord)). simpl. rewrite G1.
    eapply lm_lvd; [apply gpass_skel|apply lvd_gpass; auto|].
    eapply lm_lvd; [apply upd_skel| |exact M1]. apply lvd_upd. intros st. apply lvd_set_reason.
Qed.

Lemma revalidate_core_lm s id r : wf (blocks s) -> lm_ok (blocks s) -> lm_ok (blocks (revalidate_core s id r)).
Proof.
  intros W M. eapply lm_lvd; [apply revalidate_core_skel|apply revalidate_core_lvd; auto|exact M].
Qed.

Lemma revalidate_lm s id r ord s' : wf (blocks s) -> lm_ok (blocks s) -> revalidate s id r ord = Done s' -> lm_ok (blocks s').
Proof.
  intros W M. unfold revalidate. destruct (find_blk id (blocks s)) as [x|]; [|discriminate].
  destruct (deleted (bst x)); [discriminate|]. destruct (bparent x); [|discriminate].
  destruct (negb (has_reason r (bst x))); [intros E; inversion E; subst; auto|].
  destruct (has_other_failure r (bst x)); intros E; inversion E; subst.
  - apply revalidate_core_lm; auto.
  - rewrite (proj1 (update_tips_blocks _ ord)). apply revalidate_core_lm; auto.
Qed.

Lemma alt_set_lm s id s' res : wf (blocks s) -> lm_ok (blocks s) -> alt_set s id = Done (s', res) -> lm_ok (blocks s').
Proof.
  intros W M. unfold alt_set. destruct (find_blk id (blocks s)) as [x|]; [|discriminate].
  destruct (deleted (bst x)); [discriminate|]. destruct (negb (valid_upto L_CONNECTED (bst x))); [discriminate|].
  intros H. bind_inv H. destruct a as [s1 ok]. inversion H; subst. simpl. eapply alt_set_state_lm; eauto.
Qed.

(* ------------------------------------------------------------------ removeSubtree *)
Lemma remove_subtree_lm s id ord s' : wf (blocks s) -> S3_ok (blocks s) -> lm_ok (blocks s) ->
  remove_subtree s id ord = Done s' -> lm_ok (blocks s').
Proof.
  intros W S3 M. unfold remove_subtree. destruct (find_blk id (blocks s)) as [x|]; [|discriminate].
  destruct (deleted (bst x)); [discriminate|]. destruct (bparent x) as [p|]; [|discriminate].
  intros E. bind_inv E.
  assert (K : lm_ok (blocks a) /\ wf (blocks a) /\ S3_ok (blocks a)).
  { destruct (on_chain s id).
    - split; [eapply set_state_to_lm; eauto|]. split.
      + destruct (set_state_to_fl _ _ _ W E0) as [FE _]. eapply same_skel_wf; [apply fl_eq_skel; eauto|auto].
      + eapply dq_S3; [eapply set_state_to_dq; eauto; apply S3|exact S3].
    - inversion E0; subst; auto. }
  destruct K as (Ma & Wa & [Za Ca]).
  destruct (remove_pass_spec id (blocks a) Wa) as (A & _ & _).
  pose proof (remove_pass_closed id (blocks a) Wa) as CL.
  destruct (remove_pass id (blocks a)) as [l2 vs] eqn:RP. simpl in A, CL.
  assert (M2 : lm_ok l2).
  { intros c x' q y' Fc P Fq. rewrite A in Fc, Fq.
    destruct (find_blk c (blocks a)) as [x0|] eqn:Fc0; [|discriminate]. destruct (find_blk q (blocks a)) as [y0|] eqn:Fq0; [|discriminate].
    simpl in Fc, Fq. inversion Fc; subst x'. inversion Fq; subst y'. clear Fc Fq.
    assert (Px : bparent x0 = Some q) by (destruct (memN c vs); simpl in P; auto).
    destruct (memN c vs) eqn:Mc; simpl; [apply N.le_0_l|].
    destruct (memN q vs) eqn:Mq; simpl.
    - destruct (CL c x0 q Fc0 Px Mq) as [K|K]; [congruence|]. destruct (Za c x0 Fc0 K) as (L0 & _ & _). rewrite L0. apply N.le_0_l.
    - eapply Ma; eauto. }
  inversion E; subst; clear E.
  destruct (on_chain s id); simpl; auto. rewrite (proj1 (update_tips_blocks _ ord)). exact M2.
Qed.

(* ------------------------------------------------------------------ acceptBlock *)
Lemma connect_pass_lm l0 t : forall l tps l' tps' c, wf l -> lm_ok l ->
  connect_pass l0 t l tps = Done (l', tps', c) ->
  lm_ok l' /\ same_skel l l' /\
  (forall p y y', find_blk p l = Some y -> find_blk p l' = Some y' -> (level (bst y) <= level (bst y'))%N).
Proof.
  induction l as [|x r IH]; simpl; intros tps l' tps' c W M E.
  - inversion E; subst. repeat split; auto. intros p y y' F; discriminate.
  - pose proof W as W0. destruct W as (Wr & Hx & Hp).
    bind_inv E. destruct a as [[o tp1] ct].
    assert (Mr : lm_ok r).
    { intros c0 z q y Fc P Fq. apply (M c0 z q y); auto; simpl.
      - destruct (N.eqb_spec (bid x) c0) as [E1|E1]; auto. rewrite <- E1, Hx in Fc. discriminate.
      - destruct (N.eqb_spec (bid x) q) as [E1|E1]; auto. rewrite <- E1, Hx in Fq. discriminate. }
    destruct (IH _ _ _ _ Wr Mr E0) as (Mo & SKo & MONO). clear IH.
    assert (HEAD : forall x', skel x' = skel x -> (level (bst x) <= level (bst x'))%N ->
              (forall q yq', bparent x = Some q -> find_blk q o = Some yq' -> (level (bst x') <= level (bst yq'))%N) ->
              lm_ok (x' :: o) /\ same_skel (x :: r) (x' :: o) /\
              (forall p y y', find_blk p (x :: r) = Some y -> find_blk p (x' :: o) = Some y' -> (level (bst y) <= level (bst y'))%N)).
    { intros x' SKx Lx PX.
      assert (Bx : bid x' = bid x) by (unfold skel in SKx; congruence).
      assert (Px' : bparent x' = bparent x) by (unfold skel in SKx; congruence).
      assert (No : find_blk (bid x) o = None).
      { pose proof (same_skel_find _ _ SKo (bid x)) as SF. rewrite Hx in SF. destruct (find_blk (bid x) o); [contradiction|reflexivity]. }
      split; [|split].
      - intros c0 z q y Fc P Fq. simpl in Fc, Fq. rewrite Bx in Fc, Fq.
        destruct (N.eqb_spec (bid x) q) as [Eq|Eq].
        + exfalso. destruct (N.eqb_spec (bid x) c0) as [Ec|Ec].
          * inversion Fc; subst z. rewrite Px' in P. eapply (wf_own_parent x r q W0 P). auto.
          * pose proof (same_skel_find _ _ SKo c0) as SF. rewrite Fc in SF. destruct (find_blk c0 r) as [z0|] eqn:F0; [|contradiction].
            eapply (wf_parent_not_head x r W0 c0 z0 q F0); [unfold skel in SF; congruence|auto].
        + destruct (N.eqb_spec (bid x) c0) as [Ec|Ec].
          * inversion Fc; subst z. rewrite Px' in P. eapply PX; eauto.
          * eapply Mo; eauto.
      - unfold same_skel in *. simpl. congruence.
      - intros p y y' F F'. simpl in F, F'. rewrite Bx in F'.
        destruct (bid x =? p)%N; [inversion F; inversion F'; subst; auto|eapply MONO; eauto]. }
    destruct ((bid x =? t)%N || (match bparent x with Some p => memN p ct | None => false end && haspl (bst x))).
    + bind_inv E. destruct a as [x' tp2]. inversion E; subst; clear E. simpl.
      unfold connect_block in E1. repeat bind_inv E1.
      match goal with R : raise_validity _ _ _ = Done ?a |- _ => destruct a as [st' b1]; pose proof R as RV;
        destruct (raise_validity_level _ _ _ _ _ R) as (Mono & _ & _) end.
      inversion E1; subst. simpl.
      apply HEAD; auto. intros q yq' Pq Fq. simpl.
      unfold raise_validity in RV. destruct (fpop (bst x)).
      * inversion RV; subst.
        pose proof (same_skel_find _ _ SKo q) as SF. rewrite Fq in SF. destruct (find_blk q r) as [yq|] eqn:Fq0; [|contradiction].
        pose proof (M (bid x) x q yq) as Mx. simpl in Mx. rewrite N.eqb_refl in Mx.
        destruct (N.eqb_spec (bid x) q) as [Eq|Eq]; [exfalso; eapply (wf_own_parent x r q W0 Pq); auto|].
        specialize (Mx eq_refl Pq Fq0). pose proof (MONO q yq yq' Fq0 Fq). lia.
      * destruct (level (bst x) <? L_CONNECTED)%N.
        -- rewrite Pq in RV. unfold st_of in RV. rewrite Fq in RV. simpl in RV.
           destruct (L_CONNECTED <=? level (bst yq'))%N eqn:Le; [|discriminate]. inversion RV; subst. simpl. apply N.leb_le. exact Le.
        -- inversion RV; subst.
           pose proof (same_skel_find _ _ SKo q) as SF. rewrite Fq in SF. destruct (find_blk q r) as [yq|] eqn:Fq0; [|contradiction].
           pose proof (M (bid x) x q yq) as Mx. simpl in Mx. rewrite N.eqb_refl in Mx.
           destruct (N.eqb_spec (bid x) q) as [Eq|Eq]; [exfalso; eapply (wf_own_parent x r q W0 Pq); auto|].
           specialize (Mx eq_refl Pq Fq0). pose proof (MONO q yq yq' Fq0 Fq). lia.
    + inversion E; subst; clear E. apply HEAD; auto; [lia|].
      intros q yq' Pq Fq.
      pose proof (same_skel_find _ _ SKo q) as SF. rewrite Fq in SF. destruct (find_blk q r) as [yq|] eqn:Fq0; [|contradiction].
      pose proof (M (bid x) x q yq) as Mx. simpl in Mx. rewrite N.eqb_refl in Mx.
      destruct (N.eqb_spec (bid x) q) as [Eq|Eq]; [exfalso; eapply (wf_own_parent x r q W0 Pq); auto|].
      specialize (Mx eq_refl Pq Fq0). pose proof (MONO q yq yq' Fq0 Fq). lia.
Qed.

Lemma alt_body_lm s id s' res : wf (blocks s) -> lm_ok (blocks s) -> alt_body s id = Done (s', res) -> lm_ok (blocks s').
Proof.
  intros W M. unfold alt_body. destruct (find_blk id (blocks s)) as [x|] eqn:Fx; [|discriminate].
  destruct (deleted (bst x)); [discriminate|]. destruct (bparent x) as [p|]; [|discriminate].
  destruct (haspl (bst x)); [discriminate|]. destruct (negb (valid_upto L_TREE (bst x))); [discriminate|].
  intros E. bind_inv E.
  set (l1 := upd id (set_haspl true) (blocks s)) in *.
  assert (W1 : wf l1) by (eapply same_skel_wf; [apply upd_skel|auto]).
  assert (M1 : lm_ok l1) by (eapply lm_lvd; [apply upd_skel|apply lvd_upd; intros st; auto|exact M]).
  destruct (st_of l1 p); [|discriminate].
  destruct (negb (valid_upto L_CONNECTED s0)).
  - inversion E; subst; simpl. exact M1.
  - bind_inv E. destruct a0 as [[l2 tps] c]. inversion E; subst; simpl.
    destruct (connect_pass_lm _ _ _ _ _ _ _ W1 M1 E1) as (M2 & _ & _). exact M2.
Qed.

(* ------------------------------------------------------------------ acceptBlockHeader *)
Lemma insert_header_lm s id par w s' p : wf (blocks s) -> lm_ok (blocks s) ->
  find_blk par (blocks s) = Some p -> par <> id ->
  insert_header s id par w = Done s' -> lm_ok (blocks s').
Proof.
  intros W M Fp N. unfold insert_header.
  destruct (find_blk id (blocks s)) as [x|] eqn:Fx.
  - destruct (deleted (bst x)); [|intros E; inversion E; subst; auto].
    set (l1 := upd id (set_deleted false) (blocks s)).
    assert (W1 : wf l1) by (eapply same_skel_wf; [apply upd_skel|auto]).
    assert (M1 : lm_ok l1) by (apply lm_upd_lv; auto).
    destruct (find_blk id l1) as [x1|] eqn:F1; [|discriminate].
    intros E. bind_inv E. destruct a as [c b]. inversion E; subst s'; clear E. simpl.
    apply (lm_upd_raise l1 id x1 L_TREE c b (fun st => st) W1 M1 F1 E0). reflexivity.
  - rewrite Fp. intros E. bind_inv E. destruct a as [c b]. inversion E; subst s'; clear E. simpl.
    match goal with R : raise_validity _ ?x0 _ = Done _ |- _ => set (X0 := x0) in * end.
    assert (Lc : (level c <= level (bst p))%N).
    { unfold raise_validity in E0. simpl in E0. unfold st_of in E0. simpl in E0.
      destruct (N.eqb_spec id par) as [E1|E1]; [exfalso; auto|]. rewrite Fp in E0. simpl in E0.
      destruct (L_TREE <=? level (bst p))%N eqn:Le; [|discriminate]. inversion E0; subst. simpl. apply N.leb_le. exact Le. }
    intros c0 z q y Fc P Fq. simpl in Fc, Fq.
    destruct (N.eqb_spec id q) as [Eq|Eq].
    + exfalso. subst q. destruct (N.eqb_spec id c0) as [Ec|Ec].
      * inversion Fc; subst z. simpl in P. inversion P. auto.
      * apply (wf_parent_found _ W c0 z id Fc P). exact Fx.
    + destruct (N.eqb_spec id c0) as [Ec|Ec].
      * inversion Fc; subst z. simpl in P. inversion P; subst q. rewrite Fp in Fq. inversion Fq; subst. exact Lc.
      * eapply M; eauto.
Qed.

Lemma alt_hdr_lm s id parent s' res : wf (blocks s) -> lm_ok (blocks s) -> alt_hdr s id parent = Done (s', res) -> lm_ok (blocks s').
Proof.
  intros W M. unfold alt_hdr.
  assert (K : forall par p s1, find_blk par (blocks s) = Some p -> par <> id -> insert_header s id par 0 = Done s1 ->
            forall r, match st_of (blocks s1) id with
                      | Some st => if is_valid L_TREE st
                                   then Done (with_tips s1 (try_add_tip (tkind s1) (blocks s1) (tips s1) id), ROk)
                                   else Done (s1, RFailChain)
                      | None => Abort end = Done (s', r) -> lm_ok (blocks s')).
  { intros par p s1 Fp N E r. pose proof (insert_header_lm s id par 0 s1 p W M Fp N E) as M1.
    destruct (st_of (blocks s1) id); [|discriminate].
    destruct (is_valid L_TREE s0); intros E2; inversion E2; subst; simpl; auto. }
  destruct (find_blk id (blocks s)) as [x|] eqn:Fx.
  - destruct (deleted (bst x)); [|discriminate]. destruct (bparent x) as [p0|] eqn:Px; [|discriminate].
    destruct (find_blk p0 (blocks s)) as [p|] eqn:Fp; [|discriminate].
    destruct (deleted (bst p)); [intros E; inversion E; subst; auto|].
    intros E. bind_inv E. eapply (K p0 p a); eauto. eapply wf_parent_ne; eauto.
  - destruct (find_blk parent (blocks s)) as [p|] eqn:Fp; [|intros E; inversion E; subst; auto].
    destruct (deleted (bst p)); [intros E; inversion E; subst; auto|].
    intros E. bind_inv E. eapply (K parent p a); eauto. intros ->. congruence.
Qed.

Lemma pow_hdr_lm s id parent w s' res : Inv_flags s -> lm_ok (blocks s) -> pow_hdr s id parent w = Done (s', res) -> lm_ok (blocks s').
Proof.
  intros I M. pose proof I as [W _ _ _]. unfold pow_hdr.
  assert (K : forall par p s1, find_blk par (blocks s) = Some p -> par <> id ->
    (find_blk id (blocks s) = None -> find_blk par (blocks s) <> None) ->
    insert_header s id par w = Done s1 ->
    match find_blk id (blocks s1) with
    | None => Abort
    | Some x1 =>
      do rv <- raise_validity (blocks s1) x1 L_CONNECTED;
      let l2 := upd id (fun _ => fst rv) (blocks s1) in
      if negb (is_valid L_TREE (bst p)) then
        Done (with_blocks s1 (upd id (set_fchild true) l2), RFailChain)
      else
        let s2 := mkTree (tkind s) l2 (try_add_tip (tkind s) l2 (tips s1) id) (tip s1) (applied s1) in
        Done (pow_determine_best s2 id, ROk)
    end = Done (s', res) -> lm_ok (blocks s')).
  { intros par p s1 Fp N HP E1 E2.
    pose proof (insert_header_lm s id par w s1 p W M Fp N E1) as M1.
    destruct (insert_header_inv s id par w s1 I HP E1) as ([W1 _ _ _] & _).
    destruct (find_blk id (blocks s1)) as [x1|] eqn:Fx1; [|discriminate].
    bind_inv E2. destruct a as [c b]. simpl in E2.
    pose proof (lm_upd_raise (blocks s1) id x1 L_CONNECTED c b (fun st => st) W1 M1 Fx1 E eq_refl) as M2.
    destruct (negb (is_valid L_TREE (bst p))).
    - inversion E2; subst s'; clear E2. simpl.
      eapply lm_lvd; [apply upd_skel|apply lvd_upd; intros st; auto|exact M2].
    - inversion E2; subst s'; clear E2. rewrite (proj1 (pow_determine_best_blocks _ id)). simpl. exact M2. }
  destruct (find_blk id (blocks s)) as [x|] eqn:Fx.
  - destruct (bparent x) as [p0|] eqn:Px; [|discriminate].
    destruct (find_blk p0 (blocks s)) as [p|] eqn:Fp; [|intros E; inversion E; subst; auto].
    destruct (deleted (bst p)); [intros E; inversion E; subst; auto|].
    intros E. bind_inv E. eapply (K p0 p a); eauto.
    + eapply wf_parent_ne; eauto.
    + intros H; discriminate.
  - destruct (find_blk parent (blocks s)) as [p|] eqn:Fp; [|intros E; inversion E; subst; auto].
    destruct (deleted (bst p)); [intros E; inversion E; subst; auto|].
    intros E. bind_inv E. eapply (K parent p a); eauto.
    + intros ->. congruence.
    + intros _. rewrite Fp. discriminate.
Qed.

(* ------------------------------------------------------------------ removePayloads *)
Lemma lm_upd_lower l id x c : lm_ok l -> find_blk id l = Some x -> (level c <= level (bst x))%N ->
  (forall ch z, find_blk ch l = Some z -> bparent z = Some id -> (level (bst z) <= level c)%N) ->
  lm_ok (upd id (fun _ => c) l).
Proof.
  intros M Fx Lc CH ch z' q y' Fc P Fq. rewrite find_upd in Fc, Fq.
  destruct (find_blk ch l) as [z|] eqn:Fc0; [|discriminate]. destruct (find_blk q l) as [y|] eqn:Fq0; [|discriminate].
  simpl in Fc, Fq. inversion Fc; subst z'. inversion Fq; subst y'. clear Fc Fq.
  pose proof (find_blk_bid _ _ _ Fc0) as Bz. pose proof (find_blk_bid _ _ _ Fq0) as By.
  assert (Pz : bparent z = Some q) by (destruct (bid z =? id)%N; simpl in P; auto).
  pose proof (M ch z q y Fc0 Pz Fq0) as Mz.
  destruct (N.eqb_spec (bid z) id) as [Ez|Ez]; destruct (N.eqb_spec (bid y) id) as [Ey|Ey]; simpl.
  - lia.
  - assert (z = x) by (rewrite Bz in Ez; subst ch; congruence). subst z. lia.
  - apply (CH ch z Fc0). rewrite Pz. f_equal. congruence.
  - exact Mz.
Qed.

Lemma alt_rmpl_lm s id s' : wf (blocks s) -> lm_ok (blocks s) -> alt_rmpl s id = Done s' -> lm_ok (blocks s').
Proof.
  intros W M. unfold alt_rmpl. destruct (find_blk id (blocks s)) as [x|] eqn:Fx; [|discriminate].
  destruct (deleted (bst x)); [discriminate|]. destruct (bparent x) as [p|]; [|discriminate].
  destruct (negb (haspl (bst x)) || active (bst x) ||
            negb (forallb (fun c => negb (valid_upto L_CONNECTED (bst c))) (children (blocks s) id))) eqn:G; [discriminate|].
  apply orb_false_iff in G. destruct G as [_ G]. apply negb_false_iff in G.
  set (s1 := with_blocks s (upd id (set_haspl false) (blocks s))).
  assert (W1 : wf (blocks s1)) by (eapply same_skel_wf; [apply upd_skel|exact W]).
  assert (M1 : lm_ok (blocks s1)) by (simpl; apply lm_upd_lv; auto).
  pose proof (revalidate_core_lm s1 id RPop W1 M1) as M2.
  pose proof (revalidate_core_lvd s1 id RPop W1) as LV2.
  set (s2 := revalidate_core s1 id RPop) in *.
  unfold st_of. destruct (find_blk id (blocks s2)) as [x2|] eqn:Fx2; [|discriminate]. simpl.
  intros E. bind_inv E. inversion E; subst s'; clear E. simpl.
  destruct (valid_upto L_CONNECTED (bst x2)) eqn:VC.
  - bind_inv E0. inversion E0; subst a; clear E0.
    unfold assert in E. unfold lower_validity in *.
    destruct (fpop (bst x2)); simpl in E; [discriminate|].
    destruct (L_TREE <? level (bst x2))%N eqn:LT; simpl in E; [|discriminate]. simpl.
    apply N.ltb_lt in LT.
    apply (lm_upd_lower (blocks s2) id x2 _ M2 Fx2); simpl; [unfold L_TREE in *; lia|].
    (* the children were unconnected when the call started, and levels did not change since *)
    intros ch z Fc P.
    pose proof (same_skel_find _ _ (same_skel_trans _ _ _ (upd_skel id (set_haspl false) (blocks s)) (revalidate_core_skel s1 id RPop)) ch) as SF.
    fold s2 in SF. rewrite Fc in SF. destruct (find_blk ch (blocks s)) as [z0|] eqn:Fc0; [|contradiction].
    assert (Pz0 : bparent z0 = Some id) by (unfold skel in SF; congruence).
    rewrite forallb_forall in G. specialize (G z0 (proj2 (children_In _ id z0) (conj (find_blk_In _ _ _ Fc0) Pz0))).
    apply negb_true_iff in G. unfold valid_upto, L_CONNECTED in G. apply N.leb_gt in G.
    (* level of z = level of z0 *)
    assert (Fc1 : find_blk ch (blocks s1) = Some (if (bid z0 =? id)%N then with_st z0 (set_haspl false (bst z0)) else z0)).
    { simpl. rewrite find_upd, Fc0. reflexivity. }
    destruct (LV2 ch _ Fc1) as (z2 & Fz2 & L2 & _). rewrite Fc in Fz2. inversion Fz2; subst z2.
    rewrite L2. destruct (bid z0 =? id)%N; simpl; unfold L_TREE; lia.
  - inversion E0; subst a. exact M2.
Qed.

(* ------------------------------------------------------------------ every operation *)
Theorem step_out_lm s o s' res : Inv_flags s -> S3_ok (blocks s) -> lm_ok (blocks s) ->
  step_out s o = Done (s', res) -> lm_ok (blocks s').
Proof.
  intros I S3 M. pose proof I as [W _ _ _]. unfold step_out. destruct (tkind s) eqn:K, o; try discriminate.
  - apply alt_hdr_lm; auto.
  - apply alt_body_lm; auto.
  - apply alt_set_lm; auto.
  - intros E. bind_inv E. inversion E; subst. eapply invalidate_lm; eauto.
  - intros E. bind_inv E. inversion E; subst. eapply revalidate_lm; eauto.
  - intros E. bind_inv E. inversion E; subst. eapply remove_subtree_lm; eauto.
  - intros E. bind_inv E. inversion E; subst. eapply alt_rmpl_lm; eauto.
  - apply pow_hdr_lm; auto.
  - intros E. bind_inv E. inversion E; subst. eapply invalidate_lm; eauto.
  - intros E. bind_inv E. inversion E; subst. eapply revalidate_lm; eauto.
  - intros E. bind_inv E. inversion E; subst. eapply remove_subtree_lm; eauto.
Qed.

Lemma lm_init_alt h : lm_ok (blocks (alt_init h)).
Proof. intros c x q y Fc P Fq. simpl in Fc. destruct c; [inversion Fc; subst; discriminate P|discriminate Fc]. Qed.
Lemma lm_init_pow h w : lm_ok (blocks (pow_init h w)).
Proof. intros c x q y Fc P Fq. simpl in Fc. destruct c; [inversion Fc; subst; discriminate P|discriminate Fc]. Qed.

Theorem step_lm s o : Inv_flags s -> S3_ok (blocks s) -> lm_ok (blocks s) -> lm_ok (blocks (step s o)).
Proof.
  intros I S3 M. unfold step. destruct (step_out s o) as [[s1 r]| |] eqn:E; auto. eapply step_out_lm; eauto.
Qed.

(* connected => every ancestor connected (more generally: the level of a block bounds the level of all ancestors below it) *)
Theorem connected_ancestors l : wf l -> lm_ok l -> forall c x, find_blk c l = Some x ->
  forall a z, In a (path l c) -> find_blk a l = Some z -> (level (bst x) <= level (bst z))%N.
Proof.
  induction l as [|y r IH]; intros W M c x Fc a z Ha Fa; [discriminate|].
  pose proof W as W0. destruct W as (Wr & Hy & Hp).
  assert (Mr : lm_ok r).
  { intros c0 z0 q y0 F0 P Fq. apply (M c0 z0 q y0); auto; simpl.
    - destruct (N.eqb_spec (bid y) c0) as [E1|E1]; auto. rewrite <- E1, Hy in F0. discriminate.
    - destruct (N.eqb_spec (bid y) q) as [E1|E1]; auto. rewrite <- E1, Hy in Fq. discriminate. }
  simpl in Fc. destruct (N.eqb_spec (bid y) c) as [E|E].
  - inversion Fc; subst x. simpl in Ha. rewrite (proj2 (N.eqb_eq _ _) E) in Ha. destruct Ha as [<-|Ha].
    + simpl in Fa. rewrite (proj2 (N.eqb_eq _ _) E) in Fa. inversion Fa; subst. lia.
    + destruct (bparent y) as [q|] eqn:Q; [|contradiction].
      destruct (find_blk q r) as [yq|] eqn:Fq; [|exfalso; auto].
      assert (Ar : find_blk a r = Some z).
      { simpl in Fa. destruct (N.eqb_spec (bid y) a) as [E2|E2]; auto.
        exfalso. apply (path_found r q a Ha). rewrite <- E2. exact Hy. }
      pose proof (IH Wr Mr q yq Fq a z Ha Ar) as L1.
      assert (L2 : (level (bst y) <= level (bst yq))%N).
      { apply (M (bid y) y q yq); auto; simpl; [rewrite N.eqb_refl; reflexivity|].
        destruct (N.eqb_spec (bid y) q) as [E2|E2]; auto. exfalso. apply (wf_own_parent y r q W0 Q). auto. }
      lia.
  - rewrite path_skip in Ha; auto.
    assert (Ar : find_blk a r = Some z).
    { simpl in Fa. destruct (N.eqb_spec (bid y) a) as [E2|E2]; auto.
      exfalso. apply (path_found r c a Ha). rewrite <- E2. exact Hy. }
    exact (IH Wr Mr c x Fc a z Ha Ar).
Qed.
