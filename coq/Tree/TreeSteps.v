(** Tree/TreeSteps — the flag invariant for the remaining operations (acceptBlockHeader of both trees,
    acceptBlock, removePayloads) and the step theorem for EVERY operation of both tree kinds. *)
From Coq Require Import ZArith NArith List Bool Lia.
From VB Require Import Tree.TreeDefs Tree.TreeInv Tree.TreePass Tree.TreeProofs Tree.TreeMono.
Import ListNotations.

Lemma upd_upd id f g l : upd id g (upd id f l) = upd id (fun s => g (f s)) l.
Proof.
  unfold upd. rewrite map_map. apply map_ext. intros x.
  destruct (N.eqb_spec (bid x) id) as [E|E]; simpl.
  - rewrite (proj2 (N.eqb_eq _ _) E). reflexivity.
  - rewrite (proj2 (N.eqb_neq _ _) E). reflexivity.
Qed.

Lemma upd_const_fl_le l id x c : wf l -> find_blk id l = Some x ->
  fblock c = fblock (bst x) -> fpop c = fpop (bst x) -> fchild c = fchild (bst x) -> lvP c ->
  fl_le l (upd id (fun _ => c) l).
Proof.
  intros W F B P C LV. unfold upd.
  assert (G : forall y, In y l -> bid y = id -> y = x).
  { intros y Hy E. pose proof (wf_In_find l W y Hy) as F2. rewrite E, F in F2. congruence. }
  clear F W. induction l as [|z r IH]; simpl; constructor.
  - destruct (N.eqb_spec (bid z) id) as [E|E]; simpl.
    + rewrite (G z (or_introl eq_refl) E). split; [reflexivity|]. split; [|split; auto].
      unfold failed. rewrite B, P, C. auto.
    + split; [reflexivity|]. split; auto.
  - apply IH. intros y Hy. apply G. right; auto.
Qed.

Lemma raise_tree_lvP l x c b : raise_validity l x L_TREE = Done (c, b) ->
  fpop (bst x) = false -> deleted (bst x) = false -> lvP c.
Proof.
  unfold raise_validity. intros H P D. rewrite P in H.
  destruct (level (bst x) <? L_TREE)%N eqn:Lv.
  - assert (lvP (set_level L_TREE (bst x))).
    { split; simpl; [intros _; unfold L_TREE; lia | rewrite D; discriminate]. }
    destruct (bparent x) as [p|].
    + destruct (st_of l p) as [ps|]; [|discriminate]. destruct (L_TREE <=? level ps)%N; [|discriminate].
      inversion H; subst; auto.
    + inversion H; subst; auto.
  - inversion H; subst. apply N.ltb_ge in Lv. split; [intros _; exact Lv | rewrite D; discriminate].
Qed.

(* ------------------------------------------------------------------ insertBlockHeader *)
Lemma insert_header_inv s id parent w s' : Inv_flags s ->
  (find_blk id (blocks s) = None -> find_blk parent (blocks s) <> None) ->
  insert_header s id parent w = Done s' -> Inv_flags s' /\ tkind s' = tkind s /\ tip s' = tip s /\ mono (blocks s) (blocks s').
Proof.
  intros I HP. pose proof I as [W H F L]. unfold insert_header.
  destruct (find_blk id (blocks s)) as [x|] eqn:Fx.
  - destruct (deleted (bst x)) eqn:Dx; [|intros E; inversion E; subst; auto using mono_refl].
    set (l1 := upd id (set_deleted false) (blocks s)).
    pose proof (find_blk_bid _ _ _ Fx) as Bx.
    assert (F1 : find_blk id l1 = Some (with_st x (set_deleted false (bst x)))).
    { unfold l1. rewrite find_upd, Fx. simpl. rewrite Bx, N.eqb_refl. reflexivity. }
    rewrite F1. intros E. bind_inv E. destruct a as [c b]. inversion E; subst s'; clear E. simpl.
    unfold l1. rewrite upd_upd.
    destruct (raise_validity_fl _ _ _ _ _ E0) as (B & P & C & _ & _). simpl in B, P, C.
    assert (Lx : lvP (bst x)) by (unfold lv_ok in L; rewrite Forall_forall in L; apply L; eapply find_blk_In; eauto).
    assert (LC : lvP c).
    { eapply raise_tree_lvP; eauto; simpl; auto. destruct Lx as [_ Lx]. auto. }
    assert (FL : fl_le (blocks s) (upd id (fun _ => c) (blocks s))) by (eapply upd_const_fl_le; eauto).
    split; [eapply inv_of_fl_le_tree; [exact I|exact FL]|]. repeat split; auto. apply fl_le_mono, FL.
  - destruct (find_blk parent (blocks s)) as [p|] eqn:Fp; [|exfalso; apply (HP eq_refl); reflexivity].
    intros E. bind_inv E. destruct a as [c b]. inversion E; subst s'; clear E. simpl.
    split; [|repeat split; auto; apply mono_cons; exact Fx].
    match goal with R : raise_validity _ ?x0 _ = Done _ |- _ => set (X0 := x0) in * end.
    destruct (raise_validity_fl _ _ _ _ _ E0) as (B & P & C & _ & _). simpl in B, P, C.
    assert (LC : lvP c) by (eapply raise_tree_lvP; eauto; reflexivity).
    constructor; simpl.
    + split; auto. split; auto. rewrite Fp. discriminate.
    + split; auto. rewrite Fp. reflexivity.
    + split; auto. rewrite Fp. intros Fd. rewrite C. exact Fd.
    + constructor; auto.
Qed.

(* ------------------------------------------------------------------ ALT: acceptBlockHeader *)
Theorem alt_hdr_inv s id parent s' res : Inv_flags s -> alt_hdr s id parent = Done (s', res) ->
  Inv_flags s' /\ tip s' = tip s /\ mono (blocks s) (blocks s').
Proof.
  intros I. unfold alt_hdr.
  assert (K : forall par s1, find_blk par (blocks s) <> None -> insert_header s id par 0 = Done s1 ->
            forall r, match st_of (blocks s1) id with
                      | Some st => if is_valid L_TREE st
                                   then Done (with_tips s1 (try_add_tip (tkind s1) (blocks s1) (tips s1) id), ROk)
                                   else Done (s1, RFailChain)
                      | None => Abort end = Done (s', r) -> Inv_flags s' /\ tip s' = tip s /\ mono (blocks s) (blocks s')).
  { intros par s1 HP E r. destruct (insert_header_inv s id par 0 s1 I (fun _ => HP) E) as (I1 & _ & T1 & M1).
    destruct (st_of (blocks s1) id); [|discriminate].
    destruct (is_valid L_TREE s0); intros E2; inversion E2; subst; simpl; split; auto.
    eapply inv_same_blocks; [|exact I1]. reflexivity. }
  destruct (find_blk id (blocks s)) as [x|] eqn:Fx.
  - destruct (deleted (bst x)); [|discriminate]. destruct (bparent x) as [p0|]; [|discriminate].
    destruct (find_blk p0 (blocks s)) as [p|] eqn:Fp; [|discriminate].
    destruct (deleted (bst p)); [intros E; inversion E; subst; auto using mono_refl|].
    intros E. bind_inv E. eapply (K p0 a); eauto. rewrite Fp. discriminate.
  - destruct (find_blk parent (blocks s)) as [p|] eqn:Fp; [|intros E; inversion E; subst; auto using mono_refl].
    destruct (deleted (bst p)); [intros E; inversion E; subst; auto using mono_refl|].
    intros E. bind_inv E. eapply (K parent a); eauto. rewrite Fp. discriminate.
Qed.

(* ------------------------------------------------------------------ ALT: acceptBlock *)
Lemma connect_pass_fl_eq l0 t : forall l tps l' tps' c, connect_pass l0 t l tps = Done (l', tps', c) -> fl_eq l l'.
Proof.
  induction l as [|x r IH]; simpl; intros tps l' tps' c E.
  - inversion E; subst. constructor.
  - bind_inv E. destruct a as [[o tp1] ct].
    specialize (IH _ _ _ _ E0).
    destruct ((bid x =? t)%N || (match bparent x with Some p => memN p ct | None => false end && haspl (bst x))).
    + bind_inv E. destruct a as [x' tp2]. inversion E; subst; clear E. simpl.
      constructor; auto.
      unfold connect_block in E1. repeat bind_inv E1.
      match goal with R : raise_validity _ _ _ = Done ?a |- _ => destruct a as [s1 b1];
        destruct (raise_validity_fl _ _ _ _ _ R) as (B & P & C & LV & DD) end.
      inversion E1; subst. simpl. (split; [|split; [|split; [|split; [|split]]]]); auto.
    + inversion E; subst. constructor; auto. (split; [|split; [|split; [|split; [|split]]]]); auto.
Qed.

Theorem alt_body_inv s id s' res : Inv_flags s -> alt_body s id = Done (s', res) ->
  fl_eq (blocks s) (blocks s') /\ tip s' = tip s.
Proof.
  intros I. unfold alt_body. destruct (find_blk id (blocks s)) as [x|]; [|discriminate].
  destruct (deleted (bst x)); [discriminate|]. destruct (bparent x) as [p|]; [|discriminate].
  destruct (haspl (bst x)); [discriminate|]. destruct (negb (valid_upto L_TREE (bst x))); [discriminate|].
  intros E. bind_inv E.
  pose proof (upd_fl_eq id (set_haspl true) (blocks s) (keeps_set_haspl true)) as U.
  destruct (st_of (upd id (set_haspl true) (blocks s)) p); [|discriminate].
  destruct (negb (valid_upto L_CONNECTED s0)).
  - inversion E; subst; simpl. auto.
  - bind_inv E. destruct a0 as [[l2 tps] c]. inversion E; subst; simpl. split; auto.
    eapply fl_eq_trans; [exact U|]. eapply connect_pass_fl_eq; eauto.
Qed.

(* ------------------------------------------------------------------ ALT: removePayloads *)
Theorem alt_rmpl_inv s id s' : Inv_flags s -> alt_rmpl s id = Done s' -> Inv_flags s' /\ tip s' = tip s.
Proof.
  intros I. unfold alt_rmpl. destruct (find_blk id (blocks s)) as [x|] eqn:Fx; [|discriminate].
  destruct (deleted (bst x)); [discriminate|]. destruct (bparent x) as [p|]; [|discriminate].
  destruct (negb (haspl (bst x)) || active (bst x) ||
            negb (forallb (fun c => negb (valid_upto L_CONNECTED (bst c))) (children (blocks s) id))); [discriminate|].
  set (s1 := with_blocks s (upd id (set_haspl false) (blocks s))).
  assert (I1 : Inv_flags s1).
  { eapply inv_of_fl_eq_tree; [exact I|]. simpl. apply upd_fl_eq, keeps_set_haspl. }
  pose proof (revalidate_core_inv s1 id RPop I1) as I2.
  assert (T2 : tip (revalidate_core s1 id RPop) = tip s).
  { unfold revalidate_core. destruct (find_blk id (blocks s1)); auto.
    destruct (negb (has_reason RPop (bst b))); auto.
    destruct (has_other_failure RPop (bst b)); auto.
    destruct (reval_pass _ _ _ _ _) as [[? ?] ?]. reflexivity. }
  set (s2 := revalidate_core s1 id RPop) in *.
  destruct (st_of (blocks s2) id) as [st2|] eqn:S2; [|discriminate].
  intros E. bind_inv E. inversion E; subst s'; clear E. simpl. split; auto.
  destruct (valid_upto L_CONNECTED st2).
  - bind_inv E0. inversion E0; subst a; clear E0.
    unfold st_of in S2. destruct (find_blk id (blocks s2)) as [x2|] eqn:Fx2; [|discriminate]. simpl in S2.
    inversion S2; subst st2.
    pose proof I2 as [W2 _ _ L2]. unfold lv_ok in L2. rewrite Forall_forall in L2.
    pose proof (L2 x2 (find_blk_In _ _ _ Fx2)) as LX.
    assert (LS : lvP (set_level L_TREE (bst x2))).
    { destruct LX as [La Lb]. split; simpl; [intros _; unfold L_TREE; lia | auto]. }
    eapply inv_of_fl_le_tree; [exact I2|]. simpl.
    apply (upd_const_fl_le (blocks s2) id x2 _ W2 Fx2); unfold lower_validity;
      destruct (fpop (bst x2)) eqn:P2; simpl; auto; destruct (L_TREE <? level (bst x2))%N; simpl; auto.
  - inversion E0; subst a. eapply inv_same_blocks; [|exact I2]. reflexivity.
Qed.

(* ------------------------------------------------------------------ POW: acceptBlockHeader *)
Lemma pow_determine_best_inv s c : Inv_flags s -> Inv_flags (pow_determine_best s c).
Proof. intros I. eapply inv_same_blocks; [apply pow_determine_best_blocks|exact I]. Qed.

Lemma wf_parent_ne l : wf l -> forall id x q, find_blk id l = Some x -> bparent x = Some q -> q <> id.
Proof.
  induction l as [|z r IH]; intros W id x q F Q; [discriminate|].
  pose proof W as W0. destruct W as (Wr & Hz & Hp). simpl in F.
  destruct (N.eqb_spec (bid z) id) as [E|E].
  - inversion F; subst z. intros E2. apply (wf_own_parent x r q W0 Q). congruence.
  - eapply IH; eauto.
Qed.

Lemma insert_header_facts s id par w s1 p : wf (blocks s) ->
  (forall x, find_blk id (blocks s) = Some x -> bparent x = Some par) ->
  find_blk par (blocks s) = Some p -> par <> id ->
  insert_header s id par w = Done s1 ->
  (forall x1, find_blk id (blocks s1) = Some x1 -> bparent x1 = Some par) /\ find_blk par (blocks s1) = Some p /\
  tkind s1 = tkind s.
Proof.
  intros W HX Fp N. unfold insert_header.
  destruct (find_blk id (blocks s)) as [x|] eqn:Fx.
  - pose proof (HX x eq_refl) as Px. pose proof (find_blk_bid _ _ _ Fx) as Bx.
    assert (Bp : bid p <> id) by (rewrite (find_blk_bid _ _ _ Fp); exact N).
    destruct (deleted (bst x)).
    + rewrite find_upd, Fx. simpl. rewrite Bx, N.eqb_refl. intros E. bind_inv E. inversion E; subst s1; clear E. simpl.
      rewrite upd_upd. split; [|split; auto].
      * intros x1. rewrite find_upd, Fx. simpl. rewrite Bx, N.eqb_refl. intros E; inversion E; subst. exact Px.
      * rewrite find_upd, Fp. simpl. rewrite (proj2 (N.eqb_neq _ _) Bp). reflexivity.
    + intros E; inversion E; subst s1. split; [|split; auto]. intros x1 F1. rewrite Fx in F1. inversion F1; subst. exact Px.
  - rewrite Fp. intros E. bind_inv E. inversion E; subst s1; clear E. simpl. rewrite N.eqb_refl.
    split; [|split; auto].
    + intros x1 E; inversion E; subst. reflexivity.
    + destruct (N.eqb_spec id par) as [E|E]; [exfalso; auto|exact Fp].
Qed.

Lemma pow_hdr_tail s id par w p s1 s' res : Inv_flags s ->
  (forall x, find_blk id (blocks s) = Some x -> bparent x = Some par) ->
  find_blk par (blocks s) = Some p -> deleted (bst p) = false -> par <> id ->
  insert_header s id par w = Done s1 ->
  match find_blk id (blocks s1) with
  | None => Abort
  | Some x1 =>
    do rv <- raise_validity (blocks s1) x1 L_CONNECTED;
    let l2 := upd id (fun _ => fst rv) (blocks s1) in
    if negb (is_valid L_TREE (bst p)) then
      Done (with_blocks s1 (upd id (set_fchild true) l2), RFailChain)
    else
      let s2 := mkTree (tkind s) l2 (try_add_tip (tkind s) l2 (tips s1) id) (tip s1) (applied s1) in
      Done (pow_determine_best s2 id, ROk)
  end = Done (s', res) -> Inv_flags s' /\ (tip_ok s -> tip_ok s').
Proof.
  intros I HX Fp Dp N E1 E2. pose proof I as [W _ _ L].
  destruct (insert_header_inv s id par w s1 I) as (I1 & _ & T1 & M1); auto.
  { intros _. rewrite Fp. discriminate. }
  destruct (insert_header_facts s id par w s1 p W HX Fp N E1) as (PX & Fp1 & _).
  pose proof I1 as [W1 H1 F1 L1].
  destruct (find_blk id (blocks s1)) as [x1|] eqn:Fx1; [|discriminate].
  bind_inv E2. destruct a as [c b].
  destruct (raise_validity_fl _ _ _ _ _ E) as (B & P & C & LV & DD). simpl in E2.
  destruct (negb (is_valid L_TREE (bst p))) eqn:V.
  - inversion E2; subst s'; clear E2. simpl. rewrite upd_upd.
    assert (Fd : failed (bst p) = true).
    { unfold is_valid in V. destruct (failed (bst p)); auto. simpl in V. exfalso.
      unfold lv_ok in L. rewrite Forall_forall in L.
      destruct (L p (find_blk_In _ _ _ Fp)) as [La _]. specialize (La Dp).
      unfold valid_upto, L_TREE in V. apply negb_true_iff, N.leb_gt in V. lia. }
    pose proof (fl_ok_find _ W1 F1 id x1 par p Fx1 (PX x1 eq_refl) Fp1 Fd) as Cx.
    assert (FE : fl_eq (blocks s1) (upd id (fun _ => set_fchild true c) (blocks s1))).
    { eapply upd_const_fl_eq; eauto; simpl; try congruence; try (intros Hl; apply lvP_set_fchild; auto). }
    split; [eapply inv_of_fl_eq_tree; [exact I1|exact FE]|].
    intros T. eapply tip_ok_same; [exact T| |simpl; exact T1].
    simpl. eapply mono_trans; [exact M1|apply fl_eq_mono, FE].
  - inversion E2; subst s'; clear E2.
    assert (FE : fl_eq (blocks s1) (upd id (fun _ => c) (blocks s1))) by (eapply upd_const_fl_eq; eauto).
    split.
    + apply pow_determine_best_inv. eapply inv_of_fl_eq_tree; [exact I1|exact FE].
    + intros T. apply pow_determine_best_tip_ok. rewrite T1. eapply tip_ok_mono; [exact T|].
      eapply mono_trans; [exact M1|apply fl_eq_mono, FE].
Qed.

Theorem pow_hdr_inv s id parent w s' res : Inv_flags s -> pow_hdr s id parent w = Done (s', res) ->
  Inv_flags s' /\ (tip_ok s -> tip_ok s').
Proof.
  intros I. pose proof I as [W _ _ _]. unfold pow_hdr.
  destruct (find_blk id (blocks s)) as [x|] eqn:Fx.
  - destruct (bparent x) as [p0|] eqn:Px; [|discriminate].
    destruct (find_blk p0 (blocks s)) as [p|] eqn:Fp; [|intros E; inversion E; subst; auto].
    destruct (deleted (bst p)) eqn:Dp; [intros E; inversion E; subst; auto|].
    intros E. bind_inv E.
    eapply (pow_hdr_tail s id p0 w p a s' res I); eauto.
    + intros x0 F0. rewrite Fx in F0. inversion F0; subst x0. exact Px.
    + eapply wf_parent_ne; eauto.
  - destruct (find_blk parent (blocks s)) as [p|] eqn:Fp; [|intros E; inversion E; subst; auto].
    destruct (deleted (bst p)) eqn:Dp; [intros E; inversion E; subst; auto|].
    intros E. bind_inv E.
    eapply (pow_hdr_tail s id parent w p a s' res I); eauto.
    + intros x0 F0. rewrite Fx in F0. discriminate.
    + intros ->. congruence.
Qed.

(* ------------------------------------------------------------------ every operation of both trees *)
Theorem step_out_inv s o s' res : Inv_flags s -> step_out s o = Done (s', res) -> Inv_flags s'.
Proof.
  intros I. unfold step_out. destruct (tkind s) eqn:K, o; try discriminate.
  - intros E. eapply alt_hdr_inv; eauto.
  - intros E. eapply inv_of_fl_eq_tree; [exact I|]. eapply alt_body_inv; eauto.
  - intros E. eapply alt_set_inv; eauto.
  - intros E. bind_inv E. inversion E; subst. eapply invalidate_inv; eauto.
  - intros E. bind_inv E. inversion E; subst. eapply revalidate_inv; eauto.
  - intros E. bind_inv E. inversion E; subst. eapply remove_subtree_inv; eauto.
  - intros E. bind_inv E. inversion E; subst. eapply alt_rmpl_inv; eauto.
  - intros E. eapply pow_hdr_inv; eauto.
  - intros E. bind_inv E. inversion E; subst. eapply invalidate_inv; eauto.
  - intros E. bind_inv E. inversion E; subst. eapply revalidate_inv; eauto.
  - intros E. bind_inv E. inversion E; subst. eapply remove_subtree_inv; eauto.
Qed.

Theorem step_inv s o : Inv_flags s -> Inv_flags (step s o).
Proof.
  intros I. unfold step. destruct (step_out s o) as [[s1 r]| |] eqn:E; auto. eapply step_out_inv; eauto.
Qed.

Theorem run_inv ops : forall s, Inv_flags s -> Inv_flags (run s ops).
Proof.
  unfold run. induction ops as [|o r IH]; simpl; intros s I; auto. apply IH, step_inv, I.
Qed.
