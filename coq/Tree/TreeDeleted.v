(** Tree/TreeDeleted — S3: a removed block is at VALID_UNKNOWN, carries no ACTIVE / HAS_PAYLOADS, and has only
    removed children.  Preserved by every operation of both trees. *)
From Coq Require Import ZArith NArith List Bool Lia.
From VB Require Import Tree.TreeDefs Tree.TreeInv Tree.TreePass Tree.TreeProofs Tree.TreeExact Tree.TreeMono Tree.TreeSteps
  Tree.TreeTips Tree.TreeTipsOps.
Import ListNotations.

Definition dzP (st : status) : Prop :=
  deleted st = true -> level st = 0%N /\ haspl st = false /\ active st = false.
Definition dz_ok (l : list blk) : Prop := forall p y, find_blk p l = Some y -> dzP (bst y).
(* a removed block has only removed children *)
Definition dc_ok (l : list blk) : Prop :=
  forall c x q y, find_blk c l = Some x -> bparent x = Some q -> find_blk q l = Some y ->
    deleted (bst y) = true -> deleted (bst x) = true.
Definition S3_ok (l : list blk) : Prop := dz_ok l /\ dc_ok l.

(* the fields S3 talks about *)
Definition dzf (st : status) := (level st, haspl st, active st).

(* same skeleton, same deleted flag, removed blocks keep level / HAS_PAYLOADS / ACTIVE *)
Definition dq (l l' : list blk) : Prop :=
  same_skel l l' /\
  forall p y y', find_blk p l = Some y -> find_blk p l' = Some y' ->
    deleted (bst y') = deleted (bst y) /\ (deleted (bst y) = true -> dzf (bst y') = dzf (bst y)).

Lemma dq_refl l : dq l l.
Proof. split; [apply same_skel_refl|]. intros p y y' F F'. rewrite F in F'. inversion F'; subst. auto. Qed.

Lemma dq_trans a b c : dq a b -> dq b c -> dq a c.
Proof.
  intros [S1 H1] [S2 H2]. split; [eapply same_skel_trans; eauto|].
  intros p y y'' F F''. pose proof (same_skel_find _ _ S1 p) as SF. rewrite F in SF.
  destruct (find_blk p b) as [y'|] eqn:Fb; [|contradiction].
  destruct (H1 p y y' F Fb) as [D1 Z1]. destruct (H2 p y' y'' Fb F'') as [D2 Z2].
  split; [congruence|]. intros D. rewrite Z2, Z1; auto. congruence.
Qed.

Lemma dq_dz l l' : dq l l' -> dz_ok l -> dz_ok l'.
Proof.
  intros [S H] Z p y' F' D. pose proof (same_skel_find _ _ S p) as SF. rewrite F' in SF.
  destruct (find_blk p l) as [y|] eqn:F; [|contradiction].
  destruct (H p y y' F F') as [D1 Z1]. rewrite D1 in D. specialize (Z1 D). specialize (Z p y F D).
  unfold dzf in Z1. inversion Z1 as [[E1 E2 E3]]. destruct Z as (A & B & C). repeat split; congruence.
Qed.

Lemma dq_dc l l' : dq l l' -> dc_ok l -> dc_ok l'.
Proof.
  intros [S H] C c x' q y' Fc P Fq D.
  pose proof (same_skel_find _ _ S c) as SC. rewrite Fc in SC.
  pose proof (same_skel_find _ _ S q) as SQ. rewrite Fq in SQ.
  destruct (find_blk c l) as [x|] eqn:Fc0; [|contradiction]. destruct (find_blk q l) as [y|] eqn:Fq0; [|contradiction].
  destruct (H c x x' Fc0 Fc) as [Dx _]. destruct (H q y y' Fq0 Fq) as [Dy _].
  rewrite Dx. apply (C c x q y Fc0); auto; [unfold skel in SC; congruence | congruence].
Qed.

Lemma dq_S3 l l' : dq l l' -> S3_ok l -> S3_ok l'.
Proof. intros Q [Z C]. split; [eapply dq_dz; eauto | eapply dq_dc; eauto]. Qed.

(* updates *)
Lemma dq_upd_fields id f l : (forall s, deleted (f s) = deleted s /\ dzf (f s) = dzf s) -> dq l (upd id f l).
Proof.
  intros K. split; [apply upd_skel|]. intros p y y' F F'. rewrite find_upd, F in F'. simpl in F'. inversion F'; subst y'.
  destruct (bid y =? id)%N; simpl; auto. destruct (K (bst y)). auto.
Qed.

Lemma dq_upd_live id f l x : find_blk id l = Some x -> deleted (bst x) = false ->
  (forall s, deleted (f s) = deleted s) -> dq l (upd id f l).
Proof.
  intros Fx Dx K. split; [apply upd_skel|]. intros p y y' F F'. rewrite find_upd, F in F'. simpl in F'. inversion F'; subst y'.
  destruct (N.eqb_spec (bid y) id) as [E|E]; simpl; auto. split; [apply K|].
  intros D. exfalso. rewrite (find_blk_bid _ _ _ F) in E. subst p. rewrite Fx in F. inversion F; subst. congruence.
Qed.

Lemma dq_upd_const_live id c l x : find_blk id l = Some x -> deleted (bst x) = false -> deleted c = false ->
  dq l (upd id (fun _ => c) l).
Proof.
  intros Fx Dx Dc. split; [apply upd_skel|]. intros p y y' F F'. rewrite find_upd, F in F'. simpl in F'. inversion F'; subst y'.
  destruct (N.eqb_spec (bid y) id) as [E|E]; simpl; auto.
  rewrite (find_blk_bid _ _ _ F) in E. subst p. rewrite Fx in F. inversion F; subst. split; [congruence|]. intros D; congruence.
Qed.

Lemma dq_gpass v stop t l : wf l -> dq l (fst (gpass (set_fchild v) stop t l)).
Proof.
  intros W. split; [apply gpass_skel|]. intros p y y' F F'.
  destruct (gpass_exact v stop t l W p y F) as (y2 & F2 & _ & _ & _ & _ & Lv & Dl & Ac & Hp & _).
  rewrite F' in F2. inversion F2; subst y2. split; auto. intros _. unfold dzf. congruence.
Qed.

Lemma set_reason_fields r b s : deleted (set_reason r b s) = deleted s /\ dzf (set_reason r b s) = dzf s.
Proof. destruct r; auto. Qed.

(* ------------------------------------------------------------------ the ALT state machine touches live blocks only *)
Lemma live_of_active l p y : dz_ok l -> find_blk p l = Some y -> active (bst y) = true -> deleted (bst y) = false.
Proof. intros Z F A. destruct (deleted (bst y)) eqn:D; auto. destruct (Z p y F D) as (_ & _ & C). congruence. Qed.
Lemma live_of_level l p y : dz_ok l -> find_blk p l = Some y -> (1 <= level (bst y))%N -> deleted (bst y) = false.
Proof. intros Z F A. destruct (deleted (bst y)) eqn:D; auto. destruct (Z p y F D) as (C & _ & _). lia. Qed.
Lemma live_of_haspl l p y : dz_ok l -> find_blk p l = Some y -> haspl (bst y) = true -> deleted (bst y) = false.
Proof. intros Z F A. destruct (deleted (bst y)) eqn:D; auto. destruct (Z p y F D) as (_ & C & _). congruence. Qed.

Lemma unapply_block_dq l ap id l' ap' : dz_ok l -> unapply_block (l, ap) id = Done (l', ap') -> dq l l'.
Proof.
  intros Z. unfold unapply_block. destruct (find_blk id l) as [x|] eqn:F; [|discriminate].
  destruct (bparent x); [|discriminate].
  intros H. bind_inv H. unfold assert in E. destruct (active (bst x)) eqn:A; [|discriminate].
  repeat bind_inv H. inversion H; subst. eapply dq_upd_live; eauto. eapply live_of_active; eauto.
Qed.

Lemma unapply_list_dq ids : forall l ap l' ap', dz_ok l -> unapply_list (l, ap) ids = Done (l', ap') -> dq l l'.
Proof.
  induction ids as [|i r IH]; simpl; intros l ap l' ap' Z H.
  - inversion H; subst. apply dq_refl.
  - bind_inv H. destruct a as [l1 ap1]. pose proof (unapply_block_dq _ _ _ _ _ Z E) as Q.
    eapply dq_trans; [exact Q|]. eapply IH; eauto. eapply dq_dz; eauto.
Qed.

Lemma apply_block_dq l ap id l' ap' ok : dz_ok l -> apply_block (l, ap) id = Done (l', ap', ok) -> dq l l'.
Proof.
  intros Z. unfold apply_block. destruct (find_blk id l) as [x|] eqn:F; [|discriminate].
  destruct (bparent x); [|discriminate]. destruct (st_of l n) as [ps|]; [|discriminate].
  intros H. repeat bind_inv H.
  destruct (negb (is_valid L_TREE (bst x))) eqn:V.
  - inversion H; subst. apply dq_refl.
  - repeat bind_inv H.
    match goal with R : raise_validity _ _ _ = Done ?a |- _ => destruct a as [c b];
      destruct (raise_validity_fl _ _ _ _ _ R) as (_ & _ & _ & _ & DD) end.
    inversion H; subst; clear H. simpl.
    assert (Dx : deleted (bst x) = false).
    { eapply live_of_level; eauto. apply negb_false_iff in V. unfold is_valid in V. apply andb_true_iff in V.
      destruct V as [_ V]. unfold valid_upto, L_TREE in V. apply N.leb_le in V. exact V. }
    eapply dq_upd_const_live; eauto; simpl; congruence.
Qed.

Lemma apply_list_dq ids : forall l ap dn l' ap' ok, dz_ok l -> apply_list (l, ap) dn ids = Done (l', ap', ok) -> dq l l'.
Proof.
  induction ids as [|i r IH]; simpl; intros l ap dn l' ap' ok Z H.
  - inversion H; subst. apply dq_refl.
  - bind_inv H. destruct a as [[l1 ap1] ok1].
    pose proof (apply_block_dq _ _ _ _ _ _ Z E) as F1.
    destruct ok1.
    + eapply dq_trans; [exact F1|]. eapply IH; eauto. eapply dq_dz; eauto.
    + bind_inv H. destruct a as [l2 ap2]. inversion H; subst. eapply unapply_list_dq; eauto.
Qed.

Lemma sm_apply_dq l ap from to l' ap' ok : dz_ok l -> sm_apply (l, ap) from to = Done (l', ap', ok) -> dq l l'.
Proof.
  intros Z. unfold sm_apply. destruct (from =? to)%N.
  - intros H; inversion H; subst; apply dq_refl.
  - simpl. destruct (st_of l to); [|discriminate]. destruct (negb (is_valid L_TREE s)).
    + intros H; inversion H; subst; apply dq_refl.
    + apply apply_list_dq; auto.
Qed.

Lemma sm_set_state_dq l ap from to l' ap' ok : dz_ok l -> sm_set_state (l, ap) from to = Done (l', ap', ok) -> dq l l'.
Proof.
  intros Z. unfold sm_set_state. destruct (from =? to)%N.
  - intros H; inversion H; subst; apply dq_refl.
  - simpl. destruct (fork_of l from to); [|discriminate]. intros H.
    bind_inv H. destruct a as [l1 ap1]. pose proof (unapply_list_dq _ _ _ _ _ Z E) as F1.
    pose proof (dq_dz _ _ F1 Z) as Z1.
    bind_inv H. destruct a as [[l2 ap2] ok2]. pose proof (sm_apply_dq _ _ _ _ _ _ _ Z1 E0) as F2.
    pose proof (dq_dz _ _ F2 Z1) as Z2.
    destruct ok2.
    + inversion H; subst. eapply dq_trans; eauto.
    + bind_inv H. destruct a as [[l3 ap3] ok3]. bind_inv H. inversion H; subst.
      pose proof (sm_apply_dq _ _ _ _ _ _ _ Z2 E1) as F3.
      eapply dq_trans; [exact F1|]. eapply dq_trans; eauto.
Qed.

Lemma alt_set_state_dq s to s1 ok : dz_ok (blocks s) -> alt_set_state s to = Done (s1, ok) -> dq (blocks s) (blocks s1).
Proof.
  intros Z. unfold alt_set_state.
  destruct (find_blk (tip s) (blocks s)); [|discriminate]. destruct (find_blk to (blocks s)); [|discriminate].
  intros H. repeat bind_inv H.
  match goal with R : sm_set_state _ _ _ = Done ?a |- _ => destruct a as [[l1 ap1] ok1];
    pose proof (sm_set_state_dq _ _ _ _ _ _ _ Z R) as F end.
  destruct (st_of l1 to); [|discriminate]. destruct ok1; repeat bind_inv H; inversion H; subst; simpl; auto.
Qed.

Lemma set_state_to_dq s to s1 : dz_ok (blocks s) -> set_state_to s to = Done s1 -> dq (blocks s) (blocks s1).
Proof.
  intros Z. unfold set_state_to. destruct (tkind s).
  - intros H. bind_inv H. destruct a as [s2 ok]. bind_inv H. inversion H; subst. eapply alt_set_state_dq; eauto.
  - intros H; inversion H; subst; simpl. apply dq_refl.
Qed.

(* ------------------------------------------------------------------ invalidateSubtree / revalidateSubtree / setState *)
Lemma invalidate_dq s id r ord s' : wf (blocks s) -> dz_ok (blocks s) -> invalidate s id r ord = Done s' -> dq (blocks s) (blocks s').
Proof.
  intros W Z. unfold invalidate.
  destruct (find_blk id (blocks s)) as [x|]; [|discriminate].
  destruct (deleted (bst x)); [discriminate|]. destruct (bparent x) as [pp|]; [|discriminate].
  destruct (has_reason r (bst x)); [intros E; inversion E; subst; apply dq_refl|].
  intros E. bind_inv E.
  destruct (negb (is_valid L_TREE (bst x))).
  - inversion E; subst; simpl. apply dq_upd_fields. intros st. apply set_reason_fields.
  - assert (S1 : exists s1, (if on_chain s id then set_state_to s pp else Done s) = Done s1 /\
                 dq (blocks s) (blocks s1) /\ wf (blocks s1)).
    { destruct (on_chain s id).
      - destruct (set_state_to s pp) as [s1| |] eqn:SS; simpl in E; try discriminate.
        exists s1. split; auto. split; [eapply set_state_to_dq; eauto|].
        destruct (set_state_to_fl _ _ _ W SS) as [FE _]. eapply same_skel_wf; [apply fl_eq_skel; eauto|auto].
      - exists s. split; [reflexivity|]. split; [apply dq_refl|exact W]. }
    destruct S1 as (s1 & ES & Q1 & W1). rewrite ES in E. simpl in E.
    set (l1 := upd id (set_reason r true) (blocks s1)) in *.
    assert (Wl1 : wf l1) by (eapply same_skel_wf; [apply upd_skel|auto]).
    destruct (mark_pass id l1) as [[l2 c] vs] eqn:M.
    pose proof (mark_pass_gpass id l1) as [G1 _]. rewrite M in G1. simpl in G1.
    inversion E; subst s'; clear E. rewrite (proj1 (update_tips_blocks _ ord)). simpl. rewrite G1.
    eapply dq_trans; [exact Q1|]. eapply dq_trans; [apply dq_upd_fields; intros st; apply set_reason_fields|].
    apply dq_gpass; auto.
Qed.

Lemma revalidate_core_dq s id r : wf (blocks s) -> dq (blocks s) (blocks (revalidate_core s id r)).
Proof.
  intros W. unfold revalidate_core. destruct (find_blk id (blocks s)) as [x|]; [|apply dq_refl].
  destruct (negb (has_reason r (bst x))); [apply dq_refl|].
  set (l1 := upd id (set_reason r false) (blocks s)).
  assert (M1 : dq (blocks s) l1) by (apply dq_upd_fields; intros st; apply set_reason_fields).
  destruct (has_other_failure r (bst x)); simpl; auto.
  destruct (reval_pass (tkind s) l1 id l1 (try_add_tip (tkind s) l1 (tips s) id)) as [[l2 tp] c] eqn:M.
  pose proof (reval_pass_gpass (tkind s) l1 id l1 (try_add_tip (tkind s) l1 (tips s) id)) as [G1 _].
  rewrite M in G1. simpl in G1. simpl. rewrite G1.
  eapply dq_trans; [exact M1|]. apply dq_gpass. eapply same_skel_wf; [apply upd_skel|auto].
Qed.

Lemma revalidate_dq s id r ord s' : wf (blocks s) -> revalidate s id r ord = Done s' -> dq (blocks s) (blocks s').
Proof.
  intros W. unfold revalidate. destruct (find_blk id (blocks s)) as [x|]; [|discriminate].
  destruct (deleted (bst x)); [discriminate|]. destruct (bparent x); [|discriminate].
  destruct (negb (has_reason r (bst x))); [intros E; inversion E; subst; apply dq_refl|].
  destruct (has_other_failure r (bst x)); intros E; inversion E; subst.
  - apply revalidate_core_dq; auto.
  - rewrite (proj1 (update_tips_blocks _ ord)). apply revalidate_core_dq; auto.
Qed.

Lemma alt_set_dq s id s' res : dz_ok (blocks s) -> alt_set s id = Done (s', res) -> dq (blocks s) (blocks s').
Proof.
  intros Z. unfold alt_set. destruct (find_blk id (blocks s)) as [x|]; [|discriminate].
  destruct (deleted (bst x)); [discriminate|]. destruct (negb (valid_upto L_CONNECTED (bst x))); [discriminate|].
  intros H. bind_inv H. destruct a as [s1 ok]. inversion H; subst. simpl. eapply alt_set_state_dq; eauto.
Qed.

(* ------------------------------------------------------------------ acceptBlock *)
Lemma dq_cons x x' r r' : skel x = skel x' -> deleted (bst x') = deleted (bst x) ->
  (deleted (bst x) = true -> dzf (bst x') = dzf (bst x)) -> dq r r' -> dq (x :: r) (x' :: r').
Proof.
  intros S D Zf [SK H]. split; [unfold same_skel in *; simpl; congruence|].
  intros p y y' F F'. simpl in F, F'.
  assert (E : bid x = bid x') by (unfold skel in S; congruence). rewrite <- E in F'.
  destruct (bid x =? p)%N; [inversion F; inversion F'; subst; auto|eauto].
Qed.

Lemma connect_pass_dq l0 t : forall l tps l' tps' c, (forall y, In y l -> dzP (bst y)) ->
  connect_pass l0 t l tps = Done (l', tps', c) -> dq l l'.
Proof.
  induction l as [|x r IH]; simpl; intros tps l' tps' c Z E.
  - inversion E; subst. apply dq_refl.
  - bind_inv E. destruct a as [[o tp1] ct].
    assert (Q : dq r o) by (eapply IH; eauto).
    destruct ((bid x =? t)%N || (match bparent x with Some p => memN p ct | None => false end && haspl (bst x))).
    + bind_inv E. destruct a as [x' tp2]. inversion E; subst; clear E. simpl.
      unfold connect_block in E1. bind_inv E1. unfold assert in E. destruct (haspl (bst x)) eqn:HP; [|discriminate].
      repeat bind_inv E1.
      match goal with R : raise_validity _ _ _ = Done ?a |- _ => destruct a as [s1 b1];
        destruct (raise_validity_fl _ _ _ _ _ R) as (_ & _ & _ & _ & DD) end.
      inversion E1; subst. simpl.
      assert (Dx : deleted (bst x) = false).
      { destruct (deleted (bst x)) eqn:D; auto. destruct (Z x (or_introl eq_refl) D) as (_ & C & _). congruence. }
      apply dq_cons; auto; simpl; try congruence; try (intros D; congruence).
    + inversion E; subst. apply dq_cons; auto.
Qed.

Lemma dz_ok_In l : wf l -> dz_ok l -> forall y, In y l -> dzP (bst y).
Proof. intros W Z y Hy. apply (Z (bid y) y). apply wf_In_find; auto. Qed.

Lemma alt_body_dq s id s' res : wf (blocks s) -> dz_ok (blocks s) -> alt_body s id = Done (s', res) -> dq (blocks s) (blocks s').
Proof.
  intros W Z. unfold alt_body. destruct (find_blk id (blocks s)) as [x|] eqn:Fx; [|discriminate].
  destruct (deleted (bst x)) eqn:Dx; [discriminate|]. destruct (bparent x) as [p|]; [|discriminate].
  destruct (haspl (bst x)); [discriminate|]. destruct (negb (valid_upto L_TREE (bst x))); [discriminate|].
  intros E. bind_inv E.
  assert (Q1 : dq (blocks s) (upd id (set_haspl true) (blocks s))) by (eapply dq_upd_live; eauto).
  set (l1 := upd id (set_haspl true) (blocks s)) in *.
  assert (W1 : wf l1) by (eapply same_skel_wf; [apply upd_skel|auto]).
  pose proof (dq_dz _ _ Q1 Z) as Z1.
  destruct (st_of l1 p); [|discriminate].
  destruct (negb (valid_upto L_CONNECTED s0)).
  - inversion E; subst; simpl. exact Q1.
  - bind_inv E. destruct a0 as [[l2 tps] c]. inversion E; subst; simpl.
    eapply dq_trans; [exact Q1|]. eapply connect_pass_dq; eauto. apply dz_ok_In; auto.
Qed.

(* ------------------------------------------------------------------ removeSubtree *)
Lemma remove_pass_closed t : forall l, wf l -> forall c x q, find_blk c l = Some x -> bparent x = Some q ->
  memN q (snd (remove_pass t l)) = true -> memN c (snd (remove_pass t l)) = true \/ deleted (bst x) = true.
Proof.
  induction l as [|z r IH]; intros W c x q F P M; [discriminate|].
  pose proof W as W0. destruct W as (Wr & Hz & Hp). simpl in M |- *. simpl in F.
  destruct (remove_pass_spec t r Wr) as (_ & B & _).
  destruct (remove_pass t r) as [o v] eqn:RP. simpl in IH, B.
  destruct (N.eqb_spec (bid z) c) as [E|E].
  - inversion F; subst x. rewrite P in *.
    assert (Mq : memN q v = true).
    { destruct ((bid z =? t)%N || (memN q v && negb (deleted (bst z)))); simpl in M; auto.
      apply orb_true_iff in M. destruct M as [M|M]; auto. apply N.eqb_eq in M. exfalso.
      apply (wf_own_parent z r q W0 P). auto. }
    rewrite Mq. simpl. destruct (deleted (bst z)) eqn:D; auto. left.
    rewrite orb_true_r. simpl. rewrite E, N.eqb_refl. reflexivity.
  - assert (Mq : memN q v = true).
    { destruct ((bid z =? t)%N || (match bparent z with Some p => memN p v | None => false end && negb (deleted (bst z))));
        simpl in M; auto.
      apply orb_true_iff in M. destruct M as [M|M]; auto. apply N.eqb_eq in M. exfalso.
      apply (wf_parent_not_head z r W0 c x q F P). auto. }
    destruct (IH Wr c x q F P Mq) as [K|K]; auto. left.
    destruct ((bid z =? t)%N || (match bparent z with Some p => memN p v | None => false end && negb (deleted (bst z))));
      simpl; auto. rewrite K. apply orb_true_r.
Qed.

Lemma remove_pass_S3 t l : wf l -> S3_ok l -> S3_ok (fst (remove_pass t l)).
Proof.
  intros W [Z C]. destruct (remove_pass_spec t l W) as (A & _ & _).
  pose proof (remove_pass_closed t l W) as CL.
  destruct (remove_pass t l) as [l2 vs] eqn:RP. simpl in *.
  split.
  - intros p y' F' D. rewrite A in F'. destruct (find_blk p l) as [y|] eqn:F; [|discriminate]. simpl in F'.
    inversion F'; subst y'. destruct (memN p vs); simpl in *; auto. apply (Z p y F D).
  - intros c x' q y' Fc P Fq D. rewrite A in Fc, Fq.
    destruct (find_blk c l) as [x|] eqn:Fc0; [|discriminate]. destruct (find_blk q l) as [y|] eqn:Fq0; [|discriminate].
    simpl in Fc, Fq. inversion Fc; subst x'. inversion Fq; subst y'. clear Fc Fq.
    assert (Px : bparent x = Some q) by (destruct (memN c vs); simpl in P; auto).
    destruct (memN c vs) eqn:Mc; simpl; auto.
    destruct (memN q vs) eqn:Mq; simpl in D.
    + destruct (CL c x q Fc0 Px Mq) as [K|K]; [congruence|exact K].
    + eapply C; eauto.
Qed.

Lemma remove_subtree_S3 s id ord s' : wf (blocks s) -> S3_ok (blocks s) -> remove_subtree s id ord = Done s' -> S3_ok (blocks s').
Proof.
  intros W S3. unfold remove_subtree. destruct (find_blk id (blocks s)) as [x|]; [|discriminate].
  destruct (deleted (bst x)); [discriminate|]. destruct (bparent x) as [p|]; [|discriminate].
  intros E. bind_inv E.
  assert (K : S3_ok (blocks a) /\ wf (blocks a)).
  { destruct (on_chain s id).
    - split; [eapply dq_S3; [eapply set_state_to_dq; eauto; apply S3|exact S3]|].
      destruct (set_state_to_fl _ _ _ W E0) as [FE _]. eapply same_skel_wf; [apply fl_eq_skel; eauto|auto].
    - inversion E0; subst; auto. }
  destruct K as [S3a Wa]. pose proof (remove_pass_S3 id (blocks a) Wa S3a) as R.
  destruct (remove_pass id (blocks a)) as [l2 vs]. simpl in R.
  inversion E; subst; clear E.
  destruct (on_chain s id); simpl; auto. rewrite (proj1 (update_tips_blocks _ ord)). exact R.
Qed.

(* ------------------------------------------------------------------ insertBlockHeader *)
Lemma insert_header_S3 s id par w s' p : wf (blocks s) -> S3_ok (blocks s) ->
  (forall x, find_blk id (blocks s) = Some x -> bparent x = Some par) ->
  find_blk par (blocks s) = Some p -> deleted (bst p) = false -> par <> id ->
  insert_header s id par w = Done s' ->
  S3_ok (blocks s') /\ (forall x', find_blk id (blocks s') = Some x' -> deleted (bst x') = false).
Proof.
  intros W [Z C] HX Fp Dp N. unfold insert_header.
  destruct (find_blk id (blocks s)) as [x|] eqn:Fx.
  - pose proof (HX x eq_refl) as Px. pose proof (find_blk_bid _ _ _ Fx) as Bx.
    destruct (deleted (bst x)) eqn:Dx.
    + rewrite find_upd, Fx. simpl. rewrite Bx, N.eqb_refl. intros E. bind_inv E. destruct a as [c b].
      inversion E; subst s'; clear E. simpl. rewrite upd_upd.
      destruct (raise_validity_fl _ _ _ _ _ E0) as (_ & _ & _ & _ & DD). simpl in DD.
      assert (FU : forall q, find_blk q (upd id (fun _ => c) (blocks s)) =
                   option_map (fun y => if (bid y =? id)%N then with_st y c else y) (find_blk q (blocks s))).
      { intros q. apply find_upd. }
      split; [split|].
      * intros q y' F' D. rewrite FU in F'. destruct (find_blk q (blocks s)) as [y|] eqn:F; [|discriminate].
        simpl in F'. inversion F'; subst y'. destruct (bid y =? id)%N; simpl in *; [congruence|]. apply (Z q y F D).
      * intros c0 x' q y' Fc P Fq D. rewrite FU in Fc, Fq.
        destruct (find_blk c0 (blocks s)) as [x0|] eqn:Fc0; [|discriminate].
        destruct (find_blk q (blocks s)) as [y0|] eqn:Fq0; [|discriminate].
        simpl in Fc, Fq. inversion Fc; subst x'. inversion Fq; subst y'. clear Fc Fq.
        destruct (N.eqb_spec (bid y0) id) as [Ey|Ey]; simpl in D; [congruence|].
        destruct (N.eqb_spec (bid x0) id) as [Ex|Ex]; simpl in *.
        -- exfalso. rewrite (find_blk_bid _ _ _ Fc0) in Ex. subst c0. rewrite Fx in Fc0. inversion Fc0; subst x0.
           rewrite Px in P. inversion P; subst q. rewrite Fp in Fq0. inversion Fq0; subst. congruence.
        -- eapply C; eauto.
      * intros x' F'. rewrite FU, Fx in F'. simpl in F'. rewrite Bx, N.eqb_refl in F'. inversion F'; subst. simpl. congruence.
    + intros E; inversion E; subst s'. split; [split; auto|]. intros x' F'. rewrite Fx in F'. inversion F'; subst. exact Dx.
  - rewrite Fp. intros E. bind_inv E. destruct a as [c b]. inversion E; subst s'; clear E. simpl.
    destruct (raise_validity_fl _ _ _ _ _ E0) as (_ & _ & _ & _ & DD). simpl in DD.
    split; [split|].
    + intros q y' F' D. simpl in F'. destruct (N.eqb_spec id q) as [E|E].
      * inversion F'; subst y'. simpl in D. congruence.
      * apply (Z q y' F' D).
    + intros c0 x' q y' Fc P Fq D. simpl in Fc, Fq.
      destruct (N.eqb_spec id q) as [Eq|Eq]; [inversion Fq; subst y'; simpl in D; congruence|].
      destruct (N.eqb_spec id c0) as [Ec|Ec].
      * inversion Fc; subst x'. simpl in P. inversion P; subst q. rewrite Fp in Fq. inversion Fq; subst. congruence.
      * eapply C; eauto.
    + intros x' F'. simpl in F'. rewrite N.eqb_refl in F'. inversion F'; subst. simpl. congruence.
Qed.

(* ------------------------------------------------------------------ acceptBlockHeader, removePayloads *)
Lemma alt_hdr_S3 s id parent s' res : wf (blocks s) -> S3_ok (blocks s) -> alt_hdr s id parent = Done (s', res) -> S3_ok (blocks s').
Proof.
  intros W S3. unfold alt_hdr.
  assert (K : forall par p s1, (forall x, find_blk id (blocks s) = Some x -> bparent x = Some par) ->
            find_blk par (blocks s) = Some p -> deleted (bst p) = false -> par <> id ->
            insert_header s id par 0 = Done s1 ->
            forall r, match st_of (blocks s1) id with
                      | Some st => if is_valid L_TREE st
                                   then Done (with_tips s1 (try_add_tip (tkind s1) (blocks s1) (tips s1) id), ROk)
                                   else Done (s1, RFailChain)
                      | None => Abort end = Done (s', r) -> S3_ok (blocks s')).
  { intros par p s1 HX Fp Dp N E r. destruct (insert_header_S3 s id par 0 s1 p W S3 HX Fp Dp N E) as [S1 _].
    destruct (st_of (blocks s1) id); [|discriminate].
    destruct (is_valid L_TREE s0); intros E2; inversion E2; subst; simpl; auto. }
  destruct (find_blk id (blocks s)) as [x|] eqn:Fx.
  - destruct (deleted (bst x)); [|discriminate]. destruct (bparent x) as [p0|] eqn:Px; [|discriminate].
    destruct (find_blk p0 (blocks s)) as [p|] eqn:Fp; [|discriminate].
    destruct (deleted (bst p)) eqn:Dp; [intros E; inversion E; subst; auto|].
    intros E. bind_inv E. eapply (K p0 p a); eauto.
    + intros x0 F0. inversion F0; subst. exact Px.
    + eapply wf_parent_ne; eauto.
  - destruct (find_blk parent (blocks s)) as [p|] eqn:Fp; [|intros E; inversion E; subst; auto].
    destruct (deleted (bst p)) eqn:Dp; [intros E; inversion E; subst; auto|].
    intros E. bind_inv E. eapply (K parent p a); eauto.
    + intros x0 F0. discriminate.
    + intros ->. congruence.
Qed.

Lemma pow_hdr_S3 s id parent w s' res : wf (blocks s) -> S3_ok (blocks s) -> pow_hdr s id parent w = Done (s', res) -> S3_ok (blocks s').
Proof.
  intros W S3. unfold pow_hdr.
  assert (K : forall par p s1, (forall x, find_blk id (blocks s) = Some x -> bparent x = Some par) ->
    find_blk par (blocks s) = Some p -> deleted (bst p) = false -> par <> id ->
    insert_header s id par w = Done s1 ->
    match find_blk id (blocks s1) with
    | None => Abort
    | Some x1 =>
      do rv <- raise_validity (blocks s1) x1 L_CONNECTED;
      let l2 := upd id (fun _ => fst rv) (blocks s1) in
      if negb (is_valid L_TREE (bst p)) then
        Done (with_blocks s1 (upd id (set_fchild true) l2), RFailChain)
      else
        let s2 := mkTree (tkind s) l2 (try_add_tip (tkind s) l2 (tips s1) id) (tip s1) (applied s1) in
        Done (pow_determine_best s2 id, ROk)
    end = Done (s', res) -> S3_ok (blocks s')).
  { intros par p s1 HX Fp Dp N E1 E2.
    destruct (insert_header_S3 s id par w s1 p W S3 HX Fp Dp N E1) as [S1 LV].
    destruct (find_blk id (blocks s1)) as [x1|] eqn:Fx1; [|discriminate].
    bind_inv E2. destruct a as [c b]. destruct (raise_validity_fl _ _ _ _ _ E) as (_ & _ & _ & _ & DD). simpl in E2.
    assert (Q : dq (blocks s1) (upd id (fun _ => c) (blocks s1))).
    { eapply dq_upd_const_live; eauto; rewrite ?DD; auto. }
    destruct (negb (is_valid L_TREE (bst p))).
    - inversion E2; subst s'; clear E2. simpl. eapply dq_S3; [|exact S1].
      eapply dq_trans; [exact Q|]. apply dq_upd_fields. intros st. auto.
    - inversion E2; subst s'; clear E2. rewrite (proj1 (pow_determine_best_blocks _ id)). simpl.
      eapply dq_S3; eauto. }
  destruct (find_blk id (blocks s)) as [x|] eqn:Fx.
  - destruct (bparent x) as [p0|] eqn:Px; [|discriminate].
    destruct (find_blk p0 (blocks s)) as [p|] eqn:Fp; [|intros E; inversion E; subst; auto].
    destruct (deleted (bst p)) eqn:Dp; [intros E; inversion E; subst; auto|].
    intros E. bind_inv E. eapply (K p0 p a); eauto.
    + intros x0 F0. inversion F0; subst x0. exact Px.
    + eapply wf_parent_ne; eauto.
  - destruct (find_blk parent (blocks s)) as [p|] eqn:Fp; [|intros E; inversion E; subst; auto].
    destruct (deleted (bst p)) eqn:Dp; [intros E; inversion E; subst; auto|].
    intros E. bind_inv E. eapply (K parent p a); eauto.
    + intros x0 F0. discriminate.
    + intros ->. congruence.
Qed.

Lemma alt_rmpl_S3 s id s' : wf (blocks s) -> S3_ok (blocks s) -> alt_rmpl s id = Done s' -> S3_ok (blocks s').
Proof.
  intros W S3. unfold alt_rmpl. destruct (find_blk id (blocks s)) as [x|] eqn:Fx; [|discriminate].
  destruct (deleted (bst x)) eqn:Dx; [discriminate|]. destruct (bparent x) as [p|]; [|discriminate].
  destruct (negb (haspl (bst x)) || active (bst x) ||
            negb (forallb (fun c => negb (valid_upto L_CONNECTED (bst c))) (children (blocks s) id))); [discriminate|].
  set (s1 := with_blocks s (upd id (set_haspl false) (blocks s))).
  assert (Q1 : dq (blocks s) (blocks s1)) by (simpl; eapply dq_upd_live; eauto).
  assert (W1 : wf (blocks s1)) by (eapply same_skel_wf; [apply upd_skel|exact W]).
  pose proof (revalidate_core_dq s1 id RPop W1) as Q2.
  set (s2 := revalidate_core s1 id RPop) in *.
  pose proof (dq_trans _ _ _ Q1 Q2) as Q12.
  unfold st_of. destruct (find_blk id (blocks s2)) as [x2|] eqn:Fx2; [|discriminate]. simpl.
  assert (Dx2 : deleted (bst x2) = false).
  { destruct Q12 as [_ H]. destruct (H id x x2 Fx Fx2) as [D _]. congruence. }
  intros E. bind_inv E. inversion E; subst s'; clear E. simpl.
  destruct (valid_upto L_CONNECTED (bst x2)).
  - bind_inv E0. inversion E0; subst a; clear E0. eapply dq_S3; [|exact S3].
    eapply dq_trans; [exact Q12|]. eapply dq_upd_const_live; eauto.
    unfold lower_validity. destruct (fpop (bst x2)); simpl; auto. destruct (L_TREE <? level (bst x2))%N; simpl; auto.
  - inversion E0; subst a. eapply dq_S3; eauto.
Qed.

(* ------------------------------------------------------------------ every operation *)
Lemma S3_init_alt h : S3_ok (blocks (alt_init h)).
Proof.
  split.
  - intros p y F D. simpl in F. destruct p; [inversion F; subst; cbv in D; discriminate D|discriminate F].
  - intros c x q y Fc P Fq D. simpl in Fq. destruct q; [inversion Fq; subst; cbv in D; discriminate D|discriminate Fq].
Qed.
Lemma S3_init_pow h w : S3_ok (blocks (pow_init h w)).
Proof.
  split.
  - intros p y F D. simpl in F. destruct p; [inversion F; subst; cbv in D; discriminate D|discriminate F].
  - intros c x q y Fc P Fq D. simpl in Fq. destruct q; [inversion Fq; subst; cbv in D; discriminate D|discriminate Fq].
Qed.

Theorem step_out_S3 s o s' res : wf (blocks s) -> S3_ok (blocks s) -> step_out s o = Done (s', res) -> S3_ok (blocks s').
Proof.
  intros W S3. pose proof S3 as [Z _]. unfold step_out. destruct (tkind s) eqn:K, o; try discriminate.
  - apply alt_hdr_S3; auto.
  - intros E. eapply dq_S3; [eapply alt_body_dq; eauto|exact S3].
  - intros E. eapply dq_S3; [eapply alt_set_dq; eauto|exact S3].
  - intros E. bind_inv E. inversion E; subst. eapply dq_S3; [eapply invalidate_dq; eauto|exact S3].
  - intros E. bind_inv E. inversion E; subst. eapply dq_S3; [eapply revalidate_dq; eauto|exact S3].
  - intros E. bind_inv E. inversion E; subst. eapply remove_subtree_S3; eauto.
  - intros E. bind_inv E. inversion E; subst. eapply alt_rmpl_S3; eauto.
  - apply pow_hdr_S3; auto.
  - intros E. bind_inv E. inversion E; subst. eapply dq_S3; [eapply invalidate_dq; eauto|exact S3].
  - intros E. bind_inv E. inversion E; subst. eapply dq_S3; [eapply revalidate_dq; eauto|exact S3].
  - intros E. bind_inv E. inversion E; subst. eapply remove_subtree_S3; eauto.
Qed.

Theorem step_S3 s o : Inv_flags s -> S3_ok (blocks s) -> S3_ok (blocks (step s o)).
Proof.
  intros I S3. unfold step. destruct (step_out s o) as [[s1 r]| |] eqn:E; auto.
  eapply step_out_S3; eauto. apply I.
Qed.
